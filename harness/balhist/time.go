package balhist

import "time"

type timeT = time.Time

func timeNow() time.Time { return time.Now() }
