// Package balhist is a differential monitor shared by C09 and C14: a balancer
// table that reached configuration B through reloads must decide exactly like
// a table initialised directly with B ("independent of ... reload count";
// "newly added ones become selectable").
package balhist

import (
	"encoding/json"
	"fmt"
	"net"
	"os"
	"path/filepath"
	"sort"
	"strings"

	"github.com/bfenetworks/bfe/bfe_balance"
	"github.com/bfenetworks/bfe/bfe_basic"
	"github.com/bfenetworks/bfe/bfe_config/bfe_cluster_conf/cluster_conf"
	"github.com/bfenetworks/bfe/bfe_http"

	"verifharness/vkit"
)

// Conf is one generated gslb configuration of a single cluster.
type Conf struct {
	Subs map[string]int `json:"subs"` // sub-cluster -> gslb weight (GSLB_BLACKHOLE included)
}

var names = []string{"0new", "a.sub", "b.sub", "m.sub", "z.sub", "zz.sub"}

func gen(g *vkit.Rand) Conf {
	c := Conf{Subs: map[string]int{"GSLB_BLACKHOLE": 0}}
	n := g.Range(1, 4)
	perm := g.Perm(len(names))
	pos := 0
	for _, i := range perm[:n] {
		w := []int{0, 0, 1, 50, 100}[g.Intn(5)]
		c.Subs[names[i]] = w
		if w > 0 {
			pos++
		}
	}
	if pos == 0 { // the loader requires a positive total
		c.Subs[names[perm[0]]] = 100
	}
	return c
}

func write(dir string, c Conf) (string, string, error) {
	os.MkdirAll(dir, 0o755)
	gs := map[string]interface{}{"Clusters": map[string]map[string]int{"cl": c.Subs}, "Hostname": "", "Ts": "0"}
	ct := map[string][]map[string]interface{}{}
	port := 20000
	for _, n := range names { // every sub-cluster always has backends in the cluster table
		var bs []map[string]interface{}
		for k := 0; k < 2; k++ {
			port++
			bs = append(bs, map[string]interface{}{"Addr": "127.0.0.1", "Name": fmt.Sprintf("%s-b%d", n, k), "Port": port, "Weight": 1})
		}
		ct[n] = bs
	}
	tb := map[string]interface{}{"Version": "v", "Config": map[string]interface{}{"cl": ct}}
	gb, _ := json.Marshal(gs)
	tbb, _ := json.Marshal(tb)
	gf, tf := filepath.Join(dir, "gslb.data"), filepath.Join(dir, "cluster_table.data")
	if err := os.WriteFile(gf, gb, 0o644); err != nil {
		return "", "", err
	}
	return gf, tf, os.WriteFile(tf, tbb, 0o644)
}

func fetcher(string) *cluster_conf.BackendCheck { return nil }

func decide(t *bfe_balance.BalTable) (map[string]string, error) {
	bal, err := t.Lookup("cl")
	if err != nil {
		return nil, err
	}
	out := map[string]string{}
	for i := 0; i < 48; i++ {
		ip := net.IPv4(10, byte(i*7), byte(i*13), byte(i+1))
		req := bfe_basic.NewRequest(&bfe_http.Request{Header: bfe_http.Header{}}, nil, bfe_basic.NewRequestStat(bfeTime()), nil, nil)
		req.ClientAddr = &net.TCPAddr{IP: ip, Port: 1000 + i}
		b, err := bal.Balance(req)
		if err != nil {
			out[ip.String()] = "error:" + err.Error()
			continue
		}
		out[ip.String()] = b.SubCluster
	}
	return out, nil
}

// Run executes n differential histories at the gslb level (sub-cluster choice) and
// n/5 histories of the sticky family at backend level (sticky.go), and reports
// violations on r.
func Run(r *vkit.Run, n int, scratch string) {
	runGslb(r, n, scratch)
	runSticky(r, n/5, scratch)
}

// runGslb executes n differential histories of gslb reloads.
func runGslb(r *vkit.Run, n int, scratch string) {
	for i := 0; i < n; i++ {
		g := r.Rng("balhist", i)
		steps := g.Range(1, 3)
		confs := []Conf{gen(g)}
		for s := 0; s < steps; s++ {
			confs = append(confs, gen(g))
		}
		final := confs[len(confs)-1]
		dir := filepath.Join(scratch, fmt.Sprintf("balhist-%d", i%16))
		// table 1: init with confs[0], reload through the rest
		t1 := bfe_balance.NewBalTable(fetcher)
		gf, tf, err := write(filepath.Join(dir, "s0"), confs[0])
		if err != nil {
			r.Inconclusive(err.Error())
			return
		}
		if err := t1.Init(gf, tf); err != nil {
			r.Count("balhist_init_rejected", 1)
			continue
		}
		ok := true
		for s := 1; s < len(confs); s++ {
			gf, tf, _ := write(filepath.Join(dir, fmt.Sprintf("s%d", s)), confs[s])
			gc, bc, err := t1.BalTableConfLoad(gf, tf)
			if err == nil {
				err = t1.BalTableReload(gc, bc)
			}
			if err != nil {
				ok = false
				break
			}
		}
		if !ok {
			r.Count("balhist_reload_rejected", 1)
			continue
		}
		// table 2: fresh init with the final conf
		t2 := bfe_balance.NewBalTable(fetcher)
		gf, tf, _ = write(filepath.Join(dir, "fresh"), final)
		if err := t2.Init(gf, tf); err != nil {
			r.Count("balhist_fresh_rejected", 1)
			continue
		}
		d1, e1 := decide(t1)
		d2, e2 := decide(t2)
		added, addedBefore := false, false
		var survivors []string
		for nme := range final.Subs {
			if _, was := confs[len(confs)-2].Subs[nme]; was {
				survivors = append(survivors, nme)
			}
		}
		sort.Strings(survivors)
		for nme := range final.Subs {
			if _, was := confs[len(confs)-2].Subs[nme]; !was {
				added = true
				if len(survivors) > 0 && nme < survivors[len(survivors)-1] {
					addedBefore = true
				}
			}
		}
		key := fmt.Sprint(confs)
		r.CaseS("balhist|"+key, added)
		if added {
			r.Count("balhist_reload_added_subcluster", 1)
		}
		if addedBefore {
			r.Count("balhist_added_sorts_before_survivor", 1)
		}
		w := map[string]interface{}{"history": confs, "after_reloads": d1, "fresh_init": d2}
		if e1 != nil || e2 != nil {
			r.Violation("reload-history:lookup-error", fmt.Sprintf("%v / %v", e1, e2), w)
			continue
		}
		var diff []string
		for k, v := range d2 {
			if d1[k] != v {
				diff = append(diff, fmt.Sprintf("%s: reloaded=%s fresh=%s", k, d1[k], v))
			}
		}
		if len(diff) > 0 {
			sort.Strings(diff)
			shape := "same-names"
			if addedBefore {
				shape = "added-subcluster-sorts-before-survivor"
			} else if added {
				shape = "added-subcluster"
			}
			weighted := 0
			for _, wgt := range final.Subs {
				if wgt > 0 {
					weighted++
				}
			}
			if weighted == 1 {
				shape += ":single-weighted"
			}
			r.Violation("reload-history:decision-differs-from-fresh-load:"+shape,
				fmt.Sprintf("the same final gslb configuration decides differently after reloads than after a fresh load (%d of 48 clients), e.g. %s", len(diff), strings.Join(diff[:1], "")), w)
		}
		r.Count("balhist_histories_compared", 1)
		if r.WantSample() && addedBefore {
			r.Sample(map[string]interface{}{"history": confs})
		}
	}
}

func bfeTime() (t timeT) { return timeNow() }
