package balhist

import (
	"encoding/json"
	"fmt"
	"net"
	"os"
	"path/filepath"
	"sort"
	"strings"

	"github.com/bfenetworks/bfe/bfe_balance"
	"github.com/bfenetworks/bfe/bfe_basic"
	"github.com/bfenetworks/bfe/bfe_config/bfe_cluster_conf/cluster_conf"
	"github.com/bfenetworks/bfe/bfe_http"

	"verifharness/vkit"
)

// Sticky family: the same differential at BACKEND level. A cluster with SessionSticky
// on (hash strategy client-ip) maps a hash key to a backend through the sub-cluster's
// backend list in addr:port order; nothing but the configuration enters that choice
// (no clock, no PRNG, no counters). So a table that reached a configuration through
// cluster_table reloads - with sticky requests served in between - must send every key
// to the same (sub-cluster, backend) as a table initialised directly with the same
// files ("independent of ... reload count"; "newly added ones become selectable").

// SBackend is one backend of a sub-cluster (its name is derived from the address).
type SBackend struct {
	Addr   string `json:"addr"`
	Port   int    `json:"port"`
	Weight int    `json:"weight"`
}

func (b SBackend) addrInfo() string { return fmt.Sprintf("%s:%d", b.Addr, b.Port) }

// SSub is one sub-cluster: gslb weight and backends in configuration order.
type SSub struct {
	Name     string     `json:"name"`
	Weight   int        `json:"gslb_weight"`
	Backends []SBackend `json:"backends"`
}

// SHistory is one history: Confs[0] is loaded by Init, every later one by BalTableReload.
type SHistory struct {
	Warm  bool     `json:"sticky_requests_before_each_reload"`
	Confs [][]SSub `json:"confs"`
	Kinds []string `json:"reload_kinds"` // Kinds[s-1] describes Confs[s-1] -> Confs[s] (focus sub-cluster)
	Focus []string `json:"focus_subcluster"`
}

// reload kinds of the focus sub-cluster, classified from the two backend lists
const (
	skNoop    = "noop-same"
	skReorder = "reorder"
	skWeight  = "weight-change"
	skAdd     = "add"
	skRemove  = "remove"
	skReplace = "replace-same-length"
	skMixed   = "mixed"
)

var stickyKinds = []string{skNoop, skReorder, skWeight, skAdd, skRemove, skReplace, skMixed}

const stickyKeys = 256

func stickyKind(prev, next []SBackend) string {
	pw := map[string]int{}
	for _, b := range prev {
		pw[b.addrInfo()] = b.Weight
	}
	nw := map[string]bool{}
	added, changed, removed := 0, 0, 0
	for _, b := range next {
		nw[b.addrInfo()] = true
		if w, ok := pw[b.addrInfo()]; !ok {
			added++
		} else if w != b.Weight {
			changed++
		}
	}
	for _, b := range prev {
		if !nw[b.addrInfo()] {
			removed++
		}
	}
	switch {
	case added == 0 && removed == 0 && changed == 0:
		for i := range prev {
			if prev[i].addrInfo() != next[i].addrInfo() {
				return skReorder
			}
		}
		return skNoop
	case added == 0 && removed == 0:
		return skWeight
	case removed == 0 && changed == 0:
		return skAdd
	case added == 0 && changed == 0:
		return skRemove
	case added == removed && changed == 0:
		return skReplace
	}
	return skMixed
}

func cloneSubs(c []SSub) []SSub {
	out := make([]SSub, len(c))
	for i, s := range c {
		out[i] = SSub{Name: s.Name, Weight: s.Weight, Backends: append([]SBackend{}, s.Backends...)}
	}
	return out
}

var stickySubNames = []string{"a.sub", "m.sub", "z.sub"}

func stickyFresh(g *vkit.Rand, si int, cur []SBackend) SBackend {
	for {
		b := SBackend{Addr: fmt.Sprintf("10.0.%d.%d", si, g.Range(1, 250)), Port: []int{80, 8080, 9000, 443}[g.Intn(4)], Weight: g.Range(1, 3)}
		dup := false
		for _, c := range cur {
			if c.addrInfo() == b.addrInfo() {
				dup = true
			}
		}
		if !dup {
			return b
		}
	}
}

func stickyGenConf(g *vkit.Rand) []SSub {
	n := g.Range(1, 3)
	var c []SSub
	for si := 0; si < n; si++ {
		s := SSub{Name: stickySubNames[si], Weight: 10 * g.Range(1, 3)}
		for k := g.Range(2, 5); k > 0; k-- {
			s.Backends = append(s.Backends, stickyFresh(g, si, s.Backends))
		}
		c = append(c, s)
	}
	return c
}

// stickyMutate edits the backend list of one sub-cluster aiming at kind want.
func stickyMutate(g *vkit.Rand, si int, cur []SBackend, want string) []SBackend {
	next := append([]SBackend{}, cur...)
	insert := func(b SBackend) {
		i := g.Intn(len(next) + 1) // the position in the file is arbitrary
		next = append(next, SBackend{})
		copy(next[i+1:], next[i:])
		next[i] = b
	}
	remove := func() {
		i := g.Intn(len(next))
		next = append(next[:i], next[i+1:]...)
	}
	weight := func() {
		i := g.Intn(len(next))
		w := next[i].Weight%3 + 1
		next[i].Weight = w
	}
	switch want {
	case skNoop:
	case skReorder:
		for try := 0; try < 6; try++ {
			p := g.Perm(len(cur))
			for i, j := range p {
				next[i] = cur[j]
			}
			if stickyKind(cur, next) == skReorder {
				break
			}
		}
	case skWeight:
		for k := g.Range(1, 2); k > 0; k-- {
			weight()
		}
	case skAdd:
		for k := g.Range(1, 2); k > 0 && len(next) < 7; k-- {
			insert(stickyFresh(g, si, append(append([]SBackend{}, cur...), next...)))
		}
	case skRemove:
		for k := g.Range(1, 2); k > 0 && len(next) > 1; k-- {
			remove()
		}
	case skReplace:
		k := g.Range(1, len(cur)) // up to all of them
		if k > 3 {
			k = 3
		}
		for j := 0; j < k; j++ {
			remove()
		}
		for j := 0; j < k; j++ {
			insert(stickyFresh(g, si, append(append([]SBackend{}, cur...), next...)))
		}
	default:
		if len(next) > 1 {
			remove()
		}
		for k := g.Range(2, 3); k > 0 && len(next) < 7; k-- {
			insert(stickyFresh(g, si, append(append([]SBackend{}, cur...), next...)))
		}
		weight()
	}
	return next
}

func stickyGenHistory(g *vkit.Rand, i int) *SHistory {
	h := &SHistory{Warm: i%4 != 0, Confs: [][]SSub{stickyGenConf(g)}}
	steps := g.Range(1, 3)
	for s := 0; s < steps; s++ {
		cur := h.Confs[len(h.Confs)-1]
		next := cloneSubs(cur)
		fi := g.Intn(len(next))
		want := stickyKinds[(i+s)%len(stickyKinds)]
		if s == steps-1 {
			want = stickyKinds[i%len(stickyKinds)] // the last reload walks through the kinds evenly
		}
		next[fi].Backends = stickyMutate(g, fi, cur[fi].Backends, want)
		// now and then another sub-cluster changes in the same reload
		if len(next) > 1 && g.Chance(1, 3) {
			oi := (fi + 1) % len(next)
			next[oi].Backends = stickyMutate(g, oi, cur[oi].Backends, stickyKinds[g.Intn(len(stickyKinds))])
		}
		h.Confs = append(h.Confs, next)
		h.Kinds = append(h.Kinds, stickyKind(cur[fi].Backends, next[fi].Backends))
		h.Focus = append(h.Focus, next[fi].Name)
	}
	return h
}

func stickyWrite(dir string, c []SSub, ver int) (string, string, error) {
	if err := os.MkdirAll(dir, 0o755); err != nil {
		return "", "", err
	}
	subs := map[string]int{"GSLB_BLACKHOLE": 0}
	ct := map[string][]map[string]interface{}{}
	for _, s := range c {
		subs[s.Name] = s.Weight
		bs := []map[string]interface{}{}
		for _, b := range s.Backends {
			bs = append(bs, map[string]interface{}{"Addr": b.Addr, "Name": "b-" + b.addrInfo(), "Port": b.Port, "Weight": b.Weight})
		}
		ct[s.Name] = bs
	}
	gs := map[string]interface{}{"Clusters": map[string]map[string]int{"cl": subs}, "Hostname": "", "Ts": "0"}
	tb := map[string]interface{}{"Version": fmt.Sprint("v", ver), "Config": map[string]interface{}{"cl": ct}}
	gb, _ := json.Marshal(gs)
	tbb, _ := json.Marshal(tb)
	gf, tf := filepath.Join(dir, "gslb.data"), filepath.Join(dir, "cluster_table.data")
	if err := os.WriteFile(gf, gb, 0o644); err != nil {
		return "", "", err
	}
	return gf, tf, os.WriteFile(tf, tbb, 0o644)
}

func stickyOn(t *bfe_balance.BalTable) error {
	bal, err := t.Lookup("cl")
	if err != nil {
		return err
	}
	cross, retry, strategy, sticky, mode := 0, 2, cluster_conf.ClientIpOnly, true, cluster_conf.BalanceModeWrr
	bal.SetGslbBasic(cluster_conf.GslbBasicConf{CrossRetry: &cross, RetryMax: &retry,
		HashConf: &cluster_conf.HashConf{HashStrategy: &strategy, SessionSticky: &sticky}, BalanceMode: &mode})
	return nil
}

// stickyDecide sends stickyKeys requests with distinct client addresses through the
// sticky cluster; result per key: "sub-cluster|addr:port" or "error:...".
func stickyDecide(t *bfe_balance.BalTable) ([]string, error) {
	bal, err := t.Lookup("cl")
	if err != nil {
		return nil, err
	}
	out := make([]string, stickyKeys)
	for i := 0; i < stickyKeys; i++ {
		ip := net.IPv4(10, byte(i*7), byte(i*13), byte(i+1))
		req := bfe_basic.NewRequest(&bfe_http.Request{Header: bfe_http.Header{}}, nil, bfe_basic.NewRequestStat(bfeTime()), nil, nil)
		req.ClientAddr = &net.TCPAddr{IP: ip, Port: 1000 + i}
		b, err := bal.Balance(req)
		if err != nil {
			out[i] = "error:" + err.Error()
			continue
		}
		out[i] = b.SubCluster + "|" + b.GetAddrInfo()
	}
	return out, nil
}

// RunStickyHistory executes one history and compares, after every reload (cold
// histories: after the last one only), the reloaded table with a table initialised
// from the same two files. It returns false when the history could not be run.
func RunStickyHistory(r *vkit.Run, h *SHistory, dir string) bool {
	defer os.RemoveAll(dir)
	t1 := bfe_balance.NewBalTable(fetcher)
	gf, tf, err := stickyWrite(filepath.Join(dir, "s0"), h.Confs[0], 0)
	if err != nil {
		r.Inconclusive("balhist sticky: " + err.Error())
		return false
	}
	if err := t1.Init(gf, tf); err != nil {
		r.Violation("reloaded-vs-fresh:sticky-init-rejected", "generated gslb/cluster_table files rejected by BalTable.Init: "+err.Error(), map[string]interface{}{"balhist_sticky": h})
		return false
	}
	if err := stickyOn(t1); err != nil {
		r.Violation("reloaded-vs-fresh:sticky-lookup-error", err.Error(), map[string]interface{}{"balhist_sticky": h})
		return false
	}
	served := map[string]bool{} // sub-clusters that served a sticky request since the table exists
	serve := func() {
		d, _ := stickyDecide(t1)
		for _, x := range d {
			if i := strings.IndexByte(x, '|'); i > 0 {
				served[x[:i]] = true
			}
		}
	}
	for s := 1; s < len(h.Confs); s++ {
		kind, focus := h.Kinds[s-1], h.Focus[s-1]
		if h.Warm {
			serve() // sticky requests before the reload
		}
		warmFocus := served[focus]
		gf, tf, err := stickyWrite(filepath.Join(dir, fmt.Sprintf("s%d", s)), h.Confs[s], s)
		if err != nil {
			r.Inconclusive("balhist sticky: " + err.Error())
			return false
		}
		gc, bc, err := t1.BalTableConfLoad(gf, tf)
		if err == nil {
			err = t1.BalTableReload(gc, bc)
		}
		wit := func(extra map[string]interface{}) map[string]interface{} {
			w := map[string]interface{}{"balhist_sticky": &SHistory{Warm: h.Warm, Confs: h.Confs[:s+1], Kinds: h.Kinds[:s], Focus: h.Focus[:s]}, "reload_step": s, "reload_kind": kind}
			for k, v := range extra {
				w[k] = v
			}
			return w
		}
		if err != nil {
			r.Violation("reloaded-vs-fresh:sticky-reload-rejected:"+kind, "generated gslb/cluster_table files rejected by the reload: "+err.Error(), wit(nil))
			return false
		}
		stickyOn(t1)
		if !h.Warm && s < len(h.Confs)-1 {
			continue // cold history: no request reaches the table before the last reload
		}
		// the same two files, fresh table
		t2 := bfe_balance.NewBalTable(fetcher)
		if err := t2.Init(gf, tf); err != nil {
			r.Violation("reloaded-vs-fresh:sticky-fresh-init-rejected:"+kind, "files accepted by the reload are rejected by BalTable.Init: "+err.Error(), wit(nil))
			return false
		}
		stickyOn(t2)
		d1, e1 := stickyDecide(t1)
		d2, e2 := stickyDecide(t2)
		if e1 != nil || e2 != nil {
			r.Violation("reloaded-vs-fresh:sticky-lookup-error", fmt.Sprintf("%v / %v", e1, e2), wit(nil))
			return false
		}
		for _, x := range d1 {
			if i := strings.IndexByte(x, '|'); i > 0 {
				served[x[:i]] = true
			}
		}
		// shape of the reload as far as the backend order is concerned
		prevB, nextB := subBackends(h.Confs[s-1], focus), subBackends(h.Confs[s], focus)
		newBeforeKept := newSortsBeforeKept(prevB, nextB)
		cmp := "cold"
		if h.Warm {
			cmp = "warm"
		}
		r.Count("balhist_sticky_"+cmp+"_"+kind, 1)
		r.Count("balhist_sticky_keys_compared", stickyKeys)
		if warmFocus && kind == skReplace && newBeforeKept {
			r.Count("balhist_sticky_warm_replace_new_sorts_before_kept", 1)
		}
		if warmFocus && (kind == skAdd || kind == skMixed) && newBeforeKept {
			r.Count("balhist_sticky_warm_add_new_sorts_before_kept", 1)
		}
		kb, _ := json.Marshal(h.Confs[:s+1])
		r.CaseS(fmt.Sprintf("balhist-sticky|%v|%s", h.Warm, kb), warmFocus && kind != skNoop)
		var subDiff, errDiff []string
		beDiff := map[string][]string{} // by the reload kind of the sub-cluster in which the backends differ
		chosen := map[string]bool{}
		for k := range d2 {
			chosen[d2[k]] = true
			if d1[k] == d2[k] {
				continue
			}
			line := fmt.Sprintf("key #%d: reloaded=%s fresh=%s", k, d1[k], d2[k])
			a, b := strings.SplitN(d1[k], "|", 2), strings.SplitN(d2[k], "|", 2)
			switch {
			case len(a) < 2 || len(b) < 2:
				errDiff = append(errDiff, line)
			case a[0] != b[0]:
				subDiff = append(subDiff, line)
			default:
				k := stickyKind(subBackends(h.Confs[s-1], a[0]), subBackends(h.Confs[s], a[0]))
				beDiff[k+" of sub-cluster "+a[0]] = append(beDiff[k+" of sub-cluster "+a[0]], line)
			}
		}
		report := func(what, kindOf string, diff []string) {
			if len(diff) == 0 {
				return
			}
			sig := "reloaded-vs-fresh:sticky-" + what + "-differs:" + strings.Fields(kindOf)[0]
			r.Violation(sig, fmt.Sprintf("session-sticky cluster, reload #%d (%s; sticky requests served before the reload: %v): %d of %d hash keys go to a different %s in the reloaded table than in a table initialised with the same files, e.g. %s",
				s, kindOf, h.Warm, len(diff), stickyKeys, what, diff[0]),
				wit(map[string]interface{}{"differences": first(diff, 8), "after_reloads": d1[:16], "fresh_init": d2[:16]}))
		}
		report("error", kind+" of sub-cluster "+focus, errDiff)
		report("subcluster", kind+" of sub-cluster "+focus, subDiff)
		var bks []string
		for k := range beDiff {
			bks = append(bks, k)
		}
		sort.Strings(bks)
		for _, k := range bks {
			report("backend", k, beDiff[k])
		}
		// "newly added ones become selectable": counted, and part of the comparison above
		for _, b := range nextB {
			if !hasAddr(prevB, b.addrInfo()) && chosen[focus+"|"+b.addrInfo()] {
				r.Count("balhist_sticky_new_backend_chosen", 1)
			}
		}
		if r.WantSample() && warmFocus && kind == skReplace && newBeforeKept {
			r.Sample(wit(map[string]interface{}{"family": "balhist sticky"}))
		}
	}
	return true
}

func first(xs []string, n int) []string {
	if len(xs) > n {
		return xs[:n]
	}
	return xs
}

func subBackends(c []SSub, name string) []SBackend {
	for _, s := range c {
		if s.Name == name {
			return s.Backends
		}
	}
	return nil
}

func hasAddr(bs []SBackend, a string) bool {
	for _, b := range bs {
		if b.addrInfo() == a {
			return true
		}
	}
	return false
}

// newSortsBeforeKept: some backend new in next has an addr:port sorting before a kept one.
func newSortsBeforeKept(prev, next []SBackend) bool {
	var kept, added []string
	for _, b := range next {
		if hasAddr(prev, b.addrInfo()) {
			kept = append(kept, b.addrInfo())
		} else {
			added = append(added, b.addrInfo())
		}
	}
	sort.Strings(kept)
	for _, a := range added {
		if len(kept) > 0 && a < kept[len(kept)-1] {
			return true
		}
	}
	return false
}

// StickyRule is appended to the rule text of the properties that run the monitor.
const StickyRule = " BALHIST STICKY FAMILY (harness/balhist/sticky.go): histories of one cluster with SessionSticky on (hash strategy client-ip, WRR) and 1-3 sub-clusters (positive gslb weights, constant) of 2-5 backends (10.0.<sub>.<1-250>, ports 80/443/8080/9000, weights 1-3, unique addr:port): Init with the first configuration, then 1-3 cluster_table reloads (BalTableConfLoad + BalTableReload); each reload edits the backend list of one sub-cluster (1/3: a second one as well) with a kind that walks through noop-same, reorder, weight-change, add, remove, replace-same-length (k removed, k new, new ones at arbitrary positions of the file), mixed. In 3 of 4 histories 256 sticky requests (distinct client addresses) are served before every reload (so the balancer has used and ordered its list); the 4th is cold. After every reload (cold: after the last) the reloaded table and a table freshly initialised from the very same two files each decide the same 256 hash keys; every key must go to the same sub-cluster and the same backend (addr:port). Signatures reloaded-vs-fresh:sticky-{backend,subcluster,error}-differs:<reload kind>. Non-trivial = the edited sub-cluster had served sticky requests before a non-noop reload; distinct = configuration prefix. Inconclusive unless every kind was compared warm and a warm replace-same-length put a new addr:port before a kept one."

// runSticky executes n sticky histories.
func runSticky(r *vkit.Run, n int, scratch string) {
	t0 := timeNow() // reporting only (balhist_sticky_wall_s); no verdict depends on it
	defer func() { r.Extra("balhist_sticky_wall_s", timeNow().Sub(t0).Seconds()) }()
	r.Extra("rule_balhist_sticky", StickyRule) // C09's own rule text is set in cmd/vbal; the family describes itself here
	vkit.Parallel(n, 0, func(i int) {
		g := r.Rng("balhist-sticky", i)
		h := stickyGenHistory(g, i)
		RunStickyHistory(r, h, filepath.Join(scratch, fmt.Sprintf("balhist-sticky-%d", i)))
		r.Count("balhist_sticky_histories", 1)
	})
	for _, k := range stickyKinds {
		if r.Counter("balhist_sticky_warm_"+k) == 0 {
			r.Inconclusive("balhist sticky family: reload kind never compared after sticky requests: " + k)
		}
	}
	if r.Counter("balhist_sticky_warm_replace_new_sorts_before_kept") == 0 {
		r.Inconclusive("balhist sticky family: no same-length replacement whose new backend sorts before a kept one after sticky requests")
	}
	if r.Counter("balhist_sticky_cold_"+skReplace) == 0 {
		r.Inconclusive("balhist sticky family: no cold history (control)")
	}
	if r.Counter("balhist_sticky_new_backend_chosen") == 0 {
		r.Inconclusive("balhist sticky family: no newly added backend was ever chosen")
	}
}

// ReplaySticky re-executes the history of a witness written by this family; false = the
// witness is not of this family.
func ReplaySticky(r *vkit.Run, scratch string) bool {
	var w struct {
		H *SHistory `json:"balhist_sticky"`
	}
	if err := r.LoadReplay(&w); err != nil || w.H == nil || len(w.H.Confs) == 0 {
		return false
	}
	r.SetMinDistinct(0)
	RunStickyHistory(r, w.H, filepath.Join(scratch, "balhist-sticky-replay"))
	return true
}
