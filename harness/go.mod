module verifharness

go 1.23

require (
	github.com/andybalholm/brotli v1.0.0
	github.com/anishathalye/porcupine v1.3.0
	github.com/baidu/go-lib v0.0.0-20200819072111-21df249f5e6a
	github.com/bfenetworks/bfe v0.0.0
	github.com/miekg/dns v1.1.29
	github.com/spaolacci/murmur3 v1.1.0
	github.com/tjfoc/gmsm v1.3.2
	go.etcd.io/gofail v0.2.0
	golang.org/x/crypto v0.0.0-20200622213623-75b288015ac9
	golang.org/x/net v0.0.0-20201021035429-f5854403a974
)

require (
	github.com/abbot/go-http-auth v0.4.1-0.20181019201920-860ed7f246ff // indirect
	github.com/armon/go-radix v1.0.0 // indirect
	github.com/asergeyev/nradix v0.0.0-20170505151046-3872ab85bb56 // indirect
	github.com/aymerick/douceur v0.2.0 // indirect
	github.com/chris-ramon/douceur v0.2.0 // indirect
	github.com/dgrijalva/jwt-go v3.2.0+incompatible // indirect
	github.com/elastic/go-sysinfo v1.1.1 // indirect
	github.com/gomodule/redigo v2.0.0+incompatible // indirect
	github.com/gorilla/css v1.0.0 // indirect
	github.com/jehiah/go-strftime v0.0.0-20171201141054-1d33003b3869 // indirect
	github.com/joeshaw/multierror v0.0.0-20140124173710-69b34d4ec901 // indirect
	github.com/json-iterator/go v1.1.10 // indirect
	github.com/microcosm-cc/bluemonday v1.0.3 // indirect
	github.com/modern-go/concurrent v0.0.0-20180228061459-e0a39a4cb421 // indirect
	github.com/modern-go/reflect2 v0.0.0-20180701023420-4b7aa43c6742 // indirect
	github.com/opentracing-contrib/go-observer v0.0.0-20170622124052-a52f23424492 // indirect
	github.com/opentracing/opentracing-go v1.1.0 // indirect
	github.com/openzipkin-contrib/zipkin-go-opentracing v0.4.5 // indirect
	github.com/openzipkin/zipkin-go v0.2.2 // indirect
	github.com/oschwald/geoip2-golang v1.4.0 // indirect
	github.com/oschwald/maxminddb-golang v1.6.0 // indirect
	github.com/pkg/errors v0.9.1 // indirect
	github.com/prometheus/procfs v0.0.3 // indirect
	github.com/russross/blackfriday/v2 v2.0.1 // indirect
	github.com/shurcooL/sanitized_anchor_name v1.0.0 // indirect
	github.com/uber/jaeger-client-go v2.22.1+incompatible // indirect
	github.com/uber/jaeger-lib v2.2.0+incompatible // indirect
	github.com/zmap/go-iptree v0.0.0-20170831022036-1948b1097e25 // indirect
	go.elastic.co/apm v1.7.2 // indirect
	go.elastic.co/apm/module/apmhttp v1.7.2 // indirect
	go.elastic.co/apm/module/apmot v1.7.2 // indirect
	go.elastic.co/fastjson v1.0.0 // indirect
	go.uber.org/atomic v1.6.0 // indirect
	golang.org/x/sys v0.0.0-20210119212857-b64e53b001e4 // indirect
	golang.org/x/text v0.3.3 // indirect
	google.golang.org/grpc v1.22.1 // indirect
	gopkg.in/gcfg.v1 v1.2.3 // indirect
	gopkg.in/square/go-jose.v2 v2.4.1 // indirect
	gopkg.in/warnings.v0 v0.1.2 // indirect
	howett.net/plist v0.0.0-20181124034731-591f970eefbb // indirect
)

replace github.com/bfenetworks/bfe => /repo
