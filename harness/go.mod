module verifharness

go 1.23

require (
	github.com/anishathalye/porcupine v1.3.0
	github.com/bfenetworks/bfe v0.0.0
	go.etcd.io/gofail v0.2.0
)

require github.com/spaolacci/murmur3 v1.1.0 // indirect

replace github.com/bfenetworks/bfe => /repo
