package spdycli

// model.go: the client's own bookkeeping of SPDY/3.1 stream state and of the
// four flow-control windows, written from the SPDY/3.1 draft and the text of
// property C40 - independent of bfe's implementation. It is driven by the
// connection log (Conn.OnEvent) and classifies every frame the script sends as
//
//   must-reject   the server is certainly obliged to refuse it,
//   certainly ok  the server certainly has to accept it,
//   either-way    anything else (frames in flight, races the draft allows ...).
//
// Only the first class creates an obligation, only the second is relied on for
// later certainty; "either-way" frames taint the stream (or the connection) so
// that nothing is asserted about it afterwards. Facts about the request
// handlers (how much they can have read, whether they can have returned) come
// from the harness through HandlerView and are upper/lower bounds that do not
// depend on timing.

import (
	"fmt"
	"sort"
)

// HandlerView is what the model needs to know about the handler that serves
// the SYN_STREAM carrying a given token.
type HandlerView interface {
	// Consumed is the number of body bytes Read has returned so far (a lower
	// bound of what the server has been told was consumed).
	Consumed(token int) int64
	// ReadBudget is an upper bound of the body bytes the handler can consume
	// before the script opens another gate.
	ReadBudget(token int) int64
	// CannotFinish is true while an unopened gate lies ahead of the handler,
	// i.e. the handler certainly has not returned and will not.
	CannotFinish(token int) bool
	// WriteTotal is the total number of response body bytes the handler
	// script ever writes.
	WriteTotal(token int) int64
	// Done reports a finished handler: bytes consumed, bytes written without
	// error, and whether it ended without any Read/Write error.
	Done(token int) (done bool, consumed, written int64, clean bool)
	// MaxRead is the largest number of body bytes one Read call of the handler
	// can return (0: the handler never reads).
	MaxRead(token int) int64
	// RespByte is response body byte number off of the handler for token;
	// RespEqual compares a whole block.
	RespByte(token int, off int64) byte
	RespEqual(token int, off int64, p []byte) bool
}

// Violation is one refuting observation.
type Violation struct {
	Sig  string
	What string
	Seq  int
}

type expectKind int

const (
	exOverWindow expectKind = iota
	exDataClosed
	exBadSyn
	exWUOverflowStream
	exWUOverflowConn
)

type expect struct {
	kind   expectKind
	shape  string
	stream uint32
	seq    int
	done   bool
}

// StreamM is the client's record of one stream id (first SYN_STREAM wins).
type StreamM struct {
	ID       uint32
	Token    int
	SynSeq   int
	ValidSyn bool // certainly a SYN_STREAM the server has to accept
	BadSyn   string

	HasBody   bool  // SYN_STREAM without FIN
	DeclLen   int64 // content-length or -1
	ClientFin bool
	ClientRst bool
	RstSeq    int
	RstAcked  bool // a PING sent after our RST_STREAM has come back
	SrvReply  bool
	SrvFin    bool
	SrvRst    bool
	SrvRstSt  uint32
	// a RST_STREAM arrived that may also be the answer to frames sent before the SYN_STREAM
	SrvRstMaybe bool

	Sent         int64 // DATA bytes sent on this id
	CertAccepted int64 // of those, bytes in frames the server certainly accepted
	WURecv       int64 // sum of stream WINDOW_UPDATEs received
	WUSent       int64 // sum of stream WINDOW_UPDATEs sent
	Recv         int64 // DATA bytes received

	PreSyn     int    // frames sent on this id before its SYN_STREAM (their RST_STREAMs may arrive after it)
	LastSend   int    // log seq of the newest frame sent on this stream
	MinInit    int64  // smallest SETTINGS_INITIAL_WINDOW_SIZE of ours that may have applied to this stream
	Tainted    string // non-empty: stream state at the server is uncertain
	FCDirty    string // non-empty: the client did something that may justify a FLOW_CONTROL_ERROR
	WUOnNeg    bool   // a WINDOW_UPDATE was sent while our receive window for this stream was negative
	DeliverCap int64  // handler must not consume more than this (-1: no cap)
	CapWhy     string

	FinWUChecked bool
	Mismatch     string // first response body mismatch seen on this stream
}

// Model is the client-side monitor of one connection.
type Model struct {
	H          HandlerView
	MaxStreams int // server's configured limit of concurrent streams (the client was never told)

	Viol []Violation

	streams map[uint32]*StreamM
	byToken map[int]*StreamM
	order   []*StreamM

	maxSynID   uint32
	validSyns  int
	peerInit   int64 // server's SETTINGS_INITIAL_WINDOW_SIZE: our send window for new streams
	dataSent   int64 // all DATA bytes sent on stream ids != 0
	certAccept int64
	wu0Recv    int64
	wu0Sent    int64
	dataRecv   int64

	// largest amount by which the session WINDOW_UPDATEs received so far ever
	// exceeded the DATA bytes sent so far (0: never), and where it was seen
	overRepl     int64
	overReplSeq  int
	overReplWU   int64
	overReplSent int64

	// our SETTINGS_INITIAL_WINDOW_SIZE: the value the server certainly has
	// applied (settled) and the ones it may or may not have applied yet.
	initSettled int64
	initPending []pendingInit
	initEverMin int64
	shrunk      bool

	pingSent map[uint32]int // ping id -> seq of the send
	lastPong int            // seq of the send of the newest answered PING (-1 none)

	GoAwayRecv   bool
	GoAwayStatus uint32
	Closed       bool
	ConnTainted  string
	FCDirtyConn  string
	Respecting   bool // the client never sent DATA beyond its own view of the windows, nor on closed streams

	expects   []*expect
	badTokens map[int]string // tokens of SYN_STREAMs the server had to refuse -> shape
	nextSyn   *SynInfo
	rstLog    []rstRec

	lastSendAny int
	preSyn      map[uint32]int // frames sent on an id before (without) its SYN_STREAM

	// observation counters
	Obs map[string]int64
}

type pendingInit struct {
	val int64
	seq int
}

func NewModel(h HandlerView, maxStreams int) *Model {
	return &Model{
		H: h, MaxStreams: maxStreams,
		streams: map[uint32]*StreamM{}, byToken: map[int]*StreamM{},
		peerInit: DefaultWindow, initSettled: DefaultWindow, initEverMin: DefaultWindow,
		pingSent: map[uint32]int{}, lastPong: -1, preSyn: map[uint32]int{},
		Respecting: true, badTokens: map[int]string{}, Obs: map[string]int64{},
	}
}

func (m *Model) viol(seq int, sig, format string, a ...interface{}) {
	for _, v := range m.Viol {
		if v.Sig == sig {
			return
		}
	}
	m.Viol = append(m.Viol, Violation{Sig: sig, What: fmt.Sprintf(format, a...), Seq: seq})
}

func (m *Model) Stream(id uint32) *StreamM { return m.streams[id] }
func (m *Model) ByToken(tok int) *StreamM  { return m.byToken[tok] }
func (m *Model) Streams() []*StreamM       { return m.order }
func (m *Model) BadTokens() map[int]string { return m.badTokens }
func (m *Model) DataSent() int64           { return m.dataSent }
func (m *Model) WU0Recv() int64            { return m.wu0Recv }
func (m *Model) WU0Sent() int64            { return m.wu0Sent }
func (m *Model) DataRecv() int64           { return m.dataRecv }
func (m *Model) CertAccepted() int64       { return m.certAccept }
func (m *Model) Dead() bool                { return m.GoAwayRecv || m.Closed }
func (m *Model) taintConn(why string) {
	if m.ConnTainted == "" {
		m.ConnTainted = why
	}
}
func (m *Model) dirtyConn(why string) {
	if m.FCDirtyConn == "" {
		m.FCDirtyConn = why
	}
}
func (s *StreamM) taint(why string) {
	if s.Tainted == "" {
		s.Tainted = why
	}
}
func (s *StreamM) dirty(why string) {
	if s.FCDirty == "" {
		s.FCDirty = why
	}
}
func (s *StreamM) capDeliver(n int64, why string) {
	if s.DeliverCap < 0 || n < s.DeliverCap {
		s.DeliverCap, s.CapWhy = n, why
	}
}

// maxInit / minInit: bounds of the SETTINGS_INITIAL_WINDOW_SIZE the server may
// currently be applying to its send windows.
func (m *Model) maxInit() int64 {
	v := m.initSettled
	for _, p := range m.initPending {
		if p.val > v {
			v = p.val
		}
	}
	return v
}

func (m *Model) minInit() int64 {
	v := m.initSettled
	for _, p := range m.initPending {
		if p.val < v {
			v = p.val
		}
	}
	return v
}

// ViewStream / ViewConn: the respecting client's view of the windows the
// server has advertised (initial + WINDOW_UPDATEs received - DATA sent).
func (m *Model) ViewStream(s *StreamM) int64 { return m.peerInit - s.Sent + s.WURecv }
func (m *Model) ViewConn() int64             { return DefaultWindow - m.dataSent + m.wu0Recv }

// RecvAllowStream / RecvAllowConn: the largest amount of DATA the server may
// still send us (upper bound: every WINDOW_UPDATE/SETTINGS we sent counts even
// if the server has not processed it yet).
func (m *Model) RecvAllowStream(s *StreamM) int64 { return m.maxInit() + s.WUSent - s.Recv }
func (m *Model) RecvAllowConn() int64             { return DefaultWindow + m.wu0Sent - m.dataRecv }

// RecvFloorStream is a lower bound of the server's send window for s.
func (m *Model) RecvFloorStream(s *StreamM) int64 { return m.minInit() + s.WUSent - s.Recv }

// openAtServer: the stream is certainly in the server's stream table (possibly
// half closed by us) whenever a frame sent now is processed.
func (m *Model) openAtServer(s *StreamM) bool {
	return s != nil && s.ValidSyn && s.Tainted == "" && m.ConnTainted == "" && !m.Dead() &&
		!s.ClientRst && !s.SrvFin && !s.SrvRst && m.H.CannotFinish(s.Token)
}

// notClosedAtServer: the server certainly still has the stream (it may be half
// closed by us) whenever a frame sent now is processed.
func (m *Model) notClosedAtServer(s *StreamM) bool {
	return s.ValidSyn && s.Tainted == "" && m.ConnTainted == "" && !m.Dead() &&
		!s.ClientRst && !s.SrvFin && !s.SrvRst && m.H.CannotFinish(s.Token)
}

// bounds of the server's receive windows when a frame sent now is processed.
// Credits: a server gives window back for bytes its handlers consumed; it may
// (and to avoid starving the session, should) also give back bytes it discards
// when a stream ends, so for a stream that may already be closed at the server
// everything sent on it may have been credited back.
func (m *Model) inboundBounds(s *StreamM) (lbS, lbC, ubS, ubC int64) {
	lbS = m.peerInit - s.Sent + m.H.Consumed(s.Token)
	ubS = m.peerInit - s.CertAccepted + min64(m.H.ReadBudget(s.Token), s.Sent)
	var cons, credit int64
	for _, x := range m.order {
		cons += m.H.Consumed(x.Token)
		if m.notClosedAtServer(x) {
			credit += min64(m.H.ReadBudget(x.Token), x.Sent)
		} else {
			credit += x.Sent
		}
	}
	lbC = DefaultWindow - m.dataSent + cons
	ubC = DefaultWindow - m.certAccept + credit
	return
}

// InboundBounds is inboundBounds for the script (call with the log lock held).
func (m *Model) InboundBounds(s *StreamM) (lbS, lbC, ubS, ubC int64) { return m.inboundBounds(s) }

func min64(a, b int64) int64 {
	if a < b {
		return a
	}
	return b
}

// OnEvent is the Conn.OnEvent callback.
func (m *Model) OnEvent(ev *Event) {
	switch ev.Dir {
	case "S":
		m.onSend(ev)
	case "R":
		m.onRecv(ev)
	}
}

// GateOpened tells the model that the script lets the handler of token
// proceed. The bounds used to classify frames already sent (what the handler
// can have consumed, that it cannot have returned) only hold while the server
// processes them, so if any frame may still be unprocessed (no answered PING
// since) every obligation derived from those bounds is dropped.
func (m *Model) GateOpened(token int) {
	if m.lastSendAny <= m.lastPong || m.Dead() {
		return
	}
	m.Obs["gate_opened_with_frames_in_flight"]++
	m.taintConn("gate-opened-with-frames-in-flight")
	for _, e := range m.expects {
		if e.kind == exOverWindow {
			e.done = true
		}
	}
	for _, s := range m.order {
		s.taint("gate-opened-with-frames-in-flight")
		if s.Tainted == "over-window" {
			s.DeliverCap, s.CapWhy = -1, ""
		}
	}
}

// ---- frames we send --------------------------------------------------------

// SynInfo describes the request carried by a SYN_STREAM about to be sent; the
// script registers it right before Conn.SynStream.
type SynInfo struct {
	WellFormed bool
	DeclLen    int64
}

// NextSyn must be set (under the log lock, i.e. from within Conn.Locked or
// right before the send on the script goroutine) to describe the next SYN_STREAM.
func (m *Model) NextSyn(info SynInfo) { m.nextSyn = &info }

func (m *Model) onSend(ev *Event) {
	if st := m.streams[ev.Stream]; st != nil && ev.Stream != 0 {
		st.LastSend = ev.Seq
	} else if ev.Stream != 0 && ev.Kind != KSynStream && ev.Kind != KGoAway {
		// a frame on an id that has not been opened (yet): the server may
		// answer it with a RST_STREAM that arrives after a later SYN_STREAM
		m.preSyn[ev.Stream]++
	}
	m.lastSendAny = ev.Seq
	switch ev.Kind {
	case KSynStream:
		m.sendSyn(ev)
	case KData:
		m.sendData(ev)
	case KWindowUpdate:
		m.sendWU(ev)
	case KRstStream:
		m.sendRst(ev)
	case KSettings:
		m.sendSettings(ev)
	case KPing:
		if ev.PingID == 0 {
			m.taintConn("ping-id-0")
		}
		if _, dup := m.pingSent[ev.PingID]; !dup {
			m.pingSent[ev.PingID] = ev.Seq
		} else {
			// a re-used ping id cannot be matched to one send: forget it
			m.pingSent[ev.PingID] = 1 << 60
		}
	case KHeaders, KSynReply:
		if ev.Stream == 0 {
			m.taintConn("headers-on-stream-0")
		}
	case KUnknown:
		m.taintConn("unknown-control-frame")
	case KGoAway:
		// a server may react to a client GOAWAY in any way it likes
		m.taintConn("client-goaway")
	}
}

func (m *Model) sendSyn(ev *Event) {
	info := SynInfo{WellFormed: true, DeclLen: -1}
	if m.nextSyn != nil {
		info = *m.nextSyn
		m.nextSyn = nil
	}
	id := ev.Stream
	shape := ""
	switch {
	case id == 0:
		shape = "zero"
	case id%2 == 0:
		shape = "even"
	case id < m.maxSynID:
		shape = "decreasing"
	case id == m.maxSynID:
		shape = "reused"
	}
	if shape != "" {
		m.badTokens[ev.Token] = shape
		m.Obs["syn_invalid_"+shape]++
		m.expects = append(m.expects, &expect{kind: exBadSyn, shape: shape, stream: id, seq: ev.Seq})
		// the server may (and for most of these must) tear the session down
		m.taintConn("invalid-syn-" + shape)
		if s := m.streams[id]; s != nil {
			s.taint("syn-reused")
		}
		return
	}
	m.maxSynID = id
	s := &StreamM{ID: id, Token: ev.Token, SynSeq: ev.Seq, LastSend: ev.Seq, HasBody: !ev.Fin(), DeclLen: info.DeclLen, DeliverCap: -1, MinInit: m.minInit(), PreSyn: m.preSyn[id]}
	if ev.Fin() {
		s.ClientFin = true
	}
	m.validSyns++
	switch {
	case m.Dead():
		s.BadSyn = "after-goaway-or-close"
	case m.ConnTainted != "":
		s.BadSyn = "conn-uncertain:" + m.ConnTainted
	case !info.WellFormed:
		s.BadSyn = "malformed-request"
	case m.validSyns > m.MaxStreams:
		s.BadSyn = "beyond-max-concurrent-streams"
		m.taintConn("max-concurrent-streams")
	default:
		s.ValidSyn = true
		m.Obs["syn_valid"]++
	}
	if !s.ValidSyn {
		s.taint(s.BadSyn)
	}
	m.streams[id] = s
	m.byToken[ev.Token] = s
	m.order = append(m.order, s)
}

func (m *Model) sendData(ev *Event) {
	id, L := ev.Stream, int64(ev.Len)
	if id == 0 {
		// "0 is not a valid Stream-ID": the frame has to be refused
		m.Respecting = false
		m.expects = append(m.expects, &expect{kind: exDataClosed, shape: "stream-0", stream: 0, seq: ev.Seq})
		m.taintConn("data-on-stream-0")
		m.Obs["data_on_stream_0"]++
		return
	}
	s := m.streams[id]
	closedShape := ""
	switch {
	case s == nil:
		closedShape = "never-opened"
	case s.SrvRst:
		closedShape = "after-server-rst"
	case s.ClientRst:
		closedShape = "after-client-rst"
	case s.ClientFin:
		closedShape = "after-client-fin"
	}
	if closedShape != "" {
		m.Respecting = false
		if L > m.ViewConn() {
			m.dirtyConn("data-beyond-advertised-session-window")
		}
		m.dataSent += L // upper bound of what the server may have debited
		m.Obs["data_on_closed_"+closedShape]++
		m.expects = append(m.expects, &expect{kind: exDataClosed, shape: closedShape, stream: id, seq: ev.Seq})
		if s != nil {
			s.capDeliver(s.Sent, "DATA sent "+closedShape)
			s.Sent += L
			s.taint("data-" + closedShape)
			s.dirty("data-" + closedShape)
		}
		return
	}
	// the stream is open in our direction as far as we know
	if L > m.ViewStream(s) || L > m.ViewConn() {
		if L > 0 {
			m.Respecting = false
			s.dirty("data-beyond-advertised-window")
			m.dirtyConn("data-beyond-advertised-window")
		}
	}
	lbS, lbC, ubS, ubC := m.inboundBounds(s)
	certOpen := m.openAtServer(s)
	overDecl := s.DeclLen >= 0 && s.Sent+L > s.DeclLen
	switch {
	case s.SrvFin:
		// the server finished its side first; what it does with late DATA is its choice
		s.taint("data-after-server-fin")
	case certOpen && !overDecl && L > 0 && (L > ubS || L > ubC):
		which := "stream"
		if L <= ubS {
			which = "session"
		}
		m.Obs["data_over_window_"+which]++
		m.expects = append(m.expects, &expect{kind: exOverWindow, shape: which, stream: id, seq: ev.Seq})
		s.capDeliver(s.Sent, fmt.Sprintf("DATA of %d bytes at offset %d exceeded the %s window (at most %d/%d advertised)", L, s.Sent, which, ubS, ubC))
		s.taint("over-window")
	case certOpen && !overDecl && L <= lbS && L <= lbC:
		s.CertAccepted += L
		m.certAccept += L
		m.Obs["data_certainly_accepted"]++
		if L > 0 && (L == lbS || L == lbC) {
			m.Obs["data_exactly_at_window"]++
		}
	default:
		if overDecl {
			s.taint("more-than-content-length")
		} else {
			s.taint("data-either-way")
		}
		m.Obs["data_either_way"]++
	}
	s.Sent += L
	m.dataSent += L
	if ev.Fin() {
		s.ClientFin = true
		if s.DeclLen >= 0 && s.Sent != s.DeclLen {
			s.taint("fin-before-content-length")
		}
	}
}

func (m *Model) sendWU(ev *Event) {
	if ev.Delta&0x80000000 != 0 {
		// reserved bit set: undefined
		m.taintConn("window-update-reserved-bit")
		m.dirtyConn("window-update-reserved-bit")
	}
	d := int64(ev.Delta & 0x7fffffff)
	if ev.Stream == 0 {
		var maxSrvSent int64
		for _, x := range m.order {
			maxSrvSent += m.H.WriteTotal(x.Token)
		}
		switch {
		case m.ConnTainted == "" && !m.Dead() && DefaultWindow+m.wu0Sent-maxSrvSent+d > MaxWindow:
			m.Obs["wu_overflow_session"]++
			m.expects = append(m.expects, &expect{kind: exWUOverflowConn, shape: "session", seq: ev.Seq})
			m.taintConn("session-window-overflow")
			m.dirtyConn("session-window-overflow")
		case DefaultWindow+m.wu0Sent+d > MaxWindow:
			m.taintConn("session-window-maybe-overflow")
			m.dirtyConn("session-window-maybe-overflow")
		case d == 0:
			m.dirtyConn("window-update-delta-0")
		}
		m.wu0Sent += d
		return
	}
	s := m.streams[ev.Stream]
	if s == nil {
		return // never opened: "ignore", nothing to assert
	}
	if m.RecvFloorStream(s) < 0 {
		s.WUOnNeg = true
	}
	inTable := s.ValidSyn && s.Tainted == "" && m.ConnTainted == "" && !m.Dead() &&
		!s.ClientRst && !s.SrvFin && !s.SrvRst && m.H.CannotFinish(s.Token)
	switch {
	case inTable && m.minInit()+s.WUSent-m.H.WriteTotal(s.Token)+d > MaxWindow:
		m.Obs["wu_overflow_stream"]++
		m.expects = append(m.expects, &expect{kind: exWUOverflowStream, shape: "stream", stream: s.ID, seq: ev.Seq})
		s.taint("stream-window-overflow")
		s.dirty("stream-window-overflow")
	case m.maxInit()+s.WUSent+d > MaxWindow:
		s.taint("stream-window-maybe-overflow")
		s.dirty("stream-window-maybe-overflow")
		// the server may also treat it as a session error
		m.dirtyConn("stream-window-maybe-overflow")
	case d == 0:
		s.dirty("window-update-delta-0")
	}
	s.WUSent += d
}

func (m *Model) sendRst(ev *Event) {
	if ev.Stream == 0 || ev.Status == 0 {
		m.taintConn("malformed-rst")
		return
	}
	s := m.streams[ev.Stream]
	if s == nil {
		// RST_STREAM for a stream that was never opened: either-way
		m.taintConn("rst-on-unopened-stream")
		return
	}
	if !s.ClientRst {
		s.ClientRst = true
		s.RstSeq = ev.Seq
		s.capDeliver(s.Sent, "RST_STREAM sent by the client")
	}
}

func (m *Model) sendSettings(ev *Event) {
	for _, kv := range ev.Settings {
		if kv[0] != SettingsInitialWindowSize {
			continue
		}
		v := int64(kv[1])
		if v > MaxWindow {
			// not a legal window size; anything goes
			m.taintConn("settings-initial-window-out-of-range")
			m.dirtyConn("settings-initial-window-out-of-range")
		}
		if v < m.maxInit() {
			m.shrunk = true
		}
		m.initPending = append(m.initPending, pendingInit{val: v, seq: ev.Seq})
		for _, s := range m.order {
			if v < s.MinInit {
				s.MinInit = v
			}
			if v+s.WUSent > MaxWindow {
				s.taint("settings-maybe-overflow")
				s.dirty("settings-maybe-overflow")
				m.taintConn("settings-maybe-overflow")
				m.dirtyConn("settings-maybe-overflow")
			}
		}
	}
}

// ---- frames we receive -----------------------------------------------------

func (m *Model) onRecv(ev *Event) {
	switch ev.Kind {
	case KClosed:
		m.Closed = true
	case KGoAway:
		if !m.GoAwayRecv {
			m.GoAwayRecv = true
			m.GoAwayStatus = ev.Status
		}
		if ev.Status == RstFlowControlError {
			m.checkSpuriousFC(ev, nil)
		}
	case KSettings:
		for _, kv := range ev.Settings {
			if kv[0] == SettingsInitialWindowSize {
				m.peerInit = int64(kv[1])
			}
		}
	case KPing:
		m.recvPing(ev)
	case KWindowUpdate:
		m.recvWU(ev)
	case KData:
		m.recvData(ev)
	case KSynReply, KHeaders:
		m.recvHeaders(ev)
	case KRstStream:
		m.recvRst(ev)
	case KSynStream:
		m.Obs["server_push_syn"]++
	}
}

func (m *Model) recvPing(ev *Event) {
	sent, ok := m.pingSent[ev.PingID]
	if !ok || sent >= 1<<60 || ev.PingID%2 == 0 {
		return
	}
	if sent <= m.lastPong {
		return
	}
	m.lastPong = sent
	// every frame we sent before that PING has been processed by the server
	// and every reaction queued before the reply has been received.
	last := -1
	for i, p := range m.initPending {
		if p.seq < sent {
			last = i
		}
	}
	if last >= 0 {
		m.initSettled = m.initPending[last].val
		m.initPending = append([]pendingInit(nil), m.initPending[last+1:]...)
	}
	for _, s := range m.order {
		if s.ClientRst && s.RstSeq < sent {
			s.RstAcked = true
		}
	}
	for _, e := range m.expects {
		if e.done || e.seq >= sent {
			continue
		}
		e.done = true
		// GOAWAY / close would have ended the connection instead of a PING reply
		if m.GoAwayRecv {
			continue
		}
		m.unmet(e, ev.Seq, "the PING sent after it was answered")
	}
}

// FinishExpectations is called when the connection is over: anything not yet
// resolved is resolved by GOAWAY/close (the connection ended) - nothing to flag.
func (m *Model) FinishExpectations() {
	for _, e := range m.expects {
		e.done = true
	}
}

// rstAfter reports whether a RST_STREAM for stream was received after seq.
func (m *Model) rstAfter(stream uint32, seq int) bool {
	for _, r := range m.rstLog {
		if r.stream == stream && r.seq > seq {
			return true
		}
	}
	return false
}

func (m *Model) unmet(e *expect, seq int, how string) {
	switch e.kind {
	case exOverWindow:
		if !m.rstAfter(e.stream, e.seq) {
			m.viol(seq, "inbound:over-window-data-not-rejected:"+e.shape,
				"DATA (log #%d) on stream %d exceeded the advertised %s window but no RST_STREAM/GOAWAY/close followed although %s", e.seq, e.stream, e.shape, how)
		}
	case exDataClosed:
		if e.shape == "stream-0" || !m.rstAfter(e.stream, e.seq) {
			m.viol(seq, "stream-rules:data-on-closed-stream-not-rejected:"+e.shape,
				"DATA (log #%d) on stream %d (%s) drew no RST_STREAM/GOAWAY/close although %s", e.seq, e.stream, e.shape, how)
		}
	case exBadSyn:
		if e.shape == "zero" || !m.rstAfter(e.stream, e.seq) {
			m.viol(seq, "stream-rules:invalid-syn-not-rejected:"+e.shape,
				"SYN_STREAM (log #%d) with %s stream id %d drew no RST_STREAM/GOAWAY/close although %s", e.seq, e.shape, e.stream, how)
		}
	case exWUOverflowStream:
		if !m.rstAfter(e.stream, e.seq) {
			m.viol(seq, "flow-control:window-update-overflow-not-rejected:stream",
				"WINDOW_UPDATE (log #%d) pushed the send window of stream %d above 2^31-1 but no RST_STREAM/GOAWAY/close followed although %s", e.seq, e.stream, how)
		}
	case exWUOverflowConn:
		m.viol(seq, "flow-control:window-update-overflow-not-rejected:session",
			"WINDOW_UPDATE (log #%d) pushed the session send window above 2^31-1 but no GOAWAY/close followed although %s", e.seq, how)
	}
}

func (m *Model) recvWU(ev *Event) {
	d := int64(ev.Delta)
	if ev.Stream == 0 {
		m.wu0Recv += d
		// more given back than was ever sent: reported by Finish (overReplenished),
		// which names the shape once the whole connection is known
		if x := m.wu0Recv - m.dataSent; x > m.overRepl {
			m.overRepl, m.overReplSeq, m.overReplWU, m.overReplSent = x, ev.Seq, m.wu0Recv, m.dataSent
		}
		return
	}
	s := m.streams[ev.Stream]
	if s == nil {
		m.Obs["wu_on_unknown_stream"]++
		return
	}
	s.WURecv += d
	if s.WURecv > s.Sent {
		m.viol(ev.Seq, "inbound:stream-window-over-replenished",
			"stream %d: WINDOW_UPDATEs received sum to %d but only %d DATA bytes were sent on it", s.ID, s.WURecv, s.Sent)
	}
}

func (m *Model) afterEnd(ev *Event, s *StreamM) bool {
	if s.SrvFin {
		m.viol(ev.Seq, "outbound:frame-after-fin", "%s on stream %d after the server's FIN", ev.Kind, s.ID)
		return true
	}
	if s.RstAcked {
		m.viol(ev.Seq, "outbound:frame-after-rst-acked",
			"%s on stream %d although our RST_STREAM (log #%d) was followed by an answered PING", ev.Kind, s.ID, s.RstSeq)
		return true
	}
	return false
}

func (m *Model) recvData(ev *Event) {
	L := int64(ev.Len)
	m.dataRecv += L
	if L > 0 && m.RecvAllowConn() < 0 {
		m.viol(ev.Seq, "outbound:session-window-exceeded",
			"DATA of %d bytes on stream %d: server has now sent %d bytes but the session window only ever allowed %d (65536 + %d of WINDOW_UPDATE)",
			L, ev.Stream, m.dataRecv, DefaultWindow+m.wu0Sent, m.wu0Sent)
	}
	s := m.streams[ev.Stream]
	if s == nil {
		if _, bad := m.findBadSyn(ev.Stream); !bad {
			m.viol(ev.Seq, "outbound:data-on-unknown-stream", "DATA of %d bytes on stream %d which the client never opened", L, ev.Stream)
		}
		return
	}
	m.afterEnd(ev, s)
	off := s.Recv
	s.Recv += L
	if L > 0 && m.RecvAllowStream(s) < 0 {
		m.viol(ev.Seq, "outbound:stream-window-exceeded",
			"DATA of %d bytes on stream %d: %d bytes received but the stream window only ever allowed %d (initial window at most %d + %d of WINDOW_UPDATE)",
			L, s.ID, s.Recv, m.maxInit()+s.WUSent, m.maxInit(), s.WUSent)
	}
	if s.Mismatch == "" && !m.H.RespEqual(s.Token, off, ev.Data) {
		for i, b := range ev.Data {
			if want := m.H.RespByte(s.Token, off+int64(i)); b != want {
				// reported by Finish, once it is known whether the stream was
				// reset while this frame was being written
				end := i + 24
				if end > len(ev.Data) {
					end = len(ev.Data)
				}
				wantBytes := make([]byte, 0, 24)
				for k := i; k < end; k++ {
					wantBytes = append(wantBytes, m.H.RespByte(s.Token, off+int64(k)))
				}
				nbad := 0
				for k := range ev.Data {
					if ev.Data[k] != m.H.RespByte(s.Token, off+int64(k)) {
						nbad++
					}
				}
				s.Mismatch = fmt.Sprintf("stream %d: response body byte %d is %#x, the handler wrote %#x there (DATA frame of %d bytes at offset %d, log #%d; %d of its bytes differ; received % x, handler wrote % x)",
					s.ID, off+int64(i), b, want, len(ev.Data), off, ev.Seq, nbad, ev.Data[i:end], wantBytes)
				break
			}
		}
	}
	if ev.Fin() {
		m.srvFin(ev, s)
	}
}

func (m *Model) findBadSyn(id uint32) (string, bool) {
	for _, e := range m.expects {
		if e.kind == exBadSyn && e.stream == id {
			return e.shape, true
		}
	}
	return "", false
}

func (m *Model) recvHeaders(ev *Event) {
	s := m.streams[ev.Stream]
	if s == nil {
		if shape, bad := m.findBadSyn(ev.Stream); bad && ev.Kind == KSynReply {
			m.viol(ev.Seq, "stream-rules:invalid-syn-answered:"+shape,
				"SYN_REPLY on stream %d, which was only ever opened with an invalid (%s) SYN_STREAM", ev.Stream, shape)
		}
		return
	}
	m.afterEnd(ev, s)
	if ev.Kind == KSynReply {
		if s.SrvReply {
			m.Obs["duplicate_syn_reply"]++
		}
		s.SrvReply = true
	}
	if ev.Fin() {
		m.srvFin(ev, s)
	}
}

// srvFin: the server finished stream s. Everything the handler did happened
// before the final frame was queued, and frames of one stream keep their order,
// so the stream's accounts can be closed here.
func (m *Model) srvFin(ev *Event, s *StreamM) {
	s.SrvFin = true
	done, consumed, written, clean := m.H.Done(s.Token)
	if !done {
		// FIN without the handler having returned
		m.Obs["fin_before_handler_done"]++
		return
	}
	if clean && !s.ClientRst && !s.SrvRst {
		if s.Recv != written {
			m.viol(ev.Seq, "outbound:response-length",
				"stream %d: FIN after %d body bytes but the handler wrote %d without error", s.ID, s.Recv, written)
		}
		m.Obs["responses_complete"]++
	}
	if s.Tainted == "" && m.ConnTainted == "" && !s.ClientRst && !s.SrvRst && s.ValidSyn {
		s.FinWUChecked = true
		// (WURecv <= bytes sent is checked whenever a WINDOW_UPDATE arrives)
		if !s.ClientFin && s.WURecv < consumed {
			m.viol(ev.Seq, "inbound:stream-window-not-replenished",
				"stream %d: handler consumed %d bytes before it returned, stream WINDOW_UPDATEs received before its FIN sum to %d", s.ID, consumed, s.WURecv)
		}
		if s.WURecv == consumed {
			m.Obs["stream_updates_equal_consumed"]++
		}
		m.Obs["stream_conservation_checked"]++
	}
}

type rstRec struct {
	stream uint32
	seq    int
	status uint32
}

func (m *Model) recvRst(ev *Event) {
	m.rstLog = append(m.rstLog, rstRec{ev.Stream, ev.Seq, ev.Status})
	m.Obs[fmt.Sprintf("rst_recv_status_%d", ev.Status)]++
	s := m.streams[ev.Stream]
	if s == nil {
		return
	}
	if s.PreSyn > 0 {
		// may be the answer to a frame sent before the SYN_STREAM: says
		// nothing certain about the stream
		s.taint("rst-may-answer-frames-sent-before-syn")
		s.SrvRstMaybe = true
		return
	}
	if ev.Status == RstFlowControlError {
		m.checkSpuriousFC(ev, s)
	}
	if !s.SrvRst {
		s.SrvRst = true
		s.SrvRstSt = ev.Status
	}
}

// checkSpuriousFC: a FLOW_CONTROL_ERROR accuses the client of breaking the
// flow-control rules. If the client provably never did (no DATA beyond its
// view of the windows, no WINDOW_UPDATE/SETTINGS that could overflow) the
// server enforces a rule that was not broken.
func (m *Model) checkSpuriousFC(ev *Event, s *StreamM) {
	if m.FCDirtyConn != "" || m.ConnTainted != "" {
		return
	}
	for _, x := range m.order {
		if x.FCDirty != "" && (s == nil || x == s) {
			return
		}
	}
	// could the server's send window of the stream have been negative (after a
	// SETTINGS shrink) when it processed the accused frame?
	shape := "other"
	neg := false
	for _, x := range m.order {
		if (s == nil || x == s) && (x.WUOnNeg || x.MinInit-x.Recv < 0) {
			neg = true
		}
	}
	if neg {
		shape = "send-window-possibly-negative"
	}
	where := "GOAWAY"
	id := uint32(0)
	if s != nil {
		where, id = "RST_STREAM", s.ID
	}
	m.viol(ev.Seq, "flow-control:spurious-error:"+shape,
		"%s(FLOW_CONTROL_ERROR) for stream %d although the client never exceeded a window nor sent an overflowing WINDOW_UPDATE/SETTINGS", where, id)
}

// ---- end of connection ------------------------------------------------------

// EndFacts are facts the runner supplies for the final checks.
type EndFacts struct {
	Healthy     bool // the final PING (sent after every handler had returned) was answered and no GOAWAY was seen
	AllDone     bool // every invoked handler had returned before that PING
	Invoked     func(token int) int
	Corrupt     func(token int) bool
	Consumed    func(token int) int64
	AllTokens   []int
	HookPresent bool
	SendWindow  int64 // server's session send window after serve returned
	RecvWindow  int64
	OpenStreams int
}

// Finish runs the checks that need the whole connection.
func (m *Model) Finish(f EndFacts) {
	m.FinishExpectations()
	for _, s := range m.order {
		if s.Mismatch == "" {
			continue
		}
		// A frame of a stream that later finishes normally was written while
		// its handler was waiting for it. A frame of a stream that was
		// aborted (RST_STREAM from either side, or a session error/close -
		// the server may have reset the stream without the RST_STREAM ever
		// reaching us) may have been in flight when the handler's write was
		// cut short; it is still a frame of this stream and must carry the
		// handler's bytes. The two shapes are kept apart.
		if !s.SrvFin {
			m.viol(-1, "outbound:content-mismatch:frame-in-flight-at-stream-abort",
				"%s; the stream never finished (client RST_STREAM sent: %v, server RST_STREAM received: %v, GOAWAY received: %v)",
				s.Mismatch, s.ClientRst, s.SrvRst || s.SrvRstMaybe, m.GoAwayRecv)
		} else {
			m.viol(-1, "outbound:content-mismatch", "%s", s.Mismatch)
		}
	}
	toks := append([]int(nil), f.AllTokens...)
	sort.Ints(toks)
	var consumedAll int64
	for _, tok := range toks {
		n := f.Invoked(tok)
		consumedAll += f.Consumed(tok)
		if shape, bad := m.badTokens[tok]; bad && n > 0 {
			m.viol(-1, "stream-rules:invalid-syn-served:"+shape,
				"the handler was invoked for a SYN_STREAM with %s stream id (token %d)", shape, tok)
		}
		if n > 1 {
			m.viol(-1, "stream-rules:syn-served-twice", "the handler was invoked %d times for one SYN_STREAM (token %d)", n, tok)
		}
		if f.Corrupt(tok) {
			m.viol(-1, "inbound:body-mismatch", "handler for token %d read body bytes that differ from what the client sent", tok)
		}
		s := m.byToken[tok]
		if s == nil {
			continue
		}
		c := f.Consumed(tok)
		if c > s.Sent {
			m.viol(-1, "inbound:more-delivered-than-sent", "stream %d: handler consumed %d bytes, client sent %d", s.ID, c, s.Sent)
		}
		if s.DeliverCap >= 0 && c > s.DeliverCap {
			sig := "inbound:rejected-data-delivered"
			if s.Tainted == "over-window" {
				sig = "inbound:over-window-data-delivered"
			}
			m.viol(-1, sig, "stream %d: handler consumed %d bytes, but everything after byte %d had to be refused (%s)", s.ID, c, s.DeliverCap, s.CapWhy)
		}
	}
	m.overReplenished(f)
	if !f.Healthy || !f.AllDone {
		return
	}
	// quiescence: all handlers returned, every frame answered
	if m.ConnTainted == "" {
		// consumed <= given back <= sent (the upper half is checked whenever a
		// WINDOW_UPDATE arrives); bytes discarded with a closed stream may or
		// may not be given back - if they are not, the stall check below
		// decides whether the session is still usable
		if m.wu0Recv < consumedAll {
			m.viol(-1, "inbound:session-window-not-replenished",
				"at quiescence the handlers had consumed %d body bytes in total but session WINDOW_UPDATEs sum to only %d", consumedAll, m.wu0Recv)
		}
		if m.wu0Recv == consumedAll {
			m.Obs["session_updates_equal_consumed"]++
		}
		if m.wu0Recv == m.dataSent {
			m.Obs["session_updates_equal_sent"]++
		}
		m.Obs["session_conservation_checked"]++
		allClosed := true
		for _, s := range m.order {
			if !(s.SrvFin || s.SrvRst || s.ClientRst) {
				allClosed = false
			}
		}
		if m.Respecting && allClosed {
			m.Obs["stall_check_evaluated"]++
			leak := m.dataSent - m.wu0Recv
			if leak > 0 {
				m.Obs["session_window_leaked_cases"]++
			}
			if m.ViewConn() <= 0 && m.dataSent > 0 {
				m.viol(-1, "inbound:session-window-stall",
					"every stream is closed and every handler has returned, yet the session receive window the client may use is %d: %d DATA bytes were sent within the advertised windows, only %d were given back (%d consumed by handlers); no further upload is possible on this connection",
					m.ViewConn(), m.dataSent, m.wu0Recv, consumedAll)
			}
		}
	}
	if f.HookPresent && m.ConnTainted == "" {
		want := DefaultWindow + m.wu0Sent - m.dataRecv
		m.Obs["send_window_accounting_checked"]++
		if f.SendWindow < want {
			m.viol(-1, "outbound:session-send-window-leak",
				"after the connection the server's session send window is %d; the client granted 65536+%d and received %d DATA bytes, so it should be %d: %d bytes were debited but never sent",
				f.SendWindow, m.wu0Sent, m.dataRecv, want, want-f.SendWindow)
		} else if f.SendWindow > want {
			m.viol(-1, "outbound:session-send-window-excess",
				"after the connection the server's session send window is %d, the client's account says %d", f.SendWindow, want)
		}
		lo := DefaultWindow - m.dataSent + m.wu0Recv
		hi := DefaultWindow - m.certAccept + m.wu0Recv
		if f.RecvWindow < lo || f.RecvWindow > hi {
			m.viol(-1, "inbound:session-recv-window-accounting",
				"after the connection the server's session receive window is %d, the client's account bounds it to [%d,%d]", f.RecvWindow, lo, hi)
		}
		if f.OpenStreams != 0 {
			m.viol(-1, "stream-rules:streams-left-after-close", "%d streams still in the server's table after serve returned", f.OpenStreams)
		}
	}
}

// overReplenished: "replenishes them by consumed bytes" - the session window
// must never be given back more than the server received. Two observations:
// the client's own account (WINDOW_UPDATE(0) sum against DATA bytes sent, taken
// whenever a WINDOW_UPDATE arrived) and, through the verif accessor, the
// server's session receive window after serve returned: it starts at 65536, is
// debited for every DATA byte received and credited for every WINDOW_UPDATE(0)
// queued, so a value above 65536 means the server credited bytes it never got.
// The second one does not depend on when the client sent its later DATA (DATA
// sent after the excess was granted hides it from the first account).
//
// Shape read-racing-stream-reset: the excess is at most one handler Read for
// every upload stream that was reset (by either side) while its handler had
// begun to read - the account of a stream that is torn down under a reading
// handler. Anything larger, or without such a stream, keeps the plain signature.
func (m *Model) overReplenished(f EndFacts) {
	excess := m.overRepl
	what := ""
	if excess > 0 {
		what = fmt.Sprintf("session WINDOW_UPDATEs received sum to %d (log #%d) but only %d DATA bytes were ever sent", m.overReplWU, m.overReplSeq, m.overReplSent)
	}
	if f.HookPresent && f.RecvWindow-DefaultWindow > 0 {
		if x := f.RecvWindow - DefaultWindow; x > excess {
			excess = x
		}
		if what != "" {
			what += "; "
		}
		what += fmt.Sprintf("after the connection the server's session receive window is %d, above the initial %d although every credit has to match received DATA (client account: %d bytes sent, WINDOW_UPDATE(0) sum %d)",
			f.RecvWindow, int64(DefaultWindow), m.dataSent, m.wu0Recv)
	}
	if excess <= 0 {
		return
	}
	var bound int64
	var ids []string
	for _, s := range m.order {
		if s.Sent == 0 || !(s.ClientRst || s.SrvRst || s.SrvRstMaybe) || f.Invoked(s.Token) == 0 || f.Consumed(s.Token) == 0 {
			continue
		}
		bound += m.H.MaxRead(s.Token)
		by := "client"
		if !s.ClientRst {
			by = "server"
		}
		ids = append(ids, fmt.Sprintf("%d (reset by the %s, handler consumed %d of %d, reads of <= %d)", s.ID, by, f.Consumed(s.Token), s.Sent, m.H.MaxRead(s.Token)))
	}
	if bound > 0 && excess <= bound {
		m.Obs["over_replenished_read_racing_stream_reset"]++
		m.viol(m.overReplSeq, "inbound:session-window-over-replenished:read-racing-stream-reset",
			"%s: %d byte(s) too many, no more than one handler Read for each upload stream reset while its handler was reading: stream %v", what, excess, ids)
		return
	}
	m.viol(m.overReplSeq, "inbound:session-window-over-replenished", "%s: %d byte(s) too many", what, excess)
}
