// Package spdycli is a scripted SPDY/3.1 client for the /verif harness
// (property C40). wire.go is the wire level: frame encoding, a connection with
// a reader goroutine, and one totally ordered log of everything sent and
// received. The codec (codec.go) is the client's own, written from the SPDY/3.1
// draft, so that ids/flags/values a well-behaved framer refuses (stream 0,
// status 0, ...) can be put on the wire and so that nothing of bfe_spdy is
// trusted; the stream-state and window bookkeeping lives in model.go.
package spdycli

import (
	"encoding/binary"
	"fmt"
	"net"
	"sync"
	"time"
)

// Frame kinds in the log.
const (
	KSynStream    = "SYN_STREAM"
	KSynReply     = "SYN_REPLY"
	KRstStream    = "RST_STREAM"
	KSettings     = "SETTINGS"
	KPing         = "PING"
	KGoAway       = "GOAWAY"
	KHeaders      = "HEADERS"
	KWindowUpdate = "WINDOW_UPDATE"
	KData         = "DATA"
	KUnknown      = "UNKNOWN" // control frame of a type that does not exist
	KClosed       = "CLOSED"  // receive side: read error / EOF
	KNote         = "NOTE"    // harness action (gate opened, ...), never on the wire
)

// SPDY/3.1 constants (from the draft, not from bfe).
const (
	FlagFin = 0x01

	SettingsInitialWindowSize = 7

	RstProtocolError       = 1
	RstInvalidStream       = 2
	RstRefusedStream       = 3
	RstCancel              = 5
	RstFlowControlError    = 7
	RstStreamInUse         = 8
	RstStreamAlreadyClosed = 9

	DefaultWindow = 65536
	MaxWindow     = 1<<31 - 1
)

// Event is one entry of the connection log.
type Event struct {
	Seq    int    `json:"seq"`
	Dir    string `json:"dir"` // "S" sent, "R" received, "H" harness note
	Kind   string `json:"kind"`
	Stream uint32 `json:"stream,omitempty"`
	Flags  uint8  `json:"flags,omitempty"`
	Len    int    `json:"len,omitempty"`    // DATA payload length
	Status uint32 `json:"status,omitempty"` // RST_STREAM / GOAWAY status
	Delta  uint32 `json:"delta,omitempty"`  // WINDOW_UPDATE
	PingID uint32 `json:"ping,omitempty"`
	// SETTINGS: id/value pairs
	Settings [][2]uint32         `json:"settings,omitempty"`
	Token    int                 `json:"token,omitempty"` // SYN_STREAM sent: handler token in :path
	Note     string              `json:"note,omitempty"`
	Headers  map[string][]string `json:"-"`
	Data     []byte              `json:"-"`
}

func (e Event) Fin() bool { return e.Flags&FlagFin != 0 }

func (e Event) String() string {
	s := fmt.Sprintf("%d%s %s", e.Seq, e.Dir, e.Kind)
	switch e.Kind {
	case KData:
		s += fmt.Sprintf(" s=%d len=%d", e.Stream, e.Len)
	case KSynStream:
		s += fmt.Sprintf(" s=%d tok=%d", e.Stream, e.Token)
	case KSynReply, KHeaders:
		s += fmt.Sprintf(" s=%d", e.Stream)
	case KRstStream:
		s += fmt.Sprintf(" s=%d status=%d", e.Stream, e.Status)
	case KGoAway:
		s += fmt.Sprintf(" last=%d status=%d", e.Stream, e.Status)
	case KWindowUpdate:
		s += fmt.Sprintf(" s=%d delta=%d", e.Stream, e.Delta)
	case KPing:
		s += fmt.Sprintf(" id=%d", e.PingID)
	case KSettings:
		s += fmt.Sprintf(" %v", e.Settings)
	case KClosed, KNote:
		s += " " + e.Note
	}
	if e.Flags != 0 {
		s += fmt.Sprintf(" fl=%d", e.Flags)
	}
	return s
}

// Conn is the client side of one connection.
type Conn struct {
	nc net.Conn
	fr frameReader
	hw headerWriter

	mu     sync.Mutex
	cond   *sync.Cond
	log    []Event
	closed bool // reader saw an error / EOF
	dead   bool // closed, or a GOAWAY was received: nothing more will be answered
	werr   error

	// OnEvent is called with mu held for every logged event, sent (before it
	// is written) and received.
	OnEvent func(*Event)

	nextPing uint32
	readerWG sync.WaitGroup
}

// NewConn wraps nc and starts the reader goroutine.
func NewConn(nc net.Conn, onEvent func(*Event)) (*Conn, error) {
	c := &Conn{nc: nc, OnEvent: onEvent, nextPing: 1}
	c.cond = sync.NewCond(&c.mu)
	c.fr.r = nc
	c.readerWG.Add(1)
	go c.reader()
	return c, nil
}

func (c *Conn) reader() {
	defer c.readerWG.Done()
	for {
		ev, err := c.fr.read()
		if err != nil {
			ev = Event{Dir: "R", Kind: KClosed, Note: err.Error()}
		}
		c.mu.Lock()
		if err != nil {
			c.closed = true
		}
		c.appendLocked(&ev)
		c.cond.Broadcast()
		c.mu.Unlock()
		if err != nil {
			return
		}
	}
}

func (c *Conn) appendLocked(ev *Event) {
	ev.Seq = len(c.log)
	if ev.Dir == "R" && (ev.Kind == KGoAway || ev.Kind == KClosed) {
		c.dead = true
	}
	if c.OnEvent != nil {
		c.OnEvent(ev)
	}
	keep := *ev
	keep.Data = nil // payload is checked in OnEvent; not kept
	c.log = append(c.log, keep)
}

// ---- encoding ------------------------------------------------------------

func ctrl(typ uint16, flags uint8, payload []byte) []byte {
	b := make([]byte, 8+len(payload))
	binary.BigEndian.PutUint16(b[0:], 0x8000|3)
	binary.BigEndian.PutUint16(b[2:], typ)
	binary.BigEndian.PutUint32(b[4:], uint32(flags)<<24|uint32(len(payload)))
	copy(b[8:], payload)
	return b
}

func u32s(vs ...uint32) []byte {
	b := make([]byte, 4*len(vs))
	for i, v := range vs {
		binary.BigEndian.PutUint32(b[4*i:], v)
	}
	return b
}

// send logs ev (so that every reaction is logged after it) and writes raw.
func (c *Conn) send(ev Event, raw []byte) error {
	ev.Dir = "S"
	c.mu.Lock()
	c.appendLocked(&ev)
	werr := c.werr
	c.mu.Unlock()
	if werr != nil {
		return werr
	}
	_, err := c.nc.Write(raw)
	if err != nil {
		c.mu.Lock()
		c.werr = err
		c.mu.Unlock()
	}
	return err
}

// Note logs a harness action.
func (c *Conn) Note(ev Event) {
	ev.Dir = "H"
	ev.Kind = KNote
	c.mu.Lock()
	c.appendLocked(&ev)
	c.mu.Unlock()
}

// SynStream sends a SYN_STREAM (any stream id, including 0).
func (c *Conn) SynStream(id uint32, token int, fin bool, hdr map[string][]string, prio uint8) error {
	blk, err := c.hw.block(hdr)
	if err != nil {
		return err
	}
	fl := uint8(0)
	if fin {
		fl = FlagFin
	}
	p := append(u32s(id, 0), prio<<5, 0)
	p = append(p, blk...)
	return c.send(Event{Kind: KSynStream, Stream: id, Flags: fl, Token: token}, ctrl(1, fl, p))
}

// Headers sends a HEADERS frame (kind KHeaders) or a SYN_REPLY (kind KSynReply).
func (c *Conn) Headers(kind string, id uint32, fin bool, hdr map[string][]string) error {
	blk, err := c.hw.block(hdr)
	if err != nil {
		return err
	}
	fl := uint8(0)
	if fin {
		fl = FlagFin
	}
	typ := uint16(8)
	if kind == KSynReply {
		typ = 2
	}
	return c.send(Event{Kind: kind, Stream: id, Flags: fl}, ctrl(typ, fl, append(u32s(id), blk...)))
}

func (c *Conn) Data(id uint32, payload []byte, fin bool) error {
	fl := uint8(0)
	if fin {
		fl = FlagFin
	}
	b := make([]byte, 8+len(payload))
	binary.BigEndian.PutUint32(b[0:], id&0x7fffffff)
	binary.BigEndian.PutUint32(b[4:], uint32(fl)<<24|uint32(len(payload)))
	copy(b[8:], payload)
	return c.send(Event{Kind: KData, Stream: id, Flags: fl, Len: len(payload)}, b)
}

func (c *Conn) RstStream(id, status uint32) error {
	return c.send(Event{Kind: KRstStream, Stream: id, Status: status}, ctrl(3, 0, u32s(id, status)))
}

func (c *Conn) Settings(pairs [][2]uint32) error {
	p := u32s(uint32(len(pairs)))
	for _, kv := range pairs {
		p = append(p, u32s(kv[0]&0xffffff, kv[1])...)
	}
	return c.send(Event{Kind: KSettings, Settings: pairs}, ctrl(4, 0, p))
}

func (c *Conn) Ping(id uint32) error {
	return c.send(Event{Kind: KPing, PingID: id}, ctrl(6, 0, u32s(id)))
}

func (c *Conn) GoAway(last, status uint32) error {
	return c.send(Event{Kind: KGoAway, Stream: last, Status: status}, ctrl(7, 0, u32s(last, status)))
}

func (c *Conn) WindowUpdate(id, delta uint32) error {
	return c.send(Event{Kind: KWindowUpdate, Stream: id, Delta: delta}, ctrl(9, 0, u32s(id, delta)))
}

// UnknownControl sends a control frame of a type SPDY/3.1 does not define.
func (c *Conn) UnknownControl(typ uint16, payload []byte) error {
	return c.send(Event{Kind: KUnknown, Status: uint32(typ), Len: len(payload)}, ctrl(typ, 0, payload))
}

// ---- waiting -------------------------------------------------------------

// WaitUntil blocks until pred (evaluated with the log lock held) is true or d
// elapsed; it reports whether pred became true.
func (c *Conn) WaitUntil(d time.Duration, pred func() bool) bool {
	deadline := time.Now().Add(d)
	t := time.AfterFunc(d, func() {
		c.mu.Lock()
		c.cond.Broadcast()
		c.mu.Unlock()
	})
	defer t.Stop()
	c.mu.Lock()
	defer c.mu.Unlock()
	for {
		if pred() {
			return true
		}
		if !time.Now().Before(deadline) {
			return false
		}
		c.cond.Wait()
	}
}

// Wake re-evaluates pending WaitUntil predicates (call after changing state
// they depend on from outside the connection, e.g. a handler finishing).
func (c *Conn) Wake() {
	c.mu.Lock()
	c.cond.Broadcast()
	c.mu.Unlock()
}

// Locked runs fn with the log lock held.
func (c *Conn) Locked(fn func()) {
	c.mu.Lock()
	defer c.mu.Unlock()
	fn()
}

// SyncResult says how a Sync ended.
type SyncResult int

const (
	SyncPong    SyncResult = iota // the PING came back
	SyncDead                      // GOAWAY received or connection closed: nothing more will be answered
	SyncTimeout                   // neither within the time limit
)

// Sync does a PING round trip with a fresh odd id. It returns early when the
// connection is closed or a GOAWAY has been received.
func (c *Conn) Sync(d time.Duration) (SyncResult, int) {
	c.mu.Lock()
	id := c.nextPing
	c.nextPing += 2
	from := len(c.log)
	c.mu.Unlock()
	if err := c.Ping(id); err != nil {
		// the reader will see the close too; wait for it so the log is complete
		c.WaitUntil(d, func() bool { return c.closed })
		return SyncDead, from
	}
	res := SyncTimeout
	pos := from
	c.WaitUntil(d, func() bool {
		for ; pos < len(c.log); pos++ {
			e := &c.log[pos]
			if e.Dir != "R" {
				continue
			}
			if e.Kind == KPing && e.PingID == id {
				res = SyncPong
				return true
			}
		}
		if c.dead {
			res = SyncDead
			return true
		}
		return false
	})
	return res, from
}

// ReservePingIDs makes Sync skip ids below n (when the script sends its own PINGs).
func (c *Conn) ReservePingIDs(n uint32) {
	c.mu.Lock()
	if c.nextPing < n|1 {
		c.nextPing = n | 1
	}
	c.mu.Unlock()
}

// Log returns a copy of the log.
func (c *Conn) Log() []Event {
	c.mu.Lock()
	defer c.mu.Unlock()
	return append([]Event(nil), c.log...)
}

// Closed reports whether the reader has seen the end of the connection.
func (c *Conn) Closed() bool {
	c.mu.Lock()
	defer c.mu.Unlock()
	return c.closed
}

// Close closes the transport and waits for the reader goroutine.
func (c *Conn) Close() {
	c.nc.Close()
	c.readerWG.Wait()
	c.hw.release()
}
