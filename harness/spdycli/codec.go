package spdycli

// codec.go: the client's own SPDY/3.1 wire codec (frame reader, header block
// compression). Nothing of bfe_spdy is used.

import (
	"bytes"
	"compress/zlib"
	"encoding/binary"
	"fmt"
	"io"
	"strings"
)

// headerWriter compresses header blocks on one zlib stream (level 0: stored
// blocks; any compliant inflater accepts them).
type headerWriter struct {
	buf bytes.Buffer
	zw  *zlib.Writer
}

// A deflate context is ~650 KB; creating one per connection dominates the cost
// of a short connection under the race detector, so they are recycled (Reset
// starts a fresh zlib stream).
var zwFree = make(chan *zlib.Writer, 512)

func (w *headerWriter) release() {
	if w.zw != nil {
		select {
		case zwFree <- w.zw:
		default:
		}
		w.zw = nil
	}
}

func (w *headerWriter) block(h map[string][]string) ([]byte, error) {
	if w.zw == nil {
		select {
		case zw := <-zwFree:
			zw.Reset(&w.buf)
			w.zw = zw
		default:
			zw, err := zlib.NewWriterLevelDict(&w.buf, zlib.NoCompression, spdyDictionary)
			if err != nil {
				return nil, err
			}
			w.zw = zw
		}
	}
	w.buf.Reset()
	var raw bytes.Buffer
	binary.Write(&raw, binary.BigEndian, uint32(len(h)))
	for name, vals := range h {
		name = strings.ToLower(name)
		binary.Write(&raw, binary.BigEndian, uint32(len(name)))
		raw.WriteString(name)
		v := strings.Join(vals, "\x00")
		binary.Write(&raw, binary.BigEndian, uint32(len(v)))
		raw.WriteString(v)
	}
	if _, err := w.zw.Write(raw.Bytes()); err != nil {
		return nil, err
	}
	if err := w.zw.Flush(); err != nil {
		return nil, err
	}
	return append([]byte(nil), w.buf.Bytes()...), nil
}

// chunkReader feeds the inflater the compressed bytes of one frame at a time.
type chunkReader struct{ b []byte }

func (c *chunkReader) Read(p []byte) (int, error) {
	if len(c.b) == 0 {
		return 0, io.EOF
	}
	n := copy(p, c.b)
	c.b = c.b[n:]
	return n, nil
}

type headerReader struct {
	src chunkReader
	zr  io.ReadCloser
}

func (r *headerReader) block(comp []byte) (map[string][]string, error) {
	r.src.b = comp
	if r.zr == nil {
		zr, err := zlib.NewReaderDict(&r.src, spdyDictionary)
		if err != nil {
			return nil, err
		}
		r.zr = zr
	}
	var n uint32
	if err := binary.Read(r.zr, binary.BigEndian, &n); err != nil {
		return nil, err
	}
	if n > 4096 {
		return nil, fmt.Errorf("header block with %d headers", n)
	}
	h := make(map[string][]string, n)
	str := func() (string, error) {
		var l uint32
		if err := binary.Read(r.zr, binary.BigEndian, &l); err != nil {
			return "", err
		}
		if l > 1<<20 {
			return "", fmt.Errorf("header string of %d bytes", l)
		}
		b := make([]byte, l)
		if _, err := io.ReadFull(r.zr, b); err != nil {
			return "", err
		}
		return string(b), nil
	}
	for i := uint32(0); i < n; i++ {
		name, err := str()
		if err != nil {
			return nil, err
		}
		val, err := str()
		if err != nil {
			return nil, err
		}
		h[name] = append(h[name], strings.Split(val, "\x00")...)
	}
	return h, nil
}

// frameReader parses frames from r.
type frameReader struct {
	r  io.Reader
	hr headerReader
}

func (f *frameReader) read() (Event, error) {
	var hd [8]byte
	if _, err := io.ReadFull(f.r, hd[:]); err != nil {
		return Event{}, err
	}
	w0 := binary.BigEndian.Uint32(hd[0:])
	w1 := binary.BigEndian.Uint32(hd[4:])
	flags, length := uint8(w1>>24), w1&0xffffff
	payload := make([]byte, length)
	if _, err := io.ReadFull(f.r, payload); err != nil {
		return Event{}, err
	}
	if w0&0x80000000 == 0 {
		return Event{Dir: "R", Kind: KData, Stream: w0 & 0x7fffffff, Flags: flags, Len: len(payload), Data: payload}, nil
	}
	typ := uint16(w0)
	need := func(n int) error {
		if len(payload) < n {
			return fmt.Errorf("control frame type %d with %d byte payload", typ, len(payload))
		}
		return nil
	}
	u := func(i int) uint32 { return binary.BigEndian.Uint32(payload[i:]) }
	switch typ {
	case 1: // SYN_STREAM (server push; never expected)
		if err := need(10); err != nil {
			return Event{}, err
		}
		h, err := f.hr.block(payload[10:])
		if err != nil {
			return Event{}, err
		}
		return Event{Dir: "R", Kind: KSynStream, Stream: u(0) & 0x7fffffff, Flags: flags, Headers: h}, nil
	case 2, 8:
		if err := need(4); err != nil {
			return Event{}, err
		}
		h, err := f.hr.block(payload[4:])
		if err != nil {
			return Event{}, err
		}
		k := KSynReply
		if typ == 8 {
			k = KHeaders
		}
		return Event{Dir: "R", Kind: k, Stream: u(0) & 0x7fffffff, Flags: flags, Headers: h}, nil
	case 3:
		if err := need(8); err != nil {
			return Event{}, err
		}
		return Event{Dir: "R", Kind: KRstStream, Stream: u(0) & 0x7fffffff, Status: u(4)}, nil
	case 4:
		if err := need(4); err != nil {
			return Event{}, err
		}
		n := int(u(0))
		if err := need(4 + 8*n); err != nil {
			return Event{}, err
		}
		ev := Event{Dir: "R", Kind: KSettings, Flags: flags}
		for i := 0; i < n; i++ {
			ev.Settings = append(ev.Settings, [2]uint32{u(4+8*i) & 0xffffff, u(8 + 8*i)})
		}
		return ev, nil
	case 6:
		if err := need(4); err != nil {
			return Event{}, err
		}
		return Event{Dir: "R", Kind: KPing, PingID: u(0)}, nil
	case 7:
		if err := need(8); err != nil {
			return Event{}, err
		}
		return Event{Dir: "R", Kind: KGoAway, Stream: u(0) & 0x7fffffff, Status: u(4)}, nil
	case 9:
		if err := need(8); err != nil {
			return Event{}, err
		}
		return Event{Dir: "R", Kind: KWindowUpdate, Stream: u(0) & 0x7fffffff, Delta: u(4) & 0x7fffffff}, nil
	}
	return Event{Dir: "R", Kind: KUnknown, Status: uint32(typ), Len: len(payload)}, nil
}
