package e2e

import (
	"bufio"
	"bytes"
	"io"
	"net"
	"net/http"
	"time"
)

// Resp is one response as framed by net/http (helper; oracles that care about
// exact framing use the raw bytes and the strict reference parser).
type Resp struct {
	Status int
	Header http.Header
	Body   []byte
	Proto  string
	Close  bool
}

// RoundTripRaw writes req on a fresh connection and reads one response.
// It returns the parsed response, all raw bytes read and whether EOF was seen
// right after the response (within wait).
func RoundTripRaw(addr string, req []byte, method string, watchdog time.Duration) (*Resp, []byte, error) {
	c, err := net.DialTimeout("tcp", addr, 5*time.Second)
	if err != nil {
		return nil, nil, err
	}
	defer c.Close()
	c.SetDeadline(time.Now().Add(watchdog))
	if _, err := c.Write(req); err != nil {
		return nil, nil, err
	}
	var raw bytes.Buffer
	br := bufio.NewReader(io.TeeReader(c, &raw))
	r, err := ReadResp(br, method)
	return r, raw.Bytes(), err
}

// ReadResp reads one response from br.
func ReadResp(br *bufio.Reader, method string) (*Resp, error) {
	res, err := http.ReadResponse(br, &http.Request{Method: method})
	if err != nil {
		return nil, err
	}
	body, err := io.ReadAll(res.Body)
	res.Body.Close()
	return &Resp{Status: res.StatusCode, Header: res.Header, Body: body, Proto: res.Proto, Close: res.Close}, err
}
