package e2e

import (
	"bufio"
	"bytes"
	"fmt"
	"io"
	"net"
	"net/http"
	"strconv"
	"sync"
	"sync/atomic"
	"time"
)

// Exchange is one request as received by a scripted backend.
type Exchange struct {
	Seq     int64 // global arrival order over all backends of one BackendSet
	Backend *BackendServer
	ConnID  int64
	OnConn  int           // index of this request on its connection (0 = first)
	Req     *http.Request // as framed by net/http (helper only; oracles use Raw)
	Body    []byte
	Raw     []byte // exact bytes of this request as received (head + body framing)
	BodyErr error
}

// Action scripts what the backend does with a request.
type Action struct {
	Status      int
	Header      [][2]string
	Body        []byte
	Raw         []byte        // if non-nil written verbatim instead of Status/Header/Body
	Chunked     bool          // send Body chunked (no Content-Length)
	NoLength    bool          // send neither Content-Length nor chunked (close-delimited)
	ChunkSizes  []int         // write sizes for the body
	CloseBefore bool          // close without any reply
	Reset       bool          // close with RST without any reply
	WriteOnly   int           // if >0 write only that many bytes of the response, then close
	Delay       time.Duration // sleep before replying
	Hold        <-chan struct{} // if non-nil wait for it before replying
	CloseAfter  bool          // close the connection after replying
}

// ConnRecord is everything one backend connection received.
type ConnRecord struct {
	ID       int64
	Raw      []byte // all bytes received
	Requests int
	Trailing []byte // bytes after the last complete request
	ReadErr  string
}

// BackendServer is a scripted HTTP/1.1 origin on loopback.
type BackendServer struct {
	Name string
	Addr string
	Port int
	ln   net.Listener
	set  *BackendSet

	// OnRequest decides the reply; nil => 200 with a small body.
	OnRequest func(x *Exchange) Action
	// OnAccept may reject a connection right after accept (RST) by returning false.
	OnAccept func() bool

	mu     sync.Mutex
	Conns  []*ConnRecord
	InFlight int64 // requests currently being handled (between full read and reply written)
	closed int32
}

// BackendSet groups backends that share one arrival sequence and log.
type BackendSet struct {
	seq    int64
	connID int64
	mu     sync.Mutex
	Log    []*Exchange
	All    []*BackendServer
}

func NewBackendSet() *BackendSet { return &BackendSet{} }

// ClosedPort returns a loopback port with nothing listening (connect fails).
func ClosedPort() int {
	l, err := net.Listen("tcp", "127.0.0.1:0")
	if err != nil {
		panic(err)
	}
	p := l.Addr().(*net.TCPAddr).Port
	l.Close()
	return p
}

// New starts a backend.
func (s *BackendSet) New(name string, on func(x *Exchange) Action) *BackendServer {
	ln, err := net.Listen("tcp", "127.0.0.1:0")
	if err != nil {
		panic(err)
	}
	b := &BackendServer{Name: name, ln: ln, set: s, OnRequest: on}
	a := ln.Addr().(*net.TCPAddr)
	b.Addr, b.Port = "127.0.0.1", a.Port
	s.mu.Lock()
	s.All = append(s.All, b)
	s.mu.Unlock()
	go b.acceptLoop()
	return b
}

// Exchanges returns a snapshot of the arrival log.
func (s *BackendSet) Exchanges() []*Exchange {
	s.mu.Lock()
	defer s.mu.Unlock()
	return append([]*Exchange(nil), s.Log...)
}

// Reset clears the arrival log.
func (s *BackendSet) Reset() {
	s.mu.Lock()
	s.Log = nil
	s.mu.Unlock()
}

func (s *BackendSet) Close() {
	for _, b := range s.All {
		b.Close()
	}
}

func (b *BackendServer) Close() {
	if atomic.CompareAndSwapInt32(&b.closed, 0, 1) {
		b.ln.Close()
	}
}

func (b *BackendServer) acceptLoop() {
	for {
		c, err := b.ln.Accept()
		if err != nil {
			return
		}
		if b.OnAccept != nil && !b.OnAccept() {
			if tc, ok := c.(*net.TCPConn); ok {
				tc.SetLinger(0)
			}
			c.Close()
			continue
		}
		go b.serve(c)
	}
}

type recReader struct {
	r   io.Reader
	buf bytes.Buffer
}

func (r *recReader) Read(p []byte) (int, error) {
	n, err := r.r.Read(p)
	r.buf.Write(p[:n])
	return n, err
}

func (b *BackendServer) serve(c net.Conn) {
	defer c.Close()
	rec := &ConnRecord{ID: atomic.AddInt64(&b.set.connID, 1)}
	b.mu.Lock()
	b.Conns = append(b.Conns, rec)
	b.mu.Unlock()
	rr := &recReader{r: c}
	br := bufio.NewReaderSize(rr, 64<<10)
	consumed := 0
	finish := func(err error) {
		b.mu.Lock()
		rec.Raw = append([]byte(nil), rr.buf.Bytes()...)
		rec.Trailing = append([]byte(nil), rec.Raw[consumed:]...)
		if err != nil {
			rec.ReadErr = err.Error()
		}
		b.mu.Unlock()
	}
	for i := 0; ; i++ {
		c.SetReadDeadline(time.Now().Add(60 * time.Second))
		req, err := http.ReadRequest(br)
		if err != nil {
			// drain whatever else arrives so that Trailing is complete
			io.Copy(io.Discard, br)
			finish(err)
			return
		}
		body, berr := io.ReadAll(req.Body)
		now := rr.buf.Len() - br.Buffered()
		x := &Exchange{Backend: b, ConnID: rec.ID, OnConn: i, Req: req, Body: body, BodyErr: berr,
			Raw: append([]byte(nil), rr.buf.Bytes()[consumed:now]...)}
		consumed = now
		b.mu.Lock()
		rec.Requests++
		b.mu.Unlock()
		x.Seq = atomic.AddInt64(&b.set.seq, 1)
		b.set.mu.Lock()
		b.set.Log = append(b.set.Log, x)
		b.set.mu.Unlock()
		atomic.AddInt64(&b.InFlight, 1)
		act := Action{Status: 200, Body: []byte("ok")}
		if b.OnRequest != nil {
			act = b.OnRequest(x)
		}
		if act.Hold != nil {
			<-act.Hold
		}
		if act.Delay > 0 {
			time.Sleep(act.Delay)
		}
		if act.Reset || act.CloseBefore {
			atomic.AddInt64(&b.InFlight, -1)
			if act.Reset {
				if tc, ok := c.(*net.TCPConn); ok {
					tc.SetLinger(0)
				}
			}
			finish(nil)
			return
		}
		out := RenderResponse(&act)
		closeNow := act.CloseAfter
		if act.WriteOnly > 0 && act.WriteOnly < len(out) {
			out = out[:act.WriteOnly]
			closeNow = true
		}
		werr := writeChunks(c, out, act.ChunkSizes)
		atomic.AddInt64(&b.InFlight, -1)
		if werr != nil || closeNow || berr != nil {
			if closeNow && werr == nil {
				// let the peer see a clean FIN after the bytes
				if tc, ok := c.(*net.TCPConn); ok {
					tc.CloseWrite()
				}
				c.SetReadDeadline(time.Now().Add(2 * time.Second))
				io.Copy(io.Discard, br)
			}
			finish(werr)
			return
		}
	}
}

func writeChunks(c net.Conn, out []byte, sizes []int) error {
	if len(sizes) == 0 {
		_, err := c.Write(out)
		return err
	}
	i := 0
	for len(out) > 0 {
		n := sizes[i%len(sizes)]
		i++
		if n <= 0 {
			n = 1
		}
		if n > len(out) {
			n = len(out)
		}
		if _, err := c.Write(out[:n]); err != nil {
			return err
		}
		out = out[n:]
	}
	return nil
}

// RenderResponse serialises an Action into HTTP/1.1 response bytes.
func RenderResponse(a *Action) []byte {
	if a.Raw != nil {
		return a.Raw
	}
	var w bytes.Buffer
	st := a.Status
	if st == 0 {
		st = 200
	}
	fmt.Fprintf(&w, "HTTP/1.1 %d %s\r\n", st, http.StatusText(st))
	hasCL := false
	for _, h := range a.Header {
		fmt.Fprintf(&w, "%s: %s\r\n", h[0], h[1])
		if http.CanonicalHeaderKey(h[0]) == "Content-Length" {
			hasCL = true
		}
	}
	switch {
	case a.Chunked:
		w.WriteString("Transfer-Encoding: chunked\r\n\r\n")
		if len(a.Body) > 0 {
			w.WriteString(strconv.FormatInt(int64(len(a.Body)), 16) + "\r\n")
			w.Write(a.Body)
			w.WriteString("\r\n")
		}
		w.WriteString("0\r\n\r\n")
	case a.NoLength:
		w.WriteString("\r\n")
		w.Write(a.Body)
	default:
		if !hasCL {
			fmt.Fprintf(&w, "Content-Length: %d\r\n", len(a.Body))
		}
		w.WriteString("\r\n")
		w.Write(a.Body)
	}
	return w.Bytes()
}

// Snapshot returns copies of the connection records.
func (b *BackendServer) Snapshot() []ConnRecord {
	b.mu.Lock()
	defer b.mu.Unlock()
	out := make([]ConnRecord, len(b.Conns))
	for i, c := range b.Conns {
		out[i] = *c
	}
	return out
}
