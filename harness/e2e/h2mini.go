package e2e

import (
	"bytes"
	"crypto/tls"
	"fmt"
	"io"
	"net"
	"time"

	"golang.org/x/net/http2"
	"golang.org/x/net/http2/hpack"

	"github.com/bfenetworks/bfe/bfe_http"
	"github.com/bfenetworks/bfe/bfe_spdy"
)

// HF is one raw header field (any bytes).
type HF struct{ Name, Value string }

// MiniResult is what a one-shot H2/SPDY exchange observed.
type MiniResult struct {
	Status    string
	Fields    []HF
	Body      []byte
	Reset     bool   // RST_STREAM received
	GoAway    bool   // GOAWAY received
	ErrCode   uint32 // code of RST/GOAWAY
	EndStream bool
	Err       string // transport error (EOF, timeout, ...)
}

// H2Once opens a TLS+ALPN h2 connection to addr, sends one request made of the
// given raw fields (pseudo-headers included, exactly as given) and an optional
// body, and reads stream 1 to its end.
func H2Once(addr string, fields []HF, body []byte, watchdog time.Duration) *MiniResult {
	r, _ := H2WithProbe(addr, fields, body, nil, watchdog)
	return r
}

// H2WithProbe is H2Once followed (when probe != nil) by a second request on
// stream 3 of the same connection; probeAnswered reports whether that second
// request got a response (i.e. the connection was still alive).
func H2WithProbe(addr string, fields []HF, body []byte, probe []HF, watchdog time.Duration) (first *MiniResult, probeAnswered bool) {
	res := &MiniResult{}
	first = res
	d := &net.Dialer{Timeout: 20 * time.Second}
	c, err := tls.DialWithDialer(d, "tcp", addr, &tls.Config{InsecureSkipVerify: true, NextProtos: []string{"h2"}, MaxVersion: tls.VersionTLS12})
	if err != nil {
		res.Err = "dial: " + err.Error()
		return res, false
	}
	defer c.Close()
	if p := c.ConnectionState().NegotiatedProtocol; p != "h2" {
		res.Err = "alpn: " + p
		return res, false
	}
	c.SetDeadline(time.Now().Add(watchdog))
	if _, err := io.WriteString(c, http2.ClientPreface); err != nil {
		res.Err = err.Error()
		return res, false
	}
	fr := http2.NewFramer(c, c)
	fr.WriteSettings()
	var hb bytes.Buffer
	enc := hpack.NewEncoder(&hb)
	for _, f := range fields {
		enc.WriteField(hpack.HeaderField{Name: f.Name, Value: f.Value})
	}
	if err := fr.WriteHeaders(http2.HeadersFrameParam{StreamID: 1, BlockFragment: hb.Bytes(), EndHeaders: true, EndStream: len(body) == 0}); err != nil {
		res.Err = err.Error()
		return res, false
	}
	if len(body) > 0 {
		fr.WriteData(1, true, body)
	}
	var curp **MiniResult
	dec := hpack.NewDecoder(4096, func(f hpack.HeaderField) {
		c := *curp
		if f.Name == ":status" {
			c.Status = f.Value
		}
		c.Fields = append(c.Fields, HF{f.Name, f.Value})
	})
	cur := res
	curp = &cur
	stream := uint32(1)
	done := func() (*MiniResult, bool, bool) {
		// stream finished; start the probe if requested
		if probe == nil || stream == 3 {
			return res, stream == 3 && cur.Status != "", true
		}
		var pb bytes.Buffer
		penc := hpack.NewEncoder(&pb)
		for _, f := range probe {
			penc.WriteField(hpack.HeaderField{Name: f.Name, Value: f.Value})
		}
		if err := fr.WriteHeaders(http2.HeadersFrameParam{StreamID: 3, BlockFragment: pb.Bytes(), EndHeaders: true, EndStream: true}); err != nil {
			return res, false, true
		}
		stream = 3
		cur = &MiniResult{}
		return nil, false, false
	}
	for {
		f, err := fr.ReadFrame()
		if err != nil {
			if stream == 1 {
				res.Err = err.Error()
			}
			return res, false
		}
		switch f := f.(type) {
		case *http2.SettingsFrame:
			if !f.IsAck() {
				fr.WriteSettingsAck()
			}
		case *http2.HeadersFrame:
			dec.Write(f.HeaderBlockFragment())
			if f.StreamEnded() {
				cur.EndStream = true
				if r, ans, fin := done(); fin {
					return r, ans
				}
			}
		case *http2.ContinuationFrame:
			dec.Write(f.HeaderBlockFragment())
		case *http2.DataFrame:
			cur.Body = append(cur.Body, f.Data()...)
			if f.StreamEnded() {
				cur.EndStream = true
				if r, ans, fin := done(); fin {
					return r, ans
				}
			}
		case *http2.RSTStreamFrame:
			cur.Reset, cur.ErrCode = true, uint32(f.ErrCode)
			return res, false
		case *http2.GoAwayFrame:
			if stream == 1 {
				res.GoAway, res.ErrCode = true, uint32(f.ErrCode)
				return res, false
			}
			// GOAWAY while the probe is outstanding: only decisive if the probe stream was refused
			if f.LastStreamID < 3 {
				return res, false
			}
		case *http2.PingFrame:
			if !f.IsAck() {
				fr.WritePing(true, f.Data)
			}
		}
	}
}

// SpdyOnce opens a TLS+ALPN spdy/3.1 connection, sends one SYN_STREAM with the
// given raw header block (names and values exactly as given; bfe_spdy's framer
// is used as the wire codec) and an optional body, and reads stream 1 to its end.
func SpdyOnce(addr string, fields []HF, body []byte, watchdog time.Duration) *MiniResult {
	res := &MiniResult{}
	d := &net.Dialer{Timeout: 20 * time.Second}
	c, err := tls.DialWithDialer(d, "tcp", addr, &tls.Config{InsecureSkipVerify: true, NextProtos: []string{"spdy/3.1"}, MaxVersion: tls.VersionTLS12})
	if err != nil {
		res.Err = "dial: " + err.Error()
		return res
	}
	defer c.Close()
	if p := c.ConnectionState().NegotiatedProtocol; p != "spdy/3.1" {
		res.Err = "alpn: " + p
		return res
	}
	c.SetDeadline(time.Now().Add(watchdog))
	fr, err := bfe_spdy.NewFramer(c, c)
	if err != nil {
		res.Err = err.Error()
		return res
	}
	h := bfe_http.Header{}
	for _, f := range fields {
		h[f.Name] = append(h[f.Name], f.Value)
	}
	syn := &bfe_spdy.SynStreamFrame{StreamId: 1, Headers: h}
	if len(body) == 0 {
		syn.CFHeader.Flags = bfe_spdy.ControlFlagFin
	}
	if err := fr.WriteFrame(syn); err != nil {
		res.Err = "write: " + err.Error()
		return res
	}
	if len(body) > 0 {
		fr.WriteFrame(&bfe_spdy.DataFrame{StreamId: 1, Flags: bfe_spdy.DataFlagFin, Data: body})
	}
	for {
		f, err := fr.ReadFrame()
		if err != nil {
			res.Err = err.Error()
			return res
		}
		switch f := f.(type) {
		case *bfe_spdy.SynReplyFrame:
			for k, vv := range f.Headers {
				for _, v := range vv {
					if k == ":status" {
						res.Status = v
					}
					res.Fields = append(res.Fields, HF{k, v})
				}
			}
			if f.StreamEnded() {
				res.EndStream = true
				return res
			}
		case *bfe_spdy.DataFrame:
			res.Body = append(res.Body, f.Data...)
			if f.StreamEnded() {
				res.EndStream = true
				return res
			}
		case *bfe_spdy.RstStreamFrame:
			res.Reset, res.ErrCode = true, uint32(f.Status)
			return res
		case *bfe_spdy.GoAwayFrame:
			res.GoAway, res.ErrCode = true, uint32(f.Status)
			return res
		case *bfe_spdy.PingFrame:
			fr.WriteFrame(f)
		}
	}
}

var _ = fmt.Sprint
