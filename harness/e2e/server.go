package e2e

import (
	"fmt"
	"net"
	"os"
	"path/filepath"
	"sync"
	"time"

	"github.com/baidu/go-lib/log"

	"github.com/bfenetworks/bfe/bfe_config/bfe_conf"
	"github.com/bfenetworks/bfe/bfe_modules"
	"github.com/bfenetworks/bfe/bfe_server"
)

// Server is a running in-process BFE.
type Server struct {
	Srv       *bfe_server.BfeServer
	Root      string
	HTTPAddr  string
	HTTPSAddr string
	httpLn    net.Listener
	httpsLn   net.Listener
}

var (
	logOnce     sync.Once
	modulesOnce sync.Once
)

// InitLog initialises bfe's global logger once per process (files under dir).
func InitLog(dir string) {
	logOnce.Do(func() {
		level := os.Getenv("VERIF_BFE_LOG")
		if level == "" {
			level = "CRITICAL"
		}
		if err := log.Init("bfe_verif", level, filepath.Join(dir, "bfelog"), false, "D", 1); err != nil {
			panic(err)
		}
	})
}

// Scratch returns the scratch directory of this check run.
func Scratch() string {
	d := os.Getenv("VERIF_SCRATCH")
	if d == "" {
		d = os.TempDir()
	}
	return d
}

var srvSeq int
var srvSeqMu sync.Mutex

// Start builds a conf root and starts a BFE server on loopback listeners.
// With modules enabled only one server per process is safe (module objects
// are process-global); without modules several servers may coexist.
func Start(o *Options) (*Server, error) {
	scratch := Scratch()
	InitLog(scratch)
	srvSeqMu.Lock()
	srvSeq++
	dir := filepath.Join(scratch, fmt.Sprintf("bfe%d", srvSeq))
	srvSeqMu.Unlock()
	if err := os.MkdirAll(dir, 0o755); err != nil {
		return nil, err
	}
	root, err := WriteConfRoot(dir, o)
	if err != nil {
		return nil, err
	}
	cfg, err := bfe_conf.BfeConfigLoad(filepath.Join(root, "bfe.conf"), root)
	if err != nil {
		return nil, fmt.Errorf("BfeConfigLoad: %v", err)
	}
	modulesOnce.Do(bfe_modules.SetModules)
	srv := bfe_server.NewBfeServer(cfg, root, "verif")
	if err := srv.InitHttp(); err != nil {
		return nil, fmt.Errorf("InitHttp: %v", err)
	}
	if o.HTTPS {
		if err := srv.InitHttps(); err != nil {
			return nil, fmt.Errorf("InitHttps: %v", err)
		}
	}
	if err := srv.InitDataLoad(); err != nil {
		return nil, fmt.Errorf("InitDataLoad: %v", err)
	}
	if err := srv.InitWebMonitor(0); err != nil {
		return nil, fmt.Errorf("InitWebMonitor: %v", err)
	}
	if err := srv.RegisterModules(cfg.Server.Modules); err != nil {
		return nil, fmt.Errorf("RegisterModules: %v", err)
	}
	if err := srv.InitModules(); err != nil {
		return nil, fmt.Errorf("InitModules: %v", err)
	}
	s := &Server{Srv: srv, Root: root}
	ln, err := net.Listen("tcp", "127.0.0.1:0")
	if err != nil {
		return nil, err
	}
	s.httpLn = bfe_server.NewBfeListener(ln, cfg)
	s.HTTPAddr = ln.Addr().String()
	srv.HttpListener = s.httpLn
	go srv.ServeHttp(s.httpLn)
	if o.HTTPS {
		ln2, err := net.Listen("tcp", "127.0.0.1:0")
		if err != nil {
			return nil, err
		}
		s.httpsLn = bfe_server.NewBfeListener(ln2, cfg)
		s.HTTPSAddr = ln2.Addr().String()
		hl := bfe_server.NewHttpsListener(s.httpsLn, srv.TLSConfig)
		srv.HttpsListener = hl
		go srv.ServeHttps(hl)
	}
	return s, nil
}

// Close stops accepting connections.
func (s *Server) Close() {
	if s.httpLn != nil {
		s.httpLn.Close()
	}
	if s.httpsLn != nil {
		s.httpsLn.Close()
	}
}

// Dial opens a raw TCP connection to the HTTP listener.
func (s *Server) Dial() (net.Conn, error) {
	return net.DialTimeout("tcp", s.HTTPAddr, 5*time.Second)
}
