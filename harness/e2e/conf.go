// Package e2e runs a complete BFE server in-process (config load -> routing ->
// modules -> balancer -> real backends on loopback) for the end-to-end monitors.
package e2e

import (
	"encoding/json"
	"fmt"
	"os"
	"path/filepath"
	"strings"
)

// Backend is one backend instance of a sub-cluster.
type Backend struct {
	Name   string
	Addr   string
	Port   int
	Weight int
}

// SubCluster is a named group of backends with a gslb weight.
type SubCluster struct {
	Name     string
	Weight   int
	Backends []Backend
}

// Cluster describes one cluster: its routing host, retry policy and sub-clusters.
type Cluster struct {
	Name string
	// Hosts routed to this cluster (exact host names); the product is "p_"+Name unless Product is set.
	Hosts   []string
	Product string

	Protocol              string // http (default) / fcgi / h2c / ws / tcp
	RetryLevel            int
	RetryMax              int
	CrossRetry            int
	BalanceMode           string // WRR / WLC
	HashStrategy          int
	HashHeader            string
	SessionSticky         bool
	MaxIdleConnsPerHost   int // 0 = no keep-alive to backends
	TimeoutConnSrv        int // ms (default 1000)
	TimeoutResponseHeader int // ms (default 5000)
	TimeoutReadClient     int // ms (default 30000)
	TimeoutReadClientAgain int // ms (default 30000)
	ResFlushInterval      int
	CancelOnClientClose   bool
	FailNum               int // health: consecutive failures (default 1000000 = never)
	CheckInterval         int // ms
	SubClusters           []SubCluster
	Blackhole             int // weight of GSLB_BLACKHOLE
}

// Options configure the generated conf root.
type Options struct {
	Clusters       []Cluster
	Modules        []string
	Files          map[string]string // conf-root-relative path -> content (written last)
	HTTPS          bool
	L4Proxy        bool
	MaxHeaderBytes int
	MaxHeaderUriBytes int
	KeepAliveDisabled bool
	DefaultProduct string
	SessionTickets bool
	TLSRule        string // full content of tls_rule_conf.data (optional)
	ClientReadTimeout int // seconds, default 60
}

func ip(v int) *int       { return &v }
func sp(v string) *string { return &v }

func orDef(v, d int) int {
	if v == 0 {
		return d
	}
	return v
}

// RepoRoot is where bfe's sources (and its sample conf) live.
func RepoRoot() string {
	if r := os.Getenv("VERIF_REPO"); r != "" {
		return r
	}
	return "/repo"
}

func copyTree(src, dst string) error {
	return filepath.Walk(src, func(p string, info os.FileInfo, err error) error {
		if err != nil {
			return err
		}
		rel, _ := filepath.Rel(src, p)
		t := filepath.Join(dst, rel)
		if info.IsDir() {
			return os.MkdirAll(t, 0o755)
		}
		b, err := os.ReadFile(p)
		if err != nil {
			return err
		}
		return os.WriteFile(t, b, 0o644)
	})
}

// ClusterConfJSON renders server_data_conf/cluster_conf.data.
func ClusterConfJSON(version string, cs []Cluster) string {
	conf := map[string]interface{}{}
	for _, c := range cs {
		proto := c.Protocol
		if proto == "" {
			proto = "http"
		}
		mode := c.BalanceMode
		if mode == "" {
			mode = "WRR"
		}
		hh := c.HashHeader
		if hh == "" {
			hh = "Cookie:UID"
		}
		conf[c.Name] = map[string]interface{}{
			"BackendConf": map[string]interface{}{
				"Protocol":              proto,
				"TimeoutConnSrv":        orDef(c.TimeoutConnSrv, 1000),
				"TimeoutResponseHeader": orDef(c.TimeoutResponseHeader, 5000),
				"MaxIdleConnsPerHost":   c.MaxIdleConnsPerHost,
				"RetryLevel":            c.RetryLevel,
			},
			"CheckConf": map[string]interface{}{
				"Schem": "tcp", "FailNum": orDef(c.FailNum, 1000000), "CheckInterval": orDef(c.CheckInterval, 1000), "SuccNum": 1,
			},
			"GslbBasic": map[string]interface{}{
				"CrossRetry": c.CrossRetry, "RetryMax": c.RetryMax, "BalanceMode": mode,
				"HashConf": map[string]interface{}{"HashStrategy": c.HashStrategy, "HashHeader": hh, "SessionSticky": c.SessionSticky},
			},
			"ClusterBasic": map[string]interface{}{
				"TimeoutReadClient": orDef(c.TimeoutReadClient, 30000), "TimeoutWriteClient": 60000,
				"TimeoutReadClientAgain": orDef(c.TimeoutReadClientAgain, 30000), "ReqWriteBufferSize": 512, "ReqFlushInterval": 0,
				"ResFlushInterval": c.ResFlushInterval, "CancelOnClientClose": c.CancelOnClientClose,
			},
		}
	}
	b, _ := json.MarshalIndent(map[string]interface{}{"Version": version, "Config": conf}, "", " ")
	return string(b)
}

func productOf(c Cluster) string {
	if c.Product != "" {
		return c.Product
	}
	return "p_" + c.Name
}

// HostRuleJSON renders host_rule.data.
func HostRuleJSON(version string, cs []Cluster, defaultProduct string) string {
	hosts := map[string][]string{}
	tags := map[string][]string{}
	for _, c := range cs {
		if len(c.Hosts) == 0 {
			continue
		}
		p := productOf(c)
		tag := "t_" + c.Name
		hosts[tag] = append(hosts[tag], c.Hosts...)
		tags[p] = append(tags[p], tag)
	}
	var dp interface{}
	if defaultProduct != "" {
		dp = defaultProduct
	}
	b, _ := json.MarshalIndent(map[string]interface{}{"Version": version, "DefaultProduct": dp, "Hosts": hosts, "HostTags": tags}, "", " ")
	return string(b)
}

// RouteRuleJSON renders route_rule.data (advanced rules: host -> cluster).
func RouteRuleJSON(version string, cs []Cluster) string {
	pr := map[string][]map[string]string{}
	for _, c := range cs {
		if len(c.Hosts) == 0 {
			continue
		}
		p := productOf(c)
		q := make([]string, len(c.Hosts))
		for i, h := range c.Hosts {
			q[i] = h
		}
		pr[p] = append(pr[p], map[string]string{
			"Cond":        fmt.Sprintf("req_host_in(\"%s\")", strings.Join(q, "|")),
			"ClusterName": c.Name,
		})
	}
	b, _ := json.MarshalIndent(map[string]interface{}{"Version": version, "ProductRule": pr}, "", " ")
	return string(b)
}

// GslbJSON renders cluster_conf/gslb.data.
func GslbJSON(cs []Cluster) string {
	cl := map[string]map[string]int{}
	for _, c := range cs {
		m := map[string]int{"GSLB_BLACKHOLE": c.Blackhole}
		for _, s := range c.SubClusters {
			m[s.Name] = s.Weight
		}
		cl[c.Name] = m
	}
	b, _ := json.MarshalIndent(map[string]interface{}{"Clusters": cl, "Hostname": "", "Ts": "0"}, "", " ")
	return string(b)
}

// ClusterTableJSON renders cluster_conf/cluster_table.data.
func ClusterTableJSON(version string, cs []Cluster) string {
	cfg := map[string]map[string][]map[string]interface{}{}
	for _, c := range cs {
		m := map[string][]map[string]interface{}{}
		for _, s := range c.SubClusters {
			bs := []map[string]interface{}{}
			for _, b := range s.Backends {
				bs = append(bs, map[string]interface{}{"Addr": b.Addr, "Name": b.Name, "Port": b.Port, "Weight": b.Weight})
			}
			m[s.Name] = bs
		}
		cfg[c.Name] = m
	}
	b, _ := json.MarshalIndent(map[string]interface{}{"Config": cfg, "Version": version}, "", " ")
	return string(b)
}

// WriteConfRoot creates a conf root under dir from bfe's sample conf plus the
// generated data files. It returns the root path.
func WriteConfRoot(dir string, o *Options) (string, error) {
	root := filepath.Join(dir, "conf")
	if err := copyTree(filepath.Join(RepoRoot(), "conf"), root); err != nil {
		return "", err
	}
	var mods strings.Builder
	for _, m := range o.Modules {
		fmt.Fprintf(&mods, "Modules = %s\n", m)
	}
	l4 := ""
	if o.L4Proxy {
		l4 = "PROXY"
	}
	ticketsDisabled := "true"
	if o.SessionTickets {
		ticketsDisabled = "false"
	}
	bfeConf := fmt.Sprintf(`[Server]
HttpPort = 18080
HttpsPort = 18443
MonitorPort = 18421
MaxCpus = 0
Layer4LoadBalancer = "%s"
TlsHandshakeTimeout = 30
ClientReadTimeout = %d
ClientWriteTimeout = 60
KeepAliveEnabled = %v
GracefulShutdownTimeout = 10
MaxHeaderBytes = %d
MaxHeaderUriBytes = %d
HostRuleConf = server_data_conf/host_rule.data
VipRuleConf = server_data_conf/vip_rule.data
RouteRuleConf = server_data_conf/route_rule.data
ClusterConf = server_data_conf/cluster_conf.data
ClusterTableConf = cluster_conf/cluster_table.data
GslbConf = cluster_conf/gslb.data
%s
MonitorInterval = 20
DebugServHttp = false
DebugBfeRoute = false
DebugBal = false
DebugHealthCheck = false

[HttpsBasic]
ServerCertConf = tls_conf/server_cert_conf.data
TlsRuleConf = tls_conf/tls_rule_conf.data
CipherSuites=TLS_ECDHE_RSA_WITH_AES_128_GCM_SHA256|TLS_ECDHE_RSA_WITH_CHACHA20_POLY1305_SHA256
CipherSuites=TLS_ECDHE_RSA_WITH_AES_128_CBC_SHA
CipherSuites=TLS_ECDHE_RSA_WITH_AES_256_CBC_SHA
CipherSuites=TLS_RSA_WITH_AES_128_CBC_SHA
CipherSuites=TLS_RSA_WITH_AES_256_CBC_SHA
CurvePreferences=CurveP256
EnableSslv2ClientHello = true
ClientCABaseDir = tls_conf/client_ca
ClientCRLBaseDir = tls_conf/client_crl

[SessionCache]
SessionCacheDisabled = true
Servers = "example.redis.cluster"
KeyPrefix = "bfe"
ConnectTimeout = 50
ReadTimeout = 50
WriteTimeout = 50
MaxIdle = 20
SessionExpire = 3600

[SessionTicket]
SessionTicketsDisabled = %s
SessionTicketKeyFile = tls_conf/session_ticket_key.data
`, l4, orDef(o.ClientReadTimeout, 60), !o.KeepAliveDisabled, orDef(o.MaxHeaderBytes, 1048576), orDef(o.MaxHeaderUriBytes, 8192), mods.String(), ticketsDisabled)
	files := map[string]string{
		"bfe.conf":                            bfeConf,
		"server_data_conf/cluster_conf.data":  ClusterConfJSON("v1", o.Clusters),
		"server_data_conf/host_rule.data":     HostRuleJSON("v1", o.Clusters, o.DefaultProduct),
		"server_data_conf/route_rule.data":    RouteRuleJSON("v1", o.Clusters),
		"server_data_conf/vip_rule.data":      `{"Version":"v1","Vips":{}}`,
		"cluster_conf/gslb.data":              GslbJSON(o.Clusters),
		"cluster_conf/cluster_table.data":     ClusterTableJSON("v1", o.Clusters),
	}
	if o.TLSRule != "" {
		files["tls_conf/tls_rule_conf.data"] = o.TLSRule
	}
	for k, v := range o.Files {
		files[k] = v
	}
	for k, v := range files {
		p := filepath.Join(root, k)
		os.MkdirAll(filepath.Dir(p), 0o755)
		if err := os.WriteFile(p, []byte(v), 0o644); err != nil {
			return "", err
		}
	}
	return root, nil
}
