// Package h2cli is a scripted HTTP/2 client for the /verif harness. It uses
// golang.org/x/net/http2's Framer and x/net's hpack as a codec that is
// independent of the bfe_http2 code under test. A reader goroutine records
// every frame the server sends as an Event; scripts write frames through the
// thin wrappers and wait on predicates over the event log.
package h2cli

import (
	"bytes"
	"encoding/binary"
	"errors"
	"fmt"
	"io"
	"net"
	"sync"
	"sync/atomic"
	"time"

	"golang.org/x/net/http2"
	"golang.org/x/net/http2/hpack"
)

// Event is one frame received from the server (a HEADERS frame and its
// CONTINUATION frames are merged into one event).
type Event struct {
	Seq        int
	Type       http2.FrameType
	StreamID   uint32
	Flags      http2.Flags
	Length     uint32 // payload length of the (first) frame as on the wire
	Frames     int    // 1 + number of CONTINUATION frames merged
	MaxFragLen uint32 // largest single frame length in a merged header block
	Data       []byte // DATA payload without padding (copied)
	FlowLen    uint32 // flow-controlled length of a DATA frame (payload incl. padding)
	Fields     []hpack.HeaderField
	HdrErr     string
	EndStream  bool
	ErrCode    http2.ErrCode
	LastStream uint32
	Increment  uint32
	Settings   []http2.Setting
	Ack        bool
	PingData   [8]byte
	Debug      string
}

func (e Event) String() string {
	switch e.Type {
	case http2.FrameData:
		return fmt.Sprintf("DATA(s=%d len=%d end=%v)", e.StreamID, e.FlowLen, e.EndStream)
	case http2.FrameHeaders:
		return fmt.Sprintf("HEADERS(s=%d end=%v %v)", e.StreamID, e.EndStream, e.Fields)
	case http2.FrameRSTStream:
		return fmt.Sprintf("RST_STREAM(s=%d %v)", e.StreamID, e.ErrCode)
	case http2.FrameGoAway:
		return fmt.Sprintf("GOAWAY(last=%d %v %q)", e.LastStream, e.ErrCode, e.Debug)
	case http2.FrameWindowUpdate:
		return fmt.Sprintf("WINDOW_UPDATE(s=%d +%d)", e.StreamID, e.Increment)
	case http2.FrameSettings:
		return fmt.Sprintf("SETTINGS(ack=%v %v)", e.Ack, e.Settings)
	case http2.FramePing:
		return fmt.Sprintf("PING(ack=%v %x)", e.Ack, e.PingData)
	}
	return fmt.Sprintf("%v(s=%d len=%d)", e.Type, e.StreamID, e.Length)
}

// Conn is the client side of one connection.
type Conn struct {
	nc net.Conn

	wmu  sync.Mutex
	fr   *http2.Framer
	henc *hpack.Encoder
	hbuf bytes.Buffer
	werr error

	mu      sync.Mutex
	cond    *sync.Cond
	events  []Event
	readErr error
	ended   bool

	// OnEvent, if set before Start, is called on the reader goroutine for
	// every event at the moment it arrives (before it is appended to the log).
	OnEvent func(e *Event)
	// AutoAckSettings makes the reader goroutine acknowledge server SETTINGS.
	AutoAckSettings bool
	// NoRead makes Start skip the reader goroutine (flood scripts).
	NoRead bool

	// read gate: when gated the reader goroutine needs one permit per frame it reads
	gateMu   sync.Mutex
	gateCond *sync.Cond
	gated    bool
	permits  int

	pingSeq uint64
	Timeout time.Duration // safety timeout of Wait*/Sync (default 60s); a timeout is reported, never judged
}

// New wraps nc. Call Start to send the preface.
func New(nc net.Conn) *Conn {
	c := &Conn{nc: nc, AutoAckSettings: true, Timeout: 60 * time.Second}
	c.cond = sync.NewCond(&c.mu)
	c.gateCond = sync.NewCond(&c.gateMu)
	c.fr = http2.NewFramer(nc, nc)
	c.fr.AllowIllegalWrites = true
	c.fr.AllowIllegalReads = true
	c.fr.SetMaxReadFrameSize(1<<24 - 1)
	c.henc = hpack.NewEncoder(&c.hbuf)
	return c
}

// Start writes the client preface and the initial SETTINGS and starts the reader.
func (c *Conn) Start(settings ...http2.Setting) error {
	if !c.NoRead {
		go c.readLoop()
	}
	c.wmu.Lock()
	defer c.wmu.Unlock()
	if _, err := io.WriteString(c.nc, http2.ClientPreface); err != nil {
		c.werr = err
		return err
	}
	return c.note(c.fr.WriteSettings(settings...))
}

// StartRaw starts the reader without writing anything.
func (c *Conn) StartRaw() {
	if !c.NoRead {
		go c.readLoop()
	}
}

func (c *Conn) note(err error) error {
	if err != nil && c.werr == nil {
		c.werr = err
	}
	return err
}

// Close closes the transport.
func (c *Conn) Close() { c.nc.Close() }

// NetConn returns the transport.
func (c *Conn) NetConn() net.Conn { return c.nc }

func (c *Conn) readLoop() {
	dec := hpack.NewDecoder(4096, nil)
	var pending *Event
	var block []byte
	for {
		c.acquireRead()
		f, err := c.fr.ReadFrame()
		if err != nil {
			c.mu.Lock()
			c.readErr = err
			c.ended = true
			c.cond.Broadcast()
			c.mu.Unlock()
			return
		}
		fh := f.Header()
		var ev *Event
		if pending != nil {
			cf, ok := f.(*http2.ContinuationFrame)
			if !ok || fh.StreamID != pending.StreamID {
				pending.HdrErr = fmt.Sprintf("header block interrupted by %v on stream %d", fh.Type, fh.StreamID)
				c.deliver(pending)
				pending = nil
			} else {
				block = append(block, cf.HeaderBlockFragment()...)
				pending.Frames++
				if fh.Length > pending.MaxFragLen {
					pending.MaxFragLen = fh.Length
				}
				if cf.HeadersEnded() {
					c.decode(dec, pending, block)
					c.deliver(pending)
					pending = nil
				}
				continue
			}
		}
		ev = &Event{Type: fh.Type, StreamID: fh.StreamID, Flags: fh.Flags, Length: fh.Length, Frames: 1}
		switch f := f.(type) {
		case *http2.DataFrame:
			ev.Data = append([]byte(nil), f.Data()...)
			ev.FlowLen = fh.Length
			ev.EndStream = f.StreamEnded()
		case *http2.HeadersFrame:
			ev.EndStream = f.StreamEnded()
			ev.MaxFragLen = fh.Length
			block = append(block[:0], f.HeaderBlockFragment()...)
			if !f.HeadersEnded() {
				pending = ev
				continue
			}
			c.decode(dec, ev, block)
		case *http2.RSTStreamFrame:
			ev.ErrCode = f.ErrCode
		case *http2.GoAwayFrame:
			ev.ErrCode = f.ErrCode
			ev.LastStream = f.LastStreamID
			ev.Debug = string(f.DebugData())
		case *http2.WindowUpdateFrame:
			ev.Increment = f.Increment
		case *http2.SettingsFrame:
			ev.Ack = f.IsAck()
			f.ForeachSetting(func(s http2.Setting) error {
				ev.Settings = append(ev.Settings, s)
				return nil
			})
		case *http2.PingFrame:
			ev.Ack = f.IsAck()
			ev.PingData = f.Data
		case *http2.ContinuationFrame:
			ev.HdrErr = "CONTINUATION without preceding HEADERS"
		}
		c.deliver(ev)
		if ev.Type == http2.FrameSettings && !ev.Ack && c.AutoAckSettings {
			c.wmu.Lock()
			c.note(c.fr.WriteSettingsAck())
			c.wmu.Unlock()
		}
	}
}

func (c *Conn) decode(dec *hpack.Decoder, ev *Event, block []byte) {
	fields, err := dec.DecodeFull(block)
	ev.Fields = fields
	if err != nil {
		ev.HdrErr = err.Error()
	}
}

func (c *Conn) deliver(ev *Event) {
	if c.OnEvent != nil {
		c.OnEvent(ev)
	}
	c.mu.Lock()
	ev.Seq = len(c.events)
	c.events = append(c.events, *ev)
	c.cond.Broadcast()
	c.mu.Unlock()
}

// Gate makes the reader goroutine stop before its next ReadFrame until
// permits are granted. A ReadFrame that is already in progress still consumes
// one frame (send a PING and wait for its ack to absorb that one).
func (c *Conn) Gate() {
	c.gateMu.Lock()
	c.gated, c.permits = true, 0
	c.gateMu.Unlock()
}

// Permit lets the gated reader read n more frames (CONTINUATION frames count).
func (c *Conn) Permit(n int) {
	c.gateMu.Lock()
	c.permits += n
	c.gateCond.Broadcast()
	c.gateMu.Unlock()
}

// Ungate removes the read gate.
func (c *Conn) Ungate() {
	c.gateMu.Lock()
	c.gated = false
	c.gateCond.Broadcast()
	c.gateMu.Unlock()
}

func (c *Conn) acquireRead() {
	c.gateMu.Lock()
	for c.gated && c.permits == 0 {
		c.gateCond.Wait()
	}
	if c.gated {
		c.permits--
	}
	c.gateMu.Unlock()
}

// Events returns a copy of the event log.
func (c *Conn) Events() []Event {
	c.mu.Lock()
	defer c.mu.Unlock()
	return append([]Event(nil), c.events...)
}

// NumEvents returns the current length of the event log.
func (c *Conn) NumEvents() int {
	c.mu.Lock()
	defer c.mu.Unlock()
	return len(c.events)
}

// Ended reports whether the reader has seen the end of the connection.
func (c *Conn) Ended() (bool, error) {
	c.mu.Lock()
	defer c.mu.Unlock()
	return c.ended, c.readErr
}

// ErrTimeout is returned by the wait functions when the safety timeout fires.
var ErrTimeout = errors.New("h2cli: safety timeout")

// ErrEnded is returned by the wait functions when the connection ended first.
var ErrEnded = errors.New("h2cli: connection ended")

// Wait blocks until pred(events) is true (nil), the connection ends
// (ErrEnded; pred is evaluated once more on the final log first) or the
// safety timeout fires (ErrTimeout).
func (c *Conn) Wait(pred func(evs []Event) bool) error {
	var timedOut int32
	t := time.AfterFunc(c.Timeout, func() {
		atomic.StoreInt32(&timedOut, 1)
		c.mu.Lock()
		c.cond.Broadcast()
		c.mu.Unlock()
	})
	defer t.Stop()
	c.mu.Lock()
	defer c.mu.Unlock()
	for {
		if pred(c.events) {
			return nil
		}
		if c.ended {
			return ErrEnded
		}
		if atomic.LoadInt32(&timedOut) == 1 {
			return ErrTimeout
		}
		c.cond.Wait()
	}
}

// WaitEnd waits until the server closed the connection.
func (c *Conn) WaitEnd() error {
	err := c.Wait(func([]Event) bool { return false })
	if err == ErrEnded {
		return nil
	}
	return err
}

// Sync sends a PING with a fresh payload and waits for its acknowledgement.
// It returns the index of the ack in the event log.
func (c *Conn) Sync() (int, error) {
	n := atomic.AddUint64(&c.pingSeq, 1)
	var d [8]byte
	binary.BigEndian.PutUint64(d[:], 0xA5A5000000000000|n)
	if err := c.WritePing(false, d); err != nil {
		return -1, err
	}
	idx := -1
	from := 0
	err := c.Wait(func(evs []Event) bool {
		for i := from; i < len(evs); i++ {
			if evs[i].Type == http2.FramePing && evs[i].Ack && evs[i].PingData == d {
				idx = i
				return true
			}
		}
		from = len(evs)
		return false
	})
	return idx, err
}

// ---- writers ----

func (c *Conn) WritePing(ack bool, d [8]byte) error {
	c.wmu.Lock()
	defer c.wmu.Unlock()
	return c.note(c.fr.WritePing(ack, d))
}

func (c *Conn) WriteSettings(s ...http2.Setting) error {
	c.wmu.Lock()
	defer c.wmu.Unlock()
	return c.note(c.fr.WriteSettings(s...))
}

func (c *Conn) WriteSettingsAck() error {
	c.wmu.Lock()
	defer c.wmu.Unlock()
	return c.note(c.fr.WriteSettingsAck())
}

func (c *Conn) WriteData(id uint32, end bool, data []byte) error {
	c.wmu.Lock()
	defer c.wmu.Unlock()
	return c.note(c.fr.WriteData(id, end, data))
}

// WriteDataPadded writes a padded DATA frame; flow-controlled length is len(data)+padLen+1.
func (c *Conn) WriteDataPadded(id uint32, end bool, data []byte, padLen int) error {
	c.wmu.Lock()
	defer c.wmu.Unlock()
	return c.note(c.fr.WriteDataPadded(id, end, data, make([]byte, padLen)))
}

func (c *Conn) WriteRST(id uint32, code http2.ErrCode) error {
	c.wmu.Lock()
	defer c.wmu.Unlock()
	return c.note(c.fr.WriteRSTStream(id, code))
}

func (c *Conn) WriteWindowUpdate(id, incr uint32) error {
	c.wmu.Lock()
	defer c.wmu.Unlock()
	return c.note(c.fr.WriteWindowUpdate(id, incr))
}

func (c *Conn) WritePriority(id uint32, p http2.PriorityParam) error {
	c.wmu.Lock()
	defer c.wmu.Unlock()
	return c.note(c.fr.WritePriority(id, p))
}

func (c *Conn) WriteRaw(t http2.FrameType, flags http2.Flags, id uint32, payload []byte) error {
	c.wmu.Lock()
	defer c.wmu.Unlock()
	return c.note(c.fr.WriteRawFrame(t, flags, id, payload))
}

// RawFrame is one frame given octet by octet.
type RawFrame struct {
	Type    http2.FrameType
	Flags   http2.Flags
	ID      uint32
	Payload []byte
}

// WriteRawGroup writes the frames back to back: nothing the reader goroutine writes on its own
// (SETTINGS acknowledgement) can get between them, e.g. between HEADERS and its CONTINUATION.
func (c *Conn) WriteRawGroup(fs []RawFrame) error {
	c.wmu.Lock()
	defer c.wmu.Unlock()
	for _, f := range fs {
		if err := c.note(c.fr.WriteRawFrame(f.Type, f.Flags, f.ID, f.Payload)); err != nil {
			return err
		}
	}
	return nil
}

// HeadersOpt controls how a header block is put on the wire.
type HeadersOpt struct {
	EndStream  bool
	Priority   *http2.PriorityParam
	PadLen     uint8
	Split      int  // >0: first fragment has Split bytes, rest in one CONTINUATION
	NoEndHdrs  bool // leave END_HEADERS off the last frame (protocol violation to follow up)
	NeverIndex bool
}

// EncodeFields encodes fields with the connection's HPACK encoder (stateful).
// Must be followed by writing the block on this connection.
func (c *Conn) encode(fields []hpack.HeaderField) []byte {
	c.hbuf.Reset()
	for _, f := range fields {
		c.henc.WriteField(f)
	}
	return append([]byte(nil), c.hbuf.Bytes()...)
}

// WriteHeaders encodes fields and writes HEADERS (+CONTINUATION).
func (c *Conn) WriteHeaders(id uint32, fields []hpack.HeaderField, o HeadersOpt) error {
	c.wmu.Lock()
	defer c.wmu.Unlock()
	block := c.encode(fields)
	first := block
	var rest []byte
	if o.Split > 0 && o.Split < len(block) {
		first, rest = block[:o.Split], block[o.Split:]
	}
	p := http2.HeadersFrameParam{
		StreamID:      id,
		BlockFragment: first,
		EndStream:     o.EndStream,
		EndHeaders:    rest == nil && !o.NoEndHdrs,
		PadLength:     o.PadLen,
	}
	if o.Priority != nil {
		p.Priority = *o.Priority
		if p.Priority.IsZero() {
			// x/net omits the priority section for a zero param; force it with weight 0 dep 0 is
			// indistinguishable, so write the frame by hand.
			return c.note(c.writeHeadersRaw(id, first, rest, o))
		}
	}
	if err := c.note(c.fr.WriteHeaders(p)); err != nil {
		return err
	}
	if rest != nil {
		return c.note(c.fr.WriteContinuation(id, !o.NoEndHdrs, rest))
	}
	return nil
}

func (c *Conn) writeHeadersRaw(id uint32, first, rest []byte, o HeadersOpt) error {
	var flags http2.Flags = http2.FlagHeadersPriority
	if o.EndStream {
		flags |= http2.FlagHeadersEndStream
	}
	if rest == nil && !o.NoEndHdrs {
		flags |= http2.FlagHeadersEndHeaders
	}
	var b []byte
	if o.PadLen > 0 {
		flags |= http2.FlagHeadersPadded
		b = append(b, o.PadLen)
	}
	v := o.Priority.StreamDep
	if o.Priority.Exclusive {
		v |= 1 << 31
	}
	b = append(b, byte(v>>24), byte(v>>16), byte(v>>8), byte(v), o.Priority.Weight)
	b = append(b, first...)
	b = append(b, make([]byte, o.PadLen)...)
	if err := c.fr.WriteRawFrame(http2.FrameHeaders, flags, id, b); err != nil {
		return err
	}
	if rest != nil {
		return c.fr.WriteContinuation(id, !o.NoEndHdrs, rest)
	}
	return nil
}

// Req returns the pseudo-header fields of a plain request.
func Req(method, path string, extra ...hpack.HeaderField) []hpack.HeaderField {
	f := []hpack.HeaderField{
		{Name: ":method", Value: method},
		{Name: ":scheme", Value: "https"},
		{Name: ":authority", Value: "verif.test"},
		{Name: ":path", Value: path},
	}
	return append(f, extra...)
}

// WriteErr returns the first write error seen.
func (c *Conn) WriteErr() error {
	c.wmu.Lock()
	defer c.wmu.Unlock()
	return c.werr
}
