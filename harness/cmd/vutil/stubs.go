package main

import "verifharness/vkit"

func c20(r *vkit.Run) {}
func c21(r *vkit.Run) {}
func c22(r *vkit.Run) {}
