package main

import "verifharness/vkit"

func c22(r *vkit.Run) {}
