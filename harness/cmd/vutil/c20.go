package main

import (
	"encoding/hex"
	"fmt"
	"math"
	"sort"
	"strings"
	"sync"
	"sync/atomic"
	"time"

	"github.com/bfenetworks/bfe/bfe_util/hash_set"

	"verifharness/vkit"
)

// C20: for any sequence of add / remove / membership operations the hash set's
// membership answers and size equal those of a mathematical set; an add beyond
// capacity fails without corrupting existing members; keys of invalid length
// are rejected.
//
// Oracle (written from the statement): Go map[string]struct{} + a capacity.
//   - Add(valid key) == nil      => key is a member afterwards (|set| <= cap must hold)
//   - Add(valid key) != nil      => only legal when the set is full; nothing changes
//     (bfe refuses an Add of an already present key when full; the statement
//     is silent about that corner, it is accepted as long as nothing changes)
//   - Add(invalid-length key)    => must return an error; nothing changes
//   - Remove(valid key)          => key is not a member afterwards, no error
//   - Remove(invalid-length key) => nothing changes (error or not)
//   - after EVERY operation: Exist(k) for every key of the universe (valid and
//     invalid lengths) and Len() equal the reference.
// "invalid length" = len > elemSize, or len != elemSize when isFixKeyLen.

type c20Cfg struct {
	Cap     int    `json:"cap"`
	KeySize int    `json:"key_size"`
	Fixed   bool   `json:"fixed_key_len"`
	Hash    string `json:"hash"` // default | const | two | max | len
}

type c20Op struct {
	Op  string `json:"op"`            // add | remove | exist | len
	Key string `json:"key,omitempty"` // hex
}

type c20Case struct {
	Cfg      c20Cfg   `json:"cfg"`
	Universe []string `json:"universe"` // hex keys probed after every op
	Ops      []c20Op  `json:"ops"`
}

func c20Hash(kind string) func([]byte) uint64 {
	switch kind {
	case "const":
		return func([]byte) uint64 { return 7 }
	case "two":
		return func(k []byte) uint64 {
			s := 0
			for _, b := range k {
				s += int(b)
			}
			return uint64(s&1) * 0x9E3779B97F4A7C15
		}
	case "max":
		return func([]byte) uint64 { return math.MaxUint64 }
	case "len":
		return func(k []byte) uint64 { return uint64(len(k)) }
	}
	return nil // default: murmur3 inside bfe
}

func (c *c20Cfg) valid(k []byte) bool {
	if c.Fixed {
		return len(k) == c.KeySize
	}
	return len(k) <= c.KeySize
}

type c20Viol struct {
	Sig  string
	What string
	At   int // op index
}

type c20Stats struct {
	addNew, addExisting, addRefusedFull, rmPresent, rmAbsent int64
	invalidAddRejected, invalidExistProbes                   int64
	reuse, chainRemoves, chainMax                            int64
	existTrue, existFalse                                    int64
	ops                                                      int64
}

// c20Run executes one history against bfe and the reference. It returns the
// violations found (at most one per signature) and statistics.
func c20Run(c *c20Case, st *c20Stats) []c20Viol {
	cfg := &c.Cfg
	hs, err := hash_set.NewHashSet(cfg.Cap, cfg.KeySize, cfg.Fixed, c20Hash(cfg.Hash))
	if err != nil {
		return []c20Viol{{Sig: "new:refused-valid-config", What: err.Error(), At: -1}}
	}
	uni := make([][]byte, len(c.Universe))
	for i, h := range c.Universe {
		uni[i], _ = hex.DecodeString(h)
	}
	hf := c20Hash(cfg.Hash)
	bucket := func(k []byte) (uint64, bool) {
		if hf == nil {
			return 0, false
		}
		return hf(k) % uint64(cfg.Cap*hash_set.LOAD_FACTOR), true
	}
	ref := map[string]struct{}{}
	var viols []c20Viol
	seen := map[string]bool{}
	tainted := false // an invalid-length key was accepted earlier in this history
	stop := false
	report := func(sig, what string, at int) {
		if seen[sig] {
			return
		}
		seen[sig] = true
		viols = append(viols, c20Viol{sig, what, at})
	}
	removedOnce := false
	for i, op := range c.Ops {
		if stop {
			break
		}
		st.ops++
		k, _ := hex.DecodeString(op.Key)
		valid := cfg.valid(k)
		_, present := ref[string(k)]
		suffix := "-after-" + op.Op
		if tainted {
			suffix = "-after-short-key"
		}
		switch op.Op {
		case "add":
			err := hs.Add(k)
			switch {
			case !valid && err == nil:
				kind := "long-key-accepted"
				if len(k) < cfg.KeySize {
					kind = "short-key-accepted"
				}
				pre := "var-len:"
				if cfg.Fixed {
					pre = "fixed-len:"
				}
				report(pre+kind, fmt.Sprintf("Add(%q) (len %d, elemSize %d, isFixKeyLen=%v) returned nil; a key of invalid length must be rejected", k, len(k), cfg.KeySize, cfg.Fixed), i)
				tainted = true
			case !valid:
				st.invalidAddRejected++
			case err == nil:
				if !present {
					if len(ref) >= cfg.Cap {
						report("add:accepted-beyond-capacity", fmt.Sprintf("Add(%q) returned nil with %d members and capacity %d", k, len(ref), cfg.Cap), i)
						stop = true
					}
					ref[string(k)] = struct{}{}
					st.addNew++
					if removedOnce {
						st.reuse++
					}
				} else {
					st.addExisting++
				}
			default: // valid key refused
				if len(ref) < cfg.Cap {
					sig := "add:refused-within-capacity"
					if tainted {
						sig = "fixed-len:add-refused-after-short-key"
					}
					report(sig, fmt.Sprintf("Add(%q) = %v with %d members and capacity %d", k, err, len(ref), cfg.Cap), i)
					if !tainted {
						stop = true
					}
				} else {
					st.addRefusedFull++
				}
			}
		case "remove":
			err := hs.Remove(k)
			if valid {
				if err != nil {
					report("remove:error-on-valid-key", fmt.Sprintf("Remove(%q) = %v", k, err), i)
				}
				if present {
					st.rmPresent++
					removedOnce = true
					if b, ok := bucket(k); ok {
						n := int64(0)
						for m := range ref {
							if bb, _ := bucket([]byte(m)); bb == b {
								n++
							}
						}
						if n >= 2 {
							st.chainRemoves++
						}
						if n > st.chainMax {
							st.chainMax = n
						}
					}
					delete(ref, string(k))
				} else {
					st.rmAbsent++
				}
			}
		case "exist":
			// the full comparison below covers it
		case "len":
		}
		// full comparison: membership first, size second
		for _, u := range uni {
			_, want := ref[string(u)]
			uvalid := cfg.valid(u)
			if !uvalid {
				want = false
				st.invalidExistProbes++
			}
			got := hs.Exist(u)
			if got {
				st.existTrue++
			} else {
				st.existFalse++
			}
			if got == want {
				continue
			}
			var sig string
			switch {
			case tainted && got:
				sig = "fixed-len:phantom-member-after-short-key"
			case tainted:
				sig = "fixed-len:missing-member-after-short-key"
			case !uvalid:
				sig = "membership:invalid-length-key-reported-present" + suffix
			case got:
				sig = "membership:phantom-member" + suffix
			default:
				sig = "membership:lost-member" + suffix
			}
			report(sig, fmt.Sprintf("after op %d (%s %q): Exist(%q)=%v, reference set says %v (members %d, cap %d, hash %s)", i, op.Op, k, u, got, want, len(ref), cfg.Cap, cfg.Hash), i)
			if !tainted {
				stop = true
			}
		}
		if got := hs.Len(); got != len(ref) {
			sig := "len:off" + suffix
			if tainted {
				sig = "fixed-len:len-off-after-short-key"
			}
			report(sig, fmt.Sprintf("after op %d (%s %q): Len()=%d, reference set has %d (cap %d)", i, op.Op, k, got, len(ref), cfg.Cap), i)
			if !tainted {
				stop = true
			}
		}
	}
	return viols
}

// c20Shrink greedily removes operations while the same signature still fires.
func c20Shrink(c *c20Case, sig string) *c20Case {
	has := func(x *c20Case) bool {
		var st c20Stats
		fired := false
		func() {
			defer func() {
				if recover() != nil {
					fired = false
				}
			}()
			for _, v := range c20Run(x, &st) {
				if v.Sig == sig {
					fired = true
				}
			}
		}()
		return fired
	}
	cur := &c20Case{Cfg: c.Cfg, Universe: c.Universe, Ops: append([]c20Op{}, c.Ops...)}
	for chunk := len(cur.Ops) / 2; chunk >= 1; chunk /= 2 {
		for i := 0; i+chunk <= len(cur.Ops); {
			t := &c20Case{Cfg: cur.Cfg, Universe: cur.Universe}
			t.Ops = append(append([]c20Op{}, cur.Ops[:i]...), cur.Ops[i+chunk:]...)
			if has(t) {
				cur = t
			} else {
				i += chunk
			}
		}
	}
	return cur
}

var sigCount sync.Map // "prop|sig" -> *int64

// sigFirstFew is true for the first two occurrences of a signature: only those
// are worth shrinking, vkit drops the witnesses of later ones.
func sigFirstFew(prop, sig string) bool {
	v, _ := sigCount.LoadOrStore(prop+"|"+sig, new(int64))
	return atomic.AddInt64(v.(*int64), 1) <= 2
}

// sigFlushLater reports the occurrences beyond the first two (which were
// shrunk and reported with their witnesses) so that the totals in the evidence
// are right. Called once, after all cases ran.
func sigFlushLater(r *vkit.Run, prop string) {
	sigCount.Range(func(k, v interface{}) bool {
		ks := k.(string)
		if !strings.HasPrefix(ks, prop+"|") {
			return true
		}
		for n := atomic.LoadInt64(v.(*int64)) - 2; n > 0; n-- {
			r.Violation(strings.TrimPrefix(ks, prop+"|"), "further occurrence (witness not kept)", nil)
		}
		return true
	})
}

// parallelUnlessStuck is vkit.Parallel, except that it gives up waiting when a
// violation has already been recorded and no case completed for 15 s (a broken
// structure may make bfe loop forever; the verdict "violated" is already
// established then, the wall clock only ends the run). Without a violation it
// keeps waiting: the driver's watchdog then reports inconclusive.
func parallelUnlessStuck(r *vkit.Run, n int, fn func(i int)) (completed bool) {
	var progress int64
	done := make(chan struct{})
	go func() {
		vkit.Parallel(n, 0, func(i int) { fn(i); atomic.AddInt64(&progress, 1) })
		close(done)
	}()
	last, idle := int64(-1), 0
	for {
		select {
		case <-done:
			return true
		case <-time.After(5 * time.Second):
			p := atomic.LoadInt64(&progress)
			if p != last {
				last, idle = p, 0
				continue
			}
			idle++
			if idle >= 3 && r.Violations() > 0 {
				r.Count("run_cut_short_after_violation(workers_stuck_inside_bfe)", 1)
				return false
			}
		}
	}
}

func c20Check(r *vkit.Run, c *c20Case, shrink bool) {
	var st c20Stats
	var viols []c20Viol
	if r.Try(func() interface{} { return c }, func() { viols = c20Run(c, &st) }) {
		return
	}
	for _, v := range viols {
		w, what := c, v.What
		if shrink && !sigFirstFew("C20", v.Sig) {
			continue // counted; reported by sigFlushLater after the first two (shrunk) witnesses
		}
		if shrink && v.At >= 0 {
			w = c20Shrink(&c20Case{Cfg: c.Cfg, Universe: c.Universe, Ops: c.Ops[:v.At+1]}, v.Sig)
			var st2 c20Stats
			for _, v2 := range c20Run(w, &st2) { // describe the shrunk history, not the original
				if v2.Sig == v.Sig {
					what = v2.What
				}
			}
		}
		r.Violation(v.Sig, what, w)
	}
	key := fmt.Sprintf("%v|%v|%v", c.Cfg, c.Universe, c.Ops)
	r.CaseS(key, st.reuse > 0 && st.rmPresent > 0 && len(c.Ops) >= 50)
	r.Count("ops", st.ops)
	r.Count("add_new", st.addNew)
	r.Count("add_existing", st.addExisting)
	r.Count("add_refused_full", st.addRefusedFull)
	r.Count("remove_present", st.rmPresent)
	r.Count("remove_absent", st.rmAbsent)
	r.Count("invalid_len_add_rejected", st.invalidAddRejected)
	r.Count("invalid_len_exist_probes", st.invalidExistProbes)
	r.Count("add_new_after_a_remove(free-list reuse)", st.reuse)
	r.Count("remove_from_bucket_chain_len>=2", st.chainRemoves)
	r.Count("exist_true", st.existTrue)
	r.Count("exist_false", st.existFalse)
	r.Count("histories_hash_"+c.Cfg.Hash, 1)
	if c.Cfg.Fixed {
		r.Count("histories_fixed_len", 1)
	} else {
		r.Count("histories_var_len", 1)
	}
}

func c20Gen(g *vkit.Rand) *c20Case {
	c := &c20Case{}
	c.Cfg.Cap = g.Range(1, 16)
	c.Cfg.KeySize = g.Range(1, 6)
	c.Cfg.Fixed = g.Bool()
	c.Cfg.Hash = g.PickS([]string{"default", "default", "const", "const", "two", "two", "max", "len"})
	ks := c.Cfg.KeySize
	// valid keys: a tiny universe, a few more than the capacity so that "full" is reached
	nValid := g.Range(2, c.Cfg.Cap+4)
	alpha := []byte{0, 1, 'a', 'b', 0xff}
	seen := map[string]bool{}
	var valid, invalid [][]byte
	addKey := func(dst *[][]byte, k []byte) {
		if !seen[string(k)] {
			seen[string(k)] = true
			*dst = append(*dst, k)
		}
	}
	if g.Chance(2, 3) {
		// the all-zero key of full length: what an untouched pool slot contains
		addKey(&valid, make([]byte, ks))
	}
	for tries := 0; len(valid) < nValid && tries < 200; tries++ {
		l := ks
		if !c.Cfg.Fixed {
			l = g.Range(0, ks)
		}
		k := make([]byte, l)
		for j := range k {
			k[j] = alpha[g.Intn(len(alpha))]
		}
		addKey(&valid, k)
	}
	withInvalid := g.Bool()
	if withInvalid {
		// too long
		for _, extra := range []int{1, 3} {
			k := make([]byte, ks+extra)
			for j := range k {
				k[j] = alpha[g.Intn(len(alpha))]
			}
			if g.Bool() && len(valid) > 0 { // a valid key plus a suffix
				copy(k, valid[g.Intn(len(valid))])
			}
			addKey(&invalid, k)
		}
		if c.Cfg.Fixed {
			// too short: prefixes of valid keys, zeros, the empty key
			addKey(&invalid, []byte{})
			for l := 1; l < ks; l++ {
				k := make([]byte, l)
				if g.Bool() {
					copy(k, valid[g.Intn(len(valid))])
				}
				addKey(&invalid, k)
			}
		}
	}
	for _, k := range valid {
		c.Universe = append(c.Universe, hex.EncodeToString(k))
	}
	for _, k := range invalid {
		c.Universe = append(c.Universe, hex.EncodeToString(k))
	}
	n := g.Range(50, 300)
	if g.Chance(3, 10) {
		n = g.Range(300, 2000)
	}
	addBias := []int{35, 50, 65}[g.Intn(3)]
	phase := g.Range(20, 200)
	for i := 0; i < n; i++ {
		if i%phase == phase-1 && g.Bool() { // alternate fill / drain phases
			addBias = 100 - addBias
		}
		var k []byte
		if len(invalid) > 0 && g.Chance(1, 8) {
			k = invalid[g.Intn(len(invalid))]
		} else {
			k = valid[g.Intn(len(valid))]
		}
		x := g.Intn(100)
		op := "add"
		switch {
		case x < 8:
			op = "exist"
		case x < 12:
			op = "len"
		case x < 12+(88*addBias)/100:
			op = "add"
		default:
			op = "remove"
		}
		o := c20Op{Op: op}
		if op != "len" {
			o.Key = hex.EncodeToString(k)
		}
		c.Ops = append(c.Ops, o)
	}
	return c
}

func c20(r *vkit.Run) {
	r.SetRule("random histories of 50-2000 add/remove/exist/len operations over a universe of 2..cap+4 valid keys (alphabet {00,01,'a','b',ff}, incl. the all-zero key) plus, in half of the histories, keys of invalid length (too long; too short when isFixKeyLen); capacity 1..16, elemSize 1..6, fixed and variable key length, hash in {murmur default, constant, two-valued, MaxUint64, len}; after every operation Exist() of every universe key and Len() are compared with a Go map + capacity. Add of an already-present key on a full set may be refused (statement silent). Non-trivial = history of >=50 ops with a remove of a present key followed later by a successful add of a new key (free-list reuse); distinct = (config, universe, op list)")
	r.Assume("reference = Go map[string]struct{}; 'invalid length' = len > elemSize, or len != elemSize when isFixKeyLen (doc of NewHashSet: 'fixed element size or not')")
	if r.Replay != "" {
		var c c20Case
		if err := r.LoadReplay(&c); err != nil {
			r.Inconclusive(err.Error())
			return
		}
		c20Check(r, &c, false)
		r.SetMinDistinct(0)
		return
	}
	n := r.N(3000, 100000)
	if !parallelUnlessStuck(r, n, func(i int) {
		g := r.Rng("history", i)
		c := c20Gen(g)
		if r.WantSample() && len(c.Ops) < 80 {
			r.Sample(map[string]interface{}{"cfg": c.Cfg, "universe": c.Universe, "ops": len(c.Ops), "first_ops": c.Ops[:8]})
		}
		c20Check(r, c, true)
	}) {
		sigFlushLater(r, "C20")
		return
	}
	sigFlushLater(r, "C20")
	// outcomes the workload is supposed to reach
	var missing []string
	for _, name := range []string{"add_new", "add_existing", "add_refused_full", "remove_present", "remove_absent",
		"invalid_len_add_rejected", "add_new_after_a_remove(free-list reuse)", "remove_from_bucket_chain_len>=2",
		"exist_true", "exist_false", "histories_hash_const", "histories_hash_two", "histories_hash_default",
		"histories_fixed_len", "histories_var_len"} {
		if r.Counter(name) == 0 {
			missing = append(missing, name)
		}
	}
	sort.Strings(missing)
	if len(missing) > 0 {
		r.Inconclusive("outcomes never observed: " + strings.Join(missing, ", "))
	}
}
