package main

import (
	"bytes"
	"fmt"
	"net"
	"sort"
	"strings"

	"github.com/bfenetworks/bfe/bfe_util/ipdict"

	"verifharness/vkit"
)

// C19: after loading any multiset of singles and ranges, Search(ip) is true
// iff ip equals a single or lies in a range (bounds included).
// Oracle: linear scan with 16-byte comparison, written from the statement.

type c19Dict struct {
	Ranges  [][2]string `json:"ranges"`
	Singles []string    `json:"singles"`
}

type c19Universe struct {
	name  string
	addrs []net.IP // sorted ascending
}

func ipAdd(base net.IP, off int) net.IP {
	ip := make(net.IP, len(base))
	copy(ip, base)
	for i := len(ip) - 1; i >= 0 && off != 0; i-- {
		v := int(ip[i]) + off
		ip[i] = byte(v & 0xff)
		off = v >> 8
	}
	return ip
}

func c19Universes() []c19Universe {
	mk := func(name string, base net.IP, n int) c19Universe {
		u := c19Universe{name: name}
		for i := 0; i < n; i++ {
			u.addrs = append(u.addrs, ipAdd(base, i))
		}
		return u
	}
	return []c19Universe{
		mk("v4-low", net.ParseIP("0.0.0.0").To4(), 12),
		mk("v4-mid", net.ParseIP("10.0.0.250").To4(), 12), // crosses a byte boundary
		mk("v4-high", net.ParseIP("255.255.255.244").To4(), 12),
		mk("v6-low", net.ParseIP("::"), 12),
		mk("v6-mid", net.ParseIP("2001:db8::fffa"), 12),
		mk("v6-high", net.ParseIP("ffff:ffff:ffff:ffff:ffff:ffff:ffff:fff4"), 12),
	}
}

func c19Ref(d *c19Dict, ip net.IP) bool {
	p := ip.To16()
	for _, s := range d.Singles {
		if bytes.Equal(net.ParseIP(s).To16(), p) {
			return true
		}
	}
	for _, rg := range d.Ranges {
		a, b := net.ParseIP(rg[0]).To16(), net.ParseIP(rg[1]).To16()
		if bytes.Compare(a, p) <= 0 && bytes.Compare(p, b) <= 0 {
			return true
		}
	}
	return false
}

// c19Ambiguous: an IPv4 probe that lies (in 16-byte order) inside an IPv6 range but in no
// IPv4 range or single: whether an IPv6 range "contains" IPv4 addresses is not stated, so
// such probes are not judged.
func c19Ambiguous(d *c19Dict, ip net.IP) bool {
	if ip.To4() == nil {
		return false
	}
	p := ip.To16()
	inV4, inV6 := false, false
	for _, s := range d.Singles {
		if bytes.Equal(net.ParseIP(s).To16(), p) {
			inV4 = true
		}
	}
	for _, rg := range d.Ranges {
		a, b := net.ParseIP(rg[0]), net.ParseIP(rg[1])
		if bytes.Compare(a.To16(), p) <= 0 && bytes.Compare(p, b.To16()) <= 0 {
			if a.To4() != nil {
				inV4 = true
			} else {
				inV6 = true
			}
		}
	}
	return inV6 && !inV4
}

// c19Build loads the dictionary the way bfe's own loaders do
// (insert everything, Sort, Update).
func c19Build(d *c19Dict) (*ipdict.IPTable, error) {
	items, err := ipdict.NewIPItems(len(d.Singles)+1, len(d.Ranges)+1)
	if err != nil {
		return nil, err
	}
	for _, s := range d.Singles {
		if err := items.InsertSingle(net.ParseIP(s)); err != nil {
			return nil, fmt.Errorf("InsertSingle(%s): %v", s, err)
		}
	}
	for _, rg := range d.Ranges {
		if err := items.InsertPair(net.ParseIP(rg[0]), net.ParseIP(rg[1])); err != nil {
			return nil, fmt.Errorf("InsertPair(%s,%s): %v", rg[0], rg[1], err)
		}
	}
	items.Sort()
	t := ipdict.NewIPTable()
	t.Update(items)
	return t, nil
}

// c19Shape classifies a dictionary for the failure signature.
func c19Shape(d *c19Dict, probe net.IP, want bool) string {
	var f []string
	zeroStart, zeroRange, v6 := false, false, false
	for _, rg := range d.Ranges {
		a, b := net.ParseIP(rg[0]), net.ParseIP(rg[1])
		if a.To4() == nil {
			v6 = true
		}
		if a.Equal(net.IPv6zero) || a.Equal(net.IPv4zero) {
			zeroStart = true
			if b.Equal(a) {
				zeroRange = true
			}
		}
	}
	if want {
		f = append(f, "false-negative")
	} else {
		f = append(f, "false-positive")
	}
	if zeroRange {
		f = append(f, "range-zero-zero")
	} else if zeroStart {
		f = append(f, "range-starts-at-zero")
	}
	if v6 {
		f = append(f, "v6")
	} else {
		f = append(f, "v4")
	}
	if len(d.Ranges) > 1 {
		f = append(f, "multi-range")
	}
	return strings.Join(f, ",")
}

func c19Check(r *vkit.Run, d *c19Dict, probes []net.IP) {
	var t *ipdict.IPTable
	var err error
	if r.Try(func() interface{} { return d }, func() { t, err = c19Build(d) }) {
		return
	}
	if err != nil {
		// every generated entry is valid (start<=end, same family): loader must accept
		r.Violation("load-rejected-valid", err.Error(), d)
		return
	}
	hits, miss := 0, 0
	for _, p := range probes {
		if c19Ambiguous(d, p) {
			r.Count("ambiguous_v4_probe_inside_v6_range_skipped", 1)
			continue
		}
		want := c19Ref(d, p)
		var got bool
		if r.Try(func() interface{} { return map[string]interface{}{"dict": d, "probe": p.String()} }, func() { got = t.Search(p) }) {
			return
		}
		if want {
			hits++
		} else {
			miss++
		}
		if got != want {
			r.Violation("membership:"+c19Shape(d, p, want),
				fmt.Sprintf("Search(%s)=%v, reference says %v", p, got, want),
				map[string]interface{}{"dict": d, "probe": p.String(), "want": want, "got": got})
			break
		}
	}
	key := fmt.Sprintf("%v|%v", d.Ranges, d.Singles)
	r.CaseS(key, hits > 0 && miss > 0 && len(d.Ranges) > 0)
	r.Count("probes", int64(len(probes)))
	if r.WantSample() && len(d.Ranges) >= 2 {
		r.Sample(map[string]interface{}{"dict": d, "probes": len(probes), "in": hits, "out": miss})
	}
}

func c19Probes(u c19Universe) []net.IP {
	ps := append([]net.IP{}, u.addrs...)
	// neighbours outside the universe
	ps = append(ps, ipAdd(u.addrs[len(u.addrs)-1], 1))
	if !u.addrs[0].Equal(net.IPv4zero) && !u.addrs[0].Equal(net.IPv6zero) {
		ps = append(ps, ipAdd(u.addrs[0], -1))
	}
	ps = append(ps, net.ParseIP("127.0.0.1"), net.ParseIP("::1"), net.ParseIP("::ffff:0:0"), net.ParseIP("8000::"))
	return ps
}

func c19(r *vkit.Run) {
	r.SetRule("dictionaries of 0-12 ranges + 0-6 singles drawn from 12-address universes (v4/v6, at 0, mid, all-ones) so overlap, nesting and adjacency are dense; probes = every universe address, +-1 neighbours and 4 far addresses; oracle = linear scan. Exhaustive part: every multiset of <=3 ranges (<=2 in quick for the 3-range class restricted) on an 8-address slice of each universe. Plus mixed-family dictionaries (IPv4 and IPv6 ranges together, IPv6 ranges from :: and across the IPv4-mapped block; IPv4 probes that fall only inside an IPv6 range are not judged). Non-trivial = >=1 range and probes on both sides of membership; distinct = (ranges, singles) list")
	if r.Replay != "" {
		var w struct {
			Dict  c19Dict `json:"dict"`
			Probe string  `json:"probe"`
		}
		if err := r.LoadReplay(&w); err != nil {
			r.Inconclusive(err.Error())
			return
		}
		c19Check(r, &w.Dict, []net.IP{net.ParseIP(w.Probe)})
		r.SetMinDistinct(0)
		return
	}
	us := c19Universes()
	// exhaustive: all multisets of <= K ranges over the first 8 addresses
	for _, u := range us {
		addrs := u.addrs[:8]
		var all [][2]string
		for i := range addrs {
			for j := i; j < len(addrs); j++ {
				all = append(all, [2]string{addrs[i].String(), addrs[j].String()})
			}
		}
		probes := c19Probes(c19Universe{addrs: u.addrs[:9]})
		n := len(all) // 36
		var dicts []c19Dict
		dicts = append(dicts, c19Dict{})
		for a := 0; a < n; a++ {
			dicts = append(dicts, c19Dict{Ranges: [][2]string{all[a]}})
			for b := a; b < n; b++ {
				dicts = append(dicts, c19Dict{Ranges: [][2]string{all[a], all[b]}})
				for c := b; c < n; c++ {
					dicts = append(dicts, c19Dict{Ranges: [][2]string{all[a], all[b], all[c]}})
				}
			}
		}
		r.Count("exhaustive_dicts", int64(len(dicts)))
		vkit.Parallel(len(dicts), 0, func(i int) {
			d := dicts[i]
			// insertion order matters to sort/merge: also try the reverse order
			c19Check(r, &d, probes)
			if len(d.Ranges) > 1 {
				rev := c19Dict{}
				for k := len(d.Ranges) - 1; k >= 0; k-- {
					rev.Ranges = append(rev.Ranges, d.Ranges[k])
				}
				c19Check(r, &rev, probes)
			}
		})
	}
	// random larger dictionaries
	n := r.N(6000, 240000)
	vkit.Parallel(n, 0, func(i int) {
		g := r.Rng("dict", i)
		u := us[g.Intn(len(us))]
		d := c19Dict{}
		nr, ns := g.Intn(13), g.Intn(7)
		for k := 0; k < nr; k++ {
			a, b := g.Intn(len(u.addrs)), g.Intn(len(u.addrs))
			if a > b {
				a, b = b, a
			}
			if g.Chance(1, 6) {
				b = a
			}
			d.Ranges = append(d.Ranges, [2]string{u.addrs[a].String(), u.addrs[b].String()})
		}
		if g.Chance(1, 5) && nr > 0 { // mix in a second universe of the same family
			for _, u2 := range us {
				if u2.name != u.name && (u2.addrs[0].To4() == nil) == (u.addrs[0].To4() == nil) && g.Bool() {
					a, b := g.Intn(12), g.Intn(12)
					if a > b {
						a, b = b, a
					}
					d.Ranges = append(d.Ranges, [2]string{u2.addrs[a].String(), u2.addrs[b].String()})
				}
			}
		}
		for k := 0; k < ns; k++ {
			d.Singles = append(d.Singles, u.addrs[g.Intn(len(u.addrs))].String())
		}
		sort.SliceStable(d.Singles, func(a, b int) bool { return false })
		c19Check(r, &d, c19Probes(u))
	})
	// mixed-family dictionaries: IPv4 and IPv6 ranges in one table (as real trust/block
	// tables have), including IPv6 ranges that start at :: or span the IPv4-mapped block
	v6span := []string{"::", "::1", "::fffe:ffff:ffff", "::1:0:0:0", "2001:db8::", "2001:db8::ffff", "fd00::", "ffff::"}
	v4pts := []string{"0.0.0.0", "0.0.0.1", "10.0.0.0", "10.0.0.255", "127.0.0.1", "192.168.1.1", "255.255.255.254", "255.255.255.255"}
	var mixProbes []net.IP
	for _, a := range append(append([]string{}, v6span...), v4pts...) {
		ip := net.ParseIP(a)
		mixProbes = append(mixProbes, ip, ipAdd(ip.To16(), 1))
		if !ip.Equal(net.IPv6zero) {
			mixProbes = append(mixProbes, ipAdd(ip.To16(), -1))
		}
	}
	mixProbes = append(mixProbes, net.ParseIP("2001:db8::1"), net.ParseIP("::2"), net.ParseIP("fe80::1"), net.ParseIP("10.0.0.7"))
	m := r.N(6000, 200000)
	vkit.Parallel(m, 0, func(i int) {
		g := r.Rng("mixed", i)
		d := c19Dict{}
		for k := g.Range(1, 5); k > 0; k-- {
			a, b := g.Intn(len(v6span)), g.Intn(len(v6span))
			x, y := net.ParseIP(v6span[a]), net.ParseIP(v6span[b])
			if bytes.Compare(x, y) > 0 {
				x, y = y, x
			}
			d.Ranges = append(d.Ranges, [2]string{x.String(), y.String()})
		}
		for k := g.Range(1, 4); k > 0; k-- {
			a, b := g.Intn(len(v4pts)), g.Intn(len(v4pts))
			x, y := net.ParseIP(v4pts[a]), net.ParseIP(v4pts[b])
			if bytes.Compare(x.To16(), y.To16()) > 0 {
				x, y = y, x
			}
			d.Ranges = append(d.Ranges, [2]string{x.String(), y.String()})
		}
		// shuffle insertion order
		for k := len(d.Ranges) - 1; k > 0; k-- {
			j := g.Intn(k + 1)
			d.Ranges[k], d.Ranges[j] = d.Ranges[j], d.Ranges[k]
		}
		if g.Bool() {
			d.Singles = append(d.Singles, g.PickS(v4pts), g.PickS(v6span))
		}
		c19Check(r, &d, mixProbes)
	})
	r.Count("mixed_family_dicts", int64(m))
	r.SetExhaustive(false)
}
