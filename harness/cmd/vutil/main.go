// vutil decides the utility-structure properties C19 (ip dictionaries),
// C20 (hash set), C21 (body pipe), C22 (buffered I/O).
package main

import (
	"fmt"
	"os"

	"verifharness/vkit"
)

func main() {
	r := vkit.Start("exploration")
	switch r.Prop {
	case "C19":
		c19(r)
	case "C20":
		c20(r)
	case "C21":
		c21(r)
	case "C22":
		c22(r)
	default:
		fmt.Fprintln(os.Stderr, "vutil: unknown property", r.Prop)
		os.Exit(vkit.ExitInconclusive)
	}
	r.Finish()
}
