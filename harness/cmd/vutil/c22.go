package main

import (
	"bufio"
	"bytes"
	"encoding/hex"
	"encoding/json"
	"errors"
	"fmt"
	"io"
	"strings"
	"unicode/utf8"

	"github.com/bfenetworks/bfe/bfe_bufio"

	"verifharness/vkit"
)

// C22: the buffered reader and writer deliver exactly the underlying byte
// stream, in order, for any mix of operations and chunk sizes; their running
// counters TotalRead / TotalWrite equal the number of bytes consumed /
// produced so far.
//
// Reader oracle (written from the statement and the method docs):
//   pos = number of bytes the caller has consumed (returned minus unread).
//   Every consuming operation must return exactly data[pos:pos+k] and moves
//   pos by k; Peek returns data[pos:pos+m] and does not move pos; a nil
//   UnreadByte moves pos back by one, a nil UnreadRune (only legal when the
//   last consuming operation was ReadRune) by that rune's size; ReadLine
//   additionally consumes the "\n" / "\r\n" it dropped. After EVERY operation
//   TotalRead - pos must keep its value (0 unless a counter defect was already
//   reported: then the drift is re-based so that later defects are still seen).
// Writer oracle: acc = concatenation of the bytes the Write*/ReadFrom calls
//   reported as accepted; TotalWrite == len(acc) after every operation; what
//   the sink received is always a prefix of acc and equals acc after a nil
//   Flush on an error-free writer.
// Standard bufio runs the same reader script in lock-step only to COUNT
// operations whose delivered data differ (no verdict from it).

// ---------------------------------------------------------------- scripted source / sink

type c22Ev struct {
	N   int `json:"n"`             // at most N bytes on this call (0 = none)
	Err int `json:"err,omitempty"` // 0 none, 1|2 transient error returned by this call
}

var c22SrcErrs = []error{nil, errors.New("c22 transient source error 1"), errors.New("c22 transient source error 2")}
var c22SinkErr = errors.New("c22 sink error")

type c22Src struct {
	data    []byte
	off     int
	evs     []c22Ev
	i       int
	rest    int  // chunk size once evs are used up
	eofData bool // deliver io.EOF together with the last bytes
	calls   int  // Read calls that delivered >=1 byte
	errOffs []int
}

func (s *c22Src) Read(p []byte) (int, error) {
	if len(p) == 0 {
		return 0, nil
	}
	ev := c22Ev{N: s.rest}
	if s.i < len(s.evs) {
		ev = s.evs[s.i]
		s.i++
	}
	if s.off >= len(s.data) && ev.Err == 0 {
		if ev.N == 0 {
			return 0, nil
		}
		s.errOffs = append(s.errOffs, s.off)
		return 0, io.EOF
	}
	n := ev.N
	if n > len(p) {
		n = len(p)
	}
	if n > len(s.data)-s.off {
		n = len(s.data) - s.off
	}
	copy(p, s.data[s.off:s.off+n])
	s.off += n
	if n > 0 {
		s.calls++
	}
	if ev.Err != 0 {
		s.errOffs = append(s.errOffs, s.off)
		return n, c22SrcErrs[ev.Err]
	}
	if s.eofData && n > 0 && s.off == len(s.data) {
		s.errOffs = append(s.errOffs, s.off)
		return n, io.EOF
	}
	return n, nil
}

// c22SrcWT additionally implements io.WriterTo (Reader.WriteTo delegates to it).
type c22SrcWT struct{ *c22Src }

func (s c22SrcWT) WriteTo(w io.Writer) (int64, error) {
	var total int64
	for s.off < len(s.data) {
		n := s.rest
		if n > len(s.data)-s.off {
			n = len(s.data) - s.off
		}
		m, err := w.Write(s.data[s.off : s.off+n])
		s.off += m
		total += int64(m)
		if err != nil {
			return total, err
		}
	}
	return total, nil
}

// c22Sink is a scripted io.Writer. Each Write call takes one event:
// N<0 accept everything; N>=0 accept min(N,len) bytes and fail.
type c22Sink struct {
	got  []byte
	evs  []int
	i    int
	errs int
}

func (k *c22Sink) Write(p []byte) (int, error) {
	ev := -1
	if k.i < len(k.evs) {
		ev = k.evs[k.i]
		k.i++
	}
	if ev < 0 || len(p) == 0 {
		k.got = append(k.got, p...)
		return len(p), nil
	}
	n := ev
	if n >= len(p) {
		n = len(p) - 1
	}
	k.got = append(k.got, p[:n]...)
	k.errs++
	return n, c22SinkErr
}

// c22SinkRF additionally implements io.ReaderFrom (Writer.ReadFrom delegates to it).
type c22SinkRF struct{ *c22Sink }

func (k c22SinkRF) ReadFrom(r io.Reader) (int64, error) {
	var total int64
	buf := make([]byte, 7)
	for {
		n, err := r.Read(buf)
		k.got = append(k.got, buf[:n]...)
		total += int64(n)
		if err == io.EOF {
			return total, nil
		}
		if err != nil {
			return total, err
		}
		if n == 0 {
			return total, nil
		}
	}
}

// ---------------------------------------------------------------- script

type c22Op struct {
	Op    string `json:"op"`
	N     int    `json:"n,omitempty"`     // read buffer len / peek count / rune
	Delim string `json:"delim,omitempty"` // one byte, hex
	Data  string `json:"data,omitempty"`  // hex: write payload / readfrom source data
	Sink  []int  `json:"sink,omitempty"`  // sink events of a writeto
	Src   *struct {
		Evs  []c22Ev `json:"evs"`
		Rest int     `json:"rest"`
	} `json:"src,omitempty"` // source of a readfrom
}

type c22Script struct {
	Kind    string  `json:"kind"` // reader | writer
	Buf     int     `json:"buf"`
	Data    string  `json:"data,omitempty"` // hex source bytes (reader)
	Evs     []c22Ev `json:"evs,omitempty"`
	Rest    int     `json:"rest,omitempty"`
	EOFData bool    `json:"eof_with_data,omitempty"`
	SrcWT   bool    `json:"src_writer_to,omitempty"`
	Sink    []int   `json:"sink,omitempty"` // writer: sink events
	SinkRF  bool    `json:"sink_reader_from,omitempty"`
	Ops     []c22Op `json:"ops"`
}

type c22Viol struct {
	Sig, What string
	At        int
}

type c22Stats struct {
	ops, consumedKinds, refillOps, srcCalls, stdSame, stdDiff, stdDesync int64
	peeks, unreadsOK, unreadsErr, consumed                               int64
	flushes, sinkErrs, accepted, rfDelegated, wtDelegated                int64
	stdDiffOp                                                            string
	untracked                                                            bool
}

func c22Family(op string) string {
	switch op {
	case "readslice", "readline", "readbytes", "readstring":
		return "readslice-family"
	}
	return op
}

func c22Delim(op *c22Op) byte {
	b, _ := hex.DecodeString(op.Delim)
	if len(b) == 0 {
		return '\n'
	}
	return b[0]
}

// ---------------------------------------------------------------- reader script

func c22RunReader(sc *c22Script, st *c22Stats) (viols []c22Viol) {
	data, _ := hex.DecodeString(sc.Data)
	mkSrc := func() (io.Reader, *c22Src) {
		s := &c22Src{data: data, evs: sc.Evs, rest: max(1, sc.Rest), eofData: sc.EOFData}
		if sc.SrcWT {
			return c22SrcWT{s}, s
		}
		return s, s
	}
	rd, src := mkSrc()
	defer func() { st.srcCalls += int64(src.calls) }()
	b := bfe_bufio.NewReaderSize(rd, sc.Buf)
	srd, _ := mkSrc()
	sb := bufio.NewReaderSize(srd, sc.Buf)
	stdPos, stdOK := 0, true

	seen := map[string]bool{}
	report := func(sig, what string, at int) {
		if !seen[sig] {
			seen[sig] = true
			viols = append(viols, c22Viol{sig, what, at})
		}
	}
	pos, drift := 0, 0
	lastKind := ""      // kind of the last operation that consumed >= 1 byte or unread
	runeSize := -1      // size of the last ReadRune if it is still the last consuming operation
	pendingUnread := "" // "<family of the op before>" while a nil UnreadByte has not been read back yet
	pendingCount := 0   // how many bytes were put back by consecutive nil UnreadBytes and not yet verified
	staleSeen := false  // a stale-byte defect was reported earlier in this script
	kinds := map[string]bool{}
	untracked := false // after an accepted misuse the stream position is undefined: only panics are watched

	for i := range sc.Ops {
		op := &sc.Ops[i]
		st.ops++
		if untracked {
			panicked := false
			func() {
				defer func() {
					if e := recover(); e != nil {
						panicked = true
						report("unread:unreadrune-accepted-then-panic", fmt.Sprintf("after the wrongly accepted UnreadRune, %s panicked: %v", op.Op, e), i)
					}
				}()
				c22Blind(b, op)
			}()
			if panicked {
				return
			}
			continue
		}
		callsBefore := src.calls
		src.errOffs = src.errOffs[:0]
		var got []byte // bytes this op consumed, as told by its results
		consumedExtra := 0
		linePrefix := false
		unverified := false
		ok := true // data checks passed
		mismatch := func(what string) {
			ok = false
			sig := "stream:" + op.Op + "-returned-wrong-bytes"
			if pendingUnread != "" {
				sig = "stream:unreadbyte-after-" + pendingUnread + "-restores-stale-byte"
			} else if staleSeen {
				// the position bookkeeping after a stale byte was swallowed (e.g. as part of an
				// end-of-line) is best effort: keep this apart from a first-hand stream violation
				sig = "stream:wrong-bytes-later-in-a-script-that-hit-the-stale-unreadbyte-defect"
			}
			report(sig, fmt.Sprintf("op %d %s: %s (stream position %d)", i, op.Op, what, pos), i)
			if pendingUnread != "" {
				staleSeen = true
			}
		}
		expect := func(gotb []byte) bool {
			if pos+len(gotb) > len(data) || !bytes.Equal(gotb, data[pos:pos+len(gotb)]) {
				k := min(pendingCount, len(gotb))
				if pendingUnread != "" && k > 0 && pos+len(gotb) <= len(data) && bytes.Equal(gotb[k:], data[pos+k:pos+len(gotb)]) {
					// only bytes that UnreadByte put back are wrong; the stream continues correctly
					// behind them: report and go on, so that the rest of the script is still checked
					report("stream:unreadbyte-after-"+pendingUnread+"-restores-stale-byte",
						fmt.Sprintf("op %d %s: returned %q, the source has %q there (stream position %d): the byte put back by UnreadByte is not the last byte consumed", i, op.Op, c22Trunc(gotb), c22Trunc(data[pos:pos+len(gotb)]), pos), i)
					// from now on the reader believes these bytes are part of the stream (a later
					// UnreadByte restores them again): adopt its view in a private copy
					data = append([]byte{}, data...)
					copy(data[pos:], gotb[:k])
					staleSeen = true
					return true
				}
				end := min(len(data), pos+len(gotb))
				mismatch(fmt.Sprintf("returned %q, the source has %q there", c22Trunc(gotb), c22Trunc(data[min(pos, len(data)):end])))
				return false
			}
			return true
		}
		stdData, stdHave := []byte(nil), false
		switch op.Op {
		case "read":
			p := make([]byte, op.N)
			n, _ := b.Read(p)
			if n < 0 || n > len(p) {
				report("read:impossible-count", fmt.Sprintf("Read(len %d) = %d", len(p), n), i)
				return
			}
			got = p[:n]
			if stdOK {
				q := make([]byte, op.N)
				m, _ := sb.Read(q)
				stdData, stdHave = q[:m], true
			}
		case "readbyte":
			c, err := b.ReadByte()
			if err == nil {
				got = []byte{c}
			}
			if stdOK {
				if c2, err2 := sb.ReadByte(); err2 == nil {
					stdData = []byte{c2}
				}
				stdHave = true
			}
		case "readrune":
			ru, size, err := b.ReadRune()
			if err == nil {
				if size < 1 || pos+size > len(data) {
					mismatch(fmt.Sprintf("ReadRune size %d at position %d of %d", size, pos, len(data)))
					break
				}
				got = data[pos : pos+size]
				if size == 1 && ru == utf8.RuneError {
					unverified = true           // which invalid byte was consumed cannot be told from the result
					if got[0] < utf8.RuneSelf { // an ASCII byte never decodes to RuneError
						mismatch(fmt.Sprintf("ReadRune=(RuneError,1), the source has the ASCII byte %q there", got))
					}
				} else {
					if r2, s2 := utf8.DecodeRune(got); r2 != ru || s2 != size {
						mismatch(fmt.Sprintf("ReadRune=(%q,%d), the source bytes %q decode to (%q,%d)", ru, size, got, r2, s2))
					}
				}
			}
			if stdOK {
				if _, s2, err2 := sb.ReadRune(); err2 == nil {
					stdData = data[min(stdPos, len(data)):min(stdPos+s2, len(data))]
				}
				stdHave = true
			}
		case "readslice", "readbytes", "readstring":
			d := c22Delim(op)
			var line []byte
			var err error
			switch op.Op {
			case "readslice":
				line, err = b.ReadSlice(d)
			case "readbytes":
				line, err = b.ReadBytes(d)
			default:
				var s string
				s, err = b.ReadString(d)
				line = []byte(s)
			}
			got = append([]byte{}, line...)
			if err == nil && ok {
				if j := bytes.IndexByte(line, d); j != len(line)-1 {
					report("framing:"+op.Op+"-nil-error-but-line-does-not-end-at-first-delimiter", fmt.Sprintf("op %d %s(%q) = %q, nil", i, op.Op, d, c22Trunc(line)), i)
				}
			}
			if stdOK {
				var l2 []byte
				switch op.Op {
				case "readslice":
					l2, _ = sb.ReadSlice(d)
				case "readbytes":
					l2, _ = sb.ReadBytes(d)
				default:
					s, _ := sb.ReadString(d)
					l2 = []byte(s)
				}
				stdData, stdHave = append([]byte{}, l2...), true
			}
		case "readline":
			line, isPrefix, err := b.ReadLine()
			got = append([]byte{}, line...)
			linePrefix = isPrefix
			if err == nil && !isPrefix && expect(got) {
				// the end-of-line bytes were consumed too. Everything the source has delivered is
				// either consumed or in the buffer, and ReadLine scans the whole buffer first.
				end := pos + len(line)
				avail := src.off - end
				switch {
				case avail >= 2 && data[end] == '\r' && data[end+1] == '\n':
					consumedExtra = 2
				case avail >= 1 && data[end] == '\n':
					consumedExtra = 1
				case avail == 0: // input ended (error / EOF) right after the line
				case pendingUnread != "":
					mismatch(fmt.Sprintf("ReadLine=%q,false,nil consumed an end-of-line that is not in the source at this position", c22Trunc(line)))
				default:
					report("framing:readline-ended-without-eol-or-input-end", fmt.Sprintf("op %d ReadLine=%q,false,nil but the source had already delivered %q after it", i, c22Trunc(line), c22Trunc(data[end:min(end+4, src.off)])), i)
					ok = false
				}
			}
			if pendingUnread != "" && ok && err == nil && !isPrefix {
				// a put-back stale byte may have been swallowed as part of the end-of-line:
				// the results cannot tell; re-base on what the reader still holds
				if truePos := src.off - b.Buffered(); truePos != pos+len(line)+consumedExtra && truePos >= pos+len(line) && truePos <= pos+len(line)+2 {
					report("stream:unreadbyte-after-"+pendingUnread+"-restores-stale-byte",
						fmt.Sprintf("op %d ReadLine=%q consumed %d bytes, the source has an end-of-line of %d bytes there (stream position %d): a byte put back by UnreadByte is not the last byte consumed", i, c22Trunc(line), truePos-pos, consumedExtra, pos), i)
					consumedExtra = truePos - pos - len(line)
					staleSeen = true
					pendingCount = 0
				}
			}
			if stdOK {
				l2, _, _ := sb.ReadLine()
				stdData, stdHave = append([]byte{}, l2...), true
			}
		case "peek":
			p, err := b.Peek(op.N)
			st.peeks++
			if len(p) > max(op.N, 0) || (err == nil && len(p) != op.N) {
				report("peek:wrong-length", fmt.Sprintf("op %d Peek(%d) returned %d bytes, err %v", i, op.N, len(p), err), i)
			}
			if expect(p) && len(p) >= pendingCount {
				pendingUnread, pendingCount = "", 0
			}
			if stdOK {
				sb.Peek(op.N)
			}
		case "buffered":
			b.Buffered()
		case "writeto":
			sink := &c22Sink{evs: op.Sink}
			n, _ := b.WriteTo(sink)
			got = sink.got
			if n != int64(len(sink.got)) {
				report("writeto:count-differs-from-bytes-written", fmt.Sprintf("op %d WriteTo returned %d, the writer received %d bytes", i, n, len(sink.got)), i)
			}
			if sc.SrcWT {
				st.wtDelegated++
			}
			if stdOK {
				k2 := &c22Sink{evs: op.Sink}
				sb.WriteTo(k2)
				stdData, stdHave = k2.got, true
			}
		case "unreadbyte":
			err := b.UnreadByte()
			if err == nil {
				st.unreadsOK++
				if pos == 0 {
					report("unread:unreadbyte-accepted-with-nothing-consumed", fmt.Sprintf("op %d UnreadByte()=nil at stream position 0", i), i)
					return
				}
				pos--
				if pendingUnread == "" {
					pendingUnread = c22Family(lastKind)
				}
				pendingCount++
				lastKind, runeSize = "unreadbyte", -1
			} else {
				st.unreadsErr++
			}
			if stdOK {
				err2 := sb.UnreadByte()
				if (err2 == nil) != (err == nil) {
					stdOK = false
					st.stdDesync++
				} else if err2 == nil {
					stdPos--
				}
			}
		case "unreadrune":
			err := b.UnreadRune()
			if err == nil {
				st.unreadsOK++
				if runeSize < 0 {
					report("unread:unreadrune-accepted-after-"+c22Family(lastKind), fmt.Sprintf("op %d UnreadRune()=nil although the last consuming operation was %q, not ReadRune (doc: returns an error then)", i, lastKind), i)
					untracked = true
					st.untracked = true
					continue
				}
				pos -= runeSize
				lastKind, runeSize = "unreadrune", -1
			} else {
				st.unreadsErr++
			}
			if stdOK {
				err2 := sb.UnreadRune()
				if (err2 == nil) != (err == nil) {
					stdOK = false
					st.stdDesync++
				} else if err2 == nil {
					stdPos = pos
				}
			}
		}
		if !ok || !expect(got) {
			return
		}
		if len(got) > 0 || consumedExtra > 0 {
			pos += len(got) + consumedExtra
			if !unverified { // bytes dropped by ReadLine verify nothing
				pendingCount -= len(got)
			}
			if pendingCount <= 0 {
				pendingUnread, pendingCount = "", 0
			}
			lastKind = op.Op
			runeSize = -1
			if op.Op == "readrune" {
				runeSize = len(got)
			}
			if !kinds[op.Op] {
				kinds[op.Op] = true
				st.consumedKinds++
			}
			st.consumed += int64(len(got) + consumedExtra)
		}
		refilled := src.calls > callsBefore
		if refilled {
			st.refillOps++
		}
		// counter: TotalRead - pos must not move
		if d := b.TotalRead - pos; d != drift {
			delta := d - drift
			fam := c22Family(op.Op)
			what := fmt.Sprintf("op %d %s: consumed so far %d bytes, TotalRead=%d (counter moved %+d relative to the bytes consumed by this operation)", i, op.Op, pos, b.TotalRead, delta)
			crRewind := op.Op == "readline" && linePrefix && len(got) == sc.bufLen()-1 && pos < len(data) && data[pos] == '\r'
			switch {
			case crRewind && delta == 1:
				report("counter:readline-cr-rewind-overcount", what, i)
			case crRewind && delta < 1:
				report("counter:readline-cr-rewind-overcount", what, i)
				report("counter:readslice-after-refill-undercount", what, i)
			case fam == "readslice-family" && delta < 0 && refilled:
				report("counter:readslice-after-refill-undercount", what, i)
			case (op.Op == "unreadbyte" || op.Op == "unreadrune") && delta > 0 && drift < 0:
				report("counter:unread-not-subtracted-after-earlier-undercount", what, i)
			case delta < 0:
				report("counter:"+fam+"-undercount", what, i)
			default:
				report("counter:"+fam+"-overcount", what, i)
			}
			drift = d
		}
		// secondary: standard bufio on the same script
		if stdOK && stdHave {
			if bytes.Equal(got, stdData) { // for ReadLine: the line without its end-of-line bytes
				st.stdSame++
				stdPos = pos
			} else {
				st.stdDiff++
				if st.stdDiffOp == "" {
					st.stdDiffOp = op.Op
				}
				stdOK = false
			}
		}
	}
	return viols
}

func (sc *c22Script) bufLen() int {
	if sc.Buf < 16 {
		return 16
	}
	return sc.Buf
}

// c22Blind executes an op without any oracle (panic watch only).
func c22Blind(b *bfe_bufio.Reader, op *c22Op) {
	switch op.Op {
	case "read":
		b.Read(make([]byte, op.N))
	case "readbyte":
		b.ReadByte()
	case "readrune":
		b.ReadRune()
	case "readslice":
		b.ReadSlice(c22Delim(op))
	case "readbytes":
		b.ReadBytes(c22Delim(op))
	case "readstring":
		b.ReadString(c22Delim(op))
	case "readline":
		b.ReadLine()
	case "peek":
		b.Peek(op.N)
	case "writeto":
		b.WriteTo(&c22Sink{evs: op.Sink})
	case "unreadbyte":
		b.UnreadByte()
	case "unreadrune":
		b.UnreadRune()
	}
}

func c22Trunc(b []byte) []byte {
	if len(b) > 48 {
		return append(append([]byte{}, b[:44]...), "..."...)
	}
	return b
}

// ---------------------------------------------------------------- writer script

func c22RunWriter(sc *c22Script, st *c22Stats) (viols []c22Viol) {
	sink := &c22Sink{evs: sc.Sink}
	var w io.Writer = sink
	if sc.SinkRF {
		w = c22SinkRF{sink}
	}
	b := bfe_bufio.NewWriterSize(w, sc.Buf)
	seen := map[string]bool{}
	report := func(sig, what string, at int) {
		if !seen[sig] {
			seen[sig] = true
			viols = append(viols, c22Viol{sig, what, at})
		}
	}
	var acc []byte
	drift := 0
	kinds := map[string]bool{}
	for i := range sc.Ops {
		op := &sc.Ops[i]
		st.ops++
		payload, _ := hex.DecodeString(op.Data)
		n := 0
		switch op.Op {
		case "write":
			nn, err := b.Write(payload)
			if nn < 0 || nn > len(payload) {
				report("write:impossible-count", fmt.Sprintf("op %d Write(len %d)=%d", i, len(payload), nn), i)
				return
			}
			if nn < len(payload) && err == nil {
				report("write:short-without-error", fmt.Sprintf("op %d Write(len %d)=(%d,nil)", i, len(payload), nn), i)
			}
			acc = append(acc, payload[:nn]...)
			n = nn
		case "writestring":
			nn, err := b.WriteString(string(payload))
			if nn < 0 || nn > len(payload) {
				report("write:impossible-count", fmt.Sprintf("op %d WriteString(len %d)=%d", i, len(payload), nn), i)
				return
			}
			if nn < len(payload) && err == nil {
				report("write:short-without-error", fmt.Sprintf("op %d WriteString(len %d)=(%d,nil)", i, len(payload), nn), i)
			}
			acc = append(acc, payload[:nn]...)
			n = nn
		case "writebyte":
			if err := b.WriteByte(byte(op.N)); err == nil {
				acc = append(acc, byte(op.N))
				n = 1
			}
		case "writerune":
			enc := []byte(string(rune(op.N)))
			size, _ := b.WriteRune(rune(op.N))
			if size < 0 || size > len(enc) {
				report("write:impossible-count", fmt.Sprintf("op %d WriteRune(%q)=%d", i, rune(op.N), size), i)
				return
			}
			acc = append(acc, enc[:size]...)
			n = size
		case "readfrom":
			src := &c22Src{data: payload, evs: op.Src.Evs, rest: max(1, op.Src.Rest)}
			nn, _ := b.ReadFrom(src)
			if nn != int64(src.off) {
				report("readfrom:count-differs-from-bytes-taken", fmt.Sprintf("op %d ReadFrom returned %d, %d bytes were taken from the reader", i, nn, src.off), i)
				return
			}
			acc = append(acc, payload[:src.off]...)
			n = int(nn)
			if sc.SinkRF {
				st.rfDelegated++
			}
		case "flush":
			err := b.Flush()
			st.flushes++
			if err == nil && sink.errs == 0 && !bytes.Equal(sink.got, acc) {
				report("stream:flush-nil-but-sink-differs", fmt.Sprintf("op %d Flush()=nil, sink has %d bytes, %d were accepted", i, len(sink.got), len(acc)), i)
				return
			}
		case "available":
			b.Available()
			b.Buffered()
		}
		if n > 0 && !kinds[op.Op] {
			kinds[op.Op] = true
			st.consumedKinds++
		}
		st.accepted += int64(n)
		if !bytes.HasPrefix(acc, sink.got) {
			j := 0
			for j < len(acc) && j < len(sink.got) && acc[j] == sink.got[j] {
				j++
			}
			report("stream:sink-is-not-a-prefix-of-accepted-bytes", fmt.Sprintf("op %d %s: sink differs from the accepted bytes at offset %d (sink %d bytes, accepted %d)", i, op.Op, j, len(sink.got), len(acc)), i)
			return
		}
		if d := b.TotalWrite - len(acc); d != drift {
			delta := d - drift
			what := fmt.Sprintf("op %d %s: accepted so far %d bytes, TotalWrite=%d (counter moved %+d relative to the bytes accepted by this operation)", i, op.Op, len(acc), b.TotalWrite, delta)
			switch {
			case op.Op == "readfrom" && delta < 0 && sink.errs > 0: // flush failed now, or fails with the sticky error
				report("counter:readfrom-flush-error-undercount", what, i)
			case delta < 0:
				report("counter:"+op.Op+"-undercount", what, i)
			default:
				report("counter:"+op.Op+"-overcount", what, i)
			}
			drift = d
		}
	}
	st.sinkErrs += int64(sink.errs)
	return viols
}

// ---------------------------------------------------------------- generator

func c22GenData(g *vkit.Rand, n, buf int) []byte {
	out := make([]byte, 0, n+8)
	alpha := []byte("abcdefghijklmnopqrstuvwxyz0123456789 :;")
	for len(out) < n {
		switch x := g.Intn(100); {
		case x < 6:
			out = append(out, '\n')
		case x < 10:
			out = append(out, '\r', '\n')
		case x < 12:
			out = append(out, '\r')
		case x < 16:
			out = append(out, []byte(string(rune([]int{0xe9, 0x4e16, 0x1f600, 0xfffd}[g.Intn(4)])))...)
		case x < 18:
			out = append(out, byte(0x80+g.Intn(0x80))) // invalid UTF-8
		case x < 24: // a long run without any delimiter (longer than small buffers)
			l := g.Range(1, buf+buf/2)
			for j := 0; j < l; j++ {
				out = append(out, alpha[(len(out)*7+j)%len(alpha)])
			}
			if g.Bool() {
				out = append(out, '\r', '\n')
			}
		default:
			out = append(out, alpha[g.Intn(len(alpha))])
		}
	}
	return out[:n]
}

func c22GenEvs(g *vkit.Rand, buf int) ([]c22Ev, int) {
	style := g.Intn(5)
	n := g.Range(0, 40)
	evs := make([]c22Ev, 0, n)
	empties := 0
	for i := 0; i < n; i++ {
		var ev c22Ev
		switch style {
		case 0:
			ev.N = 1
		case 1:
			ev.N = g.Range(1, 4)
		case 2:
			ev.N = g.Range(1, buf)
		case 3:
			ev.N = g.Range(buf/2, 2*buf+1)
		default:
			ev.N = []int{1, 2, 3, buf - 1, buf, buf + 1, 2 * buf}[g.Intn(7)]
		}
		x := g.Intn(100)
		switch {
		case x < 7 && empties < 2:
			ev = c22Ev{} // (0, nil)
			empties++
		case x < 11:
			ev = c22Ev{N: 0, Err: 1 + g.Intn(2)} // (0, err)
			empties = 0
		case x < 15:
			ev.Err = 1 + g.Intn(2) // (n, err)
			empties = 0
		default:
			empties = 0
		}
		evs = append(evs, ev)
	}
	rest := []int{1, 2, 3, 5, buf / 2, buf, buf + 1, 3 * buf}[g.Intn(8)]
	return evs, max(1, rest)
}

func c22GenSink(g *vkit.Rand) []int {
	if g.Chance(3, 5) {
		return nil // accepts everything
	}
	n := g.Range(1, 6)
	evs := make([]int, n)
	for i := range evs {
		evs[i] = -1
		if g.Chance(1, 3) {
			evs[i] = g.Intn(6) // short write + error
		}
	}
	return evs
}

func c22GenBuf(g *vkit.Rand) int {
	switch x := g.Intn(100); {
	case x < 45:
		return 16
	case x < 60:
		return g.Range(17, 32)
	case x < 80:
		return g.Range(33, 128)
	case x < 96:
		return g.Range(129, 1024)
	}
	return 4096
}

func c22GenReader(g *vkit.Rand) *c22Script {
	sc := &c22Script{Kind: "reader"}
	sc.Buf = c22GenBuf(g)
	n := g.Range(0, 3*sc.Buf+40)
	if g.Chance(1, 12) {
		n = g.Range(0, 8)
	}
	sc.Data = hex.EncodeToString(c22GenData(g, n, sc.Buf))
	sc.Evs, sc.Rest = c22GenEvs(g, sc.Buf)
	sc.EOFData = g.Chance(1, 4)
	sc.SrcWT = g.Chance(1, 6)
	strict := g.Chance(7, 10) // Unread* only directly after the matching read operation
	nops := g.Range(5, 60)
	if g.Chance(1, 5) {
		nops = g.Range(60, 200)
	}
	delims := []string{"0a", "0a", "0a", "0d", "3a", "00"}
	prev := ""
	for i := 0; i < nops; i++ {
		var op c22Op
		x := g.Intn(100)
		switch {
		case x < 16:
			op = c22Op{Op: "read", N: []int{0, 1, 2, 3, sc.Buf - 1, sc.Buf, sc.Buf + 1, 2 * sc.Buf, g.Range(1, sc.Buf)}[g.Intn(9)]}
		case x < 28:
			op = c22Op{Op: "readbyte"}
		case x < 36:
			op = c22Op{Op: "readrune"}
		case x < 48:
			op = c22Op{Op: "readslice", Delim: delims[g.Intn(len(delims))]}
		case x < 62:
			op = c22Op{Op: "readline"}
		case x < 68:
			op = c22Op{Op: "readbytes", Delim: delims[g.Intn(len(delims))]}
		case x < 72:
			op = c22Op{Op: "readstring", Delim: delims[g.Intn(len(delims))]}
		case x < 84:
			op = c22Op{Op: "peek", N: []int{-1, 0, 1, 2, 4, sc.Buf - 1, sc.Buf, sc.Buf + 1, g.Range(1, sc.Buf)}[g.Intn(9)]}
		case x < 86:
			op = c22Op{Op: "buffered"}
		case x < 89:
			op = c22Op{Op: "writeto", Sink: c22GenSink(g)}
		case x < 95:
			op = c22Op{Op: "unreadbyte"}
			if strict && prev != "read" && prev != "readbyte" && prev != "readrune" {
				op = c22Op{Op: "readbyte"}
			}
		default:
			op = c22Op{Op: "unreadrune"}
			if strict && prev != "readrune" {
				op = c22Op{Op: "readrune"}
			}
		}
		prev = op.Op
		sc.Ops = append(sc.Ops, op)
	}
	return sc
}

func c22GenWriter(g *vkit.Rand) *c22Script {
	sc := &c22Script{Kind: "writer"}
	switch x := g.Intn(100); {
	case x < 20:
		sc.Buf = g.Range(1, 8)
	case x < 60:
		sc.Buf = g.Range(9, 32)
	case x < 95:
		sc.Buf = g.Range(33, 512)
	default:
		sc.Buf = 4096
	}
	if g.Chance(1, 3) {
		n := g.Range(1, 8)
		for i := 0; i < n; i++ {
			ev := -1
			if g.Chance(1, 4) {
				ev = g.Intn(sc.Buf + 2)
			}
			sc.Sink = append(sc.Sink, ev)
		}
	}
	sc.SinkRF = g.Chance(1, 6)
	nops := g.Range(5, 60)
	if g.Chance(1, 5) {
		nops = g.Range(60, 200)
	}
	pl := func() string {
		l := []int{0, 1, 2, sc.Buf - 1, sc.Buf, sc.Buf + 1, 2*sc.Buf + 1, g.Range(0, sc.Buf), g.Range(0, 3*sc.Buf)}[g.Intn(9)]
		return hex.EncodeToString(g.Bytes(max(0, l)))
	}
	for i := 0; i < nops; i++ {
		var op c22Op
		switch x := g.Intn(100); {
		case x < 30:
			op = c22Op{Op: "write", Data: pl()}
		case x < 45:
			op = c22Op{Op: "writestring", Data: pl()}
		case x < 57:
			op = c22Op{Op: "writebyte", N: g.Intn(256)}
		case x < 69:
			op = c22Op{Op: "writerune", N: []int{'a', 0x7f, 0x80, 0xe9, 0x7ff, 0x800, 0x4e16, 0xffff, 0x10000, 0x1f600, 0x10ffff}[g.Intn(11)]}
		case x < 81:
			op = c22Op{Op: "readfrom", Data: pl()}
			evs, rest := c22GenEvs(g, sc.Buf)
			// ReadFrom sources end with io.EOF; transient errors are kept
			op.Src = &struct {
				Evs  []c22Ev `json:"evs"`
				Rest int     `json:"rest"`
			}{evs, rest}
		case x < 95:
			op = c22Op{Op: "flush"}
		default:
			op = c22Op{Op: "available"}
		}
		sc.Ops = append(sc.Ops, op)
	}
	return sc
}

// ---------------------------------------------------------------- driver

func c22Run(sc *c22Script, st *c22Stats) []c22Viol {
	if sc.Kind == "writer" {
		return c22RunWriter(sc, st)
	}
	return c22RunReader(sc, st)
}

func c22Shrink(sc *c22Script, sig string) *c22Script {
	has := func(x *c22Script) (fired bool) {
		defer func() {
			if recover() != nil {
				fired = false
			}
		}()
		var st c22Stats
		for _, v := range c22Run(x, &st) {
			if v.Sig == sig {
				return true
			}
		}
		return false
	}
	cur := *sc
	cur.Ops = append([]c22Op{}, sc.Ops...)
	for chunk := max(1, len(cur.Ops)/2); chunk >= 1; chunk /= 2 {
		for i := 0; i+chunk <= len(cur.Ops); {
			t := cur
			t.Ops = append(append([]c22Op{}, cur.Ops[:i]...), cur.Ops[i+chunk:]...)
			if has(&t) {
				cur = t
			} else {
				i += chunk
			}
		}
		if chunk == 1 {
			break
		}
	}
	// simplify the source schedule if the signature survives
	if len(cur.Evs) > 0 {
		t := cur
		t.Evs = nil
		if has(&t) {
			cur = t
		}
	}
	return &cur
}

func c22Check(r *vkit.Run, sc *c22Script, shrink bool) {
	var st c22Stats
	var viols []c22Viol
	if r.Try(func() interface{} { return sc }, func() { viols = c22Run(sc, &st) }) {
		r.Evals(1)
		return
	}
	for _, v := range viols {
		w, what := sc, v.What
		if shrink && !sigFirstFew("C22", v.Sig) {
			continue // counted; reported by sigFlushLater after the first two (shrunk) witnesses
		}
		if shrink {
			t := *sc
			t.Ops = sc.Ops[:min(len(sc.Ops), v.At+1)]
			if strings.HasSuffix(v.Sig, "then-panic") {
				t.Ops = sc.Ops
			}
			w = c22Shrink(&t, v.Sig)
			var st2 c22Stats
			func() {
				defer func() { recover() }()
				for _, v2 := range c22Run(w, &st2) {
					if v2.Sig == v.Sig {
						what = v2.What
					}
				}
			}()
		}
		r.Violation(v.Sig, what, w)
	}
	kb, _ := json.Marshal(sc)
	key := string(kb)
	if sc.Kind == "reader" {
		r.CaseS(key, st.consumedKinds >= 3 && st.srcCalls >= 2)
		r.Count("reader_scripts", 1)
		r.Count("reader_ops", st.ops)
		r.Count("reader_bytes_consumed", st.consumed)
		r.Count("reader_ops_that_refilled_from_source", st.refillOps)
		r.Count("reader_peeks", st.peeks)
		r.Count("reader_unread_nil", st.unreadsOK)
		r.Count("reader_unread_error", st.unreadsErr)
		r.Count("reader_writeto_delegated_to_source", st.wtDelegated)
		r.Count("std_ops_same_bytes_as_bfe", st.stdSame)
		r.Count("std_ops_different_amount_or_bytes(script comparison stops)", st.stdDiff)
		r.Count("std_unread_outcome_differs(script comparison stops)", st.stdDesync)
		if st.stdDiffOp != "" {
			r.Count("std_first_diff_in_"+st.stdDiffOp, 1)
		}
		if st.untracked {
			r.Count("reader_scripts_continued_without_oracle_after_unreadrune_misuse", 1)
		}
	} else {
		r.CaseS(key, st.consumedKinds >= 2 && st.accepted > int64(sc.Buf))
		r.Count("writer_scripts", 1)
		r.Count("writer_ops", st.ops)
		r.Count("writer_bytes_accepted", st.accepted)
		r.Count("writer_flushes", st.flushes)
		r.Count("writer_sink_errors", st.sinkErrs)
		r.Count("writer_readfrom_delegated_to_sink", st.rfDelegated)
	}
}

func c22(r *vkit.Run) {
	r.SetRule("70% reader scripts / 30% writer scripts of 5-200 operations. Reader: buffer 16..4096 (biased small), source of 0..3*buf+40 bytes (letters, \\n, \\r\\n, lone \\r, multi-byte and invalid UTF-8, delimiter-free runs longer than the buffer) delivered by a scripted io.Reader (chunk sizes 1..2*buf+1, (0,nil) reads (<=2 in a row), transient errors alone or with data, io.EOF alone or with the last bytes, optionally an io.WriterTo); ops Read/ReadByte/ReadRune/ReadSlice/ReadLine/ReadBytes/ReadString/Peek/Buffered/WriteTo(scripted sink with short writes+errors)/UnreadByte/UnreadRune; in 70% of the scripts Unread* only directly follows a matching read op. Writer: buffer 1..4096, sink with short-write errors (optionally an io.ReaderFrom), ops Write/WriteString/WriteByte/WriteRune(valid runes only)/ReadFrom(scripted source)/Flush. Oracles: stream position + counter after every op (see file header); error values and their timing are not compared; std bufio in lock-step is only counted. Non-trivial = reader script in which >=3 different operation kinds consumed data and the source was read >=2 times / writer script in which >=2 kinds accepted data and more than one buffer was accepted; distinct = whole script")
	r.Assume("'consumed' = bytes returned to the caller minus bytes unread, plus the end-of-line bytes ReadLine drops; 'accepted' = the counts returned by Write*/ReadFrom")
	if r.Replay != "" {
		var sc c22Script
		if err := r.LoadReplay(&sc); err != nil {
			r.Inconclusive(err.Error())
			return
		}
		c22Check(r, &sc, false)
		r.SetMinDistinct(0)
		return
	}
	n := r.N(20000, 1000000)
	if !parallelUnlessStuck(r, n, func(i int) {
		g := r.Rng("script", i)
		var sc *c22Script
		if g.Intn(10) < 7 {
			sc = c22GenReader(g)
		} else {
			sc = c22GenWriter(g)
		}
		if r.WantSample() && len(sc.Ops) < 12 && len(sc.Data) < 200 {
			r.Sample(sc)
		}
		c22Check(r, sc, true)
	}) {
		sigFlushLater(r, "C22")
		return
	}
	sigFlushLater(r, "C22")
	var missing []string
	for _, name := range []string{"reader_scripts", "writer_scripts", "reader_ops_that_refilled_from_source", "reader_peeks",
		"reader_unread_nil", "reader_unread_error", "reader_writeto_delegated_to_source", "writer_flushes", "writer_sink_errors",
		"writer_readfrom_delegated_to_sink", "std_ops_same_bytes_as_bfe"} {
		if r.Counter(name) == 0 {
			missing = append(missing, name)
		}
	}
	if len(missing) > 0 && r.Violations() == 0 {
		r.Inconclusive("outcomes never observed: " + strings.Join(missing, ", "))
	}
}
