package main

import (
	"encoding/hex"
	"errors"
	"fmt"
	"io"
	"runtime"
	"sort"
	"strings"
	"sync"
	"sync/atomic"
	"time"

	"github.com/anishathalye/porcupine"
	"github.com/bfenetworks/bfe/bfe_util/pipe"

	"verifharness/vkit"
)

// C21: bytes written into a body pipe are read back in order, exactly once; a
// read blocks until data or closure; a close error is reported only after all
// buffered data was read, a break error immediately; a write that does not fit
// is refused (error reported whenever n < len), never silently truncated;
// concurrent reader and writer never deadlock.
//
// Monitor 1: linearizability of short concurrent histories against a bounded
//            byte-FIFO model (porcupine). One reader goroutine (bfe: the
//            handler), 1-3 writer/closer goroutines (bfe: the serve loop).
// Monitor 2: stream conservation: ~1 MB through a small pipe with a credit
//            protocol like HTTP/2 flow control (writer only writes what was freed).
// Monitor 3: race detector (automatic) + deadlock watchdog.

// ---------------------------------------------------------------- plan / history

type c21Op struct {
	Kind string `json:"kind"`           // write read close closefn break err done release
	Data string `json:"data,omitempty"` // hex payload of a write
	K    int    `json:"k,omitempty"`    // buffer length of a read
	Err  int    `json:"err,omitempty"`  // error id of close/break: 1 = io.EOF, >=2 custom
	Spin int    `json:"spin,omitempty"` // busy iterations before the op; -1 = Gosched
	Wait bool   `json:"wait,omitempty"` // final close only: issued after the other writer goroutines returned
}

type c21Plan struct {
	Cap   int       `json:"cap"`
	Pool  bool      `json:"pool"`  // NewPipeFromBufferPool + Release in the tail
	Procs [][]c21Op `json:"procs"` // Procs[0] = the reader; Procs[1] = the closer (last op closes or breaks)
	Tail  []c21Op   `json:"tail"`  // executed by the main goroutine after all others returned
}

type c21Rec struct {
	Client int    `json:"client"`
	Op     c21Op  `json:"op"`
	N      int    `json:"n"`
	Out    string `json:"out,omitempty"` // hex bytes returned by a read
	ErrID  int    `json:"err_id"`        // 0 nil, 1 io.EOF, >=2 custom id, -1 any other error
	ErrTxt string `json:"err_txt,omitempty"`
	Call   int64  `json:"call"`
	Ret    int64  `json:"ret"`
}

type c21Witness struct {
	Plan    c21Plan  `json:"plan"`
	History []c21Rec `json:"history"`
	Note    string   `json:"note,omitempty"`
}

const c21MaxErr = 60

var c21Errs = func() []error {
	es := make([]error, c21MaxErr+2)
	es[1] = io.EOF
	for i := 2; i < len(es); i++ {
		es[i] = fmt.Errorf("c21-error-%d", i)
	}
	return es
}()

func c21ErrID(e error) (int, string) {
	if e == nil {
		return 0, ""
	}
	for i := 1; i < len(c21Errs); i++ {
		if e == c21Errs[i] {
			return i, ""
		}
	}
	return -1, e.Error()
}

// ---------------------------------------------------------------- model

type c21State struct {
	q        string
	closeSet uint64
	breakSet uint64
	released bool
}

type c21In struct {
	kind string
	data string
	k    int
	err  int
}

type c21Out struct {
	n    int
	data string
	err  int
}

func c21Bit(id int) uint64 {
	if id < 1 || id > 63 {
		return 0
	}
	return 1 << uint(id-1)
}

// c21Model is the sequential specification, written from the property statement.
func c21Model(capacity int) porcupine.Model {
	return porcupine.Model{
		Init: func() interface{} { return c21State{} },
		Step: func(st, in, out interface{}) (bool, interface{}) {
			s := st.(c21State)
			i := in.(c21In)
			o := out.(c21Out)
			switch i.kind {
			case "write":
				free := capacity - len(s.q)
				if o.n < 0 || o.n > len(i.data) {
					return false, s
				}
				if o.n < len(i.data) && o.err == 0 {
					return false, s // silently truncated
				}
				open := s.closeSet == 0 && s.breakSet == 0 && !s.released
				if open && len(i.data) <= free && (o.n != len(i.data) || o.err != 0) {
					return false, s // fits, pipe open, yet not accepted
				}
				if o.n > free {
					return false, s // more accepted than fits
				}
				s.q += i.data[:o.n]
				return true, s
			case "read":
				if o.n != len(o.data) || o.n > i.k {
					return false, s
				}
				if s.breakSet != 0 { // break: reported immediately
					return o.n == 0 && c21Bit(o.err)&s.breakSet != 0, s
				}
				if len(s.q) > 0 { // data: a non-empty prefix
					if o.n == 0 || o.err != 0 || !strings.HasPrefix(s.q, o.data) {
						return false, s
					}
					s.q = s.q[o.n:]
					return true, s
				}
				if s.closeSet != 0 { // close: only once empty
					return o.n == 0 && c21Bit(o.err)&s.closeSet != 0, s
				}
				return false, s // would block
			case "close", "closefn":
				s.closeSet |= c21Bit(i.err)
				return true, s
			case "break":
				s.breakSet |= c21Bit(i.err)
				return true, s
			case "err":
				switch {
				case s.breakSet != 0:
					return c21Bit(o.err)&s.breakSet != 0, s
				case s.closeSet != 0:
					return c21Bit(o.err)&s.closeSet != 0, s
				}
				return o.err == 0, s
			case "release":
				s.q = ""
				s.released = true
				return true, s
			}
			return true, s // done: no oracle
		},
	}
}

func c21ToOps(h []c21Rec) []porcupine.Operation {
	ops := make([]porcupine.Operation, 0, len(h))
	for _, x := range h {
		if x.Op.Kind == "done" {
			continue
		}
		d, _ := hex.DecodeString(x.Op.Data)
		o, _ := hex.DecodeString(x.Out)
		ops = append(ops, porcupine.Operation{
			ClientId: x.Client,
			Input:    c21In{kind: x.Op.Kind, data: string(d), k: x.Op.K, err: x.Op.Err},
			Call:     x.Call,
			Output:   c21Out{n: x.N, data: string(o), err: x.ErrID},
			Return:   x.Ret,
		})
	}
	return ops
}

// c21Classify gives an illegal history a signature describing its shape.
// All reads of a history are sequential (goroutine 0, then the tail).
func c21Classify(h []c21Rec) string {
	written := map[byte]bool{} // bytes accepted by some write
	wret := map[byte]int64{}   // when that write returned
	breakIDs, closeIDs := map[int]bool{}, map[int]bool{}
	firstEnd := int64(-1)
	const never = int64(1) << 62
	firstBreakCall, firstBreakRet, releaseCall := never, never, never
	for _, x := range h {
		switch x.Op.Kind {
		case "write":
			d, _ := hex.DecodeString(x.Op.Data)
			if x.N < len(d) && x.ErrID == 0 {
				return "write:silently-truncated"
			}
			if x.N < 0 || x.N > len(d) {
				return "write:impossible-count"
			}
			for _, b := range d[:x.N] {
				written[b] = true
				wret[b] = x.Ret
			}
		case "close", "closefn", "break":
			if x.Op.Kind == "break" {
				breakIDs[x.Op.Err] = true
			} else {
				closeIDs[x.Op.Err] = true
			}
			if firstEnd < 0 || x.Call < firstEnd {
				firstEnd = x.Call
			}
			if x.Op.Kind == "break" {
				firstBreakCall = min(firstBreakCall, x.Call)
				firstBreakRet = min(firstBreakRet, x.Ret)
			}
		case "release":
			releaseCall = x.Call
		}
	}
	reads := []c21Rec{}
	for _, x := range h {
		if x.Op.Kind == "read" {
			reads = append(reads, x)
		}
	}
	sort.SliceStable(reads, func(a, b int) bool { return reads[a].Call < reads[b].Call })
	seen := map[byte]bool{}
	pos := map[byte]int{}
	npos := 0
	for _, x := range reads {
		o, _ := hex.DecodeString(x.Out)
		switch {
		case x.N == 0 && x.ErrID == 0:
			return "read:returned-0-nil"
		case x.ErrID == -1:
			return "read:foreign-error"
		case x.N > 0 && x.ErrID != 0:
			return "read:data-and-error"
		case x.ErrID > 0 && (firstEnd < 0 || x.Ret < firstEnd):
			return "read:error-before-any-close-or-break"
		case x.ErrID > 0 && !breakIDs[x.ErrID] && !closeIDs[x.ErrID]:
			return "read:error-never-set"
		}
		if x.N > 0 && firstBreakRet < x.Call {
			return "read:data-delivered-after-break"
		}
		if x.ErrID > 0 && x.Ret < firstBreakCall && x.Ret < releaseCall {
			// a close error: everything whose write had returned before this read began must be out
			for b := range written {
				if !seen[b] && wret[b] < x.Call {
					return "read:close-error-before-buffered-data-was-read"
				}
			}
		}
		for _, b := range o {
			if !written[b] {
				return "read:bytes-never-written"
			}
			if seen[b] {
				return "read:bytes-delivered-twice"
			}
			seen[b] = true
			pos[b] = npos
			npos++
		}
	}
	for _, x := range h {
		if x.Op.Kind != "write" {
			continue
		}
		d, _ := hex.DecodeString(x.Op.Data)
		prev, gap := -1, false
		for _, b := range d[:x.N] {
			p, ok := pos[b]
			if !ok {
				gap = true
				continue
			}
			if gap {
				return "read:bytes-lost-inside-a-write"
			}
			if prev >= 0 && p != prev+1 {
				return "read:bytes-of-a-write-reordered-or-interleaved"
			}
			prev = p
		}
	}
	for _, x := range h {
		if x.Op.Kind == "write" && x.ErrID != 0 && x.N == len(x.Op.Data)/2 && x.N > 0 {
			return "write:error-although-fully-written"
		}
	}
	return "history-not-linearizable"
}

// ---------------------------------------------------------------- generator

func c21Gen(g *vkit.Rand) *c21Plan {
	p := &c21Plan{}
	p.Cap = []int{0, 1, 1, 2, 2, 3, 4, 4, 5, 8, 8, 16}[g.Intn(12)]
	p.Pool = g.Chance(1, 3) && p.Cap > 0
	nproc := g.Range(2, 4)
	tok := 1 // next unique byte value (1..250)
	nextErr := 2
	payload := func(l int) string {
		if tok+l > 250 {
			l = 250 - tok
		}
		if l < 0 {
			l = 0
		}
		b := make([]byte, l)
		for i := range b {
			b[i] = byte(tok)
			tok++
		}
		return hex.EncodeToString(b)
	}
	wsize := func() int {
		switch g.Intn(10) {
		case 0:
			return 0
		case 1:
			return p.Cap // exactly the capacity
		case 2:
			return p.Cap + g.Range(1, 3) // can never fit
		case 3, 4:
			return g.Range(1, max(1, p.Cap))
		default:
			return g.Range(1, max(1, (p.Cap+1)/2))
		}
	}
	newErr := func() int {
		if g.Chance(1, 3) {
			return 1 // io.EOF, the usual end of a body
		}
		if nextErr > c21MaxErr {
			return 1
		}
		nextErr++
		return nextErr - 1
	}
	p.Procs = make([][]c21Op, nproc)
	// how often the pipe is ended before the closer's final op
	pClose, pBreak := 0, 0 // percent per op
	clean := false
	switch x := g.Intn(100); {
	case x < 50: // clean body: only the final close (and maybe the reader's own Close at its end)
		clean = true
	case x < 80:
		pClose = 6
	default:
		pClose, pBreak = 5, 5
	}
	spin := func() int {
		switch g.Intn(8) {
		case 0:
			return -1 // Gosched
		case 1:
			return g.Range(1, 60)
		case 2:
			return g.Range(60, 2000)
		}
		return 0
	}
	// reader
	nr := g.Range(5, 12)
	for i := 0; i < nr; i++ {
		x := g.Intn(100)
		op := c21Op{Kind: "read", K: g.Range(1, p.Cap+2)}
		switch {
		case x < pClose:
			op = c21Op{Kind: "close", Err: newErr()} // RequestBody.Close()
		case x < pClose+pBreak:
			op = c21Op{Kind: "break", Err: newErr()}
		case x < pClose+pBreak+8:
			op = c21Op{Kind: "err"}
		case x < pClose+pBreak+11:
			op = c21Op{Kind: "done"}
		}
		op.Spin = spin()
		p.Procs[0] = append(p.Procs[0], op)
	}
	if g.Chance(1, 4) {
		p.Procs[0] = append(p.Procs[0], c21Op{Kind: "close", Err: newErr()}) // handler closes the body when it is done
	}
	for w := 1; w < nproc; w++ {
		n := g.Range(2, 12-2*(nproc-2))
		for i := 0; i < n; i++ {
			x := g.Intn(100)
			op := c21Op{Kind: "write", Data: payload(wsize())}
			switch {
			case x < pClose:
				op = c21Op{Kind: "close", Err: newErr()}
				if g.Chance(1, 3) {
					op.Kind = "closefn"
				}
			case x < pClose+pBreak:
				op = c21Op{Kind: "break", Err: newErr()}
			case x < pClose+pBreak+8:
				op = c21Op{Kind: "err"}
			case x < pClose+pBreak+11:
				op = c21Op{Kind: "done"}
			}
			op.Spin = spin()
			p.Procs[w] = append(p.Procs[w], op)
		}
	}
	// the closer always ends the history so that every read returns
	last := c21Op{Kind: "close", Err: newErr(), Spin: spin(), Wait: clean && g.Chance(3, 4)}
	if g.Chance(1, 6) {
		last.Kind = "break"
	} else if g.Chance(1, 3) {
		last.Kind = "closefn"
	}
	if len(p.Procs[1]) >= 12 {
		p.Procs[1] = p.Procs[1][:11]
	}
	p.Procs[1] = append(p.Procs[1], last)
	// tail (sequential): drain, sticky error, optional release, use after close
	p.Tail = append(p.Tail, c21Op{Kind: "err"})
	for i := 0; i < p.Cap+2; i++ {
		p.Tail = append(p.Tail, c21Op{Kind: "read", K: g.Range(1, p.Cap+2)})
	}
	if p.Pool {
		p.Tail = append(p.Tail, c21Op{Kind: "release"})
	}
	p.Tail = append(p.Tail, c21Op{Kind: "write", Data: payload(g.Range(0, 2))}, c21Op{Kind: "read", K: 1}, c21Op{Kind: "err"})
	return p
}

// ---------------------------------------------------------------- execution

var c21Pools [17]sync.Pool

func init() {
	for c := range c21Pools {
		c := c
		c21Pools[c].New = func() interface{} { return pipe.NewFixedBuffer(make([]byte, c)) }
	}
}

type c21Proc struct {
	mu       sync.Mutex
	recs     []c21Rec
	inflight *c21Op
	done     bool
}

var c21FnCalls, c21SpinSink int64

func c21Do(p *pipe.Pipe, op *c21Op, client int, t0 time.Time, plan *c21Plan, pr *c21Proc, others *sync.WaitGroup) {
	if op.Wait && others != nil {
		others.Wait()
	}
	if op.Spin < 0 {
		runtime.Gosched()
	}
	for i := 0; i < op.Spin; i++ {
		atomic.AddInt64(&c21SpinSink, 1)
	}
	rec := c21Rec{Client: client, Op: *op}
	pr.mu.Lock()
	pr.inflight = op
	pr.mu.Unlock()
	var err error
	switch op.Kind {
	case "write":
		d, _ := hex.DecodeString(op.Data)
		rec.Call = time.Since(t0).Nanoseconds()
		rec.N, err = p.Write(d)
		rec.Ret = time.Since(t0).Nanoseconds()
	case "read":
		buf := make([]byte, op.K)
		rec.Call = time.Since(t0).Nanoseconds()
		rec.N, err = p.Read(buf)
		rec.Ret = time.Since(t0).Nanoseconds()
		if rec.N > 0 && rec.N <= len(buf) {
			rec.Out = hex.EncodeToString(buf[:rec.N])
		}
	case "close":
		rec.Call = time.Since(t0).Nanoseconds()
		p.CloseWithError(c21Errs[op.Err])
		rec.Ret = time.Since(t0).Nanoseconds()
	case "closefn":
		rec.Call = time.Since(t0).Nanoseconds()
		p.CloseWithErrorAndCode(c21Errs[op.Err], func() { atomic.AddInt64(&c21FnCalls, 1) })
		rec.Ret = time.Since(t0).Nanoseconds()
	case "break":
		rec.Call = time.Since(t0).Nanoseconds()
		p.BreakWithError(c21Errs[op.Err])
		rec.Ret = time.Since(t0).Nanoseconds()
	case "err":
		rec.Call = time.Since(t0).Nanoseconds()
		err = p.Err()
		rec.Ret = time.Since(t0).Nanoseconds()
	case "done":
		rec.Call = time.Since(t0).Nanoseconds()
		select {
		case <-p.Done():
			rec.N = 1
		default:
		}
		rec.Ret = time.Since(t0).Nanoseconds()
	case "release":
		rec.Call = time.Since(t0).Nanoseconds()
		p.Release(&c21Pools[plan.Cap])
		rec.Ret = time.Since(t0).Nanoseconds()
	}
	rec.ErrID, rec.ErrTxt = c21ErrID(err)
	pr.mu.Lock()
	pr.inflight = nil
	pr.recs = append(pr.recs, rec)
	pr.mu.Unlock()
}

const c21Watchdog = 20 * time.Second

// c21Exec runs a plan. stuck != "" when the watchdog fired.
func c21Exec(plan *c21Plan) (h []c21Rec, stuck string, closerDone bool) {
	var p *pipe.Pipe
	if plan.Pool {
		p = pipe.NewPipeFromBufferPool(&c21Pools[plan.Cap])
	} else {
		p = pipe.NewPipeWithSize(uint32(plan.Cap))
	}
	t0 := time.Now()
	procs := make([]*c21Proc, len(plan.Procs)+1)
	for i := range procs {
		procs[i] = &c21Proc{}
	}
	var ready, start int32 // spin barrier: all goroutines begin together
	var wg, others sync.WaitGroup
	if len(plan.Procs) > 2 {
		others.Add(len(plan.Procs) - 2)
	}
	for c := range plan.Procs {
		wg.Add(1)
		go func(c int) {
			defer wg.Done()
			if c >= 2 {
				defer others.Done()
			}
			atomic.AddInt32(&ready, 1)
			for atomic.LoadInt32(&start) == 0 {
				runtime.Gosched()
			}
			for i := range plan.Procs[c] {
				c21Do(p, &plan.Procs[c][i], c, t0, plan, procs[c], &others)
			}
			procs[c].mu.Lock()
			procs[c].done = true
			procs[c].mu.Unlock()
		}(c)
	}
	for atomic.LoadInt32(&ready) < int32(len(plan.Procs)) {
		runtime.Gosched()
	}
	atomic.StoreInt32(&start, 1)
	fin := make(chan struct{})
	go func() { wg.Wait(); close(fin) }()
	collect := func() {
		for _, pr := range procs {
			pr.mu.Lock()
			h = append(h, pr.recs...)
			pr.mu.Unlock()
		}
	}
	wdt := time.NewTimer(c21Watchdog)
	defer wdt.Stop()
	select {
	case <-fin:
	case <-wdt.C:
		var who []string
		for c, pr := range procs[:len(plan.Procs)] {
			pr.mu.Lock()
			if !pr.done {
				k := "between-ops"
				if pr.inflight != nil {
					k = pr.inflight.Kind
				}
				who = append(who, fmt.Sprintf("goroutine %d blocked in %s", c, k))
			}
			if c == 1 {
				closerDone = pr.done
			}
			pr.mu.Unlock()
		}
		collect()
		return h, strings.Join(who, "; "), closerDone
	}
	tail := len(plan.Procs)
	for i := range plan.Tail {
		c21Do(p, &plan.Tail[i], tail, t0, plan, procs[tail], nil)
	}
	collect()
	return h, "", true
}

type c21Agg struct {
	mu           sync.Mutex
	fingerprints map[uint64]struct{}
}

func c21Fingerprint(h []c21Rec) uint64 {
	s := append([]c21Rec{}, h...)
	sort.SliceStable(s, func(a, b int) bool { return s[a].Call < s[b].Call })
	var sb strings.Builder
	for _, x := range s {
		fmt.Fprintf(&sb, "%d%s%d/%d;", x.Client, x.Op.Kind[:1], x.N, x.ErrID)
	}
	return vkit.Hash64(sb.String())
}

// c21CheckHistory runs the linearizability check and the accounting. It returns
// false when the history was illegal.
func c21CheckHistory(r *vkit.Run, plan *c21Plan, h []c21Rec, agg *c21Agg, note string) bool {
	res := porcupine.CheckOperationsTimeout(c21Model(plan.Cap), c21ToOps(h), 30*time.Second)
	switch res {
	case porcupine.Unknown:
		r.Count("checker_timeouts(skipped)", 1)
		return true
	case porcupine.Illegal:
		sig := c21Classify(h)
		sorted := append([]c21Rec{}, h...)
		sort.SliceStable(sorted, func(a, b int) bool { return sorted[a].Call < sorted[b].Call })
		r.Violation("linearizability:"+sig, "history is not a linearization of a bounded byte FIFO with close/break flags ("+sig+")",
			c21Witness{Plan: *plan, History: sorted, Note: note})
		return false
	}
	// accounting of what was observed
	var dataReads, closeErrReads, breakErrReads, fullWrites, refusedNoFit, refusedClosed, errNil, errSet, waited, overlap int64
	wcall := map[byte]int64{}
	for _, x := range h {
		if x.Op.Kind == "write" {
			d, _ := hex.DecodeString(x.Op.Data)
			for _, b := range d {
				wcall[b] = x.Call
			}
		}
	}
	breakIDs := map[int]bool{}
	for _, x := range h {
		if x.Op.Kind == "break" {
			breakIDs[x.Op.Err] = true
		}
	}
	var tailData, tailErr int64
	for _, x := range h {
		if x.Client >= len(plan.Procs) { // sequential tail: counted apart
			if x.Op.Kind == "read" {
				if x.N > 0 {
					tailData++
				} else {
					tailErr++
				}
			}
			continue
		}
		switch x.Op.Kind {
		case "read":
			switch {
			case x.N > 0:
				dataReads++
				o, _ := hex.DecodeString(x.Out)
				if wcall[o[0]] > x.Call {
					waited++ // the read was invoked before the write that fed it
				}
			case x.ErrID > 0 && breakIDs[x.ErrID]:
				breakErrReads++
			case x.ErrID > 0:
				closeErrReads++
			}
		case "write":
			l := len(x.Op.Data) / 2
			switch {
			case x.N == l && x.ErrID == 0 && l > 0:
				fullWrites++
			case x.N < l && x.N > 0:
				refusedNoFit++
			case x.N < l:
				refusedClosed++ // n == 0: full or closed
			}
		case "err":
			if x.ErrID == 0 {
				errNil++
			} else {
				errSet++
			}
		}
	}
	for i := range h {
		for j := range h {
			if h[i].Client < h[j].Client && h[i].Call <= h[j].Ret && h[j].Call <= h[i].Ret && h[j].Client < len(plan.Procs) {
				overlap++
			}
		}
	}
	r.Count("m1_reads_data", dataReads)
	r.Count("m1_reads_close_error", closeErrReads)
	r.Count("m1_reads_break_error", breakErrReads)
	r.Count("m1_reads_invoked_before_their_write(blocked)", waited)
	r.Count("m1_writes_accepted", fullWrites)
	r.Count("m1_writes_partial_with_error", refusedNoFit)
	r.Count("m1_writes_refused_n0", refusedClosed)
	r.Count("m1_err_nil", errNil)
	r.Count("m1_err_set", errSet)
	r.Count("m1_overlapping_op_pairs", overlap)
	r.Count("m1_ops", int64(len(h)))
	r.Count("m1_tail_reads_data(drained after close)", tailData)
	r.Count("m1_tail_reads_error(sticky)", tailErr)
	fp := c21Fingerprint(h)
	agg.mu.Lock()
	agg.fingerprints[fp] = struct{}{}
	agg.mu.Unlock()
	key := fmt.Sprintf("%v", *plan)
	r.CaseS(key, dataReads > 0 && overlap > 0)
	return true
}

var c21Abort int32

func c21RunPlan(r *vkit.Run, plan *c21Plan, agg *c21Agg, note string) bool {
	if atomic.LoadInt32(&c21Abort) != 0 {
		return true
	}
	var h []c21Rec
	var stuck string
	var closerDone bool
	if r.Try(func() interface{} { return plan }, func() { h, stuck, closerDone = c21Exec(plan) }) {
		return false
	}
	if stuck != "" {
		atomic.StoreInt32(&c21Abort, 1)
		sort.SliceStable(h, func(a, b int) bool { return h[a].Call < h[b].Call })
		w := c21Witness{Plan: *plan, History: h, Note: stuck}
		if closerDone && strings.Contains(stuck, "blocked in read") {
			r.Violation("deadlock:read-still-blocked-after-close-or-break",
				fmt.Sprintf("the closer finished its final close/break, yet after %v: %s", c21Watchdog, stuck), w)
		} else {
			r.Inconclusive("history watchdog fired without a provable deadlock: " + stuck)
		}
		return false
	}
	return c21CheckHistory(r, plan, h, agg, note)
}

// ---------------------------------------------------------------- monitor 2: stream conservation

type c21StreamCase struct {
	Idx   int `json:"stream_index"`
	Cap   int `json:"cap"`
	Total int `json:"total_bytes"`
}

func c21Stream(r *vkit.Run, idx int) {
	if atomic.LoadInt32(&c21Abort) != 0 {
		return
	}
	g := r.Rng("stream", idx)
	capacity := []int{1, 2, 3, 7, 64, 1000, 4096, 4096, 4096, 4096, 8192, 65535}[g.Intn(12)]
	total := 1 << 20
	if capacity < 64 {
		total = capacity * 4000
	}
	total += g.Intn(1000)
	data := g.Bytes(total)
	usePool := g.Bool()
	pool := &sync.Pool{New: func() interface{} { return pipe.NewFixedBuffer(make([]byte, capacity)) }}
	var p *pipe.Pipe
	if usePool {
		p = pipe.NewPipeFromBufferPool(pool)
	} else {
		p = pipe.NewPipeWithSize(uint32(capacity))
	}
	closeErr := c21Errs[1+g.Intn(3)]
	sc := c21StreamCase{Idx: idx, Cap: capacity, Total: total}

	var written, read int64 // bytes accepted / bytes delivered
	var readerInCall, writerClosed int32
	var credit int64 = int64(capacity)
	wake := make(chan struct{}, 1)
	fail := make(chan [2]string, 4)
	wdone, rdone := make(chan struct{}), make(chan struct{})
	gw, gr := g.Fork(), g.Fork()
	var nWrites, nPending, nExact, nReads int64

	go func() { // writer: the serve loop; only writes what flow control allows
		defer close(wdone)
		off := 0
		for off < total {
			c := int(atomic.LoadInt64(&credit))
			if c == 0 {
				<-wake
				continue
			}
			sz := c
			switch gw.Intn(4) {
			case 0: // everything that was freed
			case 1:
				sz = 1
			default:
				sz = gw.Range(1, c)
			}
			if sz > total-off {
				sz = total - off
			}
			if atomic.LoadInt64(&written)-atomic.LoadInt64(&read) > 0 {
				nPending++
			}
			if sz == c {
				nExact++
			}
			atomic.AddInt64(&credit, -int64(sz))
			n, err := p.Write(data[off : off+sz])
			nWrites++
			if n != sz || err != nil {
				fail <- [2]string{"stream:write-refused-although-space-was-freed",
					fmt.Sprintf("Write(%d bytes)=(%d,%v) at offset %d; capacity %d, bytes written-but-unread at most %d", sz, n, err, off, capacity, capacity-c)}
				return
			}
			atomic.AddInt64(&written, int64(n))
			off += sz
			if gw.Chance(1, 16) {
				runtime.Gosched()
			}
		}
		p.CloseWithError(closeErr)
		atomic.StoreInt32(&writerClosed, 1)
	}()
	go func() { // reader: the handler
		defer close(rdone)
		off := 0
		buf := make([]byte, 2*capacity+2)
		for {
			k := gr.Range(1, len(buf))
			if gr.Chance(1, 3) {
				k = gr.Range(1, 1+capacity/4)
			}
			atomic.StoreInt32(&readerInCall, 1)
			n, err := p.Read(buf[:k])
			atomic.StoreInt32(&readerInCall, 0)
			nReads++
			if n < 0 || n > k || off+n > total {
				fail <- [2]string{"stream:more-bytes-out-than-in", fmt.Sprintf("Read(%d)=(%d,%v) at offset %d of %d", k, n, err, off, total)}
				return
			}
			if n > 0 {
				if string(buf[:n]) != string(data[off:off+n]) {
					i := 0
					for buf[i] == data[off+i] {
						i++
					}
					fail <- [2]string{"stream:bytes-out-of-order-or-corrupt", fmt.Sprintf("Read(%d) returned %d bytes at stream offset %d; byte %d differs from what was written there", k, n, off, off+i)}
					return
				}
				off += n
				atomic.AddInt64(&read, int64(n))
				atomic.AddInt64(&credit, int64(n)) // WINDOW_UPDATE
				select {
				case wake <- struct{}{}:
				default:
				}
			}
			if err != nil {
				switch {
				case n > 0:
					fail <- [2]string{"stream:data-and-error-together", fmt.Sprintf("Read=(%d,%v)", n, err)}
				case err != closeErr:
					fail <- [2]string{"stream:foreign-error", fmt.Sprintf("Read=(0,%v) at offset %d, want close error %v", err, off, closeErr)}
				case off != total:
					fail <- [2]string{"stream:close-error-before-all-data-was-read", fmt.Sprintf("close error reported at offset %d of %d", off, total)}
				}
				return
			}
			if n == 0 {
				fail <- [2]string{"stream:read-returned-0-nil", fmt.Sprintf("Read(%d)=(0,nil) at offset %d", k, off)}
				return
			}
		}
	}()

	// watchdog: progress based
	lastW, lastR := int64(-1), int64(-1)
	idle := 0
	tick := time.NewTicker(500 * time.Millisecond)
	defer tick.Stop()
	wd, rd := wdone, rdone
	for wd != nil || rd != nil {
		select {
		case f := <-fail:
			r.Violation(f[0], f[1], sc)
			atomic.StoreInt32(&c21Abort, 1)
			p.BreakWithError(errors.New("abort")) // let the other side go
			select {
			case wake <- struct{}{}:
			default:
			}
			r.Evals(1)
			return
		case <-wd:
			wd = nil
		case <-rd:
			rd = nil
			if wd != nil { // reader returned first: only legal after a failure (handled above) — wake writer
				select {
				case wake <- struct{}{}:
				default:
				}
			}
		case <-tick.C:
			w, rr := atomic.LoadInt64(&written), atomic.LoadInt64(&read)
			if w != lastW || rr != lastR {
				lastW, lastR, idle = w, rr, 0
				continue
			}
			idle++
			if idle < int(c21Watchdog/(500*time.Millisecond)) {
				continue
			}
			atomic.StoreInt32(&c21Abort, 1)
			inRead := atomic.LoadInt32(&readerInCall) == 1
			closed := atomic.LoadInt32(&writerClosed) == 1
			switch {
			case inRead && closed:
				r.Violation("deadlock:stream-reader-blocked-after-close", fmt.Sprintf("writer closed the pipe, reader still blocked in Read after %v without progress (written %d, read %d)", c21Watchdog, w, rr), sc)
			case inRead && w > rr:
				r.Violation("deadlock:stream-reader-blocked-with-data-available", fmt.Sprintf("%d bytes written and unread, writer waits for credit, reader still blocked in Read after %v without progress (written %d, read %d)", w-rr, c21Watchdog, w, rr), sc)
			default:
				r.Inconclusive(fmt.Sprintf("stream %d: no progress for %v without a provable deadlock (written %d, read %d, readerInCall %v, closed %v)", idx, c21Watchdog, w, rr, inRead, closed))
			}
			r.Evals(1)
			return
		}
	}
	select {
	case f := <-fail:
		r.Violation(f[0], f[1], sc)
		r.Evals(1)
		return
	default:
	}
	if usePool {
		p.Release(pool) // the reader is finished: documented use
		if n, err := p.Read(make([]byte, 1)); n != 0 || err != closeErr {
			r.Violation("stream:read-after-release", fmt.Sprintf("Read after Close+Release = (%d,%v), want (0,%v)", n, err, closeErr), sc)
		}
	}
	r.Count("m2_streams", 1)
	r.Count("m2_bytes", int64(total))
	r.Count("m2_writes", nWrites)
	r.Count("m2_writes_with_unread_data_pending", nPending)
	r.Count("m2_writes_filling_exactly_the_freed_space", nExact)
	r.Count("m2_reads", nReads)
	r.CaseS(fmt.Sprintf("stream|%d|%d|%d", idx, capacity, total), nPending > 0)
}

// ---------------------------------------------------------------- entry

func c21(r *vkit.Run) {
	r.SetRule("Monitor 1: histories of 2-4 goroutines x <=12 ops on one Pipe (capacity 0..16; NewPipeWithSize or NewPipeFromBufferPool): goroutine 0 is the only reader (Read k=1..cap+2, Err, Close, Break, Done), goroutines 1..3 write (every byte a unique value 1..250), Close, CloseWithErrorAndCode, Break, Err, Done; goroutine 1 always ends with a close/break so that every Read returns; sequential tail: Err, drain reads, [Release], write/read/Err after close. Each history is checked with porcupine against a bounded byte FIFO with close/break error sets (Read = non-empty prefix | break error at once | close error only when empty | otherwise blocks; Write: n<len => error, open and fits => fully accepted, never more than the free space). Not demanded (statement silent): which of several close errors wins, Read with a zero-length buffer, more than one concurrent reader, Done(). Checker timeouts are skipped and counted. Monitor 2: ~1 MB (cap<64: cap*4000 bytes) of random bytes through a pipe of capacity 1..65535 with a credit protocol (writer writes only what the reader freed): every write must be accepted, bytes out = bytes in, in order, close error only at the end. Monitor 3: race detector + progress watchdog (20 s without progress with a provably blocked reader = deadlock). Non-trivial = history with >=1 data read and >=1 pair of overlapping operations of different goroutines / stream with writes issued while unread data was pending; distinct = plan / stream parameters")
	r.Assume("timestamps come from one monotonic clock and are used only as orderings by the linearizability checker")
	r.Assume("Release is only used after the reader is finished and after a close/break (documented use in bfe_http2 closeStream)")
	agg := &c21Agg{fingerprints: map[uint64]struct{}{}}
	if r.Replay != "" {
		var w c21Witness
		if err := r.LoadReplay(&w); err != nil || len(w.Plan.Procs) == 0 {
			var sc c21StreamCase
			if err2 := r.LoadReplay(&sc); err2 == nil && sc.Total > 0 {
				c21Stream(r, sc.Idx)
				r.SetMinDistinct(0)
				return
			}
			r.Inconclusive(fmt.Sprintf("replay file not understood: %v", err))
			return
		}
		r.SetMinDistinct(0)
		// The recorded history is re-checked only to confirm the checker's judgement; the
		// verdict of a replay comes from re-executing the plan against the current code.
		recorded := "no recorded history"
		if len(w.History) > 0 && !strings.HasPrefix(w.Note, "goroutine") {
			switch porcupine.CheckOperationsTimeout(c21Model(w.Plan.Cap), c21ToOps(w.History), 30*time.Second) {
			case porcupine.Illegal:
				recorded = "recorded history is illegal under the model (" + c21Classify(w.History) + ")"
			case porcupine.Ok:
				recorded = "recorded history is LEGAL under the current model"
			default:
				recorded = "checker timeout on the recorded history"
			}
		}
		fmt.Println("replay:", recorded)
		for i := 0; i < 500; i++ { // schedules are not replayable: re-run the plan
			if !c21RunPlan(r, &w.Plan, agg, fmt.Sprintf("re-execution %d of the plan", i)) {
				return
			}
		}
		r.Inconclusive("not reproduced in 500 re-executions of the plan (schedules cannot be replayed exactly); " + recorded)
		return
	}
	n := r.N(2000, 60000)
	ns := r.N(32, 480)
	// streams and histories together: oversubscription diversifies the schedules
	var wg sync.WaitGroup
	wg.Add(1)
	go func() {
		defer wg.Done()
		vkit.Parallel(ns, 6, func(i int) { c21Stream(r, i) })
	}()
	vkit.Parallel(n, 0, func(i int) {
		plan := c21Gen(r.Rng("history", i))
		if r.WantSample() && i%97 == 0 {
			r.Sample(plan)
		}
		c21RunPlan(r, plan, agg, "")
	})
	wg.Wait()
	r.Count("m1_interleaving_fingerprints", int64(len(agg.fingerprints)))
	r.Count("m1_closefn_callbacks_run", atomic.LoadInt64(&c21FnCalls))
	if to := r.Counter("checker_timeouts(skipped)"); to*50 > int64(n) {
		r.Inconclusive(fmt.Sprintf("%d of %d histories hit the checker timeout", to, n))
	}
	var missing []string
	for _, name := range []string{"m1_reads_data", "m1_reads_close_error", "m1_reads_break_error",
		"m1_reads_invoked_before_their_write(blocked)", "m1_writes_accepted", "m1_writes_partial_with_error",
		"m1_writes_refused_n0", "m1_err_nil", "m1_err_set", "m1_overlapping_op_pairs", "m2_streams",
		"m2_writes_with_unread_data_pending", "m2_writes_filling_exactly_the_freed_space"} {
		if r.Counter(name) == 0 {
			missing = append(missing, name)
		}
	}
	if len(missing) > 0 && r.Violations() == 0 {
		r.Inconclusive("outcomes never observed: " + strings.Join(missing, ", "))
	}
}
