package main

import (
	"fmt"
	"net"
	"os"
	"regexp"
	"strings"
	"sync"
	"time"

	"github.com/bfenetworks/bfe/bfe_basic"
	"github.com/bfenetworks/bfe/bfe_http"
	"github.com/bfenetworks/bfe/bfe_module"

	"verifharness/e2e"
	"verifharness/ref/http1"
	"verifharness/vkit"
)

// C25: whatever protocol the client uses (HTTP/1.x, HTTP/2, SPDY) the bytes BFE
// writes to an HTTP backend form exactly one well-formed HTTP/1.1 request whose
// method, target, header fields and body equal the request BFE accepted; no
// client-supplied header name or value can add header fields or messages.
//
// Oracle: the raw bytes of the one backend connection used for a request
// (backend keep-alive off) are parsed by the strict RFC 7230 reference parser.

type c25Case struct {
	ID       string   `json:"id"`
	Frontend string   `json:"frontend"` // h1 | h2 | spdy
	Method   string   `json:"method"`
	Target   string   `json:"target"`
	Host     string   `json:"host"`
	Fields   []e2e.HF `json:"fields"` // extra header fields (raw)
	Body     string   `json:"body"`
	Hostile  string   `json:"hostile"` // which ingredient is hostile (for signatures)
	// byte-splice family (c25bytes.go): position, byte class, place, the byte(s) in hex
	Pos     string `json:"pos,omitempty"`
	Class   string `json:"class,omitempty"`
	Place   string `json:"place,omitempty"`
	ByteHex string `json:"byte_hex,omitempty"`
}

type c25Accepted struct {
	Method, RequestURI, Host, Target string
	Header                           map[string][]string
}

var c25HostileNames = []struct{ tag, s string }{
	{"name-crlf-inject", "x-n\r\nInjected: 1"},
	{"name-lf-inject", "x-n\nInjected: 1"},
	{"name-space", "x n"},
	{"name-colon", "x-n:y"},
	{"name-nul", "x-n\x00y"},
	{"name-upper", "X-Upper-Name"},
	{"name-obs-text", "x-n\xe9"},
	{"name-ctl", "x-n\x7f"},
	{"name-paren", "x-n(1)"},
}
var c25HostileValues = []struct{ tag, s string }{
	{"value-crlf-inject", "v\r\nInjected: 1"},
	{"value-lf-inject", "v\nInjected: 1"},
	{"value-cr", "v\rInjected: 1"},
	{"value-crlfcrlf-smuggle", "v\r\n\r\nGET /smuggled HTTP/1.1\r\nHost: x\r\n\r\n"},
	{"value-nul", "v\x00w"},
	{"value-ctl", "v\x01w"},
	{"value-del", "v\x7fw"},
	{"value-obs-text", "v\xe9\xff"},
	{"value-lead-trail-space", "  v  "},
	{"value-tab", "a\tb"},
	{"value-empty", ""},
}
var c25HostilePseudo = []struct{ tag, what, s string }{
	{"method-inject", "method", "GET /injected HTTP/1.1\r\nInjected: 1\r\nX-Rest:"},
	{"method-space", "method", "GE T"},
	{"method-lower", "method", "get"},
	{"method-crlf", "method", "GET\r\n"},
	{"path-inject", "path", " HTTP/1.1\r\nInjected: 1\r\nX-Rest: "},
	{"path-space", "path", " with space"},
	{"path-nul", "path", "\x00"},
	{"path-lf", "path", "\nInjected: 1"},
	{"host-inject", "host", "c25.test\r\nInjected: 1"},
	{"host-space", "host", "c25.test x"},
	{"host-lf", "host", "c25.test\nInjected: 1"},
}

func c25Gen(g *vkit.Rand, i int) *c25Case {
	c := &c25Case{ID: fmt.Sprintf("q%dz", i), Method: "GET", Host: "c25.test"}
	c.Frontend = []string{"h1", "h2", "spdy"}[i%3]
	c.Target = "/c25/" + c.ID
	if g.Chance(1, 3) {
		c.Method = "POST"
		c.Body = "body-" + c.ID + strings.Repeat("b", g.Intn(40))
	}
	// benign fields
	for k := 0; k < g.Intn(4); k++ {
		c.Fields = append(c.Fields, e2e.HF{Name: fmt.Sprintf("x-benign-%d", k), Value: g.PickS([]string{"1", "two words", "a=b; c=d", "ünï"})})
	}
	c.Hostile = "none"
	lineBreak := func(x string) bool { return c.Frontend == "h1" && strings.ContainsAny(x, "\r\n") }
	switch g.Intn(5) {
	case 0, 1:
		n := c25HostileNames[g.Intn(len(c25HostileNames))]
		if lineBreak(n.s) {
			break // in HTTP/1 a line break is structure, not part of a name
		}
		c.Fields = append(c.Fields, e2e.HF{Name: n.s, Value: "v-" + c.ID})
		c.Hostile = n.tag
	case 2, 3:
		v := c25HostileValues[g.Intn(len(c25HostileValues))]
		if lineBreak(v.s) {
			break
		}
		c.Fields = append(c.Fields, e2e.HF{Name: "x-hv", Value: v.s})
		c.Hostile = v.tag
	case 4:
		p := c25HostilePseudo[g.Intn(len(c25HostilePseudo))]
		if lineBreak(p.s) {
			break
		}
		c.Hostile = p.tag
		switch p.what {
		case "method":
			c.Method = p.s
			c.Body = ""
		case "path":
			c.Target += p.s
		case "host":
			c.Host = p.s
		}
	}
	return c
}

func (c *c25Case) h1bytes() []byte {
	var sb strings.Builder
	fmt.Fprintf(&sb, "%s %s HTTP/1.1\r\nHost: %s\r\nX-Id: %s\r\n", c.Method, c.Target, c.Host, c.ID)
	for _, f := range c.Fields {
		fmt.Fprintf(&sb, "%s: %s\r\n", f.Name, f.Value)
	}
	if c.Body != "" {
		fmt.Fprintf(&sb, "Content-Length: %d\r\n", len(c.Body))
	}
	sb.WriteString("Connection: close\r\n\r\n")
	sb.WriteString(c.Body)
	return []byte(sb.String())
}

func (c *c25Case) send(srv *e2e.Server) string {
	switch c.Frontend {
	case "h1":
		conn, err := net.DialTimeout("tcp", srv.HTTPAddr, 5*time.Second)
		if err != nil {
			return "dial"
		}
		defer conn.Close()
		conn.SetDeadline(time.Now().Add(20 * time.Second))
		conn.Write(c.h1bytes())
		buf := make([]byte, 4096)
		var sb strings.Builder
		for {
			n, err := conn.Read(buf)
			sb.Write(buf[:n])
			if err != nil {
				break
			}
		}
		if s := sb.String(); len(s) >= 12 {
			return s[9:12]
		}
		return "empty"
	case "h2":
		fs := []e2e.HF{{Name: ":method", Value: c.Method}, {Name: ":scheme", Value: "https"}, {Name: ":authority", Value: c.Host}, {Name: ":path", Value: c.Target}, {Name: "x-id", Value: c.ID}}
		fs = append(fs, c.Fields...)
		r := e2e.H2Once(srv.HTTPSAddr, fs, []byte(c.Body), 20*time.Second)
		if r.Status != "" {
			return r.Status
		}
		if r.Reset {
			return "rst"
		}
		if r.GoAway {
			return "goaway"
		}
		return "err:" + errClass(r.Err)
	default:
		fs := []e2e.HF{{Name: ":method", Value: c.Method}, {Name: ":scheme", Value: "https"}, {Name: ":host", Value: c.Host}, {Name: ":path", Value: c.Target}, {Name: ":version", Value: "HTTP/1.1"}, {Name: "x-id", Value: c.ID}}
		fs = append(fs, c.Fields...)
		r := e2e.SpdyOnce(srv.HTTPSAddr, fs, []byte(c.Body), 20*time.Second)
		if r.Status != "" {
			if len(r.Status) >= 3 {
				return r.Status[:3]
			}
			return r.Status
		}
		if r.Reset {
			return "rst"
		}
		if r.GoAway {
			return "goaway"
		}
		return "err:" + errClass(r.Err)
	}
}

func errClass(e string) string {
	switch {
	case strings.Contains(e, "timeout"):
		return "timeout"
	case strings.Contains(e, "EOF"):
		return "eof"
	case strings.Contains(e, "reset"):
		return "reset"
	case strings.Contains(e, "dial"):
		return "dial"
	}
	if len(e) > 30 {
		e = e[:30]
	}
	return e
}

func c25NormValue(v string) string {
	v = strings.NewReplacer("\r", " ", "\n", " ").Replace(v)
	return strings.Trim(v, " \t")
}

func c25(r *vkit.Run) {
	r.SetRule("full in-process BFE (HTTP + HTTPS with ALPN h2 and spdy/3.1), backend keep-alive off so each forwarded request has its own backend connection whose complete byte stream is captured; requests arrive over HTTP/1.1 (raw bytes), HTTP/2 (x/net framer + HPACK literals with arbitrary name/value bytes) and SPDY/3.1 (raw header block), carrying benign fields plus one hostile ingredient: header names with CR LF / LF / space / colon / NUL / DEL / obs-text, values with CRLF / LF / CR / CRLFCRLF+second request / NUL / CTL / DEL / obs-text, and method / path / host pseudo-headers with embedded request lines; oracle = strict RFC 7230 reference parse of the backend byte stream: exactly one request consuming all bytes, then method/target/host/fields/body compared with what a harness filter saw bfe accept. Second family (byte-splice, c25bytes.go): requests carrying the usual proxy-chain fields (X-Forwarded-For/-Proto/-Host/-Port, X-Real-Ip, Cookie, User-Agent, Referer, Accept, Authorization, a custom field) with ONE hostile byte spliced at the start / middle / end of one position: Host (:authority, :host), the value of each of those fields, a header name, the path, the query, the method. Byte classes: bare CR, CR at the end (on HTTP/1 the wire carries CR CR LF), NUL, another CTL (0x01-0x08,0x0b,0x0c,0x0e-0x1f), DEL, obs-text (0x80-0xff), HTAB, SP; on HTTP/2 and SPDY also LF and CRLF. On HTTP/1 LF / CRLF are not generated: LF ends a line at the reader, it is message structure, not a byte of a value (likewise a header name starting with SP/HTAB is an obs-fold continuation, and on SPDY NUL is the separator of a value list). In the middle the rest of the ingredient is sometimes 'Injected: 1', so a reader taking the hostile byte as a line end sees an added field. Cells (frontend, position, class, place) are enumerated round-robin in a seed-dependent order; the seed picks the byte of a class, the offset, the method. Same oracle: a rejected request (nothing at the backend) is always fine; what is forwarded must be one well-formed request: CTLs / bare CR anywhere and obs-text outside field values (name, method) are not well-formed; obs-text, HTAB and SP inside a field value are (RFC 7230 3.2.6). One named exclusion: bytes >= 0x80 inside the request-target are judged only by byte equality with the accepted target, not as malformed (RFC 7230 3.1.1 only says SHOULD reject, 5.7.2 forbids a proxy to rewrite path/query). Host syntax beyond the field grammar is not judged. Non-trivial = hostile ingredient present and the request reached a backend; distinct = (frontend, hostile ingredient, method) resp. (frontend, position, class, place); the run is inconclusive if a (frontend, position, class) cell was never observed (counts per cell in byte_splice_cells). Third family (backend-connection streams under failure, c25stream.go): 16 clusters WITH backend keep-alive (MaxIdleConnsPerHost 8), each with a raw backend that records every octet per connection, reads each request by its declared Content-Length / chunking and replies EARLY (after the head / after k body octets; with and without a response body) or, as control, after the message; one scenario at a time per cluster: an upload over HTTP/1.1 (Content-Length or chunked) or HTTP/2 (with / without content-length) of which the client sends nothing of the body / up to the middle of the body / of a chunk / of a chunk-size line / up to a chunk boundary (control: everything, pausing in the middle), bodies of 10..300 B (stay in bfe's 512 B request buffer) or 4..20 KB; once bfe has the backend's response (HandleReadResponse filter - sequencing only, never a verdict) the client aborts by FIN / half-close / RST (HTTP/1), RST_STREAM / connection close / never continuing (HTTP/2); then 2-3 further requests (GET, POST) from other client connections to the same cluster after 0 / 15 / 60 ms. Cells (frontend, framing, stage, abort, early) enumerated round-robin. Oracle per BACKEND CONNECTION: the recorded octets must parse (strict reference parser) as a sequence of complete well-formed requests, each with one request marker and method / target / Host / body equal to what a client sent under that marker; only the LAST message of a connection may be incomplete; a request line of the family inside the body span of a message is a violation (backend-stream:request-after-truncated-body when that body was never delivered in full by its client, else backend-stream:body-contains-another-request), as are not-well-formed octets after a request, unknown markers, and a complete request whose body differs (backend-stream:body-differs:*). The oracle is self-tested on hand-made streams at start. Non-trivial (family 3) = bfe had the early reply, the client aborted, and a later request of the scenario was forwarded; inconclusive if that shape, a reused backend connection or a connection ending in a truncated message never occurred")
	r.Assume("bytes >= 0x80 in a forwarded request-target are not counted as malformed (judged by equality with the accepted target only); counted in target_obs_text_forwarded_*")
	bs := e2e.NewBackendSet()
	defer bs.Close()
	be := bs.New("b1", func(x *e2e.Exchange) e2e.Action {
		return e2e.Action{Status: 200, Body: []byte("ok"), Header: [][2]string{{"Connection", "close"}}, CloseAfter: true}
	})
	// backend-connection-stream family (c25stream.go): clusters WITH backend keep-alive, each with a raw early-reply backend
	stream, streamClusters, streamRules := c25sSetup()
	defer stream.close()
	srv, err := e2e.Start(&e2e.Options{HTTPS: true,
		TLSRule: `{"Version":"1","DefaultNextProtos":["h2","spdy/3.1","http/1.1"],"Config":{}}`,
		Clusters: append([]e2e.Cluster{{
			Name: "c25", Hosts: []string{"c25.test"}, MaxIdleConnsPerHost: 0,
			SubClusters: []e2e.SubCluster{{Name: "sub1", Weight: 100, Backends: []e2e.Backend{{Name: "b1", Addr: be.Addr, Port: be.Port, Weight: 10}}}},
		}}, streamClusters...),
		DefaultProduct: "p_c25",
		// any host (also hostile ones that fall to the default product) is routed to the backend
		Files: map[string]string{
			"server_data_conf/route_rule.data": `{"Version":"v1","ProductRule":{"p_c25":[` + streamRules + `,{"Cond":"default_t()","ClusterName":"c25"}]}}`,
		},
	})
	if err != nil {
		r.Inconclusive("server start: " + err.Error())
		return
	}
	defer srv.Close()
	stream.register(srv)
	var mu sync.Mutex
	accepted := map[string]*c25Accepted{}
	srv.Srv.CallBacks.AddFilter(bfe_module.HandleAfterLocation, func(req *bfe_basic.Request) (int, *bfe_http.Response) {
		h := req.HttpRequest
		id := h.Header.Get("X-Id")
		a := &c25Accepted{Method: h.Method, RequestURI: h.RequestURI, Host: h.Host, Header: map[string][]string{}}
		if h.URL != nil {
			a.Target = h.URL.RequestURI()
		}
		for k, vv := range h.Header {
			a.Header[k] = append([]string(nil), vv...)
		}
		mu.Lock()
		accepted[id] = a
		mu.Unlock()
		return bfe_module.BfeHandlerGoOn, nil
	})

	var cases []*c25Case
	if r.Replay != "" {
		var w struct {
			Case   c25Case   `json:"case"`
			Stream *c25sCase `json:"stream_case"`
		}
		if err := r.LoadReplay(&w); err != nil {
			r.Inconclusive(err.Error())
			return
		}
		r.SetMinDistinct(0)
		if w.Stream != nil {
			stream.run(r, srv, w.Stream)
			return
		}
		cases = append(cases, &w.Case)
	} else {
		n := r.N(1500, 60000)
		if v := os.Getenv("VERIF_DEBUG_N"); v != "" {
			fmt.Sscan(v, &n)
		}
		for i := 0; i < n; i++ {
			cases = append(cases, c25Gen(r.Rng("case", i), i))
		}
		// byte-splice family: cells (frontend, position, class, place) enumerated round-robin
		nb := r.N(1800, 60000)
		if v := os.Getenv("VERIF_DEBUG_NB"); v != "" {
			fmt.Sscan(v, &nb)
		}
		orders := c25Orders(r)
		for j := 0; j < nb; j++ {
			cases = append(cases, c25GenBytes(r.Rng("bytes", j), j, n, orders))
		}
	}
	status := make([]string, len(cases))
	vkit.Parallel(len(cases), 24, func(i int) { status[i] = cases[i].send(srv) })

	// map backend connections to cases by the id marker in the raw bytes. A backend
	// record is complete only when its connection has ended: settle (bounded) until
	// every request that was answered 2xx has a finished record. This is quiescence,
	// not a verdict: a record still missing afterwards is counted, not judged.
	nOK := 0
	for _, st := range status {
		if c25Outcome(st) == "ok" {
			nOK++
		}
	}
	conns := be.Snapshot()
	for try := 0; try < 100; try++ {
		done := 0
		for _, cr := range conns {
			if len(cr.Raw) > 0 {
				done++
			}
		}
		if done >= nOK {
			break
		}
		time.Sleep(50 * time.Millisecond)
		conns = be.Snapshot()
	}
	byID := map[string][]e2e.ConnRecord{}
	var unmarked []e2e.ConnRecord
	for _, cr := range conns {
		if id := c25Marker(cr.Raw); id != "" {
			byID[id] = append(byID[id], cr)
		} else if len(cr.Raw) > 0 {
			r.Count("backend_connections_without_marker", 1)
			unmarked = append(unmarked, cr)
		}
	}
	mu.Lock()
	defer mu.Unlock()
	// unattributable backend bytes are still judged for well-formedness
	for _, cr := range unmarked {
		if _, n, rej := http1.ParseRequest(cr.Raw); rej != nil || n != len(cr.Raw) {
			r.Violation("forwarded:not-well-formed:backend-bytes-without-request-marker", fmt.Sprintf("a backend connection received bytes that carry no request marker and are not one well-formed request: %q", clip(string(cr.Raw), 300)), map[string]interface{}{"backend_bytes": string(cr.Raw)})
		}
	}
	nSampleLegacy := 0
	cells := map[string]map[string]int64{} // byte-splice family: "frontend|position|class" -> outcome -> n
	for i, c := range cases {
		r.Count("frontend_"+c.Frontend+"_status_"+status[i], 1)
		crs := byID[c.ID]
		key := c.Frontend + "|" + c.Hostile + "|" + strings.SplitN(c.Method, " ", 2)[0]
		if c.Pos != "" {
			key = c.Frontend + "|" + c.Hostile + "|" + c.Place
			out := c25Outcome(status[i])
			if len(crs) > 0 {
				out = "fwd"
			} else if out == "ok" {
				out = "ok-without-backend-record"
			}
			ck := c.Frontend + "|" + c.Pos + "|" + c.Class
			if cells[ck] == nil {
				cells[ck] = map[string]int64{}
			}
			cells[ck][out]++
			r.Count("bytes_"+c.Frontend+"_class_"+c.Class+"_"+out, 1)
			r.Count("bytes_"+c.Frontend+"_pos_"+c.Pos+"_"+out, 1)
			r.Count("bytes_"+c.Frontend+"_place_"+c.Place+"_"+out, 1)
			r.Count("bytes_"+c.Frontend+"_"+out, 1)
		} else {
			r.Count("by_"+c.Frontend+"_"+c.Hostile+"_"+status[i], 1)
		}
		if len(crs) == 0 {
			r.CaseS(key, false)
			r.Count("rejected_or_not_forwarded_"+c.Frontend, 1)
			if c25Outcome(status[i]) == "ok" {
				r.Count("ok_status_without_backend_record", 1)
			}
			continue
		}
		r.CaseS(key, c.Hostile != "none")
		r.Count("forwarded_"+c.Frontend, 1)
		acc := accepted[c.ID]
		w := map[string]interface{}{"case": c, "client_status": status[i], "accepted": acc}
		sigp := c.Frontend + ":" + c.Hostile
		if len(crs) > 1 {
			r.Violation("forwarded:more-than-one-backend-connection:"+sigp, fmt.Sprintf("%d backend connections carry the marker of one request", len(crs)), w)
		}
		raw := crs[0].Raw
		w["backend_bytes"] = string(raw)
		req, n, rej, obsTarget := c25ParseBackend(raw)
		if obsTarget {
			r.Count("target_obs_text_forwarded_"+c.Frontend+"_judged_by_equality_only", 1)
		}
		if rej != nil {
			r.Violation("forwarded:not-well-formed:"+rej.Class+":"+sigp, fmt.Sprintf("backend byte stream rejected by the strict parser: %v", rej), w)
			continue
		}
		if n != len(raw) {
			r.Violation("forwarded:extra-bytes-after-request:"+sigp, fmt.Sprintf("%d bytes follow the first request on the backend connection: %q", len(raw)-n, clip(string(raw[n:]), 200)), w)
		}
		for _, f := range req.Fields {
			if strings.EqualFold(f.Name, "Injected") {
				r.Violation("forwarded:injected-header-field:"+sigp, "a client-supplied name/value created the header field 'Injected' at the backend", w)
			}
		}
		if acc == nil {
			r.Count("forwarded_without_accept_log", 1)
			continue
		}
		if req.Method != acc.Method {
			r.Violation("forwarded:method-differs:"+sigp, fmt.Sprintf("backend method %q, accepted %q", req.Method, acc.Method), w)
		}
		if req.Target != acc.RequestURI && req.Target != acc.Target {
			r.Violation("forwarded:target-differs:"+sigp, fmt.Sprintf("backend target %q, accepted %q (RequestURI) / %q (URL)", req.Target, acc.RequestURI, acc.Target), w)
		}
		// every backend field must come from the accepted request or be one bfe adds for its own hop
		used := map[string]int{}
		for _, f := range req.Fields {
			ck := bfe_http.CanonicalHeaderKey(f.Name)
			switch ck {
			case "Host":
				// OWS around a field value is not part of the value (RFC 7230 3.2.4)
				if f.Value != acc.Host && f.Value != c25NormValue(acc.Host) {
					r.Violation("forwarded:host-differs:"+sigp, fmt.Sprintf("backend Host %q, accepted %q", f.Value, acc.Host), w)
				}
				continue
			case "Content-Length", "Transfer-Encoding", "Connection", "User-Agent", "Accept-Encoding":
				if _, ok := acc.Header[ck]; !ok {
					continue // added by bfe for its own hop
				}
			}
			vals, ok := acc.Header[f.Name]
			if !ok {
				vals, ok = acc.Header[ck]
			}
			found := false
			for _, v := range vals {
				if c25NormValue(v) == f.Value {
					found = true
				}
			}
			if !ok || !found {
				if ck == "Content-Length" || ck == "Transfer-Encoding" || ck == "Connection" {
					continue
				}
				r.Violation("forwarded:field-not-in-accepted-request:"+sigp, fmt.Sprintf("backend field %q: %q is not a field of the accepted request", f.Name, f.Value), w)
				continue
			}
			used[ck]++
		}
		if string(req.Body) != c.Body && c.Hostile != "method-inject" {
			r.Violation("forwarded:body-differs:"+sigp, fmt.Sprintf("backend body %q, client sent %q", clip(string(req.Body), 100), clip(c.Body, 100)), w)
		}
		// samples: half from the ingredient corpus, half from the byte-splice family
		if r.WantSample() && c.Hostile != "none" {
			if c.Pos == "" && nSampleLegacy < 3 {
				nSampleLegacy++
				r.Sample(w)
			} else if c.Pos != "" {
				r.Sample(w)
			}
		}
	}
	if r.Replay == "" {
		mu.Unlock() // the accept filter runs for the stream family's requests too
		stream.run(r, srv, nil)
		mu.Lock()
	}
	for k, v := range e2e_panics(srv) {
		if v != 0 {
			r.Violation("panic-counter:"+k, fmt.Sprintf("%s=%d", k, v), nil)
		}
	}
	if r.Replay == "" {
		r.Extra("byte_splice_cells", cells)
		for _, fe := range []string{"h1", "h2", "spdy"} {
			missing := 0
			for _, p := range c25Positions() {
				for _, cl := range c25Classes(fe) {
					m := cells[fe+"|"+p+"|"+cl]
					if m["fwd"]+m["rej"] == 0 {
						missing++
						if missing <= 3 {
							r.Inconclusive(fmt.Sprintf("byte-splice cell never observed: frontend %s, position %s, class %s (%v)", fe, p, cl, m))
						}
					}
				}
			}
			r.Count("bytes_cells_never_observed_"+fe, int64(missing))
			// the family is supposed to reach both outcomes on every frontend
			// (obs-text / HTAB / SP inside values are legal and forwarded; CTLs are not)
			if r.Counter("bytes_"+fe+"_fwd") == 0 || r.Counter("bytes_"+fe+"_rej") == 0 {
				r.Inconclusive("byte-splice family: frontend " + fe + " never reached both outcomes (forwarded and rejected)")
			}
		}
	}
	if r.Replay == "" && (r.Counter("forwarded_h1") == 0 || r.Counter("forwarded_h2") == 0 || r.Counter("forwarded_spdy") == 0) {
		r.Inconclusive("a frontend never forwarded a request")
	}
}

// c25ParseBackend is the strict reference parse with ONE named exclusion: bytes
// >= 0x80 inside the request-target. RFC 3986 has no such bytes, so the strict
// parser calls the request line invalid; but RFC 7230 only says a recipient
// SHOULD answer 400 to such a request line (3.1.1) while a proxy MUST NOT rewrite
// path and query of a target it forwards (5.7.2), so "accept and forward the
// target unchanged" is a sanctioned behaviour, and such bytes can neither end the
// line nor the target. They are therefore judged only by the equality check
// (backend target == accepted target, byte for byte). The exclusion is applied
// to the target span only (between the first and second SP of the first line):
// obs-text in the method or version is still rejected.
func c25ParseBackend(raw []byte) (req *http1.Request, n int, rej *http1.RejectError, obsTarget bool) {
	req, n, rej = http1.ParseRequest(raw)
	if rej == nil || rej.Class != http1.RequestLineTarget || rej.Offset >= len(raw) || raw[rej.Offset] < 0x80 {
		return req, n, rej, false
	}
	eol := strings.Index(string(raw), "\r\n")
	if eol < 0 {
		return req, n, rej, false
	}
	s1 := strings.IndexByte(string(raw[:eol]), ' ')
	if s1 < 0 {
		return req, n, rej, false
	}
	s2 := strings.IndexByte(string(raw[s1+1:eol]), ' ')
	if s2 < 0 {
		return req, n, rej, false
	}
	s2 += s1 + 1
	cp := append([]byte(nil), raw...)
	for i := s1 + 1; i < s2; i++ {
		if cp[i] >= 0x80 {
			cp[i] = 'x'
		}
	}
	req, n, rej = http1.ParseRequest(cp)
	if rej == nil {
		req.Target = string(raw[s1+1 : s2])
	}
	return req, n, rej, true
}

var c25MarkerRe = regexp.MustCompile(`/c25/(q[0-9]+z)|(?i:\nx-id:[ \t]*)(q[0-9]+z)`)

// c25Marker finds the request id in backend bytes: in the target or in the X-Id field.
func c25Marker(raw []byte) string {
	m := c25MarkerRe.FindSubmatch(raw)
	if m == nil {
		return ""
	}
	if len(m[1]) > 0 {
		return string(m[1])
	}
	return string(m[2])
}

func clip(s string, n int) string {
	if len(s) > n {
		return s[:n] + "..."
	}
	return s
}
