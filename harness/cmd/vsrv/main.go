// vsrv decides the end-to-end proxy properties by running a complete BFE
// server in-process against scripted backends and raw clients.
package main

import (
	"fmt"
	"os"

	"verifharness/vkit"
)

var checks = map[string]struct {
	level string
	fn    func(*vkit.Run)
}{
	"C26": {"exploration", c26},
	"C48": {"exploration", c48},
	"C07": {"exploration", c07},
	"C08": {"fault_enumeration", c08},
	"C29": {"exploration", c29},
	"C15": {"exploration", c15},
	"C25": {"exploration", c25},
	"C27": {"exploration", c27},
	"C28": {"exploration", c28},
	"C47": {"exploration", c47},
	"C54": {"exploration", c54},
}

func main() {
	// level depends on the property: peek at -prop before Start
	prop := ""
	for i, a := range os.Args {
		if a == "-prop" && i+1 < len(os.Args) {
			prop = os.Args[i+1]
		}
	}
	c, ok := checks[prop]
	if !ok {
		fmt.Fprintln(os.Stderr, "vsrv: unknown property", prop)
		os.Exit(vkit.ExitInconclusive)
	}
	r := vkit.Start(c.level)
	c.fn(r)
	r.Finish()
}
