package main

import (
	"bufio"
	"bytes"
	"fmt"
	"io"
	"net"
	"net/http"
	"os"
	"strconv"
	"strings"
	"sync"
	"syscall"
	"time"

	"verifharness/e2e"
	"verifharness/vkit"
)

// C27, streamed responses to slow clients. A response without Content-Length that goes
// through bfe's periodic flusher (cluster ResFlushInterval > 0, or the request carries
// "Accept: text/event-stream") is written by two goroutines: the copy loop and the
// tick-driven flusher. The property (exactly one well-framed response whose body equals
// the backend body) has to hold whatever the client's reading speed is, in particular
// when bfe's writes to the client block. The cases below add that axis; the oracle is
// the unchanged one of c27.go (the judged object is the client byte stream).
//
// All timing here (pauses of the backend, stalls of the client) only selects which
// interleaving is provoked; no verdict depends on a clock.

type c27Stream struct {
	Family  string `json:"family"`   // brim | sweep | sse-brim | mix
	Host    string `json:"host"`     // s0 s1 s5 s20: cluster with ResFlushInterval 0/1/5/20 ms
	FlushMs int    `json:"flush_ms"` // of the cluster
	SSE     bool   `json:"sse"`      // request carries Accept: text/event-stream (flush interval 1 s when the cluster has none)
	// backend: Bulk bytes at once, then Pieces x Piece bytes each followed by PauseMs, FinalPauseMs before the end of the body
	Bulk         int `json:"bulk"`
	Pieces       int `json:"pieces"`
	Piece        int `json:"piece"`
	PauseMs      int `json:"pause_ms"`
	FinalPauseMs int `json:"final_pause_ms"`
	// client socket and reading behaviour
	RcvBuf      int    `json:"rcvbuf"` // SO_RCVBUF set before connect (0 = default)
	MSS         int    `json:"mss"`    // TCP_MAXSEG set before connect (0 = default); a small MSS keeps bfe's send buffer small
	Client      string `json:"client"` // drain-after-backend-done | stall | slow | stall-mid | fast
	StallMs     int    `json:"stall_ms"`
	ReadSize    int    `json:"read_size"`
	ReadSleepMs int    `json:"read_sleep_ms"`
	SlowBytes   int    `json:"slow_bytes"` // slow: bytes read slowly before draining at full speed; stall-mid: bytes read before the stall
}

func (s *c27Stream) total() int { return s.Bulk + s.Pieces*s.Piece }

func (s *c27Stream) key() string {
	return fmt.Sprintf("%s|%s|sse=%v|%d+%dx%d/%d/%d|rb%d|mss%d|%s|%d|%d|%d|%d", s.Family, s.Host, s.SSE, s.Bulk, s.Pieces, s.Piece, s.PauseMs, s.FinalPauseMs,
		s.RcvBuf, s.MSS, s.Client, s.StallMs, s.ReadSize, s.ReadSleepMs, s.SlowBytes)
}

// c27StreamRequest renders the request of a stream case (plus the pipelined probe for HTTP/1.1).
func c27StreamRequest(c *c27Case) []byte {
	s := c.Stream
	var sb strings.Builder
	fmt.Fprintf(&sb, "GET /c27/%s HTTP/1.%d\r\nHost: %s.c27.test\r\nX-Id: %s\r\nX-Sframe: %s\r\nX-Bulk: %d\r\nX-Pieces: %d\r\nX-Piece: %d\r\nX-Pause: %d\r\nX-Finalpause: %d\r\n",
		c.ID, c.Minor, s.Host, c.ID, c.Frame, s.Bulk, s.Pieces, s.Piece, s.PauseMs, s.FinalPauseMs)
	if s.SSE {
		sb.WriteString("Accept: text/event-stream\r\n")
	}
	sb.WriteString("\r\n")
	if c.Minor == 1 {
		// the probe is only pipelined when the connection is expected to stay open: unread bytes
		// at a closing server turn its FIN into a RST, which could cost the client the response tail
		fmt.Fprintf(&sb, "GET /c27/probe-%s HTTP/1.1\r\nHost: %s.c27.test\r\nX-Id: probe-%s\r\nConnection: close\r\n\r\n", c.ID, s.Host, c.ID)
	}
	return []byte(sb.String())
}

// c27StreamBackend is a raw scripted origin that writes a body in pieces with pauses.
type c27StreamBackend struct {
	ln   net.Listener
	Addr string
	Port int
	mu   sync.Mutex
	done map[string]chan struct{}
}

func newC27StreamBackend() (*c27StreamBackend, error) {
	ln, err := net.Listen("tcp", "127.0.0.1:0")
	if err != nil {
		return nil, err
	}
	b := &c27StreamBackend{ln: ln, done: map[string]chan struct{}{}}
	a := ln.Addr().(*net.TCPAddr)
	b.Addr, b.Port = "127.0.0.1", a.Port
	go func() {
		for {
			c, err := ln.Accept()
			if err != nil {
				return
			}
			go b.serve(c)
		}
	}()
	return b, nil
}

func (b *c27StreamBackend) doneCh(id string) chan struct{} {
	b.mu.Lock()
	defer b.mu.Unlock()
	ch := b.done[id]
	if ch == nil {
		ch = make(chan struct{})
		b.done[id] = ch
	}
	return ch
}

func (b *c27StreamBackend) serve(c net.Conn) {
	defer c.Close()
	c.SetDeadline(time.Now().Add(120 * time.Second))
	req, err := http.ReadRequest(bufio.NewReader(c))
	if err != nil {
		return
	}
	h := req.Header
	id := h.Get("X-Id")
	if strings.HasPrefix(id, "probe") {
		body := "probe-ok " + id
		fmt.Fprintf(c, "HTTP/1.1 200 OK\r\nContent-Length: %d\r\n\r\n%s", len(body), body)
		return
	}
	ch := b.doneCh(id)
	defer func() {
		select {
		case <-ch:
		default:
			close(ch)
		}
	}()
	atoi := func(k string) int { v, _ := strconv.Atoi(h.Get(k)); return v }
	bulk, pieces, piece, pause, finalPause := atoi("X-Bulk"), atoi("X-Pieces"), atoi("X-Piece"), atoi("X-Pause"), atoi("X-Finalpause")
	chunkedBody := h.Get("X-Sframe") == "chunked"
	body := c27Body(id, bulk+pieces*piece)
	var w bytes.Buffer
	fmt.Fprintf(&w, "HTTP/1.1 200 Status200\r\nX-Case: %s\r\nContent-Type: text/x-c27\r\n", id)
	if chunkedBody {
		w.WriteString("Transfer-Encoding: chunked\r\n")
	}
	w.WriteString("\r\n")
	part := func(p []byte) {
		if len(p) == 0 {
			return
		}
		if chunkedBody {
			fmt.Fprintf(&w, "%x\r\n", len(p))
			w.Write(p)
			w.WriteString("\r\n")
		} else {
			w.Write(p)
		}
	}
	part(body[:bulk])
	if _, err := c.Write(w.Bytes()); err != nil {
		return
	}
	off := bulk
	for i := 0; i < pieces; i++ {
		if i > 0 || bulk > 0 {
			time.Sleep(time.Duration(pause) * time.Millisecond)
		}
		w.Reset()
		part(body[off : off+piece])
		off += piece
		if _, err := c.Write(w.Bytes()); err != nil {
			return
		}
	}
	time.Sleep(time.Duration(finalPause) * time.Millisecond)
	if chunkedBody {
		if _, err := c.Write([]byte("0\r\n\r\n")); err != nil {
			return
		}
	}
	if tc, ok := c.(*net.TCPConn); ok {
		tc.CloseWrite()
	}
}

// c27DoneWaitCap bounds how long a drain-after-backend-done client waits for the backend: the
// backend of a body that does not fit into the socket buffers cannot finish before the client reads.
func c27DoneWaitCap(s *c27Stream) time.Duration {
	if s.total() > 200000 {
		return 1500 * time.Millisecond
	}
	return 15 * time.Second
}

// Fresh loopback source addresses. How much a stalled peer lets a Linux sender queue depends on
// the metrics the kernel caches per destination address (tcp_metrics: reordering, ssthresh); on a
// busy machine the entry of 127.0.0.1 drifts (the capacity was seen to move between 29 KB and
// 131 KB within an hour). Every stream client therefore connects from its own address out of
// 127.64.0.0/10, for which no cached entry exists. The address is not part of the case.
var c27SrcNonce = uint32(time.Now().UnixNano()/1000) ^ uint32(os.Getpid())<<12

func c27SrcAddr(k int) *net.TCPAddr {
	v := c27SrcNonce + uint32(k)
	return &net.TCPAddr{IP: net.IPv4(127, 64+byte(v>>16)%60, byte(v>>8), byte(v))}
}

func c27SockOpts(rcvbuf, mss int) func(network, address string, c syscall.RawConn) error {
	return func(network, address string, c syscall.RawConn) error {
		return c.Control(func(fd uintptr) {
			if rcvbuf > 0 {
				syscall.SetsockoptInt(int(fd), syscall.SOL_SOCKET, syscall.SO_RCVBUF, rcvbuf)
			}
			if mss > 0 {
				syscall.SetsockoptInt(int(fd), syscall.IPPROTO_TCP, syscall.TCP_MAXSEG, mss)
			}
		})
	}
}

// c27StallCapacity measures, on this kernel, how many bytes a sender can hand to a loopback
// connection whose peer (with the given socket options) never reads. It is used for the
// evidence only (was a blocked write provoked?), never for a verdict.
func c27StallCapacity(rcvbuf, mss int) int {
	ln, err := net.Listen("tcp", "127.0.0.1:0")
	if err != nil {
		return -1
	}
	defer ln.Close()
	acc := make(chan net.Conn, 1)
	go func() {
		c, _ := ln.Accept()
		acc <- c
	}()
	d := net.Dialer{Timeout: 5 * time.Second, LocalAddr: c27SrcAddr(-1), Control: c27SockOpts(rcvbuf, mss)}
	cl, err := d.Dial("tcp", ln.Addr().String())
	if err != nil {
		return -1
	}
	defer cl.Close()
	s := <-acc
	if s == nil {
		return -1
	}
	defer s.Close()
	// same pacing as the "brim" family (the amount a stalled peer lets the sender queue depends on it):
	// one block, then small pieces a millisecond apart; beyond 64 KB just fill up
	total := 0
	write := func(n int) bool {
		s.SetWriteDeadline(time.Now().Add(400 * time.Millisecond))
		m, err := s.Write(make([]byte, n))
		total += m
		return err == nil
	}
	if !write(c27BrimBulk + 200) {
		return total
	}
	for total < 64<<10 {
		if !write(c27BrimPiece + 7) {
			return total
		}
		time.Sleep(time.Millisecond)
	}
	for total < 64<<20 && write(1000) {
	}
	return total
}

// c27StreamClient plays the client of one stream case and returns the bytes it received and
// whether the stream ended with a clean EOF. firstRead reports whether the backend had already
// finished the body when the client read its first byte.
func c27StreamClient(addr string, k int, c *c27Case, done <-chan struct{}) (raw []byte, eof bool, backendDoneBeforeFirstRead bool) {
	s := c.Stream
	d := net.Dialer{Timeout: 10 * time.Second, LocalAddr: c27SrcAddr(k), Control: c27SockOpts(s.RcvBuf, s.MSS)}
	conn, err := d.Dial("tcp", addr)
	if err != nil {
		return nil, false, false
	}
	defer conn.Close()
	conn.SetDeadline(time.Now().Add(60 * time.Second))
	if _, err := conn.Write(c27StreamRequest(c)); err != nil {
		return nil, false, false
	}
	var buf bytes.Buffer
	isDone := func() bool {
		select {
		case <-done:
			return true
		default:
			return false
		}
	}
	readN := func(limit, size, sleepMs int) error {
		p := make([]byte, size)
		for buf.Len() < limit {
			n, err := conn.Read(p)
			buf.Write(p[:n])
			if err != nil {
				return err
			}
			if sleepMs > 0 {
				time.Sleep(time.Duration(sleepMs) * time.Millisecond)
			}
		}
		return nil
	}
	var rerr error
	switch s.Client {
	case "drain-after-backend-done":
		select {
		case <-done:
		case <-time.After(c27DoneWaitCap(s)):
		}
		time.Sleep(time.Duration(s.StallMs) * time.Millisecond)
		backendDoneBeforeFirstRead = isDone()
	case "stall":
		time.Sleep(time.Duration(s.StallMs) * time.Millisecond)
		backendDoneBeforeFirstRead = isDone()
	case "slow":
		rerr = readN(s.SlowBytes, s.ReadSize, s.ReadSleepMs)
	case "stall-mid":
		rerr = readN(s.SlowBytes, s.ReadSize, 0)
		if rerr == nil {
			time.Sleep(time.Duration(s.StallMs) * time.Millisecond)
		}
	}
	if rerr == nil {
		_, rerr = io.Copy(&buf, conn)
	}
	if rerr == io.EOF {
		rerr = nil
	}
	return buf.Bytes(), rerr == nil, backendDoneBeforeFirstRead
}

// How the families provoke a blocked write. A stalled client with MSS 536 / SO_RCVBUF 1024 lets
// bfe hand about 29 KB to the kernel before a write blocks (measured per run for the evidence, see
// c27StallCapacity; the case list does not depend on the measurement and covers 18..46 KB).
//
//	brim      the backend sends 18 KB at once and then K pieces of 400 bytes, K = 1..70, each after a
//	          pause longer than the flush interval. bfe keeps a piece that small in its 512-byte
//	          response buffer until the next tick, so it is the tick-driven flusher (not the copy
//	          loop) that writes it to the client, and for the K at which the socket becomes full it is
//	          the flush of the LAST piece that blocks: the body then ENDS while that flush is blocked.
//	sweep     the same idea with 3000-byte pieces, which bfe's copy loop writes through directly: here
//	          the copy loop blocks.
//	sse-brim  Accept: text/event-stream without a cluster flush interval (tick = 1 s): K pieces of 400
//	          bytes in quick succession; the last partial buffer is written by the 1 s tick.
const (
	c27SweepRcvBuf = 1024
	c27SweepMSS    = 536
	c27SweepPiece  = 3000
	c27SweepLo     = 14000
	c27SweepHi     = 50000
	c27BrimBulk    = 18000
	c27BrimPiece   = 400
	c27BrimMaxK    = 70
)

func c27StreamCases(r *vkit.Run) []*c27Case {
	var out []*c27Case
	n := 0
	add := func(minor int, frame string, s c27Stream) {
		sc := s
		out = append(out, &c27Case{ID: fmt.Sprintf("s%d", n), Method: "GET", Minor: minor, Source: "backend", Status: 200, Blen: s.total(), Frame: frame, Stream: &sc})
		n++
	}
	flushOf := map[string]int{"s0": 0, "s1": 1, "s5": 5, "s20": 20}
	// family "brim": periodic flush 1/5/20 ms, both backend framings
	reps := r.N(2, 6)
	for rep := 0; rep < reps; rep++ {
		g := r.Rng("stream-brim", rep)
		for _, host := range []string{"s1", "s5", "s20"} {
			fl := flushOf[host]
			for _, frame := range []string{"chunked", "close"} {
				offset := g.Intn(c27BrimPiece)
				for k := 1; k <= c27BrimMaxK; k++ {
					minor := 1
					if g.Chance(1, 8) {
						minor = 0
					}
					add(minor, frame, c27Stream{Family: "brim", Host: host, FlushMs: fl, Bulk: c27BrimBulk + offset, Pieces: k, Piece: c27BrimPiece,
						PauseMs: fl + fl/2 + 3, FinalPauseMs: 4*fl + 15, RcvBuf: c27SweepRcvBuf, MSS: c27SweepMSS,
						Client: "drain-after-backend-done", StallMs: 3*fl + 20})
				}
			}
		}
	}
	// family "sweep": 3000-byte pieces
	{
		g := r.Rng("stream-sweep")
		for _, host := range []string{"s1", "s5", "s20"} {
			fl := flushOf[host]
			for _, frame := range []string{"chunked", "close"} {
				offset := g.Intn(c27SweepPiece)
				for total := c27SweepLo + offset; total <= c27SweepHi; total += c27SweepPiece {
					add(1, frame, c27Stream{Family: "sweep", Host: host, FlushMs: fl, Bulk: total - 3*c27SweepPiece, Pieces: 3, Piece: c27SweepPiece,
						PauseMs: 3*fl + 4, FinalPauseMs: 4*fl + 15, RcvBuf: c27SweepRcvBuf, MSS: c27SweepMSS,
						Client: "drain-after-backend-done", StallMs: 3*fl + 20})
				}
			}
		}
	}
	// family "sse-brim": Accept: text/event-stream on a cluster without flush interval (bfe then flushes every second)
	{
		g := r.Rng("stream-sse-brim")
		for _, frame := range []string{"chunked", "close"} {
			offset := g.Intn(c27BrimPiece)
			for k := 30; k <= 100; k++ {
				add(1, frame, c27Stream{Family: "sse-brim", Host: "s0", SSE: true, Bulk: offset, Pieces: k, Piece: c27BrimPiece,
					PauseMs: 2, FinalPauseMs: 1250, RcvBuf: c27SweepRcvBuf, MSS: c27SweepMSS, Client: "drain-after-backend-done", StallMs: 30})
			}
		}
	}
	// family "mix": seeded combinations of flush mode, body size (a few KB .. several MB), piece pattern and client behaviour
	m := r.N(90, 700)
	for i := 0; i < m; i++ {
		g := r.Rng("stream-mix", i)
		s := c27Stream{Family: "mix"}
		s.Host = []string{"s1", "s5", "s20", "s0", "s5"}[i%5]
		s.FlushMs = flushOf[s.Host]
		s.SSE = s.Host == "s0" || (i%5 == 4)
		switch g.Intn(6) {
		case 0, 1: // a few KB
			s.Bulk = g.Range(0, 6000)
			s.Pieces, s.Piece = g.Range(2, 8), g.Range(50, 2000)
		case 2, 3: // tens to hundreds of KB
			s.Bulk = g.Range(8000, 250000)
			s.Pieces, s.Piece = g.Range(2, 8), g.Range(100, 4000)
		case 4: // around the stall capacity of a small-MSS client
			s.Bulk = g.Range(16000, 40000)
			s.Pieces, s.Piece = g.Range(1, 4), g.Range(500, 3500)
		default: // several MB
			s.Bulk = g.Range(1<<20, 4<<20)
			s.Pieces, s.Piece = g.Range(2, 6), g.Range(1000, 65536)
		}
		s.PauseMs = g.Range(1, 3*s.FlushMs+6)
		s.FinalPauseMs = g.Range(0, 4*s.FlushMs+20)
		if s.SSE && s.FlushMs == 0 && g.Chance(1, 3) {
			s.Pieces, s.PauseMs, s.FinalPauseMs = g.Range(1, 2), g.Range(600, 1200), g.Range(0, 1300)
		}
		s.RcvBuf = []int{1024, 4096, 65536, 0}[g.Intn(4)]
		s.MSS = []int{536, 536, 1400, 0}[g.Intn(4)]
		s.Client = []string{"drain-after-backend-done", "stall", "slow", "stall-mid", "fast"}[g.Intn(5)]
		switch s.Client {
		case "drain-after-backend-done":
			s.StallMs = g.Range(5, 3*s.FlushMs+40)
		case "stall":
			s.StallMs = g.Range(50, 400)
		case "slow":
			s.ReadSize, s.ReadSleepMs, s.SlowBytes = g.Range(256, 4096), g.Range(1, 3), g.Range(4096, 131072)
		case "stall-mid":
			s.ReadSize, s.SlowBytes, s.StallMs = g.Range(256, 4096), g.Range(1000, 65536), g.Range(50, 400)
		}
		if s.SlowBytes > s.total() {
			s.SlowBytes = s.total() / 2
		}
		minor := 1
		if g.Chance(1, 4) {
			minor = 0
		}
		add(minor, []string{"chunked", "close"}[g.Intn(2)], s)
	}
	return out
}

// c27StreamClusters are the clusters of the stream cases (all on the one stream backend).
func c27StreamClusters(b *c27StreamBackend) []e2e.Cluster {
	var cs []e2e.Cluster
	for _, f := range []int{0, 1, 5, 20} {
		name := fmt.Sprintf("c27s%d", f)
		cs = append(cs, e2e.Cluster{
			Name: name, Hosts: []string{fmt.Sprintf("s%d.c27.test", f)}, MaxIdleConnsPerHost: 0, ResFlushInterval: f,
			TimeoutConnSrv: 10000, TimeoutResponseHeader: 20000,
			SubClusters: []e2e.SubCluster{{Name: "sub1", Weight: 100, Backends: []e2e.Backend{{Name: "sb", Addr: b.Addr, Port: b.Port, Weight: 10}}}},
		})
	}
	return cs
}

// c27RunStream runs the stream cases (all at once: they mostly sleep) and fills raws/eofs.
func c27RunStream(r *vkit.Run, addr string, b *c27StreamBackend, cases []*c27Case, idx []int, raws [][]byte, eofs []bool) int {
	if len(idx) == 0 {
		return 0
	}
	t0 := time.Now()
	defer func() { r.Extra("stream_phase_wall_s", time.Since(t0).Seconds()) }()
	capacity := c27StallCapacity(c27SweepRcvBuf, c27SweepMSS)
	r.Extra("stream_measured_stall_capacity_bytes_mss536_rcvbuf1024", capacity)
	doneFirst := make([]bool, len(cases))
	durs := make([]time.Duration, len(cases))
	workers := len(idx)
	if workers > 1600 {
		workers = 1600 // thorough: bounded number of simultaneous connections (4 descriptors per case)
	}
	vkit.Parallel(len(idx), workers, func(k int) {
		i := idx[k]
		c := cases[i]
		// spread the connection set-ups (to bfe, and from bfe to the backend) over about a second:
		// a burst larger than the listen backlog costs SYN retransmissions and backend connect timeouts
		time.Sleep(time.Duration(k%workers) * 700 * time.Microsecond)
		t1 := time.Now()
		raws[i], eofs[i], doneFirst[i] = c27StreamClient(addr, k, c, b.doneCh(c.ID))
		durs[i] = time.Since(t1)
	})
	slowest := idx[0]
	for _, i := range idx {
		if durs[i] > durs[slowest] {
			slowest = i
		}
	}
	r.Extra("stream_slowest_case", fmt.Sprintf("%.1fs %s", durs[slowest].Seconds(), cases[slowest].Stream.key()))
	for _, i := range idx {
		c := cases[i]
		s := c.Stream
		r.Count("stream_cases_"+s.Family, 1)
		fl := fmt.Sprintf("stream_flush_%dms", s.FlushMs)
		if s.SSE {
			fl += "+sse"
		}
		r.Count(fl, 1)
		r.Count("stream_client_"+s.Client, 1)
		r.Count("stream_backend_framing_"+c.Frame, 1)
		r.Count("stream_client_bytes", int64(len(raws[i])))
		if s.total() >= 1<<20 {
			r.Count("stream_bodies_of_1MB_or_more", 1)
		}
		if !eofs[i] {
			continue
		}
		// evidence: did the client keep bfe's writes blocked? At the client's first read at most
		// `capacity` bytes can have left bfe; if the backend had finished by then and the response
		// is larger, bfe was sitting in a blocked write (or queued behind one).
		if doneFirst[i] && capacity > 0 && s.RcvBuf == c27SweepRcvBuf && s.MSS == c27SweepMSS && len(raws[i]) > capacity+4096 {
			r.Count("stream_bfe_write_blocked_when_backend_body_ended", 1)
		}
	}
	return capacity
}
