package main

import (
	"bytes"
	"net"
	"strconv"
	"strings"
	"sync"
	"time"
)

// rawBackend is a scripted HTTP/1.1 origin that, unlike e2e.BackendServer, can
// answer a request EARLY: as soon as it has the request head, or after k octets
// of the body, while it goes on reading the request by its declared framing
// (Content-Length / chunked) and keeps the connection open for the next
// request. Every octet received on a connection is recorded in arrival order;
// the oracles work on these records, never on what this reader made of them.
// (Used by the C25 backend-stream family and the C28 chunk-defect family.)

type rawHead struct {
	ConnID  int
	OnConn  int // index of the request on its connection
	Method  string
	Target  string
	Fields  [][2]string
	Chunked bool
	CL      int64 // -1: none
}

func (h *rawHead) Get(name string) string {
	for _, f := range h.Fields {
		if strings.EqualFold(f[0], name) {
			return f[1]
		}
	}
	return ""
}

// rawPlan says when and what the backend replies to one request.
type rawPlan struct {
	ReplyAfter int    // octets of body data read before the reply is written; 0 = right after the head; < 0 = after the complete message
	Resp       []byte // the response, written verbatim
	Close      bool   // close the connection after the message has been read and answered
}

type rawConnRec struct {
	ID     int
	Raw    []byte // every octet received, in order
	Heads  int    // request heads this reader recognised
	End    string // why the reader stopped: "" (still open), "eof", "read-error", "bad-head", "bad-chunk", "closed-by-plan"
	conn   net.Conn
	closed bool
}

type rawBackend struct {
	Addr string
	Port int
	ln   net.Listener
	// OnHead decides the reply for a request head; nil => 200 after the complete message.
	OnHead func(h *rawHead) rawPlan

	mu    sync.Mutex
	conns []*rawConnRec
	heads []*rawHead // every recognised head, arrival order
	rx    int64      // octets received over all connections (quiescence detection)
}

func newRawBackend(on func(h *rawHead) rawPlan) *rawBackend {
	ln, err := net.Listen("tcp", "127.0.0.1:0")
	if err != nil {
		panic(err)
	}
	a := ln.Addr().(*net.TCPAddr)
	b := &rawBackend{Addr: "127.0.0.1", Port: a.Port, ln: ln, OnHead: on}
	go func() {
		for {
			c, err := ln.Accept()
			if err != nil {
				return
			}
			b.mu.Lock()
			rec := &rawConnRec{ID: len(b.conns) + 1, conn: c}
			b.conns = append(b.conns, rec)
			b.mu.Unlock()
			go b.serve(c, rec)
		}
	}()
	return b
}

// Close stops the listener and closes every connection.
func (b *rawBackend) Close() {
	b.ln.Close()
	b.mu.Lock()
	defer b.mu.Unlock()
	for _, r := range b.conns {
		if !r.closed {
			r.closed = true
			r.conn.Close()
		}
	}
}

// Received returns the number of octets received so far.
func (b *rawBackend) Received() int64 {
	b.mu.Lock()
	defer b.mu.Unlock()
	return b.rx
}

// Snapshot returns copies of the connection records.
func (b *rawBackend) Snapshot() []rawConnRec {
	b.mu.Lock()
	defer b.mu.Unlock()
	out := make([]rawConnRec, len(b.conns))
	for i, r := range b.conns {
		out[i] = rawConnRec{ID: r.ID, Raw: append([]byte(nil), r.Raw...), Heads: r.Heads, End: r.End}
	}
	return out
}

// Heads returns the request heads recognised so far.
func (b *rawBackend) Heads() []*rawHead {
	b.mu.Lock()
	defer b.mu.Unlock()
	return append([]*rawHead(nil), b.heads...)
}

func rawParseHead(b []byte) *rawHead {
	lines := strings.Split(strings.TrimSuffix(string(b), "\r\n\r\n"), "\r\n")
	parts := strings.SplitN(lines[0], " ", 3)
	if len(parts) != 3 || !strings.HasPrefix(parts[2], "HTTP/1.") || parts[0] == "" {
		return nil
	}
	h := &rawHead{Method: parts[0], Target: parts[1], CL: -1}
	for _, l := range lines[1:] {
		i := strings.IndexByte(l, ':')
		if i <= 0 {
			return nil
		}
		name, val := l[:i], strings.Trim(l[i+1:], " \t")
		h.Fields = append(h.Fields, [2]string{name, val})
		switch strings.ToLower(name) {
		case "transfer-encoding":
			if strings.Contains(strings.ToLower(val), "chunked") {
				h.Chunked = true
			}
		case "content-length":
			n, err := strconv.ParseInt(val, 10, 64)
			if err != nil || n < 0 {
				return nil
			}
			h.CL = n
		}
	}
	return h
}

func (b *rawBackend) serve(c net.Conn, rec *rawConnRec) {
	var buf []byte
	tmp := make([]byte, 32<<10)
	end := func(why string) {
		b.mu.Lock()
		rec.End = why
		if !rec.closed {
			rec.closed = true
			c.Close()
		}
		b.mu.Unlock()
	}
	fill := func() bool {
		c.SetReadDeadline(time.Now().Add(90 * time.Second))
		n, err := c.Read(tmp)
		if n > 0 {
			buf = append(buf, tmp[:n]...)
			b.mu.Lock()
			rec.Raw = append(rec.Raw, tmp[:n]...)
			b.rx += int64(n)
			b.mu.Unlock()
		}
		if err != nil {
			if n > 0 {
				return true // deliver what arrived; the error shows up on the next call
			}
			if err.Error() == "EOF" {
				end("eof")
			} else {
				end("read-error")
			}
			return false
		}
		return true
	}
	readLine := func() (string, bool) { // up to and including LF
		for {
			if i := bytes.IndexByte(buf, '\n'); i >= 0 {
				l := string(buf[:i+1])
				buf = buf[i+1:]
				return l, true
			}
			if !fill() {
				return "", false
			}
		}
	}
	for k := 0; ; k++ {
		idx := -1
		for {
			if idx = bytes.Index(buf, []byte("\r\n\r\n")); idx >= 0 {
				break
			}
			if !fill() {
				return
			}
		}
		h := rawParseHead(buf[:idx+4])
		buf = buf[idx+4:]
		if h == nil {
			end("bad-head")
			return
		}
		h.ConnID, h.OnConn = rec.ID, k
		b.mu.Lock()
		rec.Heads++
		b.heads = append(b.heads, h)
		b.mu.Unlock()
		plan := rawPlan{ReplyAfter: -1, Resp: []byte("HTTP/1.1 200 OK\r\nContent-Length: 2\r\n\r\nok")}
		if b.OnHead != nil {
			plan = b.OnHead(h)
		}
		replied := false
		reply := func() {
			if !replied {
				replied = true
				c.SetWriteDeadline(time.Now().Add(20 * time.Second))
				c.Write(plan.Resp)
			}
		}
		got := 0
		if plan.ReplyAfter == 0 {
			reply()
		}
		take := func(n int64) bool { // consume n octets of body data
			for n > 0 {
				if len(buf) == 0 && !fill() {
					return false
				}
				m := int64(len(buf))
				if m > n {
					m = n
				}
				buf = buf[m:]
				n -= m
				got += int(m)
				if plan.ReplyAfter > 0 && got >= plan.ReplyAfter {
					reply()
				}
			}
			return true
		}
		switch {
		case h.Chunked:
			for {
				l, ok := readLine()
				if !ok {
					return
				}
				s := strings.TrimRight(l, "\r\n")
				if i := strings.IndexByte(s, ';'); i >= 0 {
					s = s[:i]
				}
				size, err := strconv.ParseInt(strings.TrimSpace(s), 16, 64)
				if err != nil || size < 0 {
					end("bad-chunk")
					return
				}
				if size == 0 {
					for { // trailer-part up to the empty line
						l, ok := readLine()
						if !ok {
							return
						}
						if l == "\r\n" || l == "\n" {
							break
						}
					}
					break
				}
				if !take(size) {
					return
				}
				if l, ok := readLine(); !ok {
					return
				} else if l != "\r\n" {
					end("bad-chunk")
					return
				}
			}
		case h.CL > 0:
			if !take(h.CL) {
				return
			}
		}
		reply()
		if plan.Close {
			end("closed-by-plan")
			return
		}
	}
}
