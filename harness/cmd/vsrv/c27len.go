package main

import (
	"bytes"
	"fmt"
	"io"
	"net"
	"strconv"
	"strings"
	"sync/atomic"
	"time"

	"github.com/bfenetworks/bfe/bfe_basic"
	"github.com/bfenetworks/bfe/bfe_http"
	"github.com/bfenetworks/bfe/bfe_module"

	"verifharness/e2e"
	"verifharness/ref/fcgi"
	"verifharness/ref/http1"
	"verifharness/vkit"
)

// C27, "declared length vs body source" family.
//
// An HTTP/1.x backend can never hand bfe a body that disagrees with its
// Content-Length: the transport cuts the body at the declared length and reports
// a short one as an error. Two other body sources can: a FastCGI application
// (bfe_fcgi passes the CGI header block's Content-Length through and hands the
// raw STDOUT stream over as the body) and a module-made response (Response
// verdict) whose Body reader yields fewer or more bytes than its Content-Length
// header says. Here both sources answer with `Content-Length: N` and a body
// source of L bytes, L below, at and above N, delivered in one piece, in pieces
// that cross N, with an extra piece after N, or dripped; also for HEAD and for
// 204/304. Whatever bfe does with such a response, the bytes on the client
// connection must still be ONE response a client can delimit: at most N body
// bytes, all of them the source's own first bytes, then nothing or the reply to
// the pipelined probe; a response bfe cannot complete ends with the connection
// closed, never with bytes beyond the declared length.

type c27Len struct {
	Src      string `json:"src"` // fcgi | filter
	N        int    `json:"n"`   // declared Content-Length
	Pieces   []int  `json:"pieces"`
	Joined   bool   `json:"joined,omitempty"` // fcgi: the CGI header block and the first piece travel in one STDOUT record
	Flush    int    `json:"flush"`            // ResFlushInterval of the cluster (ms)
	Surplus  string `json:"surplus"`          // p = pattern bytes, r = the bytes past N spell a complete HTTP response
	PauseMs  int    `json:"pause_ms,omitempty"`
	Delivery string `json:"delivery"`
}

func (l *c27Len) total() int {
	t := 0
	for _, p := range l.Pieces {
		t += p
	}
	return t
}

func (l *c27Len) rel() string {
	switch t := l.total(); {
	case t < l.N:
		return "short"
	case t == l.N:
		return "exact"
	}
	return "long"
}

func (l *c27Len) spec() string {
	ps := make([]string, len(l.Pieces))
	for i, p := range l.Pieces {
		ps[i] = strconv.Itoa(p)
	}
	j := "-"
	if l.Joined {
		j = "j"
	}
	return fmt.Sprintf("%d;%s;%s;%s;%d", l.N, strings.Join(ps, ","), j, l.Surplus, l.PauseMs)
}

func (l *c27Len) key() string {
	return fmt.Sprintf("len:%s:%s:f%d:%s", l.Src, l.spec(), l.Flush, l.Delivery)
}

func c27ParseLenSpec(s string) *c27Len {
	f := strings.Split(s, ";")
	if len(f) != 5 {
		return nil
	}
	l := &c27Len{Joined: f[2] == "j", Surplus: f[3]}
	l.N, _ = strconv.Atoi(f[0])
	if f[1] != "" {
		for _, p := range strings.Split(f[1], ",") {
			n, _ := strconv.Atoi(p)
			l.Pieces = append(l.Pieces, n)
		}
	}
	l.PauseMs, _ = strconv.Atoi(f[4])
	return l
}

func c27Smuggled(id string) string {
	return "HTTP/1.1 200 OK\r\nContent-Length: 4\r\nX-Smuggled: " + id + "\r\n\r\nevil"
}

// c27LenSource is the complete byte sequence of the body source of a case.
func c27LenSource(id string, l *c27Len) []byte {
	L := l.total()
	b := c27Body(id, L)
	if L > l.N && l.Surplus == "r" {
		s := c27Smuggled(id)
		for i := l.N; i < L; i++ {
			b[i] = s[(i-l.N)%len(s)]
		}
	}
	return b
}

func c27LenPieces(id string, l *c27Len) [][]byte {
	src := c27LenSource(id, l)
	var out [][]byte
	for _, p := range l.Pieces {
		out = append(out, src[:p])
		src = src[p:]
	}
	return out
}

func c27LenRequest(c *c27Case) []byte {
	var sb strings.Builder
	fmt.Fprintf(&sb, "%s /c27/%s HTTP/1.%d\r\nHost: f%d.c27.test\r\nX-Id: %s\r\nX-Src: len%s\r\nX-Status: %d\r\nX-Len: %s\r\n",
		c.Method, c.ID, c.Minor, c.Len.Flush, c.ID, c.Len.Src, c.Status, c.Len.spec())
	if c.Conn != "" {
		fmt.Fprintf(&sb, "Connection: %s\r\n", c.Conn)
	}
	if c.Method == "POST" {
		sb.WriteString("Content-Length: 3\r\n\r\nabc")
	} else {
		sb.WriteString("\r\n")
	}
	return []byte(sb.String())
}

// ---------------------------------------------------------------------------
// scripted FastCGI responder (records decoded and encoded by ref/fcgi)

type c27Fcgi struct {
	ln     net.Listener
	Addr   string
	Port   int
	played int64 // scripts played to the end
	over   int64 // ... whose STDOUT body was longer than the declared Content-Length
}

func newC27Fcgi() (*c27Fcgi, error) {
	ln, err := net.Listen("tcp", "127.0.0.1:0")
	if err != nil {
		return nil, err
	}
	f := &c27Fcgi{ln: ln, Addr: "127.0.0.1", Port: ln.Addr().(*net.TCPAddr).Port}
	go func() {
		for {
			c, err := ln.Accept()
			if err != nil {
				return
			}
			go f.serve(c)
		}
	}()
	return f, nil
}

func (f *c27Fcgi) serve(conn net.Conn) {
	defer conn.Close()
	conn.SetDeadline(time.Now().Add(60 * time.Second)) // watchdog only
	dec := &fcgi.RequestDecoder{}
	var buf []byte
	tmp := make([]byte, 16<<10)
	for !dec.Done() {
		n, err := conn.Read(tmp)
		buf = append(buf, tmp[:n]...)
		for !dec.Done() {
			rec, used, perr := fcgi.ParseRecord(buf)
			if perr == fcgi.ErrIncomplete {
				break
			}
			if perr != nil {
				return
			}
			buf = buf[used:]
			if dec.Feed(rec) != nil {
				return
			}
		}
		if err != nil && !dec.Done() {
			return
		}
	}
	p := map[string]string{}
	for _, kv := range dec.Req.Params {
		p[kv.Name] = kv.Value
	}
	id := p["HTTP_X_ID"]
	l := c27ParseLenSpec(p["HTTP_X_LEN"])
	if l == nil {
		return
	}
	rid := dec.Req.ID
	head := fmt.Sprintf("Status: %s Status%s\r\nX-Case: %s\r\nContent-Type: text/x-c27\r\nContent-Length: %d\r\n\r\n",
		p["HTTP_X_STATUS"], p["HTTP_X_STATUS"], id, l.N)
	pieces := c27LenPieces(id, l)
	var writes [][]byte
	if l.Joined && len(pieces) > 0 {
		writes = append(writes, append([]byte(head), pieces[0]...))
		pieces = pieces[1:]
	} else {
		writes = append(writes, []byte(head))
	}
	writes = append(writes, pieces...)
	for i, w := range writes {
		if i > 0 && l.PauseMs > 0 {
			time.Sleep(time.Duration(l.PauseMs) * time.Millisecond)
		}
		for len(w) > 0 { // a record carries at most 65535 bytes
			k := min(len(w), 65000)
			if _, err := conn.Write(fcgi.EncodeRecord(fcgi.TypeStdout, rid, w[:k], (8-k%8)%8)); err != nil {
				return
			}
			w = w[k:]
		}
	}
	end := append(fcgi.EncodeRecord(fcgi.TypeStdout, rid, nil, 0), fcgi.EncodeRecord(fcgi.TypeEndRequest, rid, fcgi.EndRequestBody(0, 0), 0)...)
	if _, err := conn.Write(end); err != nil {
		return
	}
	atomic.AddInt64(&f.played, 1)
	if l.total() > l.N {
		atomic.AddInt64(&f.over, 1)
	}
}

func c27LenClusters(f *c27Fcgi) []e2e.Cluster {
	var cs []e2e.Cluster
	for _, fl := range []int{0, 5} {
		cs = append(cs, e2e.Cluster{
			Name: fmt.Sprintf("c27f%d", fl), Hosts: []string{fmt.Sprintf("f%d.c27.test", fl)}, Protocol: "fcgi", ResFlushInterval: fl,
			TimeoutConnSrv: 10000, TimeoutResponseHeader: 20000,
			SubClusters: []e2e.SubCluster{{Name: "sub1", Weight: 100, Backends: []e2e.Backend{{Name: "fb", Addr: f.Addr, Port: f.Port, Weight: 10}}}},
		})
	}
	return cs
}

// ---------------------------------------------------------------------------
// filter-made responses

// c27PieceReader hands out one piece per Read call (a piece larger than the
// caller's buffer is continued by the next call).
type c27PieceReader struct {
	pieces [][]byte
	pause  time.Duration
	first  bool
}

func (r *c27PieceReader) Read(p []byte) (int, error) {
	for len(r.pieces) > 0 && len(r.pieces[0]) == 0 {
		r.pieces = r.pieces[1:]
	}
	if len(r.pieces) == 0 {
		return 0, io.EOF
	}
	if r.first && r.pause > 0 {
		time.Sleep(r.pause)
	}
	r.first = true
	n := copy(p, r.pieces[0])
	r.pieces[0] = r.pieces[0][n:]
	if len(r.pieces[0]) == 0 {
		r.pieces = r.pieces[1:]
	}
	return n, nil
}

func (r *c27PieceReader) Close() error { return nil }

var c27LenFilterMade, c27LenFilterOver int64

func c27InstallLenFilter(srv *e2e.Server) error {
	return srv.Srv.CallBacks.AddFilter(bfe_module.HandleAfterLocation, func(req *bfe_basic.Request) (int, *bfe_http.Response) {
		h := req.HttpRequest.Header
		if h.Get("X-Src") != "lenfilter" {
			return bfe_module.BfeHandlerGoOn, nil
		}
		id := h.Get("X-Id")
		l := c27ParseLenSpec(h.Get("X-Len"))
		if l == nil {
			return bfe_module.BfeHandlerGoOn, nil
		}
		status, _ := strconv.Atoi(h.Get("X-Status"))
		res := new(bfe_http.Response)
		res.StatusCode = status
		res.Header = make(bfe_http.Header)
		res.Header.Set("X-Case", id)
		res.Header.Set("Content-Type", "text/x-c27")
		res.Header.Set("Content-Length", strconv.Itoa(l.N))
		res.ContentLength = int64(l.N)
		res.Body = &c27PieceReader{pieces: c27LenPieces(id, l), pause: time.Duration(l.PauseMs) * time.Millisecond}
		req.HttpResponse = res
		atomic.AddInt64(&c27LenFilterMade, 1)
		if l.total() > l.N {
			atomic.AddInt64(&c27LenFilterOver, 1)
		}
		return bfe_module.BfeHandlerResponse, res
	})
}

// ---------------------------------------------------------------------------
// cases

type c27LenReq struct {
	method string
	minor  int
	conn   string
	status int
}

func c27LenDeliveries(n, l int) (names []string, pieces [][]int) {
	add := func(name string, p ...int) {
		names = append(names, name)
		pieces = append(pieces, p)
	}
	drip := func() []int {
		var p []int
		q, rest := l/5, l
		for i := 0; i < 4; i++ {
			p = append(p, q)
			rest -= q
		}
		return append(p, rest)
	}
	switch {
	case l == 0:
		add("none")
	case l <= n:
		add("one", l)
		if l >= 2 {
			add("split", l/2, l-l/2)
		}
	default:
		k := l - n
		add("one", l)
		if n >= 1 {
			add("extra", n, k) // the declared body complete, then one more piece
		}
		if n >= 2 {
			a := min(3, n-1)
			add("cross", n-a, a+k) // the second piece crosses the declared length
		}
		if l >= 5 {
			add("drip", drip()...)
		}
	}
	return
}

func c27LenCases(r *vkit.Run) []*c27Case {
	var cases []*c27Case
	n := 0
	mk := func(rq c27LenReq, l *c27Len) *c27Case {
		c := &c27Case{ID: fmt.Sprintf("l%d", n), Method: rq.method, Minor: rq.minor, Conn: rq.conn, Source: "len-" + l.Src, Status: rq.status, Blen: l.total(), Frame: "cl", Len: l}
		n++
		cases = append(cases, c)
		return c
	}
	reqs := []c27LenReq{
		{"GET", 1, "", 200}, {"GET", 1, "close", 200}, {"GET", 0, "keep-alive", 200}, {"GET", 0, "", 200}, {"POST", 1, "", 200}, {"GET", 1, "", 404},
		{"HEAD", 1, "", 200}, {"GET", 1, "", 204}, {"GET", 1, "", 304},
	}
	ns := []int{0, 1, 5, 512, 4096, 40000}
	if !r.Quick() {
		ns = append(ns, 2, 100, 4095, 4097, 32768, 32769)
	}
	smug := len(c27Smuggled("l00000")) // ids differ in length by a few bytes: the smuggled response is then cut or wraps around, which is fine
	for _, N := range ns {
		seen := map[int]bool{}
		for _, L := range []int{0, N / 2, N - 1, N, N + 1, N + 7, N + 300, N + smug} {
			if L < 0 || seen[L] {
				continue
			}
			seen[L] = true
			names, pcs := c27LenDeliveries(N, L)
			for di := range names {
				for _, src := range []string{"fcgi", "filter"} {
					for ri, rq := range reqs {
						flushes := []int{0}
						if ri == 0 || rq.method == "POST" {
							flushes = []int{0, 5}
						}
						for _, fl := range flushes {
							sur := "p"
							if L == N+smug {
								sur = "r"
							}
							l := &c27Len{Src: src, N: N, Pieces: pcs[di], Flush: fl, Surplus: sur, Delivery: names[di]}
							if fl > 0 && names[di] == "drip" {
								l.PauseMs = 7 // longer than the flush interval: the flusher ticks between pieces
							}
							mk(rq, l)
							if src == "fcgi" && ri == 0 && fl == 0 && (names[di] == "one" || names[di] == "cross") {
								lj := *l
								lj.Joined = true
								lj.Delivery += "+joined"
								mk(rq, &lj)
							}
						}
					}
				}
			}
		}
	}
	r.Count("len_enumerated_cases", int64(len(cases)))
	// seeded: declared length, source length, partition into pieces, request kind at random
	for i := 0; i < r.N(500, 10000); i++ {
		g := r.Rng("len", i)
		var N int
		switch g.Intn(4) {
		case 0:
			N = g.Intn(21)
		case 1:
			N = g.Range(100, 9000)
		case 2:
			N = g.Range(30000, 50000)
		default:
			N = []int{511, 512, 513, 4095, 4096, 4097, 32767, 32768, 32769}[g.Intn(9)]
		}
		var L int
		sur := "p"
		switch g.Intn(6) {
		case 0:
			L = N
		case 1:
			L = g.Intn(N + 1)
		case 2:
			L = N + g.Range(1, 50)
		case 3:
			L = N + g.Range(51, 5000)
		case 4:
			L = N + smug
			sur = "r"
		default:
			L = max(0, N-g.Range(1, 20))
		}
		// partition L into 1..6 pieces
		var pcs []int
		if L > 0 {
			k := g.Range(1, 6)
			cuts := map[int]bool{}
			for j := 0; j < k-1; j++ {
				cuts[g.Range(1, max(1, L-1))] = true
			}
			if L > N && N > 0 && g.Chance(1, 2) {
				cuts[N] = true // a piece boundary exactly at the declared length
			}
			last := 0
			for x := 1; x < L; x++ {
				if cuts[x] {
					pcs = append(pcs, x-last)
					last = x
				}
			}
			pcs = append(pcs, L-last)
		}
		rq := reqs[g.Intn(len(reqs))]
		if g.Chance(1, 2) {
			rq = reqs[0]
		}
		l := &c27Len{Src: g.PickS([]string{"fcgi", "filter"}), N: N, Pieces: pcs, Flush: []int{0, 5}[g.Intn(2)], Surplus: sur, Delivery: "seeded"}
		if l.Src == "fcgi" && g.Chance(1, 4) {
			l.Joined = true
		}
		if l.Flush > 0 && g.Chance(1, 3) {
			l.PauseMs = g.Range(2, 9)
		}
		mk(rq, l)
	}
	for _, c := range cases {
		r.Count("len_cases", 1)
		r.Count("len_src_"+c.Len.Src, 1)
		r.Count("len_source_"+c.Len.rel(), 1)
	}
	return cases
}

// ---------------------------------------------------------------------------
// oracle

// c27JudgeLen judges the client byte stream of one case of this family. raw is
// everything the client received up to a clean end of the connection.
func c27JudgeLen(r *vkit.Run, c *c27Case, raw []byte, w map[string]interface{}) {
	l := c.Len
	rel := l.rel()
	sig := fmt.Sprintf("len-%s:%s:%d:%s-%s", l.Src, c.Method, c.Status, rel, strings.TrimSuffix(l.Delivery, "+joined"))
	src := c27LenSource(c.ID, l)
	w["declared_length"] = l.N
	w["source_length"] = len(src)
	noBody := bodyless(c.Method, c.Status)
	r.Count("len_judged", 1)

	resp, n, rej := http1.ParseResponse(raw, c.Method, c.Minor)
	if rej != nil && rej.Incomplete {
		// the stream ended inside the response (the connection is closed: the client read to the end). Legitimate
		// only when bfe could not complete the response, i.e. the source disagrees with the declared length.
		head, hn, hrej := http1.ParseResponse(raw, "HEAD", c.Minor)
		if hrej != nil {
			r.Violation("client-stream-not-a-response:"+hrej.Class+":"+sig, fmt.Sprintf("strict parser: %v", hrej), w)
			return
		}
		if head.Status == 500 && c.Status != 500 && len(http1.Get(head.Fields, "X-Case")) == 0 {
			r.Count("bfe_error_page_instead_of_case_response", 1)
			return
		}
		partial := raw[hn:]
		if len(http1.Get(head.Fields, "Transfer-Encoding")) > 0 {
			r.Count("len_incomplete_chunked_not_judged", 1)
			return
		}
		if rel == "exact" {
			r.Violation("body-truncated-although-source-matches-declared-length:"+sig, fmt.Sprintf("source and Content-Length are both %d bytes, the client received %d body bytes and the end of the connection", l.N, len(partial)), w)
			return
		}
		if !bytes.HasPrefix(src, partial) {
			r.Violation("body-differs:"+sig, fmt.Sprintf("the %d body bytes the client received before the connection ended are not the first bytes of the body source", len(partial)), w)
			return
		}
		r.Count("len_"+rel+"_source_incomplete_response_then_closed", 1)
		return
	}
	if rej != nil {
		r.Violation("client-stream-not-a-response:"+rej.Class+":"+sig, fmt.Sprintf("strict parser: %v", rej), w)
		return
	}
	if resp.Status == 500 && c.Status != 500 && len(http1.Get(resp.Fields, "X-Case")) == 0 {
		r.Count("bfe_error_page_instead_of_case_response", 1)
		return
	}
	if resp.Status != c.Status {
		r.Violation("status-differs:"+sig, fmt.Sprintf("client status %d, want %d", resp.Status, c.Status), w)
	}
	if got := http1.Get(resp.Fields, "X-Case"); len(got) != 1 || got[0] != c.ID {
		r.Violation("end-to-end-header-lost-or-duplicated:"+sig, fmt.Sprintf("X-Case at client: %q", got), w)
	}
	if len(http1.Get(resp.Fields, "Content-Length")) > 0 && len(http1.Get(resp.Fields, "Transfer-Encoding")) > 0 {
		r.Violation("cl-and-te-together:"+sig, "response carries both Content-Length and Transfer-Encoding", w)
	}
	if resp.Framing == http1.FramingChunked && c.Minor == 0 {
		r.Violation("chunked-to-http10-client:"+sig, "chunked coding sent to an HTTP/1.0 client", w)
	}
	if !noBody {
		switch {
		case !bytes.HasPrefix(src, resp.Body):
			// also the case of a source shorter than N whose response was completed with foreign bytes
			r.Violation("body-differs:"+sig, fmt.Sprintf("client body %d bytes (%q...) is not made of the first bytes of the %d-byte body source (declared %d)", len(resp.Body), clip(string(resp.Body), 60), len(src), l.N), w)
			return
		case rel == "exact" && len(resp.Body) != len(src):
			r.Violation("body-differs:"+sig, fmt.Sprintf("client body %d bytes, source and declared length %d", len(resp.Body), len(src)), w)
			return
		case resp.Framing == http1.FramingContentLength && len(resp.Body) > l.N:
			r.Violation("body-longer-than-declared:"+sig, fmt.Sprintf("client body %d bytes, declared %d", len(resp.Body), l.N), w)
			return
		}
	}
	if !noBody && rel == "long" {
		r.Count("len_long_source_complete_response:"+l.Src, 1)
	}
	rest := raw[n:]
	probeOK := false
	if resp.CloseDelimited {
		r.Count("len_close_delimited_responses", 1)
	} else if len(rest) > 0 {
		p, m, prej := http1.ParseResponse(rest, "GET", 1)
		if prej != nil || m != len(rest) || len(http1.Get(p.Fields, "X-Smuggled")) > 0 || (p.Status == 200 && string(p.Body) != "probe-ok probe-"+c.ID) {
			what := fmt.Sprintf("%d bytes follow the response (Content-Length %d, body source %d bytes) and are not the probe's reply: %q", len(rest), l.N, len(src), clip(string(rest), 200))
			if bytes.HasPrefix(src[min(len(src), len(resp.Body)):], rest[:min(len(rest), 16)]) && len(src) > len(resp.Body) {
				what = "bytes of the body source beyond the declared length reached the client: " + what
			}
			r.Violation("bytes-after-response-are-not-the-next-response:"+sig, what, w)
			return
		}
		probeOK = true
		r.Count("len_probe_answered_in_sync", 1)
	} else {
		r.Count("len_closed_after_response", 1)
	}
	switch {
	case noBody:
		r.Count("len_bodyless_"+rel, 1)
	case rel == "exact" && probeOK:
		r.Count("len_exact_complete_and_probe_answered:"+l.Src, 1)
	}
}

// c27LenFinish checks that every shape the family exists for was observed.
func c27LenFinish(r *vkit.Run, f *c27Fcgi) {
	r.Count("len_fcgi_scripts_played", atomic.LoadInt64(&f.played))
	r.Count("len_fcgi_scripts_with_stdout_longer_than_declared", atomic.LoadInt64(&f.over))
	r.Count("len_filter_responses_made", atomic.LoadInt64(&c27LenFilterMade))
	r.Count("len_filter_responses_with_body_longer_than_declared", atomic.LoadInt64(&c27LenFilterOver))
	if r.Replay != "" {
		return
	}
	for _, k := range []string{"len_fcgi_scripts_with_stdout_longer_than_declared", "len_filter_responses_with_body_longer_than_declared",
		"len_exact_complete_and_probe_answered:fcgi", "len_exact_complete_and_probe_answered:filter",
		"len_source_short", "len_source_long", "len_bodyless_long", "len_probe_answered_in_sync"} {
		if r.Counter(k) == 0 {
			r.Inconclusive("declared-length family: never observed: " + k)
		}
	}
	if r.Counter("len_long_source_incomplete_response_then_closed")+r.Counter("len_long_source_complete_response:fcgi")+r.Counter("len_long_source_complete_response:filter") == 0 {
		r.Inconclusive("declared-length family: no response with a body source longer than its Content-Length was judged")
	}
	if r.Counter("len_judged") < r.Counter("len_cases")*9/10 {
		r.Inconclusive(fmt.Sprintf("declared-length family: only %d of %d cases reached a clean end of stream", r.Counter("len_judged"), r.Counter("len_cases")))
	}
}
