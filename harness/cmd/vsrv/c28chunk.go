package main

import (
	"bytes"
	"fmt"
	"sort"
	"strings"

	"verifharness/e2e"
	"verifharness/vkit"
)

// C28, chunk-defect family: a request whose chunked body has ONE framing defect. bfe cannot
// trust where that message ends, so the connection must be closed after at most one final
// response and nothing that follows the defect on the connection may be answered or reach a
// backend. Cells (defect, position, handler, tail) are enumerated round-robin.
//
//   defect   : what is wrong (see c28Defects): a chunk-size line that is not 1*HEXDIG CRLF, a
//              size that overflows, chunk data not followed by CRLF (two other octets, one of
//              the two, nothing), a bad last-chunk, a trailer line that is no header field, or
//              the body cut off (client half-closes) at every stage
//   position : the defect sits at the first, a middle or the last chunk of the body (n/a for
//              last-chunk / trailer defects)
//   handler  : "" the body is forwarded to a backend that reads it to the end; "early-" the
//              backend replies as soon as it has the request head, so that bfe writes the
//              response while the body is still being copied; "mod-" a module answers and no
//              handler ever reads the body
//   tail     : "decoy" - the octets after the defect go on as valid chunk framing up to a
//              last-chunk and are followed by pipelined decoy requests (what a reader that
//              forgets the defect would find); "next" - a valid next request of the case follows
//              (pipelined, or written once the response has arrived); "fin" (cut-off bodies)
//
// Kind of such a request: "<handler>post-chunked-defect.<defect>.<position>".

type c28DefectT struct {
	Name, Class string // class: size | dataend | last | trailer | trunc | trunc-end
}

var c28Defects = []c28DefectT{
	{"size-nonhex", "size"},                       // "ZZ\r\n"
	{"size-empty", "size"},                        // "\r\n"
	{"size-plus", "size"},                         // "+5\r\n"
	{"size-0x", "size"},                           // "0x5\r\n"
	{"size-lws", "size"},                          // " 5\r\n"
	{"size-overflow-17-digits", "size"},           // 2^64 + n: a wrapping parser reads n
	{"size-bare-lf", "size"},                      // "5\n"
	{"size-cr-no-lf", "size"},                     // "5\r" data ...
	{"data-xx", "dataend"},                        // data "XX" instead of CRLF
	{"data-crx", "dataend"},                       // data "\rX"
	{"data-xlf", "dataend"},                       // data "X\n"
	{"data-lf-only", "dataend"},                   // data "\n" (one octet)
	{"data-cr-only", "dataend"},                   // data "\r" (one octet)
	{"data-nothing", "dataend"},                   // data directly followed by the next chunk-size line
	{"data-lfcr", "dataend"},                      // data "\n\r"
	{"last-bare-lf", "last"},                      // "0\n\r\n"
	{"last-junk", "last"},                         // "0Z\r\n\r\n"
	{"last-crcrlf", "last"},                       // "0\r\r\n\r\n"
	{"last-no-final-crlf", "last"},                // "0\r\n" directly followed by the next request line (no CRLF ending the trailer-part)
	{"trailer-no-colon", "trailer"},               // "0\r\nNoFieldHere\r\n\r\n"
	{"trailer-no-colon-no-blank-line", "trailer"}, // "0\r\nNoFieldHere\r\n" directly followed by the next request line
	{"trunc-mid-size", "trunc"},                   // "1" of "1f\r\n", then FIN
	{"trunc-after-size-cr", "trunc"},
	{"trunc-mid-data", "trunc"},
	{"trunc-after-data", "trunc"},
	{"trunc-after-data-cr", "trunc"},
	{"trunc-before-last-chunk", "trunc-end"},
	{"trunc-in-last-chunk", "trunc-end"}, // "0\r\n" then FIN
	{"trunc-mid-trailer", "trunc-end"},   // "0\r\nX-T: v\r\n" then FIN
}

var c28DefectHandlers = []string{"", "early-", "mod-"}

type c28DefectCell struct {
	Defect c28DefectT
	Pos    string // first | middle | last | end
	Hand   string
	Tail   string // decoy | next | fin
}

func c28DefectCells() []c28DefectCell {
	var out []c28DefectCell
	for _, d := range c28Defects {
		poss := []string{"end"}
		switch d.Class {
		case "size", "dataend", "trunc":
			poss = []string{"first", "middle", "last"}
		}
		tails := []string{"decoy", "next"}
		if strings.HasPrefix(d.Class, "trunc") {
			tails = []string{"fin"}
		}
		if d.Name == "last-no-final-crlf" || d.Name == "trailer-no-colon-no-blank-line" {
			tails = []string{"decoy"} // the defect IS that the next request line follows at once
		}
		for _, p := range poss {
			for _, h := range c28DefectHandlers {
				for _, t := range tails {
					out = append(out, c28DefectCell{d, p, h, t})
				}
			}
		}
	}
	return out
}

// c28DefectParse splits the kind of a chunk-defect request.
func c28DefectParse(kind string) (handler, defect, pos string, ok bool) {
	i := strings.Index(kind, "post-chunked-defect.")
	if i < 0 {
		return "", "", "", false
	}
	rest := strings.SplitN(kind[i+len("post-chunked-defect."):], ".", 2)
	if len(rest) != 2 {
		return "", "", "", false
	}
	return kind[:i], rest[0], rest[1], true
}

func c28IsDefect(kind string) bool { _, _, _, ok := c28DefectParse(kind); return ok }

// c28Host is the Host a request kind is sent to: "early-" kinds go to the cluster whose backend
// replies as soon as it has the request head.
func c28Host(kind string) string {
	if strings.HasPrefix(kind, "early-") {
		return "c28e.test"
	}
	return "c28.test"
}

// c28DefectBody renders the defective chunked body of request id (three chunks of n data
// octets each, made of decoy requests) and reports whether the client half-closes after it.
func c28DefectBody(id, defect, pos string, n int) (body []byte, fin bool) {
	if n < 3 {
		n = 3
	}
	data := c28Body(id, 3*n)
	at := map[string]int{"first": 0, "middle": 1, "last": 2, "end": 3}[pos]
	var out bytes.Buffer
	for k := 0; k < 3; k++ {
		d := data[k*n : (k+1)*n]
		size := fmt.Sprintf("%x\r\n", n)
		end := "\r\n"
		if k == at {
			switch defect {
			case "size-nonhex":
				size = "ZZ\r\n"
			case "size-empty":
				size = "\r\n"
			case "size-plus":
				size = fmt.Sprintf("+%x\r\n", n)
			case "size-0x":
				size = fmt.Sprintf("0x%x\r\n", n)
			case "size-lws":
				size = fmt.Sprintf(" %x\r\n", n)
			case "size-overflow-17-digits":
				size = fmt.Sprintf("1%016x\r\n", n)
			case "size-bare-lf":
				size = fmt.Sprintf("%x\n", n)
			case "size-cr-no-lf":
				size = fmt.Sprintf("%x\r", n)
			case "data-xx":
				end = "XX"
			case "data-crx":
				end = "\rX"
			case "data-xlf":
				end = "X\n"
			case "data-lf-only":
				end = "\n"
			case "data-cr-only":
				end = "\r"
			case "data-nothing":
				end = ""
			case "data-lfcr":
				end = "\n\r"
			case "trunc-mid-size":
				// a size line of at least two digits, cut after the first
				out.WriteString(fmt.Sprintf("%02x", n)[:1])
				return out.Bytes(), true
			case "trunc-after-size-cr":
				out.WriteString(fmt.Sprintf("%x\r", n))
				return out.Bytes(), true
			case "trunc-mid-data":
				out.WriteString(size)
				out.Write(d[:n/2+1])
				return out.Bytes(), true
			case "trunc-after-data":
				out.WriteString(size)
				out.Write(d)
				return out.Bytes(), true
			case "trunc-after-data-cr":
				out.WriteString(size)
				out.Write(d)
				out.WriteString("\r")
				return out.Bytes(), true
			}
		}
		out.WriteString(size)
		out.Write(d)
		out.WriteString(end)
	}
	switch defect {
	case "last-bare-lf":
		out.WriteString("0\n\r\n")
	case "last-junk":
		out.WriteString("0Z\r\n\r\n")
	case "last-crcrlf":
		out.WriteString("0\r\r\n\r\n")
	case "last-no-final-crlf":
		out.WriteString("0\r\n")
	case "trailer-no-colon":
		out.WriteString("0\r\nNoFieldHere\r\n\r\n")
	case "trailer-no-colon-no-blank-line":
		out.WriteString("0\r\nNoFieldHere\r\n")
	case "trunc-before-last-chunk":
		return out.Bytes(), true
	case "trunc-in-last-chunk":
		out.WriteString("0\r\n")
		return out.Bytes(), true
	case "trunc-mid-trailer":
		out.WriteString("0\r\nX-T: v\r\n")
		return out.Bytes(), true
	default:
		out.WriteString("0\r\n\r\n")
	}
	return out.Bytes(), false
}

// defectReqBytes renders a chunk-defect request. It never carries "Connection: close" (bfe must
// decide by itself that the connection cannot go on), also when it is the last of the case.
func (c *c28Case) defectReqBytes(i int) []byte {
	q := c.Reqs[i]
	hand, defect, pos, _ := c28DefectParse(q.Kind)
	id := c.rid(i)
	var out bytes.Buffer
	mod := ""
	if hand == "mod-" {
		mod = "X-Mod: 1\r\n"
	}
	fmt.Fprintf(&out, "POST /c28/%s HTTP/1.1\r\nHost: %s\r\nX-Id: %s\r\n%sTransfer-Encoding: chunked\r\n\r\n", id, c28Host(q.Kind), id, mod)
	body, _ := c28DefectBody(id, defect, pos, q.Blen)
	out.Write(body)
	if q.Tail == "decoy" {
		out.Write(c28Unit(id))
		out.Write(c28Unit(id))
	}
	return out.Bytes()
}

var c28DefectPre = []string{"get", "post-cl", "post-chunked", "mod-post-cl", "mod-post-chunked", "early-post-cl", "early-post-chunked", "head"}

func c28GenDefect(g *vkit.Rand, id int, cell c28DefectCell) *c28Case {
	c := &c28Case{ID: id, Fam: "chunkdefect"}
	if g.Chance(1, 2) {
		q := c28Req{Kind: c28DefectPre[g.Intn(len(c28DefectPre))]}
		if strings.Contains(q.Kind, "post") {
			q.Blen = []int{1, 90, 700, 4096, 20000}[g.Intn(5)]
		}
		c.Reqs = append(c.Reqs, q)
	}
	q := c28Req{Kind: cell.Hand + "post-chunked-defect." + cell.Defect.Name + "." + cell.Pos, Tail: cell.Tail}
	q.Blen = []int{3, 5, 16, 40, 255, 256, 5000}[g.Intn(7)]
	c.Reqs = append(c.Reqs, q)
	switch cell.Tail {
	case "next":
		n := c28Req{Kind: []string{"get", "post-cl", "early-post-cl", "mod-get"}[g.Intn(4)]}
		if strings.Contains(n.Kind, "post") {
			n.Blen = []int{1, 90, 700}[g.Intn(3)]
		}
		c.Reqs = append(c.Reqs, n)
		c.Seq = g.Bool()
	case "fin":
		c.Fin = true
		c.Seq = g.Bool()
	default:
		c.Seq = len(c.Reqs) > 1 && g.Bool()
	}
	if g.Chance(1, 2) {
		for i := 0; i < 8; i++ {
			c.Splits = append(c.Splits, g.Range(1, 3000))
		}
	}
	return c
}

// c28EarlyBackend is the backend of cluster c28e: it replies as soon as it has a request head
// and goes on reading the request by its declared framing.
func c28EarlyBackend() (*rawBackend, e2e.Cluster) {
	be := newRawBackend(func(h *rawHead) rawPlan {
		id := h.Get("X-Id")
		body := "early backend " + id
		return rawPlan{ReplyAfter: 0, Resp: []byte(fmt.Sprintf("HTTP/1.1 200 OK\r\nX-Echo-Id: %s\r\nX-Early-Reply: 1\r\nContent-Length: %d\r\n\r\n%s", id, len(body), body))}
	})
	return be, e2e.Cluster{Name: "c28e", Hosts: []string{"c28e.test"}, Product: "p_c28", MaxIdleConnsPerHost: 0,
		SubClusters: []e2e.SubCluster{{Name: "sub1", Weight: 100, Backends: []e2e.Backend{{Name: "eb", Addr: be.Addr, Port: be.Port, Weight: 10}}}}}
}

// c28DefectAccount does the family's accounting for one judged case: which reply the defective
// request got, whether anything after it reached a backend, and the per-cell coverage.
func c28DefectAccount(r *vkit.Run, c *c28Case, res *c28Result, ok bool, answered int, lastStatus []int, arrivals map[string]int, cells map[string]int64, w map[string]interface{}) (nontrivial bool) {
	di := -1
	for j, q := range c.Reqs {
		if c28IsDefect(q.Kind) {
			di = j
		}
	}
	if di < 0 {
		return false
	}
	q := c.Reqs[di]
	hand, defect, pos, _ := c28DefectParse(q.Kind)
	if hand == "" {
		hand = "proxy-"
	}
	// a request that follows the defective one must never reach a backend
	for j := di + 1; j < len(c.Reqs); j++ {
		if arrivals[c.rid(j)] > 0 {
			r.Violation("request-after-framing-error-reached-backend:"+q.Kind, fmt.Sprintf("request #%d (%s) follows a request whose chunked framing is broken (%s at the %s chunk); it was forwarded to a backend", j, c.Reqs[j].Kind, defect, pos), w)
		}
	}
	reply := "none"
	if answered > di && di < len(lastStatus) {
		reply = fmt.Sprint(lastStatus[di])
	}
	closed := res.eof && res.hung == ""
	if ok && closed && answered <= di+1 {
		// the observation the family is about: at most one final response to the defective request,
		// then bfe ended the connection
		cells[hand+"|"+defect+"|"+q.Tail]++
		r.Count("chunkdefect_closed_after_"+hand+"reply_"+reply, 1)
		r.Count("chunkdefect_closed_by_class_"+c28DefectClass(defect)+"_"+hand, 1)
		r.Count("chunkdefect_closed_by_pos_"+pos, 1)
		r.Count("chunkdefect_closed_by_tail_"+q.Tail, 1)
		if c.Seq {
			r.Count("chunkdefect_closed_keepalive", 1)
		} else {
			r.Count("chunkdefect_closed_pipelined", 1)
		}
		return answered >= di // everything before the defective request was answered in order
	}
	return false
}

func c28DefectClass(defect string) string {
	for _, d := range c28Defects {
		if d.Name == defect {
			return d.Class
		}
	}
	return "unknown"
}

// c28DefectCoverage makes the run inconclusive when a (handler, defect, tail) cell was never
// observed ending with the connection closed.
func c28DefectCoverage(r *vkit.Run, cells map[string]int64) {
	r.Extra("chunk_defect_cells_closed", cells)
	want := map[string]bool{}
	for _, cell := range c28DefectCells() {
		h := cell.Hand
		if h == "" {
			h = "proxy-"
		}
		want[h+"|"+cell.Defect.Name+"|"+cell.Tail] = true
	}
	var missing []string
	for k := range want {
		if cells[k] == 0 {
			missing = append(missing, k)
		}
	}
	sort.Strings(missing)
	r.Count("chunkdefect_cells", int64(len(want)))
	r.Count("chunkdefect_cells_never_observed", int64(len(missing)))
	for i, k := range missing {
		if i < 3 {
			r.Inconclusive("chunk-defect family: cell (handler|defect|tail) " + k + " was never observed with the connection closed after at most one response")
		}
	}
}

// c28DefectReqBytes renders the defective request of a case of the family (for samples).
func c28DefectReqBytes(c *c28Case) []byte {
	for i, q := range c.Reqs {
		if c28IsDefect(q.Kind) {
			return c.reqBytes(i)
		}
	}
	return nil
}
