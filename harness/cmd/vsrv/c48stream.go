package main

import (
	"bytes"
	"crypto/tls"
	"fmt"
	"io"
	"net"
	"strconv"
	"strings"
	"sync"
	"time"

	"github.com/bfenetworks/bfe/bfe_basic"
	"github.com/bfenetworks/bfe/bfe_module"

	"verifharness/e2e"
	"verifharness/vkit"
)

// C48, complete-stream family. The main workload of c48.go reads one response
// with a lenient parser and then probes the connection. Here every verdict kind
// at every callback point where the framework consults it is combined with
// backend responses of four body shapes (empty, small, large, chunked) and three
// methods, the liveness probe is PIPELINED behind the request (one write, probe
// carries "Connection: close"), and the client reads the connection to its end.
// The complete server->client byte stream is then parsed by a strict HTTP/1.1
// response parser written for this check, and must be exactly
//     <the response the verdict demands> [<the probe's own response>] EOF
// with not one byte more. Connection-level points (HandleAccept,
// HandleHandshake, HandleFinish) have no request to carry a script: their
// filters are scripted by the client's source address (127.48.x.y).

type c48SCase struct {
	Kind   string `json:"kind"` // "stream" | "conn"
	ID     string `json:"id"`
	Script string `json:"script"` // X-Vs value (stream); "<point>=<letters>" (conn)
	Method string `json:"method"`
	Bk     string `json:"bk,omitempty"`     // backend body shape: empty | small | large | chunked
	TLS    bool   `json:"tls,omitempty"`    // conn: HTTP/1.1 over TLS (needed to reach HandleHandshake)
	SrcIP  string `json:"src_ip,omitempty"` // conn: source address that selects the script
}

var c48Bks = []string{"empty", "small", "large", "chunked"}

const c48AllVerdicts = "GFRPC"

// verdicts the framework consults at connection-level points (bfe_server/http_conn.go):
// HandleAccept and HandleHandshake honour Close only; the return value of HandleFinish is ignored.
var c48ConnAlpha = map[int]string{
	bfe_module.HandleAccept:    "GC",
	bfe_module.HandleHandshake: "GC",
	bfe_module.HandleFinish:    "G",
}

func c48Honoured(point int, v byte) bool {
	a, ok := c48Alpha[point]
	if !ok {
		a = c48ConnAlpha[point]
	}
	return strings.IndexByte(a, v) >= 0
}

// ---------------------------------------------------------------------------
// backend bodies

func c48Pattern(tag string, n int) []byte {
	b := make([]byte, 0, n+64)
	for i := 0; len(b) < n; i++ {
		b = append(b, fmt.Sprintf("[%s:%06d]", tag, i)...)
	}
	return b[:n]
}

func c48BkBody(shape, id string) []byte {
	switch shape {
	case "empty":
		return nil
	case "small":
		return []byte("backend id=" + id)
	case "large":
		return c48Pattern("L-"+id, 192<<10)
	case "chunked":
		return c48Pattern("K-"+id, 9000)
	}
	return []byte("backend id=" + id)
}

// c48BackendAction is the backend of the C48 server: requests without X-Bk get
// the reply they always got; stream cases choose the body shape.
func c48BackendAction(x *e2e.Exchange) e2e.Action {
	id := x.Req.Header.Get("X-Id")
	shape := x.Req.Header.Get("X-Bk")
	switch shape {
	case "drop": // the backend fails: connection closed without a reply (bfe answers with its internal 500)
		return e2e.Action{CloseBefore: true}
	case "304":
		return e2e.Action{Raw: []byte("HTTP/1.1 304 Not Modified\r\nETag: \"c48\"\r\nX-Bk-Shape: 304\r\n\r\n")}
	}
	if shape == "" {
		body := "backend id=" + id
		if x.Req.Method == "HEAD" {
			// a response to HEAD has no body: writing one leaves unsolicited bytes on the backend connection,
			// and whichever request bfe sends next on that pooled connection is answered with garbage (-> 500)
			return e2e.Action{Raw: []byte(fmt.Sprintf("HTTP/1.1 200 OK\r\nContent-Length: %d\r\n\r\n", len(body)))}
		}
		return e2e.Action{Status: 200, Body: []byte(body)}
	}
	body := c48BkBody(shape, id)
	var w bytes.Buffer
	w.WriteString("HTTP/1.1 200 OK\r\nX-Bk-Shape: " + shape + "\r\n")
	if shape == "chunked" {
		w.WriteString("Transfer-Encoding: chunked\r\n\r\n")
		if x.Req.Method != "HEAD" {
			for _, n := range []int{1000, 4096, len(body) - 5096} {
				w.WriteString(strconv.FormatInt(int64(n), 16) + "\r\n")
				w.Write(body[:n])
				w.WriteString("\r\n")
				body = body[n:]
			}
			w.WriteString("0\r\n\r\n")
		}
	} else {
		fmt.Fprintf(&w, "Content-Length: %d\r\n\r\n", len(body))
		if x.Req.Method != "HEAD" {
			w.Write(body)
		}
	}
	return e2e.Action{Raw: w.Bytes(), ChunkSizes: []int{16 << 10}}
}

// ---------------------------------------------------------------------------
// strict response-stream parser (RFC 7230 section 3: status line, header fields,
// message body length rules 1-7)

type c48Resp struct {
	Status   int
	Header   map[string][]string // canonical-cased by the parser: lower-case keys
	Body     []byte
	Framing  string // "none" | "chunked" | "length" | "eof"
	Complete bool
}

func (p *c48Resp) get(k string) string {
	if v := p.Header[strings.ToLower(k)]; len(v) > 0 {
		return v[0]
	}
	return ""
}

// c48ParseOne parses one response from b. n is the number of bytes consumed.
// err != "" means b does not start with a well-formed response head.
func c48ParseOne(b []byte, method string) (res *c48Resp, n int, err string) {
	he := bytes.Index(b, []byte("\r\n\r\n"))
	if he < 0 {
		return nil, 0, "no complete response head"
	}
	lines := strings.Split(string(b[:he]), "\r\n")
	sl := lines[0]
	if len(sl) < 12 || !strings.HasPrefix(sl, "HTTP/1.") || sl[8] != ' ' {
		return nil, 0, fmt.Sprintf("bad status line %q", truncS(sl, 60))
	}
	st, e := strconv.Atoi(sl[9:12])
	if e != nil || st < 100 || (len(sl) > 12 && sl[12] != ' ') {
		return nil, 0, fmt.Sprintf("bad status line %q", truncS(sl, 60))
	}
	res = &c48Resp{Status: st, Header: map[string][]string{}}
	for _, l := range lines[1:] {
		i := strings.IndexByte(l, ':')
		if i <= 0 || strings.ContainsAny(l[:i], " \t") {
			return nil, 0, fmt.Sprintf("bad header line %q", truncS(l, 60))
		}
		k := strings.ToLower(l[:i])
		res.Header[k] = append(res.Header[k], strings.Trim(l[i+1:], " \t"))
	}
	pos := he + 4
	switch {
	case method == "HEAD" || st/100 == 1 || st == 204 || st == 304:
		res.Framing, res.Complete = "none", true
		return res, pos, ""
	case strings.EqualFold(res.get("transfer-encoding"), "chunked"):
		res.Framing = "chunked"
		for {
			le := bytes.Index(b[pos:], []byte("\r\n"))
			if le < 0 {
				return res, len(b), ""
			}
			szs := string(b[pos : pos+le])
			if i := strings.IndexByte(szs, ';'); i >= 0 {
				szs = szs[:i]
			}
			sz, e := strconv.ParseUint(strings.TrimSpace(szs), 16, 31)
			if e != nil || szs == "" {
				return nil, 0, fmt.Sprintf("bad chunk-size line %q", truncS(szs, 40))
			}
			pos += le + 2
			if sz == 0 {
				// trailer section, then CRLF
				for {
					te := bytes.Index(b[pos:], []byte("\r\n"))
					if te < 0 {
						return res, len(b), ""
					}
					pos += te + 2
					if te == 0 {
						res.Complete = true
						return res, pos, ""
					}
				}
			}
			if len(b) < pos+int(sz)+2 {
				res.Body = append(res.Body, b[pos:min(len(b), pos+int(sz))]...)
				return res, len(b), ""
			}
			res.Body = append(res.Body, b[pos:pos+int(sz)]...)
			pos += int(sz)
			if b[pos] != '\r' || b[pos+1] != '\n' {
				return nil, 0, "chunk data not followed by CRLF"
			}
			pos += 2
		}
	case res.get("content-length") != "":
		res.Framing = "length"
		cl, e := strconv.ParseUint(res.get("content-length"), 10, 31)
		if e != nil || len(res.Header["content-length"]) != 1 {
			return nil, 0, "bad Content-Length"
		}
		if len(b) < pos+int(cl) {
			res.Body = b[pos:]
			return res, len(b), ""
		}
		res.Body, res.Complete = b[pos:pos+int(cl)], true
		return res, pos + int(cl), ""
	}
	res.Framing, res.Complete = "eof", true
	res.Body = b[pos:]
	return res, len(b), ""
}

func truncS(s string, n int) string {
	if len(s) > n {
		return s[:n]
	}
	return s
}

// ---------------------------------------------------------------------------
// client

type c48SObs struct {
	Raw     []byte
	End     string // "eof" | "reset" | "timeout" | "dial:<err>" | "handshake:<err>"
	TLSDone bool
}

type countConn struct {
	net.Conn
	n *int64
}

func (c countConn) Read(p []byte) (int, error) {
	k, err := c.Conn.Read(p)
	*c.n += int64(k)
	return k, err
}

func c48SRequest(c *c48SCase) []byte {
	var w bytes.Buffer
	fmt.Fprintf(&w, "%s /c48/%s HTTP/1.1\r\nHost: c48.test\r\nX-Id: %s\r\n", c.Method, c.ID, c.ID)
	if c.Kind == "stream" {
		fmt.Fprintf(&w, "X-Vs: %s\r\nX-Bk: %s\r\n", c.Script, c.Bk)
	}
	if c.Method == "POST" {
		w.WriteString("Content-Length: 3\r\n\r\nabc")
	} else {
		w.WriteString("\r\n")
	}
	// the pipelined probe; it asks for the connection to be closed so that the stream has an end
	fmt.Fprintf(&w, "GET /c48/probe-%s HTTP/1.1\r\nHost: c48.test\r\nX-Id: probe-%s\r\nConnection: close\r\n\r\n", c.ID, c.ID)
	return w.Bytes()
}

func c48SRun(srv *e2e.Server, c *c48SCase) *c48SObs {
	o := &c48SObs{}
	d := net.Dialer{Timeout: 5 * time.Second}
	if c.SrcIP != "" {
		d.LocalAddr = &net.TCPAddr{IP: net.ParseIP(c.SrcIP)}
	}
	addr := srv.HTTPAddr
	if c.TLS {
		addr = srv.HTTPSAddr
	}
	tc, err := d.Dial("tcp", addr)
	if err != nil {
		o.End = "dial:" + err.Error()
		return o
	}
	defer tc.Close()
	tc.SetDeadline(time.Now().Add(30 * time.Second))
	var conn net.Conn = tc
	var tcpBytes int64
	if c.TLS {
		tl := tls.Client(countConn{tc, &tcpBytes}, &tls.Config{InsecureSkipVerify: true, NextProtos: []string{"http/1.1"}, MaxVersion: tls.VersionTLS12})
		if err := tl.Handshake(); err != nil {
			o.End = "handshake:" + err.Error()
			if tcpBytes == 0 {
				o.End = "handshake-no-bytes:" + err.Error()
			}
			return o
		}
		o.TLSDone = true
		conn = tl
	}
	conn.Write(c48SRequest(c))
	raw, err := io.ReadAll(conn)
	o.Raw = raw
	switch {
	case err == nil:
		o.End = "eof"
	case isTimeout(err):
		o.End = "timeout"
	default:
		// reset by peer (the server closed with our pipelined bytes unread), or TLS close without close_notify
		o.End = "reset"
	}
	return o
}

func isTimeout(err error) bool {
	ne, ok := err.(net.Error)
	return ok && ne.Timeout()
}

// ---------------------------------------------------------------------------
// connection-level scripted filters

type connScripts struct {
	mu     sync.Mutex
	byIP   map[string]*c48SCase
	events map[string][]fEvent
}

func (s *connScripts) verdict(sess *bfe_basic.Session, point, idx int) int {
	if sess == nil || sess.RemoteAddr == nil {
		return bfe_module.BfeHandlerGoOn
	}
	s.mu.Lock()
	defer s.mu.Unlock()
	c := s.byIP[sess.RemoteAddr.IP.String()]
	if c == nil {
		return bfe_module.BfeHandlerGoOn
	}
	s.events[c.ID] = append(s.events[c.ID], fEvent{point, idx})
	v := scriptFor(c.Script, point)
	if idx < len(v) {
		if x, ok := verdictOf[v[idx]]; ok {
			return x
		}
	}
	return bfe_module.BfeHandlerGoOn
}

func (s *connScripts) take(id string) []fEvent {
	s.mu.Lock()
	defer s.mu.Unlock()
	return append([]fEvent(nil), s.events[id]...)
}

var c48ConnPoints = []int{bfe_module.HandleAccept, bfe_module.HandleHandshake, bfe_module.HandleFinish}

func installConnFilters(srv *e2e.Server, s *connScripts) error {
	for _, p := range c48ConnPoints {
		for i := 0; i < nFilters; i++ {
			p, i := p, i
			if err := srv.Srv.CallBacks.AddFilter(p, func(sess *bfe_basic.Session) int { return s.verdict(sess, p, i) }); err != nil {
				return err
			}
		}
	}
	return nil
}

// ---------------------------------------------------------------------------
// cases

func c48StreamCases(r *vkit.Run) (stream, conn []*c48SCase) {
	n := 0
	addS := func(script, method, bk string) {
		stream = append(stream, &c48SCase{Kind: "stream", ID: fmt.Sprintf("s%d", n), Script: script, Method: method, Bk: bk})
		n++
	}
	methods := []string{"GET", "POST", "HEAD"}
	// every verdict letter (honoured or not) at every request-level point, as the first and as the last filter
	for _, p := range c48Points {
		for i := 0; i < len(c48AllVerdicts); i++ {
			v := string(c48AllVerdicts[i])
			for _, pre := range []string{"", "GGG"} {
				if v == "G" && pre != "" {
					continue
				}
				for _, bk := range c48Bks {
					for _, m := range methods {
						addS(fmt.Sprintf("%d=%s%s", p, pre, v), m, bk)
					}
				}
			}
		}
	}
	// a Response verdict in the request phase followed by a verdict at HandleReadResponse / HandleRequestFinish
	// (the response the later filter sees is the earlier filter's, no backend is involved)
	for _, p := range c48Points[:3] {
		for _, late := range []string{"4=R", "4=GGGR", "4=F", "5=F"} {
			late = strings.Replace(strings.Replace(late, "4=", fmt.Sprintf("%d=", bfe_module.HandleReadResponse), 1), "5=", fmt.Sprintf("%d=", bfe_module.HandleRequestFinish), 1)
			for _, m := range methods {
				addS(fmt.Sprintf("%d=GP;%s", p, late), m, "small")
			}
		}
	}
	// seeded: two or three points at once
	for i := 0; i < r.N(300, 6000); i++ {
		g := r.Rng("stream-multi", i)
		var parts []string
		for _, p := range c48Points {
			if g.Chance(2, 5) {
				l := g.Range(0, nFilters-1)
				parts = append(parts, fmt.Sprintf("%d=%s%c", p, strings.Repeat("G", l), c48AllVerdicts[g.Intn(len(c48AllVerdicts))]))
			}
		}
		addS(strings.Join(parts, ";"), methods[g.Intn(3)], c48Bks[g.Intn(len(c48Bks))])
	}
	// connection-level points
	k := 0
	addC := func(p int, vec string, tlsOn bool) {
		k++
		conn = append(conn, &c48SCase{Kind: "conn", ID: fmt.Sprintf("k%d", k), Script: fmt.Sprintf("%d=%s", p, vec), Method: "GET", TLS: tlsOn,
			SrcIP: fmt.Sprintf("127.48.%d.%d", 1+k/250, 1+k%250)})
	}
	for _, p := range c48ConnPoints {
		var vecs []string
		for _, v := range allVectors(c48AllVerdicts, 2) {
			vecs = append(vecs, v)
		}
		for i := 0; i < len(c48AllVerdicts); i++ {
			vecs = append(vecs, "GGG"+string(c48AllVerdicts[i]), "GG"+string(c48AllVerdicts[i]))
		}
		for _, v := range vecs {
			if p != bfe_module.HandleHandshake {
				addC(p, v, false)
			}
			if p != bfe_module.HandleFinish {
				addC(p, v, true)
			}
		}
	}
	return stream, conn
}

// ---------------------------------------------------------------------------
// oracle

type c48Eff struct {
	p, k int
	v    byte
}

func c48RedirectNote(loc string) string {
	// net/http-style redirect: for GET a short HTML note, nothing for other methods
	esc := strings.NewReplacer("&", "&amp;", "<", "&lt;", ">", "&gt;", `"`, "&#34;", "'", "&#39;").Replace(loc)
	return "<a href=\"" + esc + "\">Found</a>.\n\n"
}

// c48JudgeStream applies the oracle to one stream/conn case.
func c48JudgeStream(r *vkit.Run, c *c48SCase, o *c48SObs, ev []fEvent, arrivals int) {
	w := map[string]interface{}{"case": c, "filter_calls": ev, "stream_len": len(o.Raw), "stream_head": string(o.Raw[:min(len(o.Raw), 1500)]),
		"stream_end": o.End, "backend_arrivals": arrivals}
	if len(o.Raw) > 1500 {
		w["stream_tail"] = string(o.Raw[len(o.Raw)-min(len(o.Raw)-1500, 600):])
	}
	points := c48Points
	if c.Kind == "conn" {
		points = c48ConnPoints
	}
	per := map[int][]int{}
	for _, e := range ev {
		per[e.Point] = append(per[e.Point], e.Idx)
	}
	// (1) order and stop: every verdict other than GoOn stops the chain, honoured or not
	var effs []c48Eff
	nontrivial, unhonoured := false, false
	for _, p := range points {
		s := scriptFor(c.Script, p)
		k := firstStop(s)
		if k >= 0 {
			nontrivial = true
		}
		calls := per[p]
		if len(calls) == 0 && p == bfe_module.HandleRequestFinish && c.Kind == "stream" && (o.End == "eof" || o.End == "reset") {
			// the request-finish point is passed by every request, whatever produced its reply (c48finish.go); the
			// end of the connection was observed, so the request is over
			r.Violation("order:HandleRequestFinish:chain-never-ran", fmt.Sprintf("no filter was called at HandleRequestFinish for a request whose connection has ended (script %q)", c.Script), w)
			if k >= 0 && c48Honoured(p, s[k]) {
				effs = append(effs, c48Eff{p, k, s[k]})
			}
			continue
		}
		if len(calls) == 0 {
			continue
		}
		want := nFilters
		if k >= 0 {
			want = k + 1
		}
		ok := len(calls) == want
		for j := 0; j < len(calls) && j < want; j++ {
			if calls[j] != j {
				ok = false
			}
		}
		if p == bfe_module.HandleFinish && len(calls) < want {
			// the session-finish callback runs after the connection is gone: the log may still be growing; only
			// "too many" / "out of order" are judged there
			prefix := true
			for j := range calls {
				prefix = prefix && calls[j] == j
			}
			if prefix {
				ok = true
				r.Count("stream_finish_point_log_incomplete", 1)
			}
		}
		if !ok {
			shape := "wrong-order"
			if len(calls) > want {
				shape = "chain-not-stopped"
			} else if len(calls) < want {
				shape = "chain-cut-short"
			}
			r.Violation(fmt.Sprintf("order:%s:%s", bfe_module.CallbackPointName(p), shape),
				fmt.Sprintf("filters called at %s: %v, script %q wants 0..%d", bfe_module.CallbackPointName(p), calls, s, want-1), w)
		}
		if k >= 0 {
			r.Count(fmt.Sprintf("stream_stop:%c@%s", s[k], bfe_module.CallbackPointName(p)), 1)
			if c48Honoured(p, s[k]) {
				effs = append(effs, c48Eff{p, k, s[k]})
			} else {
				unhonoured = true
			}
		}
	}
	r.CaseS("stream|"+c.Kind+"|"+c.Script+"|"+c.Method+"|"+c.Bk+"|"+fmt.Sprint(c.TLS), nontrivial)
	r.Count("stream_cases", 1)
	if o.End == "timeout" || strings.HasPrefix(o.End, "dial:") {
		r.Count("stream_skipped:"+strings.SplitN(o.End, ":", 2)[0], 1)
		return
	}
	// (2) what the verdicts demand
	kind := byte('G')
	var dec c48Eff
	if len(effs) > 0 {
		first, last := effs[0], effs[len(effs)-1]
		anyF := false
		for _, e := range effs {
			anyF = anyF || e.v == 'F'
		}
		switch {
		case first.v == 'C':
			kind, dec = 'C', first
		case anyF:
			kind, dec = 'F', last
		default:
			kind, dec = last.v, last
		}
	}
	pn := bfe_module.CallbackPointName(dec.p)
	// parse the complete stream
	var resps []*c48Resp
	rest := o.Raw
	perr := ""
	for i, m := range []string{c.Method, "GET"} {
		if len(rest) == 0 {
			break
		}
		pr, n, e := c48ParseOne(rest, m)
		if e != "" {
			perr = fmt.Sprintf("response %d: %s", i+1, e)
			break
		}
		resps = append(resps, pr)
		rest = rest[n:]
		if !pr.Complete {
			break
		}
	}
	w["parsed_responses"] = len(resps)
	w["parse_error"] = perr
	w["unparsed_bytes"] = len(rest)
	probeFailed := false
	isProbe := func(p *c48Resp) bool {
		if p.Complete && p.Status >= 500 && len(p.Body) == 0 && p.get("Server") == "bfe" {
			// bfe's own error reply: the probe could not be forwarded (backend side), still the probe's reply
			probeFailed = true
			return true
		}
		return p.Complete && p.Status == 200 && string(p.Body) == "backend id=probe-"+c.ID
	}
	// tail: after the demanded response nothing, or exactly the probe's own response, then the end
	tailOK := func() (ok bool, why string) {
		switch {
		case perr != "":
			return false, "bytes after the response that are not an HTTP response (" + perr + ")"
		case len(resps) == 1 && len(rest) == 0:
			return true, ""
		case len(resps) == 2 && isProbe(resps[1]) && len(rest) == 0:
			return true, ""
		case len(resps) == 2 && !resps[1].Complete:
			return false, "incomplete second response"
		case len(resps) == 2 && !isProbe(resps[1]):
			return false, fmt.Sprintf("a second response that is not the probe's own (status %d, %d body bytes)", resps[1].Status, len(resps[1].Body))
		}
		return false, fmt.Sprintf("%d surplus bytes after the probe's response", len(rest))
	}
	if c.Kind == "conn" {
		r.Count("stream_conn_cases", 1)
	}
	switch kind {
	case 'C':
		r.Count("stream_judged:C@"+pn, 1)
		n := len(o.Raw)
		if c.TLS && dec.p == bfe_module.HandleAccept && !strings.HasPrefix(o.End, "handshake-no-bytes:") {
			r.Violation("close:bytes-sent:"+pn, "Close verdict at HandleAccept but the server sent bytes (TLS handshake progressed): "+o.End, w)
		} else if n != 0 {
			r.Violation("close:bytes-sent:"+pn, fmt.Sprintf("Close verdict at %s but the client received %d bytes", pn, n), w)
		}
		if c.Kind == "stream" && arrivals != 0 {
			r.Violation("close:backend-contacted:"+pn, "Close verdict but the request reached a backend", w)
		}
		return
	case 'G':
		// control (also verdicts the framework does not consult at that point): plain proxying; validates
		// parser and pipelining, judged by other properties
		if strings.HasPrefix(o.End, "handshake") {
			r.Count("stream_control_unexpected", 1)
			return
		}
		wantBody := string(c48BkBody(c.Bk, c.ID))
		if c.Method == "HEAD" {
			wantBody = ""
		}
		tok, _ := tailOK()
		if len(resps) == 2 && resps[0].Complete && resps[0].Status == 200 && string(resps[0].Body) == wantBody && tok {
			r.Count("stream_control_ok", 1)
			if unhonoured {
				r.Count("stream_unconsulted_verdict_ignored", 1)
			} else if c.Kind == "stream" {
				r.Count("stream_control_ok_bk:"+c.Bk, 1)
			}
		} else {
			r.Count("stream_control_unexpected", 1)
		}
		return
	}
	if f0 := effs[0]; (f0.v == 'P' || f0.v == 'R') && arrivals != 0 &&
		(f0.p == bfe_module.HandleBeforeLocation || f0.p == bfe_module.HandleFoundProduct || f0.p == bfe_module.HandleAfterLocation) {
		r.Violation("response-or-redirect:backend-contacted:"+bfe_module.CallbackPointName(f0.p), "Response/Redirect verdict before forwarding but the request reached a backend", w)
	}
	if len(resps) == 0 || !resps[0].Complete {
		if o.End == "reset" {
			// connection reset with our pipelined probe unread at the server: the kernel may have discarded
			// bytes in flight; not decidable from this side
			r.Count("stream_skipped:reset-before-complete-response", 1)
			return
		}
		name := map[byte]string{'F': "finish", 'P': "response", 'R': "redirect"}[kind]
		sig := name + ":no-complete-reply:" + pn
		if kind == 'F' {
			sig = "finish:no-reply:" + pn
		}
		r.Violation(sig, fmt.Sprintf("%s verdict at %s: the connection ended without one complete response (%d bytes, %s)", name, pn, len(o.Raw), perr), w)
		return
	}
	first := resps[0]
	r.Count(fmt.Sprintf("stream_judged:%c@%s", kind, pn), 1)
	r.Count("stream_judged_method:"+c.Method, 1)
	switch kind {
	case 'F':
		if len(resps) >= 2 && isProbe(resps[1]) {
			r.Violation("finish:connection-kept-alive:"+pn, "Finish verdict but the connection answered the pipelined request", w)
		} else if ok, why := tailOK(); !ok {
			r.Violation("finish:surplus-bytes-after-response:"+pn, "Finish verdict: after the reply the connection carried "+why, w)
		}
	case 'P':
		want := fmt.Sprintf("%s/%d/%d", c.ID, dec.p, dec.k)
		wantBody := fmt.Sprintf("filter-response id=%s point=%d idx=%d", c.ID, dec.p, dec.k)
		if c.Method == "HEAD" {
			wantBody = ""
		}
		switch {
		case first.Status != 403 || first.get("X-Filter-Resp") != want:
			r.Violation("response:not-the-filter-response:"+pn, "Response verdict but the client did not receive the filter's response", w)
		case string(first.Body) != wantBody && strings.HasPrefix(string(first.Body), wantBody):
			r.Violation("response:surplus-bytes-after-response:"+pn, fmt.Sprintf("Response verdict: the body carries %d bytes after the filter's %d", len(first.Body)-len(wantBody), len(wantBody)), w)
		case string(first.Body) != wantBody:
			r.Violation("response:body-differs:"+pn, "Response verdict: the body is not the filter's body", w)
		default:
			if ok, why := tailOK(); !ok {
				r.Violation("response:surplus-bytes-after-response:"+pn, "Response verdict: after the filter's response the connection carried "+why, w)
			}
		}
	case 'R':
		loc := fmt.Sprintf("/redir/%s/%d/%d", c.ID, dec.p, dec.k)
		wantBody := ""
		if c.Method == "GET" {
			wantBody = c48RedirectNote(loc)
		}
		if dec.p == bfe_module.HandleReadResponse && c.Kind == "stream" && arrivals > 0 && c.Method != "HEAD" && c.Bk != "empty" {
			r.Count("stream_redirect_replacing_nonempty_backend_body", 1)
		}
		switch {
		case first.Status != 302 || first.get("Location") != loc:
			r.Violation("redirect:not-the-redirect:"+pn, "Redirect verdict but the client did not receive that redirect (status/Location)", w)
		case string(first.Body) != wantBody && strings.HasPrefix(string(first.Body), wantBody):
			r.Violation("redirect:surplus-bytes-after-response:"+pn, fmt.Sprintf("Redirect verdict: the 302 carries %d body bytes after the %d bytes the redirect writes (%q...)", len(first.Body)-len(wantBody), len(wantBody), truncS(string(first.Body[len(wantBody):]), 60)), w)
		case string(first.Body) != wantBody:
			r.Violation("redirect:body-differs:"+pn, fmt.Sprintf("Redirect verdict: the 302's body is not what the redirect writes: %q", truncS(string(first.Body), 120)), w)
		default:
			if ok, why := tailOK(); !ok {
				r.Violation("redirect:surplus-bytes-after-response:"+pn, "Redirect verdict: after the redirect the connection carried "+why, w)
			}
		}
	}
	if len(resps) == 2 {
		r.Count("stream_probe_answered_after_verdict", 1)
		if probeFailed {
			r.Count("stream_probe_answered_with_bfe_5xx", 1)
		}
	}
	if r.WantSample() && kind == 'R' && dec.p == bfe_module.HandleReadResponse && c.Bk == "large" {
		r.Sample(w)
	}
}

func c48RunStreamCase(srv *e2e.Server, c *c48SCase) *c48SObs { return c48SRun(srv, c) }

// c48Stream runs the complete-stream family against the running server.
func c48Stream(r *vkit.Run, srv *e2e.Server, log *filterLog, cs *connScripts, bs *e2e.BackendSet, only *c48SCase) {
	var stream, conn []*c48SCase
	if only != nil {
		if only.Kind == "conn" {
			conn = append(conn, only)
		} else {
			stream = append(stream, only)
		}
	} else {
		stream, conn = c48StreamCases(r)
	}
	cs.mu.Lock()
	for _, c := range conn {
		cs.byIP[c.SrcIP] = c
	}
	cs.mu.Unlock()
	all := append(append([]*c48SCase{}, stream...), conn...)
	obs := make([]*c48SObs, len(all))
	t0 := time.Now()
	vkit.Parallel(len(all), 32, func(i int) { obs[i] = c48RunStreamCase(srv, all[i]) })
	r.Extra("stream_family_wall_s", time.Since(t0).Seconds()) // evidence only
	// the session-finish callback runs after the client saw the end: give the logs a bounded moment (coverage
	// only: a log that is still short is never judged as cut short)
	for i := 0; i < 30; i++ {
		missing := 0
		for _, c := range conn {
			if strings.HasPrefix(c.Script, fmt.Sprintf("%d=", bfe_module.HandleFinish)) && len(cs.take(c.ID)) == 0 {
				missing++
			}
		}
		if missing == 0 {
			break
		}
		time.Sleep(100 * time.Millisecond)
	}
	arrived := map[string]int{}
	for _, x := range bs.Exchanges() {
		arrived[x.Req.Header.Get("X-Id")]++
	}
	for i, c := range all {
		var ev []fEvent
		if c.Kind == "conn" {
			ev = cs.take(c.ID)
		} else {
			ev = log.take(c.ID)
		}
		c48JudgeStream(r, c, obs[i], ev, arrived[c.ID])
	}
	if only != nil {
		return
	}
	// every shape the family exists for must have been judged
	for _, p := range c48Points {
		for i := 1; i < len(c48Alpha[p]); i++ {
			k := fmt.Sprintf("stream_judged:%c@%s", c48Alpha[p][i], bfe_module.CallbackPointName(p))
			if r.Counter(k) == 0 {
				r.Inconclusive("complete-stream family: shape never judged: " + k)
			}
		}
	}
	for _, p := range []int{bfe_module.HandleAccept, bfe_module.HandleHandshake} {
		if k := "stream_judged:C@" + bfe_module.CallbackPointName(p); r.Counter(k) == 0 {
			r.Inconclusive("complete-stream family: shape never judged: " + k)
		}
	}
	for _, bk := range c48Bks {
		if r.Counter("stream_control_ok_bk:"+bk) == 0 {
			r.Inconclusive("complete-stream family: the control (all GoOn, pipelined probe) never produced the expected two responses for backend body " + bk + " (parser / pipelining unvalidated)")
		}
	}
	if r.Counter("stream_redirect_replacing_nonempty_backend_body") == 0 {
		r.Inconclusive("complete-stream family: no Redirect verdict at HandleReadResponse replaced a non-empty backend body")
	}
	if r.Counter("stream_probe_answered_after_verdict") == 0 {
		r.Inconclusive("complete-stream family: the pipelined probe was never answered after a Response/Redirect verdict")
	}
	if r.Counter("stream_unconsulted_verdict_ignored") == 0 {
		r.Inconclusive("complete-stream family: no verdict the framework does not consult was observed to stop its chain")
	}
}

func newConnScripts() *connScripts {
	return &connScripts{byIP: map[string]*c48SCase{}, events: map[string][]fEvent{}}
}
