package main

import (
	"fmt"
	"net"
	"sort"
	"strings"
	"sync"
	"sync/atomic"
	"time"

	backend "github.com/bfenetworks/bfe/bfe_balance/backend"
	"github.com/bfenetworks/bfe/bfe_basic"
	"github.com/bfenetworks/bfe/bfe_module"

	"verifharness/e2e"
	"verifharness/vkit"
)

// C07: for every backend the active-connection count equals the number of
// in-flight proxied requests assigned to it, never goes negative and returns
// to zero when all requests have finished, whatever retries, failures or module
// verdicts occur.
//
// Monitors:
//  (a) quiescence: after every batch, when every client connection's session has
//      been finished by bfe (HandleFinish callback count == accepted count) all
//      backends must report ConnNum()==0;
//  (b) never negative: sampled at every forward callback and at quiescence;
//  (c) conservation while parked: K requests are held inside the scripted
//      backends; then ConnNum(b) must equal the number of requests parked at b.

type c07Req struct {
	ID      string `json:"id"`
	Host    string `json:"host"`
	Method  string `json:"method"`
	Script  string `json:"script"`  // filter verdict script (X-Vs)
	Be      string `json:"backend"` // backend behaviour: ok | close1 | closeall | reset1
	Abandon bool   `json:"abandon"` // client closes without reading the reply
}

func (q *c07Req) bytes() []byte {
	body := ""
	extra := ""
	if q.Method == "POST" {
		body = "payload-" + q.ID
		extra = fmt.Sprintf("Content-Length: %d\r\n", len(body))
	}
	return []byte(fmt.Sprintf("%s /c07/%s HTTP/1.1\r\nHost: %s\r\nX-Id: %s\r\nX-Vs: %s\r\nX-Be: %s\r\nConnection: close\r\n%s\r\n%s",
		q.Method, q.ID, q.Host, q.ID, q.Script, q.Be, extra, body))
}

type c07Env struct {
	srv      *e2e.Server
	bs       *e2e.BackendSet
	log      *filterLog
	accepted int64
	finished int64
	hold     atomic.Value // chan struct{} or nil: park requests with X-Be: park
	seenMu   sync.Mutex
	seen     map[string]int // id -> arrivals
	byPort   map[int]*e2e.BackendServer
}

func c07Setup(r *vkit.Run) (*c07Env, error) {
	env := &c07Env{log: newFilterLog(), bs: e2e.NewBackendSet(), seen: map[string]int{}, byPort: map[int]*e2e.BackendServer{}}
	on := func(x *e2e.Exchange) e2e.Action {
		id := x.Req.Header.Get("X-Id")
		env.seenMu.Lock()
		env.seen[id]++
		n := env.seen[id]
		env.seenMu.Unlock()
		switch x.Req.Header.Get("X-Be") {
		case "close1":
			if n == 1 {
				return e2e.Action{CloseBefore: true}
			}
		case "closeall":
			return e2e.Action{CloseBefore: true}
		case "reset1":
			if n == 1 {
				return e2e.Action{Reset: true}
			}
		case "park":
			if ch, ok := env.hold.Load().(chan struct{}); ok && ch != nil {
				return e2e.Action{Status: 200, Body: []byte("parked " + id), Hold: ch}
			}
		}
		return e2e.Action{Status: 200, Body: []byte("ok " + id)}
	}
	mk := func(n int, prefix string) []e2e.Backend {
		var out []e2e.Backend
		for i := 0; i < n; i++ {
			b := env.bs.New(fmt.Sprintf("%s%d", prefix, i), on)
			env.byPort[b.Port] = b
			out = append(out, e2e.Backend{Name: b.Name, Addr: b.Addr, Port: b.Port, Weight: 1 + i})
		}
		return out
	}
	dead := e2e.Backend{Name: "dead", Addr: "127.0.0.1", Port: e2e.ClosedPort(), Weight: 2}
	clusters := []e2e.Cluster{
		{Name: "c07wlc", Hosts: []string{"wlc.c07.test"}, BalanceMode: "WLC", RetryLevel: 1, RetryMax: 2, CrossRetry: 1, MaxIdleConnsPerHost: 2,
			SubClusters: []e2e.SubCluster{
				{Name: "s1", Weight: 100, Backends: append(mk(3, "wlcA"), dead)},
				{Name: "s2", Weight: 0, Backends: mk(2, "wlcB")},
			}},
		{Name: "c07wrr", Hosts: []string{"wrr.c07.test"}, BalanceMode: "WRR", RetryLevel: 0, RetryMax: 1, CrossRetry: 0, MaxIdleConnsPerHost: 0,
			SubClusters: []e2e.SubCluster{
				{Name: "s1", Weight: 100, Backends: append(mk(2, "wrrA"), dead)},
			}},
		{Name: "c07dead", Hosts: []string{"dead.c07.test"}, BalanceMode: "WLC", RetryLevel: 1, RetryMax: 2, CrossRetry: 1,
			SubClusters: []e2e.SubCluster{
				{Name: "s1", Weight: 100, Backends: []e2e.Backend{dead, {Name: "dead2", Addr: "127.0.0.1", Port: e2e.ClosedPort(), Weight: 1}}},
				{Name: "s2", Weight: 0, Backends: []e2e.Backend{{Name: "dead3", Addr: "127.0.0.1", Port: e2e.ClosedPort(), Weight: 1}}},
			}},
	}
	srv, err := e2e.Start(&e2e.Options{Clusters: clusters})
	if err != nil {
		return nil, err
	}
	env.srv = srv
	if err := installScriptedFilters(srv, env.log); err != nil {
		return nil, err
	}
	cb := srv.Srv.CallBacks
	if err := cb.AddFilter(bfe_module.HandleAccept, func(s *bfe_basic.Session) int {
		atomic.AddInt64(&env.accepted, 1)
		return bfe_module.BfeHandlerGoOn
	}); err != nil {
		return nil, err
	}
	if err := cb.AddFilter(bfe_module.HandleFinish, func(s *bfe_basic.Session) int {
		atomic.AddInt64(&env.finished, 1)
		return bfe_module.BfeHandlerGoOn
	}); err != nil {
		return nil, err
	}
	return env, nil
}

// quiesce waits until bfe has finished every accepted client session. It is a
// barrier on bfe's own events, guarded by a watchdog (false => inconclusive).
func (e *c07Env) quiesce(dialed int64) bool {
	for i := 0; i < 3000; i++ {
		if atomic.LoadInt64(&e.finished) >= dialed && atomic.LoadInt64(&e.accepted) >= dialed {
			return true
		}
		time.Sleep(10 * time.Millisecond)
	}
	return false
}

func (e *c07Env) backends() []*backend.BfeBackend {
	e.log.mu.Lock()
	defer e.log.mu.Unlock()
	var out []*backend.BfeBackend
	for b := range e.log.backends {
		out = append(out, b)
	}
	sort.Slice(out, func(i, j int) bool { return out[i].Port < out[j].Port })
	return out
}

func c07Send(addr string, q *c07Req) string {
	c, err := net.DialTimeout("tcp", addr, 5*time.Second)
	if err != nil {
		return "dial:" + err.Error()
	}
	defer c.Close()
	c.SetDeadline(time.Now().Add(30 * time.Second))
	if _, err := c.Write(q.bytes()); err != nil {
		return "write"
	}
	if q.Abandon {
		return "abandoned"
	}
	buf := make([]byte, 4096)
	var sb strings.Builder
	for {
		n, err := c.Read(buf)
		sb.Write(buf[:n])
		if err != nil {
			break
		}
	}
	s := sb.String()
	if len(s) >= 12 {
		return s[9:12]
	}
	return "empty"
}

func c07GenReq(g *vkit.Rand, id string) *c07Req {
	q := &c07Req{ID: id, Method: "GET", Be: "ok"}
	q.Host = g.PickS([]string{"wlc.c07.test", "wlc.c07.test", "wrr.c07.test", "dead.c07.test"})
	if g.Chance(1, 3) {
		q.Method = "POST"
	}
	q.Be = g.PickS([]string{"ok", "ok", "ok", "close1", "closeall", "reset1"})
	var parts []string
	for _, p := range c48Points {
		if !g.Chance(1, 4) {
			continue
		}
		a := c48Alpha[p]
		l := g.Range(1, nFilters)
		b := make([]byte, l)
		for k := range b {
			if g.Chance(1, 2) {
				b[k] = 'G'
			} else {
				b[k] = a[g.Intn(len(a))]
			}
		}
		parts = append(parts, fmt.Sprintf("%d=%s", p, b))
	}
	q.Script = strings.Join(parts, ";")
	q.Abandon = g.Chance(1, 12)
	return q
}

// c07Shape names the ingredients of a request for signatures and distinct counting.
func c07Shape(q *c07Req) string {
	var f []string
	f = append(f, strings.Split(q.Host, ".")[0], q.Method, "be="+q.Be)
	for _, p := range c48Points {
		s := scriptFor(q.Script, p)
		if k := firstStop(s); k >= 0 {
			f = append(f, fmt.Sprintf("%s=%c", bfe_module.CallbackPointName(p), s[k]))
		}
	}
	if q.Abandon {
		f = append(f, "abandon")
	}
	return strings.Join(f, ",")
}

func c07(r *vkit.Run) {
	r.SetRule("full in-process BFE, 3 clusters (WLC with retries+cross retry, WRR without keep-alive, all-dead), scripted backends (ok / close before reply on first or every attempt / RST) and a refused port in each sub-cluster, harness filters with per-request verdict scripts at 6 callback points, some clients abandoning; batches are followed by a barrier on bfe's own session-finish callbacks, then ConnNum() of every backend ever selected must be 0 and never negative; parked phases hold K requests inside backends and compare ConnNum(b) with the requests parked at b. Non-trivial = request with a failure, verdict or abandon ingredient; distinct = ingredient shape. When a batch leaves a backend non-zero the batch is bisected by single-request probes to name the responsible shape. TUNNELS (second server): websocket and TLS-offload stream clusters with two accepting backends, one rejecting the upgrade (403), one closing at accept and one refused port each; batches of 60 tunnels whose clients close at once / after some bytes / by RST / right after the request / after half a request head; a poller watches for negative counts; after each batch every count must return to 0 (polled for up to one minute: a leak is permanent); parked phases hold 2K tunnels open and require ConnNum(b) == tunnels open at b for all nine backends")
	env, err := c07Setup(r)
	if err != nil {
		r.Inconclusive("setup: " + err.Error())
		return
	}
	defer env.srv.Close()
	defer env.bs.Close()
	var dialed int64

	runBatch := func(reqs []*c07Req, par int) map[string]int {
		st := map[string]int{}
		var mu sync.Mutex
		vkit.Parallel(len(reqs), par, func(i int) {
			s := c07Send(env.srv.HTTPAddr, reqs[i])
			mu.Lock()
			st[s]++
			mu.Unlock()
		})
		atomic.AddInt64(&dialed, int64(len(reqs)))
		return st
	}
	// checkZero verifies monitor (a)+(b) at a quiescent point; returns offending backends.
	checkZero := func() (map[string]int, bool) {
		if !env.quiesce(atomic.LoadInt64(&dialed)) {
			return nil, false
		}
		bad := map[string]int{}
		for _, b := range env.backends() {
			if n := b.ConnNum(); n != 0 {
				bad[fmt.Sprintf("%s:%d", b.Addr, b.Port)] = n
			}
		}
		r.Count("quiescent_checks", 1)
		return bad, true
	}
	// resetCounts brings counters back to zero after a reported finding so that
	// later batches are judged on their own.
	resetCounts := func() {
		for _, b := range env.backends() {
			for b.ConnNum() > 0 {
				b.DecConnNum()
			}
			for b.ConnNum() < 0 {
				b.IncConnNum()
			}
		}
	}
	report := func(q *c07Req, bad map[string]int) {
		kind := "positive-leak"
		for _, n := range bad {
			if n < 0 {
				kind = "negative"
			}
		}
		// signature: the verdict ingredient that matters + kind
		ing := "plain"
		for _, p := range c48Points {
			s := scriptFor(q.Script, p)
			if k := firstStop(s); k >= 0 {
				ing = fmt.Sprintf("%s=%c", bfe_module.CallbackPointName(p), s[k])
				break
			}
		}
		r.Violation("connnum-not-zero-at-quiescence:"+kind+":"+ing,
			fmt.Sprintf("after request {%s} finished, backend connection counts are %v (must all be 0)", c07Shape(q), bad),
			map[string]interface{}{"request": q, "counts": bad, "raw": string(q.bytes())})
	}

	if r.Replay != "" {
		var w struct {
			Request c07Req `json:"request"`
		}
		if err := r.LoadReplay(&w); err != nil {
			r.Inconclusive(err.Error())
			return
		}
		// warm up so that backends are known, then the single request
		runBatch([]*c07Req{{ID: "w1", Host: "wlc.c07.test", Method: "GET", Be: "ok"}, {ID: "w2", Host: "wrr.c07.test", Method: "GET", Be: "ok"}}, 1)
		runBatch([]*c07Req{&w.Request}, 1)
		if bad, ok := checkZero(); ok && len(bad) > 0 {
			report(&w.Request, bad)
		}
		r.Evals(1)
		r.SetMinDistinct(0)
		return
	}

	rounds := r.N(30, 400)
	perBatch := 150
	id := 0
	for round := 0; round < rounds; round++ {
		var reqs []*c07Req
		for i := 0; i < perBatch; i++ {
			q := c07GenReq(r.Rng("req", round, i), fmt.Sprintf("r%d", id))
			id++
			reqs = append(reqs, q)
			sh := c07Shape(q)
			r.CaseS(sh, q.Script != "" || q.Be != "ok" || q.Abandon || q.Host == "dead.c07.test")
			if r.WantSample() && q.Script != "" && i%17 == 0 {
				r.Sample(map[string]interface{}{"request": q, "shape": sh})
			}
		}
		st := runBatch(reqs, 24)
		for k, v := range st {
			r.Count("client_outcome_"+k, int64(v))
		}
		bad, ok := checkZero()
		if !ok {
			r.Inconclusive("quiescence barrier timed out")
			return
		}
		if len(bad) > 0 {
			// attribute: replay the batch one request at a time with a barrier after each
			resetCounts()
			found := false
			for _, q := range reqs {
				q2 := *q
				q2.ID = q.ID + "s"
				runBatch([]*c07Req{&q2}, 1)
				b2, ok := checkZero()
				if !ok {
					r.Inconclusive("quiescence barrier timed out")
					return
				}
				r.Count("attribution_probes", 1)
				if len(b2) > 0 {
					report(&q2, b2)
					resetCounts()
					found = true
				}
			}
			if !found {
				r.Violation("connnum-not-zero-at-quiescence:concurrent-only", fmt.Sprintf("batch left %v but no single request reproduces it", bad),
					map[string]interface{}{"batch": reqs, "counts": bad})
			}
		}
		// monitor (c): parked conservation
		k := 2 + r.Rng("park", round).Intn(14)
		ch := make(chan struct{})
		env.hold.Store(ch)
		var wg sync.WaitGroup
		var returned int64 // clients that already got a final answer (e.g. 500 after refused connects)
		host := []string{"wlc.c07.test", "wrr.c07.test"}[round%2]
		for i := 0; i < k; i++ {
			wg.Add(1)
			q := &c07Req{ID: fmt.Sprintf("p%d_%d", round, i), Host: host, Method: "GET", Be: "park"}
			go func() { defer wg.Done(); c07Send(env.srv.HTTPAddr, q); atomic.AddInt64(&returned, 1) }()
		}
		atomic.AddInt64(&dialed, int64(k))
		parkedOK := false
		for t := 0; t < 2000; t++ {
			var sum int64
			for _, b := range env.bs.All {
				sum += atomic.LoadInt64(&b.InFlight)
			}
			if sum > 0 && sum+atomic.LoadInt64(&returned) == int64(k) {
				parkedOK = true
				r.Count("parked_requests", sum)
				break
			}
			time.Sleep(5 * time.Millisecond)
		}
		if parkedOK {
			for _, b := range env.backends() {
				srvb := env.byPort[b.Port]
				want := int64(0)
				if srvb != nil {
					want = atomic.LoadInt64(&srvb.InFlight)
				}
				got := int64(b.ConnNum())
				r.Count("parked_comparisons", 1)
				if got != want {
					mode := strings.Split(host, ".")[0]
					r.Violation("connnum-differs-from-inflight:"+mode,
						fmt.Sprintf("backend %s:%d ConnNum=%d while %d requests are parked in its handler (%d parked in total)", b.Addr, b.Port, got, want, k),
						map[string]interface{}{"round": round, "k": k, "host": host})
				}
			}
			r.Count("parked_phases", 1)
		} else {
			r.Count("parked_phases_skipped", 1)
		}
		close(ch)
		env.hold.Store((chan struct{})(nil))
		wg.Wait()
		if bad, ok := checkZero(); ok && len(bad) > 0 {
			r.Violation("connnum-not-zero-after-parked-phase", fmt.Sprintf("%v", bad), map[string]interface{}{"round": round, "counts": bad})
			resetCounts()
		} else if !ok {
			r.Inconclusive("quiescence barrier timed out")
			return
		}
	}
	env.log.mu.Lock()
	neg := append([]string(nil), env.log.negSeen...)
	env.log.mu.Unlock()
	if len(neg) > 0 {
		r.Violation("connnum-negative-observed", neg[0], map[string]interface{}{"observations": neg})
	}
	r.Count("backends_tracked", int64(len(env.backends())))
	if r.Counter("parked_phases") == 0 {
		r.Inconclusive("no parked phase completed")
	}
	for k, v := range e2e_panics(env.srv) {
		if v != 0 {
			r.Violation("panic-counter:"+k, fmt.Sprintf("%s=%d", k, v), nil)
		}
	}
	if r.Replay == "" {
		c07Tunnels(r)
	}
}
