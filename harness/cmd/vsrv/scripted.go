package main

import (
	"fmt"
	"io"
	"net"
	"net/url"
	"strconv"
	"strings"
	"sync"
	"time"

	backend "github.com/bfenetworks/bfe/bfe_balance/backend"
	"github.com/bfenetworks/bfe/bfe_basic"
	"github.com/bfenetworks/bfe/bfe_http"
	"github.com/bfenetworks/bfe/bfe_module"
	"github.com/bfenetworks/bfe/bfe_server"
	"github.com/bfenetworks/bfe/bfe_stream"
	"github.com/bfenetworks/bfe/bfe_websocket"

	"verifharness/e2e"
)

// Scripted filters: N filters are registered at every request-level callback
// point of a server. Each request carries its own script in the X-Vs header:
//   X-Vs: <point>=<verdict letters>;...   letters: G goOn, F finish, R redirect, P response, C close
// filter i at point p returns letter i of the script for p (G when absent) and
// logs (request id, point, index) before returning.

const nFilters = 4

type fEvent struct {
	Point, Idx int
}

type filterLog struct {
	mu       sync.Mutex
	events   map[string][]fEvent          // request id -> events in call order
	backends map[*backend.BfeBackend]bool // every backend ever handed to a forward filter
	// negative ConnNum observed inside filters
	negSeen []string
}

func newFilterLog() *filterLog {
	return &filterLog{events: map[string][]fEvent{}, backends: map[*backend.BfeBackend]bool{}}
}

func (l *filterLog) take(id string) []fEvent {
	l.mu.Lock()
	defer l.mu.Unlock()
	return append([]fEvent(nil), l.events[id]...)
}

var verdictOf = map[byte]int{
	'G': bfe_module.BfeHandlerGoOn, 'F': bfe_module.BfeHandlerFinish, 'R': bfe_module.BfeHandlerRedirect,
	'P': bfe_module.BfeHandlerResponse, 'C': bfe_module.BfeHandlerClose,
}

// scriptFor extracts the verdict letters for a point from the X-Vs value.
func scriptFor(xvs string, point int) string {
	for _, part := range strings.Split(xvs, ";") {
		kv := strings.SplitN(part, "=", 2)
		if len(kv) == 2 && kv[0] == strconv.Itoa(point) {
			return kv[1]
		}
	}
	return ""
}

func (l *filterLog) verdict(req *bfe_basic.Request, point, idx int) int {
	h := req.HttpRequest.Header
	id := h.Get("X-Id")
	l.mu.Lock()
	l.events[id] = append(l.events[id], fEvent{point, idx})
	l.mu.Unlock()
	s := scriptFor(h.Get("X-Vs"), point)
	if idx < len(s) {
		if v, ok := verdictOf[s[idx]]; ok {
			return v
		}
	}
	return bfe_module.BfeHandlerGoOn
}

type strBody struct{ io.Reader }

func (strBody) Close() error { return nil }

func scriptedResponse(req *bfe_basic.Request, point, idx int) *bfe_http.Response {
	id := req.HttpRequest.Header.Get("X-Id")
	body := fmt.Sprintf("filter-response id=%s point=%d idx=%d", id, point, idx)
	res := new(bfe_http.Response)
	res.StatusCode = 403
	res.Header = make(bfe_http.Header)
	res.Header.Set("X-Filter-Resp", fmt.Sprintf("%s/%d/%d", id, point, idx))
	res.Header.Set("Content-Length", strconv.Itoa(len(body)))
	res.ContentLength = int64(len(body))
	res.Body = strBody{strings.NewReader(body)}
	req.HttpResponse = res
	return res
}

func installScriptedFilters(srv *e2e.Server, l *filterLog) error {
	cb := srv.Srv.CallBacks
	for _, p := range []int{bfe_module.HandleBeforeLocation, bfe_module.HandleFoundProduct, bfe_module.HandleAfterLocation} {
		for i := 0; i < nFilters; i++ {
			p, i := p, i
			if err := cb.AddFilter(p, func(req *bfe_basic.Request) (int, *bfe_http.Response) {
				v := l.verdict(req, p, i)
				switch v {
				case bfe_module.BfeHandlerRedirect:
					req.Redirect.Url = fmt.Sprintf("/redir/%s/%d/%d", req.HttpRequest.Header.Get("X-Id"), p, i)
					req.Redirect.Code = 302
				case bfe_module.BfeHandlerResponse:
					return v, scriptedResponse(req, p, i)
				}
				return v, nil
			}); err != nil {
				return err
			}
		}
	}
	for i := 0; i < nFilters; i++ {
		i := i
		if err := cb.AddFilter(bfe_module.HandleForward, func(req *bfe_basic.Request) int {
			if b := req.Trans.Backend; b != nil {
				l.mu.Lock()
				l.backends[b] = true
				if n := b.ConnNum(); n < 0 {
					l.negSeen = append(l.negSeen, fmt.Sprintf("%s:%d ConnNum=%d at forward filter", b.Addr, b.Port, n))
				}
				l.mu.Unlock()
			}
			return l.verdict(req, bfe_module.HandleForward, i)
		}); err != nil {
			return err
		}
	}
	for _, p := range []int{bfe_module.HandleReadResponse, bfe_module.HandleRequestFinish} {
		for i := 0; i < nFilters; i++ {
			p, i := p, i
			if err := cb.AddFilter(p, func(req *bfe_basic.Request, res *bfe_http.Response) int {
				v := l.verdict(req, p, i)
				if v == bfe_module.BfeHandlerRedirect {
					req.Redirect.Url = fmt.Sprintf("/redir/%s/%d/%d", req.HttpRequest.Header.Get("X-Id"), p, i)
					req.Redirect.Code = 302
				}
				return v
			}); err != nil {
				return err
			}
		}
	}
	return nil
}

func e2e_panics(srv *e2e.Server) map[string]int64 {
	return bfe_server.VerifPanicCounters(srv.Srv)
}

// e2eBalTableBackends returns the single backend object of each named cluster by
// asking the server's own Balance entry point (no connection count is touched).
func e2eBalTableBackends(srv *e2e.Server, hosts []string) []*backend.BfeBackend {
	var out []*backend.BfeBackend
	for _, h := range hosts {
		var b *backend.BfeBackend
		var err error
		if h == "" {
			c, derr := net.DialTimeout("tcp", srv.HTTPAddr, 5*time.Second)
			if derr != nil {
				continue
			}
			b, err = srv.Srv.Balance(c)
			c.Close()
		} else {
			req := &bfe_http.Request{Method: "GET", Host: h, URL: &url.URL{Path: "/"}, Header: bfe_http.Header{}}
			c, derr := net.DialTimeout("tcp", srv.HTTPAddr, 5*time.Second)
			if derr != nil {
				continue
			}
			req.State = new(bfe_http.RequestState)
			req.State.Conn = c
			b, err = srv.Srv.Balance(req)
			c.Close()
		}
		if err == nil && b != nil {
			out = append(out, b)
		}
	}
	return out
}

func e2eTunnelPanics() (int64, int64) {
	return bfe_websocket.GetWebSocketState().WebSocketPanicConn.Get(), bfe_stream.GetStreamState().StreamPanicConn.Get()
}
