package main

import (
	"bufio"
	"bytes"
	"crypto/tls"
	"fmt"
	"io"
	"net"
	"strings"
	"sync"
	"time"

	backend "github.com/bfenetworks/bfe/bfe_balance/backend"
	"github.com/bfenetworks/bfe/bfe_basic"
	"github.com/bfenetworks/bfe/bfe_module"

	"verifharness/e2e"
	"verifharness/vkit"
)

// C47: once a WebSocket upgrade or TLS-offload stream is established every byte
// from the client reaches the backend and every byte from the backend reaches
// the client, in order and unchanged, including bytes that arrived together with
// the upgrade or handshake; when either side closes the other side is closed too.
// (Also C07's tunnel part: the backend connection count returns to zero.)

type c47Case struct {
	ID     int    `json:"id"`
	Kind   string `json:"kind"`   // ws | wss | stream
	Lc     int    `json:"lc"`     // bytes client -> backend
	Lb     int    `json:"lb"`     // bytes backend -> client
	Early  int    `json:"early"`  // client bytes sent in the same write as the upgrade request (ws/wss)
	BEarly int    `json:"bearly"` // backend bytes sent in the same write as the 101 response (ws/wss)
	Chunk  int    `json:"chunk"`  // write size
	Closer string `json:"closer"` // client | backend
	Reset  bool   `json:"reset"`  // closer closes with RST
	// Last > 0: the closer writes the last Last bytes of its stream and closes at once (clean close), so
	// that the final data and the close reach bfe together; 0: the close comes after both sides have
	// received everything.
	Last int `json:"last,omitempty"`
}

// corkConn sits between crypto/tls and the TCP connection of a TLS client. While hold is set, writes
// are collected; Close then emits everything collected (the last application-data records and the
// close_notify alert that tls.Conn.Close writes) with ONE Write on the TCP connection and closes it.
type corkConn struct {
	net.Conn
	mu      sync.Mutex
	hold    bool
	buf     []byte
	flushed []byte // what the final single Write carried (for the evidence counters)
}

func (c *corkConn) Write(p []byte) (int, error) {
	c.mu.Lock()
	if c.hold {
		c.buf = append(c.buf, p...)
		c.mu.Unlock()
		return len(p), nil
	}
	c.mu.Unlock()
	return c.Conn.Write(p)
}

func (c *corkConn) Close() error {
	c.mu.Lock()
	buf := c.buf
	c.buf, c.hold = nil, false
	c.mu.Unlock()
	if len(buf) > 0 {
		c.Conn.SetWriteDeadline(time.Now().Add(60 * time.Second))
		c.Conn.Write(buf)
		c.flushed = buf
	}
	return c.Conn.Close()
}

// tlsDataThenAlert reports whether b is a sequence of whole TLS records with at least one
// application-data record (type 23) followed by an alert record (type 21) at the very end.
func tlsDataThenAlert(b []byte) bool {
	data, last := false, byte(0)
	for len(b) >= 5 {
		n := int(b[3])<<8 | int(b[4])
		if len(b) < 5+n {
			return false
		}
		last = b[0]
		if last == 23 {
			data = true
		}
		b = b[5+n:]
	}
	return len(b) == 0 && data && last == 21
}

// rawTCP finds the TCP connection under a client connection of any kind.
func rawTCP(c net.Conn) *net.TCPConn {
	for {
		switch x := c.(type) {
		case *tls.Conn:
			c = x.NetConn()
		case *corkConn:
			c = x.Conn
		case *net.TCPConn:
			return x
		default:
			return nil
		}
	}
}

// closeWithLast writes last and closes c at once. TLS clients: the data records and close_notify
// leave in one TCP write; plain TCP (websocket client, every backend): Write directly followed by Close.
func closeWithLast(c net.Conn, last []byte) (coalesced bool) {
	if tc, ok := c.(*tls.Conn); ok {
		if ck, ok := tc.NetConn().(*corkConn); ok {
			ck.mu.Lock()
			ck.hold = true
			ck.mu.Unlock()
			tc.Write(last)
			tc.Close()
			return tlsDataThenAlert(ck.flushed)
		}
	}
	c.Write(last)
	c.Close()
	return false
}

func tok(id, dir, i int) byte { return byte(i*131 + id*7 + dir*101 + (i >> 8)) }

func tokens(id, dir, n int) []byte {
	b := make([]byte, n)
	for i := range b {
		b[i] = tok(id, dir, i)
	}
	return b
}

// verify reads exactly n token bytes from r and returns the first bad offset (-1 = all good).
func verifyStream(r io.Reader, id, dir, n int) (got int, bad int, err error) {
	buf := make([]byte, 32<<10)
	bad = -1
	for got < n {
		k, e := r.Read(buf)
		for j := 0; j < k; j++ {
			if got+j >= n {
				if bad < 0 {
					bad = got + j // surplus byte
				}
				break
			}
			if buf[j] != tok(id, dir, got+j) && bad < 0 {
				bad = got + j
			}
		}
		got += k
		if e != nil {
			return got, bad, e
		}
	}
	return got, bad, nil
}

type c47Tunnel struct {
	conn net.Conn
	br   *bufio.Reader
	head []byte // request head (ws) as received by the backend
}

// c47Backend accepts tunnel connections and hands them to the test by id.
type c47Backend struct {
	ln     net.Listener
	mu     sync.Mutex
	wait   map[int]chan *c47Tunnel
	bearly map[int]int
}

func (b *c47Backend) expect(id int, bearly int) chan *c47Tunnel {
	ch := make(chan *c47Tunnel, 1)
	b.mu.Lock()
	b.wait[id] = ch
	b.bearly[id] = bearly
	b.mu.Unlock()
	return ch
}

func (b *c47Backend) serve(ws bool) {
	for {
		c, err := b.ln.Accept()
		if err != nil {
			return
		}
		go func() {
			c.SetDeadline(time.Now().Add(120 * time.Second))
			br := bufio.NewReaderSize(c, 64<<10)
			t := &c47Tunnel{conn: c, br: br}
			var id int
			if ws {
				var head bytes.Buffer
				for {
					line, err := br.ReadString('\n')
					head.WriteString(line)
					if err != nil {
						c.Close()
						return
					}
					if line == "\r\n" {
						break
					}
				}
				t.head = head.Bytes()
				i := bytes.Index(t.head, []byte("/c47/"))
				if i < 0 {
					c.Close()
					return
				}
				fmt.Sscanf(string(t.head[i+5:]), "%d", &id)
				b.mu.Lock()
				be := b.bearly[id]
				b.mu.Unlock()
				resp := []byte("HTTP/1.1 101 Switching Protocols\r\nUpgrade: websocket\r\nConnection: Upgrade\r\nSec-WebSocket-Accept: verif\r\n\r\n")
				resp = append(resp, tokens(id, 1, be)...)
				if _, err := c.Write(resp); err != nil {
					c.Close()
					return
				}
			} else {
				// stream tunnels carry the id in their first 8 bytes (sent by the client before the tokens)
				idb := make([]byte, 8)
				if _, err := io.ReadFull(br, idb); err != nil {
					c.Close()
					return
				}
				fmt.Sscanf(string(idb), "%08d", &id)
			}
			b.mu.Lock()
			ch := b.wait[id]
			b.mu.Unlock()
			if ch == nil {
				c.Close()
				return
			}
			ch <- t
		}()
	}
}

func c47Gen(g *vkit.Rand, id int) *c47Case {
	c := &c47Case{ID: id}
	c.Kind = []string{"ws", "wss", "stream"}[id%3]
	sizes := []int{0, 1, 2, 100, 4095, 4096, 4097, 65536, 300000, 1 << 20}
	c.Lc = sizes[g.Intn(len(sizes))]
	c.Lb = sizes[g.Intn(len(sizes))]
	c.Chunk = []int{1, 7, 512, 4096, 65536, 1 << 20}[g.Intn(6)]
	if c.Chunk == 1 && c.Lc+c.Lb > 9000 { // byte-wise writes only for short streams
		c.Chunk = 7
	}
	if c.Kind != "stream" {
		if g.Bool() && c.Lc > 0 {
			c.Early = 1 + g.Intn(min(c.Lc, 3000))
		}
		if g.Bool() && c.Lb > 0 {
			c.BEarly = 1 + g.Intn(min(c.Lb, 3000))
		}
	}
	c.Closer = []string{"client", "backend"}[g.Intn(2)]
	c.Reset = g.Chance(1, 3)
	return c
}

// c47GenFinal: the closer's stream ends with a write of 1 B..64 KB that is followed at once by a clean close.
func c47GenFinal(g *vkit.Rand, id int) *c47Case {
	c := &c47Case{ID: id}
	c.Kind = []string{"ws", "wss", "stream"}[id%3]
	c.Closer = []string{"client", "backend", "client", "client", "backend"}[(id/3)%5]
	c.Last = []int{1, 2, 100, 1000, 4096, 16384, 16385, 40000, 65536}[g.Intn(9)]
	pre := []int{0, 1, 100, 4096, 65536, 300000}[g.Intn(6)]
	opp := []int{0, 1, 100, 4096, 65536}[g.Intn(5)]
	c.Lc, c.Lb = pre+c.Last, opp
	if c.Closer == "backend" {
		c.Lc, c.Lb = opp, pre+c.Last
	}
	c.Chunk = []int{7, 512, 4096, 65536, 1 << 20}[g.Intn(5)]
	if c.Kind != "stream" {
		lim := c.Lc
		if c.Closer == "client" {
			lim = pre
		}
		if g.Bool() && lim > 0 {
			c.Early = 1 + g.Intn(min(lim, 3000))
		}
		lim = c.Lb
		if c.Closer == "backend" {
			lim = pre
		}
		if g.Bool() && lim > 0 {
			c.BEarly = 1 + g.Intn(min(lim, 3000))
		}
	}
	return c
}

func min(a, b int) int {
	if a < b {
		return a
	}
	return b
}

func writeChunked(c net.Conn, b []byte, chunk int) error {
	for len(b) > 0 {
		n := chunk
		if n > len(b) {
			n = len(b)
		}
		if _, err := c.Write(b[:n]); err != nil {
			return err
		}
		b = b[n:]
	}
	return nil
}

func c47(r *vkit.Run) {
	r.SetRule("full in-process BFE (HTTP + HTTPS with ALPN stream); tunnels of three kinds (websocket over http, over https, TLS-offload stream) to raw TCP backends; each direction carries a position-dependent token stream of 0 B..1 MB written in chunks of 1 B..1 MB, both directions concurrently, optionally with client bytes in the same write as the upgrade request and backend bytes in the same write as the 101 response; receivers verify every offset; after both sides have received everything the designated closer (client or backend, clean FIN or RST) closes and the other side must observe EOF/close, bounded by completed control round trips through bfe rather than by a timeout. Second family (last write together with the close): the closer's stream ends with a write of 1 B..64 KB that is followed at once by a clean close, issued when the closer has received the whole opposite stream (nothing else in flight, no RST): TLS clients (wss, stream) run over a connection wrapper that emits the last application-data records and the close_notify alert in ONE TCP write and then closes; plain TCP closers (websocket client, every backend) call Write directly followed by Close; the receiver must have verified every offset of the closer's stream before it observes EOF (a receive that ends on the 120 s watchdog deadline is skipped, never judged), then the close must be propagated as above. Third family (c47bp.go, close propagation and transparency under BACK-PRESSURE): 24 shapes = kind (ws, wss, stream) x flooding side (client, backend) x closing side x half/full close. The flooder writes a token stream in chunks of 4 KB..1 MB while the other side does not read, until the writer has made no progress for 0.4 s (every buffer on the path is full, bfe's relay for that direction is parked in a Write; several MB in flight). reader-closes: the side that never read (SO_RCVBUF 4..64 KB) half-closes (TCP CloseWrite; TLS clients: close_notify via tls.Conn.CloseWrite, TCP connection kept) or closes; the flooder must observe the end of the tunnel (EOF/error on its Read or a failing Write); a flood that never stalls (upper bound 64 MB) is skipped. writer-closes: the flooder writes 4..16 MB (thorough: ..32 MB) and half-closes or closes right after its last write; the reader side starts to read only when the flooder has stalled or finished, must receive every byte unchanged (a drain that ends on the 120 s watchdog is skipped) and then EOF. 'Not closed' is reported only after 60 COMPLETED control round trips through bfe (fresh TLS stream tunnels, >= 100 ms apart) and skipped if they do not complete; inconclusive if one of the 24 shapes was never judged. Non-trivial = both directions non-empty, early data, a last write with close, or a back-pressure case; distinct = (kind, sizes, early, chunk, closer, reset, last) resp. (kind, flooder, closer, mode, size, chunk, rcvbuf)")
	wsB := &c47Backend{wait: map[int]chan *c47Tunnel{}, bearly: map[int]int{}}
	stB := &c47Backend{wait: map[int]chan *c47Tunnel{}, bearly: map[int]int{}}
	var err error
	if wsB.ln, err = net.Listen("tcp", "127.0.0.1:0"); err != nil {
		r.Inconclusive(err.Error())
		return
	}
	if stB.ln, err = net.Listen("tcp", "127.0.0.1:0"); err != nil {
		r.Inconclusive(err.Error())
		return
	}
	defer wsB.ln.Close()
	defer stB.ln.Close()
	go wsB.serve(true)
	go stB.serve(false)
	wsPort := wsB.ln.Addr().(*net.TCPAddr).Port
	stPort := stB.ln.Addr().(*net.TCPAddr).Port
	clusters := []e2e.Cluster{
		{Name: "c47ws", Hosts: []string{"ws.c47.test"}, SubClusters: []e2e.SubCluster{{Name: "s", Weight: 100, Backends: []e2e.Backend{{Name: "ws", Addr: "127.0.0.1", Port: wsPort, Weight: 1}}}}},
		{Name: "c47st", SubClusters: []e2e.SubCluster{{Name: "s", Weight: 100, Backends: []e2e.Backend{{Name: "st", Addr: "127.0.0.1", Port: stPort, Weight: 1}}}}},
	}
	srv, err := e2e.Start(&e2e.Options{HTTPS: true, Clusters: clusters,
		TLSRule: `{"Version":"1","DefaultNextProtos":["stream","http/1.1"],"Config":{}}`,
		Files: map[string]string{
			"server_data_conf/host_rule.data":  `{"Version":"v1","DefaultProduct":"p_st","Hosts":{"t_ws":["ws.c47.test"],"t_st":["st.c47.test"]},"HostTags":{"p_ws":["t_ws"],"p_st":["t_st"]}}`,
			"server_data_conf/route_rule.data": `{"Version":"v1","ProductRule":{"p_ws":[{"Cond":"default_t()","ClusterName":"c47ws"}],"p_st":[{"Cond":"default_t()","ClusterName":"c47st"}]}}`,
		}})
	if err != nil {
		r.Inconclusive("server start: " + err.Error())
		return
	}
	defer srv.Close()
	// remember every backend object handed out so that its connection count can be checked (C07 tunnel part)
	var bmu sync.Mutex
	seenB := map[*backend.BfeBackend]bool{}
	_ = bfe_basic.NewSession
	_ = bfe_module.HandleForward

	var cases []*c47Case
	var bpCases []*c47BPCase
	if r.Replay != "" {
		var w struct {
			Case   *c47Case   `json:"case"`
			BPCase *c47BPCase `json:"bp_case"`
		}
		if err := r.LoadReplay(&w); err != nil {
			r.Inconclusive(err.Error())
			return
		}
		if w.Case != nil {
			cases = append(cases, w.Case)
		}
		if w.BPCase != nil {
			bpCases = append(bpCases, w.BPCase)
		}
		r.SetMinDistinct(0)
	} else {
		n := r.N(240, 8000)
		for i := 0; i < n; i++ {
			cases = append(cases, c47Gen(r.Rng("case", i), i))
		}
		// second family (own generator stream): the closer's last write and its close reach bfe together
		nf := r.N(150, 2000)
		for i := 0; i < nf; i++ {
			cases = append(cases, c47GenFinal(r.Rng("final", i), n+i))
		}
		// third family (c47bp.go, own generator stream): close propagation under back-pressure
		nb := r.N(48, 480)
		for i := 0; i < nb; i++ {
			bpCases = append(bpCases, c47BPGen(r.Rng("backpressure", i), n+nf+i, i, r.Quick()))
		}
	}

	// TLS clients run over a corkConn (transparent until closeWithLast sets hold)
	dialTLS := func(protos []string) (*tls.Conn, error) {
		raw, err := net.DialTimeout("tcp", srv.HTTPSAddr, 20*time.Second)
		if err != nil {
			return nil, err
		}
		conn := tls.Client(&corkConn{Conn: raw}, &tls.Config{InsecureSkipVerify: true, NextProtos: protos, MaxVersion: tls.VersionTLS12})
		conn.SetDeadline(time.Now().Add(60 * time.Second))
		if err := conn.Handshake(); err != nil {
			raw.Close()
			return nil, err
		}
		conn.SetDeadline(time.Time{})
		return conn, nil
	}
	dialClient := func(c *c47Case) (net.Conn, *bufio.Reader, error) {
		switch c.Kind {
		case "ws":
			conn, err := net.DialTimeout("tcp", srv.HTTPAddr, 20*time.Second)
			if err != nil {
				return nil, nil, err
			}
			return conn, bufio.NewReaderSize(conn, 64<<10), nil
		case "wss":
			conn, err := dialTLS([]string{"http/1.1"})
			if err != nil {
				return nil, nil, err
			}
			return conn, bufio.NewReaderSize(conn, 64<<10), nil
		default:
			conn, err := dialTLS([]string{"stream"})
			if err != nil {
				return nil, nil, err
			}
			if conn.ConnectionState().NegotiatedProtocol != "stream" {
				conn.Close()
				return nil, nil, fmt.Errorf("alpn stream not negotiated")
			}
			return conn, bufio.NewReaderSize(conn, 64<<10), nil
		}
	}
	// controlRoundTrip proves that bfe is alive and scheduled: one small stream tunnel echo
	ctlID := 1 << 24
	var ctlMu sync.Mutex
	controlRoundTrip := func() bool {
		ctlMu.Lock()
		ctlID++
		id := ctlID
		ctlMu.Unlock()
		ch := stB.expect(id, 0)
		conn, _, err := dialClient(&c47Case{Kind: "stream"})
		if err != nil {
			return false
		}
		defer conn.Close()
		conn.SetDeadline(time.Now().Add(20 * time.Second))
		fmt.Fprintf(conn, "%08d", id)
		select {
		case t := <-ch:
			t.conn.Close()
			return true
		case <-time.After(20 * time.Second):
			return false
		}
	}

	run := func(c *c47Case) {
		key := fmt.Sprintf("%s|%d|%d|%d|%d|%d|%s|%v", c.Kind, c.Lc, c.Lb, c.Early, c.BEarly, c.Chunk, c.Closer, c.Reset)
		if c.Last > 0 {
			key += fmt.Sprintf("|last=%d", c.Last)
		}
		w := map[string]interface{}{"case": c}
		sig := c.Kind
		be := wsB
		if c.Kind == "stream" {
			be = stB
		}
		ch := be.expect(c.ID, c.BEarly)
		conn, cbr, err := dialClient(c)
		if err != nil {
			r.CaseS(key, false)
			r.Count("dial_failed", 1)
			return
		}
		defer conn.Close()
		conn.SetDeadline(time.Now().Add(120 * time.Second))
		c2b := tokens(c.ID, 0, c.Lc)
		sentEarly := 0
		if c.Kind == "stream" {
			if _, err := fmt.Fprintf(conn, "%08d", c.ID); err != nil {
				r.Count("setup_failed", 1)
				return
			}
		} else {
			req := []byte(fmt.Sprintf("GET /c47/%d HTTP/1.1\r\nHost: ws.c47.test\r\nUpgrade: websocket\r\nConnection: Upgrade\r\nSec-WebSocket-Key: dmVyaWY=\r\nSec-WebSocket-Version: 13\r\n\r\n", c.ID))
			req = append(req, c2b[:c.Early]...)
			sentEarly = c.Early
			if _, err := conn.Write(req); err != nil {
				r.Count("setup_failed", 1)
				return
			}
		}
		var t *c47Tunnel
		select {
		case t = <-ch:
		case <-time.After(60 * time.Second):
			r.CaseS(key, false)
			r.Count("tunnel_not_established_skipped", 1)
			return
		}
		defer t.conn.Close()
		if c.Kind != "stream" {
			// client reads the 101 head
			for {
				line, err := cbr.ReadString('\n')
				if err != nil {
					r.Violation("ws-handshake:no-101-at-client:"+sig, "client did not receive the 101 response head: "+err.Error(), w)
					return
				}
				if line == "\r\n" {
					break
				}
			}
		}
		nontrivial := (c.Lc > 0 && c.Lb > 0) || c.Early > 0 || c.BEarly > 0 || c.Last > 0
		r.CaseS(key, nontrivial)
		r.Count("tunnels_"+c.Kind, 1)
		var wg sync.WaitGroup
		var cGot, cBad, bGot, bBad int
		var cErr, bErr error
		b2c := tokens(c.ID, 1, c.Lb)
		// Last > 0: the closer's chunked writer stops Last bytes before the end; when the closer has
		// received the whole opposite stream (so nothing else is in flight and the close is a clean
		// FIN), it writes those Last bytes and closes at once.
		cEnd, bEnd := c.Lc, c.Lb
		final := ""
		if c.Last > 0 {
			final = ":last-write-with-close"
			if c.Closer == "client" {
				cEnd = c.Lc - c.Last
				if cEnd < sentEarly {
					cEnd = sentEarly
				}
			} else {
				bEnd = c.Lb - c.Last
				if bEnd < c.BEarly {
					bEnd = c.BEarly
				}
			}
		}
		clientGotAll, backendGotAll := make(chan struct{}), make(chan struct{})
		coalesced := false
		wg.Add(4)
		go func() {
			defer wg.Done()
			writeChunked(conn, c2b[sentEarly:cEnd], c.Chunk)
			if c.Last > 0 && c.Closer == "client" {
				<-clientGotAll
				coalesced = closeWithLast(conn, c2b[cEnd:])
			}
		}()
		go func() {
			defer wg.Done()
			writeChunked(t.conn, b2c[c.BEarly:bEnd], c.Chunk)
			if c.Last > 0 && c.Closer == "backend" {
				<-backendGotAll
				closeWithLast(t.conn, b2c[bEnd:])
			}
		}()
		go func() {
			defer wg.Done()
			defer close(backendGotAll)
			bGot, bBad, bErr = verifyStream(t.br, c.ID, 0, c.Lc)
		}()
		go func() {
			defer wg.Done()
			defer close(clientGotAll)
			cGot, cBad, cErr = verifyStream(cbr, c.ID, 1, c.Lb)
		}()
		wg.Wait()
		if c.Last > 0 {
			// the receiver's deadline (120 s) is a watchdog, never a verdict
			rxErr := bErr
			if c.Closer == "backend" {
				rxErr = cErr
			}
			if ne, ok := rxErr.(net.Error); ok && ne.Timeout() {
				r.Count("last_write_with_close_receive_deadline_expired_skipped", 1)
				return
			}
			r.Count("last_write_with_close:"+c.Kind+":"+c.Closer+"-closes", 1)
			switch {
			case c.Last <= 100:
				r.Count("last_write_size:1..100", 1)
			case c.Last <= 16384:
				r.Count("last_write_size:101..16384", 1)
			default:
				r.Count("last_write_size:16385..65536", 1)
			}
			if coalesced {
				r.Count("tls_client_last_data_and_close_notify_in_one_tcp_write:"+c.Kind, 1)
			}
		}
		r.Count("bytes_client_to_backend", int64(bGot))
		r.Count("bytes_backend_to_client", int64(cGot))
		w["backend_received"], w["client_received"] = bGot, cGot
		early := ""
		if c.Early > 0 {
			early = ":early-data"
		}
		if bBad >= 0 {
			r.Violation("client-to-backend:corrupt-or-reordered"+early+final+":"+sig, fmt.Sprintf("first bad offset %d of %d", bBad, c.Lc), w)
			return
		}
		if bGot != c.Lc {
			r.Violation("client-to-backend:bytes-lost"+early+final+":"+sig, fmt.Sprintf("backend received %d of %d bytes (%v)", bGot, c.Lc, bErr), w)
			return
		}
		bearly := ""
		if c.BEarly > 0 {
			bearly = ":early-data"
		}
		if cBad >= 0 {
			r.Violation("backend-to-client:corrupt-or-reordered"+bearly+final+":"+sig, fmt.Sprintf("first bad offset %d of %d", cBad, c.Lb), w)
			return
		}
		if cGot != c.Lb {
			r.Violation("backend-to-client:bytes-lost"+bearly+final+":"+sig, fmt.Sprintf("client received %d of %d bytes (%v)", cGot, c.Lb, cErr), w)
			return
		}
		// close propagation
		closer, other, otherR := conn, t.conn, io.Reader(t.br)
		if c.Closer == "backend" {
			closer, other, otherR = t.conn, conn, io.Reader(cbr)
		}
		if c.Last == 0 {
			if c.Reset {
				if tcp := rawTCP(closer); tcp != nil {
					tcp.SetLinger(0)
				}
			}
			closer.Close()
		} // else: the closer closed together with its last write
		seen := make(chan int, 1)
		go func() {
			buf := make([]byte, 4096)
			extra := 0
			for {
				n, err := otherR.Read(buf)
				extra += n
				if err != nil {
					seen <- extra
					return
				}
			}
		}()
		closed := false
		extra := 0
		for k := 0; k < 60 && !closed; k++ {
			select {
			case extra = <-seen:
				closed = true
			case <-time.After(100 * time.Millisecond):
				if !controlRoundTrip() {
					k-- // bfe not making progress: do not count this step
					r.Count("control_round_trip_failed", 1)
					if r.Counter("control_round_trip_failed") > 200 {
						k = 60
					}
				}
			}
		}
		_ = other
		if !closed {
			r.Violation("close-not-propagated:"+c.Closer+"-closed:"+sig, "the peer of the closing side saw neither EOF nor an error after 60 completed control round trips", w)
			return
		}
		if extra != 0 {
			r.Violation("surplus-bytes-before-close:"+sig, fmt.Sprintf("%d surplus bytes delivered before the close", extra), w)
		}
		r.Count("close_propagated_"+c.Closer, 1)
		if r.WantSample() && nontrivial {
			r.Sample(w)
		}
	}
	vkit.Parallel(len(cases), 12, func(i int) { run(cases[i]) })
	env := &c47Env{r: r, wsB: wsB, stB: stB, dialClient: dialClient, controlRoundTrip: controlRoundTrip}
	bpStart := time.Now()
	vkit.Parallel(len(bpCases), 12, func(i int) { env.runBP(bpCases[i]) })
	r.Count("bp_family_wall_ms", time.Since(bpStart).Milliseconds())

	bmu.Lock()
	_ = seenB
	bmu.Unlock()
	// C07 tunnel part: all tunnels are closed now; connection counts must be back to zero
	if bt := e2eBalTableBackends(srv, []string{"ws.c47.test", ""}); bt != nil {
		// no tunnel is opened any more; bfe tears a tunnel down 250 ms after either copy direction ended
		for k := 0; k < 600; k++ {
			all0 := true
			for _, b := range bt {
				if b.ConnNum() != 0 {
					all0 = false
				}
			}
			if all0 {
				break
			}
			time.Sleep(50 * time.Millisecond)
		}
		for _, b := range bt {
			if n := b.ConnNum(); n != 0 {
				r.Violation("tunnel-connnum-not-zero-at-quiescence", fmt.Sprintf("backend %s ConnNum=%d after all tunnels closed", b.Name, n), nil)
			}
			r.Count("backends_checked_connnum", 1)
		}
	}
	ws, st := e2eTunnelPanics()
	if ws != 0 || st != 0 {
		r.Violation("panic-counter:tunnel", fmt.Sprintf("WebSocketPanicConn=%d StreamPanicConn=%d", ws, st), nil)
	}
	if r.Replay == "" {
		c47BPFinish(r)
		for _, k := range []string{"ws", "wss", "stream"} {
			for _, cl := range []string{"client", "backend"} {
				if r.Counter("last_write_with_close:"+k+":"+cl+"-closes") == 0 {
					r.Inconclusive("no " + k + " tunnel in which the " + cl + " closed together with its last write was observed")
				}
			}
		}
		for _, k := range []string{"wss", "stream"} {
			if r.Counter("tls_client_last_data_and_close_notify_in_one_tcp_write:"+k) == 0 {
				r.Inconclusive("no " + k + " client sent its last data record and close_notify in one TCP write")
			}
		}
	}
	if r.Replay == "" && (r.Counter("tunnels_ws") == 0 || r.Counter("tunnels_wss") == 0 || r.Counter("tunnels_stream") == 0) {
		r.Inconclusive("a tunnel kind was never established")
	}
	_ = strings.TrimSpace
}
