package main

// C07, tunnel part: the statement's connection count is also maintained by the
// websocket and the TLS-offload stream proxies (anchors bfe_websocket/server_conn.go,
// bfe_stream/server_conn.go): IncConnNum after balancing, DecConnNum on a failed
// connect and when the tunnel ends. Monitor: (a) during churn a poller never sees a
// negative count, (b) with K tunnels parked in their backends ConnNum(b) equals the
// tunnels parked at b, (c) after everything is closed every count returns to zero.

import (
	"bufio"
	"crypto/tls"
	"fmt"
	"io"
	"net"
	"strings"
	"sync"
	"sync/atomic"
	"time"

	"github.com/bfenetworks/bfe/bfe_balance/backend"
	"github.com/bfenetworks/bfe/bfe_server"

	"verifharness/e2e"
	"verifharness/vkit"
)

type c07tBackend struct {
	name     string
	mode     string // ok | reject | drop
	ws       bool
	ln       net.Listener
	port     int
	inflight int64 // established tunnels currently open at this backend
	accepted int64
}

func c07tListen(name, mode string, ws bool) (*c07tBackend, error) {
	ln, err := net.Listen("tcp", "127.0.0.1:0")
	if err != nil {
		return nil, err
	}
	b := &c07tBackend{name: name, mode: mode, ws: ws, ln: ln, port: ln.Addr().(*net.TCPAddr).Port}
	go b.serve()
	return b, nil
}

func (b *c07tBackend) serve() {
	for {
		c, err := b.ln.Accept()
		if err != nil {
			return
		}
		atomic.AddInt64(&b.accepted, 1)
		go func() {
			defer c.Close()
			c.SetDeadline(time.Now().Add(120 * time.Second))
			if b.mode == "drop" {
				return
			}
			br := bufio.NewReader(c)
			if b.ws {
				for {
					line, err := br.ReadString('\n')
					if err != nil {
						return
					}
					if line == "\r\n" {
						break
					}
				}
				if b.mode == "reject" {
					c.Write([]byte("HTTP/1.1 403 Forbidden\r\nContent-Length: 0\r\nConnection: close\r\n\r\n"))
					return
				}
				if _, err := c.Write([]byte("HTTP/1.1 101 Switching Protocols\r\nUpgrade: websocket\r\nConnection: Upgrade\r\nSec-WebSocket-Accept: verif\r\n\r\n")); err != nil {
					return
				}
			} else {
				// a stream tunnel is established once its first byte arrives
				if _, err := br.ReadByte(); err != nil {
					return
				}
			}
			atomic.AddInt64(&b.inflight, 1)
			io.Copy(io.Discard, br) // until the tunnel is torn down
			atomic.AddInt64(&b.inflight, -1)
		}()
	}
}

type c07tCase struct {
	ID   int    `json:"id"`
	Kind string `json:"kind"` // ws | stream
	// End: how the client behaves
	//  close-now   complete the upgrade (or send the first byte), then close
	//  linger      as close-now but after a short pause with a few bytes exchanged
	//  abandon     close right after sending the request, without reading
	//  half        send half of the request head (ws) / nothing (stream), then close
	//  rst         as close-now but with SO_LINGER 0
	End string `json:"end"`
}

func c07tDial(srv *e2e.Server, kind string) (net.Conn, error) {
	if kind == "ws" {
		return net.DialTimeout("tcp", srv.HTTPAddr, 20*time.Second)
	}
	conn, err := tls.DialWithDialer(&net.Dialer{Timeout: 20 * time.Second}, "tcp", srv.HTTPSAddr, &tls.Config{InsecureSkipVerify: true, NextProtos: []string{"stream"}, MaxVersion: tls.VersionTLS12})
	if err != nil {
		return nil, err
	}
	if conn.ConnectionState().NegotiatedProtocol != "stream" {
		conn.Close()
		return nil, fmt.Errorf("alpn stream not negotiated")
	}
	return conn, nil
}

const c07tWsReq = "GET /c07t/%d HTTP/1.1\r\nHost: ws.c07t.test\r\nUpgrade: websocket\r\nConnection: Upgrade\r\nSec-WebSocket-Key: dmVyaWZ2ZXJpZnZlcmlmdg==\r\nSec-WebSocket-Version: 13\r\n\r\n"

// c07tOpen opens one tunnel; established reports whether the backend side of the
// tunnel exists (101 seen / first byte sent). hold != nil parks the client until
// the channel is closed.
func c07tOpen(srv *e2e.Server, c *c07tCase, hold chan struct{}) (outcome string) {
	conn, err := c07tDial(srv, c.Kind)
	if err != nil {
		return "dial-failed"
	}
	defer conn.Close()
	conn.SetDeadline(time.Now().Add(60 * time.Second))
	if c.Kind == "ws" {
		req := fmt.Sprintf(c07tWsReq, c.ID)
		if c.End == "half" {
			conn.Write([]byte(req[:len(req)/2]))
			return "half"
		}
		if _, err := conn.Write([]byte(req)); err != nil {
			return "write-failed"
		}
		if c.End == "abandon" {
			return "abandoned"
		}
		br := bufio.NewReader(conn)
		status, err := br.ReadString('\n')
		if err != nil {
			return "no-response"
		}
		for {
			line, err := br.ReadString('\n')
			if err != nil || line == "\r\n" {
				break
			}
		}
		f := strings.Fields(status)
		if len(f) < 2 || f[1] != "101" {
			if len(f) >= 2 {
				return "status-" + f[1]
			}
			return "no-response"
		}
	} else {
		if c.End == "half" {
			return "half"
		}
		if _, err := conn.Write([]byte("x")); err != nil {
			return "write-failed"
		}
		if c.End == "abandon" {
			return "abandoned"
		}
	}
	switch c.End {
	case "linger":
		conn.Write([]byte("0123456789"))
		time.Sleep(20 * time.Millisecond)
	case "rst":
		if tc, ok := conn.(*net.TCPConn); ok {
			tc.SetLinger(0)
		} else if tc, ok := conn.(*tls.Conn); ok {
			if nc, ok := tc.NetConn().(*net.TCPConn); ok {
				nc.SetLinger(0)
			}
		}
	}
	if hold != nil {
		<-hold
	}
	return "established"
}

func c07Tunnels(r *vkit.Run) {
	var bes []*c07tBackend
	mkb := func(name, mode string, ws bool) *c07tBackend {
		b, err := c07tListen(name, mode, ws)
		if err != nil {
			return nil
		}
		bes = append(bes, b)
		return b
	}
	wsOK1, wsOK2, wsRej, wsDrop := mkb("wsok1", "ok", true), mkb("wsok2", "ok", true), mkb("wsrej", "reject", true), mkb("wsdrop", "drop", true)
	stOK1, stOK2, stDrop := mkb("stok1", "ok", false), mkb("stok2", "ok", false), mkb("stdrop", "drop", false)
	for _, b := range []*c07tBackend{wsOK1, wsOK2, wsRej, wsDrop, stOK1, stOK2, stDrop} {
		if b == nil {
			r.Inconclusive("tunnel backends: listen failed")
			return
		}
	}
	defer func() {
		for _, b := range bes {
			b.ln.Close()
		}
	}()
	eb := func(b *c07tBackend, w int) e2e.Backend {
		return e2e.Backend{Name: b.name, Addr: "127.0.0.1", Port: b.port, Weight: w}
	}
	clusters := []e2e.Cluster{
		{Name: "c07tws", Hosts: []string{"ws.c07t.test"}, SubClusters: []e2e.SubCluster{{Name: "s", Weight: 100, Backends: []e2e.Backend{
			eb(wsOK1, 2), eb(wsOK2, 1), eb(wsRej, 1), eb(wsDrop, 1), {Name: "wsdead", Addr: "127.0.0.1", Port: e2e.ClosedPort(), Weight: 2}}}}},
		{Name: "c07tst", SubClusters: []e2e.SubCluster{{Name: "s", Weight: 100, Backends: []e2e.Backend{
			eb(stOK1, 2), eb(stOK2, 1), eb(stDrop, 1), {Name: "stdead", Addr: "127.0.0.1", Port: e2e.ClosedPort(), Weight: 2}}}}},
	}
	srv, err := e2e.Start(&e2e.Options{HTTPS: true, Clusters: clusters,
		TLSRule: `{"Version":"1","DefaultNextProtos":["stream","http/1.1"],"Config":{}}`,
		Files: map[string]string{
			"server_data_conf/host_rule.data":  `{"Version":"v1","DefaultProduct":"p_st","Hosts":{"t_ws":["ws.c07t.test"],"t_st":["st.c07t.test"]},"HostTags":{"p_ws":["t_ws"],"p_st":["t_st"]}}`,
			"server_data_conf/route_rule.data": `{"Version":"v1","ProductRule":{"p_ws":[{"Cond":"default_t()","ClusterName":"c07tws"}],"p_st":[{"Cond":"default_t()","ClusterName":"c07tst"}]}}`,
		}})
	if err != nil {
		r.Inconclusive("tunnel server start: " + err.Error())
		return
	}
	defer srv.Close()

	// backend objects of both clusters, by port
	type tracked struct {
		b    *backend.BfeBackend
		kind string
		name string
	}
	var tr []tracked
	byPort := map[int]*c07tBackend{}
	for _, b := range bes {
		byPort[b.port] = b
	}
	bt := bfe_server.VerifBalTable(srv.Srv)
	for _, cl := range []string{"c07tws", "c07tst"} {
		g, err := bt.Lookup(cl)
		if err != nil {
			r.Inconclusive("balance table has no " + cl)
			return
		}
		for _, sub := range g.VerifSnapshot().Subs {
			for _, vb := range sub.RR.Backends {
				tr = append(tr, tracked{b: vb.Backend, kind: strings.TrimPrefix(cl, "c07t"), name: vb.Backend.Name})
			}
		}
	}
	if len(tr) != 9 {
		r.Inconclusive(fmt.Sprintf("expected 9 tunnel backends in the balance table, found %d", len(tr)))
		return
	}

	// (a) poller for negative counts
	stop := make(chan struct{})
	var negMu sync.Mutex
	neg := map[string]int{}
	var pollWG sync.WaitGroup
	pollWG.Add(1)
	go func() {
		defer pollWG.Done()
		for {
			select {
			case <-stop:
				return
			default:
			}
			for _, t := range tr {
				if n := t.b.ConnNum(); n < 0 {
					negMu.Lock()
					if _, ok := neg[t.name]; !ok {
						neg[t.name] = n
					}
					negMu.Unlock()
				}
			}
			r.Count("tunnel_negative_polls", 1)
			time.Sleep(2 * time.Millisecond)
		}
	}()
	waitZero := func() map[string]int {
		// bfe tears a tunnel down 250 ms after either copy direction ended; a leak is permanent
		var bad map[string]int
		for k := 0; k < 1200; k++ {
			bad = map[string]int{}
			for _, t := range tr {
				if n := t.b.ConnNum(); n != 0 {
					bad[t.kind+":"+t.name] = n
				}
			}
			if len(bad) == 0 {
				return nil
			}
			time.Sleep(50 * time.Millisecond)
		}
		return bad
	}

	ends := []string{"close-now", "close-now", "linger", "abandon", "half", "rst"}
	rounds := r.N(3, 40)
	perRound := 60
	id := 0
	for round := 0; round < rounds; round++ {
		g := r.Rng("c07tunnel", round)
		var cases []*c07tCase
		for i := 0; i < perRound; i++ {
			id++
			cases = append(cases, &c07tCase{ID: id, Kind: g.PickS([]string{"ws", "ws", "stream"}), End: g.PickS(ends)})
		}
		var omu sync.Mutex
		vkit.Parallel(len(cases), 12, func(i int) {
			c := cases[i]
			out := c07tOpen(srv, c, nil)
			omu.Lock()
			r.CaseS(fmt.Sprintf("tunnel|%s|%s|%s", c.Kind, c.End, out), c.End != "close-now" || out != "established")
			r.Count("tunnel_outcome_"+c.Kind+"_"+out, 1)
			omu.Unlock()
		})
		if bad := waitZero(); bad != nil {
			for k, n := range bad {
				kind := "positive"
				if n < 0 {
					kind = "negative"
				}
				r.Violation("tunnel-connnum-not-zero-at-quiescence:"+kind+":"+k, fmt.Sprintf("backend %s ConnNum=%d one minute after every tunnel of the batch was closed", k, n),
					map[string]interface{}{"round": round, "counts": bad, "cases": cases})
			}
			close(stop)
			pollWG.Wait()
			return
		}
		r.Count("tunnel_zero_checks", 1)

		// (b) parked phase: K tunnels of each kind held open
		k := 6 + g.Intn(10)
		hold := make(chan struct{})
		var wg sync.WaitGroup
		var est int64
		var done int64
		for i := 0; i < 2*k; i++ {
			id++
			c := &c07tCase{ID: id, Kind: []string{"ws", "stream"}[i%2], End: "close-now"}
			wg.Add(1)
			go func() {
				defer wg.Done()
				// the established tunnel parks on hold; others return at once
				out := c07tOpenParked(srv, c, hold, &est)
				_ = out
				atomic.AddInt64(&done, 1)
			}()
		}
		// all 2k clients have either parked (est) or given up (done)
		parked := false
		for t := 0; t < 3000; t++ {
			if atomic.LoadInt64(&est)+atomic.LoadInt64(&done) >= int64(2*k) {
				var sum int64
				for _, b := range bes {
					sum += atomic.LoadInt64(&b.inflight)
				}
				if sum == atomic.LoadInt64(&est) {
					parked = true
					break
				}
			}
			time.Sleep(10 * time.Millisecond)
		}
		if parked && atomic.LoadInt64(&est) > 0 {
			// failed attempts have returned their counts at the latest 250 ms + scheduling after
			// the client left; compare until equal, a permanent difference is the violation
			var diff map[string][2]int64
			for t := 0; t < 600; t++ {
				diff = map[string][2]int64{}
				for _, x := range tr {
					want := int64(0)
					if sb := byPort[x.b.Port]; sb != nil {
						want = atomic.LoadInt64(&sb.inflight)
					}
					if got := int64(x.b.ConnNum()); got != want {
						diff[x.kind+":"+x.name] = [2]int64{got, want}
					}
				}
				if len(diff) == 0 {
					break
				}
				time.Sleep(50 * time.Millisecond)
			}
			r.Count("tunnel_parked_phases", 1)
			r.Count("tunnel_parked_tunnels", atomic.LoadInt64(&est))
			for kx, d := range diff {
				r.Violation("tunnel-connnum-differs-from-open-tunnels:"+kx, fmt.Sprintf("backend %s ConnNum=%d while %d tunnels are open at it (30 s after the last tunnel was established)", kx, d[0], d[1]),
					map[string]interface{}{"round": round, "k": k, "diff": diff})
			}
		} else {
			r.Count("tunnel_parked_phases_skipped", 1)
		}
		close(hold)
		wg.Wait()
		if bad := waitZero(); bad != nil {
			for kx, n := range bad {
				r.Violation("tunnel-connnum-not-zero-after-parked-phase:"+kx, fmt.Sprintf("backend %s ConnNum=%d one minute after the parked tunnels were closed", kx, n), map[string]interface{}{"round": round, "counts": bad})
			}
			break
		}
	}
	close(stop)
	pollWG.Wait()
	negMu.Lock()
	for name, n := range neg {
		r.Violation("tunnel-connnum-negative-observed:"+name, fmt.Sprintf("backend %s ConnNum=%d", name, n), nil)
	}
	negMu.Unlock()
	ws, st := e2eTunnelPanics()
	if ws != 0 || st != 0 {
		r.Violation("panic-counter:tunnel", fmt.Sprintf("WebSocketPanicConn=%d StreamPanicConn=%d", ws, st), nil)
	}
	var deadDials int64
	for _, b := range bes {
		r.Count("tunnel_backend_accepted_"+b.name, atomic.LoadInt64(&b.accepted))
	}
	_ = deadDials
	if r.Counter("tunnel_parked_phases") == 0 {
		r.Inconclusive("no tunnel parked phase completed")
	}
	if r.Counter("tunnel_outcome_ws_established") == 0 || r.Counter("tunnel_outcome_stream_established") == 0 {
		r.Inconclusive("a tunnel kind was never established")
	}
}

// c07tOpenParked is c07tOpen for the parked phase: est is incremented once the
// tunnel is established, before parking.
func c07tOpenParked(srv *e2e.Server, c *c07tCase, hold chan struct{}, est *int64) string {
	conn, err := c07tDial(srv, c.Kind)
	if err != nil {
		return "dial-failed"
	}
	defer conn.Close()
	conn.SetDeadline(time.Now().Add(120 * time.Second))
	if c.Kind == "ws" {
		if _, err := conn.Write([]byte(fmt.Sprintf(c07tWsReq, c.ID))); err != nil {
			return "write-failed"
		}
		br := bufio.NewReader(conn)
		status, err := br.ReadString('\n')
		if err != nil {
			return "no-response"
		}
		for {
			line, err := br.ReadString('\n')
			if err != nil || line == "\r\n" {
				break
			}
		}
		if f := strings.Fields(status); len(f) < 2 || f[1] != "101" {
			return "not-101"
		}
	} else {
		if _, err := conn.Write([]byte("x")); err != nil {
			return "write-failed"
		}
		// a stream tunnel to a dropping or dead backend ends with the connection being
		// closed by bfe; an established one stays silent. Probe with a short read.
		conn.SetReadDeadline(time.Now().Add(1500 * time.Millisecond))
		var one [1]byte
		if _, err := conn.Read(one[:]); err != nil {
			if ne, ok := err.(net.Error); !ok || !ne.Timeout() {
				return "closed"
			}
		}
		conn.SetReadDeadline(time.Now().Add(120 * time.Second))
	}
	atomic.AddInt64(est, 1)
	<-hold
	return "established"
}
