package main

import (
	"bufio"
	"crypto/tls"
	"encoding/json"
	"fmt"
	"net"
	"net/url"
	"os"
	"path/filepath"
	"runtime"
	"strings"
	"sync"
	"sync/atomic"
	"time"

	"github.com/bfenetworks/bfe/bfe_basic"
	"github.com/bfenetworks/bfe/bfe_http"
	"github.com/bfenetworks/bfe/bfe_module"
	"github.com/bfenetworks/bfe/bfe_route"

	"verifharness/e2e"
	"verifharness/vkit"
)

// C15: requests processed while reloads run are each handled under one
// configuration snapshot; in-flight requests finish with the snapshot they
// started with; concurrent reloads and request processing never race or panic.
//
// Versioned configurations: in server-data version i the probe host maps to
// product p<i> and cluster c<i>; in gslb version j every cluster's only live
// sub-cluster is s<j> with backend b<j>. All clusters exist in every version of
// both families, so mixing families is legal, mixing versions inside a family
// is not.

const c15K = 6 // versions per family

type c15Obs struct {
	Point int
	What  string
	Ptr   string
}

func c15ver(s string) string { // "p3" -> "3"
	if len(s) < 2 {
		return "?" + s
	}
	return s[1:]
}

func c15WriteServerData(dir string, ver int) error {
	var cs []e2e.Cluster
	for i := 1; i <= c15K; i++ {
		cs = append(cs, e2e.Cluster{Name: fmt.Sprintf("c%d", i), MaxIdleConnsPerHost: 2, RetryMax: 1})
	}
	hosts := map[string]interface{}{
		"Version":        fmt.Sprintf("sv%d", ver),
		"DefaultProduct": nil,
		"Hosts":          map[string][]string{fmt.Sprintf("t%d", ver): {"h.c15.test"}},
		"HostTags":       map[string][]string{fmt.Sprintf("p%d", ver): {fmt.Sprintf("t%d", ver)}},
	}
	route := map[string]interface{}{
		"Version": fmt.Sprintf("sv%d", ver),
		"ProductRule": map[string]interface{}{
			fmt.Sprintf("p%d", ver): []map[string]string{{"Cond": "default_t()", "ClusterName": fmt.Sprintf("c%d", ver)}},
		},
	}
	hb, _ := json.Marshal(hosts)
	rb, _ := json.Marshal(route)
	files := map[string]string{
		"host_rule.data":    string(hb),
		"route_rule.data":   string(rb),
		"vip_rule.data":     `{"Version":"v","Vips":{}}`,
		"cluster_conf.data": e2e.ClusterConfJSON(fmt.Sprintf("sv%d", ver), cs),
	}
	os.MkdirAll(dir, 0o755)
	for k, v := range files {
		if err := os.WriteFile(filepath.Join(dir, k), []byte(v), 0o644); err != nil {
			return err
		}
	}
	return nil
}

func c15WriteGslb(dir string, ver int, addr string, port int) error {
	var cs []e2e.Cluster
	for i := 1; i <= c15K; i++ {
		cs = append(cs, e2e.Cluster{Name: fmt.Sprintf("c%d", i), SubClusters: []e2e.SubCluster{
			{Name: fmt.Sprintf("s%d", ver), Weight: 100, Backends: []e2e.Backend{{Name: fmt.Sprintf("b%d", ver), Addr: addr, Port: port, Weight: 5}}},
		}})
	}
	os.MkdirAll(dir, 0o755)
	if err := os.WriteFile(filepath.Join(dir, "gslb.data"), []byte(e2e.GslbJSON(cs)), 0o644); err != nil {
		return err
	}
	return os.WriteFile(filepath.Join(dir, "cluster_table.data"), []byte(e2e.ClusterTableJSON(fmt.Sprintf("gv%d", ver), cs)), 0o644)
}

func c15(r *vkit.Run) {
	r.SetRule("full in-process BFE (HTTP + HTTPS) serving keep-alive HTTP/1, HTTPS and HTTP/2 clients while 5 reloader goroutines install versioned server-data (host/route/cluster_conf) and gslb/cluster-table configurations (two of them reloading the same family concurrently) and reload TLS rules/certs and the session-ticket key; every name embeds its version; harness filters at 5 callback points log product, cluster, SvrDataConf pointer, sub-cluster and backend per request; two pollers spin on GetServerConf() and require host, route and cluster_conf versions of every installed snapshot to come from one load; offline check: one version per family per request, same snapshot pointer at all request-phase points; race detector scoped to reports with a reload frame; bfe panic counters must stay 0. Non-trivial = request processed while the installed version changed since the previous request of that client; distinct = (server-data version, gslb version) pair observed")
	r.RaceScope("ConfReload", "SessionTicketKeyReload", "tlsConfLoad", "BalTableReload", "setTransports")
	bs := e2e.NewBackendSet()
	defer bs.Close()
	var slow int64
	be := bs.New("b", func(x *e2e.Exchange) e2e.Action {
		a := e2e.Action{Status: 200, Body: []byte("ok")}
		if atomic.AddInt64(&slow, 1)%16 == 0 {
			a.Delay = 30 * time.Millisecond // hold some requests across reloads
		}
		return a
	})
	scratch := e2e.Scratch()
	vdir := filepath.Join(scratch, "c15v")
	for v := 1; v <= c15K; v++ {
		if err := c15WriteServerData(filepath.Join(vdir, fmt.Sprintf("sd%d", v)), v); err != nil {
			r.Inconclusive(err.Error())
			return
		}
		if err := c15WriteGslb(filepath.Join(vdir, fmt.Sprintf("gs%d", v)), v, be.Addr, be.Port); err != nil {
			r.Inconclusive(err.Error())
			return
		}
	}
	rd := func(p string) string { b, _ := os.ReadFile(filepath.Join(vdir, p)); return string(b) }
	srv, err := e2e.Start(&e2e.Options{HTTPS: true, SessionTickets: true,
		TLSRule: `{"Version":"1","DefaultNextProtos":["h2","http/1.1"],"Config":{}}`,
		Files: map[string]string{
			"server_data_conf/host_rule.data":    rd("sd1/host_rule.data"),
			"server_data_conf/route_rule.data":   rd("sd1/route_rule.data"),
			"server_data_conf/cluster_conf.data": rd("sd1/cluster_conf.data"),
			"server_data_conf/vip_rule.data":     rd("sd1/vip_rule.data"),
			"cluster_conf/gslb.data":             rd("gs1/gslb.data"),
			"cluster_conf/cluster_table.data":    rd("gs1/cluster_table.data"),
		}})
	if err != nil {
		r.Inconclusive("server start: " + err.Error())
		return
	}
	defer srv.Close()

	var mu sync.Mutex
	obs := map[string][]c15Obs{}
	rec := func(req *bfe_basic.Request, point int, what string) {
		id := req.HttpRequest.Header.Get("X-Id")
		ptr := ""
		if req.SvrDataConf != nil {
			ptr = fmt.Sprintf("%p", req.SvrDataConf)
		}
		mu.Lock()
		obs[id] = append(obs[id], c15Obs{point, what, ptr})
		mu.Unlock()
	}
	cb := srv.Srv.CallBacks
	cb.AddFilter(bfe_module.HandleBeforeLocation, func(req *bfe_basic.Request) (int, *bfe_http.Response) {
		rec(req, bfe_module.HandleBeforeLocation, "")
		return bfe_module.BfeHandlerGoOn, nil
	})
	cb.AddFilter(bfe_module.HandleFoundProduct, func(req *bfe_basic.Request) (int, *bfe_http.Response) {
		rec(req, bfe_module.HandleFoundProduct, req.Route.Product)
		return bfe_module.BfeHandlerGoOn, nil
	})
	cb.AddFilter(bfe_module.HandleAfterLocation, func(req *bfe_basic.Request) (int, *bfe_http.Response) {
		rec(req, bfe_module.HandleAfterLocation, req.Route.Product+"/"+req.Route.ClusterName)
		return bfe_module.BfeHandlerGoOn, nil
	})
	cb.AddFilter(bfe_module.HandleForward, func(req *bfe_basic.Request) int {
		if b := req.Trans.Backend; b != nil {
			rec(req, bfe_module.HandleForward, b.SubCluster+"/"+b.Name)
		}
		return bfe_module.BfeHandlerGoOn
	})
	cb.AddFilter(bfe_module.HandleReadResponse, func(req *bfe_basic.Request, res *bfe_http.Response) int {
		rec(req, bfe_module.HandleReadResponse, req.Route.Product+"/"+req.Route.ClusterName)
		return bfe_module.BfeHandlerGoOn
	})
	// every configuration version routes the probe host to a healthy backend, so a request
	// that bfe itself fails (ErrCode set) while reloads run saw a half-installed configuration
	cb.AddFilter(bfe_module.HandleRequestFinish, func(req *bfe_basic.Request, res *bfe_http.Response) int {
		if req.ErrCode != nil {
			rec(req, bfe_module.HandleRequestFinish, req.ErrCode.Error())
		}
		return bfe_module.BfeHandlerGoOn
	})

	nClients := 16
	perClient := r.N(250, 4000)
	var done int32
	var reloads, reloadErrs int64
	var wgR sync.WaitGroup
	reloader := func(idx int, family string) {
		defer wgR.Done()
		g := r.Rng("reloader", idx)
		for atomic.LoadInt32(&done) == 0 {
			v := 1 + g.Intn(c15K)
			var err error
			switch family {
			case "sd":
				err = srv.Srv.ServerDataConfReload(url.Values{"path": {filepath.Join(vdir, fmt.Sprintf("sd%d", v))}})
			case "gs":
				err = srv.Srv.GslbDataConfReload(url.Values{"path": {filepath.Join(vdir, fmt.Sprintf("gs%d", v))}})
			case "tls":
				if g.Bool() {
					err = srv.Srv.TLSConfReload(url.Values{})
				} else {
					err = srv.Srv.SessionTicketKeyReload()
				}
			}
			atomic.AddInt64(&reloads, 1)
			if err != nil {
				atomic.AddInt64(&reloadErrs, 1)
				r.Extra("reload_error_example", family+": "+err.Error())
			}
			time.Sleep(time.Duration(g.Intn(3)) * time.Millisecond)
		}
	}
	for i, f := range []string{"sd", "sd", "gs", "gs", "tls"} {
		wgR.Add(1)
		go reloader(i, f)
	}

	// snapshot pollers: the accessor every request takes its configuration from must only
	// ever return completely installed server data (host, route and cluster tables of ONE load)
	var wgP sync.WaitGroup
	var polls, ptrChanges int64
	var mixMu sync.Mutex
	mixed := map[string]int{}
	for p := 0; p < 2; p++ {
		wgP.Add(1)
		go func() {
			defer wgP.Done()
			var last *bfe_route.ServerDataConf
			for n := 0; atomic.LoadInt32(&done) == 0; n++ {
				sc := srv.Srv.GetServerConf()
				if sc != last {
					last = sc
					atomic.AddInt64(&ptrChanges, 1)
					if sc == nil || sc.HostTable == nil || sc.ClusterTable == nil {
						mixMu.Lock()
						mixed["nil-table"]++
						mixMu.Unlock()
						continue
					}
					hv, cv := sc.HostTable.GetVersions(), sc.ClusterTable.GetVersions()
					if hv.HostTag != hv.ProductRoute || hv.HostTag != cv.ClusterConfVer {
						mixMu.Lock()
						mixed[fmt.Sprintf("host=%s route=%s cluster_conf=%s", hv.HostTag, hv.ProductRoute, cv.ClusterConfVer)]++
						mixMu.Unlock()
					}
				}
				atomic.AddInt64(&polls, 1)
				if n%64 == 63 {
					runtime.Gosched()
				}
			}
		}()
	}

	var statusMu sync.Mutex
	status := map[string]int{}
	var wgC sync.WaitGroup
	for c := 0; c < nClients; c++ {
		wgC.Add(1)
		go func(c int) {
			defer wgC.Done()
			var conn net.Conn
			var br *bufio.Reader
			dial := func() bool {
				var err error
				if c%4 == 3 {
					conn, err = tls.DialWithDialer(&net.Dialer{Timeout: 5 * time.Second}, "tcp", srv.HTTPSAddr, &tls.Config{InsecureSkipVerify: true, MaxVersion: tls.VersionTLS12})
				} else {
					conn, err = net.DialTimeout("tcp", srv.HTTPAddr, 5*time.Second)
				}
				if err != nil {
					return false
				}
				br = bufio.NewReader(conn)
				return true
			}
			for i := 0; i < perClient; i++ {
				if c%4 == 2 { // HTTP/2 client: one TLS+h2 connection per request
					if i%4 != 0 {
						continue // keep the TLS handshake cost of this client comparable
					}
					id := fmt.Sprintf("c%d-%d", c, i)
					res := e2e.H2Once(srv.HTTPSAddr, []e2e.HF{{Name: ":method", Value: "GET"}, {Name: ":scheme", Value: "https"}, {Name: ":authority", Value: "h.c15.test"}, {Name: ":path", Value: "/c15/" + id}, {Name: "x-id", Value: id}}, nil, 30*time.Second)
					st := res.Status
					if st == "" {
						st = "err"
					}
					statusMu.Lock()
					status[st]++
					status["h2_requests"]++
					statusMu.Unlock()
					continue
				}
				if conn == nil && !dial() {
					statusMu.Lock()
					status["dial-failed"]++
					statusMu.Unlock()
					continue
				}
				id := fmt.Sprintf("c%d-%d", c, i)
				conn.SetDeadline(time.Now().Add(30 * time.Second))
				fmt.Fprintf(conn, "GET /c15/%s HTTP/1.1\r\nHost: h.c15.test\r\nX-Id: %s\r\n\r\n", id, id)
				resp, err := e2e.ReadResp(br, "GET")
				st := "err"
				if err == nil {
					st = fmt.Sprint(resp.Status)
				}
				statusMu.Lock()
				status[st]++
				statusMu.Unlock()
				if err != nil || resp.Close || i%40 == 39 {
					conn.Close()
					conn = nil
				}
			}
			if conn != nil {
				conn.Close()
			}
		}(c)
	}
	wgC.Wait()
	atomic.StoreInt32(&done, 1)
	wgR.Wait()
	wgP.Wait()
	r.Count("snapshot_polls", atomic.LoadInt64(&polls))
	r.Count("snapshot_pointer_changes_seen", atomic.LoadInt64(&ptrChanges))
	for k, n := range mixed {
		r.Violation("installed-snapshot-mixes-loads", fmt.Sprintf("GetServerConf() returned server data assembled from different loads: %s (%d times)", k, n), map[string]interface{}{"versions": k})
		break
	}

	r.Count("reloads", atomic.LoadInt64(&reloads))
	r.Count("reload_errors", atomic.LoadInt64(&reloadErrs))
	for k, v := range status {
		r.Count("client_status_"+k, int64(v))
	}
	mu.Lock()
	defer mu.Unlock()
	pairs := map[string]bool{}
	lastSD := map[string]string{}
	for id, ev := range obs {
		w := map[string]interface{}{"id": id, "observations": ev}
		var sdv, gsv string
		ptr := ""
		for _, e := range ev {
			switch e.Point {
			case bfe_module.HandleFoundProduct:
				sdv = c15ver(e.What)
			case bfe_module.HandleAfterLocation, bfe_module.HandleReadResponse:
				pc := strings.SplitN(e.What, "/", 2)
				if len(pc) == 2 {
					pv, cv := c15ver(pc[0]), c15ver(pc[1])
					if pv != cv {
						r.Violation("mixed-server-data-versions:product-vs-cluster", fmt.Sprintf("request %s: product %s routed to cluster %s", id, pc[0], pc[1]), w)
					}
					if sdv != "" && pv != sdv {
						r.Violation("mixed-server-data-versions:across-callbacks", fmt.Sprintf("request %s changed product version %s -> %s", id, sdv, pv), w)
					}
				}
			case bfe_module.HandleRequestFinish:
				switch e.What {
				case "BK_NO_BACKEND", "BK_NO_SUB_CLUSTER", "BK_NO_SUB_CLUSTER_CROSS", "BK_NO_CLUSTER", "BK_FIND_PRODUCT", "BK_FIND_LOCATION", "BK_RETRY_TOOMANY", "GSLB_BLACKHOLE":
					r.Violation("request-failed-under-half-installed-config:"+e.What,
						fmt.Sprintf("request %s failed with %s although every configuration version has a healthy backend for it", id, e.What), w)
				default:
					r.Count("requests_failed_other_"+e.What, 1)
				}
			case bfe_module.HandleForward:
				sb := strings.SplitN(e.What, "/", 2)
				if len(sb) == 2 {
					if c15ver(sb[0]) != c15ver(sb[1]) {
						r.Violation("mixed-gslb-versions:subcluster-vs-backend", fmt.Sprintf("request %s: sub-cluster %s with backend %s", id, sb[0], sb[1]), w)
					}
					gsv = c15ver(sb[0])
				}
			}
			if e.Ptr != "" {
				if ptr == "" {
					ptr = e.Ptr
				} else if ptr != e.Ptr {
					r.Violation("snapshot-pointer-changed-within-request", fmt.Sprintf("request %s saw SvrDataConf %s then %s", id, ptr, e.Ptr), w)
				}
			}
		}
		client := strings.SplitN(id, "-", 2)[0]
		changed := lastSD[client] != "" && lastSD[client] != sdv
		lastSD[client] = sdv
		pairs[sdv+"/"+gsv] = true
		r.CaseS(sdv+"/"+gsv, true)
		if changed {
			r.Count("requests_seeing_a_new_version", 1)
		}
		if r.WantSample() && changed {
			r.Sample(w)
		}
	}
	r.Count("requests_observed", int64(len(obs)))
	r.Count("distinct_version_pairs", int64(len(pairs)))
	for k, v := range e2e_panics(srv) {
		if v != 0 {
			r.Violation("panic-counter:"+k, fmt.Sprintf("%s=%d during reloads", k, v), nil)
		}
	}
	if status["200"] < nClients*perClient*6/10 {
		r.Inconclusive(fmt.Sprintf("too few successful requests: %v", status))
	}
	if len(pairs) < 4 || r.Counter("reloads") < 50 {
		r.Inconclusive("too few configuration versions observed")
	}
}
