package main

import (
	"fmt"
	"net"
	"strings"
	"sync"
	"time"

	"github.com/bfenetworks/bfe/bfe_basic"
	"github.com/bfenetworks/bfe/bfe_module"

	"verifharness/e2e"
	"verifharness/vkit"
)

// C08: a request is sent again only if the previous attempt failed while
// connecting, or it is a body-less GET and the cluster's retry level allows
// retrying GETs; requests whose body may have been consumed are never replayed;
// attempts <= 1 + RetryMax + CrossRetry; a cross-sub-cluster attempt goes to a
// different, non-blackhole sub-cluster.
//
// Event log: (1) every attempt passes the HandleForward callback, where a
// harness filter records (request id, backend port, sub-cluster, RetryTime);
// (2) every attempt that delivered a request to a live backend is recorded by
// the scripted backend, which injects the scripted fault for the k-th arrival.

type c08Attempt struct {
	Port      int    `json:"port"`
	Sub       string `json:"sub"`
	RetryTime int    `json:"retry_time"`
	PrevErr   string `json:"prev_err"` // bfe's classification of the previous attempt's failure, as seen by this attempt's forward callback
}

type c08Case struct {
	ID       string   `json:"id"`
	Cluster  string   `json:"cluster"`
	Level    int      `json:"retry_level"`
	Max      int      `json:"retry_max"`
	Cross    int      `json:"cross_retry"`
	Frontend string   `json:"frontend"` // h1 | h2 | spdy
	Shape    string   `json:"shape"`    // request shape
	Faults   []string `json:"faults"`   // fault for the k-th arrival at a live backend
	// reload-history dimension (c08hist.go): life cycle of the cluster and the number of
	// reload steps executed before this request; Level/Max/Cross are then the values of the
	// cluster_conf that is CURRENTLY installed
	Hist string `json:"hist,omitempty"`
	Step int    `json:"step,omitempty"`
}

var c08Shapes = []string{"GET", "GET-cl0", "HEAD", "POST-fixed", "POST-chunked", "PUT-fixed", "POST-expect", "GET-body"}
var c08FaultKinds = []string{"ok", "close", "reset", "partial", "slow", "closeafter"}

func (c *c08Case) bytes() []byte {
	var sb strings.Builder
	method := strings.SplitN(c.Shape, "-", 2)[0]
	fmt.Fprintf(&sb, "%s /c08/%s HTTP/1.1\r\nHost: %s.c08.test\r\nX-Id: %s\r\nX-Faults: %s\r\nConnection: close\r\n", method, c.ID, c.Cluster, c.ID, strings.Join(c.Faults, ","))
	body := "body-of-" + c.ID
	switch c.Shape {
	case "GET", "HEAD":
		sb.WriteString("\r\n")
	case "GET-cl0":
		sb.WriteString("Content-Length: 0\r\n\r\n")
	case "POST-fixed", "PUT-fixed", "GET-body":
		fmt.Fprintf(&sb, "Content-Length: %d\r\n\r\n%s", len(body), body)
	case "POST-chunked":
		fmt.Fprintf(&sb, "Transfer-Encoding: chunked\r\n\r\n%x\r\n%s\r\n0\r\n\r\n", len(body), body)
	case "POST-expect":
		fmt.Fprintf(&sb, "Expect: 100-continue\r\nContent-Length: %d\r\n\r\n%s", len(body), body)
	}
	return []byte(sb.String())
}

func (c *c08Case) hasBody() bool {
	switch c.Shape {
	case "GET", "HEAD", "GET-cl0":
		return false
	}
	return true
}

func c08(r *vkit.Run) {
	r.SetRule("full in-process BFE with 24 clusters = RetryLevel{0,1} x RetryMax{0..3} x CrossRetry{0..2}; each has a primary sub-cluster (2 refused ports + 2 live backends), two weight-0 sub-clusters and a blackhole; per request a fault vector (ok/close before reply/RST/partial header then close/reply slower than TimeoutResponseHeader/close the kept-alive connection after replying) is applied to the k-th arrival at a live backend; 8 request shapes (GET, GET CL:0, HEAD, POST fixed/chunked/expect-100, PUT, GET with body). Thorough enumerates all fault vectors of length<=3 (and seeded length 4) x shapes x clusters; quick a seeded subset. Oracle: offline checker over the per-request attempt log from the forward callback + backend arrivals. RELOAD HISTORY (c08hist.go): 30 (thorough 80) further clusters d<k> with RetryMax,CrossRetry in {0,1,2} run through 10 scripted life cycles built from gslb reloads that add/remove the cluster in gslb.data+cluster_table.data and server-data reloads that introduce it or change its retry settings, in both orders (cluster_conf first / gslb first; removed and re-added; settings changed before or after the balancer exists), executed through the server's own GslbDataConfReload/ServerDataConfReload entry points on generated conf dirs over 30 (thorough 90) sequential steps; after every step each routable dynamic cluster gets a GET whose every live arrival fails, a seeded shape/fault vector and a request with a body, judged by the same checker with the retry settings of the cluster_conf installed at that moment (half of the dynamic clusters have a primary sub-cluster of refused ports only, so every shape uses its whole budget). Non-trivial = >=1 failed attempt observed; distinct = (retry setting, shape, fault vector[, life-cycle stage])")
	bs := e2e.NewBackendSet()
	defer bs.Close()
	var mu sync.Mutex
	arrivals := map[string]int{}          // id -> arrivals at live backends
	attempts := map[string][]c08Attempt{} // id -> attempts (forward callback)
	on := func(x *e2e.Exchange) e2e.Action {
		id := x.Req.Header.Get("X-Id")
		mu.Lock()
		k := arrivals[id]
		arrivals[id]++
		mu.Unlock()
		fs := strings.Split(x.Req.Header.Get("X-Faults"), ",")
		f := "ok"
		if k < len(fs) && fs[k] != "" {
			f = fs[k]
		}
		ok := e2e.Action{Status: 200, Body: []byte("ok " + id)}
		switch f {
		case "close":
			return e2e.Action{CloseBefore: true}
		case "reset":
			return e2e.Action{Reset: true}
		case "partial":
			ok.WriteOnly = 12
			return ok
		case "slow":
			ok.Delay = 1500 * time.Millisecond
			return ok
		case "closeafter":
			ok.CloseAfter = true
			return ok
		}
		return ok
	}
	var live []*e2e.BackendServer
	for i := 0; i < 6; i++ {
		live = append(live, bs.New(fmt.Sprintf("live%d", i), on))
	}
	deadPorts := []int{e2e.ClosedPort(), e2e.ClosedPort(), e2e.ClosedPort()}
	livePort := map[int]bool{}
	for _, b := range live {
		livePort[b.Port] = true
	}
	lb := func(i, w int) e2e.Backend {
		return e2e.Backend{Name: live[i].Name, Addr: live[i].Addr, Port: live[i].Port, Weight: w}
	}
	db := func(i, w int) e2e.Backend {
		return e2e.Backend{Name: fmt.Sprintf("dead%d", i), Addr: "127.0.0.1", Port: deadPorts[i], Weight: w}
	}
	type setting struct{ level, max, cross int }
	var settings []setting
	var clusters []e2e.Cluster
	for level := 0; level <= 1; level++ {
		for max := 0; max <= 3; max++ {
			for cross := 0; cross <= 2; cross++ {
				name := fmt.Sprintf("l%dm%dx%d", level, max, cross)
				settings = append(settings, setting{level, max, cross})
				clusters = append(clusters, e2e.Cluster{
					Name: name, Hosts: []string{name + ".c08.test"}, RetryLevel: level, RetryMax: max, CrossRetry: cross,
					MaxIdleConnsPerHost: 2, TimeoutResponseHeader: 500, TimeoutConnSrv: 5000,
					SubClusters: []e2e.SubCluster{
						{Name: "prim", Weight: 100, Backends: []e2e.Backend{lb(0, 3), db(0, 2), lb(1, 2), db(1, 1)}},
						{Name: "x1", Weight: 0, Backends: []e2e.Backend{lb(2, 1), db(2, 1), lb(3, 1)}},
						{Name: "x2", Weight: 0, Backends: []e2e.Backend{lb(4, 1), lb(5, 1)}},
					},
				})
			}
		}
	}
	// reload-history dimension (c08hist.go): dynamic clusters d<k> next to the 24 static ones
	hist := newC08History(r, clusters, func(d *c08DynState) e2e.Cluster {
		prim := []e2e.Backend{lb(0, 3), db(0, 2), lb(1, 2), db(1, 1)}
		if d.Layout == "deadprim" {
			prim = []e2e.Backend{db(0, 2), db(1, 1), db(2, 1)}
		}
		return e2e.Cluster{
			Name: d.Name, Hosts: []string{d.Name + ".c08.test"}, RetryLevel: d.Level, RetryMax: d.Max, CrossRetry: d.Cross,
			MaxIdleConnsPerHost: 2, TimeoutResponseHeader: 500, TimeoutConnSrv: 5000,
			SubClusters: []e2e.SubCluster{
				{Name: "prim", Weight: 100, Backends: prim},
				{Name: "x1", Weight: 0, Backends: []e2e.Backend{lb(2, 1), db(2, 1), lb(3, 1)}},
				{Name: "x2", Weight: 0, Backends: []e2e.Backend{lb(4, 1), lb(5, 1)}},
			},
		}
	})
	var replayW struct {
		Case    c08Case       `json:"case"`
		Initial []c08DynState `json:"initial"`
		History []c08StepRec  `json:"history"`
	}
	if r.Replay != "" {
		if err := r.LoadReplay(&replayW); err != nil {
			r.Inconclusive(err.Error())
			return
		}
		hist.useReplay(replayW.Initial, replayW.History, &replayW.Case)
	}
	startClusters, startFiles := hist.startOptions()
	srv, err := e2e.Start(&e2e.Options{Clusters: startClusters, Files: startFiles, HTTPS: true,
		TLSRule: `{"Version":"1","DefaultNextProtos":["h2","spdy/3.1","http/1.1"],"Config":{}}`})
	if err != nil {
		r.Inconclusive("server start: " + err.Error())
		return
	}
	defer srv.Close()
	hist.srv = srv
	if err := srv.Srv.CallBacks.AddFilter(bfe_module.HandleForward, func(req *bfe_basic.Request) int {
		id := req.HttpRequest.Header.Get("X-Id")
		if b := req.Trans.Backend; b != nil && id != "" {
			mu.Lock()
			pe := ""
			if req.ErrCode != nil {
				pe = req.ErrCode.Error()
			}
			attempts[id] = append(attempts[id], c08Attempt{Port: b.Port, Sub: b.SubCluster, RetryTime: req.RetryTime, PrevErr: pe})
			mu.Unlock()
		}
		return bfe_module.BfeHandlerGoOn
	}); err != nil {
		r.Inconclusive(err.Error())
		return
	}

	var cases []*c08Case
	n := 0
	add := func(st setting, shape string, faults []string) {
		fe := "h1"
		// every 4th case goes through the HTTP/2 frontend, every 4th through SPDY (shapes that exist there)
		if shape != "POST-expect" && shape != "POST-chunked" && shape != "GET-cl0" {
			switch n % 4 {
			case 1:
				fe = "h2"
			case 2:
				fe = "spdy"
			}
		}
		cases = append(cases, &c08Case{ID: fmt.Sprintf("q%d", n), Cluster: fmt.Sprintf("l%dm%dx%d", st.level, st.max, st.cross),
			Level: st.level, Max: st.max, Cross: st.cross, Shape: shape, Faults: faults, Frontend: fe})
		n++
	}
	if r.Replay != "" {
		if replayW.Case.Hist == "" {
			c := replayW.Case
			c.ID = "replay0"
			cases = append(cases, &c)
		}
		r.SetMinDistinct(0)
	} else if r.Quick() {
		m := 3000
		for i := 0; i < m; i++ {
			g := r.Rng("case", i)
			st := settings[g.Intn(len(settings))]
			l := g.Range(1, 4)
			fs := make([]string, l)
			for k := range fs {
				fs[k] = c08FaultKinds[g.Intn(len(c08FaultKinds))]
			}
			add(st, c08Shapes[g.Intn(len(c08Shapes))], fs)
		}
	} else {
		var vecs [][]string
		var rec func(prefix []string)
		rec = func(prefix []string) {
			if len(prefix) > 0 {
				vecs = append(vecs, append([]string(nil), prefix...))
			}
			if len(prefix) == 3 {
				return
			}
			for _, k := range c08FaultKinds {
				rec(append(prefix, k))
			}
		}
		rec(nil)
		for _, st := range settings {
			for _, sh := range c08Shapes {
				for _, v := range vecs {
					add(st, sh, v)
				}
			}
		}
		r.Count("enumerated_vectors_len_le3", int64(len(vecs)))
		for i := 0; i < 6000; i++ {
			g := r.Rng("len4", i)
			fs := make([]string, 4)
			for k := range fs {
				fs[k] = c08FaultKinds[g.Intn(len(c08FaultKinds))]
			}
			add(settings[g.Intn(len(settings))], c08Shapes[g.Intn(len(c08Shapes))], fs)
		}
	}

	run := func(cases []*c08Case) []string {
		status := make([]string, len(cases))
		vkit.Parallel(len(cases), 48, func(i int) {
			c := cases[i]
			if c.Frontend == "h2" || c.Frontend == "spdy" {
				method := strings.SplitN(c.Shape, "-", 2)[0]
				body := ""
				if c.hasBody() {
					body = "body-of-" + c.ID
				}
				host := c.Cluster + ".c08.test"
				var res *e2e.MiniResult
				if c.Frontend == "h2" {
					res = e2e.H2Once(srv.HTTPSAddr, []e2e.HF{{Name: ":method", Value: method}, {Name: ":scheme", Value: "https"}, {Name: ":authority", Value: host}, {Name: ":path", Value: "/c08/" + c.ID},
						{Name: "x-id", Value: c.ID}, {Name: "x-faults", Value: strings.Join(c.Faults, ",")}}, []byte(body), 60*time.Second)
				} else {
					res = e2e.SpdyOnce(srv.HTTPSAddr, []e2e.HF{{Name: ":method", Value: method}, {Name: ":scheme", Value: "https"}, {Name: ":host", Value: host}, {Name: ":path", Value: "/c08/" + c.ID}, {Name: ":version", Value: "HTTP/1.1"},
						{Name: "x-id", Value: c.ID}, {Name: "x-faults", Value: strings.Join(c.Faults, ",")}}, []byte(body), 60*time.Second)
				}
				st := res.Status
				if len(st) >= 3 {
					st = st[:3]
				}
				if st == "" {
					st = "err"
				}
				status[i] = st
				return
			}
			conn, err := net.DialTimeout("tcp", srv.HTTPAddr, 5*time.Second)
			if err != nil {
				status[i] = "dial"
				return
			}
			defer conn.Close()
			conn.SetDeadline(time.Now().Add(60 * time.Second))
			conn.Write(c.bytes())
			buf := make([]byte, 4096)
			var sb strings.Builder
			for {
				k, err := conn.Read(buf)
				sb.Write(buf[:k])
				if err != nil {
					break
				}
			}
			s := sb.String()
			// skip a possible "100 Continue"
			if strings.HasPrefix(s, "HTTP/1.1 100") {
				if j := strings.Index(s, "\r\n\r\n"); j >= 0 {
					s = s[j+4:]
				}
			}
			if len(s) >= 12 {
				status[i] = s[9:12]
			} else {
				status[i] = "empty"
			}
		})
		return status
	}
	// evaluate is the offline checker over the attempt log of a finished batch: every client got
	// its final answer, and attempts are recorded before RoundTrip, so the log is complete here.
	// extra (optional) adds fields to the witness of a case.
	mainSamples, histSamples := 0, 0
	evaluate := func(cases []*c08Case, status []string, extra func(c *c08Case, w map[string]interface{})) {
		mu.Lock()
		defer mu.Unlock()
		for i, c := range cases {
			at := attempts[c.ID]
			arr := arrivals[c.ID]
			r.Count("client_status_"+status[i], 1)
			r.Count("frontend_"+c.Frontend, 1)
			failed := 0
			for j, a := range at {
				if j < len(at)-1 {
					failed++
				} else if status[i] != "200" {
					failed++
				}
				_ = a
			}
			key := fmt.Sprintf("%s|%s|%s|%v", c.Frontend, c.Cluster, c.Shape, c.Faults)
			if c.Hist != "" {
				key = fmt.Sprintf("%s|l%dm%dx%d|%s|%v|%s", c.Frontend, c.Level, c.Max, c.Cross, c.Shape, c.Faults, c.Hist)
			}
			r.CaseS(key, failed > 0)
			r.Count("attempts_total", int64(len(at)))
			w := map[string]interface{}{"case": c, "attempts": at, "arrivals_at_live_backends": arr, "client_status": status[i], "request": string(c.bytes())}
			if extra != nil {
				extra(c, w)
			}
			if len(at) == 0 {
				r.Count("no_attempt_recorded", 1)
				continue
			}
			if c.Hist != "" {
				r.Count("hist_attempts_total", int64(len(at)))
				if len(at) == 1+c.Max+c.Cross {
					r.Count("hist_attempts_at_bound", 1)
				}
			}
			// R1 bound
			if len(at) > 1+c.Max+c.Cross {
				r.Violation("bound:attempts-exceed-1+RetryMax+CrossRetry", fmt.Sprintf("%d attempts with RetryMax=%d CrossRetry=%d", len(at), c.Max, c.Cross), w)
			}
			// R2 each re-send needs a reason. Attempts at live backends consume faults in arrival order.
			// live attempts that bfe classified as connect failures (dial timeout under load): accepted
			// only if the backends indeed saw fewer arrivals than live attempts
			liveAttempts, liveConnFail := 0, 0
			for j, a := range at {
				if livePort[a.Port] {
					liveAttempts++
					if j+1 < len(at) && at[j+1].PrevErr == bfe_basic.ErrBkConnectBackend.Error() {
						liveConnFail++
					}
				}
			}
			connFailCredible := arr <= liveAttempts-liveConnFail
			k := 0
			for j := 0; j < len(at)-1; j++ {
				a := at[j]
				if !livePort[a.Port] {
					r.Count("retry_after_connect_failure", 1)
					continue // connect failure: retry allowed for everything
				}
				if at[j+1].PrevErr == bfe_basic.ErrBkConnectBackend.Error() && connFailCredible {
					r.Count("retry_after_connect_failure_at_live_port", 1)
					continue
				}
				f := "ok"
				if k < len(c.Faults) {
					f = c.Faults[k]
				}
				k++
				if c.Shape == "GET" || c.Shape == "GET-cl0" {
					if c.Level == 1 {
						r.Count("retry_get_allowed", 1)
						continue
					}
					r.Violation("resend:get-retried-at-retry-level-0:"+f, fmt.Sprintf("attempt %d reached a live backend (fault %s) and the GET was sent again although RetryLevel=0", j, f), w)
					continue
				}
				r.Violation("resend:non-get-or-body-request-replayed:"+c.Frontend+":"+c.Shape+":"+f,
					fmt.Sprintf("attempt %d reached a live backend (fault %s) and the %s request was sent again", j, f, c.Shape), w)
			}
			// R3 body never replayed
			if c.hasBody() && arr > 1 {
				r.Violation("body-replayed:"+c.Frontend+":"+c.Shape, fmt.Sprintf("request with a body arrived %d times at live backends", arr), w)
			}
			// R4 cross attempts
			prim := at[0].Sub
			for j, a := range at {
				if a.Sub == "GSLB_BLACKHOLE" {
					r.Violation("cross:blackhole-selected", fmt.Sprintf("attempt %d went to the blackhole sub-cluster", j), w)
				}
				if a.RetryTime > c.Max {
					r.Count("cross_attempts", 1)
					if a.Sub == prim {
						r.Violation("cross:same-sub-cluster", fmt.Sprintf("cross attempt %d (RetryTime=%d > RetryMax=%d) went to the primary sub-cluster %s", j, a.RetryTime, c.Max, prim), w)
					}
				} else if j > 0 && a.Sub != prim {
					r.Count("early_cross_attempts", 1)
				}
			}
			if r.WantSample() && len(at) >= 3 && c.Hist == "" && mainSamples < 4 {
				mainSamples++
				r.Sample(w)
			}
			if c.Hist != "" && histSamples < 3 && len(at) >= 2 && len(at) == 1+c.Max+c.Cross && c.Step > 3 {
				histSamples++
				r.Sample(map[string]interface{}{"case": c, "attempts": at, "client_status": status[i], "reload_steps_before": c.Step})
			}
		}
	}
	if len(cases) > 0 {
		evaluate(cases, run(cases), nil)
	}
	hist.run(run, evaluate)
	for k, v := range e2e_panics(srv) {
		if v != 0 {
			r.Violation("panic-counter:"+k, fmt.Sprintf("%s=%d", k, v), nil)
		}
	}
	if r.Replay == "" && (r.Counter("retry_after_connect_failure") == 0 || r.Counter("retry_get_allowed") == 0 || r.Counter("cross_attempts") == 0) {
		r.Inconclusive("a retry kind was never observed")
	}
}
