package main

import (
	"bytes"
	"fmt"
	"io"
	"net"
	"os"
	"strconv"
	"strings"
	"time"

	"github.com/bfenetworks/bfe/bfe_basic"
	"github.com/bfenetworks/bfe/bfe_http"
	"github.com/bfenetworks/bfe/bfe_module"

	"verifharness/e2e"
	"verifharness/ref/http1"
	"verifharness/vkit"
)

// C27: for every backend or module response and every client request (HEAD or
// not, HTTP/1.0 or 1.1, keep-alive or not) the bytes BFE writes parse as exactly
// one response with the same status and end-to-end headers, a body equal to the
// backend body (empty for HEAD, 1xx, 204, 304) and framing a client can delimit;
// if the length cannot be delimited the connection is closed after the response.

type c27Case struct {
	ID     string `json:"id"`
	Method string `json:"method"` // GET HEAD POST
	Minor  int    `json:"minor"`  // 0 | 1
	Conn   string `json:"conn"`   // "" | close | keep-alive
	Source string `json:"source"` // backend | module
	Status int    `json:"status"`
	Blen   int    `json:"blen"`
	Frame  string `json:"frame"` // cl | chunked | close | clshort   (backend) ; cl | nocl (module)
	Bconn  string `json:"bconn"` // backend's Connection header: "" | close | keep-alive
	Noise  int    `json:"noise"` // number of extra end-to-end headers
	// streamed response to a slow client (c27stream.go); nil for the enumerated cases
	Stream *c27Stream `json:"stream,omitempty"`
	// declared Content-Length vs body source (c27len.go); nil for the other cases
	Len *c27Len `json:"len,omitempty"`
}

func c27Body(id string, n int) []byte {
	b := make([]byte, n)
	p := []byte("<" + id + ">")
	for i := range b {
		if i < len(p) {
			b[i] = p[i]
		} else {
			b[i] = 'a' + byte(i%23)
		}
	}
	return b
}

func (c *c27Case) bytes() []byte {
	if c.Stream != nil {
		return c27StreamRequest(c)
	}
	if c.Len != nil {
		return c27LenRequest(c)
	}
	var sb strings.Builder
	fmt.Fprintf(&sb, "%s /c27/%s HTTP/1.%d\r\nHost: c27.test\r\nX-Id: %s\r\nX-Src: %s\r\nX-Status: %d\r\nX-Blen: %d\r\nX-Frame: %s\r\nX-Bconn: %s\r\nX-Noise: %d\r\n",
		c.Method, c.ID, c.Minor, c.ID, c.Source, c.Status, c.Blen, c.Frame, c.Bconn, c.Noise)
	if c.Conn != "" {
		fmt.Fprintf(&sb, "Connection: %s\r\n", c.Conn)
	}
	if c.Method == "POST" {
		sb.WriteString("Content-Length: 3\r\n\r\nabc")
	} else {
		sb.WriteString("\r\n")
	}
	return []byte(sb.String())
}

func bodyless(method string, status int) bool {
	return method == "HEAD" || status/100 == 1 || status == 204 || status == 304
}

func c27BackendAction(x *e2e.Exchange) e2e.Action {
	h := x.Req.Header
	id := h.Get("X-Id")
	if strings.HasPrefix(id, "probe") {
		return e2e.Action{Status: 200, Body: []byte("probe-ok " + id)}
	}
	status, _ := strconv.Atoi(h.Get("X-Status"))
	blen, _ := strconv.Atoi(h.Get("X-Blen"))
	noise, _ := strconv.Atoi(h.Get("X-Noise"))
	body := c27Body(id, blen)
	var w bytes.Buffer
	fmt.Fprintf(&w, "HTTP/1.1 %d Status%d\r\nX-Case: %s\r\nContent-Type: text/x-c27\r\n", status, status, id)
	for i := 0; i < noise; i++ {
		fmt.Fprintf(&w, "X-Noise-%d: n%d-%s\r\n", i, i, id)
	}
	if bc := h.Get("X-Bconn"); bc != "" {
		fmt.Fprintf(&w, "Connection: %s\r\n", bc)
	}
	noBody := bodyless(x.Req.Method, status)
	act := e2e.Action{}
	switch h.Get("X-Frame") {
	case "chunked":
		w.WriteString("Transfer-Encoding: chunked\r\n\r\n")
		if !noBody {
			// two chunks when possible
			if len(body) > 1 {
				k := len(body) / 2
				fmt.Fprintf(&w, "%x\r\n%s\r\n%x\r\n%s\r\n", k, body[:k], len(body)-k, body[k:])
			} else if len(body) == 1 {
				fmt.Fprintf(&w, "1\r\n%s\r\n", body)
			}
			w.WriteString("0\r\n\r\n")
		}
	case "close":
		w.WriteString("\r\n")
		if !noBody {
			w.Write(body)
		}
		act.CloseAfter = true
	case "clshort": // declares 10 bytes more than it sends, then closes
		fmt.Fprintf(&w, "Content-Length: %d\r\n\r\n", len(body)+10)
		if !noBody {
			w.Write(body)
		}
		act.CloseAfter = true
	default: // cl
		fmt.Fprintf(&w, "Content-Length: %d\r\n\r\n", len(body))
		if !noBody {
			w.Write(body)
		}
	}
	if h.Get("X-Bconn") == "close" {
		act.CloseAfter = true
	}
	act.Raw = w.Bytes()
	act.ChunkSizes = []int{700, 1, 4096}
	return act
}

func c27(r *vkit.Run) {
	r.SetRule("full in-process BFE. (1) ENUMERATED (both tiers, complete): every combination of request method {GET,HEAD,POST} x HTTP/1.{0,1} x Connection {none,close,keep-alive} x response source {backend with framing cl/chunked/close-delimited/short Content-Length, module (BfeHandlerResponse filter) with/without Content-Length} x status {200,204,301,304,404,500,999; module also 100,101} x body size {0,1,511,512,513,4095,4096,65537} x backend Connection header {none,close,keep-alive}; thorough adds 0-3 noise headers variants. (2) STREAMED responses to slow clients (c27stream.go, seeded): clusters with ResFlushInterval 1/5/20 ms and/or requests with Accept: text/event-stream; a raw backend sends a chunked or close-delimited body as one block plus K pieces with pauses (a few KB .. 4 MB); the client connects with SO_RCVBUF 1024..default and TCP_MAXSEG 536..default from a fresh loopback source address and either reads nothing until the backend has finished, stalls for 50-400 ms, reads slowly in small pieces, stalls in the middle, or reads at full speed; families brim/sweep/sse-brim walk the response size in steps smaller than the last piece across the amount a stalled client lets bfe queue (about 29 KB, measured per run for the evidence), so that bfe's write of the last piece - by the tick-driven flusher (400-byte pieces) or by the copy loop (3000-byte pieces) - is still blocked when the backend body ends. (3) DECLARED LENGTH vs BODY SOURCE (c27len.go): a scripted FastCGI application (cluster Protocol fcgi, ResFlushInterval 0 and 5 ms) and a harness filter returning a Response verdict at HandleAfterLocation answer with Content-Length N and a body source of L bytes; enumerated N {0,1,5,512,4096,40000} x L {0,N/2,N-1,N,N+1,N+7,N+300,N+<a complete smuggled HTTP response>} x delivery {one piece, two pieces, second piece crossing N, extra piece after N, five pieces (with pauses on the flushing cluster), CGI header block and first piece in one FastCGI record} x request {GET 1.1, GET 1.1 close, GET 1.0 keep-alive, GET 1.0, POST, 404, HEAD, 204, 304}, plus seeded (N, L, partition into 1-6 pieces incl. a boundary exactly at N, source, flush interval, request kind); oracle: the client bytes are one response with the case's status and X-Case whose body consists of the first bytes of the body source and is not longer than N; with L = N it is complete and equal; an incomplete response (connection ended inside the body) is accepted only when L != N; after a complete response nothing or exactly the probe's reply may follow - never bytes of the source beyond N. All parts: the client pipelines a probe request after the case (stream cases: only on HTTP/1.1); the client byte stream is parsed by the strict RFC 7230 reference response parser and must be exactly one response with the backend's status, X-Case header and body, followed by nothing or by the probe's reply. Non-trivial = response reached the client; distinct = the axis tuple")
	bs := e2e.NewBackendSet()
	defer bs.Close()
	be := bs.New("b1", c27BackendAction)
	sbe, err := newC27StreamBackend()
	if err != nil {
		r.Inconclusive("stream backend: " + err.Error())
		return
	}
	defer sbe.ln.Close()
	fbe, err := newC27Fcgi()
	if err != nil {
		r.Inconclusive("fastcgi responder: " + err.Error())
		return
	}
	defer fbe.ln.Close()
	srv, err := e2e.Start(&e2e.Options{Clusters: append([]e2e.Cluster{{
		Name: "c27", Hosts: []string{"c27.test"}, MaxIdleConnsPerHost: 0, TimeoutConnSrv: 10000, TimeoutResponseHeader: 20000,
		SubClusters: []e2e.SubCluster{{Name: "sub1", Weight: 100, Backends: []e2e.Backend{{Name: "b1", Addr: be.Addr, Port: be.Port, Weight: 10}}}},
	}}, append(c27StreamClusters(sbe), c27LenClusters(fbe)...)...)})
	if err != nil {
		r.Inconclusive("server start: " + err.Error())
		return
	}
	defer srv.Close()
	srv.Srv.CallBacks.AddFilter(bfe_module.HandleFoundProduct, func(req *bfe_basic.Request) (int, *bfe_http.Response) {
		h := req.HttpRequest.Header
		if h.Get("X-Src") != "module" {
			return bfe_module.BfeHandlerGoOn, nil
		}
		id := h.Get("X-Id")
		status, _ := strconv.Atoi(h.Get("X-Status"))
		blen, _ := strconv.Atoi(h.Get("X-Blen"))
		body := c27Body(id, blen)
		res := new(bfe_http.Response)
		res.StatusCode = status
		res.Header = make(bfe_http.Header)
		res.Header.Set("X-Case", id)
		res.Header.Set("Content-Type", "text/x-c27")
		if h.Get("X-Frame") == "cl" {
			res.Header.Set("Content-Length", strconv.Itoa(len(body)))
			res.ContentLength = int64(len(body))
		} else {
			res.ContentLength = -1
		}
		res.Body = strBody{bytes.NewReader(body)}
		req.HttpResponse = res
		return bfe_module.BfeHandlerResponse, res
	})

	if err := c27InstallLenFilter(srv); err != nil {
		r.Inconclusive("AddFilter: " + err.Error())
		return
	}

	var cases []*c27Case
	if r.Replay != "" {
		var w struct {
			Case c27Case `json:"case"`
		}
		if err := r.LoadReplay(&w); err != nil {
			r.Inconclusive(err.Error())
			return
		}
		cases = append(cases, &w.Case)
		r.SetMinDistinct(0)
	} else {
		n := 0
		sizes := []int{0, 1, 511, 512, 513, 4095, 4096, 65537}
		noises := []int{1}
		if !r.Quick() {
			noises = []int{0, 1, 3}
		}
		for _, method := range []string{"GET", "HEAD", "POST"} {
			for minor := 0; minor <= 1; minor++ {
				for _, conn := range []string{"", "close", "keep-alive"} {
					for _, noise := range noises {
						for _, status := range []int{200, 204, 301, 304, 404, 500, 999} {
							for _, blen := range sizes {
								for _, frame := range []string{"cl", "chunked", "close", "clshort"} {
									for _, bconn := range []string{"", "close", "keep-alive"} {
										if r.Quick() && (blen == 511 || blen == 513 || blen == 4095) && bconn == "keep-alive" {
											continue // quick: thin out the largest axis product
										}
										cases = append(cases, &c27Case{ID: fmt.Sprintf("q%d", n), Method: method, Minor: minor, Conn: conn, Source: "backend", Status: status, Blen: blen, Frame: frame, Bconn: bconn, Noise: noise})
										n++
									}
								}
							}
						}
						for _, status := range []int{100, 101, 200, 204, 304, 404} {
							for _, blen := range sizes {
								for _, frame := range []string{"cl", "nocl"} {
									cases = append(cases, &c27Case{ID: fmt.Sprintf("q%d", n), Method: method, Minor: minor, Conn: conn, Source: "module", Status: status, Blen: blen, Frame: frame, Noise: noise})
									n++
								}
							}
						}
					}
				}
			}
		}
		if os.Getenv("VERIF_C27_STREAM_ONLY") != "" { // development aid; such a run never counts
			cases = cases[:200]
			r.Inconclusive("partial run (VERIF_C27_STREAM_ONLY)")
		}
		r.Count("enumerated_cases", int64(len(cases)))
		cases = append(cases, c27LenCases(r)...)
		cases = append(cases, c27StreamCases(r)...)
	}

	raws := make([][]byte, len(cases))
	eofs := make([]bool, len(cases))
	var enumIdx, streamIdx []int
	for i, c := range cases {
		if c.Stream != nil {
			streamIdx = append(streamIdx, i)
		} else {
			enumIdx = append(enumIdx, i)
		}
	}
	vkit.Parallel(len(enumIdx), 32, func(k int) {
		i := enumIdx[k]
		c := cases[i]
		conn, err := net.DialTimeout("tcp", srv.HTTPAddr, 10*time.Second)
		if err != nil {
			return
		}
		defer conn.Close()
		conn.SetDeadline(time.Now().Add(40 * time.Second))
		probe := fmt.Sprintf("GET /c27/probe-%s HTTP/1.1\r\nHost: c27.test\r\nX-Id: probe-%s\r\nConnection: close\r\n\r\n", c.ID, c.ID)
		conn.Write(append(c.bytes(), probe...))
		b, err := io.ReadAll(conn)
		raws[i] = b
		eofs[i] = err == nil
	})
	// streamed responses to slow clients run after the enumeration, so that the enumeration's load does not blur their timing
	stallCapacity := c27RunStream(r, srv.HTTPAddr, sbe, cases, streamIdx, raws, eofs)

	enumSamples, streamSamples, lenSamples := 0, 0, 0
	for i, c := range cases {
		raw := raws[i]
		key := fmt.Sprintf("%s|1.%d|%s|%s|%d|%d|%s|%s|%d", c.Method, c.Minor, c.Conn, c.Source, c.Status, c.Blen, c.Frame, c.Bconn, c.Noise)
		if c.Stream != nil {
			key += "|" + c.Stream.key()
		}
		if c.Len != nil {
			key += "|" + c.Len.key()
		}
		w := map[string]interface{}{"case": c, "request": string(c.bytes()), "client_bytes": clip(string(raw), 1500), "client_len": len(raw), "eof": eofs[i]}
		if c.Stream != nil {
			w["client_bytes_tail"] = clip(string(raw[max(0, len(raw)-700):]), 700)
		}
		if !eofs[i] {
			r.CaseS(key, false)
			r.Count("client_watchdog_or_reset_skipped", 1)
			continue
		}
		r.CaseS(key, len(raw) > 0)
		sig := fmt.Sprintf("%s:%s:%d:%s", c.Source, c.Method, c.Status, c.Frame)
		if c.Stream != nil {
			sig = fmt.Sprintf("stream:flush-%dms", c.Stream.FlushMs)
			if c.Stream.SSE {
				sig += "+sse"
			}
			sig += ":" + c.Frame
		}
		if len(raw) == 0 {
			r.Violation("no-response:"+sig, "connection closed without any response byte", w)
			continue
		}
		if c.Len != nil {
			c27JudgeLen(r, c, raw, w)
			if lenSamples < 2 && r.WantSample() && c.Len.rel() == "long" && c.Len.N > 0 && c.Len.N < 600 && i%7 == 0 {
				lenSamples++
				r.Sample(w)
			}
			continue
		}
		resp, n, rej := http1.ParseResponse(raw, c.Method, c.Minor)
		wantBody := c27Body(c.ID, c.Blen)
		if bodyless(c.Method, c.Status) {
			wantBody = nil
		}
		truncatedBackend := c.Source == "backend" && c.Frame == "clshort" && !bodyless(c.Method, c.Status)
		if rej != nil {
			if rej.Incomplete && truncatedBackend {
				r.Count("truncated_backend_body_surfaced_as_incomplete", 1)
				continue // bfe could not know the rest; the client can tell the response is incomplete
			}
			r.Violation("client-stream-not-a-response:"+rej.Class+":"+sig, fmt.Sprintf("strict parser: %v", rej), w)
			continue
		}
		if truncatedBackend {
			// a complete-looking response must not be fabricated out of a truncated backend body
			if !resp.CloseDelimited {
				r.Violation("truncated-backend-body-presented-as-complete:"+sig, fmt.Sprintf("backend sent %d of %d body bytes, client got a complete %s-framed response", c.Blen, c.Blen+10, resp.Framing), w)
			}
			r.Count("truncated_backend_cases", 1)
			continue
		}
		if resp.Status == 500 && len(http1.Get(resp.Fields, "X-Case")) == 0 &&
			(c.Status != 500 || (len(resp.Body) == 0 && strings.Join(http1.Get(resp.Fields, "Server"), ",") == "bfe")) {
			// bfe's own error page (e.g. the backend connection failed): well-formed, but not the case's response. For a
			// case whose own status is 500 the page is told apart by "Server: bfe" (never on a forwarded response) and
			// its empty body.
			r.Count("bfe_error_page_instead_of_case_response", 1)
			if c.Stream != nil {
				r.Count("stream_bfe_error_page_instead_of_case_response", 1)
			}
			continue
		}
		if resp.Status != c.Status {
			r.Violation("status-differs:"+sig, fmt.Sprintf("client status %d, want %d", resp.Status, c.Status), w)
		}
		if got := http1.Get(resp.Fields, "X-Case"); len(got) != 1 || got[0] != c.ID {
			r.Violation("end-to-end-header-lost-or-duplicated:"+sig, fmt.Sprintf("X-Case at client: %q", got), w)
		}
		if c.Source == "backend" {
			for k := 0; k < c.Noise; k++ {
				if got := http1.Get(resp.Fields, fmt.Sprintf("X-Noise-%d", k)); len(got) != 1 || got[0] != fmt.Sprintf("n%d-%s", k, c.ID) {
					r.Violation("end-to-end-header-lost-or-duplicated:"+sig, fmt.Sprintf("X-Noise-%d at client: %q", k, got), w)
				}
			}
		}
		if !bytes.Equal(resp.Body, wantBody) {
			r.Violation("body-differs:"+sig, fmt.Sprintf("client body %d bytes (%q...), want %d bytes", len(resp.Body), clip(string(resp.Body), 60), len(wantBody)), w)
		}
		if len(http1.Get(resp.Fields, "Content-Length")) > 0 && len(http1.Get(resp.Fields, "Transfer-Encoding")) > 0 {
			r.Violation("cl-and-te-together:"+sig, "response carries both Content-Length and Transfer-Encoding", w)
		}
		if resp.Framing == http1.FramingChunked && c.Minor == 0 {
			r.Violation("chunked-to-http10-client:"+sig, "chunked coding sent to an HTTP/1.0 client", w)
		}
		if st := c.Stream; st != nil {
			r.Count("stream_responses_judged", 1)
			if st.Family == "brim" && stallCapacity > 0 {
				// evidence only: did the last piece of the body straddle the point where a write to this stalled client blocks?
				end := n
				if resp.Framing == http1.FramingChunked {
					end -= len("0\r\n\r\n")
				}
				if start := end - st.Piece - 8; start <= stallCapacity+2048 && end >= stallCapacity-2048 {
					r.Count("stream_brim_last_piece_within_2KB_of_measured_stall_capacity", 1)
				}
			}
		}
		rest := raw[n:]
		if resp.CloseDelimited {
			r.Count("close_delimited_responses", 1)
			// the parser took everything up to EOF as body; equality above already proves nothing followed
		} else if len(rest) > 0 {
			// what follows must be exactly the probe's response
			p, m, prej := http1.ParseResponse(rest, "GET", 1)
			if prej != nil || m != len(rest) || (p.Status == 200 && string(p.Body) != "probe-ok probe-"+c.ID) {
				r.Violation("bytes-after-response-are-not-the-next-response:"+sig, fmt.Sprintf("%d bytes follow the response and are not the probe's reply: %q", len(rest), clip(string(rest), 200)), w)
			} else {
				r.Count("probe_answered_in_sync", 1)
			}
		} else {
			r.Count("closed_after_response", 1)
		}
		if r.WantSample() && i%997 == 0 && c.Stream == nil && enumSamples < 3 {
			enumSamples++
			r.Sample(w)
		}
		if c.Stream != nil && streamSamples < 3 && r.WantSample() && i%41 == 0 {
			streamSamples++
			w["client_bytes"] = clip(string(raw), 300)
			r.Sample(w)
		}
	}
	for k, v := range e2e_panics(srv) {
		if v != 0 {
			r.Violation("panic-counter:"+k, fmt.Sprintf("%s=%d", k, v), nil)
		}
	}
	c27LenFinish(r, fbe)
	if r.Replay == "" && (r.Counter("probe_answered_in_sync") == 0 || r.Counter("close_delimited_responses") == 0) {
		r.Inconclusive("keep-alive or close-delimited path never observed")
	}
	if r.Replay == "" {
		for _, k := range []string{"stream_cases_brim", "stream_cases_sweep", "stream_cases_sse-brim", "stream_cases_mix", "stream_flush_1ms", "stream_flush_5ms", "stream_flush_20ms", "stream_flush_0ms+sse",
			"stream_client_drain-after-backend-done", "stream_client_stall", "stream_client_slow", "stream_client_stall-mid", "stream_client_fast",
			"stream_backend_framing_chunked", "stream_backend_framing_close", "stream_bodies_of_1MB_or_more"} {
			if r.Counter(k) == 0 {
				r.Inconclusive("stream cases: kind never ran: " + k)
			}
		}
		if r.Counter("stream_responses_judged") < int64(len(streamIdx))*8/10 {
			r.Inconclusive(fmt.Sprintf("stream cases: only %d of %d responses reached a clean end of stream", r.Counter("stream_responses_judged"), len(streamIdx)))
		}
		if r.Counter("stream_bfe_write_blocked_when_backend_body_ended") == 0 || r.Counter("stream_brim_last_piece_within_2KB_of_measured_stall_capacity") == 0 {
			r.Inconclusive("stream cases: no blocked write to a stalled client was provoked (measured stall capacity outside the sweep?)")
		}
	}
}
