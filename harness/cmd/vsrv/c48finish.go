package main

import (
	"bytes"
	"fmt"
	"io"
	"net"
	"strings"
	"time"

	"github.com/bfenetworks/bfe/bfe_module"

	"verifharness/e2e"
	"verifharness/vkit"
)

// C48, request-finish family: two-request keep-alive connections.
//
// HandleRequestFinish is the one request-level callback point every request
// passes, whatever produced its reply: bfe runs it from conn.serveRequest after
// ServeHTTP has returned (ReverseProxy.FinishReq, "should be invoked after quit
// ServeHTTP"), and the in-tree modules registered there (mod_access: the access
// log; mod_trace: finishing the span; mod_http_code: status counters) rely on
// seeing every request. The only verdict the framework consults there is Finish
// ("send response, then close connection"); Close cannot "send nothing" once
// the reply is out, Redirect/Response have nothing to replace - those three are
// judged for order/stop only.
//
// Request 1 ends through one of the terminal paths
//   redirect@P  Redirect verdict at a request-phase point (and at HandleReadResponse)
//   response@P  Response verdict at a request-phase point
//   finish@P    Finish verdict at an earlier point      (connection ends anyway)
//   close@P     Close verdict at a request-phase point  (no reply, connection ends anyway)
//   proxy/head/304   the backend's reply is forwarded
//   backend-fail     the backend drops the connection: bfe's internal 500
//   no-product       unknown Host: bfe's internal 500 and close
// and carries a verdict vector for the four HandleRequestFinish filters. Request 2
// (the probe, Connection: close) follows on the same connection, pipelined in
// the same write or sent after reply 1 has been read completely.
//
// Asserted: (1) on every terminal path the HandleRequestFinish filters of
// request 1 were called exactly 0..k in order (k = first verdict other than
// GoOn), once - in particular not zero times; the same for request 2 when it
// was answered; (2) a Finish verdict at HandleRequestFinish ends the connection
// after reply 1: request 2 is not answered and not one byte follows reply 1.
// Observed as control, never a verdict: with GoOn at HandleRequestFinish the
// paths that keep the connection alive answer request 2.

type c48FCase struct {
	Kind   string `json:"kind"` // "finish2"
	ID     string `json:"id"`
	Path   string `json:"path"`   // terminal path class of request 1
	Script string `json:"script"` // X-Vs of request 1
	RF     string `json:"rf"`     // verdict vector at HandleRequestFinish ("" = all GoOn)
	Method string `json:"method"`
	Bk     string `json:"bk"`
	Host   string `json:"host"`
	Mode   string `json:"mode"` // pipelined | sequential
}

type c48FObs struct {
	Raw         []byte
	End         string // eof | reset | timeout | dial:<err>
	ProbeSentAt int    // sequential: number of bytes received when the probe was written (-1: never written)
}

func c48FReq(c *c48FCase) []byte {
	var w bytes.Buffer
	fmt.Fprintf(&w, "%s /c48/%s HTTP/1.1\r\nHost: %s\r\nX-Id: %s\r\nX-Vs: %s\r\nX-Bk: %s\r\n", c.Method, c.ID, c.Host, c.ID, c.Script, c.Bk)
	if c.Method == "POST" {
		w.WriteString("Content-Length: 3\r\n\r\nabc")
	} else {
		w.WriteString("\r\n")
	}
	return w.Bytes()
}

func c48FProbe(c *c48FCase) []byte {
	return []byte(fmt.Sprintf("GET /c48/probe-%s HTTP/1.1\r\nHost: c48.test\r\nX-Id: probe-%s\r\nConnection: close\r\n\r\n", c.ID, c.ID))
}

func c48FRun(srv *e2e.Server, c *c48FCase) *c48FObs {
	o := &c48FObs{ProbeSentAt: -1}
	conn, err := net.DialTimeout("tcp", srv.HTTPAddr, 5*time.Second)
	if err != nil {
		o.End = "dial:" + err.Error()
		return o
	}
	defer conn.Close()
	conn.SetDeadline(time.Now().Add(30 * time.Second)) // watchdog; a timeout is never a verdict
	end := func(err error) {
		switch {
		case err == nil || err == io.EOF:
			o.End = "eof"
		case isTimeout(err):
			o.End = "timeout"
		default:
			o.End = "reset"
		}
	}
	if c.Mode == "pipelined" {
		conn.Write(append(c48FReq(c), c48FProbe(c)...))
		raw, err := io.ReadAll(conn)
		o.Raw = raw
		end(err)
		return o
	}
	conn.Write(c48FReq(c))
	buf := make([]byte, 64<<10)
	for {
		n, err := conn.Read(buf)
		o.Raw = append(o.Raw, buf[:n]...)
		if err != nil {
			end(err)
			return o
		}
		if res, _, perr := c48ParseOne(o.Raw, c.Method); perr == "" && res != nil && res.Complete && res.Framing != "eof" {
			break
		}
	}
	o.ProbeSentAt = len(o.Raw)
	conn.Write(c48FProbe(c)) // on a connection the server has closed this provokes a reset: both mean "request 2 unanswered"
	rest, err := io.ReadAll(conn)
	o.Raw = append(o.Raw, rest...)
	end(err)
	return o
}

// keep-alive terminal paths: without a verdict at HandleRequestFinish the connection is expected to stay open
func c48FKeepAlivePath(path string) bool {
	return strings.HasPrefix(path, "redirect@") || strings.HasPrefix(path, "response@") || path == "proxy" || path == "head" || path == "304" || path == "backend-fail"
}

func c48FinishCases(r *vkit.Run) []*c48FCase {
	var cases []*c48FCase
	n := 0
	rfp := bfe_module.HandleRequestFinish
	add := func(path, pre, rf, method, bk, host, mode string) {
		var parts []string
		if pre != "" {
			parts = append(parts, pre)
		}
		if rf != "" {
			parts = append(parts, fmt.Sprintf("%d=%s", rfp, rf))
		}
		cases = append(cases, &c48FCase{Kind: "finish2", ID: fmt.Sprintf("f%d", n), Path: path, Script: strings.Join(parts, ";"), RF: rf, Method: method, Bk: bk, Host: host, Mode: mode})
		n++
	}
	type tp struct{ path, pre, method, bk, host string }
	var paths []tp
	pn := bfe_module.CallbackPointName
	for _, p := range c48Points[:3] {
		paths = append(paths, tp{"redirect@" + pn(p), fmt.Sprintf("%d=R", p), "GET", "small", "c48.test"},
			tp{"redirect@" + pn(p), fmt.Sprintf("%d=GGR", p), "POST", "small", "c48.test"},
			tp{"redirect@" + pn(p), fmt.Sprintf("%d=GR", p), "HEAD", "small", "c48.test"},
			tp{"response@" + pn(p), fmt.Sprintf("%d=P", p), "GET", "small", "c48.test"},
			tp{"response@" + pn(p), fmt.Sprintf("%d=GGGP", p), "POST", "small", "c48.test"},
			tp{"response@" + pn(p), fmt.Sprintf("%d=GP", p), "HEAD", "small", "c48.test"},
			tp{"close@" + pn(p), fmt.Sprintf("%d=C", p), "GET", "small", "c48.test"})
	}
	paths = append(paths, tp{"redirect@" + pn(bfe_module.HandleReadResponse), fmt.Sprintf("%d=R", bfe_module.HandleReadResponse), "GET", "small", "c48.test"})
	for _, p := range c48Points[:5] {
		paths = append(paths, tp{"finish@" + pn(p), fmt.Sprintf("%d=F", p), "GET", "small", "c48.test"})
	}
	for _, bk := range []string{"small", "large", "chunked", "empty"} {
		paths = append(paths, tp{"proxy", "", "GET", bk, "c48.test"})
	}
	paths = append(paths, tp{"proxy", "", "POST", "small", "c48.test"}, tp{"head", "", "HEAD", "small", "c48.test"}, tp{"head", "", "HEAD", "chunked", "c48.test"},
		tp{"304", "", "GET", "304", "c48.test"}, tp{"backend-fail", "", "GET", "drop", "c48.test"}, tp{"backend-fail", "", "POST", "drop", "c48.test"},
		tp{"no-product", "", "GET", "small", "nowhere.c48.invalid"})
	rfs := []string{"", "F", "GF", "GGGF", "C", "GGC", "R", "P"}
	for _, t := range paths {
		for _, rf := range rfs {
			for _, mode := range []string{"sequential", "pipelined"} {
				add(t.path, t.pre, rf, t.method, t.bk, t.host, mode)
			}
		}
	}
	r.Count("finish2_enumerated_cases", int64(len(cases)))
	// seeded: any chain position of the path's verdict, any verdict vector at HandleRequestFinish
	for i := 0; i < r.N(150, 4000); i++ {
		g := r.Rng("finish2", i)
		t := paths[g.Intn(len(paths))]
		pre := t.pre
		if j := strings.IndexByte(pre, '='); j > 0 {
			pre = pre[:j+1] + strings.Repeat("G", g.Intn(nFilters)) + pre[len(pre)-1:]
		}
		l := g.Range(1, nFilters)
		b := make([]byte, l)
		for k := range b {
			if g.Chance(1, 2) {
				b[k] = 'G'
			} else {
				b[k] = c48AllVerdicts[g.Intn(len(c48AllVerdicts))]
			}
		}
		add(t.path, pre, string(b), t.method, t.bk, t.host, g.PickS([]string{"sequential", "pipelined"}))
	}
	return cases
}

// c48FOrder checks order/stop at every request-level point that was reached and demands that HandleRequestFinish was.
func c48FOrder(r *vkit.Run, ev []fEvent, script, who, pathClass string, w map[string]interface{}) {
	per := map[int][]int{}
	for _, e := range ev {
		per[e.Point] = append(per[e.Point], e.Idx)
	}
	for _, p := range c48Points {
		s := scriptFor(script, p)
		k := firstStop(s)
		calls := per[p]
		if len(calls) == 0 {
			if p == bfe_module.HandleRequestFinish {
				r.Violation("order:HandleRequestFinish:chain-never-ran:"+who+pathClass,
					fmt.Sprintf("no filter was called at HandleRequestFinish for %s although it is over (request 1 ended through %s, script %q)", map[string]string{"": "request 1", "probe-after-": "request 2 (the probe)"}[who], pathClass, script), w)
			}
			continue
		}
		want := nFilters
		if k >= 0 {
			want = k + 1
		}
		ok := len(calls) == want
		for j := 0; j < len(calls) && j < want; j++ {
			if calls[j] != j {
				ok = false
			}
		}
		if !ok {
			shape := "wrong-order"
			if len(calls) > want {
				shape = "chain-not-stopped"
			} else if len(calls) < want {
				shape = "chain-cut-short"
			}
			r.Violation(fmt.Sprintf("order:%s:%s", bfe_module.CallbackPointName(p), shape),
				fmt.Sprintf("filters called at %s: %v, script %q wants 0..%d", bfe_module.CallbackPointName(p), calls, s, want-1), w)
		}
		if p == bfe_module.HandleRequestFinish {
			r.Count("finish2_chain_ran_once:"+who+pathClass, 1)
		}
	}
}

func c48FJudge(r *vkit.Run, c *c48FCase, o *c48FObs, ev, pev []fEvent) {
	w := map[string]interface{}{"case": c, "request": string(c48FReq(c)), "filter_calls": ev, "probe_filter_calls": pev, "stream_len": len(o.Raw),
		"stream_head": string(o.Raw[:min(len(o.Raw), 1200)]), "stream_end": o.End, "probe_sent_after_bytes": o.ProbeSentAt}
	k := firstStop(c.RF)
	v := byte('G')
	if k >= 0 {
		v = c.RF[k]
	}
	r.CaseS("finish2|"+c.Path+"|"+c.Script+"|"+c.Method+"|"+c.Bk+"|"+c.Mode, true)
	r.Count("finish2_cases", 1)
	if o.End == "timeout" || strings.HasPrefix(o.End, "dial:") {
		r.Count("finish2_skipped:"+strings.SplitN(o.End, ":", 2)[0], 1)
		return
	}
	// The connection has ended (the client read to its end), so request 1 is over at the server: FinishReq runs
	// before bfe reads the next request or closes the connection.
	c48FOrder(r, ev, c.Script, "", c.Path, w)

	// parse the complete stream
	var resps []*c48Resp
	rest, perr, firstLen := o.Raw, "", 0
	for i, m := range []string{c.Method, "GET"} {
		if len(rest) == 0 {
			break
		}
		pr, n, e := c48ParseOne(rest, m)
		if e != "" {
			perr = fmt.Sprintf("response %d: %s", i+1, e)
			break
		}
		resps = append(resps, pr)
		rest = rest[n:]
		if i == 0 {
			firstLen = n
		}
		if !pr.Complete {
			break
		}
	}
	w["parsed_responses"], w["parse_error"], w["unparsed_bytes"] = len(resps), perr, len(rest)
	answered := len(resps) == 2 && resps[1].Complete
	if answered && o.End == "eof" {
		// request 2 was answered and its connection ended: its own pass through HandleRequestFinish is over, too
		c48FOrder(r, pev, "", "probe-after-", c.Path, w)
	}
	// did request 1 end through the path the case is about? (replies themselves are judged by the other families)
	var first *c48Resp
	if len(resps) > 0 && resps[0].Complete {
		first = resps[0]
	}
	taken := false
	switch {
	case strings.HasPrefix(c.Path, "close@"):
		taken = len(o.Raw) == 0
	case first == nil:
	case strings.HasPrefix(c.Path, "redirect@"):
		taken = first.Status == 302 && strings.HasPrefix(first.get("Location"), "/redir/"+c.ID+"/")
	case strings.HasPrefix(c.Path, "response@"):
		taken = first.Status == 403 && strings.HasPrefix(first.get("X-Filter-Resp"), c.ID+"/")
	case strings.HasPrefix(c.Path, "finish@"):
		taken = true
	case c.Path == "proxy":
		taken = first.Status == 200 && bytes.Equal(first.Body, c48BkBody(c.Bk, c.ID))
	case c.Path == "head":
		taken = first.Status == 200 && len(first.Body) == 0
	case c.Path == "304":
		taken = first.Status == 304
	case c.Path == "backend-fail", c.Path == "no-product":
		taken = first.Status == 500 && first.get("X-Bk-Shape") == ""
	}
	if !taken {
		if first == nil && o.End == "reset" {
			r.Count("finish2_skipped:reset-before-complete-response", 1)
		} else {
			r.Count("finish2_reply_not_of_the_path:"+c.Path, 1)
		}
		return
	}
	r.Count("finish2_path_taken:"+c.Path, 1)
	if !c48FKeepAlivePath(c.Path) {
		r.Count("finish2_connection_ends_anyway:"+c.Path, 1)
		return
	}
	switch v {
	case 'F':
		r.Count("finish2_judged_F_mode:"+c.Mode, 1)
		switch {
		case answered:
			r.Violation("finish:connection-kept-alive:HandleRequestFinish:after-"+c.Path,
				fmt.Sprintf("Finish verdict at HandleRequestFinish (request 1 ended through %s) but the connection answered request 2", c.Path), w)
		case len(resps) > 1 || len(rest) > 0 || perr != "":
			r.Violation("finish:surplus-bytes-after-response:HandleRequestFinish:after-"+c.Path,
				fmt.Sprintf("Finish verdict at HandleRequestFinish: %d bytes follow reply 1", len(o.Raw)-firstLen), w)
		default:
			r.Count("finish2_F_closed_after_reply:"+c.Path, 1)
		}
	case 'G':
		if answered {
			r.Count("finish2_G_kept_alive:"+c.Path, 1)
			r.Count("finish2_G_kept_alive_mode:"+c.Mode, 1)
		} else {
			r.Count("finish2_G_not_kept_alive:"+c.Path, 1)
		}
	default:
		r.Count(fmt.Sprintf("finish2_unconsulted_verdict:%c", v), 1)
		if answered {
			r.Count(fmt.Sprintf("finish2_unconsulted_verdict_connection_kept:%c", v), 1)
		}
	}
	if r.WantSample() && v == 'F' && strings.HasPrefix(c.Path, "redirect@") && c.Mode == "sequential" {
		r.Sample(w)
	}
}

// c48Finish2 runs the request-finish family against the running server.
func c48Finish2(r *vkit.Run, srv *e2e.Server, log *filterLog, only *c48FCase) {
	var cases []*c48FCase
	if only != nil {
		cases = []*c48FCase{only}
	} else {
		cases = c48FinishCases(r)
	}
	obs := make([]*c48FObs, len(cases))
	t0 := time.Now()
	vkit.Parallel(len(cases), 32, func(i int) { obs[i] = c48FRun(srv, cases[i]) })
	r.Extra("finish2_family_wall_s", time.Since(t0).Seconds()) // evidence only
	for i, c := range cases {
		c48FJudge(r, c, obs[i], log.take(c.ID), log.take("probe-"+c.ID))
	}
	if only != nil {
		return
	}
	seen := map[string]bool{}
	for _, c := range cases {
		if seen[c.Path] {
			continue
		}
		seen[c.Path] = true
		if r.Counter("finish2_chain_ran_once:"+c.Path) == 0 {
			r.Inconclusive("request-finish family: terminal path never judged: " + c.Path)
		}
		if !c48FKeepAlivePath(c.Path) {
			continue
		}
		if r.Counter("finish2_F_closed_after_reply:"+c.Path) == 0 {
			r.Inconclusive("request-finish family: a Finish verdict at HandleRequestFinish was never seen to end the connection after " + c.Path)
		}
		if r.Counter("finish2_G_kept_alive:"+c.Path) == 0 {
			r.Inconclusive("request-finish family: the connection was never kept alive after " + c.Path + " (the Finish cases on this path prove nothing)")
		}
	}
	for _, m := range []string{"sequential", "pipelined"} {
		if r.Counter("finish2_judged_F_mode:"+m) == 0 || r.Counter("finish2_G_kept_alive_mode:"+m) == 0 {
			r.Inconclusive("request-finish family: mode never judged: " + m)
		}
	}
}
