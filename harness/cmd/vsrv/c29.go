package main

import (
	"bytes"
	"fmt"
	"net"
	"strconv"
	"strings"
	"sync"
	"time"

	"github.com/bfenetworks/bfe/bfe_basic"
	"github.com/bfenetworks/bfe/bfe_http"
	"github.com/bfenetworks/bfe/bfe_module"

	"verifharness/e2e"
	"verifharness/vkit"
)

// C29: for peers outside the trusted-source table the client address BFE uses
// (req.ClientAddr at every callback point) and X-Real-Ip/X-Real-Port sent
// upstream equal the peer's socket address whatever the request headers say,
// and X-Forwarded-For ends with the peer IP. For trusted peers the forwarded
// headers are honoured.

type c29Case struct {
	ID       int    `json:"id"`
	PeerIP   string `json:"peer_ip"` // "" = real loopback socket (no PROXY header)
	PeerPort int    `json:"peer_port"`
	LocalIP  string `json:"local_ip"` // source address to bind for real sockets (127.0.0.x)
	Headers  []hdr  `json:"headers"`
	Trusted  bool   `json:"trusted"` // by the reference membership test
}

type c29Range struct{ Begin, End string }

var c29Trust = []c29Range{
	{"10.0.0.0", "10.255.255.255"},
	{"192.168.1.10", "192.168.1.20"},
	{"172.16.0.1", "172.16.0.1"},
	{"127.0.0.100", "127.0.0.120"},
	{"fd00::", "fd00::ffff"},
	{"2001:db8::1", "2001:db8::1"},
}

func c29IsTrusted(ip net.IP) bool {
	p := ip.To16()
	for _, rg := range c29Trust {
		a, b := net.ParseIP(rg.Begin).To16(), net.ParseIP(rg.End).To16()
		if bytes.Compare(a, p) <= 0 && bytes.Compare(p, b) <= 0 {
			return true
		}
	}
	return false
}

var c29Peers = []string{
	// outside
	"9.255.255.255", "11.0.0.0", "192.168.1.9", "192.168.1.21", "172.16.0.0", "172.16.0.2", "8.8.8.8", "203.0.113.7",
	"fcff:ffff:ffff:ffff:ffff:ffff:ffff:ffff", "fd00::1:0", "2001:db8::2", "2001:db8::", "2400:da00::6666",
	// inside
	"10.0.0.0", "10.255.255.255", "10.1.2.3", "192.168.1.10", "192.168.1.20", "192.168.1.15", "172.16.0.1",
	"fd00::", "fd00::ffff", "fd00::1234", "2001:db8::1",
}

var c29Spoof = []string{"1.2.3.4", "10.9.9.9", "192.168.1.15", "::1", "fd00::5", "2001:db8::1", "not-an-ip", "", "1.2.3.4, 5.6.7.8", "10.0.0.1"}

func c29Gen(g *vkit.Rand, id int) *c29Case {
	c := &c29Case{ID: id}
	if g.Chance(1, 5) {
		// real loopback socket from an alias address
		last := g.PickS([]string{"1", "2", "99", "100", "110", "120", "121"})
		c.LocalIP = "127.0.0." + last
		c.Trusted = c29IsTrusted(net.ParseIP(c.LocalIP))
	} else {
		c.PeerIP = c29Peers[g.Intn(len(c29Peers))]
		c.PeerPort = g.Range(1024, 65535)
		c.Trusted = c29IsTrusted(net.ParseIP(c.PeerIP))
	}
	names := []string{"X-Real-Ip", "X-Real-Port", "X-Forwarded-For", "X-Forwarded-Port", "Forwarded", "X-Forwarded-Host", "Clientip", "X-Bfe-Ip"}
	for _, n := range names {
		if !g.Chance(1, 2) {
			continue
		}
		k := caseVariant(g, n)
		var v string
		switch n {
		case "X-Real-Port", "X-Forwarded-Port":
			v = g.PickS([]string{"1", "80", "65535", "0", "99999", "abc", "", "4242"})
		case "Forwarded":
			v = "for=" + g.PickS(c29Spoof) + ";proto=http"
		default:
			v = g.PickS(c29Spoof)
		}
		c.Headers = append(c.Headers, hdr{k, v})
		if g.Chance(1, 5) { // duplicate line with a different case and value
			c.Headers = append(c.Headers, hdr{caseVariant(g, n), g.PickS(c29Spoof)})
		}
	}
	// a client may also nominate the forwarding headers as hop-by-hop in its Connection header
	if g.Chance(1, 4) {
		noms := []string{"X-Real-Ip", "X-Real-Port", "X-Forwarded-For", "X-Forwarded-Port"}
		var pick []string
		for _, n := range noms {
			if g.Bool() {
				pick = append(pick, caseVariant(g, n))
			}
		}
		if len(pick) > 0 {
			c.Headers = append(c.Headers, hdr{"Connection", strings.Join(pick, ", ")})
		}
	}
	return c
}

func (c *c29Case) bytes() []byte {
	var sb strings.Builder
	if c.PeerIP != "" {
		fam, dst := "TCP4", "198.51.100.1"
		if net.ParseIP(c.PeerIP).To4() == nil {
			fam, dst = "TCP6", "2001:db8:ffff::1"
		}
		fmt.Fprintf(&sb, "PROXY %s %s %s %d 80\r\n", fam, c.PeerIP, dst, c.PeerPort)
	}
	fmt.Fprintf(&sb, "GET /c29/%d HTTP/1.1\r\nHost: c29.test\r\nX-Id: %d\r\n", c.ID, c.ID)
	closeSent := false
	for _, h := range c.Headers {
		if h.K == "Connection" {
			fmt.Fprintf(&sb, "Connection: close, %s\r\n", h.V)
			closeSent = true
			continue
		}
		fmt.Fprintf(&sb, "%s: %s\r\n", h.K, h.V)
	}
	if !closeSent {
		sb.WriteString("Connection: close\r\n")
	}
	sb.WriteString("\r\n")
	return []byte(sb.String())
}

type c29Seen struct {
	Point int
	Addr  string
}

func c29(r *vkit.Run) {
	r.SetRule("full in-process BFE with mod_trust_clientip + mod_header behind PROXY-protocol mode so the peer address is arbitrary (24 v4/v6 peers at/around the boundaries of a 6-entry trust table) plus real loopback sockets bound to 127.0.0.x aliases; requests carry random subsets of X-Real-Ip/X-Real-Port/X-Forwarded-For/-Port/Forwarded/Clientip/X-Bfe-Ip with spoofed, invalid, duplicated and case-varied values; harness filters log req.ClientAddr at 5 callback points; the recording backend shows X-Real-Ip/X-Real-Port/X-Forwarded-For. Non-trivial = request carries at least one spoofing header; distinct = (peer, header list)")
	bs := e2e.NewBackendSet()
	defer bs.Close()
	be := bs.New("b1", nil)
	var sb strings.Builder
	sb.WriteString(`{"Version":"v1","Config":{"t":[`)
	for i, rg := range c29Trust {
		if i > 0 {
			sb.WriteString(",")
		}
		fmt.Fprintf(&sb, `{"Begin":"%s","End":"%s"}`, rg.Begin, rg.End)
	}
	sb.WriteString(`]}}`)
	srv, err := e2e.Start(&e2e.Options{
		L4Proxy: true,
		Modules: []string{"mod_trust_clientip", "mod_header"},
		Files: map[string]string{
			"mod_trust_clientip/trust_client_ip.data": sb.String(),
			"mod_header/header_rule.data":             `{"Version":"v1","Config":{}}`,
		},
		Clusters: []e2e.Cluster{{
			Name: "c29", Hosts: []string{"c29.test"}, MaxIdleConnsPerHost: 4,
			SubClusters: []e2e.SubCluster{{Name: "sub1", Weight: 100, Backends: []e2e.Backend{{Name: "b1", Addr: be.Addr, Port: be.Port, Weight: 10}}}},
		}}})
	if err != nil {
		r.Inconclusive("server start: " + err.Error())
		return
	}
	defer srv.Close()
	var mu sync.Mutex
	seen := map[string][]c29Seen{}
	trustSeen := map[string]bool{}
	logAddr := func(point int, req *bfe_basic.Request) {
		id := req.HttpRequest.Header.Get("X-Id")
		a := "<nil>"
		if req.ClientAddr != nil {
			a = req.ClientAddr.String()
		}
		mu.Lock()
		seen[id] = append(seen[id], c29Seen{point, a})
		trustSeen[id] = req.Session.TrustSource()
		mu.Unlock()
	}
	cb := srv.Srv.CallBacks
	for _, p := range []int{bfe_module.HandleBeforeLocation, bfe_module.HandleFoundProduct, bfe_module.HandleAfterLocation} {
		p := p
		cb.AddFilter(p, func(req *bfe_basic.Request) (int, *bfe_http.Response) {
			logAddr(p, req)
			return bfe_module.BfeHandlerGoOn, nil
		})
	}
	cb.AddFilter(bfe_module.HandleForward, func(req *bfe_basic.Request) int {
		logAddr(bfe_module.HandleForward, req)
		return bfe_module.BfeHandlerGoOn
	})
	cb.AddFilter(bfe_module.HandleReadResponse, func(req *bfe_basic.Request, res *bfe_http.Response) int {
		logAddr(bfe_module.HandleReadResponse, req)
		return bfe_module.BfeHandlerGoOn
	})

	var cases []*c29Case
	if r.Replay != "" {
		var w struct {
			Case c29Case `json:"case"`
		}
		if err := r.LoadReplay(&w); err != nil {
			r.Inconclusive(err.Error())
			return
		}
		cases = append(cases, &w.Case)
		r.SetMinDistinct(0)
	} else {
		n := r.N(5000, 100000)
		for i := 0; i < n; i++ {
			cases = append(cases, c29Gen(r.Rng("case", i), i))
		}
	}
	realPeer := make([]string, len(cases))
	vkit.Parallel(len(cases), 32, func(i int) {
		c := cases[i]
		d := net.Dialer{Timeout: 5 * time.Second}
		if c.LocalIP != "" {
			d.LocalAddr = &net.TCPAddr{IP: net.ParseIP(c.LocalIP)}
		}
		conn, err := d.Dial("tcp", srv.HTTPAddr)
		if err != nil {
			return
		}
		defer conn.Close()
		realPeer[i] = conn.LocalAddr().String()
		conn.SetDeadline(time.Now().Add(30 * time.Second))
		conn.Write(c.bytes())
		buf := make([]byte, 2048)
		for {
			if _, err := conn.Read(buf); err != nil {
				break
			}
		}
	})
	byID := map[string]*e2e.Exchange{}
	for _, x := range bs.Exchanges() {
		byID[x.Req.Header.Get("X-Id")] = x
	}
	mu.Lock()
	defer mu.Unlock()
	for i, c := range cases {
		id := strconv.Itoa(c.ID)
		peerIP, peerPort := c.PeerIP, c.PeerPort
		if c.PeerIP == "" {
			h, p, err := net.SplitHostPort(realPeer[i])
			if err != nil {
				r.Count("dial_failed", 1)
				continue
			}
			peerIP = h
			peerPort, _ = strconv.Atoi(p)
		}
		pip := net.ParseIP(peerIP)
		key := fmt.Sprintf("%s|%v", c.PeerIP+c.LocalIP, c.Headers)
		r.CaseS(key, len(c.Headers) > 0)
		x := byID[id]
		w := map[string]interface{}{"case": c, "request": string(c.bytes()), "client_addr_seen": seen[id], "peer": fmt.Sprintf("%s:%d", peerIP, peerPort)}
		if x == nil {
			r.Count("not_forwarded", 1)
			continue
		}
		w["backend_saw"] = string(x.Raw)
		got := rawHeaders(x.Raw)
		vals := func(name string) []string {
			var out []string
			for _, h := range got {
				if strings.EqualFold(h.K, name) {
					out = append(out, h.V)
				}
			}
			return out
		}
		// the trust decision itself (C19 end to end)
		if ts, ok := trustSeen[id]; ok && ts != c.Trusted {
			r.Violation(fmt.Sprintf("trust-decision:want-%v", c.Trusted), fmt.Sprintf("peer %s trusted=%v by the table, bfe says %v", peerIP, c.Trusted, ts), w)
			continue
		}
		if !c.Trusted {
			r.Count("untrusted_requests", 1)
			for _, s := range seen[id] {
				h, p, _ := net.SplitHostPort(s.Addr)
				if s.Addr == "<nil>" || !net.ParseIP(h).Equal(pip) || p != strconv.Itoa(peerPort) {
					r.Violation("untrusted:client-addr-not-peer:"+bfe_module.CallbackPointName(s.Point),
						fmt.Sprintf("ClientAddr=%s at %s, peer is %s:%d", s.Addr, bfe_module.CallbackPointName(s.Point), peerIP, peerPort), w)
					break
				}
			}
			ri := vals("X-Real-Ip")
			if len(ri) != 1 || !net.ParseIP(ri[0]).Equal(pip) {
				r.Violation("untrusted:x-real-ip-not-peer", fmt.Sprintf("backend got X-Real-Ip %q, peer is %s", ri, peerIP), w)
			}
			rp := vals("X-Real-Port")
			if len(rp) != 1 || rp[0] != strconv.Itoa(peerPort) {
				r.Violation("untrusted:x-real-port-not-peer", fmt.Sprintf("backend got X-Real-Port %q, peer port is %d", rp, peerPort), w)
			}
			xf := vals("X-Forwarded-For")
			lastOK := false
			if len(xf) > 0 {
				parts := strings.Split(xf[len(xf)-1], ",")
				lastOK = net.ParseIP(strings.TrimSpace(parts[len(parts)-1])).Equal(pip)
			}
			if !lastOK {
				r.Violation("untrusted:x-forwarded-for-does-not-end-with-peer", fmt.Sprintf("backend got X-Forwarded-For %q, peer is %s", xf, peerIP), w)
			}
		} else {
			r.Count("trusted_requests", 1)
			// honoured: a valid X-Real-Ip (first line) from a trusted peer becomes the client address
			var first string
			has := false
			for _, h := range c.Headers {
				if strings.EqualFold(h.K, "X-Real-Ip") {
					first, has = h.V, true
					break
				}
			}
			if has && net.ParseIP(first) != nil {
				r.Count("trusted_with_valid_real_ip", 1)
				for _, s := range seen[id] {
					h, _, _ := net.SplitHostPort(s.Addr)
					if s.Addr == "<nil>" || !net.ParseIP(h).Equal(net.ParseIP(first)) {
						r.Violation("trusted:x-real-ip-not-honoured", fmt.Sprintf("trusted peer sent X-Real-Ip %s but ClientAddr=%s", first, s.Addr), w)
						break
					}
				}
				ri := vals("X-Real-Ip")
				if len(ri) != 1 || !net.ParseIP(ri[0]).Equal(net.ParseIP(first)) {
					r.Violation("trusted:x-real-ip-not-forwarded", fmt.Sprintf("trusted peer sent X-Real-Ip %s, backend got %q", first, ri), w)
				}
			}
		}
		if r.WantSample() && len(c.Headers) > 2 {
			r.Sample(w)
		}
	}
	if r.Replay == "" && (r.Counter("untrusted_requests") == 0 || r.Counter("trusted_with_valid_real_ip") == 0) {
		r.Inconclusive("trusted or untrusted side never exercised")
	}
}
