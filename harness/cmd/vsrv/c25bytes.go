package main

import (
	"fmt"
	"sort"
	"strings"

	"verifharness/e2e"
	"verifharness/vkit"
)

// C25, byte-splice family: one hostile byte (class) is spliced at the start,
// in the middle or at the end of one ingredient (position) of an otherwise
// ordinary request that carries the usual proxy-chain fields (X-Forwarded-*,
// Cookie, User-Agent, ...). The cells (frontend, position, class, place) are
// ENUMERATED round-robin, so that every cell occurs once N >= number of cells;
// the seed chooses the concrete byte of a class, the offset, the method and
// whether the bytes after the hostile byte look like a header line.
//
// HTTP/1 frontend: LF ends a line at bfe's reader, so LF and CRLF are message
// structure and not generated as "bytes of a value"; but a BARE CR, a CR before
// the CRLF ("\r\r\n"), NUL, the other CTLs, DEL and obs-text are bytes inside
// the line as far as the line reader is concerned. HTTP/2 and SPDY carry
// length-prefixed strings, so LF and CRLF are bytes of the string there too.

// c25Workload are the header fields every byte-splice request carries with
// ordinary values; the hostile byte goes into the value of one of them.
var c25Workload = []struct{ tag, name, val string }{
	{"xff", "x-forwarded-for", "203.0.113.7, 198.51.100.2"},
	{"xfproto", "x-forwarded-proto", "https"},
	{"xfhost", "x-forwarded-host", "front.example"},
	{"xfport", "x-forwarded-port", "8443"},
	{"xrealip", "x-real-ip", "203.0.113.9"},
	{"cookie", "cookie", "sid=abc123; theme=dark"},
	{"ua", "user-agent", "c25-agent/1.0 (verif)"},
	{"referer", "referer", "http://ref.example/p?q=1"},
	{"accept", "accept", "text/html, */*;q=0.8"},
	{"authz", "authorization", "Basic dXNlcjpwYXNz"},
	{"custom", "x-custom", "custom value"},
}

type c25Cell struct{ pos, kind, place string }

// c25Kinds are the byte kinds; "cr" becomes class cr-bare (start/middle) or
// cr-end (end: on HTTP/1 the wire then carries "\r\r\n").
var c25KindsH1 = []string{"cr", "nul", "ctl", "del", "obs", "htab", "sp"}
var c25KindsBin = []string{"cr", "nul", "ctl", "del", "obs", "htab", "sp", "lf", "crlf"}
var c25Places = []string{"start", "middle", "end"}

func c25Positions() []string {
	ps := []string{"host"}
	for _, w := range c25Workload {
		ps = append(ps, "value-"+w.tag)
	}
	return append(ps, "name", "path", "query", "method")
}

func c25Cells(frontend string) []c25Cell {
	kinds := c25KindsBin
	if frontend == "h1" {
		kinds = c25KindsH1
	}
	var out []c25Cell
	for _, p := range c25Positions() {
		for _, k := range kinds {
			for _, pl := range c25Places {
				out = append(out, c25Cell{p, k, pl})
			}
		}
	}
	return out
}

func c25Class(kind, place string) string {
	if kind == "cr" {
		if place == "end" {
			return "cr-end"
		}
		return "cr-bare"
	}
	return kind
}

// c25Classes lists the classes of a frontend (for the coverage check).
func c25Classes(frontend string) []string {
	m := map[string]bool{}
	for _, c := range c25Cells(frontend) {
		m[c25Class(c.kind, c.place)] = true
	}
	var out []string
	for k := range m {
		out = append(out, k)
	}
	sort.Strings(out)
	return out
}

func c25HostileByte(g *vkit.Rand, kind string) string {
	switch kind {
	case "cr":
		return "\r"
	case "lf":
		return "\n"
	case "crlf":
		return "\r\n"
	case "nul":
		return "\x00"
	case "del":
		return "\x7f"
	case "htab":
		return "\t"
	case "sp":
		return " "
	case "obs":
		return string([]byte{byte(0x80 + g.Intn(0x80))})
	default: // ctl: 0x01-0x08, 0x0b, 0x0c, 0x0e-0x1f
		for {
			b := byte(1 + g.Intn(0x1f))
			if b != '\t' && b != '\n' && b != '\r' {
				return string([]byte{b})
			}
		}
	}
}

// c25Splice puts b at the start, middle or end of base. In the middle the
// remainder of base is sometimes replaced by what looks like a header line
// (payload), so that a reader taking b as a line end would see a field
// "Injected".
func c25Splice(g *vkit.Rand, base, b, place string, payload bool) string {
	switch place {
	case "start":
		return b + base
	case "end":
		return base + b
	}
	k := 1
	if len(base) > 2 {
		k = 1 + g.Intn(len(base)-1)
	}
	if payload && g.Bool() {
		return base[:k] + b + "Injected: 1"
	}
	return base[:k] + b + base[k:]
}

// c25GenBytes builds byte-splice case number j (0-based within the family);
// id numbering continues after the legacy cases.
func c25GenBytes(g *vkit.Rand, j, idBase int, order [3][]int) *c25Case {
	fe := []string{"h1", "h2", "spdy"}[j%3]
	cells := c25Cells(fe)
	ord := order[j%3]
	cell := cells[ord[(j/3)%len(cells)]]
	c := &c25Case{ID: fmt.Sprintf("q%dz", idBase+j), Frontend: fe, Method: "GET", Host: "c25.test"}
	c.Pos, c.Class, c.Place = cell.pos, c25Class(cell.kind, cell.place), cell.place
	c.Hostile = c.Pos + "-" + c.Class
	path, query := "/pre/c25/"+c.ID+"/post", ""
	if g.Chance(1, 3) || cell.pos == "query" {
		query = "k=v&x=" + c.ID
	}
	if g.Chance(1, 3) && cell.pos != "method" {
		c.Method = "POST"
		c.Body = "body-" + c.ID + strings.Repeat("b", g.Intn(40))
	}
	b := c25HostileByte(g, cell.kind)
	c.ByteHex = fmt.Sprintf("%x", b)
	for _, w := range c25Workload {
		v := w.val
		if cell.pos == "value-"+w.tag {
			v = c25Splice(g, v, b, cell.place, true)
		}
		c.Fields = append(c.Fields, e2e.HF{Name: w.name, Value: v})
	}
	switch cell.pos {
	case "host":
		c.Host = c25Splice(g, c.Host, b, cell.place, true)
	case "name":
		c.Fields = append(c.Fields, e2e.HF{Name: c25Splice(g, "x-c25-name", b, cell.place, false), Value: "v-" + c.ID})
	case "path":
		switch cell.place {
		case "start": // before or right after the leading slash
			if g.Bool() {
				path = b + path
			} else {
				path = "/" + b + path[1:]
			}
		case "middle":
			path = "/pre/c25/" + c.ID + "/po" + b + "st"
		default:
			path += b
		}
	case "query":
		query = c25Splice(g, query, b, cell.place, false)
	case "method":
		c.Method = c25Splice(g, c.Method, b, cell.place, false)
	}
	c.Target = path
	if query != "" {
		c.Target += "?" + query
	}
	return c
}

// c25Orders returns one seed-dependent enumeration order of the cells per frontend.
func c25Orders(r *vkit.Run) (o [3][]int) {
	for i, fe := range []string{"h1", "h2", "spdy"} {
		o[i] = r.Rng("cell-order", i).Perm(len(c25Cells(fe)))
	}
	return
}

// c25Outcome classifies what the client saw: "fwd" is decided by the backend
// record, not here; "rej" = bfe refused (4xx/5xx, stream reset, GOAWAY or a
// closed connection); "lost" = the harness could not deliver the request (dial
// failure, watchdog), which is not an observation of bfe.
func c25Outcome(status string) string {
	switch {
	case status == "dial" || strings.HasPrefix(status, "err:dial") || strings.HasPrefix(status, "err:timeout") || strings.HasPrefix(status, "err:alpn"):
		return "lost"
	case len(status) == 3 && status[0] == '2':
		return "ok"
	}
	return "rej"
}
