package main

import (
	"fmt"
	"net/textproto"
	"strings"
	"sync"
	"time"

	"verifharness/e2e"
	"verifharness/vkit"
)

// C26: hop-by-hop headers (and any field named in the client's Connection
// header) never reach the backend on a proxied non-upgrade request.
//
// Oracle (client boundary + backend boundary): every client-supplied
// hop-by-hop field carries a unique marker value and every Connection-listed
// field has a unique name; the raw header block captured at the backend must
// contain neither a hop-by-hop field with a client marker nor a listed name.
// Headers bfe itself puts on its own hop (e.g. its own "Connection: close",
// its own Transfer-Encoding framing) carry no client marker and are not judged.

type hdr struct{ K, V string }

type c26Case struct {
	ID      int    `json:"id"`
	Headers []hdr  `json:"headers"`
	Method  string `json:"method"`
	Body    string `json:"body"`
}

var hopNames = []string{"Connection", "Keep-Alive", "Proxy-Authenticate", "Proxy-Authorization", "TE", "Trailer", "Transfer-Encoding", "Upgrade"}

func caseVariant(g *vkit.Rand, s string) string {
	switch g.Intn(4) {
	case 0:
		return s
	case 1:
		return strings.ToLower(s)
	case 2:
		return strings.ToUpper(s)
	}
	b := []byte(s)
	for i := range b {
		if g.Bool() {
			b[i] = strings.ToUpper(string(b[i]))[0]
		} else {
			b[i] = strings.ToLower(string(b[i]))[0]
		}
	}
	return string(b)
}

func c26Gen(g *vkit.Rand, id int) *c26Case {
	c := &c26Case{ID: id, Method: "GET"}
	mark := fmt.Sprintf("m%dx", id)
	var hs []hdr
	// Connection header(s) with listed fields
	nListed := g.Intn(3)
	var listed []string
	for i := 0; i < nListed; i++ {
		listed = append(listed, fmt.Sprintf("X-Listed-%d-%d", id, i))
	}
	connTokens := []string{}
	if g.Chance(2, 3) {
		connTokens = append(connTokens, g.PickS([]string{"close", "keep-alive", "Keep-Alive", "CLOSE"}))
	}
	for _, l := range listed {
		connTokens = append(connTokens, caseVariant(g, l))
	}
	// shuffle tokens
	for i := len(connTokens) - 1; i > 0; i-- {
		j := g.Intn(i + 1)
		connTokens[i], connTokens[j] = connTokens[j], connTokens[i]
	}
	if len(connTokens) > 0 {
		sep := g.PickS([]string{", ", ",", " , ", ",\t"})
		switch g.Intn(4) {
		case 0, 1: // one line
			hs = append(hs, hdr{caseVariant(g, "Connection"), strings.Join(connTokens, sep)})
		case 2: // one line per token
			for _, t := range connTokens {
				hs = append(hs, hdr{caseVariant(g, "Connection"), t})
			}
		case 3: // empty first line, then the tokens
			hs = append(hs, hdr{caseVariant(g, "Connection"), ""})
			hs = append(hs, hdr{caseVariant(g, "Connection"), strings.Join(connTokens, sep)})
		}
	}
	for i, l := range listed {
		hs = append(hs, hdr{l, fmt.Sprintf("%slisted%d", mark, i)})
	}
	// other hop-by-hop headers with marker values
	for _, h := range hopNames[1:] {
		if !g.Chance(1, 3) {
			continue
		}
		name := caseVariant(g, h)
		switch h {
		case "Transfer-Encoding":
			continue // framing; judged by C24/C25
		case "TE":
			v := g.PickS([]string{"trailers", "gzip", "trailers, gzip", "deflate;q=0.5", "Trailers"})
			if g.Chance(1, 4) {
				hs = append(hs, hdr{name, ""})
			}
			hs = append(hs, hdr{name, v})
		case "Upgrade":
			hs = append(hs, hdr{name, mark + "proto/1"})
		case "Trailer":
			hs = append(hs, hdr{name, "X-" + mark + "trl"})
		default:
			if g.Chance(1, 4) {
				hs = append(hs, hdr{name, ""}) // empty first value, marker in the second line
			}
			hs = append(hs, hdr{name, mark + strings.ToLower(h)})
			if g.Chance(1, 5) {
				hs = append(hs, hdr{caseVariant(g, h), mark + "second"})
			}
		}
	}
	// end-to-end headers that must survive
	hs = append(hs, hdr{"X-E2e-" + mark, "keep"})
	// shuffle order of header lines but keep relative order of same-name lines
	// (stable: random insertion positions for distinct names only)
	c.Headers = hs
	if g.Chance(1, 4) {
		c.Method = "POST"
		c.Body = "body-" + mark
	}
	return c
}

func (c *c26Case) bytes() []byte {
	var sb strings.Builder
	fmt.Fprintf(&sb, "%s /c26/%d HTTP/1.1\r\nHost: c26.test\r\n", c.Method, c.ID)
	for _, h := range c.Headers {
		fmt.Fprintf(&sb, "%s: %s\r\n", h.K, h.V)
	}
	if c.Method == "POST" {
		fmt.Fprintf(&sb, "Content-Length: %d\r\n", len(c.Body))
	}
	sb.WriteString("\r\n")
	sb.WriteString(c.Body)
	return []byte(sb.String())
}

// rawHeaders parses the header lines of a raw request head.
func rawHeaders(raw []byte) []hdr {
	s := string(raw)
	if i := strings.Index(s, "\r\n\r\n"); i >= 0 {
		s = s[:i]
	}
	lines := strings.Split(s, "\r\n")
	var out []hdr
	for _, l := range lines[1:] {
		i := strings.IndexByte(l, ':')
		if i < 0 {
			out = append(out, hdr{l, ""})
			continue
		}
		out = append(out, hdr{l[:i], strings.TrimSpace(l[i+1:])})
	}
	return out
}

func connTokens(hs []hdr) map[string]bool {
	m := map[string]bool{}
	for _, h := range hs {
		if strings.EqualFold(h.K, "Connection") {
			for _, t := range strings.Split(h.V, ",") {
				t = strings.ToLower(strings.TrimSpace(t))
				if t != "" {
					m[t] = true
				}
			}
		}
	}
	return m
}

func c26Judge(r *vkit.Run, c *c26Case, got []hdr) {
	mark := fmt.Sprintf("m%dx", c.ID)
	listed := connTokens(c.Headers)
	firstEmpty := map[string]bool{}
	seen := map[string]bool{}
	for _, h := range c.Headers {
		k := textproto.CanonicalMIMEHeaderKey(h.K)
		if !seen[k] {
			seen[k] = true
			firstEmpty[k] = h.V == ""
		}
	}
	e2eSeen := false
	for _, h := range got {
		lk := strings.ToLower(h.K)
		ck := textproto.CanonicalMIMEHeaderKey(h.K)
		if lk == "x-e2e-"+mark {
			e2eSeen = true
		}
		w := map[string]interface{}{"case": c, "backend_headers": got, "request": string(c.bytes())}
		if listed[lk] && lk != "close" && lk != "keep-alive" {
			r.Violation("connection-listed-field-forwarded", fmt.Sprintf("field %q is named in the client's Connection header but reached the backend", h.K), w)
			continue
		}
		for _, hn := range hopNames {
			if !strings.EqualFold(hn, h.K) {
				continue
			}
			switch hn {
			case "Transfer-Encoding":
			case "TE":
				if strings.EqualFold(strings.TrimSpace(h.V), "trailers") {
					break
				}
				shape := "plain"
				if firstEmpty[ck] {
					shape = "empty-first-value"
				}
				r.Violation("hop-header-forwarded:TE:"+shape, fmt.Sprintf("TE: %q reached the backend", h.V), w)
			case "Connection":
				for t := range connTokens([]hdr{h}) {
					if strings.Contains(t, "x-listed-") {
						r.Violation("hop-header-forwarded:Connection", fmt.Sprintf("client Connection token %q reached the backend", t), w)
					}
				}
			default:
				if strings.Contains(h.V, mark) {
					shape := "plain"
					if firstEmpty[ck] {
						shape = "empty-first-value"
					}
					r.Violation("hop-header-forwarded:"+hn+":"+shape, fmt.Sprintf("%s: %q (client supplied) reached the backend", h.K, h.V), w)
				}
			}
		}
	}
	if !e2eSeen {
		r.Violation("end-to-end-header-lost", "the end-to-end marker header did not reach the backend",
			map[string]interface{}{"case": c, "backend_headers": got})
	}
}

func c26(r *vkit.Run) {
	r.SetRule("HTTP/1.1 requests through a full in-process BFE to a recording backend; each carries a random subset of hop-by-hop fields (random case, duplicated lines, empty first value) with unique marker values and 0-2 uniquely named fields listed in Connection (one line, one per line, empty first line; separators ', ' ',' ' , ' ',\\t'); oracle inspects the raw header block received by the backend. Non-trivial = request carried >=1 hop-by-hop or Connection-listed field and reached the backend; distinct = header list shape (names+values with the per-case marker removed)")
	bs := e2e.NewBackendSet()
	defer bs.Close()
	be := bs.New("b1", func(x *e2e.Exchange) e2e.Action { return e2e.Action{Status: 200, Body: []byte("ok")} })
	srv, err := e2e.Start(&e2e.Options{Clusters: []e2e.Cluster{{
		Name: "c26", Hosts: []string{"c26.test"}, MaxIdleConnsPerHost: 4,
		SubClusters: []e2e.SubCluster{{Name: "sub1", Weight: 100, Backends: []e2e.Backend{{Name: "b1", Addr: be.Addr, Port: be.Port, Weight: 10}}}},
	}}})
	if err != nil {
		r.Inconclusive("server start: " + err.Error())
		return
	}
	defer srv.Close()

	var cases []*c26Case
	if r.Replay != "" {
		var w struct {
			Case c26Case `json:"case"`
		}
		if err := r.LoadReplay(&w); err != nil {
			r.Inconclusive(err.Error())
			return
		}
		cases = append(cases, &w.Case)
		r.SetMinDistinct(0)
	} else {
		// fixed cases first (the shapes the design names), then random
		fixed := [][]hdr{
			{{"Connection", "close, X-Listed-0-0"}, {"X-Listed-0-0", "m0xlisted0"}},
			{{"Connection", "X-Listed-1-0"}, {"X-Listed-1-0", "m1xlisted0"}},
			{{"Keep-Alive", ""}, {"Keep-Alive", "m2xkeep-alive"}},
			{{"Proxy-Authorization", "m3xproxy-authorization"}},
			{{"TE", "trailers, gzip"}},
			{{"Te", "trailers"}},
			{{"Upgrade", "m6xproto/1"}},
			{{"Trailer", "X-m7xtrl"}},
		}
		for i, f := range fixed {
			cases = append(cases, &c26Case{ID: i, Method: "GET", Headers: append(f, hdr{fmt.Sprintf("X-E2e-m%dx", i), "keep"})})
		}
		n := r.N(4000, 80000)
		for i := len(fixed); i < n; i++ {
			cases = append(cases, c26Gen(r.Rng("case", i), i))
		}
	}
	var mu sync.Mutex
	status := map[int]int{}
	vkit.Parallel(len(cases), 32, func(i int) {
		c := cases[i]
		resp, _, err := e2e.RoundTripRaw(srv.HTTPAddr, c.bytes(), c.Method, 30*time.Second)
		mu.Lock()
		if err != nil {
			status[-1]++
		} else {
			status[resp.Status]++
		}
		mu.Unlock()
	})
	byID := map[string]*e2e.Exchange{}
	for _, x := range bs.Exchanges() {
		byID[x.Req.URL.Path] = x
	}
	reached := 0
	for _, c := range cases {
		x := byID[fmt.Sprintf("/c26/%d", c.ID)]
		mark := fmt.Sprintf("m%dx", c.ID)
		shape := strings.ReplaceAll(fmt.Sprint(c.Headers), mark, "M")
		shape = strings.ReplaceAll(shape, fmt.Sprintf("-%d-", c.ID), "-N-")
		if x == nil {
			r.CaseS(shape, false)
			r.Count("not_forwarded", 1)
			if r.Counter("not_forwarded") <= 3 {
				r.Extra(fmt.Sprintf("not_forwarded_example_%d", c.ID), string(c.bytes()))
			}
			continue
		}
		reached++
		nhop := 0
		for _, h := range c.Headers {
			if !strings.HasPrefix(strings.ToLower(h.K), "x-e2e-") {
				nhop++
			}
		}
		r.CaseS(shape, nhop > 0)
		got := rawHeaders(x.Raw)
		c26Judge(r, c, got)
		if r.WantSample() && nhop > 2 {
			r.Sample(map[string]interface{}{"request": string(c.bytes()), "backend_saw": string(x.Raw)})
		}
	}
	for k, v := range status {
		r.Count(fmt.Sprintf("client_status_%d", k), int64(v))
	}
	r.Count("reached_backend", int64(reached))
	if reached < len(cases)/2 {
		r.Inconclusive(fmt.Sprintf("only %d of %d requests reached the backend", reached, len(cases)))
	}
}
