package main

import (
	"regexp"
	"strings"
	"sync"

	"verifharness/vkit"
)

// C54, Accept-Encoding side: reference reading of the header and a generator
// for the whole grammar. Written from RFC 7231 section 5.3.4 (Accept-Encoding),
// section 5.3.1 (weight, qvalue) and RFC 7230 sections 3.2.2 (several field
// lines combine into one comma-separated list) and 7 (#rule: empty list
// elements are accepted and ignored). Nothing of mod_compress is consulted.
//
//	Accept-Encoding = #( codings [ weight ] )
//	codings         = content-coding / "identity" / "*"       (token, case-insensitive)
//	weight          = OWS ";" OWS "q=" qvalue                  ("q" case-insensitive)
//	qvalue          = ( "0" [ "." 0*3DIGIT ] ) / ( "1" [ "." 0*3("0") ] )
//
// A content-coding X is
//   - acceptable      if the request has no Accept-Encoding field at all; if X is
//     listed and every listing has q>0; or if X is not listed, "*" is, and
//     every "*" has q>0;
//   - not acceptable  if the field is present but lists neither X nor "*"
//     (an empty field included); if every listing of X has q=0; or if X is
//     not listed and every "*" has q=0;
//   - undecided ("either") where RFC 7231 says nothing: X (or, for an unlisted X,
//     "*") is listed several times with q=0 as well as q>0; a listing of X (or
//     of the deciding "*") carries something that is not a weight of the grammar
//     (q=1.5, q=-1, q=abc, q=, more than three decimals, ...); an element that is
//     not "token [weight]" mentions X.
//
// The property only says "compressed only if the request accepted that
// encoding", so the oracle is one-sided: a response encoded with X while X is
// "not acceptable" is a violation; "either" is counted, never judged.

type c54Verdict int

const (
	c54No c54Verdict = iota
	c54Yes
	c54Either
)

func (v c54Verdict) String() string { return [...]string{"not-acceptable", "acceptable", "either"}[v] }

var (
	c54Token  = regexp.MustCompile("^[!#$%&'*+.^_`|~0-9A-Za-z-]+$")
	c54Weight = regexp.MustCompile(`^[qQ]=(0(\.[0-9]{0,3})?|1(\.0{0,3})?)$`)
)

func c54TrimOWS(s string) string { return strings.Trim(s, " \t") }

// c54QPositive: w matched c54Weight.
func c54QPositive(w string) bool {
	v := w[2:]
	return strings.HasPrefix(v, "1") || strings.Trim(v, "0.") != ""
}

// c54Acceptable decides coding (lower case) against the Accept-Encoding field
// lines of a request (nil = no such field). why names the deciding shape.
func c54Acceptable(lines []string, coding string) (c54Verdict, string) {
	if lines == nil {
		return c54Yes, "no-accept-encoding-field"
	}
	type listing struct{ pos, zero, bad int }
	var own, star listing
	mention := false
	n := 0
	for _, el := range strings.Split(strings.Join(lines, ","), ",") {
		el = c54TrimOWS(el)
		if el == "" {
			continue
		}
		n++
		name, w, hasW := el, "", false
		if i := strings.Index(el, ";"); i >= 0 {
			name, w, hasW = c54TrimOWS(el[:i]), c54TrimOWS(el[i+1:]), true
		}
		if !c54Token.MatchString(name) {
			if strings.Contains(strings.ToLower(el), coding) {
				mention = true
			}
			continue
		}
		var l *listing
		switch strings.ToLower(name) {
		case coding:
			l = &own
		case "*":
			l = &star
		default:
			continue
		}
		switch {
		case !hasW:
			l.pos++
		case !c54Weight.MatchString(w):
			l.bad++
		case c54QPositive(w):
			l.pos++
		default:
			l.zero++
		}
	}
	decide := func(l listing, what string) (c54Verdict, string) {
		switch {
		case l.bad > 0:
			return c54Either, what + "-with-malformed-weight"
		case l.pos > 0 && l.zero > 0:
			return c54Either, what + "-listed-twice-q0-and-positive"
		case l.pos > 0:
			return c54Yes, what + "-with-positive-q"
		}
		return c54No, what + "-with-q0"
	}
	if mention {
		return c54Either, "malformed-element-mentions-coding"
	}
	if own.pos+own.zero+own.bad > 0 {
		return decide(own, "listed")
	}
	if star.pos+star.zero+star.bad > 0 {
		return decide(star, "star")
	}
	if n == 0 {
		return c54No, "empty-field"
	}
	return c54No, "not-listed"
}

// ---- generator -------------------------------------------------------------------------

type c54AEGen struct {
	Lines  []string
	Shapes []string // every shape of c54AEShapes that this value exhibits
}

var c54AEShapes = []string{"ows-before-semicolon", "ows-after-semicolon", "ows-around-comma", "htab-ows", "upper-case-Q", "upper-case-coding",
	"q=0", "q=0.", "q=0.0", "q=0.000", "q=0.001", "q=0.5", "q=1", "q=1.0", "q=1.000", "q-invalid",
	"star", "star-q0", "identity-q0", "listed-twice", "lookalike-coding", "empty-element", "several-field-lines", "refusal-plus-other-accepted-coding"}

var (
	c54QZero    = []string{"0", "0.", "0.0", "0.000"}
	c54QPos     = []string{"0.001", "0.5", "1", "1.0", "1.000", "0.9", "1."}
	c54QInvalid = []string{"1.5", "-1", "abc", "", "0.0000", "2", "1.001", ".5"}
	c54Look     = []string{"brotli", "x-gzip", "gzipp", "br2", "xbr", "gzi", "b", "x-br", "gzip2"}
)

func c54CaseVariant(g *vkit.Rand, s string) (string, bool) {
	switch g.Intn(5) {
	case 0:
		return strings.ToUpper(s), true
	case 1:
		return strings.ToUpper(s[:1]) + s[1:], true
	}
	return s, false
}

// c54GenAE builds one Accept-Encoding value around the focus codings (the
// codings the product's rules can produce). It is biased to the interesting
// region: a focus coding carrying a refusal next to another compressible coding
// that is accepted.
func c54GenAE(g *vkit.Rand, focus []string) c54AEGen {
	shapes := map[string]bool{}
	elem := func(coding string, kind int) string { // kind: 0 none, 1 zero, 2 positive, 3 invalid
		if v, ok := c54CaseVariant(g, coding); ok && coding != "*" {
			coding = v
			shapes["upper-case-coding"] = true
		}
		if kind == 0 {
			return coding
		}
		var qv string
		switch kind {
		case 1:
			qv = g.PickS(c54QZero)
			shapes["q="+qv] = true
		case 2:
			qv = g.PickS(c54QPos)
			shapes["q="+qv] = true
		default:
			qv = g.PickS(c54QInvalid)
			shapes["q-invalid"] = true
		}
		before := g.PickS([]string{"", "", " ", "  ", "\t"})
		after := g.PickS([]string{"", "", " ", "\t"})
		if before != "" {
			shapes["ows-before-semicolon"] = true
		}
		if after != "" {
			shapes["ows-after-semicolon"] = true
		}
		if before == "\t" || after == "\t" {
			shapes["htab-ows"] = true
		}
		q := "q"
		if g.Chance(1, 3) {
			q = "Q"
			shapes["upper-case-Q"] = true
		}
		return coding + before + ";" + after + q + "=" + qv
	}
	weightKind := func(pZero, pPos, pNone, pInv int) int {
		x := g.Intn(pZero + pPos + pNone + pInv)
		switch {
		case x < pZero:
			return 1
		case x < pZero+pPos:
			return 2
		case x < pZero+pPos+pNone:
			return 0
		}
		return 3
	}
	f := focus[g.Intn(len(focus))]
	other := "gzip"
	if f == "gzip" {
		other = "br"
	}
	var els []string
	fk := weightKind(5, 2, 1, 2)
	els = append(els, elem(f, fk))
	if g.Chance(1, 5) { // the focus coding once more with another weight
		els = append(els, elem(f, weightKind(2, 3, 2, 1)))
		shapes["listed-twice"] = true
	}
	if g.Chance(3, 4) {
		ok := weightKind(1, 5, 4, 1)
		els = append(els, elem(other, ok))
		if fk == 1 && (ok == 0 || ok == 2) {
			shapes["refusal-plus-other-accepted-coding"] = true
		}
	}
	if g.Chance(1, 4) {
		k := weightKind(3, 2, 3, 1)
		els = append(els, elem("*", k))
		shapes["star"] = true
		if k == 1 {
			shapes["star-q0"] = true
		}
	}
	if g.Chance(1, 5) {
		els = append(els, elem("identity", 1))
		shapes["identity-q0"] = true
	}
	if g.Chance(1, 3) {
		els = append(els, elem(g.PickS(c54Look), weightKind(2, 2, 4, 0)))
		shapes["lookalike-coding"] = true
	}
	if g.Chance(1, 6) {
		els = append(els, elem(g.PickS([]string{"deflate", "compress", "zstd"}), weightKind(1, 2, 4, 0)))
	}
	if g.Chance(1, 5) {
		els = append(els, "")
		shapes["empty-element"] = true
	}
	// order
	p := g.Perm(len(els))
	sh := make([]string, len(els))
	for i, j := range p {
		sh[i] = els[j]
	}
	// one or several field lines, OWS around the commas
	var lines []string
	cut := len(sh)
	if len(sh) > 1 && g.Chance(1, 5) {
		cut = g.Range(1, len(sh)-1)
		shapes["several-field-lines"] = true
	}
	join := func(xs []string) string {
		var sb strings.Builder
		for i, x := range xs {
			if i > 0 {
				sep := g.PickS([]string{",", ", ", ", ", " ,", " , ", ",\t", ",,"})
				switch sep {
				case " ,", " , ":
					shapes["ows-around-comma"] = true
				case ",\t":
					shapes["htab-ows"] = true
				case ",,":
					shapes["empty-element"] = true
				}
				sb.WriteString(sep)
			}
			sb.WriteString(x)
		}
		// a field value has no leading/trailing whitespace on the wire that would survive parsing
		return strings.Trim(sb.String(), " \t")
	}
	lines = append(lines, join(sh[:cut]))
	if cut < len(sh) {
		lines = append(lines, join(sh[cut:]))
	}
	out := c54AEGen{Lines: lines, Shapes: []string{}}
	for _, s := range c54AEShapes {
		if shapes[s] {
			out.Shapes = append(out.Shapes, s)
		}
	}
	return out
}

// ---- accounting ------------------------------------------------------------------------

type c54AEHost struct {
	name  string
	focus []string // codings the product's rules can produce
}

var c54AEHosts = []c54AEHost{
	{"gz.c54.test", []string{"gzip"}}, {"br.c54.test", []string{"br"}},
	{"gb.c54.test", []string{"gzip", "br"}}, {"bg.c54.test", []string{"br", "gzip"}}, {"mix.c54.test", []string{"br", "gzip"}},
	{"br.c54.test", []string{"br"}}, // the BROTLI-only product twice: its gate is the younger code
}

// c54RuleCoding is the coding of the rule that decides for this request (first
// matching rule of the product).
func c54RuleCoding(c *c54Case) string {
	switch c.Host {
	case "gz.c54.test", "gb.c54.test":
		return "gzip"
	case "mix.c54.test":
		if c.Sfx == "/gz" {
			return "gzip"
		}
	}
	return "br"
}

var (
	c54AEMu      sync.Mutex
	c54AESamples []map[string]interface{}
	c54AESeen    = map[string]bool{}
)

// c54AEAccount counts one generated Accept-Encoding case by shape, by the
// model's verdicts and by what bfe did.
func c54AEAccount(r *vkit.Run, c *c54Case, ce string, compressed bool) {
	host := strings.Split(c.Host, ".")[0]
	r.Count("ae_cases", 1)
	for _, s := range c.Shapes {
		r.Count("ae_shape["+s+"]", 1)
	}
	rc := c54RuleCoding(c)
	other := "gzip"
	if rc == "gzip" {
		other = "br"
	}
	v, why := c54Acceptable(c.aeLines(), rc)
	vo, _ := c54Acceptable(c.aeLines(), other)
	r.Count("ae_model_rule_coding["+v.String()+":"+why+"]", 1)
	outcome := "passed-through"
	if compressed {
		outcome = "compressed-" + ce
	}
	r.Count("ae_outcome["+host+":"+outcome+"]", 1)
	if v == c54No && vo == c54Yes {
		// the region in which a gate that looks at "some compressible coding is
		// accepted" and a gate that looks at the rule's coding can disagree
		r.Count("ae_rule_coding_refused_other_accepted["+outcome+"]", 1)
	}
	if v == c54Yes && !compressed {
		r.Count("ae_acceptable_but_not_compressed(not-judged)", 1)
	}
	key := host + "|" + v.String() + "|" + outcome
	c54AEMu.Lock()
	if !c54AESeen[key] && len(c54AESamples) < 24 {
		c54AESeen[key] = true
		c54AESamples = append(c54AESamples, map[string]interface{}{"host": c.Host + c.Sfx, "rule_coding": rc, "accept_encoding_lines": c.aeLines(),
			"model": v.String() + " (" + why + ")", "outcome": outcome})
	}
	c54AEMu.Unlock()
}

// c54AEFinish demands that every grammar shape, every product kind and both
// sides of the oracle were observed.
func c54AEFinish(r *vkit.Run) {
	r.Extra("accept_encoding_samples", c54AESamples)
	for _, s := range c54AEShapes {
		if r.Counter("ae_shape["+s+"]") == 0 {
			r.Inconclusive("generated Accept-Encoding shape never occurred: " + s)
		}
	}
	for _, k := range []string{"ae_outcome[gz:compressed-gzip]", "ae_outcome[br:compressed-br]", "ae_outcome[gb:compressed-gzip]", "ae_outcome[bg:compressed-br]",
		"ae_outcome[mix:compressed-gzip]", "ae_outcome[mix:compressed-br]", "ae_outcome[gz:passed-through]", "ae_outcome[br:passed-through]",
		"ae_outcome[gb:passed-through]", "ae_outcome[bg:passed-through]", "ae_outcome[mix:passed-through]",
		"ae_rule_coding_refused_other_accepted[passed-through]", "ae_model_rule_coding[not-acceptable:listed-with-q0]",
		"ae_model_rule_coding[either:listed-with-malformed-weight]", "ae_model_rule_coding[either:listed-listed-twice-q0-and-positive]",
		"ae_model_rule_coding[acceptable:listed-with-positive-q]"} {
		if r.Counter(k) == 0 {
			r.Inconclusive("generated Accept-Encoding family: never observed " + k)
		}
	}
}
