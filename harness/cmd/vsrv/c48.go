package main

import (
	"bufio"
	"bytes"
	"fmt"
	"io"
	"net"
	"net/http"
	"strings"
	"time"

	"github.com/bfenetworks/bfe/bfe_module"

	"verifharness/e2e"
	"verifharness/vkit"
)

// C48: filters run in registration order, the first verdict other than GoOn
// stops the chain at that point; Close sends nothing; Redirect/Response send
// exactly that response without contacting a backend; Finish closes the
// connection after replying.

type c48Case struct {
	ID       string `json:"id"`
	Script   string `json:"script"` // X-Vs value
	Method   string `json:"method"`
	Frontend string `json:"frontend,omitempty"` // "" = HTTP/1.1, "h2" = HTTP/2 over TLS
}

var c48Alpha = map[int]string{
	bfe_module.HandleBeforeLocation: "GFRPC",
	bfe_module.HandleFoundProduct:   "GFRPC",
	bfe_module.HandleAfterLocation:  "GFRPC",
	bfe_module.HandleForward:        "GF",
	bfe_module.HandleReadResponse:   "GFR",
	bfe_module.HandleRequestFinish:  "GF",
}

var c48Points = []int{bfe_module.HandleBeforeLocation, bfe_module.HandleFoundProduct, bfe_module.HandleAfterLocation,
	bfe_module.HandleForward, bfe_module.HandleReadResponse, bfe_module.HandleRequestFinish}

func allVectors(alpha string, maxLen int) []string {
	var out []string
	var rec func(prefix string)
	rec = func(prefix string) {
		if len(prefix) > 0 {
			out = append(out, prefix)
		}
		if len(prefix) == maxLen {
			return
		}
		for i := 0; i < len(alpha); i++ {
			rec(prefix + string(alpha[i]))
		}
	}
	rec("")
	return out
}

type c48Obs struct {
	First     *e2e.Resp
	FirstRaw  []byte
	FirstErr  string
	ProbeResp bool // a response to the probe request arrived (connection was kept alive)
	Closed    bool // EOF/reset observed before any probe response
	Timeout   bool
}

func c48RunH2(addr string, c *c48Case) *c48Obs {
	o := &c48Obs{}
	body := []byte(nil)
	if c.Method == "POST" {
		body = []byte("abc")
	}
	res, probeOK := e2e.H2WithProbe(addr, []e2e.HF{{Name: ":method", Value: c.Method}, {Name: ":scheme", Value: "https"}, {Name: ":authority", Value: "c48.test"}, {Name: ":path", Value: "/c48/" + c.ID},
		{Name: "x-id", Value: c.ID}, {Name: "x-vs", Value: c.Script}}, body,
		[]e2e.HF{{Name: ":method", Value: "GET"}, {Name: ":scheme", Value: "https"}, {Name: ":authority", Value: "c48.test"}, {Name: ":path", Value: "/c48/probe-" + c.ID}, {Name: "x-id", Value: "probe-" + c.ID}}, 30*time.Second)
	o.ProbeResp = probeOK
	if res.Status != "" {
		st := 0
		fmt.Sscan(res.Status, &st)
		h := http.Header{}
		for _, f := range res.Fields {
			h.Add(f.Name, f.Value)
		}
		o.First = &e2e.Resp{Status: st, Header: h, Body: res.Body}
		o.FirstRaw = []byte("h2 response :status " + res.Status)
	}
	o.FirstErr = res.Err
	if strings.Contains(res.Err, "timeout") {
		o.Timeout = true
	} else if !probeOK {
		o.Closed = true
	}
	return o
}

func c48Run(addr string, c *c48Case) *c48Obs {
	o := &c48Obs{}
	conn, err := net.DialTimeout("tcp", addr, 5*time.Second)
	if err != nil {
		o.FirstErr = err.Error()
		return o
	}
	defer conn.Close()
	conn.SetDeadline(time.Now().Add(20 * time.Second))
	req := fmt.Sprintf("%s /c48/%s HTTP/1.1\r\nHost: c48.test\r\nX-Id: %s\r\nX-Vs: %s\r\n\r\n", c.Method, c.ID, c.ID, c.Script)
	if _, err := conn.Write([]byte(req)); err != nil {
		o.FirstErr = err.Error()
		return o
	}
	var raw bytes.Buffer
	br := bufio.NewReader(io.TeeReader(conn, &raw))
	r1, err := e2e.ReadResp(br, c.Method)
	o.FirstRaw = append([]byte(nil), raw.Bytes()...)
	if err != nil {
		o.FirstErr = err.Error()
		if ne, ok := err.(net.Error); ok && ne.Timeout() {
			o.Timeout = true
		} else {
			o.Closed = true
		}
		if r1 == nil {
			return o
		}
	}
	o.First = r1
	// probe: is the connection still alive?
	probe := fmt.Sprintf("GET /c48/probe-%s HTTP/1.1\r\nHost: c48.test\r\nX-Id: probe-%s\r\n\r\n", c.ID, c.ID)
	conn.Write([]byte(probe))
	r2, err := e2e.ReadResp(br, "GET")
	if err == nil && r2 != nil {
		o.ProbeResp = true
		return o
	}
	if ne, ok := err.(net.Error); ok && ne.Timeout() {
		o.Timeout = true
	} else {
		o.Closed = true
	}
	return o
}

// firstStop returns the index of the first non-G letter, or -1.
func firstStop(s string) int {
	for i := 0; i < len(s) && i < nFilters; i++ {
		if s[i] != 'G' {
			return i
		}
	}
	return -1
}

func c48(r *vkit.Run) {
	r.SetRule("a full in-process BFE with 4 harness filters at each of 6 request-level callback points; each request carries a verdict script; ALL verdict vectors of length 1-4 over the verdicts each point handles (request points: GoOn/Finish/Redirect/Response/Close, Forward and RequestFinish: GoOn/Finish, ReadResponse: GoOn/Finish/Redirect) are enumerated one point at a time (GET), plus seeded multi-point scripts and POST/HEAD variants; oracle = per-point call log must be 0..k in order (k = first non-GoOn) + client bytes + backend arrivals + liveness probe on the same connection. Complete-stream family (HTTP/1.1): every verdict letter GoOn/Finish/Redirect/Response/Close, consulted by the framework at that point or not, as first and as last filter at each of the 6 request-level points x backend body {empty, small, 192 KiB, chunked} x {GET, POST, HEAD}, a request-phase Response verdict followed by Redirect/Finish at HandleReadResponse/HandleRequestFinish, seeded multi-point scripts; connection-level points HandleAccept/HandleHandshake/HandleFinish scripted by the client's source address (plain and TLS http/1.1), vectors of length 1-2 and after GoOns; the probe is pipelined behind the request in one write and asks for close, the client reads to the end of the connection and a strict response parser must find exactly <the response the verdict demands (redirect: 302, Location, the short note for GET and no body otherwise; response: the filter's status/header/body; finish: one complete reply; close: no byte)> then nothing or the probe's own response, then the end; verdicts the framework does not consult at a point are judged for order/stop only; a connection reset before one complete response (pipelined bytes unread at the server) is counted as skipped. Request-finish family (c48finish.go, HTTP/1.1): two-request keep-alive connections; request 1 ends through each terminal path {Redirect at each request-phase point and at HandleReadResponse, Response verdict at each request-phase point, Finish at each earlier point, Close at each request-phase point, proxied GET/POST with four body shapes, HEAD, backend 304, backend drops the connection -> internal 500, unknown Host -> internal 500} x GET/POST/HEAD where meaningful x verdict vector at HandleRequestFinish {all GoOn, F, GF, GGGF, C, GGC, R, P; seeded vectors of length 1-4 and chain positions} x request 2 {pipelined in the same write, sent after reply 1 was read}; asserted: HandleRequestFinish is passed by every request on every terminal path - its filters are called exactly 0..k in order, once, for request 1 and for an answered request 2 (also applied to every HTTP/1 case of the other families whose end was observed); a Finish verdict there ends the connection after reply 1 (request 2 unanswered, not one more byte); Close/Redirect/Response are not consulted by the framework at HandleRequestFinish (the reply is already out) and are judged for order/stop only; that GoOn leaves the connection alive on the keep-alive paths is measured as the control and required to have been seen on every path, never a verdict. Non-trivial = script has a non-GoOn verdict; distinct = script")
	log := newFilterLog()
	bs := e2e.NewBackendSet()
	defer bs.Close()
	be := bs.New("b1", c48BackendAction) // 200 "backend id=<X-Id>"; stream cases (X-Bk) choose the body shape, see c48stream.go
	srv, err := e2e.Start(&e2e.Options{HTTPS: true, TLSRule: `{"Version":"1","DefaultNextProtos":["h2","http/1.1"],"Config":{}}`, Clusters: []e2e.Cluster{{
		Name: "c48", Hosts: []string{"c48.test"}, MaxIdleConnsPerHost: 8,
		SubClusters: []e2e.SubCluster{{Name: "sub1", Weight: 100, Backends: []e2e.Backend{{Name: "b1", Addr: be.Addr, Port: be.Port, Weight: 10}}}},
	}}})
	if err != nil {
		r.Inconclusive("server start: " + err.Error())
		return
	}
	defer srv.Close()
	if err := installScriptedFilters(srv, log); err != nil {
		r.Inconclusive("AddFilter: " + err.Error())
		return
	}

	cs := newConnScripts()
	if err := installConnFilters(srv, cs); err != nil {
		r.Inconclusive("AddFilter (connection-level): " + err.Error())
		return
	}

	var cases []*c48Case
	if r.Replay != "" {
		var ws struct {
			Case c48SCase `json:"case"`
		}
		if err := r.LoadReplay(&ws); err == nil && (ws.Case.Kind == "stream" || ws.Case.Kind == "conn") {
			r.SetMinDistinct(0)
			c48Stream(r, srv, log, cs, bs, &ws.Case)
			return
		}
		var wf struct {
			Case c48FCase `json:"case"`
		}
		if err := r.LoadReplay(&wf); err == nil && wf.Case.Kind == "finish2" {
			r.SetMinDistinct(0)
			c48Finish2(r, srv, log, &wf.Case)
			return
		}
		var w struct {
			Case c48Case `json:"case"`
		}
		if err := r.LoadReplay(&w); err != nil {
			r.Inconclusive(err.Error())
			return
		}
		cases = append(cases, &w.Case)
		r.SetMinDistinct(0)
	} else {
		n := 0
		add := func(script, method string) {
			cases = append(cases, &c48Case{ID: fmt.Sprintf("q%d", n), Script: script, Method: method})
			n++
		}
		for _, p := range c48Points {
			for _, v := range allVectors(c48Alpha[p], nFilters) {
				add(fmt.Sprintf("%d=%s", p, v), "GET")
			}
		}
		r.Count("enumerated_single_point_scripts", int64(n))
		m := r.N(1500, 30000)
		for i := 0; i < m; i++ {
			g := r.Rng("multi", i)
			var parts []string
			for _, p := range c48Points {
				if g.Chance(1, 2) {
					a := c48Alpha[p]
					l := g.Range(1, nFilters)
					b := make([]byte, l)
					for k := range b {
						if g.Chance(3, 5) {
							b[k] = 'G'
						} else {
							b[k] = a[g.Intn(len(a))]
						}
					}
					parts = append(parts, fmt.Sprintf("%d=%s", p, b))
				}
			}
			add(strings.Join(parts, ";"), g.PickS([]string{"GET", "GET", "POST", "HEAD"}))
			if i%3 == 0 {
				cases[len(cases)-1].Frontend = "h2"
			}
		}
		// every single-point vector of the request-phase points once more over HTTP/2
		for _, p := range c48Points[:3] {
			for _, v := range allVectors(c48Alpha[p], 2) {
				add(fmt.Sprintf("%d=%s", p, v), "GET")
				cases[len(cases)-1].Frontend = "h2"
			}
		}
	}

	obs := make([]*c48Obs, len(cases))
	vkit.Parallel(len(cases), 32, func(i int) {
		if cases[i].Frontend == "h2" {
			obs[i] = c48RunH2(srv.HTTPSAddr, cases[i])
		} else {
			obs[i] = c48Run(srv.HTTPAddr, cases[i])
		}
	})

	arrived := map[string]int{}
	for _, x := range bs.Exchanges() {
		arrived[x.Req.Header.Get("X-Id")]++
	}
	for i, c := range cases {
		o := obs[i]
		ev := log.take(c.ID)
		w := map[string]interface{}{"case": c, "filter_calls": ev, "first_raw": string(o.FirstRaw), "first_err": o.FirstErr,
			"probe_answered": o.ProbeResp, "closed": o.Closed, "backend_arrivals": arrived[c.ID]}
		nontrivial := false
		// (1) order and stop, per point
		per := map[int][]int{}
		for _, e := range ev {
			per[e.Point] = append(per[e.Point], e.Idx)
		}
		// effective verdicts: non-GoOn verdicts at points that were actually reached, in flow order
		type eff struct {
			p, k int
			v    byte
		}
		var effs []eff
		for _, p := range c48Points {
			s := scriptFor(c.Script, p)
			k := firstStop(s)
			if k >= 0 {
				nontrivial = true
			}
			calls := per[p]
			if len(calls) == 0 && p == bfe_module.HandleRequestFinish && c.Frontend == "" && !o.Timeout && (o.Closed || o.ProbeResp) {
				// the request-finish point is passed by every request, whatever produced its reply (c48finish.go). HTTP/1
				// only: there the end of the connection or the next reply proves that the request is over
				r.Violation("order:HandleRequestFinish:chain-never-ran", fmt.Sprintf("no filter was called at HandleRequestFinish for a finished request (script %q)", c.Script), w)
				if k >= 0 {
					effs = append(effs, eff{p, k, s[k]})
				}
				continue
			}
			if len(calls) == 0 {
				continue
			}
			want := nFilters
			if k >= 0 {
				want = k + 1
			}
			ok := len(calls) == want
			for j := 0; ok && j < want; j++ {
				ok = calls[j] == j
			}
			if !ok {
				shape := "wrong-order"
				if len(calls) > want {
					shape = "chain-not-stopped"
				} else if len(calls) < want {
					shape = "chain-cut-short"
				}
				r.Violation(fmt.Sprintf("order:%s:%s", bfe_module.CallbackPointName(p), shape),
					fmt.Sprintf("filters called at %s: %v, script %q wants 0..%d", bfe_module.CallbackPointName(p), calls, s, want-1), w)
			}
			if k >= 0 {
				effs = append(effs, eff{p, k, s[k]})
			}
		}
		r.CaseS(c.Script+"|"+c.Method+"|"+c.Frontend, nontrivial)
		r.Count("frontend_"+c.Frontend+"_cases", 1)
		if o.Timeout && !o.ProbeResp {
			r.Count("client_timeouts_skipped", 1)
			continue
		}
		isReqPhase := func(p int) bool {
			return p == bfe_module.HandleBeforeLocation || p == bfe_module.HandleFoundProduct || p == bfe_module.HandleAfterLocation
		}
		if len(effs) == 0 {
			r.Count("decisive_G", 1)
			wantBody := "backend id=" + c.ID
			if c.Method == "HEAD" {
				wantBody = ""
			}
			if o.First == nil || o.First.Status != 200 || string(o.First.Body) != wantBody {
				r.Count("all_goon_unexpected_reply", 1)
			}
			if o.ProbeResp {
				r.Count("all_goon_kept_alive", 1)
			}
		} else {
			first, last := effs[0], effs[len(effs)-1]
			anyF := false
			for _, e := range effs {
				r.Count("effective_"+string(e.v), 1)
				if e.v == 'F' {
					anyF = true
				}
			}
			if len(effs) > 1 {
				r.Count("combined_verdicts", 1)
			}
			fpn := bfe_module.CallbackPointName(first.p)
			lpn := bfe_module.CallbackPointName(last.p)
			if first.v == 'C' {
				if len(o.FirstRaw) != 0 {
					r.Violation("close:bytes-sent:"+fpn, fmt.Sprintf("Close verdict at %s but the client received %d bytes", fpn, len(o.FirstRaw)), w)
				}
				if o.ProbeResp {
					r.Violation("close:connection-kept-alive:"+fpn, "Close verdict but the connection answered a further request", w)
				}
				if arrived[c.ID] != 0 {
					r.Violation("close:backend-contacted:"+fpn, "Close verdict but the request reached a backend", w)
				}
			}
			if (first.v == 'P' || first.v == 'R') && isReqPhase(first.p) && arrived[c.ID] != 0 {
				r.Violation("response-or-redirect:backend-contacted:"+fpn, "Response/Redirect verdict before forwarding but the request reached a backend", w)
			}
			if anyF && first.v != 'C' {
				if o.First == nil && c.Frontend == "h2" {
					// one call site: ProtocolHandler.ServeHTTP closes the connection (bfe_http2.CloseConn) from the
					// handler goroutine before the stream's reply has been written
					r.Violation("finish:connection-closed-before-reply:h2", "Finish verdict over HTTP/2: the connection was closed without any reply on the stream ("+o.FirstErr+")", w)
				} else if o.First == nil {
					r.Violation("finish:no-reply:"+lpn, "Finish verdict: connection ended without a complete reply ("+o.FirstErr+")", w)
				}
				if o.ProbeResp {
					r.Violation("finish:connection-kept-alive:"+lpn, "Finish verdict but the connection answered a further request", w)
				}
			} else if last.v == 'P' {
				want := fmt.Sprintf("%s/%d/%d", c.ID, last.p, last.k)
				wantBody := fmt.Sprintf("filter-response id=%s point=%d idx=%d", c.ID, last.p, last.k)
				if c.Method == "HEAD" {
					wantBody = ""
				}
				if o.First == nil || o.First.Status != 403 || o.First.Header.Get("X-Filter-Resp") != want || string(o.First.Body) != wantBody {
					r.Violation("response:not-the-filter-response:"+lpn, "Response verdict but the client did not receive exactly the filter's response", w)
				}
			} else if last.v == 'R' {
				want := fmt.Sprintf("/redir/%s/%d/%d", c.ID, last.p, last.k)
				if o.First == nil || o.First.Status != 302 || o.First.Header.Get("Location") != want {
					r.Violation("redirect:not-the-redirect:"+lpn, "Redirect verdict but the client did not receive exactly that redirect", w)
				}
			}
		}
		if r.WantSample() && nontrivial && i%97 == 0 {
			r.Sample(w)
		}
	}
	if r.Replay == "" {
		c48Stream(r, srv, log, cs, bs, nil)
		c48Finish2(r, srv, log, nil)
	}
	for k, v := range e2e_panics(srv) {
		if v != 0 {
			r.Violation("panic-counter:"+k, fmt.Sprintf("%s=%d", k, v), nil)
		}
	}
	if r.Replay == "" && (r.Counter("effective_C") == 0 || r.Counter("effective_P") == 0 || r.Counter("effective_R") == 0 || r.Counter("effective_F") == 0 || r.Counter("all_goon_kept_alive") == 0) {
		r.Inconclusive("a verdict kind was never decisive, or no keep-alive was ever observed (probe machinery unvalidated)")
	}
}
