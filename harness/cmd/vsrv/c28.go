package main

import (
	"bytes"
	"fmt"
	"io"
	"net"
	"strconv"
	"strings"
	"time"

	"github.com/bfenetworks/bfe/bfe_basic"
	"github.com/bfenetworks/bfe/bfe_http"
	"github.com/bfenetworks/bfe/bfe_module"

	"verifharness/e2e"
	"verifharness/ref/http1"
	"verifharness/vkit"
)

// C28: on one HTTP/1.x connection carrying any sequence of pipelined requests
// (bodies, Expect: 100-continue, HEAD, errors, oversized headers) BFE answers
// the requests in order with at most one final response each, never interprets
// body bytes as a new request, and closes the connection when it cannot tell
// where the next request starts.

type c28Req struct {
	Kind string `json:"kind"`
	Blen int    `json:"blen"`
}

type c28Case struct {
	ID     int      `json:"id"`
	Reqs   []c28Req `json:"reqs"`
	Splits []int    `json:"splits"` // write sizes; empty = one segment
}

var c28Kinds = []string{
	"get", "head", "post-cl", "post-chunked", "post-expect",
	"mod-get",                  // module answers, no body
	"mod-post-cl",              // module answers, body never read by a handler
	"mod-post-chunked",         // same, chunked
	"mod-post-expect",          // module answers a request that expected 100-continue
	"get-http10",               // HTTP/1.0 without keep-alive: connection ends after it
	"big-header",               // header section above MaxHeaderBytes
	"bad-request-line",         // unparsable request line
	"post-cl-conn-close",       // Connection: close
	"mod-post-chunked-badsize", // module answers; the unread chunked body has a malformed chunk-size line
	"post-chunked-badsize",     // forwarded; the chunked body has a malformed chunk-size line
}

// decoy is what request bodies are made of: if body bytes are ever parsed as a
// request, a /decoy request shows up at the backend or in the response stream.
func c28Body(id string, n int) []byte {
	unit := []byte(fmt.Sprintf("GET /decoy/%s HTTP/1.1\r\nHost: c28.test\r\nX-Id: decoy-%s\r\n\r\n", id, id))
	var b bytes.Buffer
	for b.Len() < n {
		b.Write(unit)
	}
	return b.Bytes()[:n]
}

func (c *c28Case) rid(i int) string { return fmt.Sprintf("c%dr%d", c.ID, i) }

func (c *c28Case) bytes() []byte {
	var out bytes.Buffer
	for i, q := range c.Reqs {
		id := c.rid(i)
		body := c28Body(id, q.Blen)
		last := i == len(c.Reqs)-1
		closeHdr := ""
		if last {
			closeHdr = "Connection: close\r\n"
		}
		mod := ""
		if strings.HasPrefix(q.Kind, "mod-") {
			mod = "X-Mod: 1\r\n"
		}
		head := func(method, version string) {
			fmt.Fprintf(&out, "%s /c28/%s %s\r\nHost: c28.test\r\nX-Id: %s\r\n%s%s", method, id, version, id, mod, closeHdr)
		}
		switch q.Kind {
		case "get", "mod-get":
			head("GET", "HTTP/1.1")
			out.WriteString("\r\n")
		case "head":
			head("HEAD", "HTTP/1.1")
			out.WriteString("\r\n")
		case "get-http10":
			head("GET", "HTTP/1.0")
			out.WriteString("\r\n")
		case "post-cl", "mod-post-cl":
			head("POST", "HTTP/1.1")
			fmt.Fprintf(&out, "Content-Length: %d\r\n\r\n", len(body))
			out.Write(body)
		case "post-cl-conn-close":
			head("POST", "HTTP/1.1")
			fmt.Fprintf(&out, "Connection: close\r\nContent-Length: %d\r\n\r\n", len(body))
			out.Write(body)
		case "post-chunked", "mod-post-chunked":
			head("POST", "HTTP/1.1")
			out.WriteString("Transfer-Encoding: chunked\r\n\r\n")
			rest := body
			for len(rest) > 0 {
				k := 1000
				if k > len(rest) {
					k = len(rest)
				}
				fmt.Fprintf(&out, "%x\r\n", k)
				out.Write(rest[:k])
				out.WriteString("\r\n")
				rest = rest[k:]
			}
			out.WriteString("0\r\n\r\n")
		case "mod-post-chunked-badsize", "post-chunked-badsize":
			head("POST", "HTTP/1.1")
			out.WriteString("Transfer-Encoding: chunked\r\n\r\n5\r\nhello\r\nZZ\r\n")
			out.Write(c28Body(id, 300)) // what follows the bad line looks like requests
		case "post-expect", "mod-post-expect":
			head("POST", "HTTP/1.1")
			fmt.Fprintf(&out, "Expect: 100-continue\r\nContent-Length: %d\r\n\r\n", len(body))
			out.Write(body)
		case "big-header":
			head("GET", "HTTP/1.1")
			fmt.Fprintf(&out, "X-Big: %s\r\n\r\n", strings.Repeat("h", 20000))
		case "bad-request-line":
			fmt.Fprintf(&out, "GET/c28/%s\r\nHost: c28.test\r\n\r\n", id)
		}
	}
	return out.Bytes()
}

// desync reports whether after request kind k bfe cannot (or need not) continue on the connection.
func c28Terminal(k string) bool {
	switch k {
	case "get-http10", "big-header", "bad-request-line", "post-cl-conn-close", "mod-post-chunked-badsize", "post-chunked-badsize":
		return true
	}
	return false
}

func c28Gen(g *vkit.Rand, id int) *c28Case {
	c := &c28Case{ID: id}
	n := g.Range(2, 6)
	for i := 0; i < n; i++ {
		k := c28Kinds[g.Intn(len(c28Kinds))]
		if c28Terminal(k) && g.Chance(1, 2) {
			k = "get" // keep terminal kinds rarer so that sequences go on
		}
		q := c28Req{Kind: k}
		if strings.Contains(k, "post") && !strings.HasSuffix(k, "badsize") {
			q.Blen = []int{1, 90, 700, 4096, 65536, 300000, 1100000}[g.Intn(g.Range(5, 7))]
		}
		c.Reqs = append(c.Reqs, q)
	}
	if g.Chance(1, 2) {
		for i := 0; i < 8; i++ {
			c.Splits = append(c.Splits, g.Range(1, 3000))
		}
	}
	return c
}

func c28(r *vkit.Run) {
	r.SetRule("full in-process BFE (MaxHeaderBytes 8192); each connection carries 2-6 pipelined requests drawn from 15 kinds (GET, HEAD, POST with Content-Length / chunked / Expect: 100-continue bodies of 1 B..1.1 MB, the same answered by a module response so that no handler reads the body, HTTP/1.0, Connection: close, a 20 KB header, an unparsable request line, chunked bodies with a malformed chunk-size line both forwarded and left unread by a module response), written in one segment or split at random sizes; request bodies consist of well-formed decoy requests; the client byte stream is parsed by the strict reference response parser: responses must match requests in order (ids echoed by backend/module), at most one final response each, no decoy ever answered or seen by a backend, nothing after a request that ends the connection. Non-trivial = >=2 requests answered or a terminal kind in the middle; distinct = kind/size sequence")
	bs := e2e.NewBackendSet()
	defer bs.Close()
	be := bs.New("b1", func(x *e2e.Exchange) e2e.Action {
		id := x.Req.Header.Get("X-Id")
		return e2e.Action{Status: 200, Header: [][2]string{{"X-Echo-Id", id}, {"X-Body-Len", strconv.Itoa(len(x.Body))}}, Body: []byte("backend " + id)}
	})
	srv, err := e2e.Start(&e2e.Options{MaxHeaderBytes: 8192, Clusters: []e2e.Cluster{{
		Name: "c28", Hosts: []string{"c28.test"}, MaxIdleConnsPerHost: 0,
		SubClusters: []e2e.SubCluster{{Name: "sub1", Weight: 100, Backends: []e2e.Backend{{Name: "b1", Addr: be.Addr, Port: be.Port, Weight: 10}}}},
	}}})
	if err != nil {
		r.Inconclusive("server start: " + err.Error())
		return
	}
	defer srv.Close()
	srv.Srv.CallBacks.AddFilter(bfe_module.HandleBeforeLocation, func(req *bfe_basic.Request) (int, *bfe_http.Response) {
		h := req.HttpRequest.Header
		if h.Get("X-Mod") != "1" {
			return bfe_module.BfeHandlerGoOn, nil
		}
		id := h.Get("X-Id")
		body := "module " + id
		res := new(bfe_http.Response)
		res.StatusCode = 403
		res.Header = make(bfe_http.Header)
		res.Header.Set("X-Echo-Id", id)
		res.Header.Set("Content-Length", strconv.Itoa(len(body)))
		res.ContentLength = int64(len(body))
		res.Body = strBody{strings.NewReader(body)}
		req.HttpResponse = res
		return bfe_module.BfeHandlerResponse, res
	})

	var cases []*c28Case
	if r.Replay != "" {
		var w struct {
			Case c28Case `json:"case"`
		}
		if err := r.LoadReplay(&w); err != nil {
			r.Inconclusive(err.Error())
			return
		}
		cases = append(cases, &w.Case)
		r.SetMinDistinct(0)
	} else {
		n := r.N(1500, 60000)
		for i := 0; i < n; i++ {
			cases = append(cases, c28Gen(r.Rng("case", i), i))
		}
	}
	raws := make([][]byte, len(cases))
	eofs := make([]bool, len(cases))
	resets := make([]bool, len(cases))
	vkit.Parallel(len(cases), 24, func(i int) {
		c := cases[i]
		conn, err := net.DialTimeout("tcp", srv.HTTPAddr, 10*time.Second)
		if err != nil {
			return
		}
		defer conn.Close()
		conn.SetDeadline(time.Now().Add(60 * time.Second))
		done := make(chan struct{})
		go func() { // reader runs concurrently: responses may arrive while we still write
			b, err := io.ReadAll(conn)
			raws[i] = b
			eofs[i] = err == nil
			if ne, ok := err.(net.Error); err != nil && !(ok && ne.Timeout()) {
				// connection reset: bfe closed with unread input. What was received is still judged,
				// a cut-off tail is tolerated.
				eofs[i], resets[i] = true, true
			}
			close(done)
		}()
		data := c.bytes()
		k := 0
		for len(data) > 0 {
			n := len(data)
			if len(c.Splits) > 0 {
				n = c.Splits[k%len(c.Splits)]
				k++
				if n > len(data) {
					n = len(data)
				}
			}
			if _, err := conn.Write(data[:n]); err != nil {
				break // bfe closed the connection (legitimate after a terminal request)
			}
			data = data[n:]
		}
		<-done
	})
	decoyAtBackend := map[string]bool{}
	arrivals := map[string]int{}
	for _, x := range bs.Exchanges() {
		if strings.HasPrefix(x.Req.URL.Path, "/decoy/") {
			decoyAtBackend[strings.TrimPrefix(x.Req.URL.Path, "/decoy/")] = true
		}
		arrivals[x.Req.Header.Get("X-Id")]++
	}
	for i, c := range cases {
		var kinds []string
		for _, q := range c.Reqs {
			kinds = append(kinds, fmt.Sprintf("%s/%d", q.Kind, q.Blen))
		}
		key := strings.Join(kinds, ",")
		w := map[string]interface{}{"case": c, "kinds": kinds, "client_bytes": clip(string(raws[i]), 3000), "eof": eofs[i]}
		if resets[i] {
			r.Count("connections_ended_by_reset", 1)
		}
		if !eofs[i] {
			r.CaseS(key, false)
			r.Count("watchdog_skipped", 1)
			continue
		}
		raw := raws[i]
		answered := 0
		ok := true
		pos := 0
		for pos < len(raw) {
			if answered >= len(c.Reqs) {
				r.Violation("more-responses-than-requests:after:"+c.Reqs[len(c.Reqs)-1].Kind, fmt.Sprintf("%d bytes follow the last request's response", len(raw)-pos), w)
				ok = false
				break
			}
			q := c.Reqs[answered]
			method := "GET"
			if q.Kind == "head" {
				method = "HEAD"
			} else if strings.Contains(q.Kind, "post") {
				method = "POST"
			}
			minor := 1
			if q.Kind == "get-http10" {
				minor = 0
			}
			resp, n, rej := http1.ParseResponse(raw[pos:], method, minor)
			if rej != nil && rej.Incomplete && resets[i] {
				r.Count("tail_cut_by_reset", 1)
				break
			}
			if rej != nil {
				r.Violation("response-stream-out-of-sync:"+rej.Class+":at:"+q.Kind, fmt.Sprintf("response #%d does not parse at offset %d: %v", answered, pos, rej), w)
				ok = false
				break
			}
			pos += n
			if resp.Status == 100 {
				if !strings.HasSuffix(q.Kind, "expect") {
					r.Violation("unexpected-100-continue:at:"+q.Kind, "interim 100 response for a request without Expect", w)
				}
				continue // interim response, the final one follows
			}
			id := c.rid(answered)
			echo := http1.Get(resp.Fields, "X-Echo-Id")
			switch {
			case len(echo) == 1 && echo[0] == id:
			case len(echo) == 1 && strings.HasPrefix(echo[0], "decoy"):
				r.Violation("decoy-answered:at:"+q.Kind, fmt.Sprintf("response #%d answers a decoy request carried in a body (%s)", answered, echo[0]), w)
				ok = false
			case len(echo) == 1:
				r.Violation("response-order:at:"+q.Kind, fmt.Sprintf("response #%d carries id %s, want %s", answered, echo[0], id), w)
				ok = false
			default:
				// bfe's own error reply (400/413/414/500...) carries no echo: acceptable for this request
				r.Count("bfe_generated_reply_"+strconv.Itoa(resp.Status), 1)
			}
			if !ok {
				break
			}
			answered++
			if c28Terminal(q.Kind) && pos < len(raw) {
				r.Violation("response-after-connection-ending-request:"+q.Kind, fmt.Sprintf("%d bytes follow the response to a %s request", len(raw)-pos, q.Kind), w)
				ok = false
				break
			}
			if resp.CloseDelimited {
				break
			}
		}
		for j := range c.Reqs {
			if decoyAtBackend[c.rid(j)] {
				r.Violation("decoy-reached-backend:body-of:"+c.Reqs[j].Kind, "bytes of a request body were forwarded to a backend as a request", w)
			}
			if arrivals[c.rid(j)] > 1 {
				r.Violation("request-forwarded-twice:"+c.Reqs[j].Kind, fmt.Sprintf("request %s reached the backend %d times", c.rid(j), arrivals[c.rid(j)]), w)
			}
		}
		terminalMid := false
		for j, q := range c.Reqs[:len(c.Reqs)-1] {
			_ = j
			if c28Terminal(q.Kind) {
				terminalMid = true
			}
		}
		r.CaseS(key, answered >= 2 || terminalMid)
		r.Count("responses_parsed", int64(answered))
		if answered == len(c.Reqs) {
			r.Count("connections_fully_answered", 1)
		} else {
			r.Count("connections_closed_early", 1)
		}
		if r.WantSample() && i%211 == 0 && ok {
			r.Sample(map[string]interface{}{"kinds": kinds, "answered": answered})
		}
	}
	for k, v := range e2e_panics(srv) {
		if v != 0 {
			r.Violation("panic-counter:"+k, fmt.Sprintf("%s=%d", k, v), nil)
		}
	}
	if r.Replay == "" && r.Counter("connections_fully_answered") == 0 {
		r.Inconclusive("no pipelined connection was answered completely")
	}
}
