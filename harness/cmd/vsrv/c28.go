package main

import (
	"bytes"
	"fmt"
	"io"
	"net"
	"os"
	"strconv"
	"strings"
	"sync"
	"sync/atomic"
	"time"

	"github.com/bfenetworks/bfe/bfe_basic"
	"github.com/bfenetworks/bfe/bfe_http"
	"github.com/bfenetworks/bfe/bfe_module"

	"verifharness/e2e"
	"verifharness/ref/http1"
	"verifharness/vkit"
)

// C28: on one HTTP/1.x connection carrying any sequence of pipelined requests
// (bodies, Expect: 100-continue, HEAD, errors, oversized headers) BFE answers
// the requests in order with at most one final response each, never interprets
// body bytes as a new request, and closes the connection when it cannot tell
// where the next request starts.

type c28Req struct {
	Kind  string `json:"kind"`
	Blen  int    `json:"blen"`
	Chunk int    `json:"chunk,omitempty"` // chunk size of a chunked body (0 = 1000)
	Tail  string `json:"tail,omitempty"`  // chunk-defect family (c28chunk.go): decoy | next | fin
}

type c28Case struct {
	ID     int      `json:"id"`
	Reqs   []c28Req `json:"reqs"`
	Splits []int    `json:"splits"`        // write sizes; empty = one segment
	Fam    string   `json:"fam,omitempty"` // "" = original family, "bodied" = bodies on methods that usually have none
	Seq    bool     `json:"seq,omitempty"` // keep-alive: request i+1 is written only after the final response to request i arrived (false = pipelined)
	Fin    bool     `json:"fin,omitempty"` // the client half-closes (FIN) after the last octet and goes on reading
}

var c28Kinds = []string{
	"get", "head", "post-cl", "post-chunked", "post-expect",
	"mod-get",                  // module answers, no body
	"mod-post-cl",              // module answers, body never read by a handler
	"mod-post-chunked",         // same, chunked
	"mod-post-expect",          // module answers a request that expected 100-continue
	"get-http10",               // HTTP/1.0 without keep-alive: connection ends after it
	"big-header",               // header section above MaxHeaderBytes
	"bad-request-line",         // unparsable request line
	"post-cl-conn-close",       // Connection: close
	"mod-post-chunked-badsize", // module answers; the unread chunked body has a malformed chunk-size line
	"post-chunked-badsize",     // forwarded; the chunked body has a malformed chunk-size line
}

// decoy is what request bodies are made of: if body bytes are ever parsed as a
// request, a /decoy request shows up at the backend or in the response stream.
func c28Unit(id string) []byte {
	return []byte(fmt.Sprintf("GET /decoy/%s HTTP/1.1\r\nHost: c28.test\r\nX-Id: decoy-%s\r\n\r\n", id, id))
}

func c28Body(id string, n int) []byte {
	unit := c28Unit(id)
	var b bytes.Buffer
	for b.Len() < n {
		b.Write(unit)
	}
	return b.Bytes()[:n]
}

func (c *c28Case) rid(i int) string { return fmt.Sprintf("c%dr%d", c.ID, i) }

func (c *c28Case) bytes() []byte {
	var out bytes.Buffer
	for i := range c.Reqs {
		out.Write(c.reqBytes(i))
	}
	return out.Bytes()
}

// Bodies on methods that usually have none ("bodied" family). Kind = [mod-]<method>-body-<cl|chunked>.
var c28BodiedMethods = []string{"head", "get", "delete", "options", "trace", "frob"} // frob: a method bfe does not know

// c28Bodied splits a bodied kind into its parts; ok is false for every other kind.
func c28Bodied(kind string) (method, framing string, mod, ok bool) {
	k := strings.TrimPrefix(kind, "mod-")
	i := strings.Index(k, "-body-")
	if i < 0 {
		return "", "", false, false
	}
	return k[:i], k[i+6:], k != kind, true
}

// c28Method is the request method of a kind (what the response parser needs to know: HEAD or not).
func c28Method(kind string) string {
	if m, _, _, ok := c28Bodied(kind); ok {
		return strings.ToUpper(m)
	}
	switch {
	case kind == "head":
		return "HEAD"
	case strings.Contains(kind, "post"):
		return "POST"
	}
	return "GET"
}

// c28WellFormed: the request of this kind is a syntactically valid HTTP/1.1 request with an
// unambiguous, correctly delimited body. bfe has no reason to answer it with "400 Bad Request".
func c28WellFormed(kind string) bool {
	switch kind {
	case "big-header", "bad-request-line", "mod-post-chunked-badsize", "post-chunked-badsize":
		return false
	}
	return !c28IsDefect(kind)
}

func c28WriteChunked(out *bytes.Buffer, body []byte, k int) {
	if k <= 0 {
		k = 1000
	}
	rest := body
	for len(rest) > 0 {
		n := k
		if n > len(rest) {
			n = len(rest)
		}
		fmt.Fprintf(out, "%x\r\n", n)
		out.Write(rest[:n])
		out.WriteString("\r\n")
		rest = rest[n:]
	}
	out.WriteString("0\r\n\r\n")
}

// reqBytes renders request i of the case.
func (c *c28Case) reqBytes(i int) []byte {
	var out bytes.Buffer
	q := c.Reqs[i]
	if c28IsDefect(q.Kind) {
		return c.defectReqBytes(i)
	}
	id := c.rid(i)
	body := c28Body(id, q.Blen)
	last := i == len(c.Reqs)-1
	closeHdr := ""
	if last {
		closeHdr = "Connection: close\r\n"
	}
	mod := ""
	if strings.HasPrefix(q.Kind, "mod-") {
		mod = "X-Mod: 1\r\n"
	}
	head := func(method, version string) {
		fmt.Fprintf(&out, "%s /c28/%s %s\r\nHost: %s\r\nX-Id: %s\r\n%s%s", method, id, version, c28Host(q.Kind), id, mod, closeHdr)
	}
	if m, framing, _, ok := c28Bodied(q.Kind); ok {
		head(strings.ToUpper(m), "HTTP/1.1")
		if framing == "cl" {
			fmt.Fprintf(&out, "Content-Length: %d\r\n\r\n", len(body))
			out.Write(body)
		} else {
			out.WriteString("Transfer-Encoding: chunked\r\n\r\n")
			c28WriteChunked(&out, body, q.Chunk)
		}
		return out.Bytes()
	}
	switch q.Kind {
	case "get", "mod-get":
		head("GET", "HTTP/1.1")
		out.WriteString("\r\n")
	case "head":
		head("HEAD", "HTTP/1.1")
		out.WriteString("\r\n")
	case "get-http10":
		head("GET", "HTTP/1.0")
		out.WriteString("\r\n")
	case "post-cl", "mod-post-cl", "early-post-cl":
		head("POST", "HTTP/1.1")
		fmt.Fprintf(&out, "Content-Length: %d\r\n\r\n", len(body))
		out.Write(body)
	case "post-cl-conn-close":
		head("POST", "HTTP/1.1")
		fmt.Fprintf(&out, "Connection: close\r\nContent-Length: %d\r\n\r\n", len(body))
		out.Write(body)
	case "post-chunked", "mod-post-chunked", "early-post-chunked":
		head("POST", "HTTP/1.1")
		out.WriteString("Transfer-Encoding: chunked\r\n\r\n")
		c28WriteChunked(&out, body, q.Chunk)
	case "mod-post-chunked-badsize", "post-chunked-badsize":
		head("POST", "HTTP/1.1")
		out.WriteString("Transfer-Encoding: chunked\r\n\r\n5\r\nhello\r\nZZ\r\n")
		out.Write(c28Body(id, 300)) // what follows the bad line looks like requests
	case "post-expect", "mod-post-expect":
		head("POST", "HTTP/1.1")
		fmt.Fprintf(&out, "Expect: 100-continue\r\nContent-Length: %d\r\n\r\n", len(body))
		out.Write(body)
	case "big-header":
		head("GET", "HTTP/1.1")
		fmt.Fprintf(&out, "X-Big: %s\r\n\r\n", strings.Repeat("h", 20000))
	case "bad-request-line":
		fmt.Fprintf(&out, "GET/c28/%s\r\nHost: c28.test\r\n\r\n", id)
	}
	return out.Bytes()
}

// desync reports whether after request kind k bfe cannot (or need not) continue on the connection.
func c28Terminal(k string) bool {
	switch k {
	case "get-http10", "big-header", "bad-request-line", "post-cl-conn-close", "mod-post-chunked-badsize", "post-chunked-badsize":
		return true
	}
	return c28IsDefect(k)
}

func c28Gen(g *vkit.Rand, id int) *c28Case {
	c := &c28Case{ID: id}
	n := g.Range(2, 6)
	for i := 0; i < n; i++ {
		k := c28Kinds[g.Intn(len(c28Kinds))]
		if c28Terminal(k) && g.Chance(1, 2) {
			k = "get" // keep terminal kinds rarer so that sequences go on
		}
		q := c28Req{Kind: k}
		if strings.Contains(k, "post") && !strings.HasSuffix(k, "badsize") {
			q.Blen = []int{1, 90, 700, 4096, 65536, 300000, 1100000}[g.Intn(g.Range(5, 7))]
		}
		c.Reqs = append(c.Reqs, q)
	}
	if g.Chance(1, 2) {
		for i := 0; i < 8; i++ {
			c.Splits = append(c.Splits, g.Range(1, 3000))
		}
	}
	return c
}

// c28UnitLen is the length of one decoy request for request id.
func c28UnitLen(id string) int { return len(c28Unit(id)) }

var c28Fillers = []string{"get", "head", "post-cl", "post-chunked", "mod-get", "mod-post-cl"}

// c28GenBodied: 2-5 requests on one connection, at least one of them (never only the last, which
// carries Connection: close) with a declared body on a method that usually has none; the body is
// a whole number of well-formed decoy requests (or, less often, cut at an arbitrary length).
func c28GenBodied(g *vkit.Rand, id int) *c28Case {
	c := &c28Case{ID: id, Fam: "bodied"}
	n := g.Range(2, 5)
	must := g.Intn(n - 1)
	for i := 0; i < n; i++ {
		if i != must && g.Chance(1, 2) {
			q := c28Req{Kind: c28Fillers[g.Intn(len(c28Fillers))]}
			if strings.Contains(q.Kind, "post") {
				q.Blen = []int{1, 90, 700, 4096}[g.Intn(4)]
			}
			c.Reqs = append(c.Reqs, q)
			continue
		}
		m := c28BodiedMethods[g.Intn(len(c28BodiedMethods))]
		framing := []string{"cl", "chunked"}[g.Intn(2)]
		q := c28Req{Kind: m + "-body-" + framing}
		if g.Chance(1, 4) {
			q.Kind = "mod-" + q.Kind
		}
		if g.Chance(3, 4) {
			q.Blen = []int{1, 1, 2, 15, 1000}[g.Intn(5)] * c28UnitLen(c.rid(i))
		} else {
			q.Blen = []int{1, 90, 700, 4096}[g.Intn(4)]
		}
		if framing == "chunked" {
			switch g.Intn(3) {
			case 0:
				q.Chunk = q.Blen // the whole body in one chunk
			case 1:
				if q.Blen <= 5000 {
					q.Chunk = 7
				}
			}
		}
		c.Reqs = append(c.Reqs, q)
	}
	c.Seq = g.Bool()
	if g.Chance(1, 2) {
		for i := 0; i < 8; i++ {
			c.Splits = append(c.Splits, g.Range(1, 3000))
		}
	}
	return c
}

// Client-side time limits. Every read and write on a C28 connection carries a deadline, so a
// connection that bfe leaves open cannot hold the run: the exchange is abandoned and judged.
const (
	c28Grace      = 10 * time.Second       // silence (nothing received, nothing left to send) after which an open connection is abandoned; well below bfe's 30 s idle timeout
	c28WriteStall = 15 * time.Second       // one write of <= c28WriteChunk octets makes no progress for this long: bfe stopped reading
	c28WriteChunk = 256 << 10              // octets per Write call, so that c28WriteStall measures progress and not the size of a segment
	c28Cap        = 60 * time.Second       // whole exchange
	c28ReadSlice  = 250 * time.Millisecond // read deadline granularity
	c28HangBudget = 48                     // abandoned connections after which the remaining cases are not run (two waves of the 24 workers)
)

type c28Result struct {
	raw          []byte
	eof          bool   // bfe ended the connection (FIN or reset)
	reset        bool   // ... by reset / with an error other than a timeout
	hung         string // "" | "silent" | "cap": abandoned by the client with the connection still open
	writeStalled bool   // a write hit c28WriteStall
	dialFailed   bool
	notRun       bool
	seqGaveUp    bool // keep-alive mode: the response awaited before the next request did not arrive within c28Grace; the rest was written anyway
}

// c28Exchange writes the case on a new connection while reading concurrently, until bfe ends the
// connection or the limits above say it will not.
func c28Exchange(addr string, c *c28Case) (res c28Result) {
	conn, err := net.DialTimeout("tcp", addr, 10*time.Second)
	if err != nil {
		res.dialFailed = true
		return
	}
	defer conn.Close()
	start := time.Now()
	var lastRx, writerDone atomic.Int64 // unix nanoseconds; writerDone == 0 while there is still something to send
	var rd c28Result                    // owned by the reader until done is closed (rd.raw: guarded by rawMu, the keep-alive writer peeks at it)
	var rawMu sync.Mutex
	done := make(chan struct{})
	go func() { // reader runs concurrently: responses may arrive while we still write
		defer close(done)
		buf := make([]byte, 64<<10)
		for {
			conn.SetReadDeadline(time.Now().Add(c28ReadSlice))
			n, err := conn.Read(buf)
			if n > 0 {
				rawMu.Lock()
				rd.raw = append(rd.raw, buf[:n]...)
				rawMu.Unlock()
				lastRx.Store(time.Now().UnixNano())
			}
			if err == nil {
				continue
			}
			if err == io.EOF {
				rd.eof = true
				return
			}
			if ne, ok := err.(net.Error); !ok || !ne.Timeout() {
				// connection reset: bfe closed with unread input. What was received is still judged,
				// a cut-off tail is tolerated.
				rd.eof, rd.reset = true, true
				return
			}
			now := time.Now()
			if now.Sub(start) >= c28Cap {
				rd.hung = "cap"
				return
			}
			if wd := writerDone.Load(); wd != 0 {
				since := wd
				if rx := lastRx.Load(); rx > since {
					since = rx
				}
				if now.Sub(time.Unix(0, since)) >= c28Grace {
					rd.hung = "silent"
					return
				}
			}
		}
	}()
	// pipelined: everything is one byte string; keep-alive: one segment per request, request i is
	// written when i final responses have arrived (or the reader ended, or the stream no longer
	// parses, or - never a verdict - nothing arrived for c28Grace).
	segs := [][]byte{c.bytes()}
	if c.Seq {
		segs = segs[:0]
		for i := range c.Reqs {
			segs = append(segs, c.reqBytes(i))
		}
	}
	finals := func() (n int, stop bool) {
		rawMu.Lock()
		snap := append([]byte(nil), rd.raw...)
		rawMu.Unlock()
		pos := 0
		for pos < len(snap) && n < len(c.Reqs) {
			minor := 1
			if c.Reqs[n].Kind == "get-http10" {
				minor = 0
			}
			resp, m, rej := http1.ParseResponse(snap[pos:], c28Method(c.Reqs[n].Kind), minor)
			if rej != nil {
				return n, !rej.Incomplete
			}
			pos += m
			if resp.Status != 100 {
				n++
			}
			if resp.CloseDelimited {
				return n, true
			}
		}
		return n, false
	}
	k := 0
	gating := c.Seq
write:
	for si, data := range segs {
		if gating && si > 0 {
			waitStart := time.Now()
		wait:
			for {
				n, stop := finals()
				if stop {
					gating = false
				}
				if n >= si || stop {
					break
				}
				select {
				case <-done:
					gating = false
					break wait
				case <-time.After(2 * time.Millisecond):
				}
				if time.Since(waitStart) >= c28Grace {
					res.seqGaveUp = true
					gating = false
					break
				}
			}
		}
		for len(data) > 0 {
			n := len(data)
			if len(c.Splits) > 0 {
				n = c.Splits[k%len(c.Splits)]
				k++
				if n > len(data) {
					n = len(data)
				}
			}
			seg := data[:n]
			data = data[n:]
			for len(seg) > 0 {
				if time.Since(start) >= c28Cap {
					break write
				}
				m := len(seg)
				if m > c28WriteChunk {
					m = c28WriteChunk
				}
				conn.SetWriteDeadline(time.Now().Add(c28WriteStall))
				wn, err := conn.Write(seg[:m])
				seg = seg[wn:]
				if err != nil {
					// bfe closed the connection (legitimate after a terminal request), or it stopped reading
					if ne, ok := err.(net.Error); ok && ne.Timeout() {
						res.writeStalled = true
					}
					break write
				}
			}
		}
	}
	if c.Fin {
		if tc, ok := conn.(*net.TCPConn); ok {
			tc.CloseWrite()
		}
	}
	writerDone.Store(time.Now().UnixNano())
	<-done
	stalled, gaveUp := res.writeStalled, res.seqGaveUp
	res = rd
	res.writeStalled, res.seqGaveUp = stalled, gaveUp
	return
}

func c28(r *vkit.Run) {
	r.SetRule("full in-process BFE (MaxHeaderBytes 8192). Family 1: each connection carries 2-6 pipelined requests drawn from 15 kinds (GET, HEAD, POST with Content-Length / chunked / Expect: 100-continue bodies of 1 B..1.1 MB, the same answered by a module response so that no handler reads the body, HTTP/1.0, Connection: close, a 20 KB header, an unparsable request line, chunked bodies with a malformed chunk-size line both forwarded and left unread by a module response), written in one segment or split at random sizes. Family 2 (bodies on methods that usually have none): each connection carries 2-5 requests, at least one of them before the last a HEAD / GET / DELETE / OPTIONS / TRACE / unknown-method (FROB) request that declares a body with Content-Length or chunked coding (chunks of 7 B, 1000 B or the whole body; forwarded, or answered by a module response so that no handler reads it), mixed with ordinary GET / HEAD / POST requests; half of the connections pipelined, half keep-alive (request i+1 written only when the final response to request i has arrived); every generated request of family 2 is accepted in full by the reference request parser. Request bodies consist of well-formed decoy requests (in family 2 mostly a whole number of them: 1, 2, 15 or 1000). The client byte stream is parsed by the strict reference response parser: responses must match requests in order (ids echoed by backend/module), at most one final response each, no decoy ever answered or seen by a backend, no bfe '400 Bad Request' in the place of the response to a well-formed request (bfe writes it only when it fails to parse a request head), no further response on the connection after a forwarded request whose declared body did not arrive at the backend as that request's body (length and content reported by the backend), nothing after a request that ends the connection, and the connection is closed (FIN or reset within 10 s of the last octet, every client read and write carrying a deadline) after a response that ends it: to a request bfe cannot continue after, to a request or with a response carrying Connection: close, or with a close-delimited body. Family 3 (chunk-framing defects, c28chunk.go): each connection carries 0-1 ordinary requests and then ONE chunked POST (three chunks of 3 B..5000 B of decoy-request text) whose framing has one defect, enumerated round-robin over (defect, position, handler, tail): defect = chunk-size line that is not 1*HEXDIG CRLF (non-hex, empty, '+', '0x', leading SP, 17 digits = 2^64+n, bare LF, CR without LF) / chunk data not followed by CRLF ('XX', CR X, X LF, LF only, CR only, nothing, LF CR) / bad last-chunk ('0' LF, '0Z', '0' CR CR LF, '0' CRLF directly followed by a request line) / a trailer line that is no header field (with and without the empty line after it) / the body cut off with a client half-close (in a size line, after its CR, in the data, after the data, after the CR behind it, before the last-chunk, after '0' CRLF, inside the trailer); position = first / middle / last chunk; handler = body forwarded to a backend that reads it all / backend (own cluster, raw early-reply backend) that answers as soon as it has the request head, so that bfe writes the response while the body is still being copied / module response, no handler reads the body; tail = the octets behind the defect continue as valid chunk framing up to a last-chunk followed by two pipelined decoy requests / a valid next request (pipelined, or written when the response has arrived) / FIN. Such a request never says Connection: close itself. Oracle (the same, plus): after the defective request at most one final response, nothing after it on the connection (response-after-connection-ending-request), no decoy answered or at a backend, no request that follows it at a backend (request-after-framing-error-reached-backend), connection closed (connection-not-closed-after:framing-error); the run is inconclusive if a (handler, defect, tail) cell was never observed ending that way (chunk_defect_cells_closed). Non-trivial = family 1: >=2 requests answered or a terminal kind in the middle; family 2: a bodied request and the request after it both answered in order; family 3: everything before the defective request answered in order, at most one response to it, connection closed by bfe; distinct = kind/size/chunk sequence and connection mode")
	bs := e2e.NewBackendSet()
	defer bs.Close()
	be := bs.New("b1", func(x *e2e.Exchange) e2e.Action {
		id := x.Req.Header.Get("X-Id")
		bodyOK := "0"
		if x.BodyErr == nil && bytes.Equal(x.Body, c28Body(id, len(x.Body))) {
			bodyOK = "1" // what arrived as the body is a prefix of the body the client declared and sent for this id
		}
		return e2e.Action{Status: 200, Header: [][2]string{{"X-Echo-Id", id}, {"X-Body-Len", strconv.Itoa(len(x.Body))}, {"X-Body-Ok", bodyOK}}, Body: []byte("backend " + id)}
	})
	earlyBe, earlyCluster := c28EarlyBackend() // chunk-defect family: a backend that replies as soon as it has the request head
	defer earlyBe.Close()
	srv, err := e2e.Start(&e2e.Options{MaxHeaderBytes: 8192, Clusters: []e2e.Cluster{{
		Name: "c28", Hosts: []string{"c28.test"}, MaxIdleConnsPerHost: 0,
		SubClusters: []e2e.SubCluster{{Name: "sub1", Weight: 100, Backends: []e2e.Backend{{Name: "b1", Addr: be.Addr, Port: be.Port, Weight: 10}}}},
	}, earlyCluster}})
	if err != nil {
		r.Inconclusive("server start: " + err.Error())
		return
	}
	defer srv.Close()
	srv.Srv.CallBacks.AddFilter(bfe_module.HandleBeforeLocation, func(req *bfe_basic.Request) (int, *bfe_http.Response) {
		h := req.HttpRequest.Header
		if h.Get("X-Mod") != "1" {
			return bfe_module.BfeHandlerGoOn, nil
		}
		id := h.Get("X-Id")
		body := "module " + id
		res := new(bfe_http.Response)
		res.StatusCode = 403
		res.Header = make(bfe_http.Header)
		res.Header.Set("X-Echo-Id", id)
		res.Header.Set("Content-Length", strconv.Itoa(len(body)))
		res.ContentLength = int64(len(body))
		res.Body = strBody{strings.NewReader(body)}
		req.HttpResponse = res
		return bfe_module.BfeHandlerResponse, res
	})

	var cases []*c28Case
	if r.Replay != "" {
		var w struct {
			Case c28Case `json:"case"`
		}
		if err := r.LoadReplay(&w); err != nil {
			r.Inconclusive(err.Error())
			return
		}
		cases = append(cases, &w.Case)
		r.SetMinDistinct(0)
	} else {
		n := r.N(1500, 60000)
		for i := 0; i < n; i++ {
			cases = append(cases, c28Gen(r.Rng("case", i), i))
		}
		// second family (own generator stream, so the cases above are what they always were)
		nb := r.N(1000, 15000)
		for i := 0; i < nb; i++ {
			cases = append(cases, c28GenBodied(r.Rng("bodied", i), n+i))
		}
		// third family (c28chunk.go): one chunk-framing defect per connection, cells enumerated round-robin
		dcells := c28DefectCells()
		dorder := r.Rng("chunkdefect-order", 0).Perm(len(dcells))
		nd := r.N(2*len(dcells), 30*len(dcells))
		for i := 0; i < nd; i++ {
			cases = append(cases, c28GenDefect(r.Rng("chunkdefect", i), n+nb+i, dcells[dorder[i%len(dcells)]]))
		}
	}
	if only := os.Getenv("VERIF_DEBUG_C28_ONLY"); only != "" && r.Replay == "" { // development aid: run one family alone ("-" = first family)
		var keep []*c28Case
		for _, c := range cases {
			if c.Fam == only || (only == "-" && c.Fam == "") {
				keep = append(keep, c)
			}
		}
		cases = keep
	}
	selfcheckFailed := 0
	for _, c := range cases {
		if c.Fam != "bodied" {
			continue
		}
		// generator self-check against the reference request parser: every request of this family is well-formed
		for i := range c.Reqs {
			b := c.reqBytes(i)
			if _, n, rej := http1.ParseRequest(b); rej != nil || n != len(b) {
				selfcheckFailed++
			}
		}
	}
	if selfcheckFailed > 0 {
		r.Inconclusive(fmt.Sprintf("generator self-check: %d requests of the bodied family are not accepted in full by the reference request parser", selfcheckFailed))
		return
	}
	results := make([]c28Result, len(cases))
	var hungTotal atomic.Int64
	vkit.Parallel(len(cases), 24, func(i int) {
		if hungTotal.Load() >= c28HangBudget {
			// the server keeps leaving connections open: the remaining cases would each cost
			// another c28Grace. They are not run; the run can no longer end as "held".
			results[i].notRun = true
			return
		}
		results[i] = c28Exchange(srv.HTTPAddr, cases[i])
		if results[i].hung != "" {
			hungTotal.Add(1)
		}
	})
	decoyAtBackend := map[string]bool{}
	arrivals := map[string]int{}
	for _, x := range bs.Exchanges() {
		if strings.HasPrefix(x.Req.URL.Path, "/decoy/") {
			decoyAtBackend[strings.TrimPrefix(x.Req.URL.Path, "/decoy/")] = true
		}
		arrivals[x.Req.Header.Get("X-Id")]++
	}
	for _, h := range earlyBe.Heads() {
		if strings.HasPrefix(h.Target, "/decoy/") {
			decoyAtBackend[strings.TrimPrefix(h.Target, "/decoy/")] = true
		}
		arrivals[h.Get("X-Id")]++
	}
	defectCells := map[string]int64{}
	var defectSamples []interface{}
	firstFamSamples := 0
	for i, c := range cases {
		var kinds []string
		for _, q := range c.Reqs {
			k := fmt.Sprintf("%s/%d", q.Kind, q.Blen)
			if q.Chunk != 0 {
				k += fmt.Sprintf("/%d", q.Chunk)
			}
			if q.Tail != "" {
				k += "/" + q.Tail
			}
			kinds = append(kinds, k)
		}
		key := strings.Join(kinds, ",")
		if c.Seq {
			key += "|keep-alive"
		}
		res := &results[i]
		w := map[string]interface{}{"case": c, "kinds": kinds, "client_bytes": clip(string(res.raw), 3000), "eof": res.eof, "hung": res.hung, "write_stalled": res.writeStalled}
		if res.reset {
			r.Count("connections_ended_by_reset", 1)
		}
		if res.notRun || res.dialFailed {
			r.CaseS(key, false)
			if res.notRun {
				r.Count("not_run_after_repeated_hangs", 1)
			} else {
				r.Count("dial_failed", 1)
			}
			continue
		}
		// A connection that was abandoned (res.hung) is judged on what was received, like one
		// that ended by reset: a cut-off tail is tolerated, everything before it is not.
		raw := res.raw
		cut := res.reset || res.hung != ""
		answered := 0
		var statuses []int // status of the final response to request #i
		ok := true
		pos := 0
		lastRespClose, lastCloseDelimited, tailCut := false, false, false
		shortAt := -1 // index of a forwarded request whose body did not arrive at the backend as declared
		shortWhat := ""
		for pos < len(raw) {
			if answered >= len(c.Reqs) {
				r.Violation("more-responses-than-requests:after:"+c.Reqs[len(c.Reqs)-1].Kind, fmt.Sprintf("%d bytes follow the last request's response", len(raw)-pos), w)
				ok = false
				break
			}
			q := c.Reqs[answered]
			method := c28Method(q.Kind)
			minor := 1
			if q.Kind == "get-http10" {
				minor = 0
			}
			resp, n, rej := http1.ParseResponse(raw[pos:], method, minor)
			if rej != nil && rej.Incomplete && cut {
				tailCut = true
				if res.reset {
					r.Count("tail_cut_by_reset", 1)
				}
				break
			}
			if rej != nil {
				r.Violation("response-stream-out-of-sync:"+rej.Class+":at:"+q.Kind, fmt.Sprintf("response #%d does not parse at offset %d: %v", answered, pos, rej), w)
				ok = false
				break
			}
			pos += n
			if resp.Status == 100 {
				if !strings.HasSuffix(q.Kind, "expect") {
					r.Violation("unexpected-100-continue:at:"+q.Kind, "interim 100 response for a request without Expect", w)
				}
				continue // interim response, the final one follows
			}
			id := c.rid(answered)
			echo := http1.Get(resp.Fields, "X-Echo-Id")
			switch {
			case len(echo) == 1 && echo[0] == id:
			case len(echo) == 1 && strings.HasPrefix(echo[0], "decoy"):
				where := "at:" + q.Kind
				for j := range c.Reqs {
					if echo[0] == "decoy-"+c.rid(j) {
						where = "body-of:" + c.Reqs[j].Kind // the request whose body the answered decoy was part of
					}
				}
				r.Violation("decoy-answered:"+where, fmt.Sprintf("response #%d answers a decoy request carried in a body (%s)", answered, echo[0]), w)
				ok = false
			case len(echo) == 1:
				r.Violation("response-order:at:"+q.Kind, fmt.Sprintf("response #%d carries id %s, want %s", answered, echo[0], id), w)
				ok = false
			default:
				// bfe's own error reply (400/413/414/500...) carries no echo: acceptable for this request
				r.Count("bfe_generated_reply_"+strconv.Itoa(resp.Status), 1)
				if c.Fam == "bodied" {
					r.Count("bodied_family_bfe_generated_reply_"+strconv.Itoa(resp.Status), 1)
				}
				if resp.Status == 400 && c28WellFormed(q.Kind) {
					// bfe writes "400 Bad Request" only when it could not parse a request head. The request
					// at this position is well-formed, so what bfe parsed here was something else.
					after := "first-request:" + q.Kind
					if answered > 0 {
						after = "after:" + c.Reqs[answered-1].Kind
					}
					r.Violation("bad-request-reply-to-wellformed-request:"+after, fmt.Sprintf("response #%d is bfe's 400 Bad Request although request #%d (%s) is well-formed: bfe did not find the start of that request", answered, answered, q.Kind), w)
					ok = false
				}
			}
			if !ok {
				break
			}
			if shortAt >= 0 {
				// a further response on the connection: bfe went on reading after a request whose declared
				// body it had not consumed as a body
				r.Violation("declared-body-not-consumed-and-connection-continued:"+c.Reqs[shortAt].Kind, fmt.Sprintf("request #%d (%s): %s; bfe nevertheless went on with the connection (response #%d follows)", shortAt, c.Reqs[shortAt].Kind, shortWhat, answered), w)
				ok = false
				break
			}
			if len(echo) == 1 && !strings.HasSuffix(q.Kind, "badsize") && !c28IsDefect(q.Kind) {
				if bl := http1.Get(resp.Fields, "X-Body-Len"); len(bl) == 1 { // answered by the backend
					bok := http1.Get(resp.Fields, "X-Body-Ok")
					if bl[0] != strconv.Itoa(q.Blen) || len(bok) != 1 || bok[0] != "1" {
						shortAt, shortWhat = answered, fmt.Sprintf("declared and sent a body of %d octets, the backend received %s octets as its body (content as sent: %v)", q.Blen, bl[0], len(bok) == 1 && bok[0] == "1")
					} else if q.Blen > 0 {
						r.Count("bodies_delivered_intact_to_backend", 1)
					}
				}
			}
			answered++
			statuses = append(statuses, resp.Status)
			lastCloseDelimited = resp.CloseDelimited
			lastRespClose = false
			for _, v := range http1.Get(resp.Fields, "Connection") {
				for _, t := range strings.Split(v, ",") {
					if strings.EqualFold(strings.TrimSpace(t), "close") {
						lastRespClose = true
					}
				}
			}
			if c28Terminal(q.Kind) && pos < len(raw) {
				r.Violation("response-after-connection-ending-request:"+q.Kind, fmt.Sprintf("%d bytes follow the response to a %s request", len(raw)-pos, q.Kind), w)
				if c28IsDefect(q.Kind) {
					// say what was answered: a decoy out of the octets behind the framing defect?
					if nx, _, nrej := http1.ParseResponse(raw[pos:], "GET", 1); nrej == nil {
						if e := http1.Get(nx.Fields, "X-Echo-Id"); len(e) == 1 && strings.HasPrefix(e[0], "decoy") {
							r.Violation("decoy-answered:body-of:"+q.Kind, fmt.Sprintf("the response after the one to request #%d answers a decoy request (%s) taken from the octets behind the chunk-framing defect", answered-1, e[0]), w)
						}
					}
				}
				ok = false
				break
			}
			if resp.CloseDelimited {
				break
			}
		}
		if res.hung != "" {
			// Everything was offered to bfe and nothing came back for c28Grace (or the exchange hit
			// c28Cap), yet bfe neither closed nor reset the connection. If the last complete final
			// response ends the connection (the request was one bfe cannot continue after, the
			// request or the response said "Connection: close", or the response body is delimited by
			// the close), the close is owed right after that response: the property is violated.
			// Any other hang gives no verdict for this case only.
			r.Count("connections_abandoned_open:"+res.hung, 1)
			reason := ""
			if ok && !tailCut && answered > 0 {
				switch q := c.Reqs[answered-1]; {
				case c28IsDefect(q.Kind):
					reason = "framing-error"
				case c28Terminal(q.Kind):
					reason = "request-ending-the-connection"
				case answered == len(c.Reqs):
					reason = "connection-close-request"
				case lastCloseDelimited:
					reason = "close-delimited-response"
				case lastRespClose:
					reason = "connection-close-response"
				}
			}
			if reason != "" {
				k := c.Reqs[answered-1].Kind
				r.Violation("connection-not-closed-after:"+reason+":"+k,
					fmt.Sprintf("response #%d (to a %s request) ends the connection (%s), but %v after the last byte bfe has neither closed nor reset the connection (%s)",
						answered-1, k, reason, c28Grace, res.hung), w)
			} else if ok {
				r.Count("hung_without_verdict", 1)
			}
		}
		for j := range c.Reqs {
			if decoyAtBackend[c.rid(j)] {
				r.Violation("decoy-reached-backend:body-of:"+c.Reqs[j].Kind, "bytes of a request body were forwarded to a backend as a request", w)
			}
			if arrivals[c.rid(j)] > 1 {
				r.Violation("request-forwarded-twice:"+c.Reqs[j].Kind, fmt.Sprintf("request %s reached the backend %d times", c.rid(j), arrivals[c.rid(j)]), w)
			}
		}
		if shortAt >= 0 && ok {
			r.Count("backend_body_differs_connection_not_continued", 1) // not judged here: nothing was read after it
		}
		if res.seqGaveUp {
			r.Count("keepalive_wait_expired", 1)
		}
		bodiedInSync := false
		if c.Fam == "bodied" {
			if c.Seq {
				r.Count("bodied_connections_keepalive", 1)
			} else {
				r.Count("bodied_connections_pipelined", 1)
			}
			for j, q := range c.Reqs {
				m, framing, mod, is := c28Bodied(q.Kind)
				if !is {
					continue
				}
				r.Count("bodied_sent:"+m+"-"+framing, 1)
				// "followed": this request and the one after it were both answered in order,
				// i.e. bfe found the next request right after the declared body
				if ok && j+1 < answered {
					bodiedInSync = true
					r.Count("bodied_followed_in_sync:"+m+"-"+framing, 1)
					if mod {
						r.Count("bodied_followed_in_sync_unread_by_handler", 1)
					}
					if c.Seq {
						r.Count("bodied_followed_in_sync_keepalive", 1)
					} else {
						r.Count("bodied_followed_in_sync_pipelined", 1)
					}
				}
			}
		}
		terminalMid := false
		for j, q := range c.Reqs[:len(c.Reqs)-1] {
			_ = j
			if c28Terminal(q.Kind) {
				terminalMid = true
			}
		}
		if c.Fam == "chunkdefect" {
			r.Count("chunkdefect_connections", 1)
			nt := c28DefectAccount(r, c, res, ok, answered, statuses, arrivals, defectCells, w)
			r.CaseS(key, nt)
			if nt && i%53 == 0 && len(defectSamples) < 4 {
				// own evidence key: the sample budget of vkit is used up by the other families
				defectSamples = append(defectSamples, map[string]interface{}{"kinds": kinds, "answered": answered, "statuses": statuses, "keep_alive": c.Seq, "client_fin": c.Fin, "defective_request_bytes": clip(string(c28DefectReqBytes(c)), 400)})
			}
		} else if c.Fam == "bodied" {
			r.CaseS(key, bodiedInSync)
		} else {
			r.CaseS(key, answered >= 2 || terminalMid)
		}
		r.Count("responses_parsed", int64(answered))
		if answered == len(c.Reqs) {
			r.Count("connections_fully_answered", 1)
		} else {
			r.Count("connections_closed_early", 1)
		}
		if ok && ((c.Fam == "" && i%211 == 0 && firstFamSamples < 3) || (c.Fam == "bodied" && bodiedInSync && i%97 == 0)) && r.WantSample() {
			if c.Fam == "" {
				firstFamSamples++ // leave room for samples of the second family
			}
			r.Sample(map[string]interface{}{"kinds": kinds, "answered": answered, "keep_alive": c.Seq})
		}
	}
	for k, v := range e2e_panics(srv) {
		if v != 0 {
			r.Violation("panic-counter:"+k, fmt.Sprintf("%s=%d", k, v), nil)
		}
	}
	if n := r.Counter("not_run_after_repeated_hangs"); n > 0 {
		r.Inconclusive(fmt.Sprintf("bfe left %d connections open until the client abandoned them (%v of silence); the remaining %d cases were not run", hungTotal.Load(), c28Grace, n))
	}
	if r.Replay == "" && r.Counter("not_run_after_repeated_hangs") == 0 {
		for _, m := range c28BodiedMethods {
			for _, f := range []string{"cl", "chunked"} {
				if r.Counter("bodied_followed_in_sync:"+m+"-"+f) == 0 {
					r.Inconclusive("no " + strings.ToUpper(m) + " request with a " + f + " body was answered and followed by an answered request")
				}
			}
		}
		for _, k := range []string{"bodied_followed_in_sync_keepalive", "bodied_followed_in_sync_pipelined", "bodied_followed_in_sync_unread_by_handler"} {
			if r.Counter(k) == 0 {
				r.Inconclusive(k + " = 0")
			}
		}
	}
	if r.Replay == "" && r.Counter("not_run_after_repeated_hangs") == 0 {
		c28DefectCoverage(r, defectCells)
		r.Extra("chunk_defect_samples", defectSamples)
	}
	if r.Replay == "" && r.Counter("connections_fully_answered") == 0 {
		r.Inconclusive("no pipelined connection was answered completely")
	}
}
