package main

import (
	"bytes"
	"crypto/tls"
	"fmt"
	"io"
	"net"
	"os"
	"regexp"
	"strconv"
	"strings"
	"sync"
	"time"

	"golang.org/x/net/http2"
	"golang.org/x/net/http2/hpack"

	"github.com/bfenetworks/bfe/bfe_basic"
	"github.com/bfenetworks/bfe/bfe_http"
	"github.com/bfenetworks/bfe/bfe_module"

	"verifharness/e2e"
	"verifharness/ref/http1"
	"verifharness/vkit"
)

// C25, backend-connection-stream family ("stream"): the statement speaks about THE BYTES bfe
// writes to a backend. With backend keep-alive on, several requests share one backend
// connection, so the unit of observation is the byte stream of a backend CONNECTION, also when
// something fails half-way: a client that goes away in the middle of an upload whose backend
// had already answered (early reply, connection reusable) must not leave a half-written request
// on a connection that bfe uses again.
//
// Workload: c25sClusters clusters with MaxIdleConnsPerHost > 0, one rawBackend each (early
// replies, reads by declared framing, records every octet). One scenario at a time per cluster
// (scenarios of different clusters run in parallel):
//   1. an upload (HTTP/1.1 Content-Length or chunked; HTTP/2 with or without content-length)
//      of which the client sends only a part: nothing of the body / up to the middle of the
//      body / the middle of a chunk / the middle of a chunk-size line / a chunk boundary / or
//      (control) everything;
//   2. the backend replies after the head, after k body octets, or (control) after the message;
//   3. once bfe has the backend's response (HandleReadResponse filter; not a verdict, only
//      sequencing) the client aborts: FIN, half-close, RST (HTTP/1); RST_STREAM, connection
//      close, or just never continuing (HTTP/2);
//   4. 2-3 further requests (GET / POST) from other client connections to the same cluster.
//
// Oracle, per backend connection (c25sJudge): the recorded octets must parse (strict reference
// parser) as a sequence of complete well-formed requests, each carrying exactly one request
// marker in its head and equal (method, target, host, body) to the request a client sent under
// that marker. Only the LAST message of a connection may be incomplete. A request marker inside
// the body span of a message (= the head of another request lies in a body) is a violation.

const c25sClusters = 16

type c25sFollow struct {
	ID      string `json:"id"`
	Method  string `json:"method"`
	Blen    int    `json:"blen,omitempty"`
	DelayMs int    `json:"delay_ms"`
}

type c25sCase struct {
	N        int          `json:"n"`
	ID       string       `json:"id"`
	Cluster  int          `json:"cluster"`
	Frontend string       `json:"frontend"` // h1 | h2
	Framing  string       `json:"framing"`  // cl | chunked (h1) ; cl | nolen (h2: no content-length, chunked towards the backend)
	Blen     int          `json:"blen"`     // length of the body the client declares / would send
	Csz      int          `json:"csz,omitempty"`
	Stage    string       `json:"stage"` // before-body | mid-body | mid-chunk-size | mid-chunk-data | chunk-boundary | complete
	Cut      int          `json:"cut"`   // octets of the body (as on the client wire) sent before the abort / the pause
	Abort    string       `json:"abort"` // fin | half-close | rst | rst-stream | conn-close | late | none
	Early    string       `json:"early"` // head | after-k | full
	K        int          `json:"k,omitempty"`
	RespBody int          `json:"resp_body"`
	Follow   []c25sFollow `json:"follow"`
}

// c25sBody is the body a client declares under id: self-describing, free of request markers.
func c25sBody(id string, n int) []byte {
	var b bytes.Buffer
	for i := 0; b.Len() < n; i++ {
		fmt.Fprintf(&b, "[%s#%d]", id, i)
	}
	return b.Bytes()[:n]
}

func c25sHost(cluster int) string { return fmt.Sprintf("c25s%d.test", cluster) }

type c25sCell struct{ fe, framing, stage, abort, early string }

// c25sCells enumerates (frontend, framing, stage, abort, early).
func c25sCells() []c25sCell {
	var out []c25sCell
	for _, early := range []string{"head", "after-k", "full"} {
		add := func(fe, framing string, stages, aborts []string) {
			for _, st := range stages {
				for _, ab := range aborts {
					out = append(out, c25sCell{fe, framing, st, ab, early})
				}
			}
			out = append(out, c25sCell{fe, framing, "complete", "none", early})
		}
		add("h1", "cl", []string{"before-body", "mid-body"}, []string{"fin", "half-close", "rst"})
		add("h1", "chunked", []string{"before-body", "mid-chunk-size", "mid-chunk-data", "chunk-boundary"}, []string{"fin", "half-close", "rst"})
		add("h2", "cl", []string{"before-body", "mid-body"}, []string{"rst-stream", "conn-close", "late"})
		add("h2", "nolen", []string{"before-body", "mid-body"}, []string{"rst-stream", "conn-close", "late"})
	}
	return out
}

// c25sChunkedWire renders body as chunks of csz octets and returns the wire bytes and, per
// chunk, the offsets of its size line, its data and the end of its CRLF.
func c25sChunkedWire(body []byte, csz int) (wire []byte, marks [][3]int) {
	var w bytes.Buffer
	for len(body) > 0 {
		n := csz
		if n > len(body) {
			n = len(body)
		}
		s := w.Len()
		fmt.Fprintf(&w, "%x\r\n", n)
		d := w.Len()
		w.Write(body[:n])
		w.WriteString("\r\n")
		marks = append(marks, [3]int{s, d, w.Len()})
		body = body[n:]
	}
	w.WriteString("0\r\n\r\n")
	return w.Bytes(), marks
}

func c25sGen(g *vkit.Rand, n int, cell c25sCell) *c25sCase {
	c := &c25sCase{N: n, ID: fmt.Sprintf("s%duz", n), Cluster: n % c25sClusters, Frontend: cell.fe, Framing: cell.framing,
		Stage: cell.stage, Abort: cell.abort, Early: cell.early}
	large := g.Bool() || cell.early == "after-k"
	if large {
		c.Blen = g.Range(4000, 20000)
		c.Csz = g.Range(1200, 2500)
	} else {
		c.Blen = g.Range(10, 300)
		c.Csz = g.Range(4, 64)
	}
	if c.Csz >= c.Blen {
		c.Csz = c.Blen/2 + 1
	}
	if g.Bool() {
		c.RespBody = g.Range(1, 200)
	}
	wireLen := c.Blen
	var marks [][3]int
	if c.Frontend == "h1" && c.Framing == "chunked" {
		var w []byte
		w, marks = c25sChunkedWire(c25sBody(c.ID, c.Blen), c.Csz)
		wireLen = len(w)
	}
	lo := 1
	if large {
		lo = 1800 // so that an "after-k" reply threshold is reached although bfe buffers up to 512 octets
	}
	switch c.Stage {
	case "before-body":
		c.Cut = 0
	case "mid-body":
		c.Cut = g.Range(lo, c.Blen-1)
	case "complete":
		// the client pauses at Cut (until bfe has the early reply), then sends the rest
		c.Cut = g.Range(lo, wireLen-1)
	default:
		j := g.Range(1, len(marks)-1) // a chunk after the first one (there are always >= 2 chunks)
		if large {
			for marks[j][0] < lo && j < len(marks)-1 {
				j++
			}
		}
		switch c.Stage {
		case "mid-chunk-size":
			c.Cut = marks[j][0] + 1
		case "mid-chunk-data":
			for marks[j][2]-2-marks[j][1] < 2 && j > 0 {
				j-- // a chunk with at least two data octets
			}
			c.Cut = g.Range(marks[j][1]+1, marks[j][2]-3)
		case "chunk-boundary":
			c.Cut = marks[j][0]
		}
	}
	if c.Early == "after-k" {
		hi := c.Cut - 700 // data octets surely written through to the backend by then (chunk framing and bfe's 512 octet buffer deducted)
		if hi < 1 {
			c.Early, c.K = "head", 0 // nothing of the body is sent: the earliest reply is the one after the head
		} else {
			c.K = g.Range(1, hi)
		}
	}
	nf := g.Range(2, 3)
	for k := 0; k < nf; k++ {
		f := c25sFollow{ID: fmt.Sprintf("s%df%dz", n, k), Method: "GET", DelayMs: []int{0, 15, 60}[k]}
		if g.Chance(1, 3) {
			f.Method = "POST"
			f.Blen = g.Range(1, 900)
		}
		c.Follow = append(c.Follow, f)
	}
	return c
}

// c25sSpec is what a client sent (and bfe accepted) under one request marker.
type c25sSpec struct {
	Case   *c25sCase
	Upload bool
	Method string
	Target string
	Host   string
	Body   []byte
	Sent   bool // the client delivered the whole body
}

func (c *c25sCase) specs(m map[string]*c25sSpec) {
	host := c25sHost(c.Cluster)
	m[c.ID] = &c25sSpec{Case: c, Upload: true, Method: "POST", Target: "/c25s/" + c.ID, Host: host, Body: c25sBody(c.ID, c.Blen), Sent: c.Stage == "complete"}
	for _, f := range c.Follow {
		m[f.ID] = &c25sSpec{Case: c, Method: f.Method, Target: "/c25s/" + f.ID, Host: host, Body: c25sBody(f.ID, f.Blen), Sent: true}
	}
}

// ---------------------------------------------------------------- backend script

func c25sPlan(h *rawHead) rawPlan {
	id := h.Get("X-Id")
	p := rawPlan{ReplyAfter: -1}
	nbody := 0
	if e := h.Get("X-Early"); e != "" {
		parts := strings.Split(e, ":")
		if len(parts) == 3 {
			switch parts[0] {
			case "head":
				p.ReplyAfter = 0
			case "after-k":
				p.ReplyAfter, _ = strconv.Atoi(parts[1])
			}
			nbody, _ = strconv.Atoi(parts[2])
		}
	}
	p.Resp = []byte(fmt.Sprintf("HTTP/1.1 200 OK\r\nX-Echo-Id: %s\r\nContent-Length: %d\r\n\r\n%s", id, nbody, strings.Repeat("r", nbody)))
	return p
}

// ---------------------------------------------------------------- signals (sequencing only)

type c25sSignals struct {
	mu sync.Mutex
	m  map[string]chan struct{}
}

func (s *c25sSignals) ch(id string) chan struct{} {
	s.mu.Lock()
	defer s.mu.Unlock()
	c, ok := s.m[id]
	if !ok {
		c = make(chan struct{})
		s.m[id] = c
	}
	return c
}

func (s *c25sSignals) fire(id string) {
	c := s.ch(id)
	s.mu.Lock()
	defer s.mu.Unlock()
	select {
	case <-c:
	default:
		close(c)
	}
}

func (s *c25sSignals) wait(id string, d time.Duration) bool {
	select {
	case <-s.ch(id):
		return true
	case <-time.After(d):
		return false
	}
}

// ---------------------------------------------------------------- clients

type c25sObs struct {
	EarlySeen bool     `json:"early_seen"` // bfe had the backend's response before the client aborted / went on
	Upload    string   `json:"upload"`     // what the uploading client saw
	Follow    []string `json:"follow"`
}

func (c *c25sCase) earlyHeader() string { return fmt.Sprintf("%s:%d:%d", c.Early, c.K, c.RespBody) }

// status3 extracts the status code of the first response in raw.
func status3(raw []byte) string {
	if len(raw) >= 12 && bytes.HasPrefix(raw, []byte("HTTP/1.")) {
		return string(raw[9:12])
	}
	if len(raw) == 0 {
		return "none"
	}
	return "garbled"
}

func readAll(c net.Conn, d time.Duration) []byte {
	c.SetReadDeadline(time.Now().Add(d))
	b, _ := io.ReadAll(c)
	return b
}

func (c *c25sCase) runH1(srv *e2e.Server, sg *c25sSignals, obs *c25sObs) (finish func()) {
	finish = func() {}
	conn, err := net.DialTimeout("tcp", srv.HTTPAddr, 5*time.Second)
	if err != nil {
		obs.Upload = "dial"
		return
	}
	var head bytes.Buffer
	fmt.Fprintf(&head, "POST /c25s/%s HTTP/1.1\r\nHost: %s\r\nX-Id: %s\r\nX-Early: %s\r\n", c.ID, c25sHost(c.Cluster), c.ID, c.earlyHeader())
	wire := c25sBody(c.ID, c.Blen)
	if c.Framing == "chunked" {
		head.WriteString("Transfer-Encoding: chunked\r\n\r\n")
		wire, _ = c25sChunkedWire(wire, c.Csz)
	} else {
		fmt.Fprintf(&head, "Content-Length: %d\r\n\r\n", c.Blen)
	}
	conn.SetWriteDeadline(time.Now().Add(10 * time.Second))
	conn.Write(append(head.Bytes(), wire[:c.Cut]...))
	if c.Early != "full" {
		obs.EarlySeen = sg.wait(c.ID, 3*time.Second)
	} else {
		time.Sleep(10 * time.Millisecond)
	}
	switch c.Abort {
	case "none":
		conn.Write(wire[c.Cut:])
		obs.Upload = status3(readFirstResponse(conn, 10*time.Second))
		conn.Close()
	case "fin":
		conn.Close()
		obs.Upload = "closed"
	case "rst":
		conn.(*net.TCPConn).SetLinger(0)
		conn.Close()
		obs.Upload = "reset"
	case "half-close":
		conn.(*net.TCPConn).CloseWrite()
		obs.Upload = status3(readAll(conn, 5*time.Second))
		conn.Close()
	}
	return
}

// readFirstResponse reads until one complete response is there (or the deadline / EOF).
func readFirstResponse(c net.Conn, d time.Duration) []byte {
	c.SetReadDeadline(time.Now().Add(d))
	var raw []byte
	buf := make([]byte, 16<<10)
	for {
		n, err := c.Read(buf)
		raw = append(raw, buf[:n]...)
		if _, _, rej := http1.ParseResponse(raw, "POST", 1); rej == nil || !rej.Incomplete {
			return raw
		}
		if err != nil {
			return raw
		}
	}
}

func (c *c25sCase) runH2(srv *e2e.Server, sg *c25sSignals, obs *c25sObs) (finish func()) {
	finish = func() {}
	d := &net.Dialer{Timeout: 10 * time.Second}
	tc, err := tls.DialWithDialer(d, "tcp", srv.HTTPSAddr, &tls.Config{InsecureSkipVerify: true, NextProtos: []string{"h2"}, MaxVersion: tls.VersionTLS12})
	if err != nil {
		obs.Upload = "dial"
		return
	}
	if tc.ConnectionState().NegotiatedProtocol != "h2" {
		obs.Upload = "alpn"
		tc.Close()
		return
	}
	tc.SetDeadline(time.Now().Add(30 * time.Second))
	io.WriteString(tc, http2.ClientPreface)
	fr := http2.NewFramer(tc, tc)
	fr.WriteSettings()
	var hb bytes.Buffer
	enc := hpack.NewEncoder(&hb)
	fields := []e2e.HF{{Name: ":method", Value: "POST"}, {Name: ":scheme", Value: "https"}, {Name: ":authority", Value: c25sHost(c.Cluster)},
		{Name: ":path", Value: "/c25s/" + c.ID}, {Name: "x-id", Value: c.ID}, {Name: "x-early", Value: c.earlyHeader()}}
	if c.Framing == "cl" {
		fields = append(fields, e2e.HF{Name: "content-length", Value: strconv.Itoa(c.Blen)})
	}
	for _, f := range fields {
		enc.WriteField(hpack.HeaderField{Name: f.Name, Value: f.Value})
	}
	fr.WriteHeaders(http2.HeadersFrameParam{StreamID: 1, BlockFragment: hb.Bytes(), EndHeaders: true})
	body := c25sBody(c.ID, c.Blen)
	writeData := func(p []byte, end bool) {
		for len(p) > 8000 {
			fr.WriteData(1, false, p[:8000])
			p = p[8000:]
		}
		if len(p) > 0 || end {
			fr.WriteData(1, end, p)
		}
	}
	writeData(body[:c.Cut], false)
	// reader: answers SETTINGS / PING, notes the response status and the end of stream 1
	var mu sync.Mutex
	status := ""
	ended := make(chan struct{})
	go func() {
		defer close(ended)
		dec := hpack.NewDecoder(4096, func(f hpack.HeaderField) {
			if f.Name == ":status" {
				mu.Lock()
				status = f.Value
				mu.Unlock()
			}
		})
		for {
			f, err := fr.ReadFrame()
			if err != nil {
				return
			}
			switch f := f.(type) {
			case *http2.SettingsFrame:
				if !f.IsAck() {
					mu.Lock()
					fr.WriteSettingsAck()
					mu.Unlock()
				}
			case *http2.PingFrame:
				if !f.IsAck() {
					mu.Lock()
					fr.WritePing(true, f.Data)
					mu.Unlock()
				}
			case *http2.HeadersFrame:
				dec.Write(f.HeaderBlockFragment())
				if f.StreamEnded() {
					return
				}
			case *http2.ContinuationFrame:
				dec.Write(f.HeaderBlockFragment())
			case *http2.DataFrame:
				if f.StreamEnded() {
					return
				}
			case *http2.RSTStreamFrame:
				mu.Lock()
				if status == "" {
					status = "rst"
				}
				mu.Unlock()
				return
			case *http2.GoAwayFrame:
				mu.Lock()
				if status == "" {
					status = "goaway"
				}
				mu.Unlock()
				return
			}
		}
	}()
	if c.Early != "full" {
		obs.EarlySeen = sg.wait(c.ID, 3*time.Second)
	} else {
		time.Sleep(10 * time.Millisecond)
	}
	get := func() string {
		mu.Lock()
		defer mu.Unlock()
		if status == "" {
			return "none"
		}
		return status
	}
	switch c.Abort {
	case "none":
		mu.Lock()
		writeData(body[c.Cut:], true)
		mu.Unlock()
		select {
		case <-ended:
		case <-time.After(10 * time.Second):
		}
		obs.Upload = get()
		tc.Close()
	case "rst-stream":
		mu.Lock()
		fr.WriteRSTStream(1, http2.ErrCodeCancel)
		mu.Unlock()
		obs.Upload = "rst-stream-sent"
		finish = func() { tc.Close() }
	case "conn-close":
		tc.Close()
		obs.Upload = "closed"
	case "late":
		// never continues; the connection stays open until the further requests are done
		finish = func() {
			obs.Upload = "late:" + get()
			tc.Close()
		}
	}
	return
}

func (c *c25sCase) follow(srv *e2e.Server, f c25sFollow) string {
	var b bytes.Buffer
	fmt.Fprintf(&b, "%s /c25s/%s HTTP/1.1\r\nHost: %s\r\nX-Id: %s\r\nConnection: close\r\n", f.Method, f.ID, c25sHost(c.Cluster), f.ID)
	if f.Method == "POST" {
		fmt.Fprintf(&b, "Content-Length: %d\r\n", f.Blen)
	}
	b.WriteString("\r\n")
	if f.Method == "POST" {
		b.Write(c25sBody(f.ID, f.Blen))
	}
	conn, err := net.DialTimeout("tcp", srv.HTTPAddr, 5*time.Second)
	if err != nil {
		return "dial"
	}
	defer conn.Close()
	conn.SetWriteDeadline(time.Now().Add(10 * time.Second))
	conn.Write(b.Bytes())
	return status3(readAll(conn, 15*time.Second))
}

func (c *c25sCase) run(srv *e2e.Server, sg *c25sSignals) (obs c25sObs) {
	var finish func()
	if c.Frontend == "h2" {
		finish = c.runH2(srv, sg, &obs)
	} else {
		finish = c.runH1(srv, sg, &obs)
	}
	for _, f := range c.Follow {
		if f.DelayMs > 0 {
			time.Sleep(time.Duration(f.DelayMs) * time.Millisecond)
		}
		obs.Follow = append(obs.Follow, c.follow(srv, f))
	}
	finish()
	return
}

// ---------------------------------------------------------------- oracle

var c25sLineRe = regexp.MustCompile(`(?:GET|POST) /c25s/(s[0-9]+(?:u|f[0-9]+)z) HTTP/1\.1\r\n`)
var c25sMarkerRe = regexp.MustCompile(`(?i)\r\nx-id:[ \t]*(s[0-9]+(?:u|f[0-9]+)z)[ \t]*\r\n`)

type c25sFinding struct {
	Sig, What string
	ID        string // request marker of the message the finding is about ("" = none)
}

type c25sMsg struct {
	Start, HeadEnd, End int
	ID                  string
	Complete            bool
}

type c25sVerdict struct {
	Msgs      []c25sMsg
	Findings  []c25sFinding
	Truncated bool // the last message is incomplete
}

// c25sJudge is the per-connection oracle; a pure function of the recorded octets and of what
// the clients sent under each marker.
func c25sJudge(raw []byte, specs map[string]*c25sSpec) (v c25sVerdict) {
	add := func(sig, id, what string) { v.Findings = append(v.Findings, c25sFinding{Sig: sig, What: what, ID: id}) }
	pos := 0
	for pos < len(raw) {
		req, n, rej := http1.ParseRequest(raw[pos:])
		if rej != nil {
			m := c25sMsg{Start: pos, HeadEnd: len(raw), End: len(raw)}
			if i := bytes.Index(raw[pos:], []byte("\r\n\r\n")); i >= 0 {
				m.HeadEnd = pos + i + 4
			}
			if mm := c25sMarkerRe.FindSubmatch(raw[m.Start:m.HeadEnd]); mm != nil {
				m.ID = string(mm[1])
			}
			if rej.Incomplete {
				v.Truncated = true
				v.Msgs = append(v.Msgs, m)
			} else {
				if strings.HasPrefix(rej.Class, http1.BodyPrefix) {
					v.Msgs = append(v.Msgs, m) // the head is fine: what follows it is this message's body span
				}
				after := "at-start-of-connection"
				if pos > 0 {
					after = "after-request"
				}
				id := m.ID
				if id == "" && len(v.Msgs) > 0 {
					id = v.Msgs[len(v.Msgs)-1].ID
				}
				add("backend-stream:not-well-formed:"+rej.Class+":"+after, id, fmt.Sprintf("the backend connection's octets from offset %d on are not a well-formed request: %v; they start with %q", pos, rej, clip(string(raw[pos:]), 120)))
			}
			break
		}
		m := c25sMsg{Start: pos, HeadEnd: pos + req.HeadLen, End: pos + n, Complete: true}
		ids := http1.Get(req.Fields, "X-Id")
		switch {
		case len(ids) != 1 || specs[ids[0]] == nil:
			add("backend-stream:request-without-known-marker", "", fmt.Sprintf("a complete request on the backend connection carries the markers %q: no client sent that; it starts with %q", ids, clip(string(raw[pos:pos+n]), 120)))
		default:
			m.ID = ids[0]
			sp := specs[m.ID]
			host := http1.Get(req.Fields, "Host")
			if req.Method != sp.Method || req.Target != sp.Target || len(host) != 1 || host[0] != sp.Host {
				add("backend-stream:head-differs", m.ID, fmt.Sprintf("backend got %s %s host %q, the client sent %s %s host %q", req.Method, req.Target, host, sp.Method, sp.Target, sp.Host))
			}
		}
		v.Msgs = append(v.Msgs, m)
		pos += n
	}
	// request lines: every request bfe forwards here starts "<METHOD> /c25s/<marker> HTTP/1.1"; such a
	// line may only stand at the start of a message, never inside the body span of one
	inBody := map[int]bool{}
	for _, loc := range c25sLineRe.FindAllSubmatchIndex(raw, -1) {
		off := loc[0]
		for i, m := range v.Msgs {
			if off < m.HeadEnd || off >= m.End || inBody[i] {
				continue
			}
			inBody[i] = true
			foreign := string(raw[loc[2]:loc[3]])
			sig := "backend-stream:body-contains-another-request"
			sp := specs[m.ID]
			if sp != nil && !sp.Sent {
				// the client never delivered this body in full: what follows its sent part is the next request
				sig = "backend-stream:request-after-truncated-body"
			}
			// most specific finding first
			v.Findings = append([]c25sFinding{{Sig: sig, ID: m.ID, What: fmt.Sprintf("request %s starts inside the body of request %q (message at offset %d, body from %d, the other request line at %d): the backend reads it as body octets; stream around it: %q",
				foreign, m.ID, m.Start, m.HeadEnd, off, clip(string(raw[max(m.HeadEnd, off-60):min(len(raw), off+60)]), 200))}}, v.Findings...)
		}
	}
	for i, m := range v.Msgs {
		sp := specs[m.ID]
		if sp == nil || inBody[i] || !m.Complete {
			continue
		}
		req, _, _ := http1.ParseRequest(raw[m.Start:m.End])
		if !bytes.Equal(req.Body, sp.Body) {
			how := "other"
			switch {
			case len(req.Body) < len(sp.Body) && bytes.HasPrefix(sp.Body, req.Body):
				how = "cut-short-but-framed-as-complete"
			case len(req.Body) < len(sp.Body):
				how = "octets-missing"
			}
			add("backend-stream:body-differs:"+how, m.ID, fmt.Sprintf("request %s arrived complete with a body of %d octets (%q...), the client sent %d octets (%q...)", m.ID, len(req.Body), clip(string(req.Body), 60), len(sp.Body), clip(string(sp.Body), 60)))
		}
	}
	return
}

// c25sSelfTest runs the oracle on hand-made streams (both outcomes of every predicate).
func c25sSelfTest() error {
	specs := map[string]*c25sSpec{}
	up := &c25sCase{ID: "s1uz", Blen: 10, Stage: "mid-body", Follow: []c25sFollow{{ID: "s1f0z", Method: "GET"}, {ID: "s1f1z", Method: "POST", Blen: 5}}}
	up.specs(specs)
	host := c25sHost(0)
	post := func(id string, declared int, body string) string {
		return fmt.Sprintf("POST /c25s/%s HTTP/1.1\r\nHost: %s\r\nContent-Length: %d\r\nX-Id: %s\r\n\r\n%s", id, host, declared, id, body)
	}
	get := fmt.Sprintf("GET /c25s/s1f0z HTTP/1.1\r\nHost: %s\r\nX-Id: s1f0z\r\n\r\n", host)
	full := string(c25sBody("s1uz", 10))
	f1 := string(c25sBody("s1f1z", 5))
	type tc struct {
		name, raw, want string
		trunc           bool
	}
	long := &c25sCase{ID: "s2uz", Blen: 5000, Stage: "mid-body", Follow: nil}
	long.specs(specs)
	for _, t := range []tc{
		{"good sequence", get + post("s1f1z", 5, f1) + get, "", false},
		{"truncated last", get + post("s1uz", 10, full[:4]), "", true},
		{"truncated head last", get + "POST /c25s/s1uz HT", "", true},
		{"request after truncated body (body swallows the head)", post("s1uz", 10, full[:4]) + get, "backend-stream:request-after-truncated-body", false},
		{"request after truncated long body (all inside the body)", post("s2uz", 5000, "abcd") + get, "backend-stream:request-after-truncated-body", true},
		{"other body", post("s1f1z", 5, "xxxxx"), "backend-stream:body-differs:other", false},
		{"holes", post("s1f1z", 3, f1[:1]+f1[3:]), "backend-stream:body-differs:octets-missing", false},
		{"cut short", post("s1f1z", 3, f1[:3]), "backend-stream:body-differs:cut-short-but-framed-as-complete", false},
		{"unknown marker", strings.Replace(get, "s1f0z", "s9f9z", -1), "backend-stream:request-without-known-marker", false},
		{"garbage after request", get + "econd HTTP/1.1\r\n\r\n", "backend-stream:not-well-formed:", false},
		{"request after truncated chunked body", get + fmt.Sprintf("POST /c25s/s2uz HTTP/1.1\r\nHost: %s\r\nTransfer-Encoding: chunked\r\nX-Id: s2uz\r\n\r\n4\r\nabcd\r\n", host) + get, "backend-stream:request-after-truncated-body", false},
		{"truncated chunked last", get + fmt.Sprintf("POST /c25s/s2uz HTTP/1.1\r\nHost: %s\r\nTransfer-Encoding: chunked\r\nX-Id: s2uz\r\n\r\n4\r\nabcd\r\n", host), "", true},
	} {
		v := c25sJudge([]byte(t.raw), specs)
		got := ""
		if len(v.Findings) > 0 {
			got = v.Findings[0].Sig
		}
		if (t.want == "") != (got == "") || !strings.HasPrefix(got, t.want) || v.Truncated != t.trunc {
			return fmt.Errorf("oracle self-test %q: findings %+v truncated=%v, want %q truncated=%v", t.name, v.Findings, v.Truncated, t.want, t.trunc)
		}
	}
	return nil
}

// ---------------------------------------------------------------- the family

type c25sFamily struct {
	backends []*rawBackend
	sg       *c25sSignals
}

// c25sClusterConf returns the clusters, their backends and the routing rules of the family.
func c25sSetup() (*c25sFamily, []e2e.Cluster, string) {
	f := &c25sFamily{sg: &c25sSignals{m: map[string]chan struct{}{}}}
	var cs []e2e.Cluster
	var rules []string
	for k := 0; k < c25sClusters; k++ {
		be := newRawBackend(c25sPlan)
		f.backends = append(f.backends, be)
		name := fmt.Sprintf("c25s%d", k)
		cs = append(cs, e2e.Cluster{Name: name, Hosts: []string{c25sHost(k)}, Product: "p_c25", MaxIdleConnsPerHost: 8,
			SubClusters: []e2e.SubCluster{{Name: "sub1", Weight: 100, Backends: []e2e.Backend{{Name: "rb", Addr: be.Addr, Port: be.Port, Weight: 10}}}}})
		rules = append(rules, fmt.Sprintf(`{"Cond":"req_host_in(\"%s\")","ClusterName":"%s"}`, c25sHost(k), name))
	}
	return f, cs, strings.Join(rules, ",")
}

func (f *c25sFamily) close() {
	for _, b := range f.backends {
		b.Close()
	}
}

func (f *c25sFamily) register(srv *e2e.Server) {
	srv.Srv.CallBacks.AddFilter(bfe_module.HandleReadResponse, func(req *bfe_basic.Request, res *bfe_http.Response) int {
		if id := req.HttpRequest.Header.Get("X-Id"); strings.HasPrefix(id, "s") {
			f.sg.fire(id)
		}
		return bfe_module.BfeHandlerGoOn
	})
}

func (f *c25sFamily) run(r *vkit.Run, srv *e2e.Server, replay *c25sCase) {
	if err := c25sSelfTest(); err != nil {
		r.Inconclusive(err.Error())
		return
	}
	var cases []*c25sCase
	if replay != nil {
		cases = []*c25sCase{replay}
	} else {
		cells := c25sCells()
		if f := os.Getenv("VERIF_DEBUG_C25S_CELLS"); f != "" { // development aid: only cells whose "fe|framing|stage|abort|early" contains f
			var keep []c25sCell
			for _, c := range cells {
				if strings.Contains(c.fe+"|"+c.framing+"|"+c.stage+"|"+c.abort+"|"+c.early, f) {
					keep = append(keep, c)
				}
			}
			cells = keep
		}
		order := r.Rng("stream-cell-order", 0).Perm(len(cells))
		n := r.N(4*len(cells), 60*len(cells))
		if v := envInt("VERIF_DEBUG_NS"); v >= 0 {
			n = v
		}
		for i := 0; i < n; i++ {
			cases = append(cases, c25sGen(r.Rng("stream", i), i, cells[order[i%len(cells)]]))
		}
	}
	specs := map[string]*c25sSpec{}
	per := make([][]*c25sCase, c25sClusters)
	for _, c := range cases {
		c.specs(specs)
		per[c.Cluster] = append(per[c.Cluster], c)
	}
	obs := make(map[string]*c25sObs, len(cases))
	var omu sync.Mutex
	vkit.Parallel(c25sClusters, c25sClusters, func(k int) {
		for _, c := range per[k] {
			o := c.run(srv, f.sg)
			omu.Lock()
			obs[c.ID] = &o
			omu.Unlock()
		}
	})
	// quiescence (bounded; not a verdict): wait until no backend has received anything for 300 ms
	var last int64 = -1
	for try := 0; try < 40; try++ {
		var sum int64
		for _, b := range f.backends {
			sum += b.Received()
		}
		if sum == last {
			break
		}
		last = sum
		time.Sleep(300 * time.Millisecond)
	}
	completeAt := map[string]int{}
	reused := map[string]bool{} // scenario id -> a request of it travelled on a connection that had carried something before
	type connV struct {
		k   int
		rec rawConnRec
		v   c25sVerdict
	}
	var all []connV
	for k, b := range f.backends {
		for _, rec := range b.Snapshot() {
			if len(rec.Raw) == 0 {
				continue
			}
			v := c25sJudge(rec.Raw, specs)
			all = append(all, connV{k, rec, v})
			r.Count("stream_backend_connections", 1)
			if len(v.Msgs) >= 2 {
				r.Count("stream_backend_connections_reused", 1)
			}
			if v.Truncated {
				r.Count("stream_backend_connections_ending_in_truncated_message", 1)
			}
			for i, m := range v.Msgs {
				if m.Complete {
					r.Count("stream_complete_requests_at_backend", 1)
					completeAt[m.ID]++
				}
				if sp := specs[m.ID]; sp != nil && i > 0 {
					reused[sp.Case.ID] = true
				}
			}
			for _, fd := range v.Findings {
				suffix := ""
				w := map[string]interface{}{"backend_connection": rec.ID, "cluster": k, "backend_bytes": clip(string(rec.Raw), 6000), "reader_end": rec.End}
				if sp := specs[fd.ID]; sp != nil {
					c := sp.Case
					suffix = ":" + c.Frontend + ":" + c.Framing + ":" + c.Stage + ":" + c.Abort
					w["stream_case"] = c
					w["observed"] = obs[c.ID]
				}
				r.Violation(fd.Sig+suffix, fd.What, w)
			}
		}
	}
	var samples []interface{}
	for _, c := range cases {
		o := obs[c.ID]
		key := fmt.Sprintf("stream|%s|%s|%s|%s|%s|%v|%v", c.Frontend, c.Framing, c.Stage, c.Abort, c.Early, c.Blen >= 4000, c.RespBody > 0)
		aborted := c.Abort != "none"
		// non-trivial: the shape the family is about occurred - bfe had the backend's reply while the
		// upload was unfinished, the client then aborted, and a later request of the scenario was forwarded
		followFwd := 0
		for _, f := range c.Follow {
			if completeAt[f.ID] > 0 {
				followFwd++
			}
		}
		shape := o != nil && o.EarlySeen && aborted && followFwd > 0
		r.CaseS(key, shape)
		r.Count("stream_scenarios_"+c.Frontend, 1)
		if o == nil {
			continue
		}
		if o.EarlySeen {
			r.Count("stream_early_reply_reached_bfe_before_"+map[bool]string{true: "abort", false: "rest_of_upload"}[aborted]+"_"+c.Frontend, 1)
		} else if c.Early != "full" {
			r.Count("stream_early_reply_not_seen_in_time", 1)
		}
		if shape {
			r.Count("stream_shape_early_reply_then_abort_then_followup_forwarded_"+c.Frontend, 1)
			r.Count("stream_shape_by_abort_"+c.Abort, 1)
			r.Count("stream_shape_by_stage_"+c.Stage, 1)
		}
		if reused[c.ID] {
			r.Count("stream_scenarios_using_a_kept_alive_backend_connection", 1)
		}
		if completeAt[c.ID] > 0 {
			r.Count("stream_uploads_complete_at_backend_"+c.Stage, 1)
		}
		for _, f := range c.Follow {
			if completeAt[f.ID] > 1 {
				r.Count("stream_followups_forwarded_more_than_once_not_judged", 1)
			}
		}
		for _, st := range o.Follow {
			r.Count("stream_followup_status_"+st, 1)
		}
		r.Count("stream_upload_saw_"+c.Frontend+"_"+c.Abort+"_"+o.Upload, 1)
		if shape && c.N%37 == 0 && len(samples) < 4 {
			// own evidence key: the sample budget of vkit is used up by the other families
			samples = append(samples, map[string]interface{}{"stream_case": c, "observed": o})
		}
	}
	if replay == nil {
		r.Extra("stream_samples", samples)
		for _, fe := range []string{"h1", "h2"} {
			if r.Counter("stream_shape_early_reply_then_abort_then_followup_forwarded_"+fe) == 0 {
				r.Inconclusive("stream family: on frontend " + fe + " no upload was aborted after bfe had the backend's early reply and followed by a forwarded request")
			}
		}
		if os.Getenv("VERIF_DEBUG_C25S_CELLS") == "" {
			for _, k := range []string{"abort_fin", "abort_half-close", "abort_rst", "abort_rst-stream", "abort_conn-close", "abort_late",
				"stage_before-body", "stage_mid-body", "stage_mid-chunk-size", "stage_mid-chunk-data", "stage_chunk-boundary"} {
				if r.Counter("stream_shape_by_"+k) == 0 {
					r.Inconclusive("stream family: the shape (early reply, abort, forwarded follow-up) never occurred with " + k)
				}
			}
		}
		for _, k := range []string{"stream_backend_connections_reused", "stream_backend_connections_ending_in_truncated_message"} {
			if r.Counter(k) == 0 {
				r.Inconclusive("stream family: " + k + " = 0")
			}
		}
	}
	_ = all
}

func envInt(name string) int {
	v := -1
	if s := strings.TrimSpace(os.Getenv(name)); s != "" {
		fmt.Sscan(s, &v)
	}
	return v
}
