package main

import (
	"fmt"
	"net/url"
	"os"
	"path/filepath"
	"sort"

	"verifharness/e2e"
	"verifharness/vkit"
)

// C08, reload-history dimension. The retry settings (RetryMax, CrossRetry) live in
// cluster_conf.data (server data conf) but are enforced by the per-cluster balancer
// object, which is created by whichever load of gslb.data/cluster_table.data first
// names the cluster. The bound "attempts <= 1 + RetryMax + CrossRetry" therefore has
// to hold for every order in which the two configuration families reach the server.
//
// A pool of "dynamic" clusters d<k> runs through scripted life cycles made of four
// operations, each carried out by one of the server's own reload entry points
// (GslbDataConfReload / ServerDataConfReload with a generated conf dir):
//   G+  gslb reload adds the cluster to gslb.data + cluster_table.data
//   G-  gslb reload removes it
//   S   server-data reload changes its RetryLevel / RetryMax / CrossRetry
//   I   server-data reload introduces it into cluster_conf/host_rule/route_rule
// After every reload step (reloads are never concurrent with requests here) requests
// are sent to every dynamic cluster that is currently routable, and the unchanged
// oracles of c08.go are applied with the retry settings of the cluster_conf that is
// installed at that moment.

type c08DynState struct {
	Name   string `json:"name"`
	Kind   string `json:"kind"`
	Layout string `json:"layout"` // mixed: primary = 2 live + 2 refused ports; deadprim: primary = 3 refused ports
	InConf bool   `json:"in_conf"`
	InGslb bool   `json:"in_gslb"`
	Level  int    `json:"retry_level"`
	Max    int    `json:"retry_max"`
	Cross  int    `json:"cross_retry"`
	Done   int    `json:"ops_done"`
}

type c08Op struct {
	Step              int
	Op                string // G+ G- S I
	Level, Max, Cross int
}

type c08StepRec struct {
	Family string        `json:"family"` // gslb | sd
	Ops    []string      `json:"ops"`
	State  []c08DynState `json:"state_after"`
}

// life cycles; startConf/startGslb say where the cluster is described at start-up
var c08Kinds = []struct {
	name                 string
	startConf, startGslb bool
	ops                  []string
}{
	{"conf-at-start,gslb-add", true, false, []string{"G+"}},
	{"conf-at-start,gslb-add,sd-change", true, false, []string{"G+", "S"}},
	{"conf-at-start,sd-change,gslb-add", true, false, []string{"S", "G+"}},
	{"sd-introduce,gslb-add", false, false, []string{"I", "G+"}},
	{"gslb-add,sd-introduce", false, false, []string{"G+", "I"}},
	{"both-at-start,sd-change", true, true, []string{"S"}},
	{"both-at-start,gslb-remove,gslb-readd", true, true, []string{"G-", "G+"}},
	{"both-at-start,gslb-remove,sd-change,gslb-readd", true, true, []string{"G-", "S", "G+"}},
	{"gslb-add,sd-change,sd-change,gslb-remove,gslb-readd", true, false, []string{"G+", "S", "S", "G-", "G+"}},
	{"both-at-start,untouched", true, true, nil},
}

type c08History struct {
	r       *vkit.Run
	static  []e2e.Cluster
	mk      func(d *c08DynState) e2e.Cluster
	dyn     []*c08DynState
	ops     [][]c08Op // per dynamic cluster
	family  []string  // per step
	initial []c08DynState
	replay  []c08StepRec // non-nil: re-execute exactly these steps
	rcase   *c08Case
	srv     *e2e.Server
	dir     string
}

func c08OpFamily(op string) string {
	if op == "G+" || op == "G-" {
		return "gslb"
	}
	return "sd"
}

// newC08History draws the life cycles (a pure function of seed and tier).
func newC08History(r *vkit.Run, static []e2e.Cluster, mk func(d *c08DynState) e2e.Cluster) *c08History {
	h := &c08History{r: r, static: static, mk: mk}
	reps := r.N(3, 8)
	steps := r.N(30, 90)
	g := r.Rng("hist-family")
	for t := 0; t < steps; t++ {
		f := "gslb"
		if g.Bool() {
			f = "sd"
		}
		// never three steps of one family in a row, so that every life cycle can be scheduled
		if t >= 2 && h.family[t-1] == f && h.family[t-2] == f {
			if f == "gslb" {
				f = "sd"
			} else {
				f = "gslb"
			}
		}
		h.family = append(h.family, f)
	}
	n := 0
	for rep := 0; rep < reps; rep++ {
		for ki, k := range c08Kinds {
			g := r.Rng("hist-cluster", rep, ki)
			d := &c08DynState{Name: fmt.Sprintf("d%d", n), Kind: k.name, InConf: k.startConf, InGslb: k.startGslb,
				Level: g.Intn(3) % 2, Max: g.Intn(3), Cross: g.Intn(3)}
			if g.Chance(2, 3) {
				d.Level = 1
			}
			d.Layout = "mixed"
			if n%2 == 1 {
				d.Layout = "deadprim"
			}
			n++
			h.dyn = append(h.dyn, d)
			// schedule: each operation at the first step of its family after the previous one (+ seeded gap)
			cur := g.Intn(steps / 4)
			var ops []c08Op
			lvl, mx, cr := d.Level, d.Max, d.Cross
			for _, op := range k.ops {
				t := cur
				for t < steps && h.family[t] != c08OpFamily(op) {
					t++
				}
				if t >= steps {
					break // life cycle cut short by the end of the history (counted: hist_lifecycles_cut_short)
				}
				o := c08Op{Step: t, Op: op, Level: lvl, Max: mx, Cross: cr}
				if op == "S" {
					for o.Max == mx && o.Cross == cr {
						o.Max, o.Cross = g.Intn(3), g.Intn(3)
					}
					o.Level = g.Intn(2)
					lvl, mx, cr = o.Level, o.Max, o.Cross
				}
				ops = append(ops, o)
				cur = t + 1 + g.Intn(2)
			}
			h.ops = append(h.ops, ops)
		}
	}
	for _, d := range h.dyn {
		h.initial = append(h.initial, *d)
	}
	return h
}

// useReplay makes the history re-execute a recorded witness instead.
func (h *c08History) useReplay(initial []c08DynState, steps []c08StepRec, c *c08Case) {
	h.initial = initial
	h.replay = steps
	if h.replay == nil {
		h.replay = []c08StepRec{}
	}
	h.rcase = c
	h.dyn = nil
	for i := range initial {
		d := initial[i]
		h.dyn = append(h.dyn, &d)
	}
}

func (h *c08History) confClusters(state []c08DynState) []e2e.Cluster {
	cs := append([]e2e.Cluster(nil), h.static...)
	for i := range state {
		if state[i].InConf {
			cs = append(cs, h.mk(&state[i]))
		}
	}
	return cs
}

func (h *c08History) gslbClusters(state []c08DynState) []e2e.Cluster {
	cs := append([]e2e.Cluster(nil), h.static...)
	for i := range state {
		if state[i].InGslb {
			cs = append(cs, h.mk(&state[i]))
		}
	}
	return cs
}

// startOptions returns the clusters known to the server data conf at start-up and the
// gslb/cluster-table files of the clusters that have a balancer from the start.
func (h *c08History) startOptions() ([]e2e.Cluster, map[string]string) {
	gs := h.gslbClusters(h.initial)
	return h.confClusters(h.initial), map[string]string{
		"cluster_conf/gslb.data":          e2e.GslbJSON(gs),
		"cluster_conf/cluster_table.data": e2e.ClusterTableJSON("g0", gs),
	}
}

func (h *c08History) reload(t int, family string, state []c08DynState) error {
	dir := filepath.Join(h.dir, fmt.Sprintf("step%d", t))
	if err := os.MkdirAll(dir, 0o755); err != nil {
		return err
	}
	files := map[string]string{}
	ver := fmt.Sprintf("h%d", t+1)
	if family == "gslb" {
		gs := h.gslbClusters(state)
		files["gslb.data"] = e2e.GslbJSON(gs)
		files["cluster_table.data"] = e2e.ClusterTableJSON(ver, gs)
	} else {
		cs := h.confClusters(state)
		files["cluster_conf.data"] = e2e.ClusterConfJSON(ver, cs)
		files["host_rule.data"] = e2e.HostRuleJSON(ver, cs, "")
		files["route_rule.data"] = e2e.RouteRuleJSON(ver, cs)
		files["vip_rule.data"] = `{"Version":"` + ver + `","Vips":{}}`
	}
	for k, v := range files {
		if err := os.WriteFile(filepath.Join(dir, k), []byte(v), 0o644); err != nil {
			return err
		}
	}
	if family == "gslb" {
		return h.srv.Srv.GslbDataConfReload(url.Values{"path": {dir}})
	}
	return h.srv.Srv.ServerDataConfReload(url.Values{"path": {dir}})
}

func (h *c08History) snapshot() []c08DynState {
	out := make([]c08DynState, len(h.dyn))
	for i, d := range h.dyn {
		out[i] = *d
	}
	return out
}

var c08HistFailing = []string{"close", "reset", "partial"}

func (h *c08History) run(run func([]*c08Case) []string, evaluate func([]*c08Case, []string, func(*c08Case, map[string]interface{}))) {
	r := h.r
	h.dir = filepath.Join(e2e.Scratch(), "c08hist")
	var done []c08StepRec
	extra := func(c *c08Case, w map[string]interface{}) {
		if c.Hist != "" {
			w["initial"] = h.initial
			w["history"] = done[:c.Step]
		}
	}
	if h.replay != nil {
		for t, s := range h.replay {
			if err := h.reload(t, s.Family, s.State); err != nil {
				r.Inconclusive(fmt.Sprintf("replay: %s reload %d failed: %v", s.Family, t, err))
				return
			}
			done = append(done, s)
		}
		if h.rcase != nil && h.rcase.Hist != "" {
			c := *h.rcase
			c.ID = "replayh0"
			c.Step = len(done)
			cs := []*c08Case{&c}
			evaluate(cs, run(cs), extra)
		}
		return
	}
	n := 0
	cut := 0
	for i, ops := range h.ops {
		for ki := range c08Kinds {
			if c08Kinds[ki].name == h.dyn[i].Kind && len(ops) < len(c08Kinds[ki].ops) {
				cut++
			}
		}
	}
	r.Count("hist_lifecycles_cut_short", int64(cut))
	r.Count("hist_dynamic_clusters", int64(len(h.dyn)))
	complete := map[string]int64{}
	for t, family := range h.family {
		var desc []string
		for i, d := range h.dyn {
			for _, o := range h.ops[i] {
				if o.Step != t {
					continue
				}
				switch o.Op {
				case "G+":
					d.InGslb = true
				case "G-":
					d.InGslb = false
				case "I":
					d.InConf = true
				case "S":
					d.Level, d.Max, d.Cross = o.Level, o.Max, o.Cross
				}
				d.Done++
				desc = append(desc, fmt.Sprintf("%s %s l%dm%dx%d", d.Name, o.Op, d.Level, d.Max, d.Cross))
				r.Count("hist_op_"+o.Op, 1)
			}
		}
		rec := c08StepRec{Family: family, Ops: desc, State: h.snapshot()}
		if err := h.reload(t, family, rec.State); err != nil {
			r.Violation("reload-history:reload-rejected:"+family, fmt.Sprintf("step %d: the %s reload of a well-formed generated configuration failed: %v", t, family, err),
				map[string]interface{}{"initial": h.initial, "history": append(done, rec)})
			return
		}
		done = append(done, rec)
		r.Count("hist_steps_"+family, 1)
		// requests to every routable dynamic cluster, judged with the settings installed now
		var cases []*c08Case
		for i, d := range h.dyn {
			if !d.InConf || !d.InGslb {
				continue
			}
			g := r.Rng("hist-req", t, i)
			kindOps := 0
			for ki := range c08Kinds {
				if c08Kinds[ki].name == d.Kind {
					kindOps = len(c08Kinds[ki].ops)
				}
			}
			tag := fmt.Sprintf("%s#%d/%d", d.Kind, d.Done, kindOps)
			add := func(shape string, faults []string) {
				fe := "h1"
				if shape != "POST-expect" && shape != "POST-chunked" && shape != "GET-cl0" {
					switch n % 8 {
					case 3:
						fe = "h2"
					case 6:
						fe = "spdy"
					}
				}
				cases = append(cases, &c08Case{ID: fmt.Sprintf("h%d_%d", t, n), Cluster: d.Name, Level: d.Level, Max: d.Max, Cross: d.Cross,
					Shape: shape, Faults: faults, Frontend: fe, Hist: tag + ":" + d.Layout, Step: t + 1})
				n++
				if d.Done == kindOps {
					complete[d.Kind]++
				}
			}
			// (a) body-less GET whose every arrival at a live backend fails: exhausts the retry budget when RetryLevel=1
			fs := make([]string, 7)
			for k := range fs {
				fs[k] = c08HistFailing[g.Intn(len(c08HistFailing))]
			}
			add("GET", fs)
			// (b) seeded shape and fault vector as in the main phase (without the slow reply, to keep steps short)
			l := g.Range(1, 4)
			fs = make([]string, l)
			for k := range fs {
				fs[k] = c08FaultKinds[g.Intn(len(c08FaultKinds))]
				if fs[k] == "slow" {
					fs[k] = "closeafter"
				}
			}
			add(c08Shapes[g.Intn(len(c08Shapes))], fs)
			// (c) request with a body: may only be sent again after connect failures
			if g.Bool() {
				add([]string{"POST-fixed", "PUT-fixed", "POST-chunked"}[g.Intn(3)], []string{"close", "close"})
			}
		}
		if len(cases) == 0 {
			continue
		}
		evaluate(cases, run(cases), extra)
		r.Count("hist_requests", int64(len(cases)))
	}
	kinds := make([]string, 0, len(c08Kinds))
	for _, k := range c08Kinds {
		kinds = append(kinds, k.name)
	}
	sort.Strings(kinds)
	for _, k := range kinds {
		r.Count("hist_requests_after_complete_lifecycle:"+k, complete[k])
		if complete[k] == 0 {
			r.Inconclusive("reload history: no request was judged after the complete life cycle " + k)
		}
	}
	if r.Counter("hist_steps_gslb") == 0 || r.Counter("hist_steps_sd") == 0 {
		r.Inconclusive("reload history: a reload family never ran")
	}
	if r.Counter("hist_attempts_at_bound") == 0 {
		r.Inconclusive("reload history: no request used its whole retry budget")
	}
}
