package main

import (
	"bufio"
	"crypto/tls"
	"fmt"
	"io"
	"net"
	"strings"
	"sync/atomic"
	"time"

	"verifharness/vkit"
)

// C47, third family: close propagation (and byte transparency) under BACK-PRESSURE.
//
// One side of the tunnel (the flooder) writes a position-dependent token stream of several MB while
// the other side (the reader side) does not read and has a small SO_RCVBUF, so that every buffer on
// the path fills up and bfe's relay goroutine for that direction is parked inside a Write. Then
//
//   - "reader-closes": the reader side ends the tunnel without having read: half-close (TCP
//     CloseWrite; TLS clients send close_notify with tls.Conn.CloseWrite and keep the TCP connection)
//     or full close. The flooder must observe the end of the tunnel (EOF or an error on its Read, or
//     a failing Write).
//   - "writer-closes": the flooder writes its whole stream (4..32 MB) and closes (half or full) right
//     after the last write; the reader side starts reading only when the flooder has stalled (or has
//     finished). The reader side must receive every byte unchanged and then observe EOF.
//
// Nothing is judged by a timeout: "not closed" is reported only after 60 COMPLETED control round
// trips through bfe (fresh TLS stream tunnels, >= 100 ms apart), each of which proves that bfe is
// alive and scheduled; if the control round trips do not complete the case is skipped.

type c47BPCase struct {
	ID     int    `json:"id"`
	Kind   string `json:"kind"`   // ws | wss | stream
	Flood  string `json:"flood"`  // client | backend: the side that writes
	Closer string `json:"closer"` // client | backend
	Mode   string `json:"mode"`   // half | full
	MB     int    `json:"mb"`     // size of the flooder's stream (reader-closes: upper bound, the flood stops when it stalls)
	Chunk  int    `json:"chunk"`  // write size of the flooder
	RcvBuf int    `json:"rcvbuf"` // SO_RCVBUF of the side that does not read (0 = system default: writer-closes cases, whose reader side drains later)
}

func (c *c47BPCase) shape() string {
	role := "reader-closes"
	if c.Closer == c.Flood {
		role = "writer-closes"
	}
	return c.Kind + ":" + c.Flood + "-floods:" + role + ":" + c.Mode
}

func c47BPGen(g *vkit.Rand, id, i int, quick bool) *c47BPCase {
	c := &c47BPCase{ID: id}
	// the 24 shapes (kind x flood direction x who closes x half/full) in rotation, the rest drawn
	c.Kind = []string{"ws", "wss", "stream"}[i%3]
	c.Flood = []string{"backend", "client"}[(i/3)%2]
	c.Closer = []string{"client", "backend"}[(i/6)%2]
	c.Mode = []string{"half", "full"}[(i/12)%2]
	if c.Closer == c.Flood {
		c.MB = []int{4, 4, 8, 8, 16, 32}[g.Intn(6)]
		if quick && c.MB > 16 {
			c.MB = 16
		}
	} else {
		// upper bound only: the flood stops when it stalls (usually after 7..12 MB; tcp_rmem lets bfe's
		// receiving socket grow up to 32 MB in rare cases)
		c.MB = 64
	}
	c.Chunk = []int{4096, 16384, 65536, 1 << 20}[g.Intn(4)]
	c.RcvBuf = []int{4096, 16384, 65536}[g.Intn(3)]
	if c.Closer == c.Flood {
		// the reader side will have to drain the whole stream: a receive window of a few KB (which the
		// kernel keeps clamped even when SO_RCVBUF is raised again) would make that take minutes
		c.RcvBuf = 0
	}
	return c
}

type c47Env struct {
	r                *vkit.Run
	wsB, stB         *c47Backend
	dialClient       func(c *c47Case) (net.Conn, *bufio.Reader, error)
	controlRoundTrip func() bool
}

// c47HalfClose ends the sending direction of c and keeps the connection: close_notify on a TLS
// client connection, FIN on plain TCP.
func c47HalfClose(c net.Conn) error {
	switch x := c.(type) {
	case *tls.Conn:
		return x.CloseWrite()
	case *net.TCPConn:
		return x.CloseWrite()
	}
	return fmt.Errorf("no half close on %T", c)
}

func c47IsTimeout(err error) bool {
	ne, ok := err.(net.Error)
	return ok && ne.Timeout()
}

func (e *c47Env) runBP(c *c47BPCase) {
	r := e.r
	key := fmt.Sprintf("bp|%s|%s|%s|%s|%d|%d|%d", c.Kind, c.Flood, c.Closer, c.Mode, c.MB, c.Chunk, c.RcvBuf)
	w := map[string]interface{}{"bp_case": c}
	be := e.wsB
	if c.Kind == "stream" {
		be = e.stB
	}
	ch := be.expect(c.ID, 0)
	conn, cbr, err := e.dialClient(&c47Case{Kind: c.Kind})
	if err != nil {
		r.CaseS(key, false)
		r.Count("dial_failed", 1)
		return
	}
	defer conn.Close()
	conn.SetDeadline(time.Now().Add(150 * time.Second)) // watchdog only
	if c.Flood == "backend" && c.RcvBuf > 0 {
		if tcp := rawTCP(conn); tcp != nil {
			tcp.SetReadBuffer(c.RcvBuf)
		}
	}
	if c.Kind == "stream" {
		_, err = fmt.Fprintf(conn, "%08d", c.ID)
	} else {
		_, err = fmt.Fprintf(conn, "GET /c47/%d HTTP/1.1\r\nHost: ws.c47.test\r\nUpgrade: websocket\r\nConnection: Upgrade\r\nSec-WebSocket-Key: dmVyaWY=\r\nSec-WebSocket-Version: 13\r\n\r\n", c.ID)
	}
	if err != nil {
		r.CaseS(key, false)
		r.Count("setup_failed", 1)
		return
	}
	var t *c47Tunnel
	select {
	case t = <-ch:
	case <-time.After(60 * time.Second):
		r.CaseS(key, false)
		r.Count("tunnel_not_established_skipped", 1)
		return
	}
	defer t.conn.Close()
	t.conn.SetDeadline(time.Now().Add(150 * time.Second)) // watchdog only
	if c.Flood == "client" && c.RcvBuf > 0 {
		if tcp, ok := t.conn.(*net.TCPConn); ok {
			tcp.SetReadBuffer(c.RcvBuf)
		}
	}
	if c.Kind != "stream" {
		for {
			line, err := cbr.ReadString('\n')
			if err != nil {
				r.CaseS(key, false)
				r.Violation("ws-handshake:no-101-at-client:"+c.Kind, "client did not receive the 101 response head: "+err.Error(), w)
				return
			}
			if line == "\r\n" {
				break
			}
		}
	}
	r.CaseS(key, true)
	r.Count("bp_tunnels_"+c.Kind, 1)

	// wc/wr: the flooder's connection and reader; rc/rr: the reader side's
	wc, wr, rc, rr, dir := conn, io.Reader(cbr), t.conn, io.Reader(t.br), 0
	dirName := "client-to-backend"
	if c.Flood == "backend" {
		wc, wr, rc, rr, dir = t.conn, io.Reader(t.br), conn, io.Reader(cbr), 1
		dirName = "backend-to-client"
	}
	writerCloses := c.Closer == c.Flood
	total := c.MB << 20
	doClose := func(x net.Conn) {
		if c.Mode == "half" {
			if err := c47HalfClose(x); err != nil {
				r.Count("bp_half_close_call_failed", 1)
			}
		} else {
			x.Close()
		}
	}

	var written int64
	flooderDone := make(chan error, 1)
	go func() {
		buf := make([]byte, c.Chunk)
		off := 0
		for off < total {
			n := c.Chunk
			if n > total-off {
				n = total - off
			}
			for j := 0; j < n; j++ {
				buf[j] = tok(c.ID, dir, off+j)
			}
			if _, err := wc.Write(buf[:n]); err != nil {
				flooderDone <- err
				return
			}
			off += n
			atomic.StoreInt64(&written, int64(off))
		}
		if writerCloses {
			doClose(wc)
		}
		flooderDone <- nil
	}()
	// the flooder's own receive direction carries nothing; its Read ends when bfe closes the tunnel
	flooderSaw := make(chan int, 1)
	go func() {
		buf := make([]byte, 4096)
		extra := 0
		for {
			n, err := wr.Read(buf)
			extra += n
			if err != nil {
				flooderSaw <- extra
				return
			}
		}
	}()

	// wait until the flood stalls: no progress of the writer for 8 polls of 50 ms (workload steering, not a verdict)
	stalled, finished := false, false
	var floodErr error
	last, same := int64(-1), 0
	for k := 0; k < 2400 && !stalled && !finished; k++ {
		select {
		case floodErr = <-flooderDone:
			finished = true
		case <-time.After(50 * time.Millisecond):
			v := atomic.LoadInt64(&written)
			if v == last && v > 0 {
				same++
			} else {
				same = 0
			}
			last = v
			stalled = same >= 8
		}
	}
	inflight := atomic.LoadInt64(&written)
	w["flooder_had_written_when_the_close_was_issued"] = inflight
	w["flooder_stalled"] = stalled

	// waitClosed: the tunnel end `seen` must report the close within 60 completed control round trips
	waitClosed := func(seen <-chan int, writeErr <-chan error) (closed bool, extra int, attributed bool) {
		done := 0
		for fails := 0; done < 60 && fails < 100; {
			select {
			case extra = <-seen:
				return true, extra, true
			case err := <-writeErr:
				if err != nil && !c47IsTimeout(err) {
					return true, 0, true // the flooder's Write failed: the tunnel is gone
				}
				writeErr = nil
			case <-time.After(100 * time.Millisecond):
				if e.controlRoundTrip() {
					done++
				} else {
					fails++
					r.Count("control_round_trip_failed", 1)
				}
			}
		}
		return false, 0, done >= 60
	}
	half := "-closed"
	if c.Mode == "half" {
		half = "-half-closed"
	}

	if !writerCloses {
		// ---- reader-closes: the side that never read ends the tunnel
		if !stalled {
			// everything was absorbed by buffers (or the flood failed early): no back-pressure, nothing to judge
			r.Count("bp_flood_did_not_stall_skipped", 1)
			if floodErr != nil {
				what := "other error"
				for _, k := range []string{"reset", "broken pipe", "closed", "timeout"} {
					if strings.Contains(floodErr.Error(), k) {
						what = k
						break
					}
				}
				r.Count("bp_flood_did_not_stall_skipped["+c.shape()+": flooder's write failed: "+what+"]", 1)
			} else {
				r.Count("bp_flood_did_not_stall_skipped["+c.shape()+": whole stream absorbed]", 1)
			}
			return
		}
		r.Count("bp_bytes_in_flight_at_close", inflight)
		doClose(rc)
		closed, extra, attributed := waitClosed(flooderSaw, flooderDone)
		if !closed && !attributed {
			r.Count("bp_close_wait_not_attributable_skipped", 1)
			return
		}
		r.Count("bp_shape["+c.shape()+"]", 1)
		if !closed {
			r.Violation("close-not-propagated:"+c.Closer+half+"-under-backpressure:"+c.Kind,
				fmt.Sprintf("%s tunnel, the %s was flooding (%d bytes written, writer stalled) while the %s did not read; the %s %s; the %s saw neither EOF nor an error (Read) nor a failing Write after 60 completed control round trips through bfe",
					c.Kind, c.Flood, inflight, c.Closer, c.Closer, map[string]string{"half": "half-closed (FIN / close_notify, connection kept)", "full": "closed"}[c.Mode], c.Flood), w)
			return
		}
		if extra != 0 {
			r.Violation("surplus-bytes-before-close:"+c.Kind, fmt.Sprintf("%d bytes delivered to the flooder although the other side never wrote", extra), w)
		}
		r.Count("bp_close_propagated_"+c.Closer+half, 1)
		if r.WantSample() && c.Kind != "ws" {
			r.Sample(w)
		}
		return
	}

	// ---- writer-closes: the reader side now drains; it must get every byte and then EOF
	if stalled {
		r.Count("bp_writer_closes_flood_stalled_before_drain", 1)
	} else {
		r.Count("bp_writer_closes_flood_absorbed_by_buffers", 1)
	}
	rc.SetReadDeadline(time.Now().Add(120 * time.Second))
	got, bad, rerr := verifyStream(rr, c.ID, dir, total)
	w["reader_side_received"] = got
	if rerr != nil && c47IsTimeout(rerr) {
		r.Count("bp_drain_deadline_expired_skipped", 1)
		return
	}
	r.Count("bp_bytes_drained", int64(got))
	if bad >= 0 {
		r.Violation(dirName+":corrupt-or-reordered:under-backpressure:"+c.Kind, fmt.Sprintf("first bad offset %d of %d", bad, total), w)
		return
	}
	if got != total {
		r.Violation(dirName+":bytes-lost:under-backpressure:"+c.Kind, fmt.Sprintf("the reader side received %d of %d bytes (%v)", got, total, rerr), w)
		return
	}
	rc.SetReadDeadline(time.Now().Add(150 * time.Second))
	seen := make(chan int, 1)
	go func() {
		buf := make([]byte, 4096)
		extra := 0
		for {
			n, err := rr.Read(buf)
			extra += n
			if err != nil {
				seen <- extra
				return
			}
		}
	}()
	closed, extra, attributed := waitClosed(seen, nil)
	if !closed && !attributed {
		r.Count("bp_close_wait_not_attributable_skipped", 1)
		return
	}
	r.Count("bp_shape["+c.shape()+"]", 1)
	if !closed {
		r.Violation("close-not-propagated:"+c.Closer+half+"-after-flooding:"+c.Kind,
			fmt.Sprintf("%s tunnel, the %s wrote %d bytes against a peer that was not reading and %s right after its last write; the %s received every byte but neither EOF nor an error after 60 completed control round trips through bfe",
				c.Kind, c.Flood, total, map[string]string{"half": "half-closed", "full": "closed"}[c.Mode], map[string]string{"client": "backend", "backend": "client"}[c.Flood]), w)
		return
	}
	if extra != 0 {
		r.Violation("surplus-bytes-before-close:"+c.Kind, fmt.Sprintf("%d surplus bytes delivered before the close", extra), w)
	}
	r.Count("bp_close_propagated_"+c.Closer+half, 1)
	if r.WantSample() && c.Kind != "ws" {
		r.Sample(w)
	}
}

// c47BPFinish: every one of the 24 shapes must have been judged.
func c47BPFinish(r *vkit.Run) {
	for _, k := range []string{"ws", "wss", "stream"} {
		for _, f := range []string{"backend", "client"} {
			for _, role := range []string{"reader-closes", "writer-closes"} {
				for _, m := range []string{"half", "full"} {
					s := k + ":" + f + "-floods:" + role + ":" + m
					if r.Counter("bp_shape["+s+"]") == 0 {
						r.Inconclusive("back-pressure family: shape never judged: " + s)
					}
				}
			}
		}
	}
}
