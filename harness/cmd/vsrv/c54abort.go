package main

import (
	"bufio"
	"bytes"
	"compress/gzip"
	"fmt"
	"io"
	"net"
	"net/http"
	"strconv"
	"strings"
	"sync"
	"time"

	"github.com/andybalholm/brotli"
	"github.com/bfenetworks/bfe/bfe_basic"
	"github.com/bfenetworks/bfe/bfe_http"
	"github.com/bfenetworks/bfe/bfe_module"

	"verifharness/e2e"
	"verifharness/ref/http1"
	"verifharness/vkit"
)

// C54, interference family: compressed responses next to ABORTED neighbours.
//
// A response is compressed by a per-response filter; whatever bfe shares between
// responses (writers, buffers) must not leak from a response whose client went
// away into the responses of other clients. The family runs ROUNDS on products
// whose cluster has CancelOnClientClose on (bfe watches the client connection and
// closes the response body as soon as the client disconnects) and off:
//
//   - 1..3 aborters: requests for a compressed response whose backend sends the
//     head and the first part of the body and then waits; the client reads up to
//     the end of the response head, or up to some body bytes, and goes away (FIN
//     and close a little later / RST / plain close()); then the backend sends
//     the rest;
//   - well-behaved requests with distinct, position-dependent bodies at the same
//     host and compression level: some concurrently with the aborters, two bursts
//     of concurrent requests immediately after bfe has dropped the aborted
//     exchanges (its backend connection was closed).
//
// Oracle (unchanged, well-behaved requests only): the body decodes, as announced
// in Content-Encoding, to exactly the backend's body. What the aborters receive
// is not judged.

type c54XReq struct {
	ID    string `json:"id"`
	Blen  int    `json:"blen"`
	Frame string `json:"frame"` // cl | chunked
}

type c54XAbort struct {
	c54XReq
	First int    `json:"first"` // body bytes the backend sends before it waits for the abort
	Point string `json:"point"` // after-headers | mid-body
	Mode  string `json:"mode"`  // fin | rst | close
}

type c54XRound struct {
	N        int         `json:"round"`
	Coding   string      `json:"coding"` // gzip | br
	Cancel   bool        `json:"cancel_on_client_close"`
	Level    int         `json:"level"` // 1 | 5 | 9 (rule selected by the path prefix)
	Aborters []c54XAbort `json:"aborters"`
	Inter    []c54XReq   `json:"interleaved"`
	Burst1   []c54XReq   `json:"burst1"`
	Burst2   []c54XReq   `json:"burst2"`
	// Slow: no aborter at all; the cluster's TimeoutReadClient is 400 ms and the backend pauses for
	// 1.6 s in the middle of every body (requests in Burst1, all clients well-behaved)
	Slow bool `json:"slow_response,omitempty"`
}

// variant returns a copy of the round with fresh request ids (replay: the round is repeated).
func (x *c54XRound) variant(i int) *c54XRound {
	y := *x
	sfx := fmt.Sprintf("r%d", i)
	y.Aborters = append([]c54XAbort(nil), x.Aborters...)
	for k := range y.Aborters {
		y.Aborters[k].ID += sfx
	}
	re := func(qs []c54XReq) []c54XReq {
		out := append([]c54XReq(nil), qs...)
		for k := range out {
			out[k].ID += sfx
		}
		return out
	}
	y.Inter, y.Burst1, y.Burst2 = re(x.Inter), re(x.Burst1), re(x.Burst2)
	return &y
}

func (x *c54XRound) host() string {
	h := map[string]string{"gzip": "gz", "br": "br"}[x.Coding]
	if x.Slow {
		return h + "t.c54.test"
	}
	if x.Cancel {
		return h + "c.c54.test"
	}
	return h + "n.c54.test"
}

// c54XBody: every line carries the id and its own offset plus 256 pseudo-random bits, so that a
// body neither equals nor contains a piece of another body and compresses to about one half.
func c54XBody(id string, n int) []byte {
	g := vkit.NewRand(vkit.Hash64("c54x", id))
	var sb bytes.Buffer
	for sb.Len() < n {
		fmt.Fprintf(&sb, "%s@%07d %016x%016x%016x%016x\n", id, sb.Len(), g.U64(), g.U64(), g.U64(), g.U64())
	}
	return sb.Bytes()[:n]
}

// ---- backend -----------------------------------------------------------------------------

type c54XGate struct {
	release chan struct{} // closed by the client when it has gone away
	gone    chan struct{} // closed by the backend when bfe has closed the backend connection
}

type c54XBackend struct {
	ln    net.Listener
	mu    sync.Mutex
	gates map[string]*c54XGate
}

func c54XNewBackend() (*c54XBackend, error) {
	ln, err := net.Listen("tcp", "127.0.0.1:0")
	if err != nil {
		return nil, err
	}
	b := &c54XBackend{ln: ln, gates: map[string]*c54XGate{}}
	go func() {
		for {
			c, err := ln.Accept()
			if err != nil {
				return
			}
			go b.serve(c)
		}
	}()
	return b, nil
}

func (b *c54XBackend) gate(id string) *c54XGate {
	g := &c54XGate{release: make(chan struct{}), gone: make(chan struct{})}
	b.mu.Lock()
	b.gates[id] = g
	b.mu.Unlock()
	return g
}

func c54XFrame(body []byte, chunked, last bool) []byte {
	if !chunked {
		return body
	}
	var w bytes.Buffer
	for len(body) > 0 {
		n := 4096
		if n > len(body) {
			n = len(body)
		}
		fmt.Fprintf(&w, "%x\r\n", n)
		w.Write(body[:n])
		w.WriteString("\r\n")
		body = body[n:]
	}
	if last {
		w.WriteString("0\r\n\r\n")
	}
	return w.Bytes()
}

func (b *c54XBackend) serve(c net.Conn) {
	defer c.Close()
	c.SetDeadline(time.Now().Add(90 * time.Second))
	br := bufio.NewReader(c)
	req, err := http.ReadRequest(br)
	if err != nil {
		return
	}
	id := req.Header.Get("X-Id")
	blen, _ := strconv.Atoi(req.Header.Get("X-Blen"))
	first, _ := strconv.Atoi(req.Header.Get("X-First"))
	chunked := req.Header.Get("X-Frame") == "chunked"
	body := c54XBody(id, blen)
	b.mu.Lock()
	g := b.gates[id]
	b.mu.Unlock()
	if g != nil {
		defer close(g.gone)
	}
	var w bytes.Buffer
	fmt.Fprintf(&w, "HTTP/1.1 200 OK\r\nX-Case: %s\r\nContent-Type: text/plain\r\n", id)
	if chunked {
		w.WriteString("Transfer-Encoding: chunked\r\n\r\n")
	} else {
		fmt.Fprintf(&w, "Content-Length: %d\r\n\r\n", len(body))
	}
	pause, _ := strconv.Atoi(req.Header.Get("X-Pause-Ms"))
	if (g == nil && pause == 0) || first > len(body) {
		first = len(body)
	}
	w.Write(c54XFrame(body[:first], chunked, first == len(body)))
	if c54XWrite(c, w.Bytes(), []int{333, 4096, 1500}) != nil {
		return
	}
	if first == len(body) {
		return // bfe closes (no keep-alive to this backend) or sends nothing more; the deferred Close ends it
	}
	if g != nil {
		select {
		case <-g.release:
		case <-time.After(30 * time.Second):
		}
	} else {
		time.Sleep(time.Duration(pause) * time.Millisecond)
	}
	if c54XWrite(c, c54XFrame(body[first:], chunked, true), []int{4096}) != nil {
		return
	}
	if g != nil {
		// wait for bfe to drop the exchange
		io.Copy(io.Discard, br)
	}
}

func c54XWrite(c net.Conn, out []byte, sizes []int) error {
	for i := 0; len(out) > 0; i++ {
		n := sizes[i%len(sizes)]
		if n > len(out) {
			n = len(out)
		}
		if _, err := c.Write(out[:n]); err != nil {
			return err
		}
		out = out[n:]
	}
	return nil
}

// ---- configuration -------------------------------------------------------------------------

var c54XLevels = []int{1, 5, 9}

const (
	c54XSlowReadClientMs = 400  // TimeoutReadClient of the slow-response clusters
	c54XSlowPauseMs      = 1600 // pause of the backend in the middle of the body of a slow response
)

// c54XRules: three rules per product, the compression level (and flush size) is chosen by the path prefix.
func c54XRules(cmd string) string {
	r := func(cond string, q, flush int) string {
		return fmt.Sprintf(`{"Cond":"%s","Action":{"Cmd":"%s","Quality":%d,"FlushSize":%d}}`, cond, cmd, q, flush)
	}
	return "[" + r(`req_path_prefix_in(\"/c54/q1-\", false)`, 1, 256) + "," + r(`req_path_prefix_in(\"/c54/q9-\", false)`, 9, 4096) + "," + r("default_t()", 5, 512) + "]"
}

// c54XConf returns the compress_rule.data entries and clusters of this family.
func c54XConf(be *c54XBackend) (rules string, clusters []e2e.Cluster) {
	port := be.ln.Addr().(*net.TCPAddr).Port
	sub := []e2e.SubCluster{{Name: "s", Weight: 100, Backends: []e2e.Backend{{Name: "bx", Addr: "127.0.0.1", Port: port, Weight: 1}}}}
	for _, n := range []string{"gzc", "gzn", "brc", "brn"} {
		cmd := "GZIP"
		if n[0] == 'b' {
			cmd = "BROTLI"
		}
		rules += fmt.Sprintf(`,"p_%s":%s`, n, c54XRules(cmd))
		// TimeoutReadClient 10 min: how long a response takes on a loaded machine must not matter here
		// (see the slow-response cases below for what a short one does)
		clusters = append(clusters, e2e.Cluster{Name: n, Hosts: []string{n + ".c54.test"}, SubClusters: sub, CancelOnClientClose: n[2] == 'c',
			TimeoutConnSrv: 20000, TimeoutResponseHeader: 60000, TimeoutReadClient: 600000})
	}
	// slow-response cases: CancelOnClientClose and a TimeoutReadClient (the time a client gets to send its
	// request body) that is shorter than the pause the backend makes in the middle of the response body
	for _, n := range []string{"gzt", "brt"} {
		cmd := "GZIP"
		if n[0] == 'b' {
			cmd = "BROTLI"
		}
		rules += fmt.Sprintf(`,"p_%s":%s`, n, c54XRules(cmd))
		clusters = append(clusters, e2e.Cluster{Name: n, Hosts: []string{n + ".c54.test"}, SubClusters: sub, CancelOnClientClose: true,
			TimeoutConnSrv: 20000, TimeoutResponseHeader: 60000, TimeoutReadClient: c54XSlowReadClientMs})
	}
	return rules, clusters
}

// ---- generator -----------------------------------------------------------------------------

func c54XGen(g *vkit.Rand, n int) *c54XRound {
	x := &c54XRound{N: n}
	// gzip with CancelOnClientClose twice as often as each of the other three products
	switch n % 5 {
	case 0, 1:
		x.Coding, x.Cancel = "gzip", true
	case 2:
		x.Coding, x.Cancel = "br", true
	case 3:
		x.Coding, x.Cancel = "gzip", false
	default:
		x.Coding, x.Cancel = "br", false
	}
	x.Level = c54XLevels[(n/5)%3]
	seq := 0
	req := func(kind string) c54XReq {
		seq++
		// brotli costs up to 10 ms of CPU per KB at the extreme levels: smaller bodies
		sizes := []int{700, 3000, 9000, 30000, 100000}
		if x.Coding == "br" {
			sizes = []int{700, 3000, 9000, 20000, 30000}
		}
		return c54XReq{ID: fmt.Sprintf("x%d%s%d", n, kind, seq), Blen: sizes[g.Intn(5)], Frame: g.PickS([]string{"cl", "chunked"})}
	}
	for i, k := 0, 1+g.Intn(3); i < k; i++ {
		a := c54XAbort{c54XReq: req("a"), Point: []string{"after-headers", "mid-body"}[(n/15+i)%2], Mode: []string{"fin", "rst", "close"}[(n/30+i+g.Intn(3))%3]}
		a.First = []int{16 << 10, 24 << 10, 48 << 10}[g.Intn(3)]
		a.Blen = a.First + []int{1, 4096, 20000, 60000}[g.Intn(4)]
		x.Aborters = append(x.Aborters, a)
	}
	for i, k := 0, g.Intn(3); i < k; i++ {
		x.Inter = append(x.Inter, req("i"))
	}
	// burst1: many small responses (they start on as many scheduler threads as possible right after
	// the aborted exchanges were dropped) plus some of any size
	for i := 0; i < 8; i++ {
		q := req("b")
		q.Blen = []int{700, 3000}[g.Intn(2)]
		x.Burst1 = append(x.Burst1, q)
	}
	for i, k := 0, 2+g.Intn(3); i < k; i++ {
		x.Burst1 = append(x.Burst1, req("b"))
	}
	for i, k := 0, 2+g.Intn(3); i < k; i++ {
		x.Burst2 = append(x.Burst2, req("c"))
	}
	return x
}

// c54XSlowRounds: one round per coding and level with four well-behaved requests whose backend pauses
// (1.6 s) in the middle of the body on a cluster with TimeoutReadClient 400 ms and CancelOnClientClose.
func c54XSlowRounds(base int) []*c54XRound {
	var out []*c54XRound
	for _, co := range []string{"gzip", "br"} {
		for _, l := range c54XLevels {
			x := &c54XRound{N: base + len(out), Coding: co, Cancel: true, Level: l, Slow: true}
			for i, blen := range []int{9000, 30000, 9000, 30000} {
				x.Burst1 = append(x.Burst1, c54XReq{ID: fmt.Sprintf("x%ds%d", x.N, i), Blen: blen, Frame: []string{"cl", "chunked"}[i/2]})
			}
			out = append(out, x)
		}
	}
	return out
}

// ---- execution -----------------------------------------------------------------------------

type c54XEnv struct {
	r    *vkit.Run
	addr string
	be   *c54XBackend
	errs sync.Map // request id -> what bfe itself recorded for the request when it finished (witness only)
}

// noteFinish is bfe's HandleRequestFinish callback for the requests of this family.
func (e *c54XEnv) noteFinish(req *bfe_basic.Request, res *bfe_http.Response) int {
	if req != nil && req.HttpRequest != nil {
		if id := req.HttpRequest.Header.Get("X-Id"); strings.HasPrefix(id, "x") {
			msg := "no error recorded"
			if req.ErrCode != nil {
				msg = req.ErrCode.Error() + ": " + req.ErrMsg
			}
			e.errs.Store(id, msg)
		}
	}
	return bfe_module.BfeHandlerGoOn
}

// bfeSaid returns what bfe recorded for request id (waits a moment: the callback runs after the response was sent).
func (e *c54XEnv) bfeSaid(id string) string {
	for i := 0; i < 40; i++ {
		if v, ok := e.errs.Load(id); ok {
			return v.(string)
		}
		time.Sleep(50 * time.Millisecond)
	}
	return "request finish callback not seen"
}

func (x *c54XRound) request(q *c54XReq, first int) []byte {
	pause := 0
	if x.Slow {
		first, pause = q.Blen/2, c54XSlowPauseMs
	}
	return []byte(fmt.Sprintf("GET /c54/q%d-%s HTTP/1.1\r\nHost: %s\r\nX-Id: %s\r\nX-Blen: %d\r\nX-First: %d\r\nX-Pause-Ms: %d\r\nX-Frame: %s\r\nAccept-Encoding: %s\r\nConnection: close\r\n\r\n",
		x.Level, q.ID, x.host(), q.ID, q.Blen, first, pause, q.Frame, x.Coding))
}

// abort plays one aborter and returns when bfe has dropped the exchange (or a watchdog expired).
func (e *c54XEnv) abort(x *c54XRound, a *c54XAbort) {
	r := e.r
	g := e.be.gate(a.ID)
	released := false
	release := func() {
		if !released {
			released = true
			close(g.release)
		}
	}
	defer release()
	conn, err := net.DialTimeout("tcp", e.addr, 20*time.Second)
	if err != nil {
		r.Count("x_abort_dial_failed", 1)
		return
	}
	defer conn.Close()
	conn.SetDeadline(time.Now().Add(30 * time.Second))
	if _, err := conn.Write(x.request(&a.c54XReq, a.First)); err != nil {
		return
	}
	// read up to the abort point
	var got []byte
	buf := make([]byte, 2048)
	reached := false
	for !reached {
		n, err := conn.Read(buf)
		got = append(got, buf[:n]...)
		if i := bytes.Index(got, []byte("\r\n\r\n")); i >= 0 {
			reached = a.Point == "after-headers" || len(got)-(i+4) >= 1500
		}
		if err != nil {
			break
		}
	}
	if !reached {
		r.Count("x_abort_point_not_reached", 1)
		return
	}
	head := strings.ToLower(string(got[:bytes.Index(got, []byte("\r\n\r\n"))]))
	if !strings.Contains(head, "content-encoding: "+x.Coding) {
		r.Count("x_abort_response_not_compressed", 1)
		return
	}
	tcp := conn.(*net.TCPConn)
	switch a.Mode {
	case "fin":
		tcp.CloseWrite()
	case "rst":
		tcp.SetLinger(0)
		tcp.Close()
	default:
		tcp.Close()
	}
	release()
	if a.Mode == "fin" {
		// a client that has sent FIN and goes away for good a little later
		if x.Cancel {
			select {
			case <-g.gone:
			case <-time.After(300 * time.Millisecond):
			}
		}
		tcp.Close()
	}
	select {
	case <-g.gone:
		r.Count("x_aborted_exchange_dropped_by_bfe", 1)
	case <-time.After(10 * time.Second):
		r.Count("x_aborted_exchange_not_dropped_within_10s(not-judged)", 1)
	}
	cancel := "cancel-off"
	if x.Cancel {
		cancel = "cancel-on"
	}
	r.Count("x_aborts["+x.Coding+":"+cancel+":"+a.Point+":"+a.Mode+"]", 1)
	r.Count("x_aborts_level["+x.Coding+":q"+strconv.Itoa(x.Level)+"]", 1)
}

// good plays one well-behaved request and judges its response.
func (e *c54XEnv) good(x *c54XRound, q *c54XReq, phase string) {
	r := e.r
	key := fmt.Sprintf("x|%s|%v|%d|%d|%s|%s|%d", x.Coding, x.Cancel, x.Level, q.Blen, q.Frame, phase, len(x.Aborters))
	conn, err := net.DialTimeout("tcp", e.addr, 20*time.Second)
	if err != nil {
		r.CaseS(key, false)
		r.Count("x_client_error_skipped", 1)
		return
	}
	defer conn.Close()
	conn.SetDeadline(time.Now().Add(60 * time.Second))
	t0 := time.Now()
	conn.Write(x.request(q, 0))
	raw, err := io.ReadAll(conn)
	took := time.Since(t0)
	if err != nil || len(raw) == 0 {
		r.CaseS(key, false)
		r.Count("x_client_error_skipped", 1)
		return
	}
	ctx := "after-aborted-neighbour"
	if x.Slow {
		ctx = "slow-response-on-cancel-on-client-close-cluster"
	}
	w := map[string]interface{}{"xround": x, "request": q, "phase": phase, "client_head": clip(string(raw), 400), "request_took_ms": took.Milliseconds()}
	if took > 900*time.Millisecond {
		r.Count(fmt.Sprintf("x_wellbehaved_took[%ds]", int(took.Seconds()+0.1)), 1)
	}
	resp, _, rej := http1.ParseResponse(raw, "GET", 1)
	if rej != nil {
		r.CaseS(key, false)
		r.Count("x_wellbehaved_wrong", 1)
		w["bfe_recorded_for_this_request"] = e.bfeSaid(q.ID)
		r.Violation("client-stream-not-a-response:"+rej.Class+":"+ctx, fmt.Sprintf("%v", rej), w)
		return
	}
	if len(http1.Get(resp.Fields, "X-Case")) == 0 {
		r.CaseS(key, false)
		r.Count("x_bfe_error_page", 1)
		return
	}
	want := c54XBody(q.ID, q.Blen)
	ce := strings.ToLower(strings.Join(http1.Get(resp.Fields, "Content-Encoding"), ","))
	if ce == "" {
		r.CaseS(key, false)
		r.Count("x_passed_through", 1)
		if !bytes.Equal(resp.Body, want) {
			r.Violation("uncompressed-body-differs:"+ctx, fmt.Sprintf("client body %d bytes, backend sent %d", len(resp.Body), len(want)), w)
		}
		return
	}
	r.CaseS(key, true)
	var dec []byte
	var derr error
	switch ce {
	case "gzip":
		zr, zerr := gzip.NewReader(bytes.NewReader(resp.Body))
		if zerr != nil {
			derr = zerr
		} else {
			dec, derr = io.ReadAll(zr)
		}
	case "br":
		dec, derr = io.ReadAll(brotli.NewReader(bytes.NewReader(resp.Body)))
	default:
		derr = fmt.Errorf("unknown coding %q", ce)
	}
	w["wire_body_len"] = len(resp.Body)
	switch {
	case derr != nil:
		r.Count("x_wellbehaved_wrong", 1)
		w["bfe_recorded_for_this_request"] = e.bfeSaid(q.ID)
		r.Violation("compressed-body-does-not-decompress:"+ce+":"+ctx, fmt.Sprintf("%v (wire body %d bytes, %d bytes decoded before the error; %s)", derr, len(resp.Body), len(dec), phase), w)
	case !bytes.Equal(dec, want):
		what := fmt.Sprintf("decompressed %d bytes, backend sent %d (%s)", len(dec), len(want), phase)
		if i := bytes.IndexByte(dec, '@'); i > 0 && !bytes.HasPrefix(dec, []byte(q.ID+"@")) {
			what += fmt.Sprintf("; the decoded body starts with the body of request %q", clip(string(dec[:i]), 40))
		}
		r.Count("x_wellbehaved_wrong", 1)
		w["bfe_recorded_for_this_request"] = e.bfeSaid(q.ID)
		what += "; bfe recorded for this request: " + w["bfe_recorded_for_this_request"].(string)
		r.Violation("decompressed-body-differs:"+ce+":"+ctx, what, w)
	}
	r.Count("x_wellbehaved_checked["+phase+"]", 1)
	r.Count("x_wellbehaved_checked["+x.Coding+":q"+strconv.Itoa(x.Level)+"]", 1)
	if r.WantSample() && phase == "burst1" && x.N%7 == 0 {
		r.Sample(map[string]interface{}{"xround": x, "request": q, "phase": phase, "content_encoding": ce, "wire_body_len": len(resp.Body), "backend_body_len": len(want)})
	}
}

func (e *c54XEnv) run(x *c54XRound) {
	var wg sync.WaitGroup
	var aw sync.WaitGroup
	for i := range x.Aborters {
		aw.Add(1)
		go func(a *c54XAbort) { defer aw.Done(); e.abort(x, a) }(&x.Aborters[i])
	}
	burst := func(qs []c54XReq, phase string, wait bool) {
		var bw sync.WaitGroup
		for i := range qs {
			wg.Add(1)
			bw.Add(1)
			go func(q *c54XReq) { defer wg.Done(); defer bw.Done(); e.good(x, q, phase) }(&qs[i])
		}
		if wait {
			bw.Wait()
		}
	}
	if x.Slow {
		burst(x.Burst1, "slow-response", true)
		e.r.Count("x_slow_rounds", 1)
		return
	}
	burst(x.Inter, "interleaved", false)
	aw.Wait()
	burst(x.Burst1, "burst1", true)
	burst(x.Burst2, "burst2", true)
	wg.Wait()
	e.r.Count("x_rounds", 1)
}

// c54XCancelFired: how often bfe's close watcher has cancelled a response so far.
func c54XCancelFired() int64 {
	if c := bfe_http.GetHttpState().HttpCancelOnClientClose; c != nil {
		return int64(c.Get())
	}
	return -1
}

func c54XFinish(r *vkit.Run, fired int64) {
	r.Count("x_close_watcher_fired(bfe counter HTTP_CANCEL_ON_CLIENT_CLOSE)", fired)
	if fired <= 0 {
		r.Inconclusive("interference family: bfe's close watcher never cancelled a response (CancelOnClientClose path not exercised)")
	}
	for _, co := range []string{"gzip", "br"} {
		for _, ca := range []string{"cancel-on", "cancel-off"} {
			for _, p := range []string{"after-headers", "mid-body"} {
				n := int64(0)
				for _, m := range []string{"fin", "rst", "close"} {
					n += r.Counter("x_aborts[" + co + ":" + ca + ":" + p + ":" + m + "]")
				}
				if n == 0 {
					r.Inconclusive("interference family: no aborted " + co + " response (" + ca + ", " + p + ")")
				}
			}
		}
		for _, l := range c54XLevels {
			k := co + ":q" + strconv.Itoa(l)
			if r.Counter("x_aborts_level["+k+"]") == 0 || r.Counter("x_wellbehaved_checked["+k+"]") == 0 {
				r.Inconclusive("interference family: compression level never exercised with an aborted neighbour: " + k)
			}
		}
	}
	for _, m := range []string{"fin", "rst", "close"} {
		n := int64(0)
		for _, p := range []string{"after-headers", "mid-body"} {
			n += r.Counter("x_aborts[gzip:cancel-on:"+p+":"+m+"]") + r.Counter("x_aborts[br:cancel-on:"+p+":"+m+"]")
		}
		if n == 0 {
			r.Inconclusive("interference family: abort mode never observed with CancelOnClientClose: " + m)
		}
	}
	for _, p := range []string{"interleaved", "burst1", "burst2", "slow-response"} {
		if r.Counter("x_wellbehaved_checked["+p+"]") == 0 {
			r.Inconclusive("interference family: no well-behaved request judged in phase " + p)
		}
	}
}
