package main

import (
	"encoding/json"
	"fmt"
	"os"
	"regexp"
	"sort"
	"strings"
	"sync"
	"time"

	"github.com/bfenetworks/bfe/bfe_basic"
	"github.com/bfenetworks/bfe/bfe_http"
	"github.com/bfenetworks/bfe/bfe_module"

	"verifharness/e2e"
	"verifharness/ref/http1"
	"verifharness/vkit"
)

// C25, modules family: the statement says "after configured rewrites". The
// rewrite (mod_rewrite) and request-header (mod_header) actions work on the
// DECODED path / query / cookie / header values of the accepted request and
// write the result into Host, the request target and header fields. This
// family runs a second in-process BFE with mod_trust_clientip, mod_rewrite and
// mod_header enabled, one dedicated product per action configuration, and sends
// requests whose path segments, query keys/values, cookies and header values
// carry percent-encoded and raw hostile bytes over HTTP/1.1, HTTP/2 and SPDY.
// The oracle is the C25 backend-stream oracle: the bytes of the one backend
// connection of a request are exactly one well-formed HTTP/1.1 request, no
// field "Injected", no field that the request bfe accepted (after the rewrites)
// does not have, nothing after the request.
//
// Hooked in without touching c25.go: init() below wraps the C25 entry of the
// dispatch table so that c25Mods runs after c25 (and alone when a replay file
// of this family is given).

func init() {
	e := checks["C25"]
	base := e.fn
	e.fn = func(r *vkit.Run) {
		if r.Replay != "" {
			var w struct {
				ModsCase *c25mCase `json:"mods_case"`
			}
			if err := r.LoadReplay(&w); err == nil && w.ModsCase != nil {
				c25Mods(r)
				return
			}
			base(r)
			return
		}
		// development aid: VERIF_DEBUG_C25_ONLY=mods runs this family alone, =base skips it
		only := os.Getenv("VERIF_DEBUG_C25_ONLY")
		if only != "mods" {
			base(r)
		}
		if only != "base" {
			c25Mods(r)
		}
	}
	checks["C25"] = e
}

// c25mProduct is one action configuration on its own product.
type c25mProduct struct {
	Tag     string   // signature tag
	Rewrite string   // JSON list of mod_rewrite actions ("" = none)
	Header  string   // JSON list of mod_header actions ("" = none)
	Seg1    string   // base first path segment
	Pos     []string // positions of the request that the actions read
	Effect  string   // how "the action was applied" is observed (coverage only, never a verdict)
}

const c25mHSFP = `{"Cmd":"HOST_SET_FROM_PATH_PREFIX","Params":[]}`

var c25mProducts = []c25mProduct{
	{Tag: "rewrite-host-from-path", Rewrite: c25mHSFP, Seg1: "h.example", Pos: []string{"seg1", "seg2", "qval"}, Effect: "host"},
	{Tag: "rewrite-host-from-path+header-request-host", Rewrite: c25mHSFP,
		Header: `{"cmd":"REQ_HEADER_SET","params":["X-Bfe-Rh","%bfe_request_host"]},{"cmd":"REQ_COOKIE_SET","params":["rh","%bfe_request_host"]}`,
		Seg1:   "h.example", Pos: []string{"seg1"}, Effect: "host"},
	{Tag: "rewrite-host-set", Rewrite: `{"Cmd":"HOST_SET","Params":["fixed.example"]}`, Seg1: "a", Pos: []string{"seg1", "qval"}, Effect: "host"},
	{Tag: "rewrite-host-suffix-replace", Rewrite: `{"Cmd":"HOST_SUFFIX_REPLACE","Params":[".c25m.test",".int.example"]}`, Seg1: "a", Pos: []string{"seg1"}, Effect: "host"},
	{Tag: "rewrite-path-set", Rewrite: `{"Cmd":"PATH_SET","Params":["/fixed/p"]}`, Seg1: "a", Pos: []string{"seg1", "last", "qval"}, Effect: "target"},
	{Tag: "rewrite-path-prefix-add", Rewrite: `{"Cmd":"PATH_PREFIX_ADD","Params":["/pre/"]}`, Seg1: "a", Pos: []string{"seg1", "seg2", "last"}, Effect: "target"},
	{Tag: "rewrite-path-prefix-trim", Rewrite: `{"Cmd":"PATH_PREFIX_TRIM","Params":["/trim"]}`, Seg1: "trim", Pos: []string{"seg1", "seg2", "last"}, Effect: "target"},
	{Tag: "rewrite-query-add", Rewrite: `{"Cmd":"QUERY_ADD","Params":["n","1"]}`, Seg1: "a", Pos: []string{"qkey", "qval", "last"}, Effect: "target"},
	{Tag: "rewrite-query-del", Rewrite: `{"Cmd":"QUERY_DEL","Params":["d"]}`, Seg1: "a", Pos: []string{"qkey", "qval", "qother"}, Effect: "target"},
	{Tag: "rewrite-query-rename", Rewrite: `{"Cmd":"QUERY_RENAME","Params":["o","nn"]}`, Seg1: "a", Pos: []string{"qkey", "qval", "qother"}, Effect: "target"},
	{Tag: "rewrite-query-del-all-except", Rewrite: `{"Cmd":"QUERY_DEL_ALL_EXCEPT","Params":["k"]}`, Seg1: "a", Pos: []string{"qkey", "qval", "qother"}, Effect: "target"},
	{Tag: "rewrite-chain", Rewrite: c25mHSFP + `,{"Cmd":"PATH_PREFIX_ADD","Params":["/pre/"]},{"Cmd":"QUERY_ADD","Params":["n","1"]},{"Cmd":"QUERY_RENAME","Params":["o","nn"]}`,
		Seg1: "h.example", Pos: []string{"seg1", "seg2", "qval"}, Effect: "host"},
	{Tag: "header-set-variables",
		Header: `{"cmd":"REQ_HEADER_SET","params":["X-Bfe-Rh","%bfe_request_host"]},{"cmd":"REQ_HEADER_ADD","params":["X-Bfe-Info","h=%bfe_request_host;ip=%bfe_client_ip;port=%bfe_client_port;proto=%bfe_protocol"]}`,
		Seg1:   "a", Pos: []string{"hdr:x-forwarded-host", "hdr:x-forwarded-for", "hdr:x-forwarded-port", "hdr:x-real-ip", "hdr:x-real-port"}, Effect: "hdr:X-Bfe-Rh"},
	{Tag: "header-rename", Header: `{"cmd":"REQ_HEADER_RENAME","params":["X-Src","X-Dst"]}`, Seg1: "a", Pos: []string{"hdr:x-src"}, Effect: "hdr:X-Dst"},
	{Tag: "header-mod-referer-query-add", Header: `{"cmd":"REQ_HEADER_MOD","params":["QUERY_ADD","Referer","rk","rv"]}`, Seg1: "a", Pos: []string{"hdr:referer", "hdr:referer-userinfo", "hdr:referer-fragment"}, Effect: "referer"},
	{Tag: "header-mod-referer-scheme-set", Header: `{"cmd":"REQ_HEADER_MOD","params":["SCHEME_SET","Referer","https"]}`, Seg1: "a", Pos: []string{"hdr:referer", "hdr:referer-userinfo", "hdr:referer-fragment"}, Effect: "referer"},
	{Tag: "cookie-set", Header: `{"cmd":"REQ_COOKIE_SET","params":["sid","newval"]}`, Seg1: "a", Pos: []string{"cookie-ruled", "cookie-other", "cookie-name"}, Effect: "cookie"},
	{Tag: "cookie-del", Header: `{"cmd":"REQ_COOKIE_DEL","params":["sid"]}`, Seg1: "a", Pos: []string{"cookie-ruled", "cookie-other", "cookie-name"}, Effect: "cookie"},
}

// ruled key of the query actions ("" = none): the part whose key the rule names.
func (p *c25mProduct) ruledKey() string {
	switch {
	case strings.Contains(p.Rewrite, "QUERY_DEL_ALL_EXCEPT"):
		return "k"
	case strings.Contains(p.Rewrite, "QUERY_DEL"):
		return "d"
	case strings.Contains(p.Rewrite, "QUERY_RENAME"):
		return "o"
	}
	return "k"
}

func (p *c25mProduct) host() string { return p.Tag2() + ".c25m.test" }

// Tag2 is the tag reduced to host-name characters.
func (p *c25mProduct) Tag2() string { return strings.NewReplacer("+", "-and-").Replace(p.Tag) }

// c25mPayload is one hostile byte string: pct-* = percent-encoded (a decoding
// action turns it into the raw bytes), raw-* = the bytes themselves.
type c25mPayload struct {
	Tag, S  string
	BinOnly bool   // raw bytes that are message structure on HTTP/1 (CR, LF, SP, NUL ...): HTTP/2 and SPDY only
	URLOnly bool   // only meaningful inside the request target
	Only    string // if set: only at these positions (space separated); a variant that matters only where it is decoded
}

var c25mPayloads = []c25mPayload{
	{Tag: "pct-crlf-field", S: "%0d%0aInjected:%201", URLOnly: false},
	{Tag: "pct-crlf-field-upper-hex", S: "%0D%0AInjected:%201", URLOnly: true, Only: "seg1 qkey qval"},
	{Tag: "pct-lf-field", S: "%0aInjected:%201", URLOnly: true},
	{Tag: "pct-cr-field", S: "%0dInjected:%201", URLOnly: true},
	{Tag: "pct-crlfcrlf-request", S: "%0d%0a%0d%0aGET%20/smuggled%20HTTP/1.1%0d%0aHost:%20x%0d%0a%0d%0a", URLOnly: true},
	{Tag: "pct-request-line", S: "%20HTTP/1.1%0d%0aInjected:%201%0d%0aX-Rest:%20", URLOnly: true},
	{Tag: "pct-nul", S: "%00"},
	{Tag: "pct-ctl", S: "%01", URLOnly: true}, // the seed picks the control byte
	{Tag: "pct-del", S: "%7f", URLOnly: true},
	{Tag: "pct-sp", S: "%20x", URLOnly: true},
	{Tag: "pct-htab", S: "%09x", URLOnly: true},
	{Tag: "pct-double-crlf", S: "%250d%250aInjected:%25201", URLOnly: true},
	{Tag: "pct-obs-text", S: "%e9%ff", URLOnly: true},
	{Tag: "pct-delims", S: "%2f%3f%23%40x", URLOnly: true, Only: "seg1 seg2 last"},
	{Tag: "plus-space", S: "+x", URLOnly: true, Only: "qkey qval qother"},
	{Tag: "raw-obs-text", S: "\xe9\xff"},
	{Tag: "raw-crlf-field", S: "\r\nInjected: 1", BinOnly: true},
	{Tag: "raw-lf-field", S: "\nInjected: 1", BinOnly: true},
	{Tag: "raw-nul", S: "\x00", BinOnly: true},
	{Tag: "raw-del", S: "\x7f", BinOnly: true},
	{Tag: "raw-sp", S: " x", BinOnly: true},
}

type c25mCell struct {
	prod    int
	pos     string
	payload int
}

func c25mURLPos(pos string) bool {
	return !strings.HasPrefix(pos, "hdr:") && !strings.HasPrefix(pos, "cookie")
}

// c25mCells enumerates every (product, position, payload) of a frontend.
func c25mCells(frontend string) []c25mCell {
	var out []c25mCell
	for pi := range c25mProducts {
		for _, pos := range c25mProducts[pi].Pos {
			for yi, y := range c25mPayloads {
				if y.BinOnly && frontend == "h1" {
					continue
				}
				if y.URLOnly && !c25mURLPos(pos) {
					continue
				}
				if y.Only != "" && !strings.Contains(" "+y.Only+" ", " "+pos+" ") {
					continue
				}
				out = append(out, c25mCell{pi, pos, yi})
			}
		}
	}
	return out
}

type c25mCase struct {
	ID       string   `json:"id"`
	Frontend string   `json:"frontend"`
	Product  string   `json:"product"`
	Pos      string   `json:"position"`
	Payload  string   `json:"payload"`
	Place    string   `json:"place"`
	Method   string   `json:"method"`
	Host     string   `json:"host"`
	Target   string   `json:"target"`
	Fields   []e2e.HF `json:"fields"`
	Body     string   `json:"body"`
}

var c25mBaseFields = []e2e.HF{
	{Name: "referer", Value: "http://ref.example/p/q?x=1"},
	{Name: "x-src", Value: "src value"},
	{Name: "x-forwarded-host", Value: "front.example"},
	{Name: "x-forwarded-for", Value: "203.0.113.7, 198.51.100.2"},
	{Name: "x-forwarded-port", Value: "8443"},
	{Name: "x-real-ip", Value: "203.0.113.9"},
	{Name: "x-real-port", Value: "40000"},
	{Name: "user-agent", Value: "c25m-agent/1.0"},
}

func c25mPlace(g *vkit.Rand, base, pay, place string) string {
	switch place {
	case "start":
		return pay + base
	case "end":
		return base + pay
	}
	k := 1
	if len(base) > 2 {
		k = 1 + g.Intn(len(base)-1)
	}
	return base[:k] + pay + base[k:]
}

// c25mGen builds the case of one cell. The seed picks the place of the payload
// inside the ingredient, the control byte of pct-ctl, the method and the body.
func c25mGen(g *vkit.Rand, id int, frontend string, cell c25mCell) *c25mCase {
	p := &c25mProducts[cell.prod]
	y := c25mPayloads[cell.payload]
	c := &c25mCase{ID: fmt.Sprintf("m%dz", id), Frontend: frontend, Product: p.Tag, Pos: cell.pos, Payload: y.Tag, Method: "GET", Host: p.host()}
	c.Place = g.PickS([]string{"start", "middle", "end", "end"})
	pay := y.S
	if y.Tag == "pct-ctl" {
		for {
			b := 1 + g.Intn(0x1f)
			if b != '\t' && b != '\n' && b != '\r' {
				pay = fmt.Sprintf("%%%02x", b)
				break
			}
		}
	}
	if g.Chance(1, 4) {
		c.Method = "POST"
		c.Body = "body-" + c.ID + strings.Repeat("b", g.Intn(40))
	}
	put := func(base string) string { return c25mPlace(g, base, pay, c.Place) }
	seg1, seg2, last := p.Seg1, "s2", "last-"+c.ID
	rk := p.ruledKey()
	qparts := []string{"k=v1", "d=v2", "o=v3", "x=v4"}
	cookies := []string{"sid=abc123", "theme=dark", "other=1"}
	switch cell.pos {
	case "seg1":
		if p.Seg1 == "trim" { // keep the configured prefix, the hostile bytes follow it
			seg1 = "trim" + pay
			c.Place = "end"
		} else {
			seg1 = put(seg1)
		}
	case "seg2":
		seg2 = put(seg2)
	case "last":
		last = put(last)
	case "qkey": // a further part whose key starts with the ruled key
		qparts = append(qparts[:2:2], append([]string{rk + pay + "=v9"}, qparts[2:]...)...)
		c.Place = "end"
	case "qval":
		for i, q := range qparts {
			if strings.HasPrefix(q, rk+"=") {
				qparts[i] = rk + "=" + put(q[len(rk)+1:])
			}
		}
	case "qother":
		qparts[3] = "x=" + put("v4")
	case "cookie-ruled":
		cookies[0] = "sid=" + put("abc123")
	case "cookie-other":
		cookies[1] = "theme=" + put("dark")
	case "cookie-name":
		cookies = append(cookies, put("nm")+"=1")
	}
	c.Target = "/" + seg1 + "/" + seg2 + "/" + last + "?" + strings.Join(qparts, "&")
	for _, f := range c25mBaseFields {
		switch {
		case f.Name == "referer" && cell.pos == "hdr:referer":
			// inside the path of the URL: the component REQ_HEADER_MOD decodes and re-encodes
			f.Value = "http://ref.example/" + put("p") + "/q?x=1"
		case f.Name == "referer" && cell.pos == "hdr:referer-userinfo":
			f.Value = "http://" + put("user") + "@ref.example/p/q?x=1"
		case f.Name == "referer" && cell.pos == "hdr:referer-fragment":
			f.Value = "http://ref.example/p/q?x=1#" + put("frag")
		case cell.pos == "hdr:"+f.Name:
			f.Value = put(f.Value)
		}
		c.Fields = append(c.Fields, f)
	}
	c.Fields = append(c.Fields, e2e.HF{Name: "cookie", Value: strings.Join(cookies, "; ")})
	return c
}

func (c *c25mCase) send(srv *e2e.Server) string {
	// the transport code is the one of the base family
	b := &c25Case{ID: c.ID, Frontend: c.Frontend, Method: c.Method, Target: c.Target, Host: c.Host, Fields: c.Fields, Body: c.Body}
	return b.send(srv)
}

var c25mMarkerRe = regexp.MustCompile(`(?i:\nx-id:[ \t]*)(m[0-9]+z)`)

func c25mMarker(raw []byte) string {
	if m := c25mMarkerRe.FindSubmatch(raw); m != nil {
		return string(m[1])
	}
	return ""
}

func c25mConf() (hostRule, routeRule, rewrite, header string) {
	hosts := map[string][]string{}
	tags := map[string][]string{}
	routes := map[string][]map[string]string{}
	var rw, hd []string
	for i := range c25mProducts {
		p := &c25mProducts[i]
		prod := fmt.Sprintf("p_c25m_%02d", i)
		tag := fmt.Sprintf("t_c25m_%02d", i)
		hosts[tag] = []string{p.host()}
		tags[prod] = []string{tag}
		routes[prod] = []map[string]string{{"Cond": "default_t()", "ClusterName": "c25m"}}
		if p.Rewrite != "" {
			rw = append(rw, fmt.Sprintf(`%q:[{"Cond":"default_t()","Actions":[%s],"Last":true}]`, prod, p.Rewrite))
		}
		if p.Header != "" {
			hd = append(hd, fmt.Sprintf(`%q:[{"cond":"default_t()","actions":[%s],"last":true}]`, prod, p.Header))
		}
	}
	hr, _ := json.Marshal(map[string]interface{}{"Version": "v1", "DefaultProduct": nil, "Hosts": hosts, "HostTags": tags})
	rr, _ := json.Marshal(map[string]interface{}{"Version": "v1", "ProductRule": routes})
	return string(hr), string(rr),
		`{"Version":"v1","Config":{` + strings.Join(rw, ",") + `}}`,
		`{"Version":"v1","Config":{` + strings.Join(hd, ",") + `}}`
}

const c25mRule = "MODULES FAMILY (c25mods.go): a second in-process BFE with mod_trust_clientip (loopback trusted, so X-Real-Ip / X-Forwarded-For of the request are read), mod_rewrite and mod_header (default X-Forwarded-* / X-Real-* fields on), HTTP + HTTPS (ALPN h2, spdy/3.1), backend keep-alive off; 18 products, one per action configuration: HOST_SET_FROM_PATH_PREFIX (alone; with REQ_HEADER_SET/REQ_COOKIE_SET %bfe_request_host; in a chain with PATH_PREFIX_ADD, QUERY_ADD, QUERY_RENAME), HOST_SET, HOST_SUFFIX_REPLACE, PATH_SET, PATH_PREFIX_ADD, PATH_PREFIX_TRIM, QUERY_ADD, QUERY_DEL, QUERY_RENAME, QUERY_DEL_ALL_EXCEPT, REQ_HEADER_SET/ADD with %bfe_request_host %bfe_client_ip %bfe_client_port %bfe_protocol, REQ_HEADER_RENAME, REQ_HEADER_MOD QUERY_ADD / SCHEME_SET on Referer, REQ_COOKIE_SET, REQ_COOKIE_DEL. Every request is /seg1/seg2/last?k=..&d=..&o=..&x=.. with Referer, X-Src, X-Forwarded-Host/-For/-Port, X-Real-Ip/-Port, User-Agent, Cookie (sid, theme, other); ONE ingredient that the product's actions read (first / second / last path segment, a query key starting with the ruled key, the ruled query value, another query value, the ruled / another cookie value, a cookie name, one of the header values; for Referer: its path, userinfo or fragment) carries ONE hostile byte string at its start / middle / end: percent-encoded CR LF + 'Injected: 1' (lower and upper hex), LF + field, CR + field, CR LF CR LF + a second request, SP 'HTTP/1.1' CR LF + field (request-line break), NUL, another CTL, DEL, SP, HTAB, doubly encoded CR LF (%250d%250a), obs-text, encoded delimiters (%2f%3f%23%40), '+'; raw obs-text; on HTTP/2 and SPDY also raw CR LF + field, LF + field, NUL, DEL, SP (on HTTP/1 these are message structure, not bytes of an ingredient). Header and cookie positions take pct-crlf, pct-nul and the raw strings only (nothing decodes the others there); upper-hex only at the first segment / ruled query key / value, encoded delimiters only in path segments, '+' only in the query. ALL cells (frontend, product, position, byte string) are enumerated in every run (thorough: 10 times); the seed picks the place, the control byte, the method/body and the order. Oracle = the C25 backend-stream oracle on the bytes of the backend connection(s) that carry the request's X-Id: one connection; strict RFC 7230 parse (same named exclusion for bytes >= 0x80 in the target) of exactly one request using all bytes; no field 'Injected'; method, target and Host equal what a harness filter placed after the modules saw as the accepted, rewritten request; every field is a field of that request or one bfe adds for its own hop; body equal. A request bfe refuses is always fine. Host syntax beyond the field grammar is not judged; a Host left empty by HOST_SET_FROM_PATH_PREFIX on an empty first segment (docs silent, same exclusion as C49) is not compared. After a structural finding (extra bytes, field 'Injected') the equality comparisons of that case are skipped, they would repeat it. Non-trivial = forwarded with the hostile ingredient; distinct = cell. Inconclusive if a (frontend, product) never forwarded a request or never showed the effect of its actions, or a byte string was never forwarded on a frontend that accepts it."

type c25mAccepted struct {
	Method, RequestURI, Host, Target string
	Header                           map[string][]string
}

// c25Mods is the modules family of C25.
func c25Mods(r *vkit.Run) {
	r.Extra("modules_family_rule", c25mRule)
	r.Assume("modules family: the harness filter that records the accepted, rewritten request is registered after the modules at HandleAfterLocation, the last point at which mod_rewrite / mod_header change a request")
	bs := e2e.NewBackendSet()
	defer bs.Close()
	be := bs.New("bm1", func(x *e2e.Exchange) e2e.Action {
		return e2e.Action{Status: 200, Body: []byte("ok"), Header: [][2]string{{"Connection", "close"}}, CloseAfter: true}
	})
	hostRule, routeRule, rewrite, header := c25mConf()
	srv, err := e2e.Start(&e2e.Options{HTTPS: true,
		TLSRule: `{"Version":"1","DefaultNextProtos":["h2","spdy/3.1","http/1.1"],"Config":{}}`,
		Modules: []string{"mod_trust_clientip", "mod_rewrite", "mod_header"},
		Clusters: []e2e.Cluster{{
			// a backend that can not parse what it got (that is the finding) never answers:
			// do not wait the default 5 s for it. Timing out is never a verdict, the
			// backend record is judged either way.
			Name: "c25m", MaxIdleConnsPerHost: 0, TimeoutResponseHeader: 1500,
			SubClusters: []e2e.SubCluster{{Name: "sub1", Weight: 100, Backends: []e2e.Backend{{Name: "bm1", Addr: be.Addr, Port: be.Port, Weight: 10}}}},
		}},
		Files: map[string]string{
			"server_data_conf/host_rule.data":         hostRule,
			"server_data_conf/route_rule.data":        routeRule,
			"mod_rewrite/rewrite.data":                rewrite,
			"mod_header/header_rule.data":             header,
			"mod_trust_clientip/trust_client_ip.data": `{"Version":"v1","Config":{"lo":[{"Begin":"127.0.0.1","End":"127.0.0.1"}]}}`,
		},
	})
	if err != nil {
		r.Inconclusive("modules family: server start: " + err.Error())
		return
	}
	defer srv.Close()
	var mu sync.Mutex
	accepted := map[string]*c25mAccepted{}
	forwarding := map[string]bool{}
	srv.Srv.CallBacks.AddFilter(bfe_module.HandleAfterLocation, func(req *bfe_basic.Request) (int, *bfe_http.Response) {
		h := req.HttpRequest
		a := &c25mAccepted{Method: h.Method, RequestURI: h.RequestURI, Host: h.Host, Header: map[string][]string{}}
		if h.URL != nil {
			a.Target = h.URL.RequestURI()
		}
		for k, vv := range h.Header {
			a.Header[k] = append([]string(nil), vv...)
		}
		mu.Lock()
		accepted[h.Header.Get("X-Id")] = a
		mu.Unlock()
		return bfe_module.BfeHandlerGoOn, nil
	})
	srv.Srv.CallBacks.AddFilter(bfe_module.HandleForward, func(req *bfe_basic.Request) int {
		mu.Lock()
		forwarding[req.HttpRequest.Header.Get("X-Id")] = true
		mu.Unlock()
		return bfe_module.BfeHandlerGoOn
	})

	var cases []*c25mCase
	if r.Replay != "" {
		var w struct {
			ModsCase c25mCase `json:"mods_case"`
		}
		if err := r.LoadReplay(&w); err != nil {
			r.Inconclusive(err.Error())
			return
		}
		cases = append(cases, &w.ModsCase)
		r.SetMinDistinct(0)
	} else {
		rounds := r.N(1, 10)
		id := 0
		for round := 0; round < rounds; round++ {
			for fi, fe := range []string{"h1", "h2", "spdy"} {
				cells := c25mCells(fe)
				for _, k := range r.Rng("mods-order", round, fi).Perm(len(cells)) {
					cases = append(cases, c25mGen(r.Rng("mods-case", id), id, fe, cells[k]))
					id++
				}
			}
		}
		// interleave the frontends
		g := r.Rng("mods-shuffle", 0)
		perm := g.Perm(len(cases))
		sh := make([]*c25mCase, len(cases))
		for i, k := range perm {
			sh[i] = cases[k]
		}
		cases = sh
	}
	status := make([]string, len(cases))
	t0 := time.Now()
	vkit.Parallel(len(cases), 24, func(i int) { status[i] = cases[i].send(srv) })
	tSend := time.Since(t0)

	// quiescence (bounded, never a verdict): a backend record is complete when its
	// connection has ended; wait until every request that reached the forward
	// step has a finished record.
	conns := be.Snapshot()
	for try := 0; try < 200; try++ {
		seen := map[string]bool{}
		for _, cr := range conns {
			if id := c25mMarker(cr.Raw); id != "" {
				seen[id] = true
			}
		}
		mu.Lock()
		missing := 0
		for id := range forwarding {
			if !seen[id] {
				missing++
			}
		}
		mu.Unlock()
		if missing == 0 {
			break
		}
		time.Sleep(50 * time.Millisecond)
		conns = be.Snapshot()
	}
	if os.Getenv("VERIF_DEBUG_C25_ONLY") != "" {
		fmt.Fprintf(os.Stderr, "c25mods: %d cases, send %v, send+settle %v\n", len(cases), tSend, time.Since(t0))
	}
	byID := map[string][]e2e.ConnRecord{}
	for _, cr := range conns {
		if id := c25mMarker(cr.Raw); id != "" {
			byID[id] = append(byID[id], cr)
		} else if len(cr.Raw) > 0 {
			r.Count("mods_backend_connections_without_marker", 1)
			if _, n, rej := http1.ParseRequest(cr.Raw); rej != nil || n != len(cr.Raw) {
				r.Violation("forwarded:not-well-formed:backend-bytes-without-request-marker:modules", fmt.Sprintf("a backend connection of the modules family received bytes that carry no request marker and are not one well-formed request: %q", clip(string(cr.Raw), 300)), map[string]interface{}{"backend_bytes": string(cr.Raw)})
			}
		}
	}
	mu.Lock()
	defer mu.Unlock()
	prodByTag := map[string]*c25mProduct{}
	for i := range c25mProducts {
		prodByTag[c25mProducts[i].Tag] = &c25mProducts[i]
	}
	fwdBy := map[string]int64{}     // frontend|product -> forwarded
	appliedBy := map[string]int64{} // frontend|product -> effect seen
	payFwd := map[string]int64{}    // frontend|payload -> forwarded
	payAll := map[string]int64{}
	nSample := 0
	for i, c := range cases {
		p := prodByTag[c.Product]
		out := c25Outcome(status[i])
		crs := byID[c.ID]
		if len(crs) > 0 {
			out = "fwd"
		} else if out == "ok" {
			out = "ok-without-backend-record"
		}
		r.Count("mods_"+c.Frontend+"_"+out, 1)
		r.Count("mods_product_"+c.Product+"_"+out, 1)
		r.Count("mods_payload_"+c.Payload+"_"+c.Frontend+"_"+out, 1)
		r.Count("mods_position_"+strings.Replace(c.Pos, ":", "_", -1)+"_"+out, 1)
		payAll[c.Frontend+"|"+c.Payload]++
		key := "mods|" + c.Frontend + "|" + c.Product + "|" + c.Pos + "|" + c.Payload
		if len(crs) == 0 {
			r.CaseS(key, false)
			continue
		}
		r.CaseS(key, true)
		payFwd[c.Frontend+"|"+c.Payload]++
		fwdBy[c.Frontend+"|"+c.Product]++
		acc := accepted[c.ID]
		if p != nil && acc != nil && c25mApplied(p, c, acc) {
			appliedBy[c.Frontend+"|"+c.Product]++
		}
		raw := crs[0].Raw
		w := map[string]interface{}{"mods_case": c, "client_status": status[i], "accepted_after_modules": acc, "backend_bytes": string(raw)}
		sigp := c.Frontend + ":" + c.Product
		where := fmt.Sprintf("(%s in %s, %s)", c.Payload, c.Pos, c.Place)
		if len(crs) > 1 {
			r.Violation("forwarded:more-than-one-backend-connection:"+sigp, fmt.Sprintf("%d backend connections carry the marker of one request %s", len(crs), where), w)
		}
		req, n, rej, obsTarget := c25ParseBackend(raw)
		if obsTarget {
			r.Count("mods_target_obs_text_forwarded_"+c.Frontend+"_judged_by_equality_only", 1)
		}
		if rej != nil {
			r.Violation("forwarded:not-well-formed:"+rej.Class+":"+sigp, fmt.Sprintf("backend byte stream rejected by the strict parser %s: %v; bytes %q", where, rej, clip(string(raw), 200)), w)
			continue
		}
		structural := false // the stream is not one request with the client's fields: the comparisons below would only repeat it
		if n != len(raw) {
			structural = true
			r.Violation("forwarded:extra-bytes-after-request:"+sigp, fmt.Sprintf("%d bytes follow the first request on the backend connection %s: %q", len(raw)-n, where, clip(string(raw[n:]), 200)), w)
		}
		for _, f := range req.Fields {
			if strings.EqualFold(f.Name, "Injected") {
				structural = true
				r.Violation("forwarded:injected-header-field:"+sigp, fmt.Sprintf("bytes of the client's request %s created the header field 'Injected' at the backend: %q", where, clip(string(raw), 200)), w)
			}
		}
		if structural {
			continue
		}
		if acc == nil {
			r.Count("mods_forwarded_without_accept_log", 1)
			continue
		}
		if req.Method != acc.Method {
			r.Violation("forwarded:method-differs:"+sigp, fmt.Sprintf("backend method %q, accepted %q %s", req.Method, acc.Method, where), w)
		}
		if req.Target != acc.RequestURI && req.Target != acc.Target {
			r.Violation("forwarded:target-differs:"+sigp, fmt.Sprintf("backend target %q, accepted %q (RequestURI) / %q (URL after rewrite) %s", req.Target, acc.RequestURI, acc.Target, where), w)
		}
		for _, f := range req.Fields {
			ck := bfe_http.CanonicalHeaderKey(f.Name)
			switch ck {
			case "Host":
				if acc.Host == "" {
					// HOST_SET_FROM_PATH_PREFIX with an empty first segment ("//x", "/%2f..") leaves
					// an empty Host and Request.write falls back to the address it dials. The
					// documentation is silent on that segment (C49 names the same exclusion).
					r.Count("mods_host_empty_after_rewrite_not_judged", 1)
					continue
				}
				if f.Value != acc.Host && f.Value != c25NormValue(acc.Host) {
					r.Violation("forwarded:host-differs:"+sigp, fmt.Sprintf("backend Host %q, accepted after rewrite %q %s", f.Value, acc.Host, where), w)
				}
				continue
			case "Content-Length", "Transfer-Encoding", "Connection", "User-Agent", "Accept-Encoding":
				if _, ok := acc.Header[ck]; !ok {
					continue // added by bfe for its own hop
				}
			}
			vals, ok := acc.Header[f.Name]
			if !ok {
				vals, ok = acc.Header[ck]
			}
			found := false
			for _, v := range vals {
				if c25NormValue(v) == f.Value {
					found = true
				}
			}
			if !ok || !found {
				if ck == "Content-Length" || ck == "Transfer-Encoding" || ck == "Connection" {
					continue
				}
				r.Violation("forwarded:field-not-in-accepted-request:"+sigp, fmt.Sprintf("backend field %q: %q is not a field of the accepted, rewritten request %s", f.Name, f.Value, where), w)
			}
		}
		if string(req.Body) != c.Body {
			r.Violation("forwarded:body-differs:"+sigp, fmt.Sprintf("backend body %q, client sent %q %s", clip(string(req.Body), 100), clip(c.Body, 100), where), w)
		}
		if nSample < 2 && r.WantSample() && strings.HasPrefix(c.Payload, "pct-crlf") {
			nSample++
			r.Sample(w)
		}
	}
	for k, v := range e2e_panics(srv) {
		if v != 0 {
			r.Violation("panic-counter:modules:"+k, fmt.Sprintf("%s=%d", k, v), nil)
		}
	}
	if r.Replay != "" {
		return
	}
	r.Count("mods_cases", int64(len(cases)))
	r.Extra("modules_family_forwarded_by_frontend_product", fwdBy)
	r.Extra("modules_family_effect_seen_by_frontend_product", appliedBy)
	var incon []string
	for _, fe := range []string{"h1", "h2", "spdy"} {
		for i := range c25mProducts {
			k := fe + "|" + c25mProducts[i].Tag
			if fwdBy[k] == 0 {
				incon = append(incon, "never forwarded: "+k)
			} else if appliedBy[k] == 0 {
				incon = append(incon, "effect of the actions never seen: "+k)
			}
		}
		// every percent-encoded byte string is legal inside a request target: each
		// must have been forwarded on each frontend (raw strings may all be refused)
		for _, y := range c25mPayloads {
			k := fe + "|" + y.Tag
			if payAll[k] > 0 && payFwd[k] == 0 && !strings.HasPrefix(y.Tag, "raw-") {
				incon = append(incon, "byte string never forwarded: "+k)
			}
		}
	}
	sort.Strings(incon)
	for i, s := range incon {
		if i < 4 {
			r.Inconclusive("modules family: " + s)
		}
	}
	r.Count("mods_coverage_gaps", int64(len(incon)))
}

// c25mApplied reports whether the effect of the product's actions is visible in
// the accepted request (coverage accounting only).
func c25mApplied(p *c25mProduct, c *c25mCase, acc *c25mAccepted) bool {
	sent := func(name string) string {
		for _, f := range c.Fields {
			if f.Name == name {
				return f.Value
			}
		}
		return ""
	}
	switch {
	case p.Effect == "host":
		return acc.Host != c.Host
	case p.Effect == "target":
		return acc.Target != c.Target
	case strings.HasPrefix(p.Effect, "hdr:"):
		return len(acc.Header[p.Effect[4:]]) > 0
	case p.Effect == "referer":
		return strings.Join(acc.Header["Referer"], "\x00") != sent("referer")
	case p.Effect == "cookie":
		return strings.Join(acc.Header["Cookie"], "\x00") != sent("cookie")
	}
	return false
}
