package main

import (
	"bytes"
	"compress/gzip"
	"fmt"
	"io"
	"net"
	"strconv"
	"strings"
	"time"

	"github.com/andybalholm/brotli"
	"github.com/bfenetworks/bfe/bfe_module"

	"verifharness/e2e"
	"verifharness/ref/http1"
	"verifharness/vkit"
)

// C54: when the compression module compresses a response the client receives a
// body that decompresses (gzip or brotli, as announced in Content-Encoding) to
// exactly the backend body, with no stale Content-Length, and only if the
// request accepted that encoding.

type c54Case struct {
	ID     string   `json:"id"`
	Host   string   `json:"host"` // gz.c54.test | br.c54.test | none.c54.test
	Method string   `json:"method"`
	AE     string   `json:"accept_encoding"`                      // "-" = header absent
	AE2    []string `json:"accept_encoding_more_lines,omitempty"` // further Accept-Encoding field lines
	Sfx    string   `json:"path_suffix,omitempty"`                // "/gz": selects the GZIP rule of the mixed product
	Shapes []string `json:"ae_shapes,omitempty"`                  // generated Accept-Encoding: grammar shapes it exhibits
	Status int      `json:"status"`
	Blen   int      `json:"blen"`
	Kind   string   `json:"kind"`  // text | random | pregzip
	Frame  string   `json:"frame"` // cl | chunked
	Minor  int      `json:"minor"`
}

func c54Body(id string, n int, kind string) []byte {
	g := vkit.NewRand(vkit.Hash64(id))
	b := make([]byte, n)
	switch kind {
	case "random":
		copy(b, g.Bytes(n))
	default:
		words := []string{"lorem ", "ipsum ", "dolor ", "sit ", "amet ", id + " ", "\n"}
		var sb bytes.Buffer
		for sb.Len() < n {
			sb.WriteString(words[g.Intn(len(words))])
		}
		copy(b, sb.Bytes())
	}
	return b
}

// aeLines returns the Accept-Encoding field lines of the request (nil = none).
func (c *c54Case) aeLines() []string {
	if c.AE == "-" {
		return nil
	}
	return append([]string{c.AE}, c.AE2...)
}

func (c *c54Case) bytes() []byte {
	var sb strings.Builder
	fmt.Fprintf(&sb, "%s /c54/%s%s HTTP/1.%d\r\nHost: %s\r\nX-Id: %s\r\nX-Status: %d\r\nX-Blen: %d\r\nX-Kind: %s\r\nX-Frame: %s\r\n", c.Method, c.ID, c.Sfx, c.Minor, c.Host, c.ID, c.Status, c.Blen, c.Kind, c.Frame)
	for _, l := range c.aeLines() {
		fmt.Fprintf(&sb, "Accept-Encoding: %s\r\n", l)
	}
	if c.Minor == 0 {
		sb.WriteString("Connection: keep-alive\r\n")
	}
	sb.WriteString("\r\n")
	return []byte(sb.String())
}

var c54AEs = []string{"-", "", "gzip", "br", "gzip, br", "br, gzip", "gzip;q=0", "br;q=0", "gzip;q=0, br", "gzip;q=0.5, br;q=1.0",
	"identity", "*", "*;q=0", "deflate", "GZIP", "BR", "x-gzip", "gzipx", "gzip ;q=0", "identity;q=1, gzip;q=0", "gzip;q=0.000", "deflate, gzip;q=1.0, *;q=0.5"}

func c54Backend(x *e2e.Exchange) e2e.Action {
	h := x.Req.Header
	id := h.Get("X-Id")
	if strings.HasPrefix(id, "probe") {
		return e2e.Action{Status: 200, Body: []byte("probe-ok " + id)}
	}
	status, _ := strconv.Atoi(h.Get("X-Status"))
	blen, _ := strconv.Atoi(h.Get("X-Blen"))
	kind := h.Get("X-Kind")
	body := c54Body(id, blen, kind)
	hdr := [][2]string{{"X-Case", id}, {"Content-Type", "text/plain"}}
	if kind == "pregzip" {
		var zb bytes.Buffer
		zw := gzip.NewWriter(&zb)
		zw.Write(body)
		zw.Close()
		body = zb.Bytes()
		hdr = append(hdr, [2]string{"Content-Encoding", "gzip"})
	}
	if status == 206 {
		hdr = append(hdr, [2]string{"Content-Range", fmt.Sprintf("bytes 0-%d/%d", len(body)-1, len(body)+100)})
	}
	a := e2e.Action{Status: status, Header: hdr, Body: body, ChunkSizes: []int{333, 4096, 1}}
	if x.Req.Method == "HEAD" || status == 204 || status == 304 {
		a.Body = nil
		if x.Req.Method == "HEAD" {
			a.Header = append(a.Header, [2]string{"Content-Length", strconv.Itoa(len(body))})
		} else {
			a.Header = append(a.Header, [2]string{"Content-Length", "0"})
		}
		if status == 204 || status == 304 {
			var w bytes.Buffer
			fmt.Fprintf(&w, "HTTP/1.1 %d X\r\nX-Case: %s\r\n\r\n", status, id)
			return e2e.Action{Raw: w.Bytes()}
		}
		var w bytes.Buffer
		fmt.Fprintf(&w, "HTTP/1.1 %d X\r\n", status)
		for _, kv := range a.Header {
			fmt.Fprintf(&w, "%s: %s\r\n", kv[0], kv[1])
		}
		w.WriteString("\r\n")
		return e2e.Action{Raw: w.Bytes()}
	}
	if h.Get("X-Frame") == "chunked" {
		a.Chunked = true
	}
	return a
}

func c54(r *vkit.Run) {
	r.SetRule("full in-process BFE with mod_compress (GZIP rule for one host, BROTLI for another, no rule for a third); requests with 22 Accept-Encoding shapes (absent, empty, q-values incl. q=0, '*', case variants, look-alikes x-gzip/gzipx) x GET/HEAD x HTTP/1.0/1.1; backend bodies 0 B..2 MB (compressible text, random bytes, already gzip-encoded with Content-Encoding) framed by Content-Length or chunked, statuses 200/206+Content-Range/204/304/404; the client byte stream (case + pipelined probe) is parsed strictly, the body is decompressed with compress/gzip or andybalholm/brotli as announced and compared with the backend body; the announced coding must be acceptable under RFC 7231 5.3.4. Non-trivial = response was compressed by bfe; distinct = axis tuple. GENERATED ACCEPT-ENCODING FAMILY (c54ae.go): products with a GZIP rule, a BROTLI rule, both rules matching every request in either order (first rule decides) and a product whose GZIP rule matches only paths ending in /gz (BROTLI otherwise); values built from the RFC 7231 5.3.4 grammar around the product's codings: OWS (SP, HTAB) before/after ';' and around ',', 'q'/'Q', qvalues 0 0. 0.0 0.000 0.001 0.5 0.9 1 1. 1.0 1.000, non-grammar weights (1.5 -1 abc empty 0.0000 2 1.001 .5), '*' with/without q=0, identity;q=0, the coding listed twice, look-alikes (brotli x-gzip gzipp br2 xbr x-br ...), upper/mixed-case codings, empty list elements, the list split over two field lines; biased to 'rule coding refused + another compressible coding accepted'. Reference model from RFC 7231 5.3.4/5.3.1 + RFC 7230 3.2.2/7 (c54ae.go): acceptable = no field, or listed with every q>0, or unlisted and '*' with q>0; not acceptable = field present without the coding and without '*', every listing q=0, or unlisted and '*' q=0; counted but NOT judged ('either', RFC silent): coding (or deciding '*') listed with both q=0 and q>0, listing with a weight outside the grammar, malformed element mentioning the coding. One-sided oracle (property: 'only if the request accepted that encoding'): encoded with X while X is not acceptable = violation; an acceptable coding left uncompressed is counted, not judged. Inconclusive if a grammar shape, a product kind's compressed/pass-through outcome, or the refused-rule-coding-with-other-accepted region was never observed. INTERFERENCE FAMILY (c54abort.go): products with a GZIP resp. BROTLI rule at three levels chosen by the path (quality 1/flush 256, 5/512, 9/4096) on clusters with CancelOnClientClose on and off (TimeoutReadClient 10 min), own backend. A round = 1..3 ABORTERS (the backend sends the head and 16..48 KB of the body and waits; the client reads up to the end of the response head or up to 1500 body bytes and goes away: FIN + close 0.3 s later / RST / plain close; then the backend sends the rest) together with well-behaved requests at the same host and level whose bodies (700 B..100 KB, Content-Length or chunked) carry the request id and the offset in every line: 0..2 concurrently with the aborters, then, as soon as bfe has dropped the aborted exchanges (its backend connection closed), a burst of 10..12 and a burst of 2..4 concurrent ones; 12 rounds run in parallel. Oracle unchanged and for the well-behaved requests only: the client stream parses, the body decodes as announced to exactly the backend's body (what an aborter receives is not judged). SLOW-RESPONSE cases (same oracle, no aborter): clusters with CancelOnClientClose whose TimeoutReadClient (400 ms, the time a client gets to send its request) is shorter than a 1.6 s pause the backend makes in the middle of the body; the client just keeps reading. Inconclusive if bfe's close watcher never fired (bfe counter), or a coding x cancel-on/off x abort point, an abort mode, a level or a phase was never observed")
	bs := e2e.NewBackendSet()
	defer bs.Close()
	be := bs.New("b1", c54Backend)
	sub := []e2e.SubCluster{{Name: "s", Weight: 100, Backends: []e2e.Backend{{Name: "b1", Addr: be.Addr, Port: be.Port, Weight: 1}}}}
	rule := func(cond, cmd string) string {
		return fmt.Sprintf(`{"Cond":"%s","Action":{"Cmd":"%s","Quality":5,"FlushSize":512}}`, cond, cmd)
	}
	// interference family (c54abort.go): own gated backend, products with three compression levels,
	// clusters with CancelOnClientClose on (gzc, brc) and off (gzn, brn)
	xbe, err := c54XNewBackend()
	if err != nil {
		r.Inconclusive(err.Error())
		return
	}
	defer xbe.ln.Close()
	xRules, xClusters := c54XConf(xbe)
	srv, err := e2e.Start(&e2e.Options{
		Modules: []string{"mod_compress"},
		Files: map[string]string{
			// p_gb / p_bg: both rules match every request, the first one decides;
			// p_mix: the GZIP rule matches paths ending in "/gz", everything else gets BROTLI
			"mod_compress/compress_rule.data": fmt.Sprintf(`{"Version":"v1","Config":{"p_gz":[%s],"p_br":[%s],"p_gb":[%s,%s],"p_bg":[%s,%s],"p_mix":[%s,%s]`+xRules+`}}`,
				rule("default_t()", "GZIP"), rule("default_t()", "BROTLI"),
				rule("default_t()", "GZIP"), rule("default_t()", "BROTLI"),
				rule("default_t()", "BROTLI"), rule("default_t()", "GZIP"),
				rule(`req_path_suffix_in(\"/gz\", false)`, "GZIP"), rule("default_t()", "BROTLI")),
		},
		Clusters: append(xClusters,
			e2e.Cluster{Name: "gz", Hosts: []string{"gz.c54.test"}, SubClusters: sub},
			e2e.Cluster{Name: "br", Hosts: []string{"br.c54.test"}, SubClusters: sub},
			e2e.Cluster{Name: "none", Hosts: []string{"none.c54.test"}, SubClusters: sub},
			e2e.Cluster{Name: "gb", Hosts: []string{"gb.c54.test"}, SubClusters: sub},
			e2e.Cluster{Name: "bg", Hosts: []string{"bg.c54.test"}, SubClusters: sub},
			e2e.Cluster{Name: "mix", Hosts: []string{"mix.c54.test"}, SubClusters: sub},
		)})
	if err != nil {
		r.Inconclusive("server start: " + err.Error())
		return
	}
	defer srv.Close()

	var cases []*c54Case
	var rounds []*c54XRound
	if r.Replay != "" {
		var w struct {
			Case   *c54Case   `json:"case"`
			XRound *c54XRound `json:"xround"`
		}
		if err := r.LoadReplay(&w); err != nil {
			r.Inconclusive(err.Error())
			return
		}
		if w.Case != nil {
			cases = append(cases, w.Case)
		}
		if w.XRound != nil {
			// an interference is a matter of scheduling: the round is repeated
			for i := 0; i < 40; i++ {
				rounds = append(rounds, w.XRound.variant(i))
			}
		}
		r.SetMinDistinct(0)
	} else {
		for i, nr := 0, r.N(90, 1500); i < nr; i++ {
			rounds = append(rounds, c54XGen(r.Rng("xround", i), i))
		}
		rounds = append(rounds, c54XSlowRounds(len(rounds))...)
		n := 0
		add := func(c c54Case) {
			c.ID = fmt.Sprintf("q%d", n)
			n++
			cc := c
			cases = append(cases, &cc)
		}
		// every Accept-Encoding shape on both compressing hosts with a mid-size text body
		for _, host := range []string{"gz.c54.test", "br.c54.test", "none.c54.test"} {
			for _, ae := range c54AEs {
				for _, frame := range []string{"cl", "chunked"} {
					add(c54Case{Host: host, Method: "GET", AE: ae, Status: 200, Blen: 3000, Kind: "text", Frame: frame, Minor: 1})
				}
			}
		}
		// generated Accept-Encoding values (c54ae.go) on every kind of product: GZIP
		// rule, BROTLI rule, both rules in either order, rule chosen by the path
		for i, na := 0, r.N(3000, 60000); i < na; i++ {
			g := r.Rng("ae", i)
			host := c54AEHosts[i%len(c54AEHosts)]
			sfx := ""
			if host.name == "mix.c54.test" && g.Bool() {
				sfx = "/gz"
			}
			ae := c54GenAE(g, host.focus)
			add(c54Case{Host: host.name, Method: "GET", AE: ae.Lines[0], AE2: ae.Lines[1:], Sfx: sfx, Shapes: ae.Shapes, Status: 200,
				Blen: []int{600, 3000, 20, 9000}[g.Intn(4)], Kind: "text", Frame: g.PickS([]string{"cl", "chunked"}), Minor: 1 - g.Intn(8)/7})
		}
		m := r.N(2400, 80000)
		sizes := []int{0, 1, 20, 511, 512, 513, 4096, 70000, 300000, 2 << 20}
		for i := 0; i < m; i++ {
			g := r.Rng("case", i)
			sz := sizes[g.Intn(len(sizes))]
			if sz > 100000 && !g.Chance(1, 6) {
				sz = sizes[g.Intn(7)]
			}
			add(c54Case{Host: g.PickS([]string{"gz.c54.test", "br.c54.test", "br.c54.test", "gz.c54.test", "none.c54.test"}),
				Method: g.PickS([]string{"GET", "GET", "GET", "HEAD"}), AE: c54AEs[g.Intn(len(c54AEs))],
				Status: []int{200, 200, 200, 206, 204, 304, 404}[g.Intn(7)], Blen: sz,
				Kind: g.PickS([]string{"text", "text", "random", "pregzip"}), Frame: g.PickS([]string{"cl", "chunked"}), Minor: 1 - g.Intn(4)/3})
		}
	}
	raws := make([][]byte, len(cases))
	oks := make([]bool, len(cases))
	vkit.Parallel(len(cases), 24, func(i int) {
		c := cases[i]
		conn, err := net.DialTimeout("tcp", srv.HTTPAddr, 10*time.Second)
		if err != nil {
			return
		}
		defer conn.Close()
		conn.SetDeadline(time.Now().Add(60 * time.Second))
		probe := fmt.Sprintf("GET /c54/probe-%s HTTP/1.1\r\nHost: none.c54.test\r\nX-Id: probe-%s\r\nConnection: close\r\n\r\n", c.ID, c.ID)
		conn.Write(append(c.bytes(), probe...))
		b, err := io.ReadAll(conn)
		raws[i], oks[i] = b, err == nil
	})
	for i, c := range cases {
		key := fmt.Sprintf("%s|%s|%q|%d|%d|%s|%s|%d", c.Host, c.Method, c.AE, c.Status, c.Blen, c.Kind, c.Frame, c.Minor)
		if len(c.AE2) > 0 || c.Sfx != "" {
			key += fmt.Sprintf("|%q|%s", c.AE2, c.Sfx)
		}
		w := map[string]interface{}{"case": c, "request": string(c.bytes()), "client_head": clip(string(raws[i]), 600)}
		if !oks[i] || len(raws[i]) == 0 {
			r.CaseS(key, false)
			r.Count("client_error_skipped", 1)
			continue
		}
		resp, n, rej := http1.ParseResponse(raws[i], c.Method, c.Minor)
		if rej != nil {
			r.CaseS(key, false)
			r.Violation("client-stream-not-a-response:"+rej.Class, fmt.Sprintf("%v", rej), w)
			continue
		}
		if resp.Status == 500 && len(http1.Get(resp.Fields, "X-Case")) == 0 {
			r.CaseS(key, false)
			r.Count("bfe_error_page", 1)
			continue
		}
		orig := c54Body(c.ID, c.Blen, c.Kind)
		backendCE := ""
		backendBody := orig
		if c.Kind == "pregzip" {
			var zb bytes.Buffer
			zw := gzip.NewWriter(&zb)
			zw.Write(orig)
			zw.Close()
			backendBody = zb.Bytes()
			backendCE = "gzip"
		}
		noBody := c.Method == "HEAD" || c.Status == 204 || c.Status == 304
		ce := strings.ToLower(strings.Join(http1.Get(resp.Fields, "Content-Encoding"), ","))
		compressedByBfe := ce != "" && ce != backendCE && !noBody
		if c.Status == 204 || c.Status == 304 {
			compressedByBfe = false
		}
		r.CaseS(key, compressedByBfe)
		sig := strings.Split(c.Host, ".")[0]
		if c.Shapes != nil {
			c54AEAccount(r, c, ce, compressedByBfe)
		}
		if !noBody {
			switch {
			case compressedByBfe:
				r.Count("compressed_"+ce, 1)
				var dec []byte
				var derr error
				switch ce {
				case "gzip":
					zr, e := gzip.NewReader(bytes.NewReader(resp.Body))
					if e != nil {
						derr = e
					} else {
						dec, derr = io.ReadAll(zr)
					}
				case "br":
					dec, derr = io.ReadAll(brotli.NewReader(bytes.NewReader(resp.Body)))
				default:
					derr = fmt.Errorf("unknown coding %q", ce)
				}
				if derr != nil {
					r.Violation("compressed-body-does-not-decompress:"+ce+":"+sig, fmt.Sprintf("%v (wire body %d bytes)", derr, len(resp.Body)), w)
				} else if !bytes.Equal(dec, backendBody) {
					r.Violation("decompressed-body-differs:"+ce+":"+sig, fmt.Sprintf("decompressed %d bytes, backend sent %d", len(dec), len(backendBody)), w)
				}
				switch v, why := c54Acceptable(c.aeLines(), ce); v {
				case c54No:
					if why == "not-listed" && strings.Contains(strings.ToLower(strings.Join(c.aeLines(), ",")), ce) {
						why = "only-a-lookalike-listed"
					}
					r.Violation("compressed-although-not-acceptable:"+ce+":"+why, fmt.Sprintf("Accept-Encoding %q does not accept %s (RFC 7231 5.3.4: %s)", c.aeLines(), ce, why), w)
				case c54Either:
					r.Count("compressed_where_rfc7231_is_silent["+why+"]", 1)
				default:
					r.Count("compressed_and_acceptable["+why+"]", 1)
				}
				if backendCE != "" {
					r.Violation("double-encoding:"+ce+"-over-"+backendCE, "an already encoded backend body was compressed again", w)
				}
			default:
				r.Count("passed_through", 1)
				if !bytes.Equal(resp.Body, backendBody) {
					r.Violation("uncompressed-body-differs:"+sig, fmt.Sprintf("client body %d bytes, backend sent %d", len(resp.Body), len(backendBody)), w)
				}
			}
		}
		// stale Content-Length / framing: what follows must be exactly the probe's response
		rest := raws[i][n:]
		if !resp.CloseDelimited && len(rest) > 0 {
			p, m, prej := http1.ParseResponse(rest, "GET", 1)
			if prej != nil || m != len(rest) || (p.Status == 200 && string(p.Body) != "probe-ok probe-"+c.ID) {
				r.Violation("framing:bytes-after-response-are-not-the-next-response:"+sig, fmt.Sprintf("%d stray bytes: %q", len(rest), clip(string(rest), 120)), w)
			}
		}
		if r.WantSample() && compressedByBfe && i%53 == 0 {
			r.Sample(map[string]interface{}{"case": c, "content_encoding": ce, "wire_body_len": len(resp.Body), "backend_body_len": len(backendBody)})
		}
	}
	// interference family: rounds of aborted and well-behaved compressed responses
	fired0 := c54XCancelFired()
	xenv := &c54XEnv{r: r, addr: srv.HTTPAddr, be: xbe}
	srv.Srv.CallBacks.AddFilter(bfe_module.HandleRequestFinish, xenv.noteFinish)
	vkit.Parallel(len(rounds), 12, func(i int) { xenv.run(rounds[i]) })
	if r.Replay == "" {
		c54XFinish(r, c54XCancelFired()-fired0)
		c54AEFinish(r)
	}
	if r.Replay == "" && (r.Counter("compressed_gzip") == 0 || r.Counter("compressed_br") == 0 || r.Counter("passed_through") == 0) {
		r.Inconclusive("gzip, brotli or pass-through path never observed")
	}
}
