package main

import "verifharness/vkit"

func c24(r *vkit.Run) {}
