package main

import (
	"bytes"
	"fmt"
	"strings"

	"verifharness/ref/chunked"
	"verifharness/ref/http1"
	"verifharness/ref/httpfield"
	"verifharness/vkit"
)

// C24: accepted HTTP/1 requests have unambiguous framing.
//
// bfe (bfe_http.ReadRequest + reading each Body to its end, the server's loop)
// and the reference parser (ref/http1) both run over the same byte stream of
// pipelined requests. For the k-th request, starting where the previous one
// ended:
//
//   reference (strict) accepts  => if bfe accepts, (end offset, method, target,
//                                  ordered field names, body) must be equal;
//   reference rejects, class X  => if bfe rejects too (ReadRequest or the body
//                                  read fails): agreed, the connection is dead;
//                                  if bfe accepted:
//       X in the categories the property names (whitespace before the colon,
//         invalid field-name bytes, invalid/conflicting Content-Length,
//         unsupported/misordered/repeated Transfer-Encoding) => VIOLATION sig X;
//       X has a reading sanctioned by RFC 7230 (bare LF, obs-fold, whitespace
//         lines before the first field ignored, repeated equal Content-Length,
//         TE overriding CL, TE on HTTP/1.0, Host count) or a harmless literal
//         reading (odd bytes in values / request-line, empty field-name kept as
//         a field) => the reference re-parses with that tolerance; bfe must
//         agree with the tolerant reading ("lenient but consistent", counted),
//         otherwise VIOLATION sig "X:<what differs>";
//       X is a chunk-grammar class ("body:..."): a chunked body framed differently
//         from the RFC grammar moves the start of the next request, so it is judged
//         here too, with the class names C23 uses:
//           - the leniencies C23 has on record as known findings (SP/HTAB after the
//             chunk-size; bare LF, stray CR / CTL, obs-fold and empty-name lines in
//             the trailer-part) and the excluded corner of C23 (BWS in chunk-ext):
//             re-parse with exactly that tolerance, bfe must agree with the tolerant
//             reading (boundaries, body), otherwise VIOLATION "body:X:reinterpreted";
//           - every other class (chunk-size of 17+ digits / overflow, 0x, sign, empty
//             line, bare LF / CR line ends, missing CRLF after chunk-data, malformed
//             extension, trailer names that are not tokens, ...) => VIOLATION sig X
//             (without the "body:" prefix, i.e. the signature C23 gives the same
//             behaviour);
//       anything else => VIOLATION sig X.

type c24Witness struct {
	Stream   []byte      `json:"stream"`
	StreamQ  string      `json:"stream_quoted"`
	Cuts     []int       `json:"cuts,omitempty"`
	ReadSize int         `json:"read_size"`
	Request  int         `json:"request_index,omitempty"`
	Offset   int         `json:"request_offset,omitempty"`
	Ref      string      `json:"ref,omitempty"`
	Bfe      interface{} `json:"bfe,omitempty"`
}

// classes for which bfe accepting the request is by itself the violation
func c24MustReject(class string) bool {
	switch class {
	case http1.HeaderPrefix + httpfield.WSBeforeColon, http1.HeaderPrefix + httpfield.InvalidNameByte,
		http1.CLConflicting, http1.CLInvalid, http1.CLTooLarge,
		http1.TEMultipleLines, http1.TEChunkedRepeated, http1.TENotFinalChunked, http1.TENoChunked,
		http1.TEUnsupportedCoding, http1.TEInvalidSyntax:
		return true
	}
	return false
}

// c24Tolerate switches on the tolerance for class; false if there is none (or
// it is already on).
func c24Tolerate(o *http1.Options, class string) bool {
	set := func(p *bool) bool {
		if *p {
			return false
		}
		*p = true
		return true
	}
	switch class {
	case http1.HeaderPrefix + httpfield.BareLF, "start-line:" + httpfield.BareLF:
		return set(&o.Field.BareLF)
	case http1.HeaderPrefix + httpfield.ObsFold:
		return set(&o.Field.ObsFold)
	case http1.HeaderPrefix + httpfield.LeadingWhitespace:
		return set(&o.Field.LeadingWhitespace)
	case http1.HeaderPrefix + httpfield.BareCR, http1.HeaderPrefix + httpfield.InvalidValueByte:
		return set(&o.Field.ValueBytes)
	case http1.HeaderPrefix + httpfield.EmptyName:
		return set(&o.Field.EmptyName)
	case http1.RequestLineMethod, http1.RequestLineTarget, http1.RequestLineVersion, http1.VersionUnsupported:
		return set(&o.StartLineBytes)
	case http1.LeadingEmptyLine:
		return set(&o.SkipLeadingCRLF)
	case http1.CLDuplicateEqual:
		return set(&o.CLDuplicateEqual)
	case http1.TEWithCL:
		return set(&o.TEOverridesCL)
	case http1.TEOnHTTP10:
		return set(&o.TEOnHTTP10)
	case http1.HostMissing, http1.HostMultiple:
		return set(&o.HostCount)
	}
	return false
}

// c24TolerateChunk switches on the tolerance for a chunk-grammar class (given
// without the "body:" prefix). Only the classes that C23 has on record as known
// leniencies of bfe (known_findings.json, property C23, state known) and C23's
// excluded corner (BWS in chunk-ext) have one; false otherwise.
func c24TolerateChunk(o *http1.Options, class string) bool {
	set := func(p *bool) bool {
		if *p {
			return false
		}
		*p = true
		return true
	}
	switch class {
	case chunked.SizeTrailingWS:
		return set(&o.Chunked.TrailingWS)
	case chunked.ExtBWS:
		return set(&o.Chunked.BWS)
	case chunked.TrailerPrefix + httpfield.BareLF:
		return set(&o.Chunked.Trailer.BareLF)
	case chunked.TrailerPrefix + httpfield.BareCR, chunked.TrailerPrefix + httpfield.InvalidValueByte:
		return set(&o.Chunked.Trailer.ValueBytes)
	case chunked.TrailerPrefix + httpfield.ObsFold:
		return set(&o.Chunked.Trailer.ObsFold)
	case chunked.TrailerPrefix + httpfield.EmptyName:
		return set(&o.Chunked.Trailer.EmptyName)
	}
	return false
}

// c24Result is what c24Stream observed, for the per-shape accounting of the
// generators.
type c24Result struct {
	First       string // disposition of request #0: agree-accept | lenient-consistent | both-reject | ref-accept-bfe-reject | violation | capped | panic
	Agreed      int    // leading requests that both parsers accepted identically
	BodyReached bool   // the reference got as far as a chunked body in request #0
}

// c24CLShape refines cl:invalid by the shape of the offending value.
func c24CLShape(fields []http1.Field) string {
	for _, v := range http1.Get(fields, "Content-Length") {
		switch {
		case v == "":
			return ":empty"
		case v[0] == '+' || v[0] == '-':
			return ":sign"
		}
		digits := true
		for i := 0; i < len(v); i++ {
			if v[i] < '0' || v[i] > '9' {
				digits = false
			}
		}
		if !digits && strings.TrimSpace(v) != v {
			return ":space-like-bytes" // CR, VT, FF, NBSP, NEL around the digits
		}
		if !digits {
			return ":other"
		}
	}
	return ""
}

// c24Culprit picks, among the tolerated classes, the one a disagreement is
// attributed to: the classes whose tolerant reading drops or keeps whole lines
// come first (they are the ones that can move boundaries), then the order met.
func c24Culprit(tolerated []string) string {
	if len(tolerated) == 0 {
		return "accepted"
	}
	for _, p := range []string{http1.HeaderPrefix + httpfield.LeadingWhitespace, http1.HeaderPrefix + httpfield.EmptyName, http1.HeaderPrefix + httpfield.ObsFold} {
		for _, t := range tolerated {
			if t == p {
				return p
			}
		}
	}
	return tolerated[0]
}

// c24Sig names a disagreement on an accepted request: under the strict reading
// the differing item is named; under a tolerant reading all items other than
// the end of the header section collapse into "reinterpreted" (the detail is in
// the message).
func c24Sig(pre, what string) string {
	if pre == "accepted" {
		return pre + ":" + what
	}
	return pre + ":reinterpreted"
}

// c24OnlyWSAfterStartLine reports whether head is a start-line followed only
// by SP / HTAB (and line ends).
func c24OnlyWSAfterStartLine(head []byte) bool {
	i := bytes.IndexByte(head, '\n')
	if i < 0 || i+1 >= len(head) {
		return false
	}
	ws := 0
	for _, c := range head[i+1:] {
		switch c {
		case ' ', '\t':
			ws++
		case '\r', '\n':
		default:
			return false
		}
	}
	return ws > 0
}

func c24LineDropping(class string) bool {
	return class == http1.HeaderPrefix+httpfield.LeadingWhitespace || class == http1.HeaderPrefix+httpfield.EmptyName
}

func c24NamesEqual(bfe []string, ref []http1.Field) bool {
	if len(bfe) != len(ref) {
		return false
	}
	for i := range bfe {
		if !strings.EqualFold(bfe[i], ref[i].Name) {
			return false
		}
	}
	return true
}

func bfeErrKind(s string) string {
	for _, k := range []string{"malformed HTTP request", "malformed HTTP version", "malformed MIME header", "unsupported transfer encoding",
		"too many transfer encodings", "bad Content-Length", "unexpected EOF", "invalid byte in chunk length", "malformed chunked encoding",
		"exceed maxUriBytes", "invalid URI", "bad trailer key", "header line too long", "suspiciously long trailer", "EOF reading trailer", "parse "} {
		if strings.Contains(s, k) {
			return strings.ReplaceAll(strings.TrimSpace(k), " ", "-")
		}
	}
	return "other"
}

// c24Stream judges one stream.
func c24Stream(r *vkit.Run, stream []byte, cuts []int, readSize int) (res c24Result) {
	w := &c24Witness{Stream: stream, StreamQ: fmt.Sprintf("%q", clipB(stream, 1500)), Cuts: cuts, ReadSize: readSize}
	var run bfeRun
	if r.Try(func() interface{} { return w }, func() { run = runBfe(stream, cuts, readSize, 8) }) {
		r.Evals(1)
		res.First = "panic"
		return
	}
	if run.Stuck {
		r.Violation("body-read:no-progress", "Body.Read returned (0, nil) 10000 times in a row", w)
	}
	off := 0
	nontrivial := false
	defer func() { r.Case(vkit.Hash64(string(stream)), nontrivial) }()
	for k := 0; off < len(stream); k++ {
		var bq *bfeReq
		if k < len(run.Reqs) {
			bq = &run.Reqs[k]
		}
		bfeAccepted := bq != nil && bq.BodyErr == ""
		bfeErr := run.Err
		if bq != nil && bq.BodyErr != "" {
			bfeErr = "body: " + bq.BodyErr
		}
		w.Request, w.Offset = k, off
		first := func(d string) {
			if k == 0 {
				res.First = d
			}
		}
		report := func(sig, what, ref string) {
			first("violation")
			w.Ref = ref
			if bq != nil {
				w.Bfe = map[string]interface{}{"start": bq.Start, "head_end": bq.HeadEnd, "end": bq.End, "method": bq.Method, "target": bq.Target,
					"names": bq.Names, "body": fmt.Sprintf("%q", clipB(bq.Body, 200)), "chunked": bq.Chunked, "cl": bq.CL, "body_err": bq.BodyErr}
			} else {
				w.Bfe = map[string]interface{}{"err": run.Err}
			}
			r.Violation(sig, fmt.Sprintf("request #%d at offset %d: %s", k, off, what), w)
		}
		if bq != nil && bq.Start != off {
			report("boundary:start-offset", fmt.Sprintf("bfe started this request at %d", bq.Start), "")
			return
		}
		if bq == nil && run.Err == "" {
			// bfe stopped because of the request cap
			first("capped")
			return
		}
		var opts http1.Options
		var tolerated []string
		for iter := 0; ; iter++ {
			req, n, rej := http1.ParseRequestOpts(stream[off:], opts)
			if rej == nil {
				if len(req.Fields) > 0 {
					nontrivial = true
				}
				if k == 0 && req.Framing == http1.FramingChunked {
					res.BodyReached = true
				}
				if !bfeAccepted {
					if len(tolerated) == 0 {
						r.Count("ref_accept_bfe_reject", 1)
						r.Count("ref_accept_bfe_reject:"+bfeErrKind(bfeErr), 1)
						first("ref-accept-bfe-reject")
					} else {
						r.Count("both_reject", 1)
						first("both-reject")
					}
					return
				}
				pre := c24Culprit(tolerated)
				ref := fmt.Sprintf("tolerated=%v end=%d %s %s names=%q framing=%v body=%q", tolerated, off+n, req.Method, req.Target, http1.Names(req.Fields), req.Framing, clipB(req.Body, 200))
				switch {
				case bq.HeadEnd != off+req.HeadLen:
					report(pre+":head-end", fmt.Sprintf("bfe ends the header section at %d, the reference (tolerating %v) at %d", bq.HeadEnd, tolerated, off+req.HeadLen), ref)
					return
				case bq.End != off+n:
					report(c24Sig(pre, "end-offset"), fmt.Sprintf("bfe ends the request at %d, the reference (tolerating %v) at %d", bq.End, tolerated, off+n), ref)
					return
				case !bytes.Equal(bq.Body, req.Body):
					report(c24Sig(pre, "body"), fmt.Sprintf("bfe body %q, reference (tolerating %v) %q", clipB(bq.Body, 60), tolerated, clipB(req.Body, 60)), ref)
					return
				case bq.Method != req.Method || bq.Target != req.Target:
					report(c24Sig(pre, "request-line"), fmt.Sprintf("bfe %q %q, reference (tolerating %v) %q %q", bq.Method, bq.Target, tolerated, req.Method, req.Target), ref)
					return
				case !c24NamesEqual(bq.Names, req.Fields):
					report(c24Sig(pre, "field-names"), fmt.Sprintf("bfe field names %q, reference (tolerating %v) %q", bq.Names, tolerated, http1.Names(req.Fields)), ref)
					return
				}
				if len(tolerated) == 0 {
					r.Count("agree_accept", 1)
					r.Count("agree_accept:"+req.Framing.String(), 1)
					first("agree-accept")
				} else {
					r.Count("lenient_but_consistent", 1)
					r.Count("lenient_but_consistent:"+strings.Join(tolerated, "+"), 1)
					first("lenient-consistent")
				}
				res.Agreed++
				if r.WantSample() && k >= 1 && len(stream) < 400 {
					r.Sample(map[string]interface{}{"stream": fmt.Sprintf("%q", stream), "requests_agreed": k + 1})
				}
				off += n
				break
			}
			// the reference rejects
			if iter == 0 {
				r.Count("ref_reject:"+rej.Class, 1)
				if rej.Offset > 0 && !rej.Incomplete {
					nontrivial = true
				}
			}
			if k == 0 && strings.HasPrefix(rej.Class, http1.BodyPrefix) {
				res.BodyReached = true
			}
			if !bfeAccepted {
				r.Count("both_reject", 1)
				first("both-reject")
				return
			}
			refS := fmt.Sprintf("tolerated=%v then %v", tolerated, rej)
			switch {
			case rej.Incomplete && c24OnlyWSAfterStartLine(stream[off:bq.HeadEnd]):
				// the stream ends inside a whitespace-only line that directly follows the
				// request-line: same defect as a complete such line (it ends the header section)
				report(http1.HeaderPrefix+httpfield.LeadingWhitespace+":head-end", fmt.Sprintf("bfe took the unfinished whitespace-only line after the request-line as the end of the header section (at %d); the reference needs more bytes: %v", bq.HeadEnd, rej), refS)
				return
			case rej.Incomplete && len(tolerated) == 0:
				report("incomplete:accepted", fmt.Sprintf("the reference needs more bytes (%v) but bfe accepted a complete request ending at %d", rej, bq.End), refS)
				return
			case off+rej.Offset >= bq.HeadEnd && !strings.HasPrefix(rej.Class, http1.BodyPrefix) && rej.Class != http1.HostMissing && rej.Class != http1.HostMultiple:
				// bfe closed the header section before the byte the reference objects to:
				// the two disagree about where the head ends
				report(c24Culprit(tolerated)+":head-end", fmt.Sprintf("bfe ends the header section at %d, before the point where the reference (tolerating %v) rejects: %v", bq.HeadEnd, tolerated, rej), refS)
				return
			case c24LineDropping(c24Culprit(tolerated)):
				// the tolerant reading already dropped/kept a line differently from bfe;
				// whatever the reference objects to afterwards is seen through that difference
				report(c24Culprit(tolerated)+":reinterpreted", fmt.Sprintf("bfe accepted %s; the reference (tolerating %v) goes on to reject: %v", bq, tolerated, rej), refS)
				return
			case c24MustReject(rej.Class):
				sig := rej.Class
				if sig == http1.CLInvalid {
					sig += c24CLShapeRaw(stream[off+rej.Offset:])
				}
				report(sig, fmt.Sprintf("the reference must reject (%v), bfe accepted: %s", rej, bq), refS)
				return
			case rej.Incomplete:
				// (only reachable under a tolerant reading) the reference still needs bytes
				// for the body, bfe has accepted a complete request
				report(c24Culprit(tolerated)+":reinterpreted", fmt.Sprintf("the reference (tolerating %v) needs more bytes (%v) but bfe accepted a complete request ending at %d", tolerated, rej, bq.End), refS)
				return
			case strings.HasPrefix(rej.Class, http1.BodyPrefix):
				cc := strings.TrimPrefix(rej.Class, http1.BodyPrefix)
				if c24TolerateChunk(&opts, cc) {
					// a leniency C23 has on record (or its excluded corner): bfe must at
					// least frame the request as the tolerant reading does
					r.Count("c23_recorded_leniency:"+cc, 1)
					tolerated = append(tolerated, rej.Class)
					continue
				}
				report(cc, fmt.Sprintf("the chunked body deviates from the RFC 7230 4.1 grammar (%v; tolerating %v) and a reference parser rejects the request; bfe accepted it and goes on reading the connection at %d: %s", rej, tolerated, bq.End, bq), refS)
				return
			case c24Tolerate(&opts, rej.Class):
				tolerated = append(tolerated, rej.Class)
				continue
			default:
				report(rej.Class, fmt.Sprintf("the reference (tolerating %v) rejects (%v) and no tolerant reading exists, bfe accepted: %s", tolerated, rej, bq), refS)
				return
			}
		}
	}
	return
}

// c24CLShapeRaw finds the Content-Length values in a raw head without relying
// on a successful parse.
func c24CLShapeRaw(head []byte) string {
	var fs []http1.Field
	if i := bytes.Index(head, []byte("\n\r\n")); i >= 0 {
		head = head[:i]
	}
	for _, f := range []string{"\r\n ", "\r\n\t", "\n ", "\n\t"} { // unfold
		head = bytes.ReplaceAll(head, []byte(f), []byte(" "))
	}
	for _, ln := range bytes.Split(head, []byte("\n")) {
		ln = bytes.TrimSuffix(ln, []byte("\r"))
		i := bytes.IndexByte(ln, ':')
		if i < 0 {
			continue
		}
		if strings.EqualFold(string(ln[:i]), "Content-Length") {
			v := ln[i+1:]
			for len(v) > 0 && (v[0] == ' ' || v[0] == '\t') {
				v = v[1:]
			}
			for len(v) > 0 && (v[len(v)-1] == ' ' || v[len(v)-1] == '\t') {
				v = v[:len(v)-1]
			}
			fs = append(fs, http1.Field{Name: "Content-Length", Value: string(v)})
		}
	}
	return c24CLShape(fs)
}
