package main

import (
	"fmt"
	"strings"
	"sync"

	"verifharness/vkit"
)

// C24, chunked-framing family: request streams whose first request carries a
// chunked body with hostile framing lines, followed by pipelined requests, so
// that a body boundary that differs from the reference parser's becomes a
// different sequence of requests. Judged by c24Stream (the differential oracle
// of C24), nothing here decides a verdict.

const (
	c24cGet    = "GET /f-get HTTP/1.1\r\nHost: h\r\n\r\n"
	c24cGet2   = "GET /f-get2?x=1 HTTP/1.1\r\nHost: h\r\nAccept: */*\r\n\r\n"
	c24cPostCL = "POST /f-post HTTP/1.1\r\nHost: h\r\nContent-Length: 11\r\n\r\nhello world"
	c24cPostCh = "POST /f-chunked HTTP/1.1\r\nHost: h\r\nTransfer-Encoding: chunked\r\n\r\n3\r\nabc\r\n0\r\n\r\n"
)

// payload that turns into requests / chunk framing when a boundary slips
var c24cPoison = "0\r\n\r\n" + c24Smuggled + "5\r\n0\r\n\r\n\r\n"

var c24cLens = []int{1, 2, 5, 5, 9, 10, 11, 12, 15, 16, 17, 26, 31, 32, 33, 171, 255, 256}

func c24cData(g *vkit.Rand, n int) []byte {
	b := make([]byte, n)
	switch g.Intn(4) {
	case 0:
		for i := range b {
			b[i] = c24cPoison[i%len(c24cPoison)]
		}
	case 1:
		for i := range b {
			b[i] = c23Alphabet[g.Intn(len(c23Alphabet))]
		}
	default:
		for i := range b {
			b[i] = byte('a' + g.Intn(26))
		}
	}
	return b
}

func c24cChunk(g *vkit.Rand, n int) c23Chunk {
	return c23Chunk{size: fmt.Sprintf("%x", n), lend: "\r\n", data: c24cData(g, n), dend: "\r\n"}
}

func c24cBase(g *vkit.Rand) *c23Body {
	b := &c23Body{lastSize: "0", lend: "\r\n", fin: "\r\n"}
	for nc := 1 + g.Intn(3); nc > 0; nc-- {
		n := c24cLens[g.Intn(len(c24cLens))]
		if g.Chance(1, 4) {
			n = g.Range(1, 60)
		}
		b.chunks = append(b.chunks, c24cChunk(g, n))
	}
	return b
}

func c24cPick(g *vkit.Rand, b *c23Body) *c23Chunk { return &b.chunks[g.Intn(len(b.chunks))] }

// padTo left-pads s with zeros to d digits.
func padTo(s string, d int) string { return zeros(d-len(s)) + s }

func mixCase(g *vkit.Rand, s string) string {
	o := []byte(s)
	for i, c := range o {
		if c >= 'a' && c <= 'f' && g.Bool() {
			o[i] = c - 'a' + 'A'
		}
	}
	return string(o)
}

// hexLetterLen returns a data length whose hex form has a letter.
func hexLetterLen(g *vkit.Rand) int {
	return []int{10, 11, 12, 13, 14, 15, 26, 27, 31, 171, 175, 186, 250, 255, 2748}[g.Intn(15)]
}

type c24cShape struct {
	name string
	f    func(g *vkit.Rand, b *c23Body)
}

func sizeShape(name string, f func(g *vkit.Rand, s string, n int) string) c24cShape {
	return c24cShape{name, func(g *vkit.Rand, b *c23Body) {
		c := c24cPick(g, b)
		c.size = f(g, c.size, len(c.data))
	}}
}

func pickShape(name string, xs []string, set func(b *c23Body, c *c23Chunk, v string)) c24cShape {
	return c24cShape{name, func(g *vkit.Rand, b *c23Body) { set(b, c24cPick(g, b), g.PickS(xs)) }}
}

// c24cShapes are the hostile framing shapes of the chunked body. The name is
// what the evidence counts; every one of them must occur in every run.
var c24cShapes = []c24cShape{
	// ---- chunk-size: number of digits and magnitude
	sizeShape("size:zero-padded-2..16-digits", func(g *vkit.Rand, s string, n int) string { return padTo(s, g.Range(len(s)+1, 16)) }),
	sizeShape("size:zero-padded-17-digits", func(g *vkit.Rand, s string, n int) string { return padTo(s, 17) }),
	sizeShape("size:zero-padded-18..20-digits", func(g *vkit.Rand, s string, n int) string { return padTo(s, g.Range(18, 20)) }),
	sizeShape("size:2^64+n-17-digits", func(g *vkit.Rand, s string, n int) string {
		return fmt.Sprintf("%x%016x", g.Range(1, 15), n)
	}),
	sizeShape("size:k*2^64+n-18..20-digits", func(g *vkit.Rand, s string, n int) string {
		return fmt.Sprintf("%x", g.Range(1, 15)) + padTo(fmt.Sprintf("%x", g.Intn(0x1000)), g.Range(1, 3)) + fmt.Sprintf("%016x", n)
	}),
	sizeShape("size:2^31+n", func(g *vkit.Rand, s string, n int) string { return fmt.Sprintf("%x", uint64(1)<<31+uint64(n)) }),
	sizeShape("size:2^32+n", func(g *vkit.Rand, s string, n int) string { return fmt.Sprintf("%x", uint64(1)<<32+uint64(n)) }),
	sizeShape("size:2^32-small", func(g *vkit.Rand, s string, n int) string {
		return fmt.Sprintf("%x", uint64(1)<<32-uint64(g.Range(1, 3)))
	}),
	sizeShape("size:2^63+n", func(g *vkit.Rand, s string, n int) string { return fmt.Sprintf("%x", uint64(1)<<63+uint64(n)) }),
	sizeShape("size:2^63-small,2^64-small", func(g *vkit.Rand, s string, n int) string {
		v := ^uint64(0) - uint64(g.Intn(3))
		if g.Bool() {
			v >>= 1
		}
		if g.Bool() {
			return fmt.Sprintf("%X", v)
		}
		return fmt.Sprintf("%x", v)
	}),
	// ---- chunk-size: hex case
	{"size:hex-upper", func(g *vkit.Rand, b *c23Body) {
		c := c24cPick(g, b)
		*c = c24cChunk(g, hexLetterLen(g))
		c.size = strings.ToUpper(c.size)
	}},
	{"size:hex-lower", func(g *vkit.Rand, b *c23Body) {
		c := c24cPick(g, b)
		*c = c24cChunk(g, hexLetterLen(g))
	}},
	{"size:hex-mixed-case", func(g *vkit.Rand, b *c23Body) {
		c := c24cPick(g, b)
		*c = c24cChunk(g, []int{171, 175, 186, 250, 255, 2748, 43981}[g.Intn(7)])
		c.size = mixCase(g, c.size)
	}},
	sizeShape("size:decimal-for-hex", func(g *vkit.Rand, s string, n int) string { return fmt.Sprintf("%d", n) }),
	sizeShape("size:off-by-small", func(g *vkit.Rand, s string, n int) string {
		d := g.Range(1, 3)
		if g.Bool() && n > d {
			return fmt.Sprintf("%x", n-d)
		}
		return fmt.Sprintf("%x", n+d)
	}),
	// ---- chunk-size: text around the digits
	sizeShape("size:0x-prefix", func(g *vkit.Rand, s string, n int) string { return g.PickS([]string{"0x", "0X", "0x0"}) + s }),
	sizeShape("size:sign", func(g *vkit.Rand, s string, n int) string { return g.PickS([]string{"+", "-", "+0", "-0"}) + s }),
	sizeShape("size:empty-line", func(g *vkit.Rand, s string, n int) string { return "" }),
	sizeShape("size:whitespace-only-line", func(g *vkit.Rand, s string, n int) string { return g.PickS([]string{" ", "\t", "  \t"}) }),
	sizeShape("size:ws-before", func(g *vkit.Rand, s string, n int) string { return g.PickS([]string{" ", "\t", "  "}) + s }),
	sizeShape("size:ws-after", func(g *vkit.Rand, s string, n int) string { return s + g.PickS([]string{" ", "\t", " \t "}) }),
	sizeShape("size:ws-both", func(g *vkit.Rand, s string, n int) string {
		return g.PickS([]string{" ", "\t"}) + s + g.PickS([]string{" ", "\t"})
	}),
	sizeShape("size:ws-inside", func(g *vkit.Rand, s string, n int) string {
		s = padTo(s, 2)
		return s[:1] + g.PickS([]string{" ", "\t"}) + s[1:]
	}),
	sizeShape("size:junk-after", func(g *vkit.Rand, s string, n int) string {
		return s + g.PickS([]string{"g", ",1", ".0", "h", "\x00", "\xef\xbc\x95", "_", "x", ":", "=1"})
	}),
	sizeShape("size:junk-before", func(g *vkit.Rand, s string, n int) string {
		return g.PickS([]string{"g", "zz", "\x00", "/", ":", "=", "\"", "#", "\x0b", "\xc2\xa0"}) + s
	}),
	// ---- chunk-ext
	pickShape("ext:name", []string{";ext", ";a", ";a;b"}, func(b *c23Body, c *c23Chunk, v string) { c.ext = v }),
	pickShape("ext:name=val", []string{";ext=val", ";a=b;c=d", ";a=1"}, func(b *c23Body, c *c23Chunk, v string) { c.ext = v }),
	pickShape("ext:quoted", []string{";ext=\"q x\"", ";a=\"\\\"\"", ";a=\";\""}, func(b *c23Body, c *c23Chunk, v string) { c.ext = v }),
	pickShape("ext:quoted-crlf", []string{";ext=\"quoted;\r\n\"", ";ext=\"\r\n0\r\n\r\n\"", ";ext=\"a\nb\"", ";ext=\"a\rb\"", ";ext=\"\\\r\n\""}, func(b *c23Body, c *c23Chunk, v string) { c.ext = v }),
	pickShape("ext:bws", []string{" ;ext", "; ext", ";ext =val", ";ext= val", "\t;ext"}, func(b *c23Body, c *c23Chunk, v string) { c.ext = v }),
	pickShape("ext:malformed", []string{";", ";=", ";a=", ";a=\"open", ";a b", ";a=b ", ";a=\"x\"y", ";\x00", ";;", ";a=b=c"}, func(b *c23Body, c *c23Chunk, v string) { c.ext = v }),
	// ---- end of the chunk-size line
	pickShape("size-line-end:bare-lf", []string{"\n"}, func(b *c23Body, c *c23Chunk, v string) { c.lend = v }),
	pickShape("size-line-end:bare-cr", []string{"\r"}, func(b *c23Body, c *c23Chunk, v string) { c.lend = v }),
	pickShape("size-line-end:cr-cr-lf", []string{"\r\r\n", "\r\r"}, func(b *c23Body, c *c23Chunk, v string) { c.lend = v }),
	pickShape("size-line-end:lf-cr,lf-lf", []string{"\n\r", "\n\n"}, func(b *c23Body, c *c23Chunk, v string) { c.lend = v }),
	pickShape("size-line-end:none", []string{""}, func(b *c23Body, c *c23Chunk, v string) { c.lend = v }),
	// ---- end of chunk-data
	pickShape("data-end:missing", []string{""}, func(b *c23Body, c *c23Chunk, v string) { c.dend = v }),
	pickShape("data-end:bare-lf", []string{"\n"}, func(b *c23Body, c *c23Chunk, v string) { c.dend = v }),
	pickShape("data-end:bare-cr", []string{"\r"}, func(b *c23Body, c *c23Chunk, v string) { c.dend = v }),
	pickShape("data-end:cr-X", []string{"\rX", "\r0", "\r\r", "\r "}, func(b *c23Body, c *c23Chunk, v string) { c.dend = v }),
	pickShape("data-end:X-lf", []string{"X\n", "\n\n", " \n", "0\n"}, func(b *c23Body, c *c23Chunk, v string) { c.dend = v }),
	pickShape("data-end:two-other-bytes", []string{"XY", "\n\r", "00", "  "}, func(b *c23Body, c *c23Chunk, v string) { c.dend = v }),
	pickShape("data-end:cr-cr-lf", []string{"\r\r\n"}, func(b *c23Body, c *c23Chunk, v string) { c.dend = v }),
	pickShape("data-end:extra-empty-line", []string{"\r\n\r\n", "\r\n\n", "\r\n \r\n"}, func(b *c23Body, c *c23Chunk, v string) { c.dend = v }),
	// ---- last-chunk
	pickShape("last:00..16-zeros", []string{"00", "000", "0000000000000000"}, func(b *c23Body, c *c23Chunk, v string) { b.lastSize = v }),
	pickShape("last:17+-zeros", []string{"00000000000000000", "00000000000000000000"}, func(b *c23Body, c *c23Chunk, v string) { b.lastSize = v }),
	pickShape("last:0;ext", []string{";ext", ";ext=val", ";ext=\"q\"", " ;ext", ";"}, func(b *c23Body, c *c23Chunk, v string) { b.lastExt = v }),
	pickShape("last:odd-zero", []string{"0x0", "-0", "+0", " 0", "0 ", "0\t", "O", "0.0"}, func(b *c23Body, c *c23Chunk, v string) { b.lastSize = v }),
	pickShape("last:line-end", []string{"\n", "\r", "\r\r\n", "\n\r", ""}, func(b *c23Body, c *c23Chunk, v string) { b.lend = v }),
	{"last:missing", func(g *vkit.Rand, b *c23Body) { b.lastSize, b.lend, b.fin = "", "", "" }},
	{"last:empty-line-instead", func(g *vkit.Rand, b *c23Body) { b.lastSize = "" }},
	// ---- trailer-part
	{"trailer:valid", func(g *vkit.Rand, b *c23Body) {
		for k := g.Range(1, 3); k > 0; k-- {
			b.trailers = append(b.trailers, g.PickS(c23ValidTrailers))
		}
	}},
	{"trailer:content-length-inside", func(g *vkit.Rand, b *c23Body) {
		b.trailers = append(b.trailers, g.PickS([]string{"Content-Length: 5\r\n", "Content-Length: 0\r\n", "content-length: 99999\r\n", "Content-Length: -1\r\n"}))
	}},
	{"trailer:transfer-encoding-inside", func(g *vkit.Rand, b *c23Body) {
		b.trailers = append(b.trailers, g.PickS([]string{"Transfer-Encoding: chunked\r\n", "Transfer-Encoding: identity\r\n", "transfer-encoding: gzip, chunked\r\n"}))
	}},
	{"trailer:host,connection-inside", func(g *vkit.Rand, b *c23Body) {
		b.trailers = append(b.trailers, g.PickS([]string{"Host: evil\r\n", "Connection: close\r\n", "Trailer: X\r\n"}))
	}},
	{"trailer:oversized", func(g *vkit.Rand, b *c23Body) {
		if g.Bool() {
			b.trailers = append(b.trailers, "X-Big: "+strings.Repeat("v", g.Range(4000, 9000))+"\r\n")
			return
		}
		for k := g.Range(150, 400); k > 0; k-- {
			b.trailers = append(b.trailers, fmt.Sprintf("X-T%d: vvvvvvvvvvvvvvvv\r\n", k))
		}
	}},
	{"trailer:malformed-line", func(g *vkit.Rand, b *c23Body) {
		t := g.PickS(c23BadTrailers)
		if g.Bool() {
			b.trailers = append(b.trailers, t)
		} else {
			b.trailers = append([]string{t}, b.trailers...)
		}
	}},
	{"trailer:request-line-inside", func(g *vkit.Rand, b *c23Body) {
		b.trailers = append(b.trailers, "GET /smuggled HTTP/1.1\r\n", "Host: evil\r\n")
	}},
	pickShape("final-crlf:variants", []string{"\n", "\r", "", "\r\r\n", "\n\n", "\n\r\n", " \r\n", "X\r\n"}, func(b *c23Body, c *c23Chunk, v string) { b.fin = v }),
}

var c24cHeadShapes = []string{"head:te-chunked", "head:te+cl", "head:te-odd-value", "head:te-two-lines", "head:te-name-variant", "head:te-http10", "head:cl-only-chunked-looking-body"}
var c24cFollowShapes = []string{"follow:none", "follow:get", "follow:post-cl", "follow:get+post-cl", "follow:post-cl+get", "follow:chunked-post+get", "follow:get+get+post-cl"}

// c24cHead builds the head of the first request for a wire body of n bytes
// whose first chunk occupies n1 bytes.
func c24cHead(g *vkit.Rand, n, n1 int) (string, string) {
	method := g.PickS([]string{"POST", "PUT", "POST", "PATCH"})
	version := "HTTP/1.1"
	lines := []string{g.PickS([]string{"Host: h.example\r\n", "host:h\r\n"})}
	for k := g.Intn(3); k > 0; k-- {
		lines = append(lines, g.PickS([]string{"Accept: */*\r\n", "X-A: v\r\n", "Trailer: X-T\r\n", "Connection: keep-alive\r\n", "Expect: 100-continue\r\n", "Content-Type: text/plain\r\n"}))
	}
	te := g.PickS([]string{"Transfer-Encoding: chunked\r\n", "Transfer-Encoding: chunked\r\n", "transfer-encoding:chunked\r\n", "Transfer-Encoding: Chunked \r\n", "Transfer-Encoding:\tCHUNKED\r\n"})
	cl := func() string {
		return fmt.Sprintf("%s: %d\r\n", g.PickS([]string{"Content-Length", "content-length"}), pickInt(g, 0, 4, 5, n, n1, n+g.Range(1, 40)))
	}
	add := func(l string) {
		i := g.Intn(len(lines) + 1)
		lines = append(lines[:i], append([]string{l}, lines[i:]...)...)
	}
	shape := "head:te-chunked"
	switch x := g.Intn(100); {
	case x < 55:
		add(te)
	case x < 72:
		shape = "head:te+cl"
		add(te)
		add(cl())
	case x < 82:
		shape = "head:te-odd-value"
		add("Transfer-Encoding: " + g.PickS(c24TEValues) + "\r\n")
		if g.Chance(1, 3) {
			add(cl())
		}
	case x < 87:
		shape = "head:te-two-lines"
		pair := [][2]string{{"chunked", "chunked"}, {"chunked", "identity"}, {"identity", "chunked"}, {"chunked", "gzip"}, {"gzip", "chunked"}, {"chunked", ""}, {"", "chunked"}, {"chunked", "x"}}[g.Intn(8)]
		add("Transfer-Encoding: " + pair[0] + "\r\n")
		add(g.PickS([]string{"Transfer-Encoding: ", "transfer-encoding:"}) + pair[1] + "\r\n")
	case x < 90:
		shape = "head:te-name-variant"
		add(g.PickS(c24TENames) + " chunked\r\n")
	case x < 94:
		shape = "head:te-http10"
		version = "HTTP/1.0"
		add(te)
	default:
		shape = "head:cl-only-chunked-looking-body"
		add(fmt.Sprintf("Content-Length: %d\r\n", pickInt(g, n, n, n1, 5)))
	}
	return method + " /c24c " + version + "\r\n" + strings.Join(lines, "") + "\r\n", shape
}

func c24cFollow(g *vkit.Rand) (string, string) {
	switch x := g.Intn(100); {
	case x < 8:
		return "", "follow:none"
	case x < 38:
		return c24cGet, "follow:get"
	case x < 53:
		return c24cPostCL, "follow:post-cl"
	case x < 65:
		return c24cGet + c24cPostCL, "follow:get+post-cl"
	case x < 80:
		return c24cPostCL + c24cGet, "follow:post-cl+get"
	case x < 90:
		return c24cPostCh + c24cGet, "follow:chunked-post+get"
	default:
		return c24cGet + c24cGet2 + c24cPostCL, "follow:get+get+post-cl"
	}
}

// c24cGen builds one stream of the family and returns the shapes it carries
// (body shapes first, then head and follow-up shape).
func c24cGen(g *vkit.Rand) (stream []byte, bodyShapes []string, head, follow string) {
	b := c24cBase(g)
	ns := 1
	switch g.Intn(10) {
	case 0:
		ns = 0
	case 1, 2:
		ns = 2
	}
	for k := 0; k < ns; k++ {
		s := c24cShapes[g.Intn(len(c24cShapes))]
		s.f(g, b)
		bodyShapes = append(bodyShapes, s.name)
	}
	if ns == 0 {
		bodyShapes = append(bodyShapes, "valid-body")
	}
	body := b.bytes()
	c0 := b.chunks[0]
	n1 := len(c0.size) + len(c0.ext) + len(c0.lend) + len(c0.data) + len(c0.dend)
	h, hs := c24cHead(g, len(body), n1)
	f, fs := c24cFollow(g)
	stream = append(stream, h...)
	stream = append(stream, body...)
	stream = append(stream, f...)
	return stream, bodyShapes, hs, fs
}

// c24ChunkCorpus is the deterministic part: chunked bodies "hello" (and
// variants) with one hostile framing line each. Every entry is run under a
// plain chunked head and under a TE+CL head, each with four follow-ups.
func c24ChunkCorpus() []string {
	var out []string
	// 1..20 digits: zero padded value 5, and 2^(4(d-1))+5 ("1" followed by zeros and 5)
	for d := 1; d <= 20; d++ {
		out = append(out, padTo("5", d)+"\r\nhello\r\n0\r\n\r\n")
		if d >= 2 {
			out = append(out, "1"+padTo("5", d-1)+"\r\nhello\r\n0\r\n\r\n")
			out = append(out, "5\r\nhello\r\n"+zeros(d)+"\r\n\r\n")
		}
	}
	for _, s := range []string{
		"7fffffff", "80000000", "80000005", "ffffffff", "100000000", "100000005", "FFFFFFFF00000005",
		"7fffffffffffffff", "8000000000000000", "8000000000000005", "ffffffffffffffff", "FFFFFFFFFFFFFFFF",
		"10000000000000000", "10000000000000005", "F0000000000000005", "100000000000000005", "ffffffffffffffff5", "00000000000000000005",
	} {
		out = append(out, s+"\r\nhello\r\n0\r\n\r\n")
	}
	// hex case
	out = append(out, "a\r\n0123456789\r\n0\r\n\r\n", "A\r\n0123456789\r\n0\r\n\r\n", "0a\r\n0123456789\r\n0\r\n\r\n", "1A\r\n0123456789abcdefghijklmnop\r\n0\r\n\r\n", "1a\r\n0123456789abcdefghijklmnop\r\n0\r\n\r\n", "10\r\n0123456789\r\n0\r\n\r\n")
	// text around the size, extensions
	for _, s := range []string{"0x5", "0X5", "+5", "-5", "", " ", "\t", " 5", "\t5", "5 ", "5\t", " 5 ", "0 5", "5g", "5,5", "5.0", "g5", "\x005", "5\x00",
		"5;ext", "5;ext=val", "5;ext=\"q\"", "5;ext=\"quoted;\r\n\"", "5;ext=\"\r\n0\r\n\r\n\"", "5 ;ext", "5; ext", "5;ext =val", "5;", "5;=", "5;ext=", "5;ext=\"open", "5;ext=\"a\nb\""} {
		out = append(out, s+"\r\nhello\r\n0\r\n\r\n")
	}
	// size line ends
	for _, e := range []string{"\n", "\r", "\r\r\n", "\n\r", "\n\n", "", "\r\r"} {
		out = append(out, "5"+e+"hello\r\n0\r\n\r\n", "5\r\nhello\r\n0"+e+"\r\n")
	}
	// chunk-data terminators
	for _, e := range []string{"", "\n", "\r", "\rX", "X\n", "\n\n", "\r\r", "\r\r\n", "XY", "\n\r", "\r\n\r\n", "\r0", "0\n"} {
		out = append(out, "5\r\nhello"+e+"0\r\n\r\n", "5\r\nhello"+e+"3\r\nabc\r\n0\r\n\r\n")
	}
	out = append(out, "4\r\nhello\r\n0\r\n\r\n", "6\r\nhello\r\n0\r\n\r\n", "7\r\nhello\r\n0\r\n\r\n", "5\r\nhello\r\n", "5\r\nhello\r\n\r\n", "5\r\nhello\r\n\r\n\r\n")
	// last-chunk and trailers
	for _, l := range []string{"0", "00", "0000000000000000", "0;ext", "0;ext=val", "0 ;ext", "0;", "0x0", "-0", "+0", " 0", "0 ", "O"} {
		out = append(out, "5\r\nhello\r\n"+l+"\r\n\r\n")
	}
	for _, t := range []string{"X-T: v\r\n", "X-T: v\r\nY: w\r\n", "Content-Length: 5\r\n", "Content-Length: 0\r\n", "Transfer-Encoding: chunked\r\n", "Transfer-Encoding: identity\r\n", "Host: evil\r\n",
		"X-Big: " + strings.Repeat("v", 5000) + "\r\n", strings.Repeat("X-T: vvvvvvvvvvvvvvvv\r\n", 300), "GET /smuggled HTTP/1.1\r\nHost: evil\r\n",
		"X : v\r\n", " X: v\r\n", "X: a\r\n b\r\n", "nocolon\r\n", ": v\r\n", "X\x00: v\r\n", "X: v\n", "X: a\rb\r\n", "X: a\x00b\r\n", "\t\r\n", "X: v\r\r\n"} {
		out = append(out, "5\r\nhello\r\n0\r\n"+t+"\r\n")
	}
	for _, f := range []string{"\n", "\r", "", "\r\r\n", "\n\n", "\n\r\n", " \r\n"} {
		out = append(out, "5\r\nhello\r\n0\r\n"+f, "5\r\nhello\r\n0\r\nX-T: v\r\n"+f)
	}
	return out
}

var c24cCorpusHeads = []string{
	"POST /cc HTTP/1.1\r\nHost: h\r\nTransfer-Encoding: chunked\r\n\r\n",
	"POST /cc HTTP/1.1\r\nHost: h\r\nContent-Length: 5\r\nTransfer-Encoding: chunked\r\n\r\n",
}
var c24cCorpusFollows = []string{c24cGet, c24cPostCL + c24cGet, c24cGet + c24cPostCL + c24cGet2, ""}

type c24cStats struct {
	sync.Mutex
	outcomes map[string]map[string]int64 // shape -> disposition of request #0 -> streams
	reached  map[string]int64            // body shape -> streams in which the reference reached the chunked body
	samples  map[string]interface{}
	sampleAt map[string]int // index of the generated stream the sample comes from (lowest wins: deterministic)
}

func (st *c24cStats) add(shapes []string, res c24Result, body bool) {
	st.Lock()
	defer st.Unlock()
	for _, s := range shapes {
		m := st.outcomes[s]
		if m == nil {
			m = map[string]int64{}
			st.outcomes[s] = m
		}
		m[res.First]++
		if body && res.BodyReached {
			st.reached[s]++
		}
	}
}

// c24ChunkCorpusRun runs the deterministic part of the chunked-framing family
// (before the generators, so that a violation is first witnessed by a minimal
// stream).
func c24ChunkCorpusRun(r *vkit.Run) {
	// (c) deterministic corpus
	corpus := c24ChunkCorpus()
	type job struct {
		body         string
		head, follow int
	}
	var jobs []job
	for _, c := range corpus {
		for h := range c24cCorpusHeads {
			for f := range c24cCorpusFollows {
				if len(c) > 3000 && f > 1 {
					continue // the oversized-trailer entries: two follow-ups are enough
				}
				jobs = append(jobs, job{c, h, f})
			}
		}
	}
	vkit.Parallel(len(jobs), 0, func(i int) {
		j := jobs[i]
		head := c24cCorpusHeads[j.head]
		stream := []byte(head + j.body + c24cCorpusFollows[j.follow])
		n := len(stream)
		res := c24Stream(r, stream, nil, 512)
		r.Count("chunk_corpus:request0:"+res.First, 1)
		if res.First == "agree-accept" || res.First == "lenient-consistent" {
			r.Count(fmt.Sprintf("chunk_corpus:requests_agreed_after_chunked_body:%d", res.Agreed-1), 1)
		}
		if len(j.body) > 3000 {
			c24Stream(r, stream, nil, 1)
			return
		}
		all := make([]int, 0, n)
		for k := 1; k < n; k++ {
			all = append(all, k)
		}
		c24Stream(r, stream, all, 1)
		lo, hi := len(head)-2, len(head)+len(j.body)+6
		if hi > n {
			hi = n
		}
		for k := lo; k < hi; k++ {
			c24Stream(r, stream, []int{k}, 512)
		}
	})
	r.Count("chunk_corpus_bodies", int64(len(corpus)))
	r.Count("chunk_corpus_streams", int64(len(jobs)))
}

// c24ChunkGenRun runs the generated part of the chunked-framing family.
func c24ChunkGenRun(r *vkit.Run) {
	st := &c24cStats{outcomes: map[string]map[string]int64{}, reached: map[string]int64{}, samples: map[string]interface{}{}, sampleAt: map[string]int{}}
	ns := r.N(60000, 1500000)
	vkit.Parallel(ns, 0, func(i int) {
		g := r.Rng("chunk-stream", i)
		stream, shapes, hs, fs := c24cGen(g)
		if g.Chance(1, 25) {
			stream = c23ByteMutate(g, stream)
			shapes = append(shapes, "byte-mutation")
		}
		cuts := randCuts(g, len(stream))
		rs := readSizes[g.Intn(len(readSizes))]
		res := c24Stream(r, stream, cuts, rs)
		if res.First == "" {
			res.First = "empty-stream" // truncated to nothing by the byte mutation
		}
		st.add(shapes, res, true)
		st.add([]string{hs, fs}, res, false)
		if len(stream) < 300 && (hs == "head:te-chunked" || hs == "head:te+cl") && res.BodyReached {
			st.Lock()
			if at, ok := st.sampleAt[shapes[0]]; !ok || i < at {
				st.sampleAt[shapes[0]] = i
				st.samples[shapes[0]] = map[string]interface{}{"stream": fmt.Sprintf("%q", stream), "request0": res.First, "requests_agreed": res.Agreed}
			}
			st.Unlock()
		}
	})
	r.Count("chunk_generated_streams", int64(ns))

	// accounting: every shape must have occurred, and every body shape must have
	// been reached by the reference (i.e. under a head that both parsers frame as
	// chunked) at least once
	names := []string{"valid-body"}
	for _, s := range c24cShapes {
		names = append(names, s.name)
	}
	for _, s := range names {
		var n int64
		for _, v := range st.outcomes[s] {
			n += v
		}
		r.Count("chunk_shape:"+s, n)
		if n == 0 {
			r.Inconclusive("chunked-framing shape never generated: " + s)
		} else if st.reached[s] == 0 {
			r.Inconclusive("chunked-framing shape never reached by the reference parser (always rejected in the head): " + s)
		}
	}
	for _, s := range append(append([]string{}, c24cHeadShapes...), c24cFollowShapes...) {
		var n int64
		for _, v := range st.outcomes[s] {
			n += v
		}
		r.Count("chunk_shape:"+s, n)
		if n == 0 {
			r.Inconclusive("chunked-framing shape never generated: " + s)
		}
	}
	tot := map[string]int64{}
	for s, m := range st.outcomes {
		if strings.HasPrefix(s, "head:") || strings.HasPrefix(s, "follow:") {
			continue
		}
		for o, v := range m {
			tot[o] += v
		}
	}
	for o, v := range tot {
		r.Count("chunk_generated:request0:"+o, v)
	}
	for _, need := range []string{"agree-accept", "both-reject", "lenient-consistent", "ref-accept-bfe-reject"} {
		if tot[need] == 0 && r.Violations() == 0 {
			r.Inconclusive("chunked-framing family: outcome never observed: " + need)
		}
	}
	r.Extra("chunk_shape_request0_outcomes", st.outcomes)
	r.Extra("chunk_shape_reached_body", st.reached)
	// a few samples, in a fixed order
	var smp []interface{}
	for _, k := range []string{"size:2^64+n-17-digits", "size:zero-padded-17-digits", "data-end:cr-X", "ext:quoted-crlf", "trailer:content-length-inside", "size:ws-after", "last:0;ext", "size-line-end:bare-lf"} {
		if v, ok := st.samples[k]; ok {
			smp = append(smp, map[string]interface{}{"shape": k, "case": v})
		}
	}
	r.Extra("chunk_samples", smp)
}
