package main

import (
	"fmt"
	"io"

	"github.com/bfenetworks/bfe/bfe_bufio"
	"github.com/bfenetworks/bfe/bfe_http"
)

// fragReader delivers a byte stream in scripted fragments: every Read returns
// (at most) the rest of the current fragment, so that the code under test sees
// exactly the segmentation the case prescribes. After the last fragment it
// returns io.EOF (the peer closed the connection).
type fragReader struct {
	data      []byte
	cuts      []int // ascending fragment end offsets; len(data) is implied as the last
	ci        int
	pos       int
	delivered int
}

func (f *fragReader) Read(p []byte) (int, error) {
	if f.pos >= len(f.data) {
		return 0, io.EOF
	}
	end := len(f.data)
	for f.ci < len(f.cuts) && f.cuts[f.ci] <= f.pos {
		f.ci++
	}
	if f.ci < len(f.cuts) && f.cuts[f.ci] < end {
		end = f.cuts[f.ci]
	}
	n := copy(p, f.data[f.pos:end])
	f.pos += n
	f.delivered += n
	return n, nil
}

// bfeReq is what bfe made of one request on the stream.
type bfeReq struct {
	Start   int      `json:"start"`
	HeadEnd int      `json:"head_end"`
	End     int      `json:"end"`
	Method  string   `json:"method"`
	Target  string   `json:"target"`
	Names   []string `json:"names"`
	Body    []byte   `json:"body"`
	BodyErr string   `json:"body_err,omitempty"` // "" = body read to a clean EOF
	Chunked bool     `json:"chunked"`
	CL      int64    `json:"cl"`
}

// bfeRun is bfe's view of a whole stream.
type bfeRun struct {
	Reqs  []bfeReq `json:"reqs"` // accepted by ReadRequest (the last may have BodyErr)
	Err   string   `json:"err"`  // error of the ReadRequest that ended the run ("" if stopped by max)
	ErrAt int      `json:"err_at"`
	Stuck bool     `json:"stuck,omitempty"`
}

const maxURI = 8192

// runBfe feeds stream (cut at cuts) to bfe_http.ReadRequest repeatedly, reading
// every accepted body to its end with reads of readSize bytes, the way the
// server loop does. It stops at the first error, after max requests, or when
// the stream is exhausted. Offsets are taken at the bufio boundary: bytes
// handed to bfe_bufio minus bytes it still buffers (bfe's own TotalRead counter
// is deliberately not trusted).
func runBfe(stream []byte, cuts []int, readSize, max int) (run bfeRun) {
	fr := &fragReader{data: stream, cuts: cuts}
	br := bfe_bufio.NewReader(fr)
	consumed := func() int { return fr.delivered - br.Buffered() }
	if readSize <= 0 {
		readSize = 512
	}
	buf := make([]byte, readSize)
	for len(run.Reqs) < max {
		start := consumed()
		if start >= len(stream) {
			return
		}
		req, err := bfe_http.ReadRequest(br, maxURI)
		if err != nil {
			run.Err = err.Error()
			run.ErrAt = consumed()
			return
		}
		q := bfeReq{Start: start, HeadEnd: consumed(), Method: req.Method, Target: req.RequestURI,
			Names: append([]string{}, req.HeaderKeys...), CL: req.ContentLength}
		q.Chunked = len(req.TransferEncoding) > 0 && req.TransferEncoding[0] == "chunked"
		idle := 0
		for {
			n, err := req.Body.Read(buf)
			q.Body = append(q.Body, buf[:n]...)
			if err == io.EOF {
				break
			}
			if err != nil {
				q.BodyErr = err.Error()
				break
			}
			if n == 0 {
				idle++
				if idle > 10000 {
					q.BodyErr = "harness: body Read made no progress 10000 times"
					run.Stuck = true
					break
				}
			} else {
				idle = 0
			}
		}
		if q.BodyErr == "" {
			if err := req.Body.Close(); err != nil {
				q.BodyErr = "close: " + err.Error()
			}
		}
		q.End = consumed()
		run.Reqs = append(run.Reqs, q)
		if q.BodyErr != "" {
			return
		}
	}
	return
}

func (q *bfeReq) String() string {
	return fmt.Sprintf("[%d,%d) %s %s %q body=%q err=%q", q.Start, q.End, q.Method, q.Target, q.Names, clipB(q.Body, 80), q.BodyErr)
}

func clipB(b []byte, n int) []byte {
	if len(b) > n {
		return b[:n]
	}
	return b
}

// randCuts returns fragment boundaries for a stream of length n in one of
// several styles.
func randCuts(g interface {
	Intn(int) int
	Range(int, int) int
}, n int) []int {
	switch g.Intn(6) {
	case 0: // one segment
		return nil
	case 1: // byte at a time
		c := make([]int, 0, n)
		for i := 1; i < n; i++ {
			c = append(c, i)
		}
		return c
	case 2: // one cut
		if n < 2 {
			return nil
		}
		return []int{g.Range(1, n-1)}
	default: // random segments of 1..k bytes
		k := []int{3, 16, 200}[g.Intn(3)]
		var c []int
		for p := g.Range(1, k); p < n; p += g.Range(1, k) {
			c = append(c, p)
		}
		return c
	}
}

var readSizes = []int{1, 2, 3, 7, 64, 512, 4096, 8192}
