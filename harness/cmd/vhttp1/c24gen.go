package main

import (
	"fmt"
	"strings"

	"verifharness/ref/chunked"
	"verifharness/vkit"
)

// c24Req is a request in wire pieces so that combinators can edit one piece.
type c24Req struct {
	method, sp1, target, sp2, version, lend string
	lines                                   []string // header lines, each with its terminator
	end                                     string   // the empty line
	body                                    []byte   // body bytes as on the wire
	framing                                 int      // 0 none, 1 content-length, 2 chunked (as generated)
}

func (q *c24Req) bytes() []byte {
	var o []byte
	o = append(o, q.method+q.sp1+q.target+q.sp2+q.version+q.lend...)
	for _, l := range q.lines {
		o = append(o, l...)
	}
	o = append(o, q.end...)
	return append(o, q.body...)
}

var (
	c24Methods  = []string{"GET", "POST", "PUT", "HEAD", "DELETE", "OPTIONS", "PATCH", "get", "M-SEARCH", "X!#$%&'*+-.^_`|~9"}
	c24Targets  = []string{"/", "/a/b?x=1&y=2", "/index.html", "*", "http://h.example/p?q", "/%41%2f", "/a;b=c", "/" + strings.Repeat("seg/", 40), "/?", "/a//b/../c"}
	c24Names    = []string{"Accept", "User-Agent", "X-A", "x-b", "Cookie", "Connection", "Expect", "Trailer", "Content-Type", "X!#$%&'*+-.^_`|~", "A", "Content-Lengthh", "Transfer-Encodin", "X-Content-Length", "Te", "Upgrade", "Pragma", "Cache-Control"}
	c24Values   = []string{"", "v", "a b", "text/html; q=0.9, */*", "keep-alive", "close", "chunked", "5", "\x80\xfe obs", "a\tb", "\"quoted, str\"", "GET / HTTP/1.1", ":", "a:b", strings.Repeat("long ", 900), "trailers", "no-cache"}
	c24Smuggled = "GET /smuggled HTTP/1.1\r\nHost: evil\r\n\r\n"
)

func c24BodyData(g *vkit.Rand) []byte {
	switch g.Intn(8) {
	case 0:
		return []byte(c24Smuggled)
	case 1:
		return []byte("0\r\n\r\n" + c24Smuggled)
	case 2:
		return c23Data(g, g.Range(4000, 4200))
	case 3:
		return nil
	default:
		return c23Data(g, g.Range(1, 60))
	}
}

// c24Valid builds a valid request.
func c24Valid(g *vkit.Rand) *c24Req {
	q := &c24Req{method: g.PickS(c24Methods), sp1: " ", target: g.PickS(c24Targets), sp2: " ", version: "HTTP/1.1", lend: "\r\n", end: "\r\n"}
	if g.Chance(1, 7) {
		q.version = "HTTP/1.0"
	}
	if g.Chance(1, 25) {
		q.method, q.target = "CONNECT", "h.example:443"
	}
	var lines []string
	if q.version == "HTTP/1.1" || g.Bool() {
		lines = append(lines, g.PickS([]string{"Host: h.example\r\n", "host:h\r\n", "HOST: \th.example:8080 \r\n"}))
	}
	for n := g.Intn(4); n > 0; n-- {
		ows1 := g.PickS([]string{" ", "", "\t", "  "})
		ows2 := g.PickS([]string{"", "", " ", "\t "})
		lines = append(lines, g.PickS(c24Names)+":"+ows1+g.PickS(c24Values)+ows2+"\r\n")
	}
	fr := g.Intn(3)
	if q.version == "HTTP/1.0" && fr == 2 {
		fr = 1
	}
	q.framing = fr
	switch fr {
	case 1:
		data := c24BodyData(g)
		q.body = data
		lines = append(lines, fmt.Sprintf("%s:%s%d\r\n", g.PickS([]string{"Content-Length", "content-length", "CONTENT-LENGTH"}), g.PickS([]string{" ", ""}), len(data)))
	case 2:
		data := c24BodyData(g)
		var sizes []int
		for n := g.Intn(4); n > 0; n-- {
			sizes = append(sizes, g.Range(1, 30))
		}
		q.body = chunked.Encode(data, sizes)
		if g.Chance(1, 6) { // valid trailer
			q.body = append(q.body[:len(q.body)-2], "X-T: v\r\n\r\n"...)
		}
		lines = append(lines, g.PickS([]string{"Transfer-Encoding: chunked\r\n", "transfer-encoding:chunked\r\n", "Transfer-Encoding: Chunked \r\n", "Transfer-Encoding:\tCHUNKED\r\n"}))
	}
	// framing header at a random position among the others
	if len(lines) > 1 && g.Bool() {
		i := g.Intn(len(lines))
		lines[i], lines[len(lines)-1] = lines[len(lines)-1], lines[i]
	}
	q.lines = lines
	return q
}

func (q *c24Req) find(name string) int {
	for i, l := range q.lines {
		if c := strings.IndexByte(l, ':'); c > 0 && strings.EqualFold(l[:c], name) {
			return i
		}
	}
	return -1
}

func (q *c24Req) insert(g *vkit.Rand, line string) {
	i := g.Intn(len(q.lines) + 1)
	q.lines = append(q.lines[:i], append([]string{line}, q.lines[i:]...)...)
}

func (q *c24Req) drop(i int) { q.lines = append(q.lines[:i], q.lines[i+1:]...) }

// ensureTE makes the request carry a chunked body and returns the index of its
// Transfer-Encoding line.
func (q *c24Req) ensureChunked(g *vkit.Rand) int {
	if i := q.find("Content-Length"); i >= 0 {
		q.drop(i)
	}
	if i := q.find("Transfer-Encoding"); i >= 0 {
		return i
	}
	q.version = "HTTP/1.1"
	q.body = chunked.Encode(c24BodyData(g), []int{g.Range(1, 9)})
	q.framing = 2
	q.lines = append(q.lines, "Transfer-Encoding: chunked\r\n")
	return len(q.lines) - 1
}

func (q *c24Req) ensureCL(g *vkit.Rand) int {
	if i := q.find("Transfer-Encoding"); i >= 0 {
		q.drop(i)
		q.body = nil
	}
	if i := q.find("Content-Length"); i >= 0 {
		return i
	}
	q.body = c24BodyData(g)
	if len(q.body) == 0 {
		q.body = []byte("hello")
	}
	q.framing = 1
	q.lines = append(q.lines, fmt.Sprintf("Content-Length: %d\r\n", len(q.body)))
	return len(q.lines) - 1
}

var c24TENames = []string{"Transfer-Encoding :", "Transfer-Encoding\t:", "Transfer-Encoding  :", " Transfer-Encoding:", "\tTransfer-Encoding:", "Transfer_Encoding:", "Transfer-Encoding\x00:", "\x00Transfer-Encoding:",
	"Transfer-Encoding\x7f:", "Transfer-Encoding\x80:", "Transfer Encoding:", "Transfer-Encoding\r:", "Transfer-Encoding\x0b:", "X: y\r\n Transfer-Encoding:", "(Transfer-Encoding):", "Transfer-Encoding,:"}
var c24TEValues = []string{"\tchunked", " chunked ", "chunked, identity", "identity, chunked", "identity", "gzip", "gzip, chunked", "chunked, gzip", "chunked, chunked", "chunked;q=1", "\"chunked\"",
	"chun\xe2\x84\xaaed", "CHUN\xe2\x84\xaaED", "\xc5\xbfhunked", // Unicode code points whose ToLower/fold is an ASCII letter (Kelvin sign, long s): not the token "chunked"
	"\x0bchunked", "chunked\x0b", "\x0cchunked", "\xc2\xa0chunked", "chunked\xc2\x85", "\x85chunked", ",chunked", "chunked,", ", ,chunked", "x-chunked", "chunke", "chunked\r", "\rchunked", "chunked\x00", "\x00chunked",
	"chunk ed", "", " ", "chunked identity", "identity,chunked", "chunked ,identity", "CHUNKED, IDENTITY", "compress, deflate, chunked", "chunked\r\n identity", "\r\n chunked", "\r\n\tchunked"}
var c24CLValues = []string{"+%d", "-0", "-%d", "%d ", " %d", "\t%d\t", "0%d", "000000000000000000000%d", "%d, %d", "%d,%d", "%d, 6", "7, %d", "0x%d", "%d.0", "%de0", "", " ", "%d\r", "\x0b%d", "%d\x0c", "\xc2\xa0%d", "%d\xc2\x85",
	"9223372036854775807", "9223372036854775808", "18446744073709551621", "%d 6", "%d\x00", "%d;q=1", "\"%d\"", "%d\r\n 0", "\r\n %d", "١"}
var c24NameBytes = []string{"\x00", "\x7f", "\x80", "\xff", " ", "\t", "(", ")", ",", "/", ";", "<", "=", ">", "?", "@", "[", "\\", "]", "{", "}", "\"", "\x0b", "\r", "\x1f", "\xc3\xa9"}

func pickInt(g *vkit.Rand, xs ...int) int { return xs[g.Intn(len(xs))] }

func sprintfAll(f string, n int) string {
	c := strings.Count(f, "%d")
	args := make([]interface{}, c)
	for i := range args {
		args[i] = n
	}
	return fmt.Sprintf(f, args...)
}

// c24Combine applies one smuggling-style combinator and returns its name.
func c24Combine(g *vkit.Rand, q *c24Req) string {
	switch g.Intn(20) {
	case 0: // Transfer-Encoding field-name variants
		i := q.ensureChunked(g)
		q.lines[i] = g.PickS(c24TENames) + " chunked\r\n"
		return "te-name"
	case 1, 2: // Transfer-Encoding value variants
		i := q.ensureChunked(g)
		q.lines[i] = "Transfer-Encoding: " + g.PickS(c24TEValues) + "\r\n"
		if g.Chance(1, 3) {
			q.insert(g, fmt.Sprintf("Content-Length: %d\r\n", pickInt(g, len(q.body), 0, 5)))
		}
		return "te-value"
	case 3: // two Transfer-Encoding lines
		i := q.ensureChunked(g)
		pair := [][2]string{{"chunked", "chunked"}, {"chunked", "identity"}, {"identity", "chunked"}, {"chunked", "gzip"}, {"gzip", "chunked"}, {"chunked", ""}, {"", "chunked"}, {"chunked", "x"}}[g.Intn(8)]
		q.lines[i] = "Transfer-Encoding: " + pair[0] + "\r\n"
		q.insert(g, g.PickS([]string{"Transfer-Encoding: ", "transfer-encoding:"})+pair[1]+"\r\n")
		return "te-two-lines"
	case 4, 5: // Content-Length value variants
		i := q.ensureCL(g)
		q.lines[i] = "Content-Length: " + sprintfAll(g.PickS(c24CLValues), len(q.body)) + "\r\n"
		return "cl-value"
	case 6: // two Content-Length lines
		i := q.ensureCL(g)
		n := len(q.body)
		other := n
		if g.Chance(2, 3) {
			other = pickInt(g, 0, n+g.Range(1, 30), g.Range(0, n))
		}
		l2 := fmt.Sprintf("%s: %d\r\n", g.PickS([]string{"Content-Length", "content-length"}), other)
		if g.Bool() {
			q.lines[i], l2 = l2, q.lines[i]
		}
		q.insert(g, l2)
		return "cl-two-lines"
	case 7: // both TE and CL
		q.ensureChunked(g)
		q.insert(g, fmt.Sprintf("Content-Length: %d\r\n", pickInt(g, len(q.body), 0, g.Range(1, 40))))
		return "te+cl"
	case 8: // TE on HTTP/1.0
		q.ensureChunked(g)
		q.version = "HTTP/1.0"
		return "te-http10"
	case 9: // bare LF line ends
		switch g.Intn(4) {
		case 0:
			q.lend = "\n"
		case 1:
			if len(q.lines) > 0 {
				i := g.Intn(len(q.lines))
				q.lines[i] = strings.TrimSuffix(q.lines[i], "\r\n") + "\n"
			}
		case 2:
			q.end = "\n"
		default:
			q.lend, q.end = "\n", "\n"
			for i := range q.lines {
				q.lines[i] = strings.TrimSuffix(q.lines[i], "\r\n") + "\n"
			}
		}
		return "bare-lf"
	case 10: // odd bytes in a field-name (any header, also the framing ones)
		if len(q.lines) == 0 {
			q.lines = []string{"X-A: v\r\n"}
		}
		i := g.Intn(len(q.lines))
		c := strings.IndexByte(q.lines[i], ':')
		if c <= 0 {
			return "name-byte-none"
		}
		p := g.Intn(c + 1)
		q.lines[i] = q.lines[i][:p] + g.PickS(c24NameBytes) + q.lines[i][p:]
		return "name-byte"
	case 11: // empty field-name / line without colon
		q.insert(g, g.PickS([]string{": v\r\n", ":\r\n", ": Transfer-Encoding: chunked\r\n", "nocolon\r\n", "Transfer-Encoding chunked\r\n", "GET / HTTP/1.1\r\n", "=\r\n"}))
		return "empty-name-or-no-colon"
	case 12: // folded lines
		switch g.Intn(4) {
		case 0:
			q.insert(g, "X-Fold: a\r\n"+g.PickS([]string{" ", "\t", "   "})+"b\r\n")
		case 1:
			i := q.ensureCL(g)
			n := len(q.body)
			q.lines[i] = g.PickS([]string{fmt.Sprintf("Content-Length:\r\n %d\r\n", n), fmt.Sprintf("Content-Length: %d\r\n 0\r\n", n), fmt.Sprintf("Content-Length: %d\r\n \r\n", n)})
		case 2:
			i := q.ensureChunked(g)
			q.lines[i] = g.PickS([]string{"Transfer-Encoding:\r\n chunked\r\n", "Transfer-Encoding: chunked\r\n ,identity\r\n", "Transfer-Encoding: chunked\r\n\t\r\n"})
		default:
			q.insert(g, "X-Fold: a\r\n Content-Length: 3\r\n")
		}
		return "fold"
	case 13: // whitespace-only or whitespace-led line, also as the very first header line
		l := g.PickS([]string{" \r\n", "\t\r\n", "  \t \r\n", " X-Lead: v\r\n", "\tTransfer-Encoding: chunked\r\n", " Content-Length: 4\r\n", " \n"})
		if g.Bool() {
			q.lines = append([]string{l}, q.lines...)
		} else {
			q.insert(g, l)
		}
		return "ws-line"
	case 14: // request-line variants
		switch g.Intn(10) {
		case 0:
			q.sp1 = "  "
		case 1:
			q.sp2 = "  "
		case 2:
			q.sp1 = "\t"
		case 3:
			q.version = g.PickS([]string{"HTTP/1.1 ", "http/1.1", "HTTP/1.10", "HTTP/01.1", "HTTP/2.0", "HTTP/0.9", "HTTP/1.+1", "HTTP/+1.1", "HTTP/1", "HTTP/1.1.1", "HTTP/1,1", "HTTP/9.9", ""})
		case 4:
			q.method = g.PickS([]string{"G(T", "GE\x00T", "", "GET\r", "\x80", "GET,"})
		case 5:
			q.target = g.PickS([]string{"/a b", "/\x00", "/\x80\xff", "", "/\t", "/a\rb", "//", "?", "#", "/#f"})
		case 6:
			q.method = " " + q.method
		case 7:
			q.lend = g.PickS([]string{"\r\r\n", "\n\r\n", " \r\n"})
		case 8:
			q.version += " extra"
		default:
			q.method = "\r\n" + q.method // leading empty line
		}
		return "request-line"
	case 15: // Host count
		if i := q.find("Host"); i >= 0 && g.Bool() {
			q.drop(i)
		} else {
			q.insert(g, "Host: other\r\n")
		}
		return "host"
	case 16: // stray CR / control bytes in some value, odd line ends
		if len(q.lines) > 0 {
			i := g.Intn(len(q.lines))
			l := strings.TrimSuffix(q.lines[i], "\r\n")
			q.lines[i] = l + g.PickS([]string{"\r\r\n", "\x00\r\n", "a\rb\r\n", "\x7f\r\n", "\x0b\r\n", "\n\r\n"})
		}
		return "value-bytes"
	case 17: // end of the header section
		q.end = g.PickS([]string{"\n", "\r\r\n", "\r", "", " \r\n", "\n\n"})
		return "end"
	case 18: // body shorter / longer than announced, or broken chunking
		if len(q.body) > 0 && g.Bool() {
			q.body = q.body[:g.Intn(len(q.body))]
		} else {
			q.body = append(q.body, c23Data(g, g.Range(1, 8))...)
		}
		return "body-len"
	default:
		return "none"
	}
}

// c24Corpus is the deterministic corpus: request heads (the placeholder BODY5
// is followed by "hello"; CHUNK5 by a chunked "hello") covering each class at
// least once. Every entry is followed by a second, valid request.
var c24Corpus = []string{
	// valid
	"GET / HTTP/1.1\r\nHost: h\r\n\r\n",
	"POST / HTTP/1.1\r\nHost: h\r\nContent-Length: 5\r\n\r\nhello",
	"POST / HTTP/1.1\r\nHost: h\r\nTransfer-Encoding: chunked\r\n\r\n5\r\nhello\r\n0\r\n\r\n",
	"POST / HTTP/1.0\r\nContent-Length: 5\r\n\r\nhello",
	// names
	"POST / HTTP/1.1\r\nHost: h\r\nTransfer-Encoding : chunked\r\n\r\n5\r\nhello\r\n0\r\n\r\n",
	"POST / HTTP/1.1\r\nHost: h\r\nContent-Length : 5\r\n\r\nhello",
	"POST / HTTP/1.1\r\nHost: h\r\nContent-Length\t: 5\r\n\r\nhello",
	"POST / HTTP/1.1\r\nHost: h\r\nX\x00Y: v\r\nContent-Length: 5\r\n\r\nhello",
	"POST / HTTP/1.1\r\nHost: h\r\nX\x7f: v\r\n\r\n",
	"POST / HTTP/1.1\r\nHost: h\r\n\x80X: v\r\n\r\n",
	"POST / HTTP/1.1\r\nHost: h\r\nX Y: v\r\n\r\n",
	"POST / HTTP/1.1\r\nHost: h\r\nTransfer-Encoding\x00: chunked\r\n\r\n5\r\nhello\r\n0\r\n\r\n",
	"POST / HTTP/1.1\r\nHost: h\r\n: v\r\n\r\n",
	"POST / HTTP/1.1\r\nHost: h\r\nnocolon\r\n\r\n",
	// folds and whitespace lines
	"POST / HTTP/1.1\r\nHost: h\r\nX: a\r\n b\r\n\r\n",
	"POST / HTTP/1.1\r\nHost: h\r\nTransfer-Encoding:\r\n chunked\r\n\r\n5\r\nhello\r\n0\r\n\r\n",
	"POST / HTTP/1.1\r\nHost: h\r\nContent-Length: 5\r\n \r\n\r\nhello",
	"POST / HTTP/1.1\r\n X-Lead: v\r\nHost: h\r\n\r\n",
	"POST / HTTP/1.1\r\n \r\nHost: h\r\n\r\n",
	"POST / HTTP/1.1\r\n\t\r\nGET /smuggled HTTP/1.1\r\nHost: h\r\n\r\n",
	"POST / HTTP/1.1\r\n Content-Length: 5\r\nHost: h\r\n\r\nhello",
	// line ends
	"GET / HTTP/1.1\nHost: h\n\n",
	"GET / HTTP/1.1\r\nHost: h\nX: y\r\n\r\n",
	"POST / HTTP/1.1\r\nHost: h\r\nX: a\rb\r\nContent-Length: 5\r\n\r\nhello",
	"POST / HTTP/1.1\r\nHost: h\r\nX: a\x00b\r\n\r\n",
	// Content-Length
	"POST / HTTP/1.1\r\nHost: h\r\nContent-Length: +5\r\n\r\nhello",
	"POST / HTTP/1.1\r\nHost: h\r\nContent-Length: -0\r\n\r\n",
	"POST / HTTP/1.1\r\nHost: h\r\nContent-Length:\r\n\r\n",
	"POST / HTTP/1.1\r\nHost: h\r\nContent-Length: 5\r\r\n\r\nhello",
	"POST / HTTP/1.1\r\nHost: h\r\nContent-Length: \x0b5\r\n\r\nhello",
	"POST / HTTP/1.1\r\nHost: h\r\nContent-Length: \xc2\xa05\r\n\r\nhello",
	"POST / HTTP/1.1\r\nHost: h\r\nContent-Length: 5, 5\r\n\r\nhello",
	"POST / HTTP/1.1\r\nHost: h\r\nContent-Length: 0x5\r\n\r\nhello",
	"POST / HTTP/1.1\r\nHost: h\r\nContent-Length: 5\r\nContent-Length: 5\r\n\r\nhello",
	"POST / HTTP/1.1\r\nHost: h\r\nContent-Length: 5\r\nContent-Length: 44\r\n\r\nhello",
	"POST / HTTP/1.1\r\nHost: h\r\nContent-Length: 0\r\ncontent-length: 5\r\n\r\nhello",
	"POST / HTTP/1.1\r\nHost: h\r\nContent-Length: 9223372036854775808\r\n\r\nhello",
	// Transfer-Encoding
	"POST / HTTP/1.1\r\nHost: h\r\nTransfer-Encoding:\tchunked\r\n\r\n5\r\nhello\r\n0\r\n\r\n",
	"POST / HTTP/1.1\r\nHost: h\r\nTransfer-Encoding: chunked, identity\r\n\r\n5\r\nhello\r\n0\r\n\r\n",
	"POST / HTTP/1.1\r\nHost: h\r\nTransfer-Encoding: identity, chunked\r\n\r\n5\r\nhello\r\n0\r\n\r\n",
	"POST / HTTP/1.1\r\nHost: h\r\nTransfer-Encoding: identity\r\nContent-Length: 5\r\n\r\nhello",
	"POST / HTTP/1.1\r\nHost: h\r\nTransfer-Encoding: identity\r\n\r\n",
	"POST / HTTP/1.1\r\nHost: h\r\nTransfer-Encoding: gzip, chunked\r\n\r\n5\r\nhello\r\n0\r\n\r\n",
	"POST / HTTP/1.1\r\nHost: h\r\nTransfer-Encoding: chunked, chunked\r\n\r\n5\r\nhello\r\n0\r\n\r\n",
	"POST / HTTP/1.1\r\nHost: h\r\nTransfer-Encoding: chunked\r\nTransfer-Encoding: chunked\r\n\r\n5\r\nhello\r\n0\r\n\r\n",
	"POST / HTTP/1.1\r\nHost: h\r\nTransfer-Encoding: chunked\r\nTransfer-Encoding: identity\r\n\r\n5\r\nhello\r\n0\r\n\r\n",
	"POST / HTTP/1.1\r\nHost: h\r\nTransfer-Encoding: \x0bchunked\r\n\r\n5\r\nhello\r\n0\r\n\r\n",
	"POST / HTTP/1.1\r\nHost: h\r\nContent-Length: 4\r\nTransfer-Encoding: chun\xe2\x84\xaaed\r\n\r\n5\r\nhello\r\n0\r\n\r\n",
	"POST / HTTP/1.1\r\nHost: h\r\nTransfer-Encoding: \xc2\xa0chunked\r\n\r\n5\r\nhello\r\n0\r\n\r\n",
	"POST / HTTP/1.1\r\nHost: h\r\nTransfer-Encoding: chunked\r\r\n\r\n5\r\nhello\r\n0\r\n\r\n",
	"POST / HTTP/1.1\r\nHost: h\r\nTransfer-Encoding: chunked\r\nContent-Length: 3\r\n\r\n5\r\nhello\r\n0\r\n\r\n",
	"POST / HTTP/1.1\r\nHost: h\r\nContent-Length: 3\r\nTransfer-Encoding: chunked\r\n\r\n5\r\nhello\r\n0\r\n\r\n",
	"POST / HTTP/1.0\r\nTransfer-Encoding: chunked\r\n\r\n5\r\nhello\r\n0\r\n\r\n",
	// request line and Host
	"GET / HTTP/1.1\r\n\r\n",
	"GET / HTTP/1.1\r\nHost: a\r\nHost: b\r\n\r\n",
	"G(T / HTTP/1.1\r\nHost: h\r\n\r\n",
	" / HTTP/1.1\r\nHost: h\r\n\r\n",
	"GET / HTTP/2.0\r\nHost: h\r\n\r\n",
	"GET / HTTP/1.10\r\nHost: h\r\n\r\n",
	"GET / HTTP/+1.1\r\nHost: h\r\n\r\n",
	"GET /\x80 HTTP/1.1\r\nHost: h\r\n\r\n",
	"\r\nGET / HTTP/1.1\r\nHost: h\r\n\r\n",
}

const c24Follow = "GET /second HTTP/1.1\r\nHost: h\r\n\r\n"

func c24(r *vkit.Run) {
	r.SetRule("byte streams of 1-4 pipelined requests fed to bfe_http.ReadRequest + Body read-to-end in scripted fragments (whole / byte-wise / one cut / random segments; body reads of 1..8192 bytes), compared request by request with ref/http1 (strict RFC 7230; tolerant re-parse only for classes with an RFC-sanctioned or literal reading). " +
		"(a) deterministic corpus of ~60 heads (>=1 per class) each followed by a valid request, whole, byte-wise and cut at every byte boundary; " +
		"(b) grammar-based generator (methods incl. all tchar, 10 target shapes, HTTP/1.0|1.1, 0-4 benign fields with odd-but-legal names/values incl. 4.5 kB values, none|Content-Length|chunked bodies, bodies that look like requests) with 0-2 smuggling combinators per request: TE name/value variants, two TE/CL lines, CL value variants, TE+CL, TE on 1.0, bare LF, odd name bytes, empty name/no colon, folds, whitespace(-only) lines incl. directly after the request-line, request-line variants, Host count, stray CR/CTL in values, broken header end, wrong body length; optional byte-level mutation or truncation. " +
		"(c) chunked-framing corpus: ~250 chunked bodies with one hostile framing line each (chunk-size of 1..20 digits zero-padded / 2^(4k)+5 / around 2^31, 2^32, 2^63, 2^64, 2^64+5; hex case; 0x, sign, empty, whitespace, junk; chunk-ext incl. quoted CRLF and BWS; bare LF / CR / CRCRLF size-line ends; missing and half-right CRLF after chunk-data; last-chunk 0/00/16 zeros/17+ zeros/0;ext; trailers valid, oversized, with Content-Length / Transfer-Encoding / Host / a request-line inside, malformed; final CRLF variants) x {TE: chunked, TE+CL} x {GET | POST-CL,GET | GET,POST-CL,GET | nothing} pipelined behind it, whole, byte-wise and cut at every byte of the body; " +
		"(d) generated chunked-framing streams: 1-3 chunks (data that looks like last-chunk + request), 0-2 of the ~60 named framing shapes (counted as chunk_shape:*, each must occur and be reached by the reference), head in {TE chunked, TE+CL, odd TE values, two TE lines, TE name variants, TE on 1.0, CL-only over a chunked-looking body}, 0-3 pipelined follow-ups (GET, POST with Content-Length, chunked POST), optional byte mutation. " +
		"Non-trivial: the reference got past >=1 header line of some request (accepted, or rejected beyond offset 0 for a grammar reason). Distinct = stream bytes. " +
		"Not alarmed (counted lenient_but_consistent): bare LF, obs-fold, repeated equal Content-Length, TE overriding CL, TE on HTTP/1.0, Host count, odd bytes in values/request-line when bfe's framing and field names equal the tolerant reading. Chunk-grammar deviations in a body that bfe accepts are violations under the class name C23 uses, except the leniencies C23 has on record as known findings (SP/HTAB after chunk-size; bare LF, stray CR/CTL, obs-fold, empty-name in trailers) and C23's excluded corner (BWS in chunk-ext), for which bfe must frame the request exactly as the tolerant reading does (counted c23_recorded_leniency:*).")
	r.Assume("ref/http1, ref/chunked, ref/httpfield are correct (self-tested at start on RFC-derived cases); request-target syntax is not part of the comparison beyond equality of the raw bytes; bfe's maxUriBytes = 8192 as in the default server config")
	if r.Replay != "" {
		var w c24Witness
		if err := r.LoadReplay(&w); err != nil {
			r.Inconclusive(err.Error())
			return
		}
		r.SetMinDistinct(0)
		c24Stream(r, w.Stream, w.Cuts, w.ReadSize)
		return
	}
	// (a) corpus
	for _, c := range c24Corpus {
		stream := []byte(c + c24Follow)
		n := len(stream)
		for _, rs := range []int{1, 512} {
			c24Stream(r, stream, nil, rs)
			all := make([]int, 0, n)
			for i := 1; i < n; i++ {
				all = append(all, i)
			}
			c24Stream(r, stream, all, rs)
			for k := 1; k < n; k++ {
				c24Stream(r, stream, []int{k}, rs)
			}
		}
	}
	r.Count("corpus_streams", int64(len(c24Corpus)))

	// (c) chunked-framing corpus
	c24ChunkCorpusRun(r)

	// (b) generated streams
	ns := r.N(50000, 2000000)
	vkit.Parallel(ns, 0, func(i int) {
		g := r.Rng("stream", i)
		nreq := 1 + g.Intn(4)
		var stream []byte
		for k := 0; k < nreq; k++ {
			q := c24Valid(g)
			nm := 0
			switch g.Intn(10) {
			case 0, 1, 2, 3, 4:
				nm = 1
			case 5:
				nm = 2
			}
			if k > 0 && g.Chance(2, 3) {
				nm = 0 // later requests mostly valid so that mis-framing of an earlier one shows
			}
			for m := 0; m < nm; m++ {
				c24Combine(g, q)
			}
			stream = append(stream, q.bytes()...)
		}
		if g.Chance(1, 12) {
			stream = c23ByteMutate(g, stream)
		}
		c24Stream(r, stream, randCuts(g, len(stream)), readSizes[g.Intn(len(readSizes))])
	})
	// (d) generated chunked-framing streams
	c24ChunkGenRun(r)

	for _, need := range []string{"agree_accept", "agree_accept:none", "agree_accept:content-length", "agree_accept:chunked", "both_reject"} {
		if r.Counter(need) == 0 {
			r.Inconclusive("outcome never observed: " + need)
		}
	}
}
