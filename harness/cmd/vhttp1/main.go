// vhttp1 decides the HTTP/1 codec properties C23 (chunked decoding exact) and
// C24 (accepted HTTP/1 requests have unambiguous framing).
package main

import (
	"fmt"
	"os"

	"verifharness/ref/chunked"
	"verifharness/ref/http1"
	"verifharness/vkit"
)

func main() {
	r := vkit.Start("exploration")
	// A broken reference must never produce a verdict.
	if err := chunked.SelfTest(); err != nil {
		r.Inconclusive(err.Error())
		r.Finish()
	}
	if err := http1.SelfTest(); err != nil {
		r.Inconclusive(err.Error())
		r.Finish()
	}
	switch r.Prop {
	case "C23":
		c23(r)
	case "C24":
		c24(r)
	default:
		fmt.Fprintln(os.Stderr, "vhttp1: unknown property", r.Prop)
		os.Exit(vkit.ExitInconclusive)
	}
	r.Finish()
}
