package main

import (
	"bytes"
	"fmt"
	"io"
	"io/ioutil"
	"net/url"
	"strings"

	"github.com/bfenetworks/bfe/bfe_http"

	"verifharness/ref/chunked"
	"verifharness/ref/http1"
	"verifharness/vkit"
)

// C23: chunked transfer coding is decoded exactly.
//
// Oracle: ref/chunked (strict RFC 7230 4.1, size = 1..16 HEXDIG). Decision table:
//   reference accepts (data D, length C)  => bfe returns D and stops exactly at C,
//                                            or returns an error after a prefix of D;
//   reference rejects (class X, having delivered Dx)
//                                         => bfe returns an error after a prefix of Dx;
//                                            completing the body (clean EOF) or
//                                            delivering a byte beyond Dx is a violation
//                                            with signature X.
// bfe is driven through its public path: ReadRequest on a request announcing
// "Transfer-Encoding: chunked", then Body.Read to the end (which includes the
// trailer-part), and Request.Write for the encoder.

const c23Head = "POST /c23 HTTP/1.1\r\nHost: v\r\nTransfer-Encoding: chunked\r\n\r\n"
const c23Next = "GET /next HTTP/1.1\r\nHost: v\r\n\r\n"

type c23Witness struct {
	Kind     string `json:"kind"` // "stream" | "roundtrip"
	Stream   []byte `json:"stream,omitempty"`
	StreamQ  string `json:"stream_quoted,omitempty"` // same bytes, Go-quoted, for reading
	Cuts     []int  `json:"cuts,omitempty"`
	ReadSize int    `json:"read_size"`
	// roundtrip
	Body       []byte `json:"body,omitempty"`
	WriteSizes []int  `json:"write_sizes,omitempty"`
	CLMode     int    `json:"cl_mode,omitempty"` // 0: ContentLength=-1, 1: ContentLength=0 (unknown)
	// filled when reporting
	Ref string      `json:"ref,omitempty"`
	Bfe interface{} `json:"bfe,omitempty"`
}

// c23Stream judges one chunked body (b = body bytes + whatever follows on the
// connection) delivered to bfe with the given segmentation.
func c23Stream(r *vkit.Run, body []byte, cuts []int, readSize int, countCase bool) (outcome string) {
	stream := append([]byte(c23Head), body...)
	w := &c23Witness{Kind: "stream", Stream: stream, StreamQ: fmt.Sprintf("%q", stream), Cuts: cuts, ReadSize: readSize}
	var run bfeRun
	if r.Try(func() interface{} { return w }, func() { run = runBfe(stream, cuts, readSize, 1) }) {
		return "panic"
	}
	if len(run.Reqs) != 1 {
		r.Inconclusive(fmt.Sprintf("C23 harness: bfe did not accept the fixed request head: %s", run.Err))
		return "harness"
	}
	q := run.Reqs[0]
	if !q.Chunked || q.HeadEnd != len(c23Head) {
		r.Inconclusive(fmt.Sprintf("C23 harness: head not parsed as chunked / head end %d != %d", q.HeadEnd, len(c23Head)))
		return "harness"
	}
	res, rerr := chunked.Decode(body)
	if rerr != nil && rerr.Class == chunked.ExtBWS {
		// RFC 7230 (as published) has no whitespace in chunk-ext, erratum 4667 and
		// RFC 9112 allow BWS: the corner is excluded by judging it under the
		// tolerant reading.
		r.Count("excluded_corner_chunk_ext_bws", 1)
		res, rerr = chunked.DecodeOpts(body, chunked.Options{BWS: true})
	}
	bfeClean := q.BodyErr == ""
	report := func(sig, what string) {
		w.Ref = fmt.Sprintf("data=%q consumed=%d err=%v", clipB(res.Data, 200), res.Consumed, rerr)
		w.Bfe = map[string]interface{}{"body": string(clipB(q.Body, 200)), "body_len": len(q.Body), "err": q.BodyErr, "end_in_body": q.End - len(c23Head)}
		r.Violation(sig, what, w)
	}
	if bfeClean {
		r.Count("bfe_clean_eof", 1)
	} else {
		r.Count("bfe_error", 1)
	}
	if rerr == nil {
		r.Count("ref_accept", 1)
		switch {
		case bfeClean && !bytes.Equal(q.Body, res.Data):
			report("accepted:bytes-differ", fmt.Sprintf("valid chunked body decoded to %d bytes %q, reference %d bytes %q", len(q.Body), clipB(q.Body, 60), len(res.Data), clipB(res.Data, 60)))
			outcome = "viol"
		case bfeClean && q.End != len(c23Head)+res.Consumed:
			report("accepted:end-offset", fmt.Sprintf("valid chunked body: bfe stopped %d bytes into the body, reference says it is %d bytes long", q.End-len(c23Head), res.Consumed))
			outcome = "viol"
		case !bfeClean && !bytes.HasPrefix(res.Data, q.Body):
			report("accepted:wrong-bytes-before-error", fmt.Sprintf("bfe delivered %q (then error %q), not a prefix of %q", clipB(q.Body, 60), q.BodyErr, clipB(res.Data, 60)))
			outcome = "viol"
		case bfeClean:
			outcome = "agree-accept"
		default:
			outcome = "ref-accept-bfe-error"
			r.Count("ref_accept_bfe_error", 1)
			if len(res.Chunks) > 0 {
				hasExt := false
				for _, c := range res.Chunks {
					if c.Ext != "" {
						hasExt = true
					}
				}
				if hasExt {
					r.Count("ref_accept_bfe_error_chunk_ext", 1)
				}
			}
		}
	} else {
		r.Count("ref_reject", 1)
		r.Count("ref_reject:"+rerr.Class, 1)
		switch {
		case bfeClean:
			report(rerr.Class, fmt.Sprintf("malformed chunked body (%v) was decoded to completion: %d bytes %q, body taken to end %d bytes in", rerr, len(q.Body), clipB(q.Body, 60), q.End-len(c23Head)))
			outcome = "viol"
		case !bytes.HasPrefix(res.Data, q.Body):
			report(rerr.Class, fmt.Sprintf("malformed chunked body (%v): before failing with %q bfe delivered %q, beyond what a strict decoder delivers (%q)", rerr, q.BodyErr, clipB(q.Body, 60), clipB(res.Data, 60)))
			outcome = "viol"
		default:
			outcome = "agree-reject"
		}
	}
	if countCase {
		nontrivial := len(res.Chunks) > 0 || rerr != nil && !rerr.Incomplete()
		r.Case(vkit.Hash64("s", string(body)), nontrivial)
		if nontrivial && r.WantSample() && len(body) < 120 && len(res.Chunks) > 1 {
			r.Sample(map[string]interface{}{"body": fmt.Sprintf("%q", body), "ref_err": fmt.Sprint(rerr), "bfe_err": q.BodyErr, "outcome": outcome})
		}
	} else {
		r.Evals(1)
	}
	return outcome
}

// ---------------------------------------------------------------- round trips

type sizedReader struct {
	data  []byte
	sizes []int
	i     int
}

func (s *sizedReader) Read(p []byte) (int, error) {
	if len(s.data) == 0 {
		return 0, io.EOF
	}
	n := len(s.data)
	if s.i < len(s.sizes) && s.sizes[s.i] < n {
		n = s.sizes[s.i]
	}
	s.i++
	if n > len(p) {
		n = len(p)
	}
	copy(p, s.data[:n])
	s.data = s.data[n:]
	return n, nil
}

func c23RoundTrip(r *vkit.Run, w *c23Witness) {
	var wire bytes.Buffer
	var werr error
	if r.Try(func() interface{} { return w }, func() {
		u, _ := url.Parse("http://v/rt")
		req := &bfe_http.Request{Method: "POST", URL: u, Host: "v", Proto: "HTTP/1.1", ProtoMajor: 1, ProtoMinor: 1,
			Header: bfe_http.Header{}, State: &bfe_http.RequestState{}}
		req.Body = ioutil.NopCloser(&sizedReader{data: w.Body, sizes: w.WriteSizes})
		req.ContentLength = -1
		if w.CLMode == 1 {
			req.ContentLength = 0
		}
		werr = req.Write(&wire)
	}) {
		return
	}
	if werr != nil {
		r.Violation("roundtrip:write-error", "Request.Write failed: "+werr.Error(), w)
		return
	}
	stream := wire.Bytes()
	w.Stream, w.StreamQ = stream, fmt.Sprintf("%q", clipB(stream, 400))
	// the encoder's output must be a valid chunked body holding exactly the data
	ref, n, rej := http1.ParseRequest(stream)
	if rej != nil || n != len(stream) || !bytes.Equal(ref.Body, w.Body) {
		w.Ref = fmt.Sprintf("n=%d err=%v", n, rej)
		r.Violation("roundtrip:encoder-output-invalid", fmt.Sprintf("reference parser on the encoder's output: consumed %d of %d, err %v, body equal %v", n, len(stream), rej, ref != nil && bytes.Equal(ref.Body, w.Body)), w)
		return
	}
	if len(w.Body) > 0 && ref.Framing != http1.FramingChunked {
		r.Inconclusive("C23 harness: Request.Write did not use the chunked encoder")
		return
	}
	var run bfeRun
	if r.Try(func() interface{} { return w }, func() { run = runBfe(stream, w.Cuts, w.ReadSize, 2) }) {
		return
	}
	switch {
	case len(run.Reqs) != 1 || run.Err != "":
		r.Violation("roundtrip:reread-failed", fmt.Sprintf("bfe reading its own encoder's output: %d requests, err %q", len(run.Reqs), run.Err), w)
	case run.Reqs[0].BodyErr != "":
		r.Violation("roundtrip:error", fmt.Sprintf("decoding the encoder's output failed: %s after %d of %d bytes", run.Reqs[0].BodyErr, len(run.Reqs[0].Body), len(w.Body)), w)
	case !bytes.Equal(run.Reqs[0].Body, w.Body):
		r.Violation("roundtrip:bytes-differ", fmt.Sprintf("decoded %d bytes, encoder was given %d", len(run.Reqs[0].Body), len(w.Body)), w)
	case run.Reqs[0].End != len(stream):
		r.Violation("roundtrip:end-offset", fmt.Sprintf("decoder stopped at %d of %d", run.Reqs[0].End, len(stream)), w)
	default:
		r.Count("roundtrip_ok", 1)
		if len(ref.Chunks) > 2 {
			r.Count("roundtrip_multi_chunk", 1)
		}
	}
	r.Case(vkit.Hash64("rt", string(w.Body), fmt.Sprint(w.WriteSizes), fmt.Sprint(w.CLMode)), len(w.Body) > 0 && len(ref.Chunks) >= 2)
}

// ---------------------------------------------------------------- generators

var c23Alphabet = []byte("\r\n\r\n00aF5;: \t=\"xyz")

func c23Data(g *vkit.Rand, n int) []byte {
	b := make([]byte, n)
	mode := g.Intn(3)
	for i := range b {
		switch mode {
		case 0:
			b[i] = c23Alphabet[g.Intn(len(c23Alphabet))]
		case 1:
			b[i] = byte(g.Intn(256))
		default:
			b[i] = byte('a' + g.Intn(26))
		}
	}
	return b
}

func c23Len(g *vkit.Rand) int {
	switch g.Intn(20) {
	case 0:
		return 0
	case 1:
		return g.Range(4090, 4100) // around the bufio size
	case 2:
		return g.Range(1, 70000)
	case 3, 4:
		return g.Range(1, 600)
	default:
		return g.Range(1, 40)
	}
}

type c23Chunk struct {
	size, ext, lend string
	data            []byte
	dend            string
}

type c23Body struct {
	chunks                  []c23Chunk
	lastSize, lastExt, lend string
	trailers                []string // full lines with terminator
	fin                     string
}

func (b *c23Body) bytes() []byte {
	var o []byte
	for _, c := range b.chunks {
		o = append(o, c.size...)
		o = append(o, c.ext...)
		o = append(o, c.lend...)
		o = append(o, c.data...)
		o = append(o, c.dend...)
	}
	o = append(o, b.lastSize...)
	o = append(o, b.lastExt...)
	o = append(o, b.lend...)
	for _, t := range b.trailers {
		o = append(o, t...)
	}
	return append(o, b.fin...)
}

func hexSize(g *vkit.Rand, n int) string {
	s := fmt.Sprintf("%x", n)
	if g.Chance(1, 4) {
		s = strings.ToUpper(s)
	}
	if g.Chance(1, 6) {
		s = zeros(g.Range(1, 16-len(s))) + s
	}
	return s
}

func zeros(n int) string {
	if n <= 0 {
		return ""
	}
	return strings.Repeat("0", n)
}

var c23ValidExt = []string{";a", ";a=b", ";a=\"q x\"", ";a;b=c", ";name=\"\\\"\""}
var c23ValidTrailers = []string{"X-T: v\r\n", "X-Sum:abc\r\n", "A: \r\n", "B-b: 1, 2\r\n"}

func c23ValidBody(g *vkit.Rand) *c23Body {
	b := &c23Body{lastSize: "0", lend: "\r\n", fin: "\r\n"}
	nc := g.Intn(5)
	for i := 0; i < nc; i++ {
		n := c23Len(g)
		if n == 0 {
			n = 1
		}
		if n > 6000 {
			n = g.Range(1, 6000)
		}
		c := c23Chunk{size: hexSize(g, n), lend: "\r\n", data: c23Data(g, n), dend: "\r\n"}
		if g.Chance(1, 12) {
			c.ext = g.PickS(c23ValidExt)
		}
		b.chunks = append(b.chunks, c)
	}
	if g.Chance(1, 8) {
		b.lastSize = strings.Repeat("0", g.Range(2, 16))
	}
	if g.Chance(1, 8) {
		for k := g.Range(1, 2); k > 0; k-- {
			b.trailers = append(b.trailers, g.PickS(c23ValidTrailers))
		}
	}
	return b
}

var c23SizeMut = []func(g *vkit.Rand, s string) string{
	func(g *vkit.Rand, s string) string { return "" },
	func(g *vkit.Rand, s string) string { return zeros(17-len(s)) + s },              // 17 digits, same value
	func(g *vkit.Rand, s string) string { return zeros(g.Range(18, 40)-len(s)) + s }, // many zeros
	func(g *vkit.Rand, s string) string { // 17+ digits, non-zero high part: overflows 64 bits
		t := zeros(16-len(s)) + s
		return fmt.Sprintf("%x", g.Range(1, 0xfff)) + t
	},
	func(g *vkit.Rand, s string) string { return "0x" + s },
	func(g *vkit.Rand, s string) string { return "0X" + s },
	func(g *vkit.Rand, s string) string { return "+" + s },
	func(g *vkit.Rand, s string) string { return "-" + s },
	func(g *vkit.Rand, s string) string { return g.PickS([]string{" ", "\t", "  "}) + s },
	func(g *vkit.Rand, s string) string { return s + g.PickS([]string{" ", "\t", " \t ", "\r"}) },
	func(g *vkit.Rand, s string) string {
		return g.PickS([]string{"FFFFFFFFFFFFFFFF", "ffffffffffffffff", "8000000000000000", "7FFFFFFFFFFFFFFF", "FFFFFFFFFFFFFFFFF", "10000000000000000", "100000000000000000", "FFFFFFFFFFFFFFFE"})
	},
	func(g *vkit.Rand, s string) string {
		return s + g.PickS([]string{"g", ",1", ".0", "h", "\x00", "\xef\xbc\x95", "_", "x"})
	},
	func(g *vkit.Rand, s string) string {
		return g.PickS([]string{"g", "zz", "\x00", "/", ":", "=", "\""}) + s
	},
	func(g *vkit.Rand, s string) string { // off-by-small size
		var n uint64
		fmt.Sscanf(s, "%x", &n)
		d := uint64(g.Range(1, 3))
		if g.Bool() && n > d {
			return fmt.Sprintf("%x", n-d)
		}
		return fmt.Sprintf("%x", n+d)
	},
}

var c23BadExt = []string{" ;a", "; a=b", ";a =b", ";a= b", ";", ";=", ";a=", ";a=\"open", ";a b", ";a=b ", " ", ";a=\"x\"y", ";\x00"}
var c23BadEnd = []string{"\n", "\r", "", "\r\r\n", "\n\r", "\n\n", "\r\n\r\n", " \r\n", "X\r\n", "\x00\r\n"}
var c23BadTrailers = []string{"X : v\r\n", "X\t: v\r\n", " X: v\r\n", "X: a\r\n b\r\n", "nocolon\r\n", ": v\r\n", "X\x00: v\r\n", "X Y: v\r\n",
	"X: v\n", "X: a\x00b\r\n", "X: a\rb\r\n", "\x80: v\r\n", "X: v\r\r\n", "(: v\r\n", "\t\r\n", " \r\n"}

func c23Mutate(g *vkit.Rand, b *c23Body) string {
	pickChunk := func() *c23Chunk {
		if len(b.chunks) == 0 {
			return nil
		}
		return &b.chunks[g.Intn(len(b.chunks))]
	}
	switch g.Intn(12) {
	case 0, 1, 2: // size of a chunk or of the last-chunk
		if c := pickChunk(); c != nil && g.Chance(3, 4) {
			k := g.Intn(len(c23SizeMut))
			c.size = c23SizeMut[k](g, c.size)
			return fmt.Sprintf("size%d", k)
		}
		k := g.Intn(len(c23SizeMut))
		b.lastSize = c23SizeMut[k](g, b.lastSize)
		return fmt.Sprintf("lastsize%d", k)
	case 3: // chunk-ext
		e := g.PickS(append(c23BadExt, c23ValidExt...))
		if c := pickChunk(); c != nil && g.Bool() {
			c.ext = e
		} else {
			b.lastExt = e
		}
		return "ext"
	case 4, 5: // end of a size line
		e := g.PickS(c23BadEnd)
		if c := pickChunk(); c != nil && g.Chance(2, 3) {
			c.lend = e
		} else {
			b.lend = e
		}
		return "lend"
	case 6, 7: // end of chunk-data
		if c := pickChunk(); c != nil {
			c.dend = g.PickS(c23BadEnd)
			return "dend"
		}
		b.fin = g.PickS(c23BadEnd)
		return "fin"
	case 8: // trailer
		t := g.PickS(c23BadTrailers)
		if len(b.trailers) > 0 && g.Bool() {
			b.trailers = append(b.trailers, t)
		} else {
			b.trailers = append([]string{t}, b.trailers...)
		}
		return "trailer"
	case 9: // final CRLF
		b.fin = g.PickS(c23BadEnd)
		return "fin"
	case 10: // empty line / stray line between chunks
		if c := pickChunk(); c != nil {
			c.dend += g.PickS([]string{"\r\n", "\n", "\r\n\r\n", " \r\n", "0\r\n"})
			return "stray"
		}
		b.lastSize = ""
		return "stray"
	default:
		return "none"
	}
}

func c23ByteMutate(g *vkit.Rand, s []byte) []byte {
	if len(s) == 0 {
		return s
	}
	p := g.Intn(len(s))
	switch g.Intn(4) {
	case 0: // truncate
		return s[:p]
	case 1: // delete
		return append(append([]byte{}, s[:p]...), s[p+1:]...)
	case 2: // insert
		c := c23Alphabet[g.Intn(len(c23Alphabet))]
		return append(append(append([]byte{}, s[:p]...), c), s[p:]...)
	default: // replace
		o := append([]byte{}, s...)
		o[p] = c23Alphabet[g.Intn(len(c23Alphabet))]
		return o
	}
}

// c23Corpus is the deterministic corpus: one short witness (at least) per
// deviation class, evaluated in both tiers with every two-fragment split.
var c23Corpus = []string{
	// valid
	"0\r\n\r\n", "5\r\nhello\r\n0\r\n\r\n", "1\r\na\r\n2\r\nbc\r\n0\r\n\r\n", "5\r\nhello\r\n0\r\nX-T: v\r\n\r\n",
	"5;a=b\r\nhello\r\n0\r\n\r\n", "0005\r\nhello\r\n000\r\n\r\n", "A\r\n0123456789\r\n0\r\n\r\n", "a\r\n0123456789\r\n0\r\n\r\n",
	"0000000000000005\r\nhello\r\n0\r\n\r\n", "2\r\n\r\n\r\n0\r\n\r\n", "3\r\n0\r\n\r\n0\r\n\r\n",
	// chunk-size
	"\r\n\r\n", "\r\n", "5\r\nhello\r\n\r\n\r\n", "5\r\nhello\r\n\r\n", "\n\r\n",
	"00000000000000005\r\nhello\r\n0\r\n\r\n", "10000000000000005\r\nhello\r\n0\r\n\r\n", "10000000000000000\r\n\r\n", "00000000000000000\r\n\r\n",
	"5\r\nhello\r\n00000000000000000\r\n\r\n", "5\r\nhello\r\nf0000000000000000\r\n\r\n",
	"FFFFFFFFFFFFFFFF\r\nhello\r\n0\r\n\r\n", "FFFFFFFFFFFFFFFFF\r\nhello\r\n0\r\n\r\n", "8000000000000000\r\nhello\r\n0\r\n\r\n",
	"0x5\r\nhello\r\n0\r\n\r\n", "+5\r\nhello\r\n0\r\n\r\n", "-5\r\nhello\r\n0\r\n\r\n", "-0\r\n\r\n", "+0\r\n\r\n",
	" 5\r\nhello\r\n0\r\n\r\n", "\t5\r\nhello\r\n0\r\n\r\n", "5 \r\nhello\r\n0\r\n\r\n", "5\t\r\nhello\r\n0\r\n\r\n", "5\r\nhello\r\n0 \r\n\r\n",
	"5g\r\nhello\r\n0\r\n\r\n", "g\r\n\r\n", "5,5\r\nhello\r\n0\r\n\r\n",
	// chunk-ext
	"5 ;a\r\nhello\r\n0\r\n\r\n", "5;\r\nhello\r\n0\r\n\r\n", "5;a \r\nhello\r\n0\r\n\r\n", "5;a=\"x\r\nhello\r\n0\r\n\r\n", "0;a\r\n\r\n",
	// line ends
	"5\nhello\r\n0\r\n\r\n", "5\r\nhello\r\n0\n\r\n", "5\r\r\nhello\r\n0\r\n\r\n", "5\r\nhello\r\n0\r\r\n\r\n", "5\rhello\r\n0\r\n\r\n",
	// chunk-data CRLF
	"5\r\nhello\n0\r\n\r\n", "5\r\nhello0\r\n\r\n", "5\r\nhelloXX0\r\n\r\n", "5\r\nhello\r0\r\n\r\n", "6\r\nhello\r\n0\r\n\r\n", "4\r\nhello\r\n0\r\n\r\n",
	"5\r\nhello\n\n0\r\n\r\n", "5\r\nhello\r\r\n0\r\n\r\n",
	// trailer-part and final CRLF
	"0\r\n\n", "0\r\n\r", "0\r\n", "0\r\nX : v\r\n\r\n", "0\r\n X: v\r\n\r\n", "0\r\nX: a\r\n b\r\n\r\n", "0\r\nnocolon\r\n\r\n", "0\r\n: v\r\n\r\n",
	"0\r\nX\x00: v\r\n\r\n", "0\r\nX Y: v\r\n\r\n", "0\r\nX: v\n\r\n", "0\r\nX: v\r\n\n", "0\r\nX: a\x00b\r\n\r\n", "0\r\nX: a\rb\r\n\r\n", "0\r\n\x80: v\r\n\r\n",
	"0\r\n \r\n\r\n", "0\r\nX: v\r\r\n\r\n", "0\r\n\r\r\n",
}

func c23(r *vkit.Run) {
	r.SetRule("streams = fixed request head (Transfer-Encoding: chunked) + body + optional following request, fed to bfe_http.ReadRequest/Body.Read in scripted fragments and judged against ref/chunked (strict RFC 7230 4.1, 1-16 HEXDIG). " +
		"(a) deterministic corpus of ~85 short bodies (>=1 per deviation class) and every prefix of a valid body, each with and without a following request, delivered whole, byte-wise and cut at every byte boundary, read 1 and 512 bytes at a time; " +
		"(b) random structured bodies (0-4 chunks, data 0-6000 bytes biased to CR/LF/hex/';', valid ext and trailers) with 0-2 structural mutations (size text: empty, 17+ digits, 0x, sign, whitespace, huge, junk; ext; line ends; data CRLF; trailer lines; stray lines) or byte-level mutation/truncation; " +
		"(c) round trips of random bodies (0-70000 bytes) through Request.Write's chunked encoder with random write sizes, encoder output checked by ref/http1 and re-read by bfe with random segmentation. " +
		"Non-trivial: reference parsed >=1 chunk-size line or rejected on a grammar class (round trip: >=2 chunks). Distinct = body bytes (round trip: body+write sizes). " +
		"Excluded corner: whitespace around ';'/'=' in chunk-ext (RFC 7230 vs erratum 4667/RFC 9112) is judged under the tolerant reading. bfe rejecting valid chunk-ext is counted, not alarmed (decision table allows an error).")
	r.Assume("ref/chunked and ref/http1 are correct (self-tested at start on RFC-derived cases); chunk-size limited to 16 hex digits as the property states")
	if r.Replay != "" {
		var w c23Witness
		if err := r.LoadReplay(&w); err != nil {
			r.Inconclusive(err.Error())
			return
		}
		r.SetMinDistinct(0)
		if w.Kind == "roundtrip" {
			c23RoundTrip(r, &w)
		} else {
			if len(w.Stream) < len(c23Head) {
				r.Inconclusive("replay: stream shorter than the head")
				return
			}
			c23Stream(r, w.Stream[len(c23Head):], w.Cuts, w.ReadSize, true)
		}
		return
	}

	// (a) corpus, all splits
	corpus := append([]string{}, c23Corpus...)
	full := "5\r\nhello\r\n3;x=y\r\nabc\r\n0\r\nT: v\r\n\r\n"
	for i := 0; i < len(full); i++ {
		corpus = append(corpus, full[:i])
	}
	var varies int64
	for _, c := range corpus {
		for _, suffix := range []string{"", c23Next} {
			body := []byte(c + suffix)
			n := len(c23Head) + len(body)
			outcomes := map[string]bool{}
			first := true
			for _, rs := range []int{1, 512} {
				outcomes[c23Stream(r, body, nil, rs, first)] = true
				first = false
				all := make([]int, 0, n)
				for i := 1; i < n; i++ {
					all = append(all, i)
				}
				outcomes[c23Stream(r, body, all, rs, false)] = true
				for k := len(c23Head) - 2; k < n && k < len(c23Head)+len(c)+6; k++ {
					outcomes[c23Stream(r, body, []int{k}, rs, false)] = true
				}
			}
			if len(outcomes) > 1 {
				varies++
			}
		}
	}
	r.Count("corpus_bodies", int64(len(corpus)*2))
	r.Count("corpus_outcome_varies_with_split", varies)

	// (b) random mutated bodies
	nb := r.N(100000, 5000000)
	vkit.Parallel(nb, 0, func(i int) {
		g := r.Rng("stream", i)
		b := c23ValidBody(g)
		nm := 1
		switch g.Intn(20) {
		case 0:
			nm = 0
		case 1, 2, 3, 4:
			nm = 2
		}
		for k := 0; k < nm; k++ {
			c23Mutate(g, b)
		}
		body := b.bytes()
		if g.Chance(1, 6) {
			body = c23ByteMutate(g, body)
		}
		switch g.Intn(4) {
		case 0:
		case 1:
			body = append(body, c23Data(g, g.Range(1, 12))...)
		default:
			body = append(body, c23Next...)
		}
		cuts := randCuts(g, len(c23Head)+len(body))
		c23Stream(r, body, cuts, readSizes[g.Intn(len(readSizes))], true)
	})

	// (c) round trips
	nr := r.N(20000, 600000)
	vkit.Parallel(nr, 0, func(i int) {
		g := r.Rng("roundtrip", i)
		w := &c23Witness{Kind: "roundtrip", ReadSize: readSizes[g.Intn(len(readSizes))]}
		n := c23Len(g)
		w.Body = c23Data(g, n)
		if g.Chance(1, 5) {
			w.CLMode = 1
		}
		maxw := []int{1, 5, 100, 5000, 40000}[g.Intn(5)]
		for left := n; left > 0; {
			k := g.Range(1, maxw)
			w.WriteSizes = append(w.WriteSizes, k)
			left -= k
			if len(w.WriteSizes) > 4000 {
				break
			}
		}
		w.Cuts = randCuts(g, n+n/2+200)
		c23RoundTrip(r, w)
	})

	for _, need := range []string{"ref_accept", "ref_reject", "bfe_clean_eof", "bfe_error", "roundtrip_ok", "roundtrip_multi_chunk"} {
		if r.Counter(need) == 0 && r.Violations() == 0 {
			r.Inconclusive("outcome never observed: " + need)
		}
	}
}
