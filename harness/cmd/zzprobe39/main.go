package main

import (
	"bytes"
	"fmt"
	"io"
	"reflect"
	"unsafe"

	http "github.com/bfenetworks/bfe/bfe_http"
	"github.com/bfenetworks/bfe/bfe_spdy"
)

func be32(v uint32) []byte { return []byte{byte(v >> 24), byte(v >> 16), byte(v >> 8), byte(v)} }

func stored(content []byte, zhdr []byte) []byte {
	out := append([]byte{}, zhdr...)
	for len(content) > 0 {
		n := len(content)
		if n > 65535 {
			n = 65535
		}
		out = append(out, 0x00, byte(n), byte(n>>8), ^byte(n), ^byte(n>>8))
		out = append(out, content[:n]...)
		content = content[n:]
	}
	return append(out, 0x00, 0x00, 0x00, 0xff, 0xff)
}

func ctl(typ uint16, flags uint8, payload []byte) []byte {
	l := uint32(len(payload))
	b := []byte{0x80, 0x03, byte(typ >> 8), byte(typ), flags, byte(l >> 16), byte(l >> 8), byte(l)}
	return append(b, payload...)
}

func block(num uint32, pairs ...string) []byte {
	c := be32(num)
	for _, p := range pairs {
		c = append(c, be32(uint32(len(p)))...)
		c = append(c, p...)
	}
	return c
}

func setUncompressed(f *bfe_spdy.Framer) bool {
	fld := reflect.ValueOf(f).Elem().FieldByName("headerCompressionDisabled")
	if !fld.IsValid() || fld.Kind() != reflect.Bool {
		return false
	}
	*(*bool)(unsafe.Pointer(fld.UnsafeAddr())) = true
	return true
}

func main() {
	var buf bytes.Buffer
	f, _ := bfe_spdy.NewFramer(&buf, nil)
	f.WriteFrame(&bfe_spdy.SynReplyFrame{StreamId: 1, Headers: http.Header{"a": {"b"}}})
	zhdr := append([]byte{}, buf.Bytes()[12:18]...)

	try := func(name string, compressed bool, blocks ...[]byte) {
		var s []byte
		first := true
		for i, b := range blocks {
			var pl []byte
			if compressed {
				var z []byte
				if first {
					z = zhdr
					first = false
				}
				pl = append(be32(uint32(2*i+1)), stored(b, z)...)
			} else {
				pl = append(be32(uint32(2*i+1)), b...)
			}
			s = append(s, ctl(2, 0, pl)...)
		}
		s = append(s, ctl(6, 0, be32(77))...)
		rf, _ := bfe_spdy.NewFramer(io.Discard, bytes.NewReader(s))
		if !compressed {
			if !setUncompressed(rf) {
				fmt.Println("cannot set uncompressed")
				return
			}
		}
		fmt.Printf("== %s compressed=%v\n", name, compressed)
		for i := 0; i < len(blocks)+2; i++ {
			fr, err := rf.ReadFrame()
			if e, ok := err.(*bfe_spdy.Error); ok {
				fmt.Printf("   #%d *Error{%q, sid=%d}\n", i, e.Err, e.StreamId)
			} else if err != nil {
				fmt.Printf("   #%d err %T %v\n", i, err, err)
			} else {
				switch x := fr.(type) {
				case *bfe_spdy.SynReplyFrame:
					fmt.Printf("   #%d SYN_REPLY sid=%d %v\n", i, x.StreamId, x.Headers)
				default:
					fmt.Printf("   #%d %T %+v\n", i, fr, fr)
				}
			}
			if err == io.EOF {
				break
			}
		}
	}
	good := block(2, "x-ok", "1", "y-ok", "2")
	for _, c := range []bool{true, false} {
		try("dup-colon", c, block(3, ":path", "/a", ":path", "/b", "z", "zz"), good)
		try("dup-plain", c, block(3, "x-a", "1", "x-a", "2", "z", "zz"), good)
		try("upper", c, block(2, "X-Up", "1", "z", "zz"), good)
		try("empty-name", c, block(2, "", "1", "z", "zz"), good)
		try("empty-name-twice", c, block(3, "", "1", "", "zz", "q", "r"), good)
		try("empty-value", c, block(2, "a", "", "z", "zz"), good)
		try("forbidden", c, block(2, "connection", "close", "z", "zz"), good)
		try("count-smaller", c, block(1, "a", "1", "zz", "yy"), good)
		try("count-larger", c, block(3, "a", "1", "zz", "yy"), good)
		try("name-len-over", c, append(block(1), append(be32(100), 'x')...), good)
	}
	// zero stream id, unknown type, bad version, in compressed mode
	{
		s := ctl(2, 0, append(be32(0), stored(good, zhdr)...))
		s = append(s, ctl(2, 0, append(be32(3), stored(good, nil)...))...)
		rf, _ := bfe_spdy.NewFramer(io.Discard, bytes.NewReader(s))
		for i := 0; i < 3; i++ {
			fr, err := rf.ReadFrame()
			fmt.Printf("zero-sid #%d %T %v %#v\n", i, fr, err, err)
		}
		s = ctl(77, 0, []byte{1, 2, 3, 4})
		s = append(s, ctl(6, 0, be32(5))...)
		rf, _ = bfe_spdy.NewFramer(io.Discard, bytes.NewReader(s))
		for i := 0; i < 3; i++ {
			fr, err := rf.ReadFrame()
			fmt.Printf("unknown-type #%d %T %v %#v\n", i, fr, err, err)
		}
		s = ctl(6, 0, be32(5))
		s[1] = 2
		s = append(s, ctl(6, 0, be32(6))...)
		rf, _ = bfe_spdy.NewFramer(io.Discard, bytes.NewReader(s))
		for i := 0; i < 3; i++ {
			fr, err := rf.ReadFrame()
			fmt.Printf("bad-version #%d %+v %v\n", i, fr, err)
		}
	}
}
