package main

import (
	"bytes"
	"fmt"

	"github.com/bfenetworks/bfe/bfe_bufio"
	"github.com/bfenetworks/bfe/bfe_http"
)

func main() {
	for _, t := range []string{"http://h/a.txt", "http://h/sub%2Fa.txt", "HTTP://h/a%2Etxt", "http://h", "http://h?x", "//host/a.txt", "/a%2Fb", "*", "http:a.txt", "http://h/a.txt?x#y"} {
		raw := "GET " + t + " HTTP/1.1\r\nHost: x\r\n\r\n"
		r, err := bfe_http.ReadRequest(bfe_bufio.NewReader(bytes.NewReader([]byte(raw))), 1<<20)
		if err != nil {
			fmt.Printf("%-28s err %v\n", t, err)
			continue
		}
		fmt.Printf("%-28s Path=%q RawPath=%q Host=%q Opaque=%q Scheme=%q\n", t, r.URL.Path, r.URL.RawPath, r.URL.Host, r.URL.Opaque, r.URL.Scheme)
	}
}
