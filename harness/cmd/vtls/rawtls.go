package main

import (
	"encoding/binary"
	"encoding/hex"
	"encoding/json"
	"errors"
	"fmt"
	"io"
)

// Minimal TLS <= 1.2 wire reader/writer, written from RFC 5246 / 6066 / 4492 /
// 5077 / 7301 / 7507. It never touches key material: it builds ClientHello
// messages, splits a byte stream into records and parses the clear-text part
// of the server's first flight.

const (
	recCCS       = 20
	recAlert     = 21
	recHandshake = 22
	recAppData   = 23

	hsClientHello      = 1
	hsServerHello      = 2
	hsNewSessionTicket = 4
	hsCertificate      = 11
	hsServerKeyExch    = 12
	hsCertRequest      = 13
	hsServerHelloDone  = 14
	hsCertStatus       = 22

	alertInappropriateFallback = 86

	scsvFallback = 0x5600
)

// hexBytes is a byte string that is hex in JSON (witnesses stay readable and
// replay exactly).
type hexBytes []byte

func (h hexBytes) MarshalJSON() ([]byte, error) { return json.Marshal(hex.EncodeToString(h)) }
func (h *hexBytes) UnmarshalJSON(b []byte) error {
	var s string
	if err := json.Unmarshal(b, &s); err != nil {
		return err
	}
	d, err := hex.DecodeString(s)
	*h = d
	return err
}

type rawRec struct {
	Typ  byte
	Ver  uint16
	Body []byte
	Raw  []byte // header + body
}

// splitRecords parses as many complete records as b holds; rest is the
// incomplete tail.
func splitRecords(b []byte) (recs []rawRec, rest []byte) {
	for len(b) >= 5 {
		n := int(binary.BigEndian.Uint16(b[3:5]))
		if len(b) < 5+n {
			break
		}
		recs = append(recs, rawRec{Typ: b[0], Ver: binary.BigEndian.Uint16(b[1:3]), Body: b[5 : 5+n], Raw: b[:5+n]})
		b = b[5+n:]
	}
	return recs, b
}

func readRawRecord(r io.Reader) (rawRec, error) {
	var hdr [5]byte
	if _, err := io.ReadFull(r, hdr[:]); err != nil {
		return rawRec{}, err
	}
	n := int(binary.BigEndian.Uint16(hdr[3:5]))
	raw := make([]byte, 5+n)
	copy(raw, hdr[:])
	if _, err := io.ReadFull(r, raw[5:]); err != nil {
		if err == io.EOF {
			err = io.ErrUnexpectedEOF
		}
		return rawRec{}, err
	}
	return rawRec{Typ: raw[0], Ver: binary.BigEndian.Uint16(raw[1:3]), Body: raw[5:], Raw: raw}, nil
}

// helloSpec describes a ClientHello to be written by the harness.
type helloSpec struct {
	RecVer    uint16   `json:"rec_ver"` // record-layer version
	Vers      uint16   `json:"vers"`    // client_version
	SessionID hexBytes `json:"session_id,omitempty"`
	Suites    []uint16 `json:"suites"`
	SNI       string   `json:"sni,omitempty"`
	Curves    []uint16 `json:"curves,omitempty"`
	Points    bool     `json:"points,omitempty"`
	SigAlgs   bool     `json:"sigalgs,omitempty"`
	TicketExt bool     `json:"ticket_ext,omitempty"` // send the SessionTicket extension
	Ticket    hexBytes `json:"ticket,omitempty"`     // its content (may be empty)
	ALPN      []string `json:"alpn,omitempty"`
	NoExt     bool     `json:"no_ext,omitempty"` // omit the extensions block entirely
	Random    hexBytes `json:"random,omitempty"`
}

func put16(b []byte, v int) []byte { return append(b, byte(v>>8), byte(v)) }

func (h *helloSpec) marshalHandshake() []byte {
	var body []byte
	body = put16(body, int(h.Vers))
	rnd := h.Random
	if len(rnd) != 32 {
		rnd = make([]byte, 32)
		for i := range rnd {
			rnd[i] = byte(0xA0 + i)
		}
	}
	body = append(body, rnd...)
	body = append(body, byte(len(h.SessionID)))
	body = append(body, h.SessionID...)
	body = put16(body, 2*len(h.Suites))
	for _, s := range h.Suites {
		body = put16(body, int(s))
	}
	body = append(body, 1, 0) // null compression
	if !h.NoExt {
		var ext []byte
		addExt := func(id int, data []byte) {
			ext = put16(ext, id)
			ext = put16(ext, len(data))
			ext = append(ext, data...)
		}
		if h.SNI != "" {
			var d []byte
			d = put16(d, 3+len(h.SNI))
			d = append(d, 0)
			d = put16(d, len(h.SNI))
			d = append(d, h.SNI...)
			addExt(0, d)
		}
		if len(h.Curves) > 0 {
			var d []byte
			d = put16(d, 2*len(h.Curves))
			for _, c := range h.Curves {
				d = put16(d, int(c))
			}
			addExt(10, d)
		}
		if h.Points {
			addExt(11, []byte{1, 0})
		}
		if h.SigAlgs {
			// sha256/rsa, sha256/ecdsa, sha1/rsa, sha1/ecdsa
			addExt(13, []byte{0, 8, 4, 1, 4, 3, 2, 1, 2, 3})
		}
		if len(h.ALPN) > 0 {
			var l []byte
			for _, p := range h.ALPN {
				l = append(l, byte(len(p)))
				l = append(l, p...)
			}
			var d []byte
			d = put16(d, len(l))
			d = append(d, l...)
			addExt(16, d)
		}
		if h.TicketExt {
			addExt(35, h.Ticket)
		}
		addExt(0xff01, []byte{0})
		body = put16(body, len(ext))
		body = append(body, ext...)
	}
	msg := []byte{hsClientHello, byte(len(body) >> 16), byte(len(body) >> 8), byte(len(body))}
	return append(msg, body...)
}

func (h *helloSpec) marshalRecord() []byte {
	msg := h.marshalHandshake()
	rv := h.RecVer
	if rv == 0 {
		rv = 0x0301
	}
	rec := []byte{recHandshake, byte(rv >> 8), byte(rv), byte(len(msg) >> 8), byte(len(msg))}
	return append(rec, msg...)
}

// srvFlight is what the wire shows of the server's answer to a ClientHello.
type srvFlight struct {
	GotHello    bool     `json:"got_hello"`
	Vers        uint16   `json:"vers"`
	Suite       uint16   `json:"suite"`
	SessionID   hexBytes `json:"session_id,omitempty"`
	ALPN        string   `json:"alpn,omitempty"`
	HasALPN     bool     `json:"has_alpn,omitempty"`
	TicketExt   bool     `json:"ticket_ext,omitempty"`
	Msgs        []int    `json:"msgs,omitempty"` // handshake message types seen in the clear, in order
	SawCCS      bool     `json:"saw_ccs"`
	Alert       bool     `json:"alert"`
	AlertLevel  byte     `json:"alert_level,omitempty"`
	AlertDesc   byte     `json:"alert_desc,omitempty"`
	ParseErr    string   `json:"parse_err,omitempty"`
	NewTicket   hexBytes `json:"new_ticket,omitempty"`
	RecVersions []uint16 `json:"-"`
}

// Abbreviated: ServerHello then ChangeCipherSpec with no Certificate between.
func (f *srvFlight) Abbreviated() bool {
	if !f.GotHello || !f.SawCCS {
		return false
	}
	for _, m := range f.Msgs {
		if m == hsCertificate || m == hsServerHelloDone {
			return false
		}
	}
	return true
}

// Full: ServerHello followed by Certificate.
func (f *srvFlight) Full() bool {
	if !f.GotHello {
		return false
	}
	for _, m := range f.Msgs {
		if m == hsCertificate {
			return true
		}
	}
	return false
}

func (f *srvFlight) Refused() bool { return !f.GotHello && f.Alert && f.AlertLevel == 2 }

func parseServerHello(body []byte, f *srvFlight) error {
	if len(body) < 35 {
		return errors.New("short ServerHello")
	}
	f.Vers = binary.BigEndian.Uint16(body[0:2])
	sl := int(body[34])
	if len(body) < 35+sl+3 {
		return errors.New("short ServerHello (session id)")
	}
	f.SessionID = append([]byte(nil), body[35:35+sl]...)
	p := body[35+sl:]
	f.Suite = binary.BigEndian.Uint16(p[0:2])
	p = p[3:]
	f.GotHello = true
	if len(p) == 0 {
		return nil
	}
	if len(p) < 2 {
		return errors.New("bad extensions length")
	}
	el := int(binary.BigEndian.Uint16(p[0:2]))
	p = p[2:]
	if el != len(p) {
		return errors.New("extensions length mismatch")
	}
	for len(p) > 0 {
		if len(p) < 4 {
			return errors.New("short extension")
		}
		id := binary.BigEndian.Uint16(p[0:2])
		l := int(binary.BigEndian.Uint16(p[2:4]))
		p = p[4:]
		if len(p) < l {
			return errors.New("short extension body")
		}
		d := p[:l]
		p = p[l:]
		switch id {
		case 16:
			if len(d) < 3 || int(binary.BigEndian.Uint16(d[0:2])) != len(d)-2 || int(d[2]) != len(d)-3 {
				return errors.New("bad ALPN extension in ServerHello")
			}
			f.HasALPN = true
			f.ALPN = string(d[3:])
		case 35:
			f.TicketExt = true
		}
	}
	return nil
}

// parseServerFlight parses the server->client byte stream up to and including
// the first ChangeCipherSpec, fatal alert or end of data.
func parseServerFlight(stream []byte) *srvFlight {
	f := &srvFlight{}
	recs, _ := splitRecords(stream)
	var hs []byte
	for _, rc := range recs {
		f.RecVersions = append(f.RecVersions, rc.Ver)
		switch rc.Typ {
		case recAlert:
			if len(rc.Body) == 2 {
				f.Alert, f.AlertLevel, f.AlertDesc = true, rc.Body[0], rc.Body[1]
			} else {
				f.ParseErr = "alert record of length " + fmt.Sprint(len(rc.Body))
			}
			return f
		case recCCS:
			f.SawCCS = true
			return f
		case recHandshake:
			hs = append(hs, rc.Body...)
			for len(hs) >= 4 {
				n := int(hs[1])<<16 | int(hs[2])<<8 | int(hs[3])
				if len(hs) < 4+n {
					break
				}
				typ, body := hs[0], hs[4:4+n]
				hs = hs[4+n:]
				f.Msgs = append(f.Msgs, int(typ))
				switch typ {
				case hsServerHello:
					if err := parseServerHello(body, f); err != nil {
						f.ParseErr = err.Error()
						return f
					}
				case hsNewSessionTicket:
					if len(body) >= 6 {
						f.NewTicket = append([]byte(nil), body[6:]...)
					}
				}
			}
		default:
			f.ParseErr = fmt.Sprintf("unexpected record type %d in server flight", rc.Typ)
			return f
		}
	}
	return f
}

// readServerFlight reads records from the server until its first flight is
// over: fatal alert, ChangeCipherSpec (abbreviated handshake), ServerHelloDone
// (full handshake) or EOF.
func readServerFlight(r io.Reader) *srvFlight {
	var stream []byte
	for {
		rc, err := readRawRecord(r)
		if err != nil {
			break
		}
		stream = append(stream, rc.Raw...)
		f := parseServerFlight(stream)
		if f.Alert || f.SawCCS || f.ParseErr != "" {
			return f
		}
		for _, m := range f.Msgs {
			if m == hsServerHelloDone {
				return f
			}
		}
	}
	return parseServerFlight(stream)
}
