package main

import (
	"crypto"
	"crypto/ecdsa"
	"crypto/elliptic"
	"crypto/rand"
	"crypto/rsa"
	"crypto/tls"
	"crypto/x509"
	"crypto/x509/pkix"
	"math/big"
	"sync"
	"time"

	"github.com/bfenetworks/bfe/bfe_tls"
)

// Run-time PKI: one RSA-2048 and one ECDSA P-256 server certificate, two client
// CAs and one client certificate under each. Generated once per process with
// the standard library.

type pkiT struct {
	srvRSA, srvECDSA bfe_tls.Certificate
	srvLeafRSA       *x509.Certificate
	srvLeafECDSA     *x509.Certificate
	caPool           map[string]*x509.CertPool // "A", "B"
	cliCert          map[string]tls.Certificate
	rootsForClient   *x509.CertPool
}

var (
	pkiOnce sync.Once
	pki     *pkiT
)

var sniNames = []string{"plain.test", "aplus.test", "a.test", "b.test", "c.test", "chacha.test", "auth-a.test", "auth-b.test", "noauth.test", "other.test"}

func mkCert(tmpl, parent *x509.Certificate, pub crypto.PublicKey, signer crypto.PrivateKey) ([]byte, *x509.Certificate) {
	der, err := x509.CreateCertificate(rand.Reader, tmpl, parent, pub, signer)
	if err != nil {
		panic(err)
	}
	c, err := x509.ParseCertificate(der)
	if err != nil {
		panic(err)
	}
	return der, c
}

func getPKI() *pkiT {
	pkiOnce.Do(func() {
		p := &pkiT{caPool: map[string]*x509.CertPool{}, cliCert: map[string]tls.Certificate{}}
		nb, na := time.Now().Add(-24*time.Hour), time.Now().Add(365*24*time.Hour)
		srvTmpl := func(serial int64) *x509.Certificate {
			return &x509.Certificate{
				SerialNumber: big.NewInt(serial), Subject: pkix.Name{CommonName: "vtls server"},
				NotBefore: nb, NotAfter: na, DNSNames: sniNames,
				KeyUsage:              x509.KeyUsageDigitalSignature | x509.KeyUsageKeyEncipherment | x509.KeyUsageCertSign,
				ExtKeyUsage:           []x509.ExtKeyUsage{x509.ExtKeyUsageServerAuth},
				BasicConstraintsValid: true, IsCA: true,
			}
		}
		rk, err := rsa.GenerateKey(rand.Reader, 2048)
		if err != nil {
			panic(err)
		}
		t := srvTmpl(1)
		der, leaf := mkCert(t, t, &rk.PublicKey, rk)
		p.srvRSA = bfe_tls.Certificate{Certificate: [][]byte{der}, PrivateKey: rk}
		p.srvLeafRSA = leaf
		ek, err := ecdsa.GenerateKey(elliptic.P256(), rand.Reader)
		if err != nil {
			panic(err)
		}
		t = srvTmpl(2)
		der, leaf = mkCert(t, t, &ek.PublicKey, ek)
		p.srvECDSA = bfe_tls.Certificate{Certificate: [][]byte{der}, PrivateKey: ek}
		p.srvLeafECDSA = leaf
		p.rootsForClient = x509.NewCertPool()
		p.rootsForClient.AddCert(p.srvLeafRSA)
		p.rootsForClient.AddCert(p.srvLeafECDSA)

		for i, name := range []string{"A", "B"} {
			cak, _ := ecdsa.GenerateKey(elliptic.P256(), rand.Reader)
			cat := &x509.Certificate{
				SerialNumber: big.NewInt(int64(10 + i)), Subject: pkix.Name{CommonName: "vtls client CA " + name},
				NotBefore: nb, NotAfter: na, KeyUsage: x509.KeyUsageCertSign, BasicConstraintsValid: true, IsCA: true,
			}
			_, caCert := mkCert(cat, cat, &cak.PublicKey, cak)
			pool := x509.NewCertPool()
			pool.AddCert(caCert)
			p.caPool[name] = pool
			ck, _ := ecdsa.GenerateKey(elliptic.P256(), rand.Reader)
			ct := &x509.Certificate{
				SerialNumber: big.NewInt(int64(20 + i)), Subject: pkix.Name{CommonName: "vtls client " + name},
				NotBefore: nb, NotAfter: na, KeyUsage: x509.KeyUsageDigitalSignature,
				ExtKeyUsage: []x509.ExtKeyUsage{x509.ExtKeyUsageClientAuth},
			}
			cder, cleaf := mkCert(ct, caCert, &ck.PublicKey, cak)
			p.cliCert[name] = tls.Certificate{Certificate: [][]byte{cder}, PrivateKey: ck, Leaf: cleaf}
		}
		pki = p
	})
	return pki
}
