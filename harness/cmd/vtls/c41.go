package main

import (
	"fmt"
	"os"
	"strings"

	"verifharness/vkit"
)

// C41: every completed handshake uses a version within the server's range and
// not above the client's, a suite the client offered and the server enables
// for the connection's rule, an ALPN protocol both offered; data flows intact;
// TLS_FALLBACK_SCSV below the server's highest enabled version is refused.

type c41Case struct {
	Kind   string  `json:"kind"` // "nego" | "scsv" | "rawnego" | "xrule"
	Srv    srvSpec `json:"srv"`
	Cli    cliSpec `json:"cli"`
	Resume bool    `json:"resume,omitempty"` // nego: second connection through a shared client session cache
	// scsv
	HelloVers uint16 `json:"hello_vers,omitempty"`
	Resum     string `json:"resum,omitempty"`    // "", "ticket", "sessionid"
	ScsvPos   string `json:"scsv_pos,omitempty"` // "first" | "last" | "absent"
	// xrule: second connection under another rule than the first (c41xrule.go)
	X    *c41X    `json:"x,omitempty"`
	orig *c41Case // set on the derived view through which the second connection of an xrule case is judged
}

var c41RuleNames = map[string]string{"": "plain.test", "A+": "aplus.test", "A": "a.test", "B": "b.test", "C": "c.test", "C+chacha": "chacha.test", "A+chacha": "other.test"}

// alpnLists: the first srvAlpnN are drawn for servers (global list and rule lists) and clients, the
// rest for clients only: protocols no server list has, alone and before / between / after h2 and
// http/1.1 (the server's re-selection after withdrawing h2 must not pick what only the client named).
var alpnLists = [][]string{nil, {"h2", "http/1.1"}, {"http/1.1"}, {"h2"}, {"spdy/3.1", "http/1.1"}, {"h2", "spdy/3.1"},
	{"foo"}, {"acme-proto", "h2"}, {"acme-proto", "h2", "http/1.1"}, {"h2", "acme-proto"}, {"http/1.1", "acme-proto", "h2"}, {"acme-proto", "spdy/3.1", "h2"}}

const srvAlpnN = 6

func c41Rules(g *vkit.Rand) map[string]ruleSpec {
	np := func() []string { return alpnLists[g.Intn(srvAlpnN)] }
	return map[string]ruleSpec{
		"aplus.test":  {Grade: "A+", NextProtos: np()},
		"a.test":      {Grade: "A", NextProtos: np()},
		"b.test":      {Grade: "B", NextProtos: np()},
		"c.test":      {Grade: "C", NextProtos: np()},
		"chacha.test": {Grade: "C", Chacha: true, NextProtos: np()},
		"other.test":  {Grade: "A+", Chacha: true, NextProtos: np()},
	}
}

func stdSuiteIDs() []uint16 {
	var o []uint16
	for _, s := range suiteTable {
		if s.Std {
			o = append(o, s.ID)
		}
	}
	return o
}

func pickSubset(g *vkit.Rand, xs []uint16, num, den int) []uint16 {
	var o []uint16
	for _, i := range g.Perm(len(xs)) {
		if g.Chance(num, den) {
			o = append(o, xs[i])
		}
	}
	if len(o) == 0 {
		o = append(o, xs[g.Intn(len(xs))])
	}
	return o
}

func filterSuites(pred func(*suiteInfo) bool) []uint16 {
	var o []uint16
	for i := range suiteTable {
		if pred(&suiteTable[i]) {
			o = append(o, suiteTable[i].ID)
		}
	}
	return o
}

var srvVerAxis = [][2]uint16{{0, 0}, {0, vTLS10}, {0, vTLS11}, {0, vTLS12}, {vTLS10, 0}, {vTLS11, vTLS12}, {vTLS12, 0}, {vTLS10, vTLS10}, {vTLS11, vTLS11}, {vTLS10, vTLS11}}
var cliVerAxis = [][2]uint16{{vTLS10, vTLS10}, {vTLS10, vTLS11}, {vTLS10, vTLS12}, {vTLS11, vTLS11}, {vTLS11, vTLS12}, {vTLS12, vTLS12}, {vTLS10, vTLS13}, {vTLS12, vTLS13}, {vTLS13, vTLS13}}
var ruleAxis = []string{"", "A+", "A", "B", "C", "C+chacha", "A+chacha"}
var srvCurveAxis = [][]uint16{nil, nil, {23}, {24}, {25}, {25, 24}, {24, 23}}
var cliCurveAxis = [][]uint16{{29, 23}, {29, 23, 24, 25}, {23}, {24}, {29}, {25}, {29, 24}, {23, 24, 25}}

func c41Gen(g *vkit.Rand, cert string, sv, cv [2]uint16, rule string) c41Case {
	c := c41Case{Kind: "nego"}
	s := &c.Srv
	s.Cert = cert
	s.MinV, s.MaxV = sv[0], sv[1]
	s.Rules = c41Rules(g)
	s.NextProtos = alpnLists[g.Intn(srvAlpnN)]
	switch g.Intn(8) {
	case 0, 1:
		s.Suites = nil
	case 2:
		s.Suites = filterSuites(func(si *suiteInfo) bool { return si.RC4 })
	case 3:
		s.Suites = filterSuites(func(si *suiteInfo) bool { return si.TLS12 })
	case 4:
		s.Suites = filterSuites(func(si *suiteInfo) bool { return !si.ECDHE })
	default:
		s.Suites = pickSubset(g, allSuiteIDs(), 1, 2)
	}
	s.PreferServer = g.Bool()
	if s.PreferServer && g.Chance(1, 2) {
		// equivalent-suite groups: non-decreasing priorities
		p := uint16(0)
		for range s.suites() {
			if g.Chance(1, 3) {
				p++
			}
			s.Priority = append(s.Priority, p)
		}
	}
	s.Curves = srvCurveAxis[g.Intn(len(srvCurveAxis))]
	s.PoodleProofed = g.Bool()
	s.TicketsDisabled = g.Chance(1, 4)
	s.TicketKey = 1
	cl := &c.Cli
	cl.MinV, cl.MaxV = cv[0], cv[1]
	switch g.Intn(8) {
	case 0:
		cl.Suites = stdSuiteIDs()
	case 1:
		cl.Suites = filterSuites(func(si *suiteInfo) bool { return si.Std && si.ECDHE })
	case 2:
		cl.Suites = filterSuites(func(si *suiteInfo) bool { return si.Std && si.RC4 })
	case 3:
		cl.Suites = []uint16{stdSuiteIDs()[g.Intn(len(stdSuiteIDs()))]}
	default:
		cl.Suites = pickSubset(g, stdSuiteIDs(), 1, 2)
	}
	cl.Curves = cliCurveAxis[g.Intn(len(cliCurveAxis))]
	cl.ALPN = alpnLists[g.Intn(len(alpnLists))]
	cl.SNI = c41RuleNames[rule]
	cl.Verify = g.Chance(1, 4)
	c.Resume = g.Chance(1, 3)
	return c
}

func c41Key(c *c41Case) string {
	s, cl := &c.Srv, &c.Cli
	var rk []string
	if r, ok := s.rule(cl.SNI); ok {
		rk = append(rk, r.Grade, fmt.Sprint(r.Chacha), strings.Join(r.NextProtos, "/"))
	}
	return fmt.Sprintf("%s|%s|%x-%x|%s|%v|%v|%v|%v|%s|%v||%x-%x|%s|%v|%s|%s|%v||%x|%s|%s", c.Kind, s.Cert, s.MinV, s.MaxV, suiteListKey(s.Suites), s.Suites == nil,
		s.PreferServer, s.Priority, s.Curves, strings.Join(s.NextProtos, "/"), rk,
		cl.MinV, cl.MaxV, suiteListKey(cl.Suites), cl.Curves, strings.Join(cl.ALPN, "/"), cl.SNI, c.Resume,
		c.HelloVers, c.Resum, c.ScsvPos)
}

// c41CheckParams checks the negotiated parameters of one ServerHello /
// completed handshake against the two configurations.
func c41CheckWire(r *vkit.Run, c *c41Case, m *negoModel, f *srvFlight, res *pairResult, phase string) (reported bool) {
	s, cl := &c.Srv, &c.Cli
	wit := func(extra map[string]interface{}) interface{} {
		w := map[string]interface{}{"case": c.witnessCase(), "phase": phase, "server_hello": f,
			"client_err": errStr(res.CliErr), "server_err": errStr(res.SrvErr), "model_usable": sortedKeys(m.Usable), "model_version": m.Vers, "model_why": m.Why}
		for k, v := range extra {
			w[k] = v
		}
		return w
	}
	if !f.GotHello {
		return false
	}
	helloVers := cl.MaxV
	if helloVers > vTLS12 {
		helloVers = vTLS12
	}
	if f.Vers < s.minV() || f.Vers > s.maxV() {
		r.Violation(c.xsig(f, "version:outside-server-range"), fmt.Sprintf("ServerHello version %s outside the server's range [%s,%s]", versName(f.Vers), versName(s.minV()), versName(s.maxV())), wit(nil))
		reported = true
	}
	if f.Vers > helloVers {
		r.Violation(c.xsig(f, "version:above-client"), fmt.Sprintf("ServerHello version %s above client_version %s", versName(f.Vers), versName(helloVers)), wit(nil))
		reported = true
	}
	if !versionAllowedByGrade(s, cl.SNI, f.Vers) {
		r.Violation(c.xsig(f, "version:refused-by-rule-grade"), fmt.Sprintf("ServerHello version %s not allowed by the grade of the rule for %q", versName(f.Vers), cl.SNI), wit(nil))
		reported = true
	}
	want := helloVers
	if want > s.maxV() {
		want = s.maxV()
	}
	if !reported && f.Vers != want {
		r.Violation(c.xsig(f, "version:not-highest-mutual"), fmt.Sprintf("ServerHello version %s, highest mutual version is %s", versName(f.Vers), versName(want)), wit(nil))
		reported = true
	}
	// suite: offered by the client and enabled by the server for this rule at the chosen version
	offered := false
	for _, id := range cl.Suites {
		si := suiteByID(id)
		if id == f.Suite && si != nil && (cl.Raw || (si.Std && !(si.TLS12 && cl.MaxV < vTLS12))) {
			offered = true
		}
	}
	if !offered {
		r.Violation(c.xsig(f, "suite:not-offered-by-client"), fmt.Sprintf("server selected %s which the client did not offer", suiteName(f.Suite)), wit(nil))
		reported = true
	} else if !suiteEnabled(s, cl.SNI, f.Suite, f.Vers, cl.Curves, true) {
		why := "not-enabled"
		si := suiteByID(f.Suite)
		switch {
		case si == nil || !in16(s.suites(), f.Suite):
			why = "not-in-server-list"
		case si.ECDSA != (s.Cert == "ecdsa"):
			why = "wrong-certificate-type"
		case si.TLS12 && f.Vers < vTLS12:
			why = "tls12-suite-below-tls12"
		case si.Chacha && !suiteEnabled(s, cl.SNI, f.Suite, f.Vers, nil, false):
			why = "chacha-without-rule"
		case si.RC4 && !suiteEnabled(s, cl.SNI, f.Suite, f.Vers, nil, false):
			why = "rc4-against-grade"
		case !suiteEnabled(s, cl.SNI, f.Suite, f.Vers, nil, false):
			why = "against-grade"
		default:
			why = "ecdhe-without-common-curve"
		}
		r.Violation(c.xsig(f, "suite:"+why), fmt.Sprintf("server selected %s at %s which its configuration does not enable for %q (%s)", suiteName(f.Suite), versName(f.Vers), cl.SNI, why), wit(nil))
		reported = true
	}
	// ALPN
	if f.HasALPN {
		protos := s.protos(cl.SNI)
		inCli, inSrv := inStr(cl.ALPN, f.ALPN), inStr(protos, f.ALPN)
		if !inCli || !inSrv {
			sig := "alpn:selected"
			if !inCli {
				sig += "-not-offered-by-client"
			} else {
				sig += "-not-in-server-list"
			}
			if f.ALPN == "http/1.1" && inStr(cl.ALPN, "h2") && inStr(protos, "h2") {
				// shape: h2 was mutually selected, then replaced
				sig = "alpn:h2-rewritten-to-http1.1" + strings.TrimPrefix(sig, "alpn:selected")
			}
			r.Violation(c.xsig(f, sig), fmt.Sprintf("ServerHello selects ALPN %q; client offered %v, server list for %q is %v", f.ALPN, cl.ALPN, cl.SNI, protos), wit(nil))
			reported = true
		}
		// "h2" only on a connection HTTP/2 may use (RFC 7540 9.2: TLS 1.2 or higher; 9.2.2 / Appendix A:
		// black-listed suites - bfe withdraws h2 there and selects again among its other protocols)
		if ok, why := h2Eligible(f.Vers, f.Suite); f.ALPN == "h2" && !ok {
			r.Violation(c.xsig(f, "alpn:h2-on-ineligible-connection:"+why), fmt.Sprintf("ServerHello selects ALPN \"h2\" at %s with %s (%s)", versName(f.Vers), suiteName(f.Suite), why), wit(nil))
			reported = true
		}
	}
	return reported
}

func c41CheckConn(r *vkit.Run, c *c41Case, m *negoModel, res *pairResult, phase string, toSrv, toCli []byte) {
	cl := &c.Cli
	f := res.Flight
	wit := func() interface{} {
		return map[string]interface{}{"case": c.witnessCase(), "phase": phase, "server_hello": f,
			"client_err": errStr(res.CliErr), "server_err": errStr(res.SrvErr), "model_ok": m.OK, "model_why": m.Why,
			"model_usable": sortedKeys(m.Usable), "model_version": m.Vers,
			"client_state": map[string]interface{}{"version": res.Cli.Version, "suite": res.Cli.CipherSuite, "alpn": res.Cli.NegotiatedProtocol, "resumed": res.Cli.DidResume},
			"server_state": map[string]interface{}{"version": res.Srv.Version, "suite": res.Srv.CipherSuite, "alpn": res.Srv.NegotiatedProtocol, "resumed": res.Srv.DidResume}}
	}
	if f.ParseErr != "" {
		r.Violation("wire:unparsable-server-flight", f.ParseErr, wit())
		return
	}
	reported := c41CheckWire(r, c, m, f, res, phase)
	if f.GotHello && !m.OK && (m.Why == "client max below server min" || m.Why == "version refused by rule grade" || m.Why == "no common suite") && !reported {
		r.Violation(c.xsig(f, "negotiation:server-hello-without-common-parameters"), "server answered with a ServerHello although the configurations share no parameters: "+m.Why, wit())
		reported = true
	}
	if res.ok() {
		r.Count("handshakes_completed", 1)
		if res.Srv.DidResume {
			r.Count("handshakes_resumed", 1)
		}
		if !m.OK && !reported {
			r.Violation(c.xsig(f, "negotiation:completed-without-common-parameters"), "handshake completed although the model finds no common parameters: "+m.Why, wit())
			return
		}
		if res.Cli.Version != res.Srv.Version || res.Srv.Version != f.Vers {
			r.Violation("agree:version", fmt.Sprintf("client reports %s, server reports %s, ServerHello said %s", versName(res.Cli.Version), versName(res.Srv.Version), versName(f.Vers)), wit())
		}
		if res.Cli.CipherSuite != res.Srv.CipherSuite || res.Srv.CipherSuite != f.Suite {
			r.Violation("agree:suite", fmt.Sprintf("client reports %s, server reports %s, ServerHello said %s", suiteName(res.Cli.CipherSuite), suiteName(res.Srv.CipherSuite), suiteName(f.Suite)), wit())
		}
		if res.Cli.NegotiatedProtocol != res.Srv.NegotiatedProtocol {
			r.Violation("agree:alpn", fmt.Sprintf("client reports ALPN %q, server reports %q", res.Cli.NegotiatedProtocol, res.Srv.NegotiatedProtocol), wit())
		}
		if p := res.Srv.NegotiatedProtocol; p != "" && !(inStr(cl.ALPN, p) && inStr(c.Srv.protos(cl.SNI), p)) && !reported {
			r.Violation("alpn:state-not-mutual", fmt.Sprintf("server ConnectionState reports protocol %q which is not in both lists", p), wit())
		}
		if p := res.Srv.NegotiatedProtocol; p != "" {
			r.Count("alpn_negotiated", 1)
		}
		if res.Cli.DidResume != res.Srv.DidResume {
			r.Violation("agree:resumed", fmt.Sprintf("client DidResume=%v, server DidResume=%v", res.Cli.DidResume, res.Srv.DidResume), wit())
		}
		if res.EchoErr != "" {
			r.Violation("data:not-intact", res.EchoErr, wit())
		} else {
			r.Count("bytes_echoed", int64(len(toSrv)+len(toCli)))
		}
		return
	}
	r.Count("handshakes_failed", 1)
	if m.OK && !reported {
		cause := "other"
		ce := errStr(res.CliErr)
		switch {
		case f.Alert:
			cause = fmt.Sprintf("server-alert-%d", f.AlertDesc)
		case strings.Contains(ce, "ALPN"):
			cause = "client-rejects-alpn"
		case res.CliErr != nil && f.GotHello:
			cause = "client-rejects-server-flight"
		}
		r.Violation("availability:"+cause, fmt.Sprintf("handshake failed although version %s and suites %v are mutually enabled: client: %v; server: %v", versName(m.Vers), sortedKeys(m.Usable), res.CliErr, res.SrvErr), wit())
	}
	if !m.OK {
		r.Count("refused_as_modelled", 1)
	}
}

// c41RawNego: negotiation seen through a hand-written ClientHello (reaches
// SSLv3 and suite lists crypto/tls cannot produce); only the ServerHello is
// observed.
func c41RawNego(r *vkit.Run, c *c41Case) {
	m := negotiate(&c.Srv, &c.Cli)
	cl := &c.Cli
	hello := helloSpec{RecVer: vTLS10, Vers: cl.MaxV, SNI: cl.SNI, Suites: cl.Suites, Curves: cl.Curves, Points: true, SigAlgs: cl.MaxV >= vTLS12, ALPN: cl.ALPN}
	if cl.MaxV == vSSL30 {
		hello.RecVer = vSSL30
	}
	r.WriteAhead(c)
	var rr *rawResult
	if r.Try(func() interface{} { return c }, func() { rr = runRaw(buildServer(&c.Srv, nil), hello.marshalRecord()) }) {
		return
	}
	if abnormal(r, rr.Hung, rr.Panic, c) {
		return
	}
	f := rr.Flight
	res := &pairResult{SrvErr: rr.SrvErr, Flight: f}
	wit := map[string]interface{}{"case": c, "client_hello": hello, "server_flight": f, "server_err": errStr(rr.SrvErr), "model_ok": m.OK, "model_why": m.Why, "model_usable": sortedKeys(m.Usable), "model_version": m.Vers}
	r.CaseS(c41Key(c), f.GotHello)
	if f.ParseErr != "" {
		r.Violation("wire:unparsable-server-flight", f.ParseErr, wit)
		return
	}
	reported := c41CheckWire(r, c, &m, f, res, "raw")
	switch {
	case f.GotHello && !m.OK && !reported:
		r.Violation("negotiation:server-hello-without-common-parameters", "server answered with a ServerHello although the configurations share no parameters: "+m.Why, wit)
	case f.GotHello:
		r.Count("raw_server_hello", 1)
		if f.Vers == vSSL30 {
			r.Count("raw_server_hello_ssl3", 1)
		}
	case m.OK && !reported:
		r.Violation(fmt.Sprintf("availability:raw:server-alert-%d", f.AlertDesc), fmt.Sprintf("server refused a ClientHello although version %s and suites %v are mutually enabled: %v", versName(m.Vers), sortedKeys(m.Usable), rr.SrvErr), wit)
	default:
		r.Count("raw_refused_as_modelled", 1)
	}
}

func c41Nego(r *vkit.Run, c *c41Case, g *vkit.Rand) {
	m := negotiate(&c.Srv, &c.Cli)
	scfg := buildServer(&c.Srv, nil)
	var cache *captureCache
	if c.Resume {
		cache = &captureCache{}
	}
	var ccfg = buildClient(&c.Cli, nil)
	if cache != nil {
		ccfg.ClientSessionCache = cache
	}
	toSrv, toCli := payload(g, 65536), payload(g, 65536)
	r.WriteAhead(c)
	var res *pairResult
	if r.Try(func() interface{} { return c }, func() { res = runPair(scfg, ccfg, toSrv, toCli) }) {
		return
	}
	if abnormal(r, res.Hung, res.Panic, c) {
		return
	}
	c41CheckConn(r, c, &m, res, "first", toSrv, toCli)
	nontrivial := res.ok() && len(m.Usable) >= 1
	if m.OK {
		r.Count("model_must_succeed", 1)
	} else {
		r.Count("model_must_fail", 1)
		r.Count("model_must_fail:"+strings.ReplaceAll(m.Why, " ", "-"), 1)
	}
	if c.Resume && res.ok() {
		var res2 *pairResult
		ccfg2 := buildClient(&c.Cli, nil)
		ccfg2.ClientSessionCache = cache
		toSrv2, toCli2 := payload(g, 4096), payload(g, 4096)
		if r.Try(func() interface{} { return c }, func() { res2 = runPair(scfg, ccfg2, toSrv2, toCli2) }) {
			return
		}
		if abnormal(r, res2.Hung, res2.Panic, c) {
			return
		}
		c41CheckConn(r, c, &m, res2, "second", toSrv2, toCli2)
	}
	r.CaseS(c41Key(c), nontrivial)
	if r.WantSample() && nontrivial && len(m.Usable) >= 2 {
		r.Sample(map[string]interface{}{"case": c, "version": res.Srv.Version, "suite": suiteName(res.Srv.CipherSuite), "alpn": res.Srv.NegotiatedProtocol})
	}
}

// ---------------------------------------------------------------------------
// TLS_FALLBACK_SCSV

// scsvSession establishes a session at exactly version c.HelloVers with a
// standard client against the server specification s (sharing cache) and
// returns the ticket / session id and its suite.
func scsvSession(c *c41Case, s *srvSpec, cache *memCache) (ticket, sid []byte, suite uint16, ok bool) {
	scfg := buildServer(s, cache)
	cl := cliSpec{MinV: c.HelloVers, MaxV: c.HelloVers, Suites: c.Cli.Suites, Curves: []uint16{23, 24}, SNI: c.Cli.SNI}
	cc := &captureCache{}
	res := runPair(scfg, buildClient(&cl, cc), nil, nil)
	if res.Hung || !res.ok() || res.Srv.Version != c.HelloVers {
		return nil, nil, 0, false
	}
	if c.Resum == "sessionid" {
		if len(res.Flight.SessionID) == 0 {
			return nil, nil, 0, false
		}
		return nil, res.Flight.SessionID, res.Srv.CipherSuite, true
	}
	t := cc.ticket()
	if len(t) == 0 {
		return nil, nil, 0, false
	}
	return t, nil, res.Srv.CipherSuite, true
}

func c41Scsv(r *vkit.Run, c *c41Case) {
	s := c.Srv
	key := c41Key(c)
	hello := helloSpec{RecVer: vTLS10, Vers: c.HelloVers, SNI: c.Cli.SNI, Curves: []uint16{23, 24}, Points: true, SigAlgs: c.HelloVers >= vTLS12}
	if c.HelloVers == vSSL30 {
		hello.RecVer = vSSL30
	}
	suites := append([]uint16{}, c.Cli.Suites...)
	var cache *memCache
	resumable := false
	if c.Resum != "" {
		if c.Resum == "sessionid" {
			s.TicketsDisabled, s.UseCache = true, true
			cache = newMemCache()
		}
		ticket, sid, suite, ok := scsvSession(c, &s, cache)
		if !ok {
			// no session can exist at that version under this configuration
			r.Count("scsv_no_session_possible", 1)
			r.CaseS(key, false)
			return
		}
		resumable = true
		suites = append([]uint16{suite}, suites...)
		if c.Resum == "ticket" {
			hello.TicketExt, hello.Ticket = true, ticket
			hello.SessionID = []byte{1, 2, 3, 4, 5, 6, 7, 8, 9, 10, 11, 12, 13, 14, 15, 16}
		} else {
			hello.SessionID = sid
		}
	}
	switch c.ScsvPos {
	case "first":
		suites = append([]uint16{scsvFallback}, suites...)
	case "last":
		suites = append(suites, scsvFallback)
	}
	hello.Suites = suites
	scfg := buildServer(&s, cache)
	r.WriteAhead(c)
	var rr *rawResult
	if r.Try(func() interface{} { return c }, func() { rr = runRaw(scfg, hello.marshalRecord()) }) {
		return
	}
	if abnormal(r, rr.Hung, rr.Panic, c) {
		return
	}
	f := rr.Flight
	wit := map[string]interface{}{"case": c, "client_hello": hello, "server_flight": f, "server_err": errStr(rr.SrvErr), "resumable_session_presented": resumable,
		"server_highest_version": versName(s.maxV())}
	if f.ParseErr != "" {
		r.Violation("wire:unparsable-server-flight", f.ParseErr, wit)
		return
	}
	highest := s.maxV()
	below := c.HelloVers < highest
	r.CaseS(key, c.ScsvPos != "absent" && below)
	if c.ScsvPos == "absent" {
		// control: the same hello without the SCSV tells whether the configurations are otherwise compatible
		if f.GotHello {
			r.Count("scsv_control_accepted", 1)
			if f.Abbreviated() {
				r.Count("scsv_control_resumed", 1)
			}
		} else {
			r.Count("scsv_control_refused", 1)
		}
		return
	}
	if !below {
		if f.GotHello {
			r.Count("scsv_at_highest_accepted", 1)
		} else {
			r.Count("scsv_at_highest_refused_other_reason", 1)
		}
		return
	}
	r.Count("scsv_below_highest", 1)
	if f.GotHello {
		sig := "scsv:not-refused"
		switch {
		case s.MaxV == 0:
			sig = "scsv:default-maxversion-not-refused"
		case f.Abbreviated():
			sig = "scsv:resumption-bypasses-check"
		}
		how := "full handshake"
		if f.Abbreviated() {
			how = "abbreviated (resumed) handshake"
		}
		r.Violation(sig, fmt.Sprintf("ClientHello version %s with TLS_FALLBACK_SCSV, server's highest enabled version is %s (Config.MaxVersion=%#x): server continued with ServerHello %s, %s", versName(c.HelloVers), versName(highest), s.MaxV, versName(f.Vers), how), wit)
		return
	}
	if !f.Refused() {
		r.Violation("scsv:no-fatal-alert", "the server neither continued nor sent a fatal alert", wit)
		return
	}
	r.Count("scsv_refused", 1)
	r.Count(fmt.Sprintf("scsv_refused_alert_%d", f.AlertDesc), 1)
	inRange := c.HelloVers >= s.minV() && versionAllowedByGrade(&s, c.Cli.SNI, c.HelloVers)
	if inRange && f.AlertDesc != alertInappropriateFallback {
		// refused, but not as a fallback: only acceptable if the hello is unacceptable for another reason
		m := false
		for _, id := range c.Cli.Suites {
			if suiteEnabled(&s, c.Cli.SNI, id, c.HelloVers, hello.Curves, true) {
				m = true
			}
		}
		if m {
			r.Violation(fmt.Sprintf("scsv:refused-with-alert-%d-instead-of-86", f.AlertDesc), fmt.Sprintf("fallback refused with alert %d, RFC 7507 requires inappropriate_fallback(86)", f.AlertDesc), wit)
		}
	}
}

func c41ScsvCases() []c41Case {
	var out []c41Case
	vers := [][2]uint16{{0, 0}, {0, vTLS12}, {0, vTLS11}, {vTLS10, 0}, {vTLS10, vTLS11}, {vTLS11, vTLS12}, {0, vTLS10}, {vTLS10, vTLS12}}
	for _, cert := range []string{"rsa", "ecdsa"} {
		for _, sv := range vers {
			for _, rule := range []string{"", "A+", "A", "B", "C"} {
				for _, hv := range []uint16{vSSL30, vTLS10, vTLS11, vTLS12} {
					for _, resum := range []string{"", "ticket", "sessionid"} {
						if resum != "" && hv == vSSL30 {
							continue // the standard client cannot establish an SSLv3 session
						}
						for _, pos := range []string{"first", "last", "absent"} {
							c := c41Case{Kind: "scsv", HelloVers: hv, Resum: resum, ScsvPos: pos}
							c.Srv = srvSpec{Cert: cert, MinV: sv[0], MaxV: sv[1], TicketKey: 2, Rules: map[string]ruleSpec{
								"aplus.test": {Grade: "A+"}, "a.test": {Grade: "A"}, "b.test": {Grade: "B"}, "c.test": {Grade: "C"}}}
							c.Cli.SNI = c41RuleNames[rule]
							if cert == "rsa" {
								c.Cli.Suites = []uint16{0xc013, 0x002f, 0x0005}
							} else {
								c.Cli.Suites = []uint16{0xc009, 0xc007}
							}
							out = append(out, c)
						}
					}
				}
			}
		}
	}
	return out
}

func c41(r *vkit.Run) {
	r.SetRule("rawnego: the same server axes x client_version{ssl3,1.0,1.1,1.2} with hand-written ClientHellos (ServerHello parameters only). nego: full product cert{rsa,ecdsa} x 10 server [min,max] ranges (0 = default) x 9 client ranges (TLS1.0..1.3) x 7 rules (none, A+, A, B, C, C+chacha, A+chacha) with N seeded draws per cell of server suite list/order/PreferServer/priorities/curves/ALPN/tickets and client suite subset/curves/ALPN (12 lists, 5 of them naming a protocol no server list has, before / between / after h2 and http/1.1; also in xrule)/verification/resumption; model computed from the two configurations alone (server ranges with min>max excluded; success required only where the model is exact); 64 KiB each way. xrule: full product 7x7 ordered rule pairs (first connection's rule -> second connection's rule, diagonal = control) x rule selection {SNI->SNI, SNI->default(no SNI), default->SNI, same name with the rule replaced} x {ticket via standard client (completed handshakes, 2 KiB each way), ticket in a hand-written ClientHello, session id in a hand-written ClientHello (ServerHello flight only)} x suite family the first handshake is steered to {chacha20, RC4, other; only families the first rule enables, chacha20 and RC4 drawn twice} with N seeded draws of certificate type, versions, suite lists/order, curves, ALPN; the second connection offers the first one's session and is judged by the same model computed for the second connection's rule, resumed or not. alpn: full product of 13 connection classes (std client: TLS1.0, TLS1.1, TLS1.2 with static-RSA-CBC / 3DES / RC4 / ECDHE-CBC suites [all black-listed for HTTP/2 by RFC 7540 App. A], TLS1.2 with ECDHE-GCM, with ECDHE-chacha20 [eligible]; hand-written hellos: SSLv3, TLS1.0, TLS1.1, TLS1.2 black-listed, TLS1.2 eligible; quick: one seeded concrete certificate/suite of the class per cell, thorough: every suite of the table x 3 draws) x 6 server lists ({h2}, {h2,http/1.1}, {http/1.1,h2}, {h2,spdy/3.1,http/1.1}, {spdy/3.1,h2}, {http/1.1}; placed in the rule matched by the SNI or in the global list, the other list being a decoy; quick: seeded placement, thorough: both) x 16 client lists (protocols unknown to the server in first / middle / last position or absent; h2 the only common protocol, h2 before / after another common protocol, nothing common), 1/3 of the std cases with a second, resumed connection; judged by the common model plus: the protocol in the ServerHello is in the client's list and in the server's list in force for this connection (rule list if a rule matches, else global), h2 only at TLS1.2 on a suite not black-listed (also applied to every other driver's ServerHello); that the server must select when something is common is NOT demanded (outcomes counted). scsv: exhaustive product cert x 8 server ranges x 5 rules x client_version{ssl3,1.0,1.1,1.2} x {no session, valid ticket, valid session id} x SCSV{first,last,absent}. Non-trivial = nego: handshake completed; xrule: session established and second connection attempted; scsv: SCSV present and client_version below the server's highest version. Distinct = canonical string of both configurations")
	getPKI()
	if r.Replay != "" {
		var w struct {
			Case c41Case `json:"case"`
		}
		if err := r.LoadReplay(&w); err != nil {
			r.Inconclusive(err.Error())
			return
		}
		r.SetMinDistinct(0)
		if w.Case.Kind == "scsv" {
			c41Scsv(r, &w.Case)
		} else if w.Case.Kind == "rawnego" {
			c41RawNego(r, &w.Case)
		} else if w.Case.Kind == "alpn" {
			c41Alpn(r, &w.Case, r.Rng("replay"))
		} else if w.Case.Kind == "xrule" && w.Case.X != nil {
			c41XRule(r, &w.Case, r.Rng("replay"))
		} else {
			c41Nego(r, &w.Case, r.Rng("replay"))
		}
		return
	}
	if os.Getenv("VTLS_ONLY") == "alpn" { // developer aid, never set by bin/check
		c41AlpnAll(r)
		return
	}
	// SCSV: exhaustive
	sc := c41ScsvCases()
	vkit.Parallel(len(sc), workers, func(i int) { c41Scsv(r, &sc[i]) })
	r.Count("scsv_cases", int64(len(sc)))
	// negotiation
	type cell struct {
		cert   string
		sv, cv [2]uint16
		rule   string
	}
	var cells []cell
	for _, cert := range []string{"rsa", "ecdsa"} {
		for _, sv := range srvVerAxis {
			for _, cv := range cliVerAxis {
				for _, rule := range ruleAxis {
					cells = append(cells, cell{cert, sv, cv, rule})
				}
			}
		}
	}
	per := r.N(5, 60)
	n := len(cells) * per
	vkit.Parallel(n, workers, func(i int) {
		ce := cells[i/per]
		g := r.Rng("nego", i/per, i%per)
		c := c41Gen(g, ce.cert, ce.sv, ce.cv, ce.rule)
		c41Nego(r, &c, g)
	})
	r.Count("nego_cells", int64(len(cells)))
	// hand-written hellos: client_version ssl3..1.2 x the same server axes
	type rcell struct {
		cert string
		sv   [2]uint16
		rule string
		hv   uint16
	}
	var rcells []rcell
	for _, cert := range []string{"rsa", "ecdsa"} {
		for _, sv := range srvVerAxis {
			for _, rule := range ruleAxis {
				for _, hv := range []uint16{vSSL30, vTLS10, vTLS11, vTLS12} {
					rcells = append(rcells, rcell{cert, sv, rule, hv})
				}
			}
		}
	}
	rper := r.N(3, 40)
	vkit.Parallel(len(rcells)*rper, workers, func(i int) {
		ce := rcells[i/rper]
		g := r.Rng("rawnego", i/rper, i%rper)
		c := c41Gen(g, ce.cert, ce.sv, [2]uint16{0, ce.hv}, ce.rule)
		c.Kind, c.Resume = "rawnego", false
		c.Cli.Raw, c.Cli.Verify = true, false
		if g.Chance(1, 3) {
			c.Cli.Suites = pickSubset(g, allSuiteIDs(), 1, 2) // may include suites crypto/tls does not know
		}
		c41RawNego(r, &c)
	})
	// second connections under another rule than the first
	c41XAll(r)
	// ALPN: unknown protocols in every position, h2 alone / with others, eligible and ineligible connections
	c41AlpnAll(r)
	if r.Counter("raw_server_hello_ssl3") == 0 || r.Counter("raw_refused_as_modelled") == 0 {
		r.Inconclusive("hand-written hellos did not reach an SSLv3 ServerHello and a refusal")
	}
	if r.Counter("handshakes_completed") == 0 || r.Counter("refused_as_modelled") == 0 {
		r.Inconclusive("negotiation workload did not reach both outcomes (completed and refused)")
	}
	if r.Counter("scsv_below_highest") == 0 || r.Counter("scsv_at_highest_accepted") == 0 {
		r.Inconclusive("SCSV workload did not reach both sides of the predicate")
	}
	if r.Counter("alpn_negotiated") == 0 || r.Counter("handshakes_resumed") == 0 {
		r.Inconclusive("no ALPN negotiation or no resumed handshake observed")
	}
}
