package main

import (
	"bytes"
	"crypto/tls"
	"fmt"
	"io"
	"runtime/debug"
	"strings"
	"sync"
	"time"

	"github.com/bfenetworks/bfe/bfe_tls"

	"verifharness/vkit"
)

const caseWatchdog = 60 * time.Second

// panicBox collects a panic raised on one of the goroutines of a case (bfe's
// server side runs on its own goroutine, out of reach of Run.Try).
type panicBox struct {
	mu       sync.Mutex
	val      interface{}
	stack    []byte
	reported bool
}

var (
	allPanicsMu sync.Mutex
	allPanics   []*panicBox
)

// leftoverPanics reports panics of helper connections (session set-up etc.)
// whose caller did not look at them.
func leftoverPanics(r *vkit.Run) {
	allPanicsMu.Lock()
	ps := append([]*panicBox(nil), allPanics...)
	allPanicsMu.Unlock()
	for _, p := range ps {
		p.mu.Lock()
		done := p.reported
		p.mu.Unlock()
		if !done {
			panicCheck(r, p, "helper connection (session set-up)")
		}
	}
}

// guard must be deferred first in every goroutine of a case.
func (p *panicBox) guard(closers ...io.Closer) {
	if e := recover(); e != nil {
		p.mu.Lock()
		first := p.val == nil
		if first {
			p.val, p.stack = e, debug.Stack()
		}
		p.mu.Unlock()
		if first {
			allPanicsMu.Lock()
			allPanics = append(allPanics, p)
			allPanicsMu.Unlock()
		}
		for _, c := range closers {
			c.Close()
		}
	}
}

// panicCheck reports a collected panic: with a bfe frame on the stack it is a
// violation, otherwise a harness defect (inconclusive). It returns true if
// there was one.
func panicCheck(r *vkit.Run, p *panicBox, what interface{}) bool {
	if p == nil {
		return false
	}
	p.mu.Lock()
	defer p.mu.Unlock()
	if p.val == nil {
		return false
	}
	if p.reported {
		return true
	}
	p.reported = true
	st := string(p.stack)
	if len(st) > 4000 {
		st = st[:4000]
	}
	if strings.Contains(st, "github.com/bfenetworks/bfe/") {
		r.Violation(vkit.PanicSig(p.stack), fmt.Sprintf("panic: %v", p.val), map[string]interface{}{"case": what, "panic": fmt.Sprint(p.val), "stack": st})
	} else {
		r.Inconclusive(fmt.Sprintf("harness panic: %v\n%s", p.val, st))
	}
	return true
}

// pairResult is everything observed of one standard-client <-> bfe-server
// connection.
type pairResult struct {
	CliErr, SrvErr error
	Cli            tls.ConnectionState
	Srv            bfe_tls.ConnectionState
	Flight         *srvFlight // clear-text part of the server's first flight, from the wire
	S2C            []byte     // all server->client bytes
	C2S            []byte     // all client->server bytes
	Hung           bool
	Panic          *panicBox
	SrvGot         []byte // application bytes the server read
	CliGot         []byte // application bytes the client read
	EchoErr        string
}

func (p *pairResult) ok() bool { return p.CliErr == nil && p.SrvErr == nil }

func errStr(e error) string {
	if e == nil {
		return ""
	}
	return e.Error()
}

// runPair performs a handshake between Go's crypto/tls client and
// bfe_tls.Server over a buffered in-memory pipe and, if both sides complete
// it, sends toSrv client->server and toCli server->client.
func runPair(scfg *bfe_tls.Config, ccfg *tls.Config, toSrv, toCli []byte) *pairResult {
	res := &pairResult{Panic: &panicBox{}}
	cEnd, sEnd := newBufPipe()
	srv := bfe_tls.Server(sEnd, scfg)
	cli := tls.Client(cEnd, ccfg)
	wd := newWatchdog(caseWatchdog, cEnd, sEnd)
	var wg sync.WaitGroup
	var srvGot, cliGot []byte
	var srvErr, cliErr error
	var srvEcho, cliEcho string
	wg.Add(2)
	go func() {
		defer wg.Done()
		defer sEnd.Close()
		defer res.Panic.guard(sEnd, cEnd)
		if srvErr = srv.Handshake(); srvErr != nil {
			return
		}
		if len(toSrv) > 0 {
			buf := make([]byte, len(toSrv))
			n, err := io.ReadFull(srv, buf)
			srvGot = buf[:n]
			if err != nil {
				srvEcho = "server read: " + err.Error()
				return
			}
		}
		if len(toCli) > 0 {
			if _, err := srv.Write(toCli); err != nil {
				srvEcho = "server write: " + err.Error()
				return
			}
		}
		// wait for the client's close_notify
		var one [1]byte
		if n, err := srv.Read(one[:]); n != 0 || err != io.EOF {
			srvEcho = fmt.Sprintf("server final read: n=%d err=%v", n, err)
		}
		srv.Close()
	}()
	go func() {
		defer wg.Done()
		defer cEnd.Close()
		defer res.Panic.guard(sEnd, cEnd)
		if cliErr = cli.Handshake(); cliErr != nil {
			return
		}
		if len(toSrv) > 0 {
			if _, err := cli.Write(toSrv); err != nil {
				cliEcho = "client write: " + err.Error()
				return
			}
		}
		if len(toCli) > 0 {
			buf := make([]byte, len(toCli))
			n, err := io.ReadFull(cli, buf)
			cliGot = buf[:n]
			if err != nil {
				cliEcho = "client read: " + err.Error()
				return
			}
		}
		cli.Close()
	}()
	wg.Wait()
	res.Hung = wd.stop()
	res.SrvErr, res.CliErr = srvErr, cliErr
	res.SrvGot, res.CliGot = srvGot, cliGot
	res.S2C = sEnd.Sent()
	res.C2S = cEnd.Sent()
	res.Flight = parseServerFlight(res.S2C)
	if srvErr == nil {
		res.Srv = srv.ConnectionState()
	}
	if cliErr == nil {
		res.Cli = cli.ConnectionState()
	}
	if res.ok() {
		switch {
		case srvEcho != "":
			res.EchoErr = srvEcho
		case cliEcho != "":
			res.EchoErr = cliEcho
		case !bytes.Equal(srvGot, toSrv):
			res.EchoErr = "server received different bytes than the client sent"
		case !bytes.Equal(cliGot, toCli):
			res.EchoErr = "client received different bytes than the server sent"
		}
	}
	return res
}

// rawResult is what a hand-written ClientHello observed.
type rawResult struct {
	Flight *srvFlight
	SrvErr error
	Hung   bool
	Panic  *panicBox
}

// runRaw sends one ClientHello record to a bfe server and reads the server's
// first flight. The handshake is never completed: the client end is closed
// after the flight and the server's Handshake() returns with an error.
func runRaw(scfg *bfe_tls.Config, hello []byte) *rawResult {
	cEnd, sEnd := newBufPipe()
	srv := bfe_tls.Server(sEnd, scfg)
	wd := newWatchdog(caseWatchdog, cEnd, sEnd)
	var wg sync.WaitGroup
	var srvErr error
	pb := &panicBox{}
	wg.Add(1)
	go func() {
		defer wg.Done()
		defer sEnd.Close()
		defer pb.guard(sEnd, cEnd)
		srvErr = srv.Handshake()
	}()
	cEnd.Write(hello)
	f := readServerFlight(cEnd)
	cEnd.Close()
	wg.Wait()
	return &rawResult{Flight: f, SrvErr: srvErr, Hung: wd.stop(), Panic: pb}
}

// captureCache is a crypto/tls ClientSessionCache that ignores the key (so a
// session can be presented under another SNI) and lets the harness read and
// replace the stored ticket.
type captureCache struct {
	mu   sync.Mutex
	cur  *tls.ClientSessionState
	puts int
	gets int
}

func (c *captureCache) Get(key string) (*tls.ClientSessionState, bool) {
	c.mu.Lock()
	defer c.mu.Unlock()
	c.gets++
	return c.cur, c.cur != nil
}

func (c *captureCache) Put(key string, cs *tls.ClientSessionState) {
	c.mu.Lock()
	defer c.mu.Unlock()
	c.puts++
	c.cur = cs
}

func (c *captureCache) ticket() []byte {
	c.mu.Lock()
	defer c.mu.Unlock()
	if c.cur == nil {
		return nil
	}
	t, _, err := c.cur.ResumptionState()
	if err != nil {
		return nil
	}
	return t
}

// plant replaces the ticket bytes of the stored session, keeping the client's
// own view of the session (master secret, version, suite).
func (c *captureCache) plant(ticket []byte) error {
	c.mu.Lock()
	defer c.mu.Unlock()
	if c.cur == nil {
		return fmt.Errorf("no session stored")
	}
	_, st, err := c.cur.ResumptionState()
	if err != nil {
		return err
	}
	ns, err := tls.NewResumptionState(ticket, st)
	if err != nil {
		return err
	}
	c.cur = ns
	return nil
}

func (c *captureCache) clone() *captureCache {
	c.mu.Lock()
	defer c.mu.Unlock()
	return &captureCache{cur: c.cur}
}

// abnormal reports a hung or panicked case; the caller skips its oracle then.
func abnormal(r *vkit.Run, hung bool, p *panicBox, what interface{}) bool {
	if panicCheck(r, p, what) {
		return true
	}
	return hangCheck(r, hung, what)
}

func hangCheck(r *vkit.Run, hung bool, what interface{}) bool {
	if hung {
		r.Count("hung_cases", 1)
		r.Inconclusive(fmt.Sprintf("case did not finish within %v (watchdog closed it): %v", caseWatchdog, what))
	}
	return hung
}

// payload returns n pseudo-random bytes: a window at a seeded offset of a
// fixed 1 MiB pool (generating fresh bytes per case is needlessly slow under
// the race detector). Two windows are equal only if their offsets are.
var (
	poolOnce sync.Once
	pool     []byte
)

func payload(g *vkit.Rand, n int) []byte {
	poolOnce.Do(func() { pool = vkit.NewRand(0x5eed).Bytes(1<<20 + 1<<17) })
	off := g.Intn(1 << 20)
	return pool[off : off+n : off+n]
}

// workers: a handshake over the in-memory pipe is a ping-pong between two or
// four goroutines, i.e. latency-bound rather than CPU-bound; more cases in
// flight than cores keeps the cores busy (also when the machine is shared).
const workers = 48
