package main

import "verifharness/vkit"

func c44(r *vkit.Run) {}
