package main

// C42, record-HEADER tampering family: for every protocol version (SSLv3 and
// TLS 1.0-1.2) and every suite the check drives, each of the five header bytes
// of an application-data record is rewritten separately in transit.
//
// The point of a separate family: what protects the header differs by byte and
// by version (TLS MAC / AEAD additional data cover type, version and length;
// the SSLv3 MAC covers type and length only, so the version bytes of an SSLv3
// record are protected by nothing but the record layer's own comparison with
// the negotiated version). The oracle is the statement itself and does not care
// which mechanism fires.

import (
	"bytes"
	"fmt"
	"io"

	"verifharness/vkit"
)

// hdrByteOf names the header byte(s) an op rewrites, given the original record.
func hdrByteOf(kind string, arg int, rec []byte) string {
	switch kind {
	case "hdr-type":
		return "type"
	case "hdr-major":
		return "major"
	case "hdr-minor":
		return "minor"
	case "hdr-len-hi-xor":
		return "len-hi"
	case "hdr-len-lo-xor":
		return "len-lo"
	case "hdr-len-add":
		if len(rec) >= 5 {
			n := int(rec[3])<<8 | int(rec[4])
			if (n+arg)>>8 != n>>8 {
				return "len"
			}
		}
		return "len-lo"
	}
	return "len" // split, merge: both length bytes may change
}

var hdrBytes = []string{"type", "major", "minor", "len-hi", "len-lo"}

// c42HdrOps: the rewrites applied to one record header on a connection of
// version v (pure function of v).
func c42HdrOps(v uint16) []tamperOp {
	var ops []tamperOp
	// content type: the three other valid types, the first unassigned one, and values a
	// parser might special-case (0, the SSLv2 marker 0x80, 0xff)
	for _, t := range []int{20, 21, 22, 24, 0, 0x80, 0xff} {
		ops = append(ops, tamperOp{Kind: "hdr-type", Arg: t})
	}
	for _, m := range []int{2, 4, 0, 0xff} {
		ops = append(ops, tamperOp{Kind: "hdr-major", Arg: m})
	}
	// minor version: every other supported version (includes +-1), TLS 1.3's, 0xff
	for _, m := range []int{0, 1, 2, 3, 4, 0xff} {
		if m != int(v&0xff) {
			ops = append(ops, tamperOp{Kind: "hdr-minor", Arg: m})
		}
	}
	ops = append(ops,
		tamperOp{Kind: "hdr-len-hi-xor", Arg: 0x01},
		tamperOp{Kind: "hdr-len-hi-xor", Arg: 0x40},
		tamperOp{Kind: "hdr-len-lo-xor", Arg: 0x80},
		tamperOp{Kind: "hdr-len-add", Arg: 1},
		tamperOp{Kind: "hdr-len-add", Arg: -1},
		tamperOp{Kind: "hdr-split"},
		tamperOp{Kind: "hdr-merge"},
	)
	return ops
}

// applyHdrOp returns the record list with op applied to record op.Pos.
func applyHdrOp(recs [][]byte, op tamperOp) []byte {
	var out []byte
	for i := 0; i < len(recs); i++ {
		d := recs[i]
		if i != op.Pos || len(d) < 5 {
			out = append(out, d...)
			continue
		}
		o := append([]byte(nil), d...)
		n := int(d[3])<<8 | int(d[4])
		switch op.Kind {
		case "hdr-type":
			o[0] = byte(op.Arg)
		case "hdr-major":
			o[1] = byte(op.Arg)
		case "hdr-minor":
			o[2] = byte(op.Arg)
		case "hdr-len-hi-xor":
			o[3] ^= byte(op.Arg)
		case "hdr-len-lo-xor":
			o[4] ^= byte(op.Arg)
		case "hdr-len-add":
			o = setLen(o, n+op.Arg)
		case "hdr-split":
			a := n / 2
			first := append(setLen(d[:5], a), d[5:5+a]...)
			second := append(setLen(d[:5], n-a), d[5+a:]...)
			o = append(first, second...)
		case "hdr-merge":
			if i+1 < len(recs) && len(recs[i+1]) >= 5 {
				nx := recs[i+1]
				o = append(setLen(d, n+len(nx)-5), nx[5:]...)
				i++
			}
		}
		out = append(out, o...)
	}
	return out
}

func c42HdrCheck(r *vkit.Run, c *c42Case, g *vkit.Rand) {
	cb := c42Combo{c.Client, c.Cert, c.Vers, c.Suite}
	parts, all := c42Plain(g, c.Chunks)
	op := c.Ops[0]
	r.WriteAhead(c)
	var run *c42Run
	if r.Try(func() interface{} { return c }, func() {
		run = c42Exchange(cb, parts, nil, func(recs [][]byte) []byte { return applyHdrOp(recs, op) })
	}) {
		return
	}
	if abnormal(r, run.Hung, run.Panic, c) {
		return
	}
	key := fmt.Sprintf("hdr|%v|%v|%v", cb, c.Chunks, c.Ops)
	ver := versName(c.Vers)
	if !run.HandshakeOK {
		r.Count("handshake_not_completed", 1)
		r.Count("hdr_handshake_not_completed:"+ver, 1)
		r.CaseS(key, false)
		return
	}
	if op.Pos < 0 || op.Pos >= len(run.Records) || len(run.Records[op.Pos]) < 6 || run.Records[op.Pos][0] != recAppData {
		r.Count("hdr_target_not_application_data", 1)
		r.CaseS(key, false)
		return
	}
	target := run.Records[op.Pos]
	if got := uint16(target[1])<<8 | uint16(target[2]); got != c.Vers {
		// the connection is not of the version this case is about: nothing is learnt
		r.Count("hdr_connection_of_other_version:"+ver, 1)
		r.CaseS(key, false)
		return
	}
	if bytes.Equal(bytes.Join(run.Records, nil), run.Delivered) {
		r.Count("ops_without_effect", 1)
		r.CaseS(key, false)
		return
	}
	hb := hdrByteOf(op.Kind, op.Arg, target)
	r.CaseS(key, true)
	r.Count("hdr_tampered_streams", 1)
	r.Count("hdr:"+ver+":"+hb, 1)
	r.Count("hdr_class:"+ver+":"+cipherClass(c.Suite), 1)
	wit := map[string]interface{}{"case": c, "combo": cb.String(), "cipher_class": cipherClass(c.Suite), "records": len(run.Records),
		"header_byte": hb, "original_header": fmt.Sprintf("% x", target[:5]), "delivered_header": fmt.Sprintf("% x", applyHdrOp([][]byte{target}, tamperOp{Kind: op.Kind, Arg: op.Arg})[:5]),
		"server_got_bytes": len(run.Got), "client_sent_bytes": len(all), "server_read_error": errStr(run.ReadErr)}
	sig := "tamper:header:" + hb + ":" + ver + ":"
	if run.PostErrOK > 0 {
		r.Violation(sig+"read-after-error-returns-data", fmt.Sprintf("after Read failed with %v, %d of 3 further Reads returned data or a nil error (%d bytes)", run.ReadErr, run.PostErrOK, run.PostErrBytes), wit)
	}
	if !(len(run.Got) <= len(all) && bytes.Equal(all[:len(run.Got)], run.Got)) {
		r.Violation(sig+"server-got-non-prefix", fmt.Sprintf("%s rewritten in the header of application-data record %d: the server application received %d bytes that are not a prefix of the %d bytes the client sent", hb, op.Pos, len(run.Got), len(all)), wit)
		return
	}
	if run.ReadErr == nil || run.ReadErr == io.EOF {
		r.Violation(sig+"delivered-without-error", fmt.Sprintf("%s (%s -> arg %d) rewritten in the header of application-data record %d of a %s connection: the server application read %d of %d bytes and its Read loop ended with %v: the modification in transit was not reported", hb, op.Kind, op.Arg, op.Pos, ver, len(run.Got), len(all), run.ReadErr), wit)
		return
	}
	r.Count("hdr_detected:"+ver+":"+hb, 1)
	r.Count("detected_as_error", 1)
	if r.WantSample() && len(run.Got) > 0 {
		r.Sample(map[string]interface{}{"case": c, "header_byte": hb, "version": ver, "server_got_bytes": len(run.Got), "error": run.ReadErr.Error()})
	}
}

// c42HdrCases: every available combination x header op x position (first,
// middle, last application-data record).
func c42HdrCases(combos []c42Combo, avail []bool, donors *c42Donors) (cases []c42Case, comboIdx []int) {
	for i, cb := range combos {
		if !avail[i] {
			continue
		}
		recs := donors.m[cb]
		var app []int
		for k, rc := range recs {
			if len(rc) > 5 && rc[0] == recAppData {
				app = append(app, k)
			}
		}
		if len(app) == 0 {
			continue
		}
		poss := []int{app[0]}
		if m := app[len(app)/2]; m != poss[0] {
			poss = append(poss, m)
		}
		if l := app[len(app)-1]; l != poss[len(poss)-1] {
			poss = append(poss, l)
		}
		for _, op := range c42HdrOps(cb.Vers) {
			for _, p := range poss {
				o := op
				o.Pos = p
				cases = append(cases, c42Case{Client: cb.Client, Cert: cb.Cert, Vers: cb.Vers, Suite: cb.Suite, Chunks: c42ChunkSets[i%len(c42ChunkSets)], Ops: []tamperOp{o}, Hdr: true})
				comboIdx = append(comboIdx, i)
			}
		}
	}
	return
}

func c42HdrFamily(r *vkit.Run, combos []c42Combo, avail []bool, donors *c42Donors) {
	cases, idx := c42HdrCases(combos, avail, donors)
	vkit.Parallel(len(cases), workers, func(i int) {
		c42HdrCheck(r, &cases[i], r.Rng("donor", idx[i])) // same plaintext as the donor run
	})
	for _, v := range []uint16{vSSL30, vTLS10, vTLS11, vTLS12} {
		for _, hb := range hdrBytes {
			if r.Counter("hdr:"+versName(v)+":"+hb) == 0 {
				r.Inconclusive(fmt.Sprintf("header byte %q was never tampered with on an established %s connection", hb, versName(v)))
			}
		}
	}
}
