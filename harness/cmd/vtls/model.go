package main

import (
	"crypto/tls"
	"crypto/x509"
	"fmt"
	"sort"
	"strings"
	"sync"

	"github.com/bfenetworks/bfe/bfe_tls"
)

// ---------------------------------------------------------------------------
// Suite table written from the IANA registry / RFCs (independent of bfe's own
// table): what each suite needs in order to be usable.

type suiteInfo struct {
	ID     uint16
	Name   string
	ECDHE  bool // needs a common curve
	ECDSA  bool // needs an ECDSA certificate (else RSA)
	TLS12  bool // AEAD/SHA-256 suites: TLS 1.2 only
	RC4    bool
	Chacha bool
	Std    bool // implemented by Go's crypto/tls client
}

var suiteTable = []suiteInfo{
	{0x0005, "RSA-RC4-SHA", false, false, false, true, false, true},
	{0x000a, "RSA-3DES-SHA", false, false, false, false, false, true},
	{0x002f, "RSA-AES128-SHA", false, false, false, false, false, true},
	{0x0035, "RSA-AES256-SHA", false, false, false, false, false, true},
	{0xc007, "ECDHE-ECDSA-RC4-SHA", true, true, false, true, false, true},
	{0xc009, "ECDHE-ECDSA-AES128-SHA", true, true, false, false, false, true},
	{0xc00a, "ECDHE-ECDSA-AES256-SHA", true, true, false, false, false, true},
	{0xc011, "ECDHE-RSA-RC4-SHA", true, false, false, true, false, true},
	{0xc012, "ECDHE-RSA-3DES-SHA", true, false, false, false, false, true},
	{0xc013, "ECDHE-RSA-AES128-SHA", true, false, false, false, false, true},
	{0xc014, "ECDHE-RSA-AES256-SHA", true, false, false, false, false, true},
	{0xc02f, "ECDHE-RSA-AES128-GCM", true, false, true, false, false, true},
	{0xc02b, "ECDHE-ECDSA-AES128-GCM", true, true, true, false, false, true},
	{0xcca8, "ECDHE-RSA-CHACHA20", true, false, true, false, true, true},
	{0xcca9, "ECDHE-ECDSA-CHACHA20", true, true, true, false, true, true},
	{0xe019, "RSA-SM4-SM3", false, false, false, false, false, false},
}

func suiteByID(id uint16) *suiteInfo {
	for i := range suiteTable {
		if suiteTable[i].ID == id {
			return &suiteTable[i]
		}
	}
	return nil
}

func suiteName(id uint16) string {
	if s := suiteByID(id); s != nil {
		return s.Name
	}
	return fmt.Sprintf("0x%04x", id)
}

func allSuiteIDs() []uint16 {
	var o []uint16
	for _, s := range suiteTable {
		o = append(o, s.ID)
	}
	return o
}

const (
	vSSL30 = 0x0300
	vTLS10 = 0x0301
	vTLS11 = 0x0302
	vTLS12 = 0x0303
	vTLS13 = 0x0304
)

func versName(v uint16) string {
	switch v {
	case 0:
		return "dflt"
	case vSSL30:
		return "ssl3"
	case vTLS10:
		return "1.0"
	case vTLS11:
		return "1.1"
	case vTLS12:
		return "1.2"
	case vTLS13:
		return "1.3"
	}
	return fmt.Sprintf("%04x", v)
}

// ---------------------------------------------------------------------------
// Specifications (JSON-serialisable, so that a witness replays exactly).

type ruleSpec struct {
	Grade      string   `json:"grade"`
	Chacha     bool     `json:"chacha,omitempty"`
	ClientAuth bool     `json:"client_auth,omitempty"`
	CA         string   `json:"ca,omitempty"` // "A" | "B"
	NextProtos []string `json:"next_protos,omitempty"`
}

type srvSpec struct {
	Cert            string              `json:"cert"` // "rsa" | "ecdsa"
	MinV            uint16              `json:"min_v"`
	MaxV            uint16              `json:"max_v"`
	Suites          []uint16            `json:"suites"` // nil = package default
	PreferServer    bool                `json:"prefer_server,omitempty"`
	Priority        []uint16            `json:"priority,omitempty"`
	Curves          []uint16            `json:"curves,omitempty"`
	NextProtos      []string            `json:"next_protos,omitempty"`
	Rules           map[string]ruleSpec `json:"rules,omitempty"` // by SNI
	TicketsDisabled bool                `json:"tickets_disabled,omitempty"`
	UseCache        bool                `json:"use_cache,omitempty"` // install a ServerSessionCache
	CacheDisabled   bool                `json:"cache_disabled,omitempty"`
	TicketKey       byte                `json:"ticket_key"` // 0 = random per config; else a fixed key derived from the id
	PoodleProofed   bool                `json:"poodle_proofed,omitempty"`
	ClientAuth      int                 `json:"client_auth,omitempty"` // bfe_tls.ClientAuthType for the global config
	GlobalCA        string              `json:"global_ca,omitempty"`
}

type cliSpec struct {
	MinV   uint16   `json:"min_v"`
	MaxV   uint16   `json:"max_v"`
	Suites []uint16 `json:"suites"`
	Curves []uint16 `json:"curves"`
	ALPN   []string `json:"alpn,omitempty"`
	SNI    string   `json:"sni,omitempty"`
	Cert   string   `json:"cert,omitempty"` // client certificate: "", "A", "B"
	Verify bool     `json:"verify,omitempty"`
	// Raw: the ClientHello is written by the harness (client_version = MaxV,
	// suites exactly as listed, no lower bound), not by crypto/tls.
	Raw bool `json:"raw,omitempty"`
}

func (s *srvSpec) minV() uint16 {
	if s.MinV == 0 {
		return vSSL30
	}
	return s.MinV
}

func (s *srvSpec) maxV() uint16 {
	if s.MaxV == 0 {
		return vTLS12
	}
	return s.MaxV
}

func (s *srvSpec) suites() []uint16 {
	if s.Suites == nil {
		return allSuiteIDs()
	}
	return s.Suites
}

func (s *srvSpec) curves() []uint16 {
	if len(s.Curves) == 0 {
		return []uint16{23, 24, 25}
	}
	return s.Curves
}

func (s *srvSpec) rule(sni string) (ruleSpec, bool) {
	r, ok := s.Rules[sni]
	return r, ok
}

// protos returns the ALPN list in force for a connection with this SNI.
func (s *srvSpec) protos(sni string) []string {
	if r, ok := s.rule(sni); ok {
		return r.NextProtos
	}
	return s.NextProtos
}

// ---------------------------------------------------------------------------
// The reference negotiation model, computed from the two configurations alone.

type negoModel struct {
	OK      bool            // a mutually supported (version, suite) exists
	Why     string          // reason when !OK
	Vers    uint16          // the version TLS negotiation must arrive at
	Usable  map[uint16]bool // suites offered by the client and enabled by the server for this rule at Vers
	RuleReq bool            // rule demands a verified client certificate
}

func in16(xs []uint16, v uint16) bool {
	for _, x := range xs {
		if x == v {
			return true
		}
	}
	return false
}

func inStr(xs []string, v string) bool {
	for _, x := range xs {
		if x == v {
			return true
		}
	}
	return false
}

// suiteEnabled says whether the server configuration enables suite id for a
// connection under this rule at version v with the client's curves
// (nil curves = do not test the curve requirement).
func suiteEnabled(s *srvSpec, sni string, id uint16, v uint16, cliCurves []uint16, checkCurves bool) bool {
	si := suiteByID(id)
	if si == nil || !in16(s.suites(), id) {
		return false
	}
	if si.ECDSA != (s.Cert == "ecdsa") {
		return false
	}
	if si.TLS12 && v < vTLS12 {
		return false
	}
	rule, hasRule := s.rule(sni)
	grade := "C"
	if hasRule {
		grade = rule.Grade
	}
	if si.Chacha && !(hasRule && rule.Chacha) {
		return false
	}
	// RC4 policy of the grades (bfe_tls/common.go doc comment): A+ and A never
	// RC4; B only RC4 on SSLv3 and never RC4 above; C allows RC4 (and only RC4
	// on SSLv3 when Ssl3PoodleProofed).
	switch grade {
	case "A+", "A":
		if si.RC4 {
			return false
		}
	case "B":
		if v >= vTLS10 && si.RC4 {
			return false
		}
		if v < vTLS10 && !si.RC4 {
			return false
		}
	case "C":
		if v == vSSL30 && s.PoodleProofed && !si.RC4 {
			return false
		}
	}
	if si.ECDHE && checkCurves {
		common := false
		for _, c := range s.curves() {
			if in16(cliCurves, c) {
				common = true
			}
		}
		if !common {
			return false
		}
	}
	return true
}

// versionAllowedByGrade: A needs >= TLS1.0, A+ needs TLS1.2.
func versionAllowedByGrade(s *srvSpec, sni string, v uint16) bool {
	rule, ok := s.rule(sni)
	if !ok {
		return true
	}
	switch rule.Grade {
	case "A":
		return v >= vTLS10
	case "A+":
		return v >= vTLS12
	}
	return true
}

// negotiate is the model for the standard client (Go crypto/tls), which always
// sends supported_groups, ec_point_formats and signature_algorithms.
func negotiate(s *srvSpec, c *cliSpec) negoModel {
	m := negoModel{Usable: map[uint16]bool{}}
	if r, ok := s.rule(c.SNI); ok && r.ClientAuth {
		m.RuleReq = true
	}
	helloVers := c.MaxV
	if helloVers > vTLS12 {
		helloVers = vTLS12
	}
	if c.MinV > vTLS12 {
		m.Why = "client accepts TLS1.3 only"
		return m
	}
	if helloVers < s.minV() {
		m.Why = "client max below server min"
		return m
	}
	v := helloVers
	if v > s.maxV() {
		v = s.maxV()
	}
	if v < c.MinV && !c.Raw {
		m.Why = "server max below client min"
		return m
	}
	if !versionAllowedByGrade(s, c.SNI, v) {
		m.Why = "version refused by rule grade"
		return m
	}
	m.Vers = v
	for _, id := range c.Suites {
		si := suiteByID(id)
		if si == nil || (!si.Std && !c.Raw) {
			continue
		}
		if si.TLS12 && c.MaxV < vTLS12 && !c.Raw {
			continue // std client does not offer it
		}
		if suiteEnabled(s, c.SNI, id, v, c.Curves, true) {
			m.Usable[id] = true
		}
	}
	if len(m.Usable) == 0 {
		m.Why = "no common suite"
		return m
	}
	m.OK = true
	return m
}

// ---------------------------------------------------------------------------
// Building the real configurations from the specifications.

type staticProtos []string

func (p staticProtos) Get(c *bfe_tls.Conn) []string { return []string(p) }

type sniRules struct {
	rules map[string]*bfe_tls.Rule
}

func (s *sniRules) Get(c *bfe_tls.Conn) *bfe_tls.Rule {
	return s.rules[c.GetServerName()]
}

// memCache is a ServerSessionCache.
type memCache struct {
	mu   sync.Mutex
	m    map[string][]byte
	puts int
	hits int
}

func newMemCache() *memCache { return &memCache{m: map[string][]byte{}} }

func (m *memCache) Get(k string) ([]byte, bool) {
	m.mu.Lock()
	defer m.mu.Unlock()
	v, ok := m.m[k]
	if ok {
		m.hits++
		return append([]byte(nil), v...), true
	}
	return nil, false
}

func (m *memCache) Put(k string, v []byte) error {
	m.mu.Lock()
	defer m.mu.Unlock()
	m.m[k] = append([]byte(nil), v...)
	m.puts++
	return nil
}

func (m *memCache) flush() {
	m.mu.Lock()
	m.m = map[string][]byte{}
	m.mu.Unlock()
}

func curveIDs(xs []uint16) []bfe_tls.CurveID {
	var o []bfe_tls.CurveID
	for _, x := range xs {
		o = append(o, bfe_tls.CurveID(x))
	}
	return o
}

func ticketKeyFor(id byte) (k [32]byte) {
	for i := range k {
		k[i] = byte(i)*7 + id*31 + 1
	}
	return
}

// buildServer makes a fresh bfe_tls.Config (a Config must not be modified
// after first use, so every server-side change in a history is a new Config).
func buildServer(s *srvSpec, cache *memCache) *bfe_tls.Config {
	p := getPKI()
	cfg := &bfe_tls.Config{
		MinVersion:               s.MinV,
		MaxVersion:               s.MaxV,
		PreferServerCipherSuites: s.PreferServer,
		CipherSuitesPriority:     s.Priority,
		CurvePreferences:         curveIDs(s.Curves),
		NextProtos:               s.NextProtos,
		SessionTicketsDisabled:   s.TicketsDisabled,
		SessionCacheDisabled:     s.CacheDisabled,
		Ssl3PoodleProofed:        s.PoodleProofed,
		ClientAuth:               bfe_tls.ClientAuthType(s.ClientAuth),
	}
	if s.Suites != nil {
		cfg.CipherSuites = append([]uint16{}, s.Suites...)
	}
	if s.Cert == "ecdsa" {
		cfg.Certificates = []bfe_tls.Certificate{p.srvECDSA}
	} else {
		cfg.Certificates = []bfe_tls.Certificate{p.srvRSA}
	}
	if s.GlobalCA != "" {
		cfg.ClientCAs = p.caPool[s.GlobalCA]
	}
	if s.TicketKey != 0 {
		cfg.SessionTicketKey = ticketKeyFor(s.TicketKey)
	}
	if s.UseCache && cache != nil {
		cfg.ServerSessionCache = cache
	}
	if len(s.Rules) > 0 {
		sr := &sniRules{rules: map[string]*bfe_tls.Rule{}}
		for name, r := range s.Rules {
			br := &bfe_tls.Rule{
				NextProtos: staticProtos(r.NextProtos),
				Grade:      r.Grade,
				ClientAuth: r.ClientAuth,
				Chacha20:   r.Chacha,
			}
			if r.ClientAuth {
				br.ClientCAs = p.caPool[r.CA]
				br.ClientCAName = "ca-" + r.CA
			}
			sr.rules[name] = br
		}
		cfg.ServerRule = sr
	}
	return cfg
}

func stdCurves(xs []uint16) []tls.CurveID {
	var o []tls.CurveID
	for _, x := range xs {
		o = append(o, tls.CurveID(x))
	}
	return o
}

func buildClient(c *cliSpec, cache tls.ClientSessionCache) *tls.Config {
	p := getPKI()
	cfg := &tls.Config{
		MinVersion:         c.MinV,
		MaxVersion:         c.MaxV,
		CipherSuites:       append([]uint16{}, c.Suites...),
		CurvePreferences:   stdCurves(c.Curves),
		NextProtos:         c.ALPN,
		ServerName:         c.SNI,
		ClientSessionCache: cache,
	}
	if c.Verify && c.SNI != "" {
		cfg.RootCAs = p.rootsForClient
	} else {
		cfg.InsecureSkipVerify = true
	}
	if c.Cert != "" {
		cfg.Certificates = []tls.Certificate{p.cliCert[c.Cert]}
	}
	return cfg
}

func caVerifies(ca string, certs []*x509.Certificate) bool {
	if len(certs) == 0 {
		return false
	}
	_, err := certs[0].Verify(x509.VerifyOptions{Roots: getPKI().caPool[ca], KeyUsages: []x509.ExtKeyUsage{x509.ExtKeyUsageClientAuth}})
	return err == nil
}

func suiteListKey(xs []uint16) string {
	var p []string
	for _, x := range xs {
		p = append(p, fmt.Sprintf("%04x", x))
	}
	return strings.Join(p, ",")
}

func sortedKeys(m map[uint16]bool) []uint16 {
	var o []uint16
	for k := range m {
		o = append(o, k)
	}
	sort.Slice(o, func(i, j int) bool { return o[i] < o[j] })
	return o
}
