package main

// A minimal SSLv3 client (RFC 6101) written from the specification, used by
// C42 as the traffic generator for the protocol version that neither Go's
// crypto/tls nor bfe_tls's own client side can speak. RSA key exchange only;
// record protection RC4-128/SHA, 3DES-EDE-CBC/SHA, AES-128/256-CBC/SHA with
// the SSLv3 MAC (which, unlike the TLS MAC, does not cover the two version
// bytes of the record header). The server's Finished is decrypted and its MAC
// and verify data are checked, so a handshake that "completes" here really
// negotiated SSLv3 with the keys this client derived.

import (
	"bytes"
	"crypto/aes"
	"crypto/cipher"
	"crypto/des"
	"crypto/md5"
	"crypto/rand"
	"crypto/rc4"
	"crypto/rsa"
	"crypto/sha1"
	"crypto/x509"
	"errors"
	"fmt"
	"io"
)

type ssl3Suite struct {
	id             uint16
	keyLen, ivLen  int
	stream         bool
	newBlockCipher func(key []byte) (cipher.Block, error)
}

var ssl3Suites = []ssl3Suite{
	{0x0005, 16, 0, true, nil},
	{0x000a, 24, 8, false, des.NewTripleDESCipher},
	{0x002f, 16, 16, false, aes.NewCipher},
	{0x0035, 32, 16, false, aes.NewCipher},
}

func ssl3SuiteByID(id uint16) *ssl3Suite {
	for i := range ssl3Suites {
		if ssl3Suites[i].id == id {
			return &ssl3Suites[i]
		}
	}
	return nil
}

// ssl3Half is one direction of the record protection.
type ssl3Half struct {
	on     bool
	macKey []byte
	seq    uint64
	rc     *rc4.Cipher
	blk    cipher.Block
	iv     []byte // CBC residue: last ciphertext block of the previous record
}

func ssl3MAC(key []byte, seq uint64, typ byte, data []byte) []byte {
	var pad1, pad2 [40]byte
	for i := range pad1 {
		pad1[i], pad2[i] = 0x36, 0x5c
	}
	h := sha1.New()
	h.Write(key)
	h.Write(pad1[:])
	var s [8]byte
	for i := 0; i < 8; i++ {
		s[i] = byte(seq >> uint(56-8*i))
	}
	h.Write(s[:])
	h.Write([]byte{typ, byte(len(data) >> 8), byte(len(data))})
	h.Write(data)
	inner := h.Sum(nil)
	h.Reset()
	h.Write(key)
	h.Write(pad2[:])
	h.Write(inner)
	return h.Sum(nil)
}

func (h *ssl3Half) seal(typ byte, data []byte) []byte {
	body := append([]byte(nil), data...)
	if h.on {
		body = append(body, ssl3MAC(h.macKey, h.seq, typ, data)...)
		h.seq++
		if h.rc != nil {
			h.rc.XORKeyStream(body, body)
		} else {
			bs := h.blk.BlockSize()
			padLen := bs - (len(body)+1)%bs
			if padLen == bs {
				padLen = 0
			}
			for i := 0; i < padLen; i++ {
				body = append(body, byte(0xa0+i)) // SSLv3: padding content is arbitrary
			}
			body = append(body, byte(padLen))
			cipher.NewCBCEncrypter(h.blk, h.iv).CryptBlocks(body, body)
			h.iv = append([]byte(nil), body[len(body)-bs:]...)
		}
	}
	rec := []byte{typ, 3, 0, byte(len(body) >> 8), byte(len(body))}
	return append(rec, body...)
}

func (h *ssl3Half) open(typ byte, body []byte) ([]byte, error) {
	if !h.on {
		return body, nil
	}
	body = append([]byte(nil), body...)
	if h.rc != nil {
		h.rc.XORKeyStream(body, body)
	} else {
		bs := h.blk.BlockSize()
		if len(body) == 0 || len(body)%bs != 0 {
			return nil, errors.New("ssl3: bad CBC record length")
		}
		next := append([]byte(nil), body[len(body)-bs:]...)
		cipher.NewCBCDecrypter(h.blk, h.iv).CryptBlocks(body, body)
		h.iv = next
		pl := int(body[len(body)-1]) + 1
		if pl > len(body) {
			return nil, errors.New("ssl3: bad padding")
		}
		body = body[:len(body)-pl]
	}
	if len(body) < sha1.Size {
		return nil, errors.New("ssl3: record shorter than its MAC")
	}
	data, mac := body[:len(body)-sha1.Size], body[len(body)-sha1.Size:]
	want := ssl3MAC(h.macKey, h.seq, typ, data)
	h.seq++
	if !bytes.Equal(mac, want) {
		return nil, errors.New("ssl3: bad record MAC from server")
	}
	return data, nil
}

// ssl3Expand is the SSLv3 key derivation: MD5(secret + SHA1('A'+secret+r1+r2)) + MD5(secret + SHA1('BB'+...)) ...
func ssl3Expand(secret, r1, r2 []byte, n int) []byte {
	var out []byte
	for i := 0; len(out) < n; i++ {
		label := bytes.Repeat([]byte{byte('A' + i)}, i+1)
		s := sha1.New()
		s.Write(label)
		s.Write(secret)
		s.Write(r1)
		s.Write(r2)
		m := md5.New()
		m.Write(secret)
		m.Write(s.Sum(nil))
		out = m.Sum(out)
	}
	return out[:n]
}

func ssl3Finished(transcript, master []byte, sender string) []byte {
	out := make([]byte, 0, 36)
	m := md5.New()
	m.Write(transcript)
	m.Write([]byte(sender))
	m.Write(master)
	m.Write(bytes.Repeat([]byte{0x36}, 48))
	inner := m.Sum(nil)
	m.Reset()
	m.Write(master)
	m.Write(bytes.Repeat([]byte{0x5c}, 48))
	m.Write(inner)
	out = m.Sum(out)
	s := sha1.New()
	s.Write(transcript)
	s.Write([]byte(sender))
	s.Write(master)
	s.Write(bytes.Repeat([]byte{0x36}, 40))
	inner = s.Sum(nil)
	s.Reset()
	s.Write(master)
	s.Write(bytes.Repeat([]byte{0x5c}, 40))
	s.Write(inner)
	return s.Sum(out)
}

type ssl3Client struct {
	conn       io.ReadWriter
	suite      *ssl3Suite
	in, out    ssl3Half
	transcript []byte
	hsBuf      []byte
	Version    uint16 // version in the ServerHello
	done       bool
}

func newSSL3Client(conn io.ReadWriter, suite uint16) *ssl3Client {
	return &ssl3Client{conn: conn, suite: ssl3SuiteByID(suite)}
}

func hsMsg(typ byte, body []byte) []byte {
	return append([]byte{typ, byte(len(body) >> 16), byte(len(body) >> 8), byte(len(body))}, body...)
}

// nextHandshake returns the next handshake message (type, body), reading
// records as needed.
func (c *ssl3Client) nextHandshake() (byte, []byte, error) {
	for {
		if len(c.hsBuf) >= 4 {
			n := int(c.hsBuf[1])<<16 | int(c.hsBuf[2])<<8 | int(c.hsBuf[3])
			if len(c.hsBuf) >= 4+n {
				msg := c.hsBuf[:4+n]
				c.hsBuf = c.hsBuf[4+n:]
				return msg[0], msg, nil
			}
		}
		rc, err := readRawRecord(c.conn)
		if err != nil {
			return 0, nil, err
		}
		body, err := c.in.open(rc.Typ, rc.Body)
		if err != nil {
			return 0, nil, err
		}
		switch rc.Typ {
		case recHandshake:
			c.hsBuf = append(c.hsBuf, body...)
		case recAlert:
			return 0, nil, fmt.Errorf("ssl3: server sent alert %v", body)
		default:
			return 0, nil, fmt.Errorf("ssl3: unexpected record type %d during the handshake", rc.Typ)
		}
	}
}

func (c *ssl3Client) Handshake() error {
	if c.done {
		return nil
	}
	if c.suite == nil {
		return errors.New("ssl3: suite not implemented by the harness client")
	}
	cr := make([]byte, 32)
	rand.Read(cr)
	hello := []byte{3, 0}
	hello = append(hello, cr...)
	hello = append(hello, 0)                                       // empty session id
	hello = append(hello, 0, 2, byte(c.suite.id>>8), byte(c.suite.id)) // one suite
	hello = append(hello, 1, 0)                                    // null compression
	ch := hsMsg(1, hello)
	c.transcript = append(c.transcript, ch...)
	if _, err := c.conn.Write(c.out.seal(recHandshake, ch)); err != nil {
		return err
	}
	var sr []byte
	var pub *rsa.PublicKey
	for {
		typ, msg, err := c.nextHandshake()
		if err != nil {
			return err
		}
		c.transcript = append(c.transcript, msg...)
		body := msg[4:]
		if typ == 2 { // ServerHello
			if len(body) < 35 {
				return errors.New("ssl3: short ServerHello")
			}
			c.Version = uint16(body[0])<<8 | uint16(body[1])
			if c.Version != vSSL30 {
				return fmt.Errorf("ssl3: server selected version %04x", c.Version)
			}
			sr = append([]byte(nil), body[2:34]...)
			sid := int(body[34])
			if len(body) < 35+sid+3 {
				return errors.New("ssl3: short ServerHello")
			}
			if got := uint16(body[35+sid])<<8 | uint16(body[36+sid]); got != c.suite.id {
				return fmt.Errorf("ssl3: server selected suite %04x", got)
			}
		} else if typ == 11 { // Certificate
			if len(body) < 6 {
				return errors.New("ssl3: short Certificate")
			}
			n := int(body[3])<<16 | int(body[4])<<8 | int(body[5])
			if len(body) < 6+n {
				return errors.New("ssl3: short Certificate")
			}
			cert, err := x509.ParseCertificate(body[6 : 6+n])
			if err != nil {
				return err
			}
			var ok bool
			if pub, ok = cert.PublicKey.(*rsa.PublicKey); !ok {
				return errors.New("ssl3: server certificate is not RSA")
			}
		} else if typ == 14 { // ServerHelloDone
			break
		} else {
			return fmt.Errorf("ssl3: unexpected handshake message %d", typ)
		}
	}
	if sr == nil || pub == nil {
		return errors.New("ssl3: ServerHello or Certificate missing")
	}
	pre := make([]byte, 48)
	rand.Read(pre)
	pre[0], pre[1] = 3, 0
	enc, err := rsa.EncryptPKCS1v15(rand.Reader, pub, pre)
	if err != nil {
		return err
	}
	cke := hsMsg(16, enc) // SSLv3: no 2-byte length in front of the encrypted pre-master secret
	c.transcript = append(c.transcript, cke...)
	master := ssl3Expand(pre, cr, sr, 48)
	kb := ssl3Expand(master, sr, cr, 2*sha1.Size+2*c.suite.keyLen+2*c.suite.ivLen)
	cut := func(n int) []byte { p := kb[:n]; kb = kb[n:]; return p }
	cMac, sMac := cut(sha1.Size), cut(sha1.Size)
	cKey, sKey := cut(c.suite.keyLen), cut(c.suite.keyLen)
	cIV, sIV := cut(c.suite.ivLen), cut(c.suite.ivLen)
	mk := func(h *ssl3Half, mac, key, iv []byte) error {
		h.macKey = mac
		if c.suite.stream {
			h.rc, err = rc4.NewCipher(key)
			return err
		}
		h.blk, err = c.suite.newBlockCipher(key)
		h.iv = append([]byte(nil), iv...)
		return err
	}
	var newOut, newIn ssl3Half
	if err := mk(&newOut, cMac, cKey, cIV); err != nil {
		return err
	}
	if err := mk(&newIn, sMac, sKey, sIV); err != nil {
		return err
	}
	newOut.on, newIn.on = true, true
	// one record each, as every real stack sends them
	if _, err := c.conn.Write(c.out.seal(recHandshake, cke)); err != nil {
		return err
	}
	if _, err := c.conn.Write(c.out.seal(recCCS, []byte{1})); err != nil {
		return err
	}
	c.out = newOut
	fin := hsMsg(20, ssl3Finished(c.transcript, master, "CLNT"))
	c.transcript = append(c.transcript, fin...)
	if _, err := c.conn.Write(c.out.seal(recHandshake, fin)); err != nil {
		return err
	}
	// server: ChangeCipherSpec, Finished
	for {
		rc, err := readRawRecord(c.conn)
		if err != nil {
			return err
		}
		if rc.Typ == recAlert {
			return fmt.Errorf("ssl3: server sent alert %v", rc.Body)
		}
		if rc.Typ == recCCS {
			break
		}
		return fmt.Errorf("ssl3: expected ChangeCipherSpec, got record type %d", rc.Typ)
	}
	c.in = newIn
	typ, msg, err := c.nextHandshake()
	if err != nil {
		return err
	}
	if typ != 20 || !bytes.Equal(msg[4:], ssl3Finished(c.transcript, master, "SRVR")) {
		return errors.New("ssl3: server Finished does not verify")
	}
	c.done = true
	return nil
}

func (c *ssl3Client) Write(p []byte) (int, error) {
	if !c.done {
		return 0, errors.New("ssl3: handshake not done")
	}
	n := 0
	for len(p) > 0 {
		k := len(p)
		if k > 16384 {
			k = 16384
		}
		if _, err := c.conn.Write(c.out.seal(recAppData, p[:k])); err != nil {
			return n, err
		}
		n += k
		p = p[k:]
	}
	return n, nil
}

// Close sends close_notify.
func (c *ssl3Client) Close() error {
	if !c.done {
		return nil
	}
	_, err := c.conn.Write(c.out.seal(recAlert, []byte{1, 0}))
	return err
}
