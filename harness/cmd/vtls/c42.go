package main

import (
	"bytes"
	"crypto/tls"
	"encoding/binary"
	"fmt"
	"io"
	"sync"

	"github.com/bfenetworks/bfe/bfe_tls"

	"verifharness/vkit"
)

// C42: under any modification, truncation, reordering or replay of TLS records
// in transit the server application receives only a prefix of what the client
// sent and the tampering surfaces as an error.
//
// A record-aware man-in-the-middle (it only parses the 5-byte record headers)
// sits between the client and bfe_tls.Server, forwards the handshake verbatim,
// collects every client->server record that follows the client's Finished
// (application data + close_notify), applies the scripted tampering and
// delivers the result, then half-closes.

type tamperOp struct {
	Kind string `json:"kind"`
	Pos  int    `json:"pos"`           // index into the post-handshake record list
	Arg  int    `json:"arg,omitempty"` // bit number / byte count, by kind
}

type c42Case struct {
	Client string     `json:"client"` // "std" | "bfe" | "ssl3" (the harness's own SSLv3 client, c42ssl3.go)
	Cert   string     `json:"cert"`
	Vers   uint16     `json:"vers"`
	Suite  uint16     `json:"suite"`
	Chunks []int      `json:"chunks"` // sizes of the client's Write calls
	Ops    []tamperOp `json:"ops"`
	Multi  bool       `json:"multi,omitempty"`
	// HsOps tamper with the bodies of the client's handshake-phase records
	// (ClientHello .. Finished), addressed by record index; no application data
	// is sent in such a case.
	HsOps []tamperOp `json:"hs_ops,omitempty"`
	// Hdr: Ops[0] is one of the record-header rewrites of c42hdr.go.
	Hdr bool `json:"hdr,omitempty"`
}

type c42Combo struct {
	Client string
	Cert   string
	Vers   uint16
	Suite  uint16
}

func (c c42Combo) String() string {
	return fmt.Sprintf("%s/%s/%s/%s", c.Client, c.Cert, versName(c.Vers), suiteName(c.Suite))
}

func cipherClass(id uint16) string {
	si := suiteByID(id)
	switch {
	case si == nil:
		return "unknown"
	case si.RC4:
		return "stream"
	case si.TLS12:
		return "aead"
	}
	return "cbc"
}

func c42Combos() []c42Combo {
	var out []c42Combo
	for _, cert := range []string{"rsa", "ecdsa"} {
		for _, v := range []uint16{vTLS10, vTLS11, vTLS12} {
			for _, si := range suiteTable {
				if si.ECDSA != (cert == "ecdsa") {
					continue
				}
				if si.TLS12 && v < vTLS12 {
					continue
				}
				cl := "std"
				if !si.Std {
					cl = "bfe" // RSA-SM4-SM3 is unknown to crypto/tls: bfe's own client generates the traffic
				}
				out = append(out, c42Combo{cl, cert, v, si.ID})
			}
		}
	}
	// SSLv3 (appended, so that the indices of the TLS combinations stay what they were): the harness's
	// own client, RSA key exchange, all four record protections SSLv3 has here
	for _, su := range ssl3Suites {
		out = append(out, c42Combo{"ssl3", "rsa", vSSL30, su.id})
	}
	return out
}

type appClient interface {
	Handshake() error
	Write([]byte) (int, error)
	Close() error
}

type c42Run struct {
	HandshakeOK  bool
	CliErr       error
	SrvHsErr     error
	Records      [][]byte // post-handshake client records as produced by the client
	HsRecords    [][]byte // the client's handshake-phase records (ClientHello .. Finished)
	Delivered    []byte   // the stream given to the server after the handshake
	Got          []byte   // application bytes the server's Read returned
	ReadErr      error    // the error that ended the server's Read loop
	PostErrBytes int      // bytes returned by the three Reads issued after that error
	PostErrOK    int      // how many of those Reads returned data or a nil error
	Hung         bool
	Panic        *panicBox
}

func c42Server(cb c42Combo) *bfe_tls.Config {
	s := srvSpec{Cert: cb.Cert, TicketsDisabled: true, Rules: map[string]ruleSpec{"chacha.test": {Grade: "C", Chacha: true}}}
	return buildServer(&s, nil)
}

func c42Client(cb c42Combo, conn *bufConn) appClient {
	if cb.Client == "ssl3" {
		return newSSL3Client(conn, cb.Suite)
	}
	if cb.Client == "bfe" {
		return bfe_tls.Client(conn, &bfe_tls.Config{InsecureSkipVerify: true, ServerName: "chacha.test", CipherSuites: []uint16{cb.Suite}, MinVersion: cb.Vers, MaxVersion: cb.Vers})
	}
	cl := cliSpec{MinV: cb.Vers, MaxV: cb.Vers, Suites: []uint16{cb.Suite}, Curves: []uint16{23}, SNI: "chacha.test"}
	return tls.Client(conn, buildClient(&cl, nil))
}

// c42Exchange runs one connection through the man-in-the-middle. transform
// receives the post-handshake client records and returns the byte stream to
// deliver instead.
func c42Exchange(cb c42Combo, plain [][]byte, hsOps []tamperOp, transform func(recs [][]byte) []byte) *c42Run {
	out := &c42Run{Panic: &panicBox{}}
	cEnd, mA := newBufPipe() // client <-> mitm
	mB, sEnd := newBufPipe() // mitm <-> server
	srv := bfe_tls.Server(sEnd, c42Server(cb))
	cli := c42Client(cb, cEnd)
	wd := newWatchdog(caseWatchdog, cEnd, mA, mB, sEnd)
	var wg sync.WaitGroup
	wg.Add(4)
	// server -> client: verbatim
	go func() {
		defer wg.Done()
		defer out.Panic.guard(cEnd, mA, mB, sEnd)
		io.Copy(mA, mB)
		mA.CloseWrite()
	}()
	// client -> server: handshake verbatim, then collect, tamper, deliver
	var recs, hsRecs [][]byte
	var delivered []byte
	go func() {
		defer wg.Done()
		defer mB.CloseWrite()
		defer out.Panic.guard(cEnd, mA, mB, sEnd)
		sawCCS, collecting := false, false
		var held []byte // record held back by an hs-swap
		for idx := 0; ; idx++ {
			rc, err := readRawRecord(mA)
			if err != nil {
				break
			}
			if collecting {
				recs = append(recs, rc.Raw)
				continue
			}
			hsRecs = append(hsRecs, rc.Raw)
			out := [][]byte{rc.Raw}
			if held != nil {
				out = [][]byte{rc.Raw, held}
				held = nil
			}
			for _, op := range hsOps {
				if op.Pos != idx {
					continue
				}
				switch op.Kind {
				case "hs-flip":
					// not in the 4-byte handshake message header: a larger length only makes the
					// server wait for bytes that never come (a stall, not an integrity matter)
					body, skip := len(rc.Raw)-5, 4
					if body <= skip {
						skip = 0
					}
					out[0] = flipBit(rc.Raw, 5+skip+(op.Arg/8)%(body-skip), op.Arg%8)
				case "hs-drop":
					out = out[1:]
				case "hs-dup":
					out = append(out, rc.Raw)
				case "hs-swap":
					held = rc.Raw
					out = out[1:]
				}
			}
			for _, o := range out {
				if _, err := mB.Write(o); err != nil {
					return
				}
			}
			if rc.Typ == recCCS {
				sawCCS = true
			} else if sawCCS && rc.Typ == recHandshake {
				collecting = true // that was the client's Finished
				if len(hsOps) > 0 {
					// nothing more is needed from the client to finish the handshake: half-close so
					// that a server left waiting by a dropped record sees EOF instead of blocking
					if held != nil {
						mB.Write(held)
					}
					return
				}
			}
		}
		if !collecting {
			return
		}
		delivered = transform(recs)
		mB.Write(delivered)
	}()
	var cliErr, srvHsErr, readErr error
	var got []byte
	var postErrBytes, postErrOK int
	go func() {
		defer wg.Done()
		defer cEnd.Close()
		defer out.Panic.guard(cEnd, mA, mB, sEnd)
		if cliErr = cli.Handshake(); cliErr != nil {
			return
		}
		for _, p := range plain {
			if _, cliErr = cli.Write(p); cliErr != nil {
				return
			}
		}
		cli.Close()
	}()
	go func() {
		defer wg.Done()
		defer sEnd.Close()
		defer out.Panic.guard(cEnd, mA, mB, sEnd)
		if srvHsErr = srv.Handshake(); srvHsErr != nil {
			return
		}
		buf := make([]byte, 4096)
		for {
			n, err := srv.Read(buf)
			got = append(got, buf[:n]...)
			if err != nil {
				readErr = err
				// an application that keeps reading after the error must not be handed
				// anything either: three more reads, whatever they return
				for k := 0; k < 3; k++ {
					n2, err2 := srv.Read(buf)
					if n2 > 0 || err2 == nil {
						postErrBytes += n2
						postErrOK++
						got = append(got, buf[:n2]...)
					}
				}
				return
			}
		}
	}()
	wg.Wait()
	out.Hung = wd.stop()
	out.CliErr, out.SrvHsErr, out.ReadErr = cliErr, srvHsErr, readErr
	out.HandshakeOK = cliErr == nil && srvHsErr == nil
	out.Records, out.Delivered, out.Got = recs, delivered, got
	out.PostErrBytes, out.PostErrOK = postErrBytes, postErrOK
	out.HsRecords = hsRecs
	return out
}

// ---------------------------------------------------------------------------
// Tampering

type seg struct {
	data []byte
	orig int // index of the original record, -1 for inserted material
}

func setLen(rec []byte, n int) []byte {
	o := append([]byte(nil), rec...)
	binary.BigEndian.PutUint16(o[3:5], uint16(n))
	return o
}

func flipBit(rec []byte, off, bit int) []byte {
	o := append([]byte(nil), rec...)
	if off < 0 {
		off = 0
	}
	if off >= len(o) {
		off = len(o) - 1
	}
	o[off] ^= 1 << uint(bit&7)
	return o
}

var c42Kinds = []string{
	"flip-type", "flip-type-b1", "flip-type-b2", "flip-ver-major", "flip-ver-minor", "flip-len-hi", "flip-len-lo",
	"flip-body-first", "flip-body-mid", "flip-body-last",
	"trunc-in-body-1", "trunc-in-body-mid", "trunc-in-body-last", "trunc-in-header-1", "trunc-in-header-4", "trunc-at-boundary",
	"dup", "replay-later", "swap", "drop",
	"len+1", "len-1", "len=0", "len=ffff",
	"foreign-insert", "foreign-replace", "forge-insert", "empty-insert",
}

// applyOps applies the ops (each addressed by original record index) and
// returns the stream to deliver.
func applyOps(recs [][]byte, donor [][]byte, ops []tamperOp) []byte {
	var segs []seg
	for i, rc := range recs {
		segs = append(segs, seg{rc, i})
	}
	find := func(pos int) int {
		for i, s := range segs {
			if s.orig == pos {
				return i
			}
		}
		return -1
	}
	insert := func(at int, s seg) {
		segs = append(segs, seg{})
		copy(segs[at+1:], segs[at:])
		segs[at] = s
	}
	foreign := func(pos int) []byte {
		if len(donor) == 0 {
			return nil
		}
		if pos < len(donor) {
			return donor[pos]
		}
		return donor[len(donor)-1]
	}
	for _, op := range ops {
		i := find(op.Pos)
		if i < 0 {
			continue
		}
		d := segs[i].data
		switch op.Kind {
		case "dup", "replay-later", "swap", "drop", "foreign-insert", "foreign-replace", "trunc-at-boundary":
		default:
			if len(d) < 6 {
				continue // an earlier op already cut this record short: nothing left to edit
			}
		}
		switch op.Kind {
		case "flip-type":
			segs[i].data = flipBit(d, 0, 0)
		case "flip-type-b1":
			segs[i].data = flipBit(d, 0, 1)
		case "flip-type-b2":
			segs[i].data = flipBit(d, 0, 2)
		case "flip-ver-major":
			segs[i].data = flipBit(d, 1, op.Arg)
		case "flip-ver-minor":
			segs[i].data = flipBit(d, 2, op.Arg)
		case "flip-len-hi":
			segs[i].data = flipBit(d, 3, op.Arg)
		case "flip-len-lo":
			segs[i].data = flipBit(d, 4, op.Arg)
		case "flip-body-first":
			segs[i].data = flipBit(d, 5, op.Arg)
		case "flip-body-mid":
			segs[i].data = flipBit(d, 5+(len(d)-5)/2, op.Arg)
		case "flip-body-last":
			segs[i].data = flipBit(d, len(d)-1, op.Arg)
		case "flip-at":
			segs[i].data = flipBit(d, op.Arg/8, op.Arg%8)
		case "trunc-in-body-1":
			segs[i].data = d[:6]
			segs = segs[:i+1]
		case "trunc-in-body-mid":
			segs[i].data = d[:5+(len(d)-5)/2]
			segs = segs[:i+1]
		case "trunc-in-body-last":
			segs[i].data = d[:len(d)-1]
			segs = segs[:i+1]
		case "trunc-in-header-1":
			segs[i].data = d[:1]
			segs = segs[:i+1]
		case "trunc-in-header-4":
			segs[i].data = d[:4]
			segs = segs[:i+1]
		case "trunc-at-boundary":
			segs = segs[:i]
		case "dup":
			insert(i+1, seg{d, -1})
		case "replay-later":
			at := i + 2
			if at > len(segs) {
				at = len(segs)
			}
			insert(at, seg{d, -1})
		case "swap":
			if i+1 < len(segs) {
				segs[i], segs[i+1] = segs[i+1], segs[i]
			}
		case "drop":
			segs = append(segs[:i], segs[i+1:]...)
		case "len+1":
			segs[i].data = setLen(d, len(d)-5+1)
		case "len-1":
			segs[i].data = setLen(d, len(d)-5-1)
		case "len=0":
			segs[i].data = setLen(d, 0)
		case "len=ffff":
			segs[i].data = setLen(d, 0xffff)
		case "foreign-insert":
			if f := foreign(op.Pos); f != nil {
				insert(i, seg{f, -1})
			}
		case "foreign-replace":
			if f := foreign(op.Pos); f != nil {
				segs[i] = seg{f, -1}
			}
		case "forge-insert":
			f := append([]byte(nil), d[:5]...)
			f[0] = recAppData
			body := make([]byte, 64)
			for k := range body {
				body[k] = byte(k*37 + op.Arg)
			}
			f = setLen(f, len(body))
			insert(i, seg{append(f, body...), -1})
		case "empty-insert":
			f := append([]byte(nil), d[:5]...)
			f[0] = recAppData
			insert(i, seg{setLen(f, 0), -1})
		}
	}
	var out []byte
	for _, s := range segs {
		out = append(out, s.data...)
	}
	return out
}

// streamShape classifies the delivered stream by its structure: the complete
// records it holds (by their own length fields) and the trailing bytes.
func streamShape(recs [][]byte, out []byte) string {
	orig := bytes.Join(recs, nil)
	if bytes.Equal(orig, out) {
		return "unchanged"
	}
	// anything that first differs after the close_notify record is invisible to a correct peer
	if n := len(orig); len(out) > n && bytes.Equal(out[:n], orig) {
		return "only-after-close-notify"
	}
	outRecs, rest := splitRecords(out)
	for i, rc := range outRecs {
		if i >= len(recs) || !bytes.Equal(rc.Raw, recs[i]) {
			return "modified"
		}
	}
	// every complete record delivered is an untouched original one, in order
	k := len(outRecs)
	switch {
	case len(rest) == 0:
		return "cut-at-record-boundary"
	case len(rest) < 5:
		// the bytes of an incomplete header are never interpreted: their content does not matter
		return "cut-inside-record-header"
	case k < len(recs) && len(rest) < len(recs[k]) && bytes.Equal(rest, recs[k][:len(rest)]):
		return "cut-inside-record-body"
	}
	return "modified"
}

type c42Donors struct {
	mu sync.Mutex
	m  map[c42Combo][][]byte
}

func c42Plain(g *vkit.Rand, chunks []int) (parts [][]byte, all []byte) {
	for _, n := range chunks {
		p := payload(g, n)
		parts = append(parts, p)
		all = append(all, p...)
	}
	return
}

var c42ChunkSets = [][]int{{1, 100, 1024, 3000, 17}, {5000, 1, 1, 600}, {16384 + 300, 10, 2048}, {64, 64, 64, 64, 64, 64}}

func c42Check(r *vkit.Run, c *c42Case, donors *c42Donors, g *vkit.Rand) {
	cb := c42Combo{c.Client, c.Cert, c.Vers, c.Suite}
	parts, all := c42Plain(g, c.Chunks)
	donors.mu.Lock()
	donor := donors.m[cb]
	donors.mu.Unlock()
	r.WriteAhead(c)
	var run *c42Run
	if r.Try(func() interface{} { return c }, func() {
		run = c42Exchange(cb, parts, nil, func(recs [][]byte) []byte { return applyOps(recs, donor, c.Ops) })
	}) {
		return
	}
	if abnormal(r, run.Hung, run.Panic, c) {
		return
	}
	key := fmt.Sprintf("%v|%v|%v", cb, c.Chunks, c.Ops)
	if !run.HandshakeOK {
		r.Count("handshake_not_completed", 1)
		r.CaseS(key, false)
		return
	}
	shape := streamShape(run.Records, run.Delivered)
	wit := map[string]interface{}{"case": c, "combo": cb.String(), "cipher_class": cipherClass(c.Suite), "records": len(run.Records),
		"stream_shape": shape, "server_got_bytes": len(run.Got), "client_sent_bytes": len(all), "server_read_error": errStr(run.ReadErr)}
	if len(c.Ops) == 0 {
		// control: untouched stream must arrive completely and end with a clean EOF
		r.CaseS(key, false)
		r.Count("controls", 1)
		if !bytes.Equal(run.Got, all) || run.ReadErr != io.EOF {
			r.Violation("control:untampered-stream-not-delivered", fmt.Sprintf("without tampering the server read %d of %d bytes and ended with %v", len(run.Got), len(all), run.ReadErr), wit)
		}
		return
	}
	if shape == "unchanged" || shape == "only-after-close-notify" {
		r.Count("ops_without_effect", 1)
		r.CaseS(key, false)
		return
	}
	r.CaseS(key, true)
	r.Count("tampered_streams", 1)
	r.Count("shape:"+shape, 1)
	kind := c.Ops[0].Kind
	if c.Multi {
		kind = "multi"
	}
	if run.PostErrOK > 0 {
		r.Violation("tamper:"+kind+":read-after-error-returns-data:"+cipherClass(c.Suite), fmt.Sprintf("after Read failed with %v, %d of 3 further Reads returned data or a nil error (%d bytes)", run.ReadErr, run.PostErrOK, run.PostErrBytes), wit)
	}
	r.Count("reads_after_error_checked", 3)
	isPrefix := len(run.Got) <= len(all) && bytes.Equal(all[:len(run.Got)], run.Got)
	if !isPrefix {
		r.Violation("tamper:"+kind+":server-got-non-prefix:"+cipherClass(c.Suite), fmt.Sprintf("server application received %d bytes that are not a prefix of the %d bytes the client sent", len(run.Got), len(all)), wit)
		return
	}
	r.Count("prefix_bytes_delivered", int64(len(run.Got)))
	switch {
	case run.ReadErr == nil:
		r.Violation("tamper:"+kind+":no-error:"+cipherClass(c.Suite), "server Read loop ended without an error", wit)
	case run.ReadErr == io.EOF:
		r.Count("undetected_clean_eof", 1)
		switch shape {
		case "cut-at-record-boundary":
			r.Violation("truncation:clean-eof-without-close-notify", fmt.Sprintf("stream cut at a record boundary (close_notify never delivered): server Read returned %d bytes then io.EOF, indistinguishable from an orderly close", len(run.Got)), wit)
		case "cut-inside-record-header":
			r.Violation("truncation:clean-eof-inside-record-header", fmt.Sprintf("stream cut inside a 5-byte record header: server Read returned %d bytes then io.EOF", len(run.Got)), wit)
		default:
			r.Violation("tamper:"+kind+":clean-eof:"+cipherClass(c.Suite), fmt.Sprintf("tampering (%s) surfaced as a clean io.EOF", shape), wit)
		}
	default:
		r.Count("detected_as_error", 1)
	}
	if r.WantSample() && run.ReadErr != nil && run.ReadErr != io.EOF && len(run.Got) > 0 {
		r.Sample(map[string]interface{}{"case": c, "server_got_bytes": len(run.Got), "error": run.ReadErr.Error()})
	}
}

// c42HsCheck: tampering with the body of a handshake-phase record must make
// the server's handshake fail; the server application must see no data.
func c42HsCheck(r *vkit.Run, c *c42Case) {
	cb := c42Combo{c.Client, c.Cert, c.Vers, c.Suite}
	r.WriteAhead(c)
	var run *c42Run
	if r.Try(func() interface{} { return c }, func() {
		run = c42Exchange(cb, [][]byte{[]byte("must never arrive")}, c.HsOps, func(recs [][]byte) []byte { return bytes.Join(recs, nil) })
	}) {
		return
	}
	if abnormal(r, run.Hung, run.Panic, c) {
		return
	}
	key := fmt.Sprintf("hs|%v|%v", cb, c.HsOps)
	if c.HsOps[0].Pos >= len(run.HsRecords) {
		r.CaseS(key, false)
		return
	}
	r.CaseS(key, true)
	r.Count("handshake_tamper_cases", 1)
	wit := map[string]interface{}{"case": c, "combo": cb.String(), "client_handshake_records": len(run.HsRecords),
		"server_handshake_err": errStr(run.SrvHsErr), "client_err": errStr(run.CliErr), "server_got_bytes": len(run.Got), "server_read_error": errStr(run.ReadErr)}
	switch {
	case run.SrvHsErr != nil:
		r.Count("handshake_tamper_detected", 1)
	case len(run.Got) > 0:
		r.Violation("handshake-tamper:"+c.HsOps[0].Kind+":application-data-accepted", "server completed a tampered handshake and delivered application data", wit)
	case run.ReadErr != nil && run.ReadErr != io.EOF:
		// e.g. a duplicated Finished arrives after the handshake is over and is refused by the record layer
		r.Count("handshake_tamper_detected", 1)
		r.Count("handshake_tamper_detected_at_first_read", 1)
	default:
		r.Violation("handshake-tamper:"+c.HsOps[0].Kind+":undetected", fmt.Sprintf("server completed the handshake although a handshake record was tampered with, and its Read ended with %v", run.ReadErr), wit)
	}
}

func c42(r *vkit.Run) {
	r.SetRule("every (client, certificate, version, suite) combination: TLS1.0-1.2 x every suite bfe_tls enables (37 with Go's crypto/tls client, RSA-SM4-SM3 x3 with bfe's own client as traffic generator) plus SSLv3 x {RC4-SHA, 3DES-SHA, AES128-SHA, AES256-SHA} with the harness's own SSLv3 client (c42ssl3.go, written from RFC 6101, RSA key exchange, verifies the server's Finished; neither crypto/tls nor bfe_tls's client side speaks SSLv3) x 28 tamper kinds (bit flips in type/version/length/first/middle/last body byte, cuts inside body/header/at boundary, duplicate, later replay, swap, drop, length edits, cross-connection insert/replace, forged and empty record) x 3 positions (first, middle, last post-handshake record incl. close_notify), plus one untampered control per combination. RECORD-HEADER family (c42hdr.go): per combination x first/middle/last APPLICATION-DATA record, each of the 5 header bytes rewritten separately: type -> 20,21,22,24,0,0x80,0xff; version major -> 2,4,0,0xff; version minor -> every other value of 0..4 and 0xff (so +-1 and every other supported version); length high byte ^0x01, ^0x40; length low byte ^0x80, length +1, -1; record split in two, two records merged into one; counted per version x header byte (hdr:<version>:<byte>), inconclusive if any of the 20 (version incl. ssl3 x byte) cells is empty or the connection's records do not carry the intended version; oracle of that family = the statement: server bytes are a prefix of the client's plaintext and the Read loop ends with an error other than io.EOF (signatures tamper:header:<byte>:<version>:delivered-without-error / server-got-non-prefix / read-after-error-returns-data). Plus handshake-phase tampering (bit flip in the body of each of the client's ClientHello/ClientKeyExchange/ChangeCipherSpec/Finished records, drop, duplicate, swap: the server handshake must fail or its first Read must return an error with no data; record headers of clear-text handshake records and the 4-byte handshake message header are left alone, TLS does not authenticate the former and a larger length in the latter only stalls); thorough adds seeded sequences of 2-3 ops and single-bit flips at random offsets. Oracle: server bytes are a prefix of the client's plaintext and the Read loop ends with a non-nil error other than io.EOF; three further Reads issued after that error must return no data and an error. Ops whose effect lies wholly after the close_notify record are not counted. Non-trivial = delivered stream differs from the original; distinct = (combination, chunking, op list)")
	r.Assume("C42 only: SSLv3 connections are driven by the harness's own minimal SSLv3 client (RSA key exchange, no extensions, no SNI: the server applies its default grade C, Ssl3PoodleProofed off), which supersedes the general 'SSLv3 only up to the ServerHello' assumption for this property")
	getPKI()
	donors := &c42Donors{m: map[c42Combo][][]byte{}}
	if r.Replay != "" {
		var w struct {
			Case c42Case `json:"case"`
		}
		if err := r.LoadReplay(&w); err != nil {
			r.Inconclusive(err.Error())
			return
		}
		r.SetMinDistinct(0)
		if len(w.Case.HsOps) > 0 {
			c42HsCheck(r, &w.Case)
			return
		}
		if w.Case.Hdr && len(w.Case.Ops) == 1 {
			c42HdrCheck(r, &w.Case, r.Rng("replay"))
			return
		}
		cb := c42Combo{w.Case.Client, w.Case.Cert, w.Case.Vers, w.Case.Suite}
		g := r.Rng("replay")
		parts, _ := c42Plain(g, c42ChunkSets[0])
		d := c42Exchange(cb, parts, nil, func(recs [][]byte) []byte { return bytes.Join(recs, nil) })
		donors.m[cb] = d.Records
		c42Check(r, &w.Case, donors, g)
		return
	}
	combos := c42Combos()
	// donors (also the availability test of each combination)
	avail := make([]bool, len(combos))
	vkit.Parallel(len(combos), workers, func(i int) {
		g := r.Rng("donor", i)
		parts, _ := c42Plain(g, c42ChunkSets[i%len(c42ChunkSets)])
		d := c42Exchange(combos[i], parts, nil, func(recs [][]byte) []byte { return bytes.Join(recs, nil) })
		if d.HandshakeOK && len(d.Records) > 0 {
			avail[i] = true
			donors.mu.Lock()
			donors.m[combos[i]] = d.Records
			donors.mu.Unlock()
		}
	})
	var cases []c42Case
	var unavailable []string
	for i, cb := range combos {
		if !avail[i] {
			unavailable = append(unavailable, cb.String())
			continue
		}
		r.Count("combinations", 1)
		chunks := c42ChunkSets[i%len(c42ChunkSets)]
		base := c42Case{Client: cb.Client, Cert: cb.Cert, Vers: cb.Vers, Suite: cb.Suite, Chunks: chunks}
		cases = append(cases, base)
		for _, k := range c42Kinds {
			for _, pos := range []string{"first", "mid", "last"} {
				c := base
				c.Ops = []tamperOp{{Kind: k, Pos: -1}}
				c.Ops[0].Arg = len(cases) % 8
				// position resolved against the actual record count at run time: encode symbolically
				switch pos {
				case "first":
					c.Ops[0].Pos = 0
				case "mid":
					c.Ops[0].Pos = -2
				case "last":
					c.Ops[0].Pos = -1
				}
				cases = append(cases, c)
			}
		}
	}
	r.Extra("unavailable_combinations", unavailable)
	if len(unavailable) > 0 {
		r.Inconclusive(fmt.Sprintf("combinations whose untampered handshake did not complete: %v", unavailable))
	}
	// resolve symbolic positions: the record count of a combination+chunking is deterministic
	for i := range cases {
		cb := c42Combo{cases[i].Client, cases[i].Cert, cases[i].Vers, cases[i].Suite}
		n := len(donors.m[cb])
		for k := range cases[i].Ops {
			switch cases[i].Ops[k].Pos {
			case -1:
				cases[i].Ops[k].Pos = n - 1
			case -2:
				cases[i].Ops[k].Pos = n / 2
			}
		}
	}
	vkit.Parallel(len(cases), workers, func(i int) {
		cb := c42Combo{cases[i].Client, cases[i].Cert, cases[i].Vers, cases[i].Suite}
		ci := 0
		for k := range combos {
			if combos[k] == cb {
				ci = k
			}
		}
		c42Check(r, &cases[i], donors, r.Rng("donor", ci)) // same plaintext as the donor run
	})
	// record-header family: each header byte of application-data records, per version
	c42HdrFamily(r, combos, avail, donors)
	// handshake-phase tampering: bodies of ClientHello, ClientKeyExchange, ChangeCipherSpec, Finished
	var hsCases []c42Case
	for i, cb := range combos {
		if !avail[i] {
			continue
		}
		g := r.Rng("hs", i)
		base := c42Case{Client: cb.Client, Cert: cb.Cert, Vers: cb.Vers, Suite: cb.Suite}
		for pos := 0; pos < 4; pos++ {
			c := base
			c.HsOps = []tamperOp{{Kind: "hs-flip", Pos: pos, Arg: g.Intn(1 << 16)}}
			hsCases = append(hsCases, c)
			if !r.Quick() {
				for k := 0; k < 12; k++ {
					c.HsOps = []tamperOp{{Kind: "hs-flip", Pos: pos, Arg: g.Intn(1 << 16)}}
					hsCases = append(hsCases, c)
				}
			}
		}
		for _, k := range []string{"hs-drop", "hs-dup", "hs-swap"} {
			for pos := 1; pos < 4; pos++ {
				if k == "hs-swap" && pos == 3 {
					continue
				}
				c := base
				c.HsOps = []tamperOp{{Kind: k, Pos: pos}}
				hsCases = append(hsCases, c)
			}
		}
	}
	vkit.Parallel(len(hsCases), workers, func(i int) { c42HsCheck(r, &hsCases[i]) })
	if r.Counter("handshake_tamper_detected") == 0 {
		r.Inconclusive("no handshake-phase tampering was detected")
	}
	// thorough: multi-op sequences and random single-bit flips
	if nm := r.N(1500, 100000); nm > 0 {
		vkit.Parallel(nm, workers, func(i int) {
			g := r.Rng("multi", i)
			ci := g.Intn(len(combos))
			if !avail[ci] {
				return
			}
			cb := combos[ci]
			n := len(donors.m[cb])
			c := c42Case{Client: cb.Client, Cert: cb.Cert, Vers: cb.Vers, Suite: cb.Suite, Chunks: c42ChunkSets[ci%len(c42ChunkSets)], Multi: true}
			if g.Chance(1, 3) {
				c.Multi = false
				pos := g.Intn(n)
				c.Ops = []tamperOp{{Kind: "flip-at", Pos: pos, Arg: g.Intn(8 * len(donors.m[cb][pos]))}}
			} else {
				for k := g.Range(2, 3); k > 0; k-- {
					c.Ops = append(c.Ops, tamperOp{Kind: c42Kinds[g.Intn(len(c42Kinds))], Pos: g.Intn(n), Arg: g.Intn(8)})
				}
			}
			c42Check(r, &c, donors, r.Rng("donor", ci))
		})
	}
	if r.Counter("detected_as_error") == 0 || r.Counter("controls") == 0 {
		r.Inconclusive("no tampering was detected as an error or no control ran: the workload did not exercise the record layer")
	}
}
