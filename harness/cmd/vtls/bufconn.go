package main

import (
	"io"
	"net"
	"sync"
	"time"
)

// tapCap bounds the wire tap of each direction: enough for any handshake.
const tapCap = 48 << 10

// bufHalf is one direction of an in-memory duplex connection with an
// unbounded buffer: a Write never blocks (so two peers that both write before
// reading cannot dead-lock, unlike net.Pipe), a Read blocks until data, EOF
// (writer closed and buffer drained) or reader-side close.
type bufHalf struct {
	mu      sync.Mutex
	cond    *sync.Cond
	buf     []byte
	log     []byte // the first tapCap bytes written (wire tap)
	wclosed bool   // writer closed: reader sees EOF after draining
	rclosed bool   // reader closed: writes fail
}

func newBufHalf() *bufHalf {
	h := &bufHalf{}
	h.cond = sync.NewCond(&h.mu)
	return h
}

func (h *bufHalf) write(p []byte) (int, error) {
	h.mu.Lock()
	defer h.mu.Unlock()
	if h.wclosed || h.rclosed {
		return 0, io.ErrClosedPipe
	}
	h.buf = append(h.buf, p...)
	if room := tapCap - len(h.log); room > 0 {
		if room > len(p) {
			room = len(p)
		}
		h.log = append(h.log, p[:room]...)
	}
	h.cond.Broadcast()
	return len(p), nil
}

func (h *bufHalf) read(p []byte) (int, error) {
	h.mu.Lock()
	defer h.mu.Unlock()
	for len(h.buf) == 0 {
		if h.rclosed {
			return 0, io.ErrClosedPipe
		}
		if h.wclosed {
			return 0, io.EOF
		}
		h.cond.Wait()
	}
	n := copy(p, h.buf)
	h.buf = h.buf[n:]
	return n, nil
}

func (h *bufHalf) closeWrite() {
	h.mu.Lock()
	h.wclosed = true
	h.cond.Broadcast()
	h.mu.Unlock()
}

func (h *bufHalf) closeRead() {
	h.mu.Lock()
	h.rclosed = true
	h.cond.Broadcast()
	h.mu.Unlock()
}

func (h *bufHalf) tap() []byte {
	h.mu.Lock()
	defer h.mu.Unlock()
	return append([]byte(nil), h.log...)
}

type bufAddr string

func (a bufAddr) Network() string { return "buf" }
func (a bufAddr) String() string  { return string(a) }

// bufConn is one end of the duplex connection.
type bufConn struct {
	r, w *bufHalf
	name string
	once sync.Once
}

// newBufPipe returns the two ends (client side, server side).
func newBufPipe() (*bufConn, *bufConn) {
	a2b, b2a := newBufHalf(), newBufHalf()
	return &bufConn{r: b2a, w: a2b, name: "client"}, &bufConn{r: a2b, w: b2a, name: "server"}
}

func (c *bufConn) Read(p []byte) (int, error)  { return c.r.read(p) }
func (c *bufConn) Write(p []byte) (int, error) { return c.w.write(p) }
func (c *bufConn) Close() error {
	c.once.Do(func() {
		c.w.closeWrite()
		c.r.closeRead()
	})
	return nil
}

// CloseWrite half-closes: the peer reads EOF after draining, this end can
// still read.
func (c *bufConn) CloseWrite()                        { c.w.closeWrite() }
func (c *bufConn) LocalAddr() net.Addr                { return bufAddr(c.name) }
func (c *bufConn) RemoteAddr() net.Addr               { return bufAddr("peer-of-" + c.name) }
func (c *bufConn) SetDeadline(t time.Time) error      { return nil }
func (c *bufConn) SetReadDeadline(t time.Time) error  { return nil }
func (c *bufConn) SetWriteDeadline(t time.Time) error { return nil }

// Sent returns the first tapCap bytes this end has written so far.
func (c *bufConn) Sent() []byte { return c.w.tap() }

// Received returns the first tapCap bytes the peer has written so far (read or not).
func (c *bufConn) Received() []byte { return c.r.tap() }

// watchdog closes the given connections if the case has not finished after a
// generous wall-clock limit. It is not part of any oracle: a case in which it
// fires is counted as hung and makes the run inconclusive.
type watchdog struct {
	t     *time.Timer
	fired bool
	mu    sync.Mutex
}

func newWatchdog(d time.Duration, conns ...io.Closer) *watchdog {
	w := &watchdog{}
	w.t = time.AfterFunc(d, func() {
		w.mu.Lock()
		w.fired = true
		w.mu.Unlock()
		for _, c := range conns {
			c.Close()
		}
	})
	return w
}

func (w *watchdog) stop() bool {
	w.t.Stop()
	w.mu.Lock()
	defer w.mu.Unlock()
	return w.fired
}
