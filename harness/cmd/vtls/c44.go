package main

import (
	"bytes"
	"encoding/hex"
	"fmt"
	"strings"

	"github.com/bfenetworks/bfe/bfe_tls"

	"verifharness/vkit"
)

// C44: a ticket / session id is honoured only if issued by this server with
// its current key (or cache) and unmodified; a resumed connection keeps the
// original master secret, version and suite, which both sides must still
// enable; resumption never skips a client-certificate requirement.

// ---------------------------------------------------------------------------
// Part 1: forgery. A session is established with the standard client, then
// hand-written ClientHellos present mutated tickets / session ids and the wire
// shows whether the server answers with an abbreviated handshake.

type c44Source struct {
	Cert    string `json:"cert"`
	Vers    uint16 `json:"vers"`
	Suite   uint16 `json:"suite"`
	CliCert string `json:"cli_cert,omitempty"` // session carries a client certificate (rule auth-a.test)
	Mode    string `json:"mode"`               // "ticket" | "sessionid"
}

type c44Mut struct {
	Op  string `json:"op"`
	Arg int    `json:"arg,omitempty"`
}

type c44Forgery struct {
	Kind string    `json:"kind"` // "forgery"
	Src  c44Source `json:"src"`
	Mut  c44Mut    `json:"mut"`
}

func c44Rules() map[string]ruleSpec {
	return map[string]ruleSpec{
		"auth-a.test": {Grade: "C", ClientAuth: true, CA: "A"},
		"auth-b.test": {Grade: "C", ClientAuth: true, CA: "B"},
		"noauth.test": {Grade: "C"},
		"a.test":      {Grade: "A"},
		"aplus.test":  {Grade: "A+"},
		"c.test":      {Grade: "C"},
		"chacha.test": {Grade: "C", Chacha: true},
	}
}

func (s *c44Source) srvSpec() srvSpec {
	sp := srvSpec{Cert: s.Cert, TicketKey: 3, Rules: c44Rules()}
	if s.Mode == "sessionid" {
		sp.TicketsDisabled, sp.UseCache = true, true
	}
	return sp
}

func (s *c44Source) sni() string {
	if s.CliCert != "" {
		return "auth-a.test"
	}
	if si := suiteByID(s.Suite); si != nil && si.Chacha {
		return "chacha.test"
	}
	return "noauth.test"
}

type c44Session struct {
	Spec   srvSpec
	Cache  *memCache
	Ticket []byte
	SID    []byte
	First  *pairResult
}

// establish creates the session with the standard client.
func (s *c44Source) establish() (*c44Session, error) {
	sp := s.srvSpec()
	ses := &c44Session{Spec: sp, Cache: newMemCache()}
	cl := cliSpec{MinV: s.Vers, MaxV: s.Vers, Suites: []uint16{s.Suite}, Curves: []uint16{23}, SNI: s.sni(), Cert: s.CliCert}
	cc := &captureCache{}
	res := runPair(buildServer(&sp, ses.Cache), buildClient(&cl, cc), []byte("ping"), []byte("pong"))
	if res.Hung || !res.ok() || res.EchoErr != "" {
		return nil, fmt.Errorf("source session failed: client %v server %v echo %s", res.CliErr, res.SrvErr, res.EchoErr)
	}
	ses.First = res
	if s.Mode == "sessionid" {
		ses.SID = res.Flight.SessionID
		if len(ses.SID) == 0 {
			return nil, fmt.Errorf("server issued no session id")
		}
	} else {
		ses.Ticket = cc.ticket()
		if len(ses.Ticket) == 0 {
			return nil, fmt.Errorf("server issued no ticket")
		}
		// NewSessionTicket travels in the clear: the client's view must be what the wire carried
		full := parseFullFlight(res.S2C)
		if !bytes.Equal(full, ses.Ticket) {
			return nil, fmt.Errorf("ticket in the client's cache differs from the NewSessionTicket on the wire")
		}
	}
	return ses, nil
}

// parseFullFlight returns the NewSessionTicket content of a full handshake.
func parseFullFlight(s2c []byte) []byte {
	return parseServerFlight(s2c).NewTicket
}

func mutate(orig []byte, foreign []byte, m c44Mut) []byte {
	o := append([]byte(nil), orig...)
	switch m.Op {
	case "valid":
	case "flip":
		o[m.Arg/8] ^= 1 << uint(m.Arg%8)
	case "flip2":
		a, b := m.Arg%(len(o)*8), (m.Arg/(len(o)*8))%(len(o)*8)
		o[a/8] ^= 1 << uint(a%8)
		if b != a {
			o[b/8] ^= 1 << uint(b%8)
		}
	case "truncate":
		o = o[:m.Arg]
	case "extend-zero":
		o = append(o, make([]byte, m.Arg)...)
	case "extend-copy":
		o = append(o, orig[:m.Arg]...)
	case "prepend":
		o = append(append([]byte(nil), orig[len(orig)-m.Arg:]...), o...)
	case "foreign-key":
		o = append([]byte(nil), foreign...)
	case "zero":
		for i := range o {
			o[i] = 0
		}
	case "random":
		o = vkit.NewRand(uint64(m.Arg) + 99).Bytes(len(o))
	case "double":
		o = append(o, orig...)
	case "swap-halves":
		h := len(o) / 2
		o = append(append([]byte(nil), orig[h:]...), orig[:h]...)
	case "drop-first":
		o = o[m.Arg:]
	}
	return o
}

func (s *c44Source) hello(ses *c44Session, cred []byte) helloSpec {
	h := helloSpec{RecVer: vTLS10, Vers: s.Vers, SNI: s.sni(), Suites: []uint16{s.Suite, 0x002f, 0xc013, 0xc009}, Curves: []uint16{23}, Points: true, SigAlgs: s.Vers >= vTLS12}
	if s.Mode == "sessionid" {
		h.SessionID = cred
		h.TicketExt = false
	} else {
		h.TicketExt, h.Ticket = true, cred
		h.SessionID = bytes.Repeat([]byte{0x5a}, 16)
	}
	return h
}

func c44ForgeryCheck(r *vkit.Run, src *c44Source, ses *c44Session, foreign []byte, m c44Mut) {
	orig := ses.Ticket
	if src.Mode == "sessionid" {
		orig = ses.SID
	}
	cred := mutate(orig, foreign, m)
	if src.Mode == "sessionid" && len(cred) > 32 {
		return // not encodable as a session id
	}
	h := src.hello(ses, cred)
	c := c44Forgery{Kind: "forgery", Src: *src, Mut: m}
	var rr *rawResult
	if r.Try(func() interface{} { return c }, func() { rr = runRaw(buildServer(&ses.Spec, ses.Cache), h.marshalRecord()) }) {
		return
	}
	if abnormal(r, rr.Hung, rr.Panic, c) {
		return
	}
	f := rr.Flight
	identical := bytes.Equal(cred, orig)
	key := fmt.Sprintf("forgery|%v|%v", *src, m)
	wit := map[string]interface{}{"case": c, "credential_hex": hex.EncodeToString(cred), "issued_hex": hex.EncodeToString(orig), "server_flight": f, "server": ses.Spec, "client_hello": h}
	if f.ParseErr != "" {
		r.Violation("wire:unparsable-server-flight", f.ParseErr, wit)
		return
	}
	r.CaseS(key, !identical)
	if identical {
		r.Count("forgery_controls", 1)
		if f.Abbreviated() {
			r.Count("valid_credential_resumed", 1)
			if f.Vers != src.Vers || f.Suite != src.Suite {
				r.Violation("resume:parameters-differ-from-original", fmt.Sprintf("valid %s resumed with %s/%s, session was %s/%s", src.Mode, versName(f.Vers), suiteName(f.Suite), versName(src.Vers), suiteName(src.Suite)), wit)
			}
		} else {
			r.Count("valid_credential_not_resumed", 1)
		}
		return
	}
	switch {
	case f.Abbreviated():
		r.Violation(fmt.Sprintf("forgery:%s:%s-honoured", src.Mode, m.Op), fmt.Sprintf("server resumed a session for a %s that is not bit-identical to the issued one (%s %d)", src.Mode, m.Op, m.Arg), wit)
	case f.Full():
		r.Count("forged_credential_full_handshake", 1)
	default:
		r.Count("forged_credential_refused", 1)
	}
}

func c44Mutations(n int, mode string, quick bool, g *vkit.Rand) []c44Mut {
	var ms []c44Mut
	ms = append(ms, c44Mut{Op: "valid"})
	for b := 0; b < n*8; b++ {
		ms = append(ms, c44Mut{Op: "flip", Arg: b})
	}
	for l := 0; l < n; l++ {
		ms = append(ms, c44Mut{Op: "truncate", Arg: l})
	}
	if mode == "ticket" {
		for l := 1; l <= 32; l++ {
			ms = append(ms, c44Mut{Op: "extend-zero", Arg: l}, c44Mut{Op: "extend-copy", Arg: l}, c44Mut{Op: "prepend", Arg: l})
		}
		ms = append(ms, c44Mut{Op: "double"})
		for l := 1; l <= 16; l++ {
			ms = append(ms, c44Mut{Op: "drop-first", Arg: l})
		}
	}
	ms = append(ms, c44Mut{Op: "foreign-key"}, c44Mut{Op: "zero"}, c44Mut{Op: "swap-halves"})
	for k := 0; k < 8; k++ {
		ms = append(ms, c44Mut{Op: "random", Arg: k})
	}
	nf2 := 256
	if !quick {
		nf2 = 3000
	}
	for k := 0; k < nf2; k++ {
		ms = append(ms, c44Mut{Op: "flip2", Arg: g.Intn(n * 8 * n * 8)})
	}
	return ms
}

// foreignCredential: a valid credential of the same shape issued by a server
// with a different ticket key / another cache.
func (s *c44Source) foreignCredential() []byte {
	sp := s.srvSpec()
	sp.TicketKey = 9
	cl := cliSpec{MinV: s.Vers, MaxV: s.Vers, Suites: []uint16{s.Suite}, Curves: []uint16{23}, SNI: s.sni(), Cert: s.CliCert}
	cc := &captureCache{}
	res := runPair(buildServer(&sp, newMemCache()), buildClient(&cl, cc), nil, nil)
	if !res.ok() {
		return nil
	}
	if s.Mode == "sessionid" {
		return res.Flight.SessionID
	}
	return cc.ticket()
}

func c44RunSource(r *vkit.Run, idx int, src c44Source) {
	ses, err := src.establish()
	if err != nil {
		r.Inconclusive(fmt.Sprintf("forgery source %v: %v", src, err))
		return
	}
	foreign := src.foreignCredential()
	if foreign == nil {
		r.Inconclusive(fmt.Sprintf("forgery source %v: no foreign credential", src))
		return
	}
	n := len(ses.Ticket)
	if src.Mode == "sessionid" {
		n = len(ses.SID)
	}
	r.Count("credential_bytes", int64(n))
	ms := c44Mutations(n, src.Mode, r.Quick(), r.Rng("flip2", idx))
	vkit.Parallel(len(ms), workers, func(i int) { c44ForgeryCheck(r, &src, ses, foreign, ms[i]) })
	// end to end with the standard client: planted tickets
	if src.Mode == "ticket" {
		c44Planted(r, idx, &src, ses, foreign)
	}
	// session-id specific: flushed cache, cache of another server, cache disabled
	if src.Mode == "sessionid" {
		for _, variant := range []string{"flushed", "other-cache", "cache-disabled", "tickets-enabled"} {
			sp := ses.Spec
			cache := ses.Cache
			switch variant {
			case "flushed":
				cache = newMemCache()
			case "other-cache":
				cache = newMemCache()
				cache.Put("00", []byte("junk"))
			case "cache-disabled":
				sp.CacheDisabled = true
			case "tickets-enabled":
				sp.TicketsDisabled = false
			}
			h := src.hello(ses, ses.SID)
			rr := runRaw(buildServer(&sp, cache), h.marshalRecord())
			c := map[string]interface{}{"kind": "sid-variant", "src": src, "variant": variant}
			r.CaseS(fmt.Sprintf("sidvariant|%v|%s", src, variant), true)
			if variant == "tickets-enabled" {
				// same cache, tickets on: the session is still in this server's cache, resumption is legitimate
				if rr.Flight.Abbreviated() {
					r.Count("valid_credential_resumed", 1)
				}
				continue
			}
			if rr.Flight.Abbreviated() {
				r.Violation("forgery:sessionid:"+variant+"-honoured", "session id honoured although the server's cache does not (or must not) hold it: "+variant, map[string]interface{}{"case": c, "server_flight": rr.Flight})
			} else {
				r.Count("forged_credential_full_handshake", 1)
			}
		}
	}
}

// c44Planted presents mutated tickets through the standard client's session
// cache: the handshake must complete as a full one (DidResume false on both
// ends); only the bit-identical ticket resumes, with the original master secret.
func c44Planted(r *vkit.Run, idx int, src *c44Source, ses *c44Session, foreign []byte) {
	g := r.Rng("planted", idx)
	n := len(ses.Ticket)
	ms := []c44Mut{{Op: "valid"}, {Op: "foreign-key"}, {Op: "truncate", Arg: n - 1}, {Op: "extend-zero", Arg: 1}, {Op: "zero"}, {Op: "truncate", Arg: 0}}
	for k := 0; k < r.N(20, 60); k++ {
		ms = append(ms, c44Mut{Op: "flip", Arg: g.Intn(n * 8)})
	}
	vkit.Parallel(len(ms), workers, func(i int) {
		m := ms[i]
		cc := &captureCache{}
		cl := cliSpec{MinV: src.Vers, MaxV: src.Vers, Suites: []uint16{src.Suite}, Curves: []uint16{23}, SNI: src.sni(), Cert: src.CliCert}
		// give the client a session of its own (so that its master secret would match a
		// resumption), then replace the ticket by a mutation of it
		first := runPair(buildServer(&ses.Spec, ses.Cache), buildClient(&cl, cc), nil, nil)
		if !first.ok() {
			r.Inconclusive("planted: first connection failed")
			return
		}
		cred := mutate(cc.ticket(), foreign, m)
		if len(cred) == 0 {
			// crypto/tls treats an empty ticket as "no session"
			return
		}
		if err := cc.plant(cred); err != nil {
			r.Inconclusive("planted: " + err.Error())
			return
		}
		res := runPair(buildServer(&ses.Spec, ses.Cache), buildClient(&cl, cc), []byte("hello"), []byte("world"))
		c := map[string]interface{}{"kind": "planted", "src": src, "mut": m}
		wit := map[string]interface{}{"case": c, "client_err": errStr(res.CliErr), "server_err": errStr(res.SrvErr), "server_flight": res.Flight,
			"server_resumed": res.Srv.DidResume, "client_resumed": res.Cli.DidResume}
		r.CaseS(fmt.Sprintf("planted|%v|%v", *src, m), m.Op != "valid")
		if abnormal(r, res.Hung, res.Panic, c) {
			return
		}
		resumed := res.Flight.Abbreviated() || res.Srv.DidResume || res.Cli.DidResume
		if m.Op == "valid" {
			if resumed && res.ok() {
				r.Count("std_client_resumed", 1)
				if !bytes.Equal(res.Srv.MasterSecret, first.Srv.MasterSecret) {
					r.Violation("resume:master-secret-differs", "resumed connection does not use the original master secret", wit)
				}
				if res.Srv.Version != first.Srv.Version || res.Srv.CipherSuite != first.Srv.CipherSuite {
					r.Violation("resume:parameters-differ-from-original", "resumed connection reports other parameters than the original", wit)
				}
			}
			return
		}
		if resumed {
			r.Violation(fmt.Sprintf("forgery:ticket:%s-honoured", m.Op), "server resumed for a ticket that is not bit-identical to the issued one (standard client)", wit)
			return
		}
		if res.ok() {
			r.Count("std_client_full_after_bad_ticket", 1)
		} else {
			r.Count("std_client_failed_after_bad_ticket", 1)
		}
	})
}

// ---------------------------------------------------------------------------
// Part 2: histories across configuration changes.

type c44Hist struct {
	Kind    string   `json:"kind"` // "history"
	Variant string   `json:"variant"`
	Changes []string `json:"changes"`
	S1      srvSpec  `json:"s1"`
	S2      srvSpec  `json:"s2"`
	C1      cliSpec  `json:"c1"`
	C2      cliSpec  `json:"c2"`
	Raw2    bool     `json:"raw2,omitempty"`     // second ClientHello written by the harness
	Flush   bool     `json:"flush,omitempty"`    // server session cache emptied between the connections
	SidRes  bool     `json:"sid_mode,omitempty"` // session-id resumption
}

var c44Changes = []string{
	"none", "suite-removed-on-server", "server-min-raised", "server-max-lowered", "client-max-raised", "server-max-raised",
	"client-max-lowered", "client-drops-suite", "sni-to-client-auth-rule", "sni-to-client-auth-rule-with-cert", "rule-ca-changed", "sni-to-other-ca-rule",
	"sni-to-plain-rule", "sni-to-grade-a", "sni-to-grade-aplus", "ticket-key-rotated", "tickets-disabled", "chacha-rule-off", "certificate-type-changed",
	"global-client-auth-required", "cache-flushed", "cache-disabled",
}

var c44Variants = []string{"plain", "clicert", "grade-c", "srvmax"}

type c44Base struct {
	cert    string
	v       uint16
	suite   uint16
	variant string
}

func c44Alt(cert string, suite uint16) uint16 {
	alt := uint16(0x002f)
	if cert == "ecdsa" {
		alt = 0xc009
	}
	if alt == suite {
		alt = 0x0035
		if cert == "ecdsa" {
			alt = 0xc00a
		}
	}
	return alt
}

// c44NewHist builds the first connection of a history: a session at version
// b.v with suite b.suite. Variants: "clicert" = established under the rule
// auth-a.test with a client certificate of CA A; "grade-c" = under the rule
// c.test; "srvmax" = the version is capped by the server (client offers 1.2).
func c44NewHist(b c44Base, sid bool) (c44Hist, bool) {
	si := suiteByID(b.suite)
	h := c44Hist{Kind: "history", SidRes: sid, Variant: b.variant}
	sni := "noauth.test"
	if si.Chacha {
		sni = "chacha.test"
	}
	h.S1 = srvSpec{Cert: b.cert, TicketKey: 3, Rules: c44Rules()}
	if sid {
		h.S1.TicketsDisabled, h.S1.UseCache = true, true
		h.Raw2 = true
	}
	h.C1 = cliSpec{MinV: vTLS10, MaxV: b.v, Suites: []uint16{b.suite, c44Alt(b.cert, b.suite)}, Curves: []uint16{23}, SNI: sni}
	// make the first connection choose b.suite: the server prefers its own order
	h.S1.PreferServer = true
	h.S1.Suites = append([]uint16{b.suite}, filterSuites(func(x *suiteInfo) bool { return x.ID != b.suite })...)
	switch b.variant {
	case "plain":
	case "clicert":
		if si.Chacha {
			return h, false
		}
		h.C1.SNI, h.C1.Cert = "auth-a.test", "A"
	case "grade-c":
		if si.Chacha {
			return h, false
		}
		h.C1.SNI = "c.test"
	case "srvmax":
		if b.v >= vTLS12 {
			return h, false
		}
		h.S1.MaxV = b.v
		h.C1.MaxV = vTLS12
	}
	h.S2, h.C2 = h.S1, h.C1
	h.S2.Rules = c44Rules()
	return h, true
}

// c44Apply applies one server- or client-side change to the second
// connection of h. It returns false when the change does not apply.
func c44Apply(h *c44Hist, change string, b c44Base) bool {
	si := suiteByID(b.suite)
	v, suite := b.v, b.suite
	h.Changes = append(h.Changes, change)
	switch change {
	case "none":
	case "suite-removed-on-server":
		h.S2.Suites = filterSuites(func(x *suiteInfo) bool { return x.ID != suite })
	case "server-min-raised":
		if v >= vTLS12 {
			return false
		}
		h.S2.MinV = v + 1
		if h.S2.MaxV != 0 && h.S2.MaxV < h.S2.MinV {
			h.S2.MaxV = 0
		}
		h.C2.MaxV = vTLS12
	case "server-max-lowered":
		if v <= vTLS10 {
			return false
		}
		h.S2.MaxV = v - 1
		if h.S2.MinV > h.S2.MaxV {
			return false
		}
	case "client-max-raised":
		if h.C2.MaxV >= vTLS12 {
			return false
		}
		h.C2.MaxV = vTLS12
	case "server-max-raised":
		if h.S2.MaxV == 0 {
			return false
		}
		h.S2.MaxV = 0
	case "client-max-lowered":
		if v <= vTLS10 || si.TLS12 {
			return false
		}
		h.C2.MaxV = v - 1
		h.Raw2 = true // the standard client would not offer the session
	case "client-drops-suite":
		h.C2.Suites = []uint16{c44Alt(b.cert, suite)}
		h.Raw2 = true
	case "sni-to-client-auth-rule":
		h.C2.SNI = "auth-a.test"
		h.C2.Cert = ""
	case "sni-to-client-auth-rule-with-cert":
		h.C2.SNI, h.C2.Cert = "auth-a.test", "A"
	case "rule-ca-changed":
		x := h.S2.Rules["auth-a.test"]
		x.CA = "B"
		h.S2.Rules["auth-a.test"] = x
	case "sni-to-other-ca-rule":
		h.C2.SNI = "auth-b.test"
	case "sni-to-plain-rule":
		h.C2.SNI = "noauth.test"
	case "sni-to-grade-a":
		if si.Chacha {
			return false
		}
		h.C2.SNI = "a.test"
	case "sni-to-grade-aplus":
		if si.Chacha {
			return false
		}
		h.C2.SNI = "aplus.test"
	case "ticket-key-rotated":
		if h.SidRes {
			return false
		}
		h.S2.TicketKey = 4
	case "tickets-disabled":
		if h.SidRes {
			return false
		}
		h.S2.TicketsDisabled = true
	case "chacha-rule-off":
		if !si.Chacha {
			return false
		}
		x := h.S2.Rules["chacha.test"]
		x.Chacha = false
		h.S2.Rules["chacha.test"] = x
	case "certificate-type-changed":
		if h.S1.Cert == "rsa" {
			h.S2.Cert = "ecdsa"
		} else {
			h.S2.Cert = "rsa"
		}
	case "global-client-auth-required":
		h.S2.ClientAuth = int(bfe_tls.RequireAndVerifyClientCert)
		h.S2.GlobalCA = "A"
	case "cache-flushed":
		if !h.SidRes {
			return false
		}
		h.Flush = true
	case "cache-disabled":
		if !h.SidRes {
			return false
		}
		h.S2.CacheDisabled = true
	default:
		return false
	}
	return true
}

func needsClientCert(s *srvSpec, sni string) (need bool, ca string) {
	if r, ok := s.rule(sni); ok && r.ClientAuth {
		return true, r.CA
	}
	switch bfe_tls.ClientAuthType(s.ClientAuth) {
	case bfe_tls.RequireAndVerifyClientCert:
		return true, s.GlobalCA
	case bfe_tls.RequireAnyClientCert:
		return true, ""
	}
	return false, ""
}

func c44History(r *vkit.Run, h *c44Hist) {
	change := strings.Join(h.Changes, "+")
	key := fmt.Sprintf("hist|%s|%s|%s|%x|%x|%x|%v", change, h.Variant, h.S1.Cert, h.S1.MaxV, h.C1.MaxV, h.C1.Suites, h.SidRes)
	cache := newMemCache()
	cc := &captureCache{}
	r.WriteAhead(h)
	var first *pairResult
	if r.Try(func() interface{} { return h }, func() {
		first = runPair(buildServer(&h.S1, cache), buildClient(&h.C1, cc), []byte("first"), []byte("tsrif"))
	}) {
		return
	}
	if abnormal(r, first.Hung, first.Panic, h) {
		return
	}
	if !first.ok() || first.EchoErr != "" {
		r.Count("history_first_connection_failed", 1)
		r.CaseS(key, false)
		return
	}
	origV, origSuite := first.Srv.Version, first.Srv.CipherSuite
	sessionHasCert := len(first.Srv.PeerCertificates) > 0
	if h.Flush {
		cache.flush()
	}
	var f *srvFlight
	var second *pairResult
	var hello helloSpec
	if h.Raw2 {
		hello = helloSpec{RecVer: vTLS10, Vers: h.C2.MaxV, SNI: h.C2.SNI, Suites: h.C2.Suites, Curves: h.C2.Curves, Points: true, SigAlgs: h.C2.MaxV >= vTLS12}
		if h.SidRes {
			hello.SessionID = first.Flight.SessionID
			if len(hello.SessionID) == 0 {
				r.Count("history_no_session_id", 1)
				r.CaseS(key, false)
				return
			}
		} else {
			hello.TicketExt, hello.Ticket = true, cc.ticket()
			hello.SessionID = bytes.Repeat([]byte{0x33}, 16)
			if len(hello.Ticket) == 0 {
				r.Count("history_no_ticket", 1)
				r.CaseS(key, false)
				return
			}
		}
		var rr *rawResult
		if r.Try(func() interface{} { return h }, func() { rr = runRaw(buildServer(&h.S2, cache), hello.marshalRecord()) }) {
			return
		}
		if abnormal(r, rr.Hung, rr.Panic, h) {
			return
		}
		f = rr.Flight
	} else {
		if cc.ticket() == nil {
			r.Count("history_no_ticket", 1)
			r.CaseS(key, false)
			return
		}
		if r.Try(func() interface{} { return h }, func() {
			second = runPair(buildServer(&h.S2, cache), buildClient(&h.C2, cc), []byte("second"), []byte("dnoces"))
		}) {
			return
		}
		if abnormal(r, second.Hung, second.Panic, h) {
			return
		}
		f = second.Flight
	}
	r.CaseS(key, true)
	wit := map[string]interface{}{"case": h, "original_version": versName(origV), "original_suite": suiteName(origSuite), "session_has_client_cert": sessionHasCert, "second_server_flight": f}
	if second != nil {
		wit["second_client_err"], wit["second_server_err"] = errStr(second.CliErr), errStr(second.SrvErr)
		wit["second_client_resumed"], wit["second_server_resumed"] = second.Cli.DidResume, second.Srv.DidResume
	} else {
		wit["second_client_hello"] = hello
	}
	if f.ParseErr != "" {
		r.Violation("wire:unparsable-server-flight", f.ParseErr, wit)
		return
	}
	resumed := f.Abbreviated()
	if second != nil && (second.Srv.DidResume || second.Cli.DidResume) {
		resumed = true
	}
	if !resumed {
		r.Count("history_not_resumed", 1)
		if len(h.Changes) == 1 {
			r.Count("not_resumed:"+change, 1)
		} else {
			r.Count("not_resumed:(pair of changes)", 1)
		}
		if second != nil && second.ok() {
			r.Count("history_full_handshake_completed", 1)
		}
		return
	}
	r.Count("history_resumed", 1)
	if len(h.Changes) == 1 {
		r.Count("resumed:"+change, 1)
	} else {
		r.Count("resumed:(pair of changes)", 1)
	}
	sig := func(s string) string { return "resume:" + s }
	// honoured only if issued by this server with its current key / cache
	if !h.SidRes && (h.S2.TicketKey != h.S1.TicketKey || h.S2.TicketsDisabled) {
		r.Violation(sig("ticket-honoured-without-current-key"), "ticket honoured although the key was rotated or tickets are disabled", wit)
	}
	if h.SidRes && (h.Flush || h.S2.CacheDisabled) {
		r.Violation(sig("session-id-honoured-without-cache-entry"), "session id honoured although the cache was flushed or disabled", wit)
	}
	// original version and suite
	if f.Vers != origV {
		r.Violation(sig("version-differs-from-original"), fmt.Sprintf("session established at %s resumed with ServerHello version %s (client now offers up to %s)", versName(origV), versName(f.Vers), versName(h.C2.MaxV)), wit)
	}
	if f.Suite != origSuite {
		r.Violation(sig("suite-differs-from-original"), fmt.Sprintf("session established with %s resumed with %s", suiteName(origSuite), suiteName(f.Suite)), wit)
	}
	// both still mutually enabled
	cmax := h.C2.MaxV
	if cmax > vTLS12 {
		cmax = vTLS12
	}
	if origV > cmax {
		r.Violation(sig("version-above-client-offer"), fmt.Sprintf("resumed %s session although the client now offers at most %s", versName(origV), versName(h.C2.MaxV)), wit)
	}
	if origV < h.S2.minV() || origV > h.S2.maxV() {
		r.Violation(sig("version-outside-server-range"), fmt.Sprintf("resumed %s session although the server now enables [%s,%s]", versName(origV), versName(h.S2.minV()), versName(h.S2.maxV())), wit)
	} else if f.Vers == origV && !versionAllowedByGrade(&h.S2, h.C2.SNI, origV) {
		// (when the server answers with another version than the session's, the grade was applied to
		// that other version: same root cause as version-differs-from-original, not reported twice)
		r.Violation(sig("version-refused-by-rule-grade"), fmt.Sprintf("resumed %s session although the grade of the rule for %q forbids that version", versName(origV), h.C2.SNI), wit)
	}
	if !in16(h.C2.Suites, origSuite) {
		r.Violation(sig("suite-not-offered-by-client"), fmt.Sprintf("resumed %s which the client no longer offers", suiteName(origSuite)), wit)
	}
	if !suiteEnabled(&h.S2, h.C2.SNI, origSuite, origV, nil, false) {
		r.Violation(sig("suite-no-longer-enabled-on-server"), fmt.Sprintf("resumed %s which the server no longer enables for %q", suiteName(origSuite), h.C2.SNI), wit)
	}
	// client certificate requirement
	if need, ca := needsClientCert(&h.S2, h.C2.SNI); need {
		switch {
		case !sessionHasCert:
			r.Violation(sig("client-cert-requirement-skipped"), fmt.Sprintf("rule for %q requires a client certificate; the resumed session carried none", h.C2.SNI), wit)
		case ca != "" && !caVerifies(ca, first.Srv.PeerCertificates):
			if second == nil || second.ok() {
				r.Violation(sig("client-cert-of-other-ca-accepted"), fmt.Sprintf("rule for %q requires a certificate from CA %s; the session's certificate is from another CA", h.C2.SNI, ca), wit)
			} else {
				r.Count("resume_rejected_by_ca_check", 1)
			}
		}
	}
	if second != nil && second.ok() {
		r.Count("history_resumed_completed", 1)
		if !bytes.Equal(second.Srv.MasterSecret, first.Srv.MasterSecret) {
			r.Violation(sig("master-secret-differs"), "resumed connection does not use the original master secret", wit)
		}
		if second.Srv.Version != origV || second.Cli.Version != origV || second.Srv.CipherSuite != origSuite || second.Cli.CipherSuite != origSuite {
			r.Violation(sig("state-differs-from-original"), fmt.Sprintf("resumed connection reports %s/%s (server) %s/%s (client), original %s/%s", versName(second.Srv.Version), suiteName(second.Srv.CipherSuite), versName(second.Cli.Version), suiteName(second.Cli.CipherSuite), versName(origV), suiteName(origSuite)), wit)
		}
		if second.EchoErr != "" {
			r.Violation(sig("data-not-intact"), second.EchoErr, wit)
		}
	}
	if r.WantSample() && change != "none" {
		r.Sample(map[string]interface{}{"history": h, "resumed": true})
	}
}

func c44Bases(quick bool) (out []c44Base) {
	type b = c44Base
	var core []b
	if quick {
		core = []b{{"rsa", vTLS10, 0x0005, ""}, {"rsa", vTLS10, 0xc013, ""}, {"rsa", vTLS11, 0x002f, ""}, {"rsa", vTLS12, 0xc02f, ""}, {"rsa", vTLS12, 0xcca8, ""},
			{"ecdsa", vTLS10, 0xc009, ""}, {"ecdsa", vTLS11, 0xc007, ""}, {"ecdsa", vTLS12, 0xc02b, ""}, {"rsa", vTLS12, 0x0035, ""}}
	} else {
		for _, cb := range c42Combos() {
			if cb.Client == "std" {
				core = append(core, b{cb.Cert, cb.Vers, cb.Suite, ""})
			}
		}
	}
	for _, c := range core {
		for _, v := range c44Variants {
			c.variant = v
			out = append(out, c)
		}
	}
	return out
}

func c44(r *vkit.Run) {
	r.SetRule("forgery: per source session (cert, version, suite, with/without client certificate; ticket or session id) every single-bit flip, truncation at every length, extension/prepend by 1..32 bytes, dropped prefix, doubled, swapped halves, all-zero, random, valid credential of a server with another key/cache, seeded 2-bit flips, presented in a hand-written ClientHello (wire shows abbreviated vs full handshake); a sample is planted in the standard client's session cache end to end; session ids also against flushed / foreign / disabled caches. histories: 22 change kinds (suite removed, min raised, max lowered/raised, client max/min raised, client drops suite, SNI to client-auth rule, CA changed, key rotated, tickets/cache disabled or flushed, grade forbids RC4/version, chacha off, certificate type changed, global client auth) x base sessions x {ticket, session id}, second connection by the standard client sharing a key-agnostic session cache or by a hand-written ClientHello. Non-trivial = forged credential differs from the issued one / second connection attempted; distinct = (source, mutation) or (change, base)")
	getPKI()
	if r.Replay != "" {
		var w struct {
			Case map[string]interface{} `json:"case"`
		}
		if err := r.LoadReplay(&w); err != nil {
			r.Inconclusive(err.Error())
			return
		}
		r.SetMinDistinct(0)
		switch w.Case["kind"] {
		case "history":
			var x struct {
				Case c44Hist `json:"case"`
			}
			r.LoadReplay(&x)
			c44History(r, &x.Case)
		case "forgery":
			var x struct {
				Case c44Forgery `json:"case"`
			}
			r.LoadReplay(&x)
			ses, err := x.Case.Src.establish()
			if err != nil {
				r.Inconclusive(err.Error())
				return
			}
			c44ForgeryCheck(r, &x.Case.Src, ses, x.Case.Src.foreignCredential(), x.Case.Mut)
		default:
			r.Inconclusive(fmt.Sprintf("replay of kind %v is not supported: re-run the check with the recorded seed", w.Case["kind"]))
		}
		return
	}
	// Part 1
	srcs := []c44Source{
		{Cert: "rsa", Vers: vTLS12, Suite: 0x002f, Mode: "ticket"},
		{Cert: "rsa", Vers: vTLS10, Suite: 0x0005, Mode: "ticket"},
		{Cert: "ecdsa", Vers: vTLS12, Suite: 0xc02b, Mode: "ticket"},
		{Cert: "rsa", Vers: vTLS11, Suite: 0x0035, Mode: "sessionid"},
		{Cert: "ecdsa", Vers: vTLS12, Suite: 0xc009, Mode: "sessionid"},
	}
	if r.Quick() {
		srcs = append(srcs, c44Source{Cert: "rsa", Vers: vTLS12, Suite: 0x0035, CliCert: "A", Mode: "ticket"})
	} else {
		for _, b := range c44Bases(false) {
			if b.variant != "plain" {
				continue
			}
			srcs = append(srcs, c44Source{Cert: b.cert, Vers: b.v, Suite: b.suite, Mode: "ticket"})
			if b.v == vTLS12 {
				srcs = append(srcs, c44Source{Cert: b.cert, Vers: b.v, Suite: b.suite, Mode: "sessionid"})
				if si := suiteByID(b.suite); !si.Chacha { // the client-auth rule does not enable chacha
					srcs = append(srcs, c44Source{Cert: b.cert, Vers: b.v, Suite: b.suite, CliCert: "A", Mode: "ticket"})
				}
			}
		}
	}
	for i, s := range srcs {
		c44RunSource(r, i, s)
	}
	r.Count("forgery_sources", int64(len(srcs)))
	// Part 2
	var hs []c44Hist
	bases := c44Bases(r.Quick())
	for _, b := range bases {
		for _, sid := range []bool{false, true} {
			for _, ch := range c44Changes {
				h, ok := c44NewHist(b, sid)
				if ok && c44Apply(&h, ch, b) {
					hs = append(hs, h)
				}
			}
		}
	}
	// pairs of changes
	np := r.N(600, 15000)
	for i := 0; i < np; i++ {
		g := r.Rng("pair", i)
		b := bases[g.Intn(len(bases))]
		h, ok := c44NewHist(b, g.Bool())
		if !ok {
			continue
		}
		c1, c2 := c44Changes[1+g.Intn(len(c44Changes)-1)], c44Changes[1+g.Intn(len(c44Changes)-1)]
		if c1 == c2 || !c44Apply(&h, c1, b) || !c44Apply(&h, c2, b) {
			continue
		}
		if h.S2.MaxV != 0 && h.S2.MinV > h.S2.MaxV {
			continue
		}
		hs = append(hs, h)
	}
	vkit.Parallel(len(hs), workers, func(i int) { c44History(r, &hs[i]) })
	r.Count("histories", int64(len(hs)))
	if r.Counter("valid_credential_resumed") == 0 || r.Counter("std_client_resumed") == 0 || r.Counter("resumed:none") == 0 {
		r.Inconclusive("a valid credential was never resumed: the forgery oracle would be vacuous")
	}
	if r.Counter("forged_credential_full_handshake") == 0 || r.Counter("history_not_resumed") == 0 {
		r.Inconclusive("no forged credential / changed configuration led to a full handshake")
	}
}
