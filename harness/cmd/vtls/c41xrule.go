package main

import (
	"bytes"
	"fmt"
	"strings"
	"time"

	"verifharness/vkit"
)

// C41, cross-rule resumption ("xrule"): a session is established by a full
// handshake on a connection governed by one rule; the client then reconnects,
// offering that session (ticket through the standard client, ticket in a
// hand-written ClientHello, session id in a hand-written ClientHello), on a
// connection governed by ANOTHER rule: another SNI, the default (no-SNI) rule,
// or the same name after the rule was replaced. Ticket key and session cache are
// per server, rules are per connection. The statement of C41 quantifies over
// "every completed handshake", so the same model as for a fresh connection -
// admissible (version, suite, ALPN) computed from the client's offer and the
// configuration in force for THIS connection's rule - is applied to the second
// connection whether the server resumed or not.

type c41X struct {
	From   string  `json:"from"`   // rule of the first connection (ruleAxis name, "" = no rule)
	To     string  `json:"to"`     // rule of the second connection
	How    string  `json:"how"`    // "sni-sni" | "sni-default" | "default-sni" | "reload"
	Mode   string  `json:"mode"`   // "ticket-std" | "ticket-raw" | "sid-raw"
	Fam    string  `json:"fam"`    // suite family the first handshake is steered to: "chacha" | "rc4" | "other"
	Target uint16  `json:"target"` // the steered suite
	Srv2   srvSpec `json:"srv2"`   // configuration in force for the second connection
	Cli2   cliSpec `json:"cli2"`
}

var (
	c41XHows  = []string{"sni-sni", "sni-default", "default-sni", "reload"}
	c41XModes = []string{"ticket-std", "ticket-raw", "sid-raw"}
)

func ruleLabel(r string) string {
	if r == "" {
		return "none"
	}
	return r
}

func (x *c41X) pair() string { return ruleLabel(x.From) + "-to-" + ruleLabel(x.To) }

func suiteFamily(id uint16) string {
	si := suiteByID(id)
	switch {
	case si == nil:
		return "unknown"
	case si.Chacha:
		return "chacha"
	case si.RC4:
		return "rc4"
	}
	return "other"
}

func copyRules(m map[string]ruleSpec) map[string]ruleSpec {
	o := map[string]ruleSpec{}
	for k, v := range m {
		o[k] = v
	}
	return o
}

// c41XGen draws one cross-rule case of the cell (from, to, how, mode, fam).
func c41XGen(g *vkit.Rand, from, to, how, mode, fam string) c41Case {
	c := c41Case{Kind: "xrule"}
	x := &c41X{From: from, To: to, How: how, Mode: mode, Fam: fam}
	c.X = x
	s := &c.Srv
	s.Cert = []string{"rsa", "ecdsa"}[g.Intn(2)]
	rules := c41Rules(g)
	specOf := func(rule string) (ruleSpec, bool) {
		if rule == "" {
			return ruleSpec{}, false
		}
		return rules[c41RuleNames[rule]], true
	}
	s.Rules = rules
	s.NextProtos = alpnLists[g.Intn(srvAlpnN)]
	s.TicketKey = 5
	if mode == "sid-raw" {
		s.TicketsDisabled, s.UseCache = true, true
	}
	// versions
	cmax := []uint16{vTLS10, vTLS11, vTLS12, vTLS12}[g.Intn(4)]
	sv := [][2]uint16{{0, 0}, {0, 0}, {0, vTLS12}, {vTLS10, 0}, {0, vTLS11}, {0, vTLS10}, {vTLS11, vTLS12}}[g.Intn(7)]
	if fam == "chacha" || strings.HasPrefix(from, "A+") {
		// chacha20 suites and grade A+ need TLS 1.2 for the first handshake to succeed
		cmax = vTLS12
		sv = [][2]uint16{{0, 0}, {0, vTLS12}, {vTLS10, 0}, {vTLS12, 0}}[g.Intn(4)]
	}
	s.MinV, s.MaxV = sv[0], sv[1]
	// the suite the first handshake is steered to
	var pool []uint16
	switch fam {
	case "chacha":
		pool = filterSuites(func(si *suiteInfo) bool { return si.Chacha && si.ECDSA == (s.Cert == "ecdsa") })
	case "rc4":
		pool = filterSuites(func(si *suiteInfo) bool { return si.RC4 && si.ECDSA == (s.Cert == "ecdsa") })
	default:
		pool = filterSuites(func(si *suiteInfo) bool {
			return si.Std && !si.RC4 && !si.Chacha && si.ECDSA == (s.Cert == "ecdsa") && !(si.TLS12 && cmax < vTLS12)
		})
	}
	x.Target = pool[g.Intn(len(pool))]
	rest := func(all []uint16) []uint16 {
		var o []uint16
		for _, id := range pickSubset(g, all, 2, 3) {
			if id != x.Target {
				o = append(o, id)
			}
		}
		return o
	}
	s.PreferServer = g.Bool()
	if s.PreferServer {
		s.Suites = append([]uint16{x.Target}, rest(allSuiteIDs())...)
	} else if g.Bool() {
		s.Suites = append(rest(allSuiteIDs()), x.Target)
	}
	s.Curves = srvCurveAxis[g.Intn(len(srvCurveAxis))]
	cl := &c.Cli
	cl.MinV, cl.MaxV = vTLS10, cmax
	cl.Suites = append([]uint16{x.Target}, rest(stdSuiteIDs())...)
	cl.Curves = cliCurveAxis[g.Intn(len(cliCurveAxis))]
	if g.Chance(3, 4) && !in16(cl.Curves, 23) {
		cl.Curves = append(append([]uint16{}, cl.Curves...), 23)
	}
	cl.ALPN = alpnLists[g.Intn(len(alpnLists))]
	// how the two connections get their rules
	x.Srv2 = *s
	x.Srv2.Rules = copyRules(rules)
	name1, name2 := c41RuleNames[from], c41RuleNames[to]
	switch how {
	case "sni-sni":
	case "sni-default":
		name2 = ""
		if sp, ok := specOf(to); ok {
			s.Rules[""] = sp
			x.Srv2.Rules[""] = sp
		}
	case "default-sni":
		name1 = ""
		if sp, ok := specOf(from); ok {
			s.Rules[""] = sp
			x.Srv2.Rules[""] = sp
		}
	case "reload":
		// same name; the rule behind it is replaced between the two connections
		name2 = name1
		if sp, ok := specOf(to); ok {
			x.Srv2.Rules[name1] = sp
		} else {
			delete(x.Srv2.Rules, name1)
		}
	}
	cl.SNI = name1
	x.Cli2 = *cl
	x.Cli2.SNI = name2
	if mode != "ticket-std" {
		x.Cli2.Raw = true
	}
	return c
}

func c41XKey(c *c41Case) string {
	x := c.X
	var rk []string
	for _, p := range []struct {
		s   *srvSpec
		sni string
	}{{&c.Srv, c.Cli.SNI}, {&x.Srv2, x.Cli2.SNI}} {
		if r, ok := p.s.rule(p.sni); ok {
			rk = append(rk, r.Grade, fmt.Sprint(r.Chacha), strings.Join(r.NextProtos, "/"))
		} else {
			rk = append(rk, "-")
		}
	}
	s, cl := &c.Srv, &c.Cli
	return fmt.Sprintf("xrule|%s|%s|%s|%s|%s|%04x|%s|%x-%x|%s|%v|%v|%v|%s|%v||%x-%x|%s|%v|%s|%q|%q", x.From, x.To, x.How, x.Mode, x.Fam, x.Target,
		s.Cert, s.MinV, s.MaxV, suiteListKey(s.Suites), s.Suites == nil, s.PreferServer, s.Curves, strings.Join(s.NextProtos, "/"), rk,
		cl.MinV, cl.MaxV, suiteListKey(cl.Suites), cl.Curves, strings.Join(cl.ALPN, "/"), cl.SNI, x.Cli2.SNI)
}

// xsig renames a violation found on a RESUMED second connection of a cross-rule
// case, so that the signature names the shape (resumed, from which rule to which).
func (c *c41Case) xsig(f *srvFlight, sig string) string {
	if c.X == nil || c.orig == nil || f == nil || !f.Abbreviated() {
		return sig
	}
	switch {
	case sig == "suite:not-offered-by-client":
		return "resumed:suite-not-offered-by-client:" + c.X.pair()
	case strings.HasPrefix(sig, "suite:"):
		return "resumed:suite-not-enabled-for-rule:" + strings.TrimPrefix(sig, "suite:") + ":" + c.X.pair()
	case strings.HasPrefix(sig, "version:"):
		return "resumed:version-" + strings.TrimPrefix(sig, "version:") + ":" + c.X.pair()
	case strings.HasPrefix(sig, "alpn:"):
		return "resumed:" + sig + ":" + c.X.pair()
	case strings.HasPrefix(sig, "negotiation:"):
		return "resumed:no-common-parameters-for-rule:" + c.X.pair()
	}
	return sig
}

// witnessCase is what goes into a witness as "case": always the complete,
// replayable case (the second connection is judged through a derived view).
func (c *c41Case) witnessCase() *c41Case {
	if c.orig != nil {
		return c.orig
	}
	return c
}

func c41XRule(r *vkit.Run, c *c41Case, g *vkit.Rand) {
	x := c.X
	key := c41XKey(c)
	shape := x.Mode + ":" + x.How
	m1 := negotiate(&c.Srv, &c.Cli)
	var cache *memCache
	if c.Srv.UseCache {
		cache = newMemCache()
	}
	cc := &captureCache{}
	toSrv, toCli := payload(g, 2048), payload(g, 2048)
	r.WriteAhead(c)
	var first *pairResult
	if r.Try(func() interface{} { return c }, func() {
		first = runPair(buildServer(&c.Srv, cache), buildClient(&c.Cli, cc), toSrv, toCli)
	}) {
		return
	}
	if abnormal(r, first.Hung, first.Panic, c) {
		return
	}
	c41CheckConn(r, c, &m1, first, "first", toSrv, toCli)
	r.Count("xrule_cases", 1)
	if !first.ok() || first.EchoErr != "" {
		r.Count("xrule_no_session:first-handshake-refused", 1)
		r.CaseS(key, false)
		return
	}
	v1, suite1 := first.Srv.Version, first.Srv.CipherSuite
	fam1 := suiteFamily(suite1)
	r.Count("xrule_session_family:"+fam1, 1)
	// the credential
	var ticket, sid []byte
	if x.Mode == "sid-raw" {
		sid = first.Flight.SessionID
		if len(sid) == 0 {
			r.Count("xrule_no_session:no-session-id", 1)
			r.CaseS(key, false)
			return
		}
	} else {
		ticket = cc.ticket()
		if len(ticket) == 0 {
			r.Count("xrule_no_session:no-ticket", 1)
			r.CaseS(key, false)
			return
		}
	}
	// is the session still admissible for the second connection's rule? (shape accounting only;
	// the verdict comes from the model applied to what the second connection negotiated)
	cmax2 := x.Cli2.MaxV
	if cmax2 > vTLS12 {
		cmax2 = vTLS12
	}
	versOK := v1 >= x.Srv2.minV() && v1 <= x.Srv2.maxV() && v1 <= cmax2 && versionAllowedByGrade(&x.Srv2, x.Cli2.SNI, v1)
	suiteOK := suiteEnabled(&x.Srv2, x.Cli2.SNI, suite1, v1, x.Cli2.Curves, true)
	admissible := versOK && suiteOK
	// the second connection, judged through a view whose configurations are those in force for it
	c2 := *c
	c2.Srv, c2.Cli = x.Srv2, x.Cli2
	c2.orig = c
	m2 := negotiate(&c2.Srv, &c2.Cli)
	var f *srvFlight
	resumed, completed := false, false
	if x.Mode == "ticket-std" {
		toSrv2, toCli2 := payload(g, 2048), payload(g, 2048)
		var second *pairResult
		if r.Try(func() interface{} { return c }, func() {
			second = runPair(buildServer(&x.Srv2, cache), buildClient(&x.Cli2, cc), toSrv2, toCli2)
		}) {
			return
		}
		if abnormal(r, second.Hung, second.Panic, c) {
			return
		}
		c41CheckConn(r, &c2, &m2, second, "second", toSrv2, toCli2)
		f = second.Flight
		completed = second.ok()
		resumed = f.Abbreviated() || (completed && (second.Srv.DidResume || second.Cli.DidResume))
		if completed && resumed {
			wit := map[string]interface{}{"case": c, "phase": "second", "server_hello": f, "first_version": versName(v1), "first_suite": suiteName(suite1),
				"second_version": versName(second.Srv.Version), "second_suite": suiteName(second.Srv.CipherSuite)}
			if !bytes.Equal(second.Srv.MasterSecret, first.Srv.MasterSecret) {
				// not judged (C44's clause); recorded so that "resumed" in the counters means a real resumption
				r.Count("xrule_resumed_with_other_master_secret", 1)
			}
			if second.Srv.DidResume != f.Abbreviated() {
				r.Violation("agree:resumed-vs-wire:"+x.pair(), fmt.Sprintf("server reports DidResume=%v, the wire shows abbreviated=%v", second.Srv.DidResume, f.Abbreviated()), wit)
			}
		}
	} else {
		hello := helloSpec{RecVer: vTLS10, Vers: x.Cli2.MaxV, SNI: x.Cli2.SNI, Suites: x.Cli2.Suites, Curves: x.Cli2.Curves, Points: true, SigAlgs: x.Cli2.MaxV >= vTLS12, ALPN: x.Cli2.ALPN}
		if x.Mode == "sid-raw" {
			hello.SessionID = sid
		} else {
			hello.TicketExt, hello.Ticket = true, ticket
			hello.SessionID = bytes.Repeat([]byte{0x41}, 16)
		}
		var rr *rawResult
		if r.Try(func() interface{} { return c }, func() { rr = runRaw(buildServer(&x.Srv2, cache), hello.marshalRecord()) }) {
			return
		}
		if abnormal(r, rr.Hung, rr.Panic, c) {
			return
		}
		f = rr.Flight
		res := &pairResult{SrvErr: rr.SrvErr, Flight: f}
		wit := map[string]interface{}{"case": c, "phase": "second", "client_hello": hello, "server_flight": f, "server_err": errStr(rr.SrvErr),
			"first_version": versName(v1), "first_suite": suiteName(suite1), "model_ok": m2.OK, "model_why": m2.Why, "model_usable": sortedKeys(m2.Usable), "model_version": m2.Vers}
		if f.ParseErr != "" {
			r.Violation("wire:unparsable-server-flight", f.ParseErr, wit)
			return
		}
		reported := c41CheckWire(r, &c2, &m2, f, res, "second")
		resumed = f.Abbreviated()
		switch {
		case f.GotHello && !m2.OK && !reported:
			r.Violation(c2.xsig(f, "negotiation:server-hello-without-common-parameters"), "server answered with a ServerHello although the second connection's configurations share no parameters: "+m2.Why, wit)
		case !f.GotHello && m2.OK && !reported:
			r.Violation(fmt.Sprintf("availability:xrule:server-alert-%d", f.AlertDesc), fmt.Sprintf("server refused the second ClientHello although version %s and suites %v are mutually enabled for its rule: %v", versName(m2.Vers), sortedKeys(m2.Usable), rr.SrvErr), wit)
		}
		completed = f.GotHello
	}
	r.CaseS(key, true)
	r.Count("xrule_second:"+shape, 1)
	outcome := "refused"
	switch {
	case resumed:
		outcome = "resumed"
		r.Count("xrule_resumed:"+x.Mode, 1)
		r.Count("xrule_resumed_how:"+x.How, 1)
		if x.From != x.To {
			r.Count("xrule_resumed_under_other_rule:"+x.Mode, 1)
		}
	case completed:
		outcome = "full"
	}
	r.Count("xrule_outcome:"+outcome, 1)
	if !admissible {
		why := fam1 + "-suite"
		if !versOK {
			why = "version"
		}
		r.Count("xrule_session_inadmissible_under_second_rule:"+x.Mode+":"+why, 1)
		r.Count("xrule_inadmissible_outcome:"+outcome, 1)
		if r.WantSample() && !resumed && completed && fam1 != "other" && x.From != x.To {
			r.Sample(map[string]interface{}{"xrule": c, "session": versName(v1) + "/" + suiteName(suite1), "second_connection": "full handshake", "second_suite": suiteName(f.Suite)})
		}
	}
}

// c41XFamsFor: the families the first connection can be steered to under rule
// `from` with the standard client (TLS >= 1.0): chacha20 needs Rule.Chacha20,
// RC4 needs grade C (or no rule). Draws for a family the first rule does not
// enable could never establish such a session and are not generated; the
// families that make the session inadmissible under other rules get two draws.
func c41XFamsFor(from string) []string {
	var o []string
	if strings.Contains(from, "chacha") {
		o = append(o, "chacha", "chacha")
	}
	if from == "" || strings.HasPrefix(from, "C") {
		o = append(o, "rc4", "rc4")
	}
	return append(o, "other")
}

func c41XCases(r *vkit.Run) []c41Case {
	per := r.N(2, 16)
	var out []c41Case
	cell := 0
	for _, from := range ruleAxis {
		for _, to := range ruleAxis {
			for _, how := range c41XHows {
				for _, mode := range c41XModes {
					for _, fam := range c41XFamsFor(from) {
						for k := 0; k < per; k++ {
							out = append(out, c41XGen(r.Rng("xrule", cell, k), from, to, how, mode, fam))
						}
						cell++
					}
				}
			}
		}
	}
	return out
}

func c41XAll(r *vkit.Run) {
	cs := c41XCases(r)
	t0 := time.Now()
	defer func() { r.Extra("xrule_wall_s", time.Since(t0).Seconds()) }() // evidence only, never judged
	vkit.Parallel(len(cs), workers, func(i int) { c41XRule(r, &cs[i], r.Rng("xrule-payload", i)) })
	for _, mode := range c41XModes {
		if r.Counter("xrule_resumed:"+mode) == 0 {
			r.Inconclusive("cross-rule workload: no second connection was resumed in mode " + mode + " (the resumed-handshake oracle would be vacuous)")
		}
		if r.Counter("xrule_resumed_under_other_rule:"+mode) == 0 {
			r.Inconclusive("cross-rule workload: no session was resumed under a different rule in mode " + mode)
		}
		for _, why := range []string{"chacha-suite", "rc4-suite", "version"} {
			if r.Counter("xrule_session_inadmissible_under_second_rule:"+mode+":"+why) == 0 {
				r.Inconclusive("cross-rule workload: shape never occurred: session (" + why + ") not admissible under the second connection's rule, mode " + mode)
			}
		}
	}
	for _, how := range c41XHows {
		if r.Counter("xrule_resumed_how:"+how) == 0 {
			r.Inconclusive("cross-rule workload: no resumption observed for rule selection " + how)
		}
	}
	if r.Counter("xrule_inadmissible_outcome:full") == 0 {
		r.Inconclusive("cross-rule workload: an inadmissible session was never followed by a full handshake")
	}
}
