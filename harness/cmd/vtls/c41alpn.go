package main

import (
	"fmt"
	"strings"

	"verifharness/vkit"
)

// C41, ALPN driver ("alpn"): the clause "an ALPN protocol both offered" over
// the space the other drivers only brush - client lists with protocols the
// server does not know in first / middle / last position, "h2" as the only
// common protocol or together with another common one in both orders - on
// connections where HTTP/2 may and may not be used (RFC 7540 9.2: TLS 1.2 or
// higher; 9.2.2 / Appendix A: not on a black-listed suite), because bfe
// withdraws "h2" on such connections and selects AGAIN, i.e. there is a second
// selection whose result must satisfy the same clause.
//
// Model (from the two lists alone): the protocol named in the ServerHello is a
// member of the client's list AND of the server's list in force for this
// connection (the rule's list if a rule matches the SNI, else the global one),
// or no protocol is named; "h2" is named only on an eligible connection. That
// the server MUST select when a common protocol exists is not demanded (the
// statement does not say so; outcomes are counted).

type c41AlpnConn struct {
	Class string // eligibility class
	Cert  string
	V     uint16
	Suite uint16
	Raw   bool // hand-written ClientHello (reaches SSLv3); ServerHello only
}

// h2Eligible is RFC 7540 9.2 + Appendix A for the suites of suiteTable: TLS 1.2
// and an ephemeral key exchange with an AEAD cipher.
func h2Eligible(vers, suite uint16) (bool, string) {
	if vers < vTLS12 {
		return false, "below-tls12"
	}
	si := suiteByID(suite)
	if si == nil || !(si.ECDHE && si.TLS12) {
		return false, "blacklisted-suite"
	}
	return true, ""
}

// c41AlpnConns: every version below TLS 1.2 with suites of each family, TLS 1.2
// with EVERY black-listed suite of the table, TLS 1.2 with every eligible suite.
func c41AlpnConns() []c41AlpnConn {
	var o []c41AlpnConn
	add := func(class, cert string, v uint16, raw bool, suites ...uint16) {
		for _, s := range suites {
			o = append(o, c41AlpnConn{Class: class, Cert: cert, V: v, Suite: s, Raw: raw})
		}
	}
	add("tls10", "rsa", vTLS10, false, 0x0005, 0x000a, 0x002f, 0xc011, 0xc013)
	add("tls10", "ecdsa", vTLS10, false, 0xc007, 0xc009)
	add("tls11", "rsa", vTLS11, false, 0x0005, 0x0035, 0xc012, 0xc014)
	add("tls11", "ecdsa", vTLS11, false, 0xc007, 0xc00a)
	add("tls12-static-rsa-cbc", "rsa", vTLS12, false, 0x002f, 0x0035)
	add("tls12-3des", "rsa", vTLS12, false, 0x000a, 0xc012)
	add("tls12-rc4", "rsa", vTLS12, false, 0x0005, 0xc011)
	add("tls12-rc4", "ecdsa", vTLS12, false, 0xc007)
	add("tls12-ecdhe-cbc", "rsa", vTLS12, false, 0xc013, 0xc014)
	add("tls12-ecdhe-cbc", "ecdsa", vTLS12, false, 0xc009, 0xc00a)
	add("tls12-eligible-gcm", "rsa", vTLS12, false, 0xc02f)
	add("tls12-eligible-gcm", "ecdsa", vTLS12, false, 0xc02b)
	add("tls12-eligible-chacha", "rsa", vTLS12, false, 0xcca8)
	add("tls12-eligible-chacha", "ecdsa", vTLS12, false, 0xcca9)
	// hand-written hellos: the same on the wire level, plus SSLv3
	add("raw-ssl3", "rsa", vSSL30, true, 0x0005, 0x002f)
	add("raw-tls10", "rsa", vTLS10, true, 0x002f, 0xc013)
	add("raw-tls11", "ecdsa", vTLS11, true, 0xc009)
	add("raw-tls12-blacklisted", "rsa", vTLS12, true, 0x002f, 0xc013, 0x0005)
	add("raw-tls12-eligible", "rsa", vTLS12, true, 0xc02f)
	return o
}

const (
	alpnUnk  = "acme-proto" // never in a server list
	alpnUnk2 = "zz-other/9"
)

var c41AlpnSrvLists = [][]string{
	{"h2"},
	{"h2", "http/1.1"},
	{"http/1.1", "h2"},
	{"h2", "spdy/3.1", "http/1.1"},
	{"spdy/3.1", "h2"},
	{"http/1.1"}, // control: h2 not offered by the server
}

var c41AlpnCliLists = [][]string{
	{"h2"},
	{"h2", "http/1.1"},
	{"http/1.1", "h2"},
	{alpnUnk, "h2"},
	{alpnUnk, "h2", "http/1.1"},
	{alpnUnk, "http/1.1", "h2"},
	{alpnUnk},
	{"h2", alpnUnk, "http/1.1"},
	{"http/1.1", alpnUnk, "h2"},
	{"h2", alpnUnk},
	{"h2", "http/1.1", alpnUnk},
	{"http/1.1", "h2", alpnUnk},
	{alpnUnk, "h2", alpnUnk2},
	{alpnUnk2, alpnUnk, "h2"},
	{alpnUnk, "http/1.1"},
	{"http/1.1"},
}

// c41AlpnGen builds the case: the list under test is the rule's list
// (placement "rule": SNI chacha.test, grade C with chacha20) or the global one
// (placement "global": an SNI no rule matches); the other list is a decoy that
// shares nothing with any client list.
func c41AlpnGen(g *vkit.Rand, cn c41AlpnConn, srvList, cliList []string, placement string) c41Case {
	c := c41Case{Kind: "alpn"}
	s := &c.Srv
	s.Cert = cn.Cert
	s.TicketKey = 7
	decoy := []string{"decoy/1", "decoy/2"}
	s.Rules = map[string]ruleSpec{"chacha.test": {Grade: "C", Chacha: true, NextProtos: decoy}, "a.test": {Grade: "A", NextProtos: decoy}}
	s.NextProtos = decoy
	cl := &c.Cli
	if placement == "rule" {
		s.Rules["chacha.test"] = ruleSpec{Grade: "C", Chacha: true, NextProtos: srvList}
		cl.SNI = "chacha.test"
	} else {
		s.NextProtos = srvList
		cl.SNI = "plain.test"
	}
	// server version range: always contains the client's version
	switch g.Intn(3) {
	case 0:
		s.MinV, s.MaxV = 0, 0
	case 1:
		s.MinV, s.MaxV = 0, vTLS12
	default:
		s.MinV, s.MaxV = 0, cn.V
		if cn.V == vSSL30 {
			s.MaxV = vTLS10
		}
	}
	if g.Bool() {
		s.Suites = nil
	} else {
		s.Suites = append([]uint16{cn.Suite}, pickSubset(g, allSuiteIDs(), 1, 2)...)
	}
	s.PreferServer = g.Bool()
	cl.MinV, cl.MaxV = cn.V, cn.V
	cl.Suites = []uint16{cn.Suite}
	cl.Curves = []uint16{23, 29}
	cl.ALPN = cliList
	cl.Raw = cn.Raw
	if !cn.Raw {
		c.Resume = g.Chance(1, 3)
	}
	return c
}

func strsCommon(cli, srv []string) (common []string) {
	for _, p := range cli {
		if inStr(srv, p) && !inStr(common, p) {
			common = append(common, p)
		}
	}
	return
}

// c41AlpnShape names the case for the shape counters: where the client list has
// protocols the server does not offer, what the two lists share, eligibility.
func c41AlpnShape(cli, srv []string, vers, suite uint16) (pos []string, common, elig string) {
	for i, p := range cli {
		if inStr(srv, p) {
			continue
		}
		switch {
		case i == 0:
			pos = append(pos, "first")
		case i == len(cli)-1:
			pos = append(pos, "last")
		default:
			pos = append(pos, "middle")
		}
	}
	if len(pos) == 0 {
		pos = []string{"none"}
	}
	cm := strsCommon(cli, srv)
	switch {
	case len(cm) == 0:
		common = "nothing-common"
	case !inStr(cm, "h2"):
		common = "other-common-only"
	case len(cm) == 1:
		common = "h2-only-common"
	case cm[0] == "h2":
		common = "h2-then-other-common"
	default:
		common = "other-then-h2-common"
	}
	ok, why := h2Eligible(vers, suite)
	elig = "eligible"
	if !ok {
		elig = "ineligible-" + why
	}
	return
}

func c41AlpnAccount(r *vkit.Run, c *c41Case, f *srvFlight, resumed bool) {
	if f == nil || !f.GotHello {
		return
	}
	protos := c.Srv.protos(c.Cli.SNI)
	pos, common, elig := c41AlpnShape(c.Cli.ALPN, protos, f.Vers, f.Suite)
	for _, p := range pos {
		r.Count("alpn_shape:unknown-"+p+"/"+common+"/"+elig, 1)
	}
	outcome := ""
	h2Common := strings.Contains(common, "h2")
	switch {
	case f.HasALPN && f.ALPN == "h2":
		outcome = "h2-selected"
	case f.HasALPN && h2Common && elig != "eligible":
		outcome = "h2-withdrawn-other-selected"
	case f.HasALPN:
		outcome = "other-selected"
	case h2Common && elig != "eligible" && common == "h2-only-common":
		outcome = "h2-withdrawn-none-selected"
	case common == "nothing-common":
		outcome = "none-selected-nothing-common"
	default:
		outcome = "none-selected-despite-common-protocol" // not judged (see the header comment)
	}
	r.Count("alpn_outcome:"+outcome, 1)
	if resumed {
		r.Count("alpn_outcome_on_resumed_connection:"+outcome, 1)
	}
	if pos[0] == "first" && common == "h2-only-common" && elig != "eligible" {
		r.Count("alpn_unknown_first_h2_only_common_ineligible", 1)
	}
}

func c41AlpnKey(c *c41Case) string { return "alpn|" + c41Key(c) }

// c41Alpn runs one case: standard client (completed handshake, data both ways,
// optionally a second, resumed connection) or a hand-written ClientHello.
func c41Alpn(r *vkit.Run, c *c41Case, g *vkit.Rand) {
	if c.Cli.Raw {
		m := negotiate(&c.Srv, &c.Cli)
		cl := &c.Cli
		hello := helloSpec{RecVer: vTLS10, Vers: cl.MaxV, SNI: cl.SNI, Suites: cl.Suites, Curves: cl.Curves, Points: true, SigAlgs: cl.MaxV >= vTLS12, ALPN: cl.ALPN}
		if cl.MaxV == vSSL30 {
			hello.RecVer = vSSL30
		}
		r.WriteAhead(c)
		var rr *rawResult
		if r.Try(func() interface{} { return c }, func() { rr = runRaw(buildServer(&c.Srv, nil), hello.marshalRecord()) }) {
			return
		}
		if abnormal(r, rr.Hung, rr.Panic, c) {
			return
		}
		f := rr.Flight
		res := &pairResult{SrvErr: rr.SrvErr, Flight: f}
		wit := map[string]interface{}{"case": c, "client_hello": hello, "server_flight": f, "server_err": errStr(rr.SrvErr), "model_ok": m.OK, "model_why": m.Why}
		r.CaseS(c41AlpnKey(c), f.GotHello)
		if f.ParseErr != "" {
			r.Violation("wire:unparsable-server-flight", f.ParseErr, wit)
			return
		}
		reported := c41CheckWire(r, c, &m, f, res, "raw")
		switch {
		case f.GotHello && !m.OK && !reported:
			r.Violation("negotiation:server-hello-without-common-parameters", "server answered with a ServerHello although the configurations share no parameters: "+m.Why, wit)
		case !f.GotHello && m.OK && !reported:
			r.Violation(fmt.Sprintf("availability:raw:server-alert-%d", f.AlertDesc), fmt.Sprintf("server refused a ClientHello although version %s and suites %v are mutually enabled: %v", versName(m.Vers), sortedKeys(m.Usable), rr.SrvErr), wit)
		}
		r.Count("alpn_cases_raw", 1)
		c41AlpnAccount(r, c, f, false)
		return
	}
	m := negotiate(&c.Srv, &c.Cli)
	scfg := buildServer(&c.Srv, nil)
	var cache *captureCache
	if c.Resume {
		cache = &captureCache{}
	}
	ccfg := buildClient(&c.Cli, nil)
	if cache != nil {
		ccfg.ClientSessionCache = cache
	}
	toSrv, toCli := payload(g, 512), payload(g, 512)
	r.WriteAhead(c)
	var res *pairResult
	if r.Try(func() interface{} { return c }, func() { res = runPair(scfg, ccfg, toSrv, toCli) }) {
		return
	}
	if abnormal(r, res.Hung, res.Panic, c) {
		return
	}
	c41CheckConn(r, c, &m, res, "first", toSrv, toCli)
	r.Count("alpn_cases_std", 1)
	c41AlpnAccount(r, c, res.Flight, false)
	r.CaseS(c41AlpnKey(c), res.ok())
	if c.Resume && res.ok() {
		ccfg2 := buildClient(&c.Cli, nil)
		ccfg2.ClientSessionCache = cache
		toSrv2, toCli2 := payload(g, 512), payload(g, 512)
		var res2 *pairResult
		if r.Try(func() interface{} { return c }, func() { res2 = runPair(scfg, ccfg2, toSrv2, toCli2) }) {
			return
		}
		if abnormal(r, res2.Hung, res2.Panic, c) {
			return
		}
		c41CheckConn(r, c, &m, res2, "second", toSrv2, toCli2)
		c41AlpnAccount(r, c, res2.Flight, res2.Flight != nil && res2.Flight.Abbreviated())
	}
	if r.WantSample() && res.ok() && len(c.Cli.ALPN) >= 2 && !inStr(c.Srv.protos(c.Cli.SNI), c.Cli.ALPN[0]) {
		r.Sample(map[string]interface{}{"alpn_case": c, "version": versName(res.Srv.Version), "suite": suiteName(res.Srv.CipherSuite), "alpn": res.Srv.NegotiatedProtocol})
	}
}

// c41AlpnCases: quick = full product eligibility class x server list x client
// list with ONE seeded concrete (certificate, version, suite) of the class and
// a seeded placement; thorough = every concrete connection shape x both
// placements x several draws of the remaining server axes.
func c41AlpnCases(r *vkit.Run) []c41Case {
	conns := c41AlpnConns()
	byClass := map[string][]c41AlpnConn{}
	var classes []string
	for _, cn := range conns {
		if _, ok := byClass[cn.Class]; !ok {
			classes = append(classes, cn.Class)
		}
		byClass[cn.Class] = append(byClass[cn.Class], cn)
	}
	var out []c41Case
	cell := 0
	for _, class := range classes {
		for si, sl := range c41AlpnSrvLists {
			for ci, cl := range c41AlpnCliLists {
				cell++
				if r.Quick() {
					g := r.Rng("alpn", cell)
					cn := byClass[class][g.Intn(len(byClass[class]))]
					placement := []string{"rule", "global"}[g.Intn(2)]
					if si == 0 && ci == 3 {
						placement = []string{"rule", "global"}[cell%2] // the withdrawn-h2 / unknown-first cell under both placements
					}
					if suiteByID(cn.Suite).Chacha {
						placement = "rule" // chacha20 needs a rule that enables it
					}
					out = append(out, c41AlpnGen(g, cn, sl, cl, placement))
					continue
				}
				for k, cn := range byClass[class] {
					for _, placement := range []string{"rule", "global"} {
						if suiteByID(cn.Suite).Chacha && placement == "global" {
							continue
						}
						for d := 0; d < 3; d++ {
							out = append(out, c41AlpnGen(r.Rng("alpn", cell, k, d, len(placement)), cn, sl, cl, placement))
						}
					}
				}
			}
		}
	}
	return out
}

func c41AlpnAll(r *vkit.Run) {
	cs := c41AlpnCases(r)
	r.Count("alpn_cases", int64(len(cs)))
	vkit.Parallel(len(cs), workers, func(i int) { c41Alpn(r, &cs[i], r.Rng("alpn-payload", i)) })
	for _, pos := range []string{"first", "middle", "last", "none"} {
		for _, common := range []string{"h2-only-common", "h2-then-other-common", "other-then-h2-common"} {
			for _, elig := range []string{"eligible", "ineligible-below-tls12", "ineligible-blacklisted-suite"} {
				k := "alpn_shape:unknown-" + pos + "/" + common + "/" + elig
				if r.Counter(k) == 0 {
					r.Inconclusive("ALPN workload: shape never reached a ServerHello: " + k)
				}
			}
		}
	}
	for _, oc := range []string{"h2-selected", "h2-withdrawn-other-selected", "h2-withdrawn-none-selected", "none-selected-nothing-common", "other-selected"} {
		if r.Counter("alpn_outcome:"+oc) == 0 {
			r.Inconclusive("ALPN workload: outcome never observed: " + oc)
		}
	}
	if r.Counter("alpn_outcome_on_resumed_connection:h2-withdrawn-other-selected")+r.Counter("alpn_outcome_on_resumed_connection:h2-withdrawn-none-selected") == 0 {
		r.Inconclusive("ALPN workload: h2 was never withdrawn on a resumed connection")
	}
	if r.Counter("alpn_unknown_first_h2_only_common_ineligible") == 0 {
		r.Inconclusive("ALPN workload: never reached: client's first protocol unknown to the server, h2 the only common one, connection not eligible for h2")
	}
}
