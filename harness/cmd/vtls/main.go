// vtls decides the TLS properties C41 (negotiation and downgrade resistance),
// C42 (record integrity under tampering) and C44 (session resumption) of
// bfe_tls by running Go's crypto/tls client, hand-written ClientHellos and a
// record-aware man-in-the-middle against bfe_tls.Server over in-memory pipes.
package main

import (
	"fmt"
	"os"

	"verifharness/vkit"
)

func main() {
	// C42 enumerates faults; the level must be known before Start parses the flags
	level := "exploration"
	for i, a := range os.Args {
		if a == "-prop=C42" || a == "--prop=C42" || ((a == "-prop" || a == "--prop") && i+1 < len(os.Args) && os.Args[i+1] == "C42") {
			level = "fault_enumeration"
		}
	}
	r := vkit.Start(level)
	r.Assume("peer = Go crypto/tls client of this toolchain (TLS1.0-1.2, no SSLv3, no session-id resumption) plus hand-written ClientHellos; SSLv3 is only observed up to the ServerHello, except in C42, which drives complete SSLv3 connections (RSA key exchange) with the harness's own RFC 6101 client (c42ssl3.go)")
	r.Assume("server certificates: one RSA-2048 and one ECDSA P-256, generated at run time; transport is an in-memory buffered pipe (no TCP)")
	switch r.Prop {
	case "C41":
		c41(r)
	case "C42":
		c42(r)
	case "C44":
		c44(r)
	default:
		fmt.Fprintln(os.Stderr, "vtls: unknown property", r.Prop)
		os.Exit(vkit.ExitInconclusive)
	}
	leftoverPanics(r)
	r.Finish()
}
