// vtls decides the TLS properties C41 (negotiation and downgrade resistance),
// C42 (record integrity under tampering) and C44 (session resumption) of
// bfe_tls by running Go's crypto/tls client, hand-written ClientHellos and a
// record-aware man-in-the-middle against bfe_tls.Server over in-memory pipes.
package main

import (
	"fmt"
	"os"

	"verifharness/vkit"
)

func main() {
	r := vkit.Start("exploration")
	r.Assume("peer = Go crypto/tls client of this toolchain (TLS1.0-1.2, no SSLv3, no session-id resumption) plus hand-written ClientHellos; SSLv3 is only observed up to the ServerHello")
	r.Assume("server certificates: one RSA-2048 and one ECDSA P-256, generated at run time; transport is an in-memory buffered pipe (no TCP)")
	switch r.Prop {
	case "C41":
		c41(r)
	case "C42":
		r.Level = "fault_enumeration"
		c42(r)
	case "C44":
		c44(r)
	default:
		fmt.Fprintln(os.Stderr, "vtls: unknown property", r.Prop)
		os.Exit(vkit.ExitInconclusive)
	}
	leftoverPanics(r)
	r.Finish()
}
