package main

import "verifharness/vkit"

func c37(r *vkit.Run) {}
