package main

import "verifharness/vkit"

func c34(r *vkit.Run) {}
func c35(r *vkit.Run) {}
func c37(r *vkit.Run) {}
func c38(r *vkit.Run) {}
