package main

import (
	"fmt"
	"io"
	"net"
	"runtime"
	"sync"
	"sync/atomic"
	"time"

	bfe_http "github.com/bfenetworks/bfe/bfe_http"
	"github.com/bfenetworks/bfe/bfe_http2"
	"golang.org/x/net/http2"

	"verifharness/h2cli"
	"verifharness/vkit"
)

// C37: a client that keeps eliciting control frames without reading keeps the
// server's queue of pending control frames below the configured limit; past it
// the connection is closed instead of growing memory.
//
// Oracle: the queue length is sampled on the serve goroutine (accessor through
// the serve loop's own testHookCh) while the scripted client floods, and read
// once more on the former serve goroutine right after the loop ended. Both the
// server's counter (queuedControlFrames) and the real length of the scheduler's
// control queue must stay <= limit + slack, where slack (4) covers the frames
// one loop iteration can add before the check at the end of that iteration;
// once the counter exceeded the limit the connection must be observed closed.

type c37Case struct {
	Pattern   string `json:"pattern"`
	Stall     string `json:"stall"`     // never | after-preface | slow-reader
	Transport string `json:"transport"` // pipe | tcp
	N         int    `json:"n"`
	// GoAway: "" | "graceful" | "conn-error". The client first queues limit-100 control frames, then
	// the connection is put into the GOAWAY state (graceful shutdown signalled through the base
	// server's CloseNotifyCh, or RST_STREAM for an idle stream = connection error PROTOCOL_ERROR),
	// and only then the flood passes the limit. GracefulShutdownTimeout is 30 s so that the
	// shutdown timer is not what ends a graceful case.
	GoAway string `json:"goaway,omitempty"`
}

type c37Handler struct{ release chan struct{} }

func (h *c37Handler) ServeHTTP(w bfe_http.ResponseWriter, req *bfe_http.Request) {
	cn := w.(bfe_http.CloseNotifier).CloseNotify()
	select {
	case <-h.release:
	case <-cn:
	}
}

const c37Slack = 4

func c37RunCase(r *vkit.Run, cs *c37Case) (highCounter, highQueue int, closed bool, written int) {
	srv := &bfe_http2.Server{}
	limit := bfe_http2.VerifMaxQueuedControlFrames(srv)
	h := &c37Handler{release: make(chan struct{})}
	defer close(h.release)
	var tc *testConn
	hs := baseServer()
	hs.GracefulShutdownTimeout = 30 * time.Second
	shutdownCh := make(chan bool)
	hs.CloseNotifyCh = shutdownCh
	if cs.Transport == "tcp" {
		var err error
		tc, err = dialTCPSmall(srv, hs, h)
		if err != nil {
			r.Inconclusive("C37: tcp setup: " + err.Error())
			return
		}
	} else {
		sEnd, cEnd := net.Pipe()
		tc = serveOnWith(srv, hs, h, sEnd, cEnd)
	}
	tc.cli.NoRead = true
	nc := tc.cli.NetConn()
	rd := http2.NewFramer(io.Discard, nc)
	rd.SetMaxReadFrameSize(1 << 20)

	var ms0 runtime.MemStats
	runtime.ReadMemStats(&ms0)

	// sampler on the serve goroutine
	var maxC, maxQ, maxSQ, maxDiff int64
	stopSampler := make(chan struct{})
	var wg sync.WaitGroup
	wg.Add(1)
	go func() {
		defer wg.Done()
		for {
			select {
			case <-stopSampler:
				return
			default:
			}
			s, alive := tc.vc.OnServe()
			if !alive {
				return
			}
			upd := func(p *int64, v int) {
				if int64(v) > atomic.LoadInt64(p) {
					atomic.StoreInt64(p, int64(v))
				}
			}
			upd(&maxC, s.QueuedControlFrames)
			upd(&maxQ, s.ZeroQueueLen)
			upd(&maxSQ, s.StreamQueueFrames)
			d := s.QueuedControlFrames - s.ZeroQueueLen
			if d < 0 {
				d = -d
			}
			upd(&maxDiff, d)
			r.Count("queue_samples", 1)
			time.Sleep(50 * time.Microsecond)
		}
	}()

	if err := tc.cli.Start(); err != nil {
		close(stopSampler)
		wg.Wait()
		r.Count("cases_failed_start", 1)
		return
	}
	readFrames := func(n int) {
		for i := 0; i < n; i++ {
			nc.SetReadDeadline(time.Now().Add(10 * time.Second))
			if _, err := rd.ReadFrame(); err != nil {
				return
			}
		}
	}
	if cs.Stall == "after-preface" {
		readFrames(2) // server SETTINGS and its acknowledgement of ours
	}
	var openStream uint32
	if cs.Pattern == "padded-data-open-stream" || cs.Pattern == "mixed" {
		openStream = 1
		tc.cli.WriteHeaders(1, h2cli.Req("POST", "/flood"), h2cli.HeadersOpt{})
	}
	nextID := uint32(3)
	var ping [8]byte
	var werr error
	goAwayAt := -1
	if cs.GoAway != "" {
		goAwayAt = limit - 100
	}
	for i := 0; i < cs.N; i++ {
		// a write that nobody reads any more (server stopped reading) must not hang the check
		nc.SetWriteDeadline(time.Now().Add(20 * time.Second))
		if i == goAwayAt {
			switch cs.GoAway {
			case "graceful":
				close(shutdownCh)
			case "conn-error":
				// RST_STREAM for an idle stream: connection error raised while processing the frame, so
				// the server keeps reading frames during its 250 ms shutdown window
				werr = tc.cli.WriteRST(4001, http2.ErrCodeCancel)
			}
			// wait until the serve loop is in the GOAWAY state
			inGoAway := false
			for k := 0; k < 20000 && werr == nil; k++ {
				s, alive := tc.vc.OnServe()
				if !alive {
					break
				}
				if s.InGoAway {
					inGoAway = true
					break
				}
				time.Sleep(100 * time.Microsecond)
			}
			if !inGoAway {
				r.Count("goaway_state_not_reached", 1)
				break
			}
			r.Count("goaway_state_reached_before_limit", 1)
		}
		pat := cs.Pattern
		if pat == "mixed" {
			pat = []string{"ping", "settings", "rst-malformed-headers", "data-idle-stream", "window-update-zero", "padded-data-open-stream"}[i%6]
		}
		switch pat {
		case "ping":
			ping[0], ping[1], ping[2] = byte(i), byte(i>>8), byte(i>>16)
			werr = tc.cli.WritePing(false, ping)
		case "settings":
			werr = tc.cli.WriteSettings(http2.Setting{ID: http2.SettingMaxFrameSize, Val: 16384 + uint32(i%100)})
		case "rst-malformed-headers":
			werr = tc.cli.WriteHeaders(nextID, c35Fields("no-method", i), h2cli.HeadersOpt{EndStream: true})
			nextID += 2
		case "data-idle-stream":
			werr = tc.cli.WriteData(nextID+1000, false, []byte{1})
		case "window-update-zero":
			werr = tc.cli.WriteWindowUpdate(nextID+2000, 0)
		case "padded-data-open-stream":
			// zero data octets, one octet of padding: refunded at once, so the flow-control windows never close
			werr = tc.cli.WriteDataPadded(openStream, false, nil, 0)
		}
		if werr != nil {
			break
		}
		written++
		if cs.Stall == "slow-reader" && i%100 == 99 {
			readFrames(1)
		}
	}
	// the flood is over (or the transport failed): the server must settle
	// The server may still be working through input it has buffered (TCP). Wait until the serve
	// goroutine has ended, or - as long as the counter has not passed the limit - until the serve
	// loop has made no progress at all for a second (nothing left to process: the limit is not
	// going to be crossed). Past the limit the connection gets 15 s to be observed closed.
	deadline := time.Now().Add(15 * time.Second)
	stableSince := time.Now()
	prevLoop := atomic.LoadInt64(&maxC)
waitLoop:
	for time.Now().Before(deadline) {
		select {
		case <-tc.vc.Done():
			closed = true
			break waitLoop
		case <-time.After(20 * time.Millisecond):
		}
		// the sampler itself makes the loop counter advance by one per sample; compare queue growth instead
		if l := atomic.LoadInt64(&maxC); l != prevLoop {
			prevLoop, stableSince = l, time.Now()
		}
		if atomic.LoadInt64(&maxC) <= int64(limit) && time.Since(stableSince) > time.Second {
			break
		}
	}
	_ = werr
	sawCrossing := atomic.LoadInt64(&maxC) > int64(limit) // observed while the client was still connected
	close(stopSampler)
	tc.cli.Close()
	wg.Wait()
	if !closed {
		closed = false
		tc.waitDone(20 * time.Second)
	}
	fin := tc.vc.Final()
	highCounter = int(atomic.LoadInt64(&maxC))
	highQueue = int(atomic.LoadInt64(&maxQ))
	if fin.Valid {
		if fin.QueuedControlFrames > highCounter {
			highCounter = fin.QueuedControlFrames
		}
		if fin.ZeroQueueLen > highQueue {
			highQueue = fin.ZeroQueueLen
		}
	}
	var ms1 runtime.MemStats
	runtime.ReadMemStats(&ms1)
	r.Count("heap_alloc_delta_kb_sum", (int64(ms1.HeapAlloc)-int64(ms0.HeapAlloc))/1024)
	if int(atomic.LoadInt64(&maxSQ)) > 0 {
		r.Count("stream_queue_frames_highwater_sum_over_cases", atomic.LoadInt64(&maxSQ))
	}
	if d := atomic.LoadInt64(&maxDiff); d > 2 {
		r.Count("counter_vs_queue_max_difference", d)
	}
	shape := cs.Pattern + "," + cs.Stall + "," + cs.Transport
	sigPat := cs.Pattern
	if cs.GoAway != "" {
		shape += ",goaway=" + cs.GoAway
		sigPat += "-in-goaway-" + cs.GoAway
	}
	if highCounter > limit+c37Slack || highQueue > limit+c37Slack {
		r.Violation("flood:"+sigPat+"-queue-unbounded",
			fmt.Sprintf("%s: control-frame queue reached %d (counter %d) with limit %d after %d client frames", shape, highQueue, highCounter, limit, written), cs)
	}
	if highCounter > limit && !closed && !sawCrossing {
		// the limit was passed only after the client had hung up: says nothing about closing
		r.Count("limit_crossed_only_after_client_close", 1)
		closed = true
	}
	if highCounter > limit && !closed {
		r.Violation("flood:"+sigPat+"-not-closed-past-limit",
			fmt.Sprintf("%s: counter reached %d > limit %d but the connection was still being served 15s later", shape, highCounter, limit), cs)
	}
	if p := tc.vc.Panicked(); p != "" {
		r.Violation("panic:flood:"+trunc(p, 40), "serve goroutine panicked: "+p, cs)
	}
	return
}

// dialTCPSmall is dialTCP with small socket buffers on both ends so that a
// non-reading client blocks the server's writer early.
func dialTCPSmall(srv *bfe_http2.Server, hs *bfe_http.Server, h bfe_http.Handler) (*testConn, error) {
	ln, err := net.Listen("tcp", "127.0.0.1:0")
	if err != nil {
		return nil, err
	}
	defer ln.Close()
	type res struct {
		c   net.Conn
		err error
	}
	ch := make(chan res, 1)
	go func() {
		c, err := ln.Accept()
		ch <- res{c, err}
	}()
	d := net.Dialer{}
	cEnd, err := d.Dial("tcp", ln.Addr().String())
	if err != nil {
		return nil, err
	}
	a := <-ch
	if a.err != nil {
		cEnd.Close()
		return nil, a.err
	}
	if t, ok := a.c.(*net.TCPConn); ok {
		t.SetWriteBuffer(4096)
	}
	if t, ok := cEnd.(*net.TCPConn); ok {
		t.SetReadBuffer(4096)
	}
	return serveOnWith(srv, hs, h, a.c, cEnd), nil
}

func c37(r *vkit.Run) {
	limit := bfe_http2.VerifMaxQueuedControlFrames(&bfe_http2.Server{})
	r.SetRule(fmt.Sprintf("flood patterns {PING, SETTINGS, HEADERS with a missing pseudo-header (=> RST_STREAM), DATA on idle streams (=> WINDOW_UPDATE + RST_STREAM), WINDOW_UPDATE 0 on a stream (=> RST_STREAM), zero-data padded DATA on an open stream (=> 2 WINDOW_UPDATE each), round-robin mix} x reader stall {never reads, stops after the SETTINGS exchange, reads 1 frame per 100 written} x transport {net.Pipe (no buffering), loopback TCP with 4 KB socket buffers}; plus GOAWAY-state cases {graceful shutdown through CloseNotifyCh with GracefulShutdownTimeout 30 s, connection error (RST_STREAM on an idle stream, 250 ms shutdown window)} x {PING, WINDOW_UPDATE 0} x {never reads, stops after SETTINGS} on net.Pipe and PING/never on TCP: limit-100 frames are queued first, then the connection is put into the GOAWAY state (observed on the serve goroutine), then the flood passes the limit; N = 3 x limit (limit=%d) client frames per case (thorough: also 10 x limit). The serve goroutine's queuedControlFrames and the real control queue length are sampled through the serve loop and read once more after the loop ended. Cases run one at a time so that the heap delta is attributable (recorded, not judged). Non-trivial = the counter reached the limit in that case; distinct = (pattern, stall, transport, N)", limit))
	r.Assume(fmt.Sprintf("slack of %d above the limit: the check sits at the end of a serve-loop iteration and one iteration can queue several control frames", c37Slack))
	if r.Replay != "" {
		var cs c37Case
		if err := r.LoadReplay(&cs); err != nil {
			r.Inconclusive(err.Error())
			return
		}
		c37RunCase(r, &cs)
		r.Evals(1)
		r.SetMinDistinct(0)
		return
	}
	pats := []string{"ping", "settings", "rst-malformed-headers", "data-idle-stream", "window-update-zero", "padded-data-open-stream", "mixed"}
	stalls := []string{"never", "after-preface", "slow-reader"}
	var cases []c37Case
	for _, p := range pats {
		for _, s := range stalls {
			cases = append(cases, c37Case{Pattern: p, Stall: s, Transport: "pipe", N: 3 * limit})
		}
		cases = append(cases, c37Case{Pattern: p, Stall: "never", Transport: "tcp", N: 3 * limit})
		if !r.Quick() {
			cases = append(cases, c37Case{Pattern: p, Stall: "after-preface", Transport: "tcp", N: 10 * limit})
			cases = append(cases, c37Case{Pattern: p, Stall: "slow-reader", Transport: "tcp", N: 10 * limit})
			cases = append(cases, c37Case{Pattern: p, Stall: "never", Transport: "pipe", N: 10 * limit})
		}
	}
	// the same bound while the connection is already in the GOAWAY state
	for _, ga := range []string{"graceful", "conn-error"} {
		for _, p := range []string{"ping", "window-update-zero"} {
			for _, st := range []string{"never", "after-preface"} {
				cases = append(cases, c37Case{Pattern: p, Stall: st, Transport: "pipe", N: 3 * limit, GoAway: ga})
			}
		}
		cases = append(cases, c37Case{Pattern: "ping", Stall: "never", Transport: "tcp", N: 3 * limit, GoAway: ga})
	}
	crossed := 0
	for i := range cases {
		cs := &cases[i]
		hc, hq, closed, written := c37RunCase(r, cs)
		reached := hc > limit
		if reached {
			crossed++
			if closed {
				r.Count("closed_after_crossing_limit", 1)
			}
		}
		r.Count("client_frames_written", int64(written))
		r.CaseS(fmt.Sprintf("%+v", *cs), reached)
		if r.WantSample() {
			r.Sample(map[string]interface{}{"case": cs, "high_water_counter": hc, "high_water_queue": hq, "closed": closed, "client_frames_written": written})
		}
		r.Extra(fmt.Sprintf("high_water:%s,%s,%s,N=%d,goaway=%s", cs.Pattern, cs.Stall, cs.Transport, cs.N, cs.GoAway), map[string]interface{}{"counter": hc, "queue": hq, "closed": closed, "written": written})
	}
	r.Count("cases_that_crossed_the_limit", int64(crossed))
	r.Count("bfe_H2ConnExceedMaxQueuedControlFrames", bfe_http2.GetHttp2State().H2ConnExceedMaxQueuedControlFrames.Get())
	if crossed == 0 {
		r.Inconclusive("C37: no flood reached the limit; nothing was observed about the bound")
	}
}
