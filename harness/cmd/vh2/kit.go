package main

import (
	"fmt"
	"net"
	"os"
	"runtime"
	"strings"
	"sync"
	"sync/atomic"
	"time"

	"github.com/baidu/go-lib/web-monitor/metrics"
	bfe_http "github.com/bfenetworks/bfe/bfe_http"
	"github.com/bfenetworks/bfe/bfe_http2"

	"golang.org/x/net/http2/hpack"

	"verifharness/h2cli"
	"verifharness/vkit"
)

func hf(n, v string) hpack.HeaderField { return hpack.HeaderField{Name: n, Value: v} }

// initKit gives bfe's own panic counters real storage (they are nil pointers
// unless the full server wires them) so they can be read as a second witness.
func initKit() {
	st := bfe_http2.GetHttp2State()
	st.H2PanicConn = new(metrics.Counter)
	st.H2PanicStream = new(metrics.Counter)
	st.H2ConnExceedMaxQueuedControlFrames = new(metrics.Counter)
	st.H2ErrMaxStreamPerConn = new(metrics.Counter)
}

// checkPanics turns every serve-goroutine panic recorded by the hook, and
// bfe's own panic counters, into violations. Called once at the end.
var panicSeen int32 // panics already reported by a property's own oracle with a specific signature

func checkPanics(r *vkit.Run) {
	ps := bfe_http2.VerifPanics()
	r.Count("serve_panics_recovered", int64(len(ps)))
	st := bfe_http2.GetHttp2State()
	r.Count("bfe_H2PanicConn", st.H2PanicConn.Get())
	r.Count("bfe_H2PanicStream", st.H2PanicStream.Get())
	exp := atomic.LoadInt64(&expectedHandlerPanics)
	// bfe bumps H2PanicStream at the very end of runHandler's deferred function, after the harness
	// handler has been left: give the last handler goroutines a moment to get there
	for i := 0; i < 5000 && st.H2PanicStream.Get() != exp; i++ {
		time.Sleep(time.Millisecond)
	}
	r.Count("handler_panics_provoked_on_purpose", exp)
	if int(atomic.LoadInt32(&panicSeen)) >= len(ps) && st.H2PanicStream.Get() == exp {
		return
	}
	seen := map[string]bool{}
	for _, p := range ps {
		sig := panicSig(p)
		if seen[sig] {
			continue
		}
		seen[sig] = true
		r.Violation(sig, "bfe_http2 serve goroutine panicked (recovered by notePanic): "+p.Value,
			map[string]interface{}{"panic": p.Value, "stack": trunc(p.Stack, 4000)})
	}
	if n := st.H2PanicStream.Get(); n != exp {
		r.Violation("panic:handler-goroutine", "bfe counted handler-goroutine panics (H2PanicStream)", map[string]interface{}{"count": n})
	}
}

// panicSig names a serve panic by its message class and the innermost bfe_http2 frame.
func panicSig(p bfe_http2.VerifPanic) string {
	frame := "unknown"
	lines := strings.Split(p.Stack, "\n")
	past := false
	for _, l := range lines {
		if strings.HasPrefix(l, "panic(") {
			past = true
			continue
		}
		if !past {
			continue
		}
		if i := strings.Index(l, "github.com/bfenetworks/bfe/"); i == 0 {
			f := strings.TrimPrefix(l, "github.com/bfenetworks/bfe/")
			if j := strings.LastIndex(f, "("); j > 0 {
				f = f[:j]
			}
			if strings.Contains(f, "zz_verif") || strings.Contains(f, "Verif") {
				continue
			}
			frame = f
			break
		}
	}
	return "panic:" + frame
}

func trunc(s string, n int) string {
	if len(s) <= n {
		return s
	}
	return s[:n]
}

// testConn is one client/server pair.
type testConn struct {
	cli *h2cli.Conn
	vc  *bfe_http2.VerifConn
}

func baseServer() *bfe_http.Server {
	return &bfe_http.Server{ReadTimeout: 10 * time.Minute, GracefulShutdownTimeout: 2 * time.Second}
}

// dialPipe serves one connection over net.Pipe with the real bfe_http2 server.
func dialPipe(srv *bfe_http2.Server, h bfe_http.Handler) *testConn {
	sEnd, cEnd := net.Pipe()
	return serveOn(srv, h, sEnd, cEnd)
}

// dialTCP serves one connection over loopback TCP.
func dialTCP(srv *bfe_http2.Server, h bfe_http.Handler) (*testConn, error) {
	ln, err := net.Listen("tcp", "127.0.0.1:0")
	if err != nil {
		return nil, err
	}
	defer ln.Close()
	type res struct {
		c   net.Conn
		err error
	}
	ch := make(chan res, 1)
	go func() {
		c, err := ln.Accept()
		ch <- res{c, err}
	}()
	cEnd, err := net.Dial("tcp", ln.Addr().String())
	if err != nil {
		return nil, err
	}
	a := <-ch
	if a.err != nil {
		cEnd.Close()
		return nil, a.err
	}
	return serveOn(srv, h, a.c, cEnd), nil
}

func serveOn(srv *bfe_http2.Server, h bfe_http.Handler, sEnd, cEnd net.Conn) *testConn {
	return serveOnWith(srv, baseServer(), h, sEnd, cEnd)
}

// serveOnWith is serveOn with a caller-supplied base server (graceful
// shutdown channel, shutdown timeout).
func serveOnWith(srv *bfe_http2.Server, hs *bfe_http.Server, h bfe_http.Handler, sEnd, cEnd net.Conn) *testConn {
	if srv == nil {
		srv = &bfe_http2.Server{}
	}
	vc := bfe_http2.VerifNewConn(sEnd)
	go vc.Serve(srv, hs, h)
	return &testConn{cli: h2cli.New(cEnd), vc: vc}
}

// waitDone waits for the serve goroutine to finish (bounded; false = still running).
func (tc *testConn) waitDone(d time.Duration) bool {
	select {
	case <-tc.vc.Done():
		return true
	case <-time.After(d):
		return false
	}
}

// quiesce waits until the serve loop reports that nothing is queued or in
// flight, then does a PING round trip so that everything written before has
// been read by the client. It returns false if the connection ended or the
// state never became idle within the safety bound (caller: inconclusive).
func (tc *testConn) quiesce() bool {
	ok := tc.quiesce1()
	if !ok && os.Getenv("VH2_DEBUG") != "" {
		s, alive := tc.vc.OnServe()
		e, err := tc.cli.Ended()
		fmt.Fprintf(os.Stderr, "quiesce failed: alive=%v snap=%+v ended=%v err=%v werr=%v\n", alive, s, e, err, tc.cli.WriteErr())
	}
	return ok
}

// idleButBlocked: nothing in flight and no control frame queued; DATA frames may sit in stream
// queues waiting for flow-control window.
func idleButBlocked(s bfe_http2.VerifSnapshot) bool {
	return s.Valid && !s.WritingFrame && !s.NeedSettingsAck && !s.NeedGoAway && !s.NeedsFlush && s.ZeroQueueLen == 0
}

func (tc *testConn) waitIdle() bool { return tc.waitIdleP(false) }

func (tc *testConn) waitIdleP(allowBlockedData bool) bool {
	for i := 0; i < 30000; i++ {
		s, alive := tc.vc.OnServe()
		if !alive {
			return false
		}
		if s.Idle() || (allowBlockedData && idleButBlocked(s)) {
			return true
		}
		if i < 100 {
			runtime.Gosched()
		} else {
			time.Sleep(200 * time.Microsecond)
		}
	}
	return false
}

// quiesce1: idle -> PING -> idle -> PING; quiescent iff the client received
// nothing but the two acknowledgements in between (the second round trip also
// guarantees that the reader goroutine has delivered everything written
// before it).
func (tc *testConn) quiesce1() bool { return tc.quiesceP(false) }

// quiesceBlocked is quiesce for a server that may hold DATA it cannot send for lack of window.
func (tc *testConn) quiesceBlocked() bool { return tc.quiesceP(true) }

func (tc *testConn) quiesceP(allowBlockedData bool) bool {
	for attempt := 0; attempt < 200; attempt++ {
		if !tc.waitIdleP(allowBlockedData) {
			return false
		}
		n0 := tc.cli.NumEvents()
		if _, err := tc.cli.Sync(); err != nil {
			return false
		}
		if !tc.waitIdleP(allowBlockedData) {
			return false
		}
		if _, err := tc.cli.Sync(); err != nil {
			return false
		}
		if tc.cli.NumEvents() == n0+2 {
			return true
		}
	}
	return false
}

// handlerCensus counts harness handler invocations that have not returned.
type handlerCensus struct {
	mu      sync.Mutex
	active  map[string]int
	entered int64
}

func (hc *handlerCensus) enter(k string) {
	hc.mu.Lock()
	if hc.active == nil {
		hc.active = map[string]int{}
	}
	hc.active[k]++
	hc.entered++
	hc.mu.Unlock()
}

func (hc *handlerCensus) leave(k string) {
	hc.mu.Lock()
	hc.active[k]--
	if hc.active[k] == 0 {
		delete(hc.active, k)
	}
	hc.mu.Unlock()
}

func (hc *handlerCensus) running() int {
	hc.mu.Lock()
	defer hc.mu.Unlock()
	n := 0
	for _, v := range hc.active {
		n += v
	}
	return n
}

// waitNone polls until no handler is running (bounded).
func (hc *handlerCensus) waitNone(d time.Duration) bool {
	dl := time.Now().Add(d)
	for {
		if hc.running() == 0 {
			return true
		}
		if time.Now().After(dl) {
			return false
		}
		time.Sleep(time.Millisecond)
	}
}

var _ = vkit.Hash64

// envN lets a developer shrink a run (VH2_N); never set by bin/check.
func envN(n int) int {
	if v := os.Getenv("VH2_N"); v != "" {
		var k int
		if _, err := fmt.Sscan(v, &k); err == nil && k > 0 {
			return k
		}
	}
	return n
}
